import SimbodyModel.C33_WQ
import Mathlib.Tactic.Linarith
/-!
# C33 — invariants of the ParallelWorkQueue transition system (helper lemmas)

`LockInv` (owner of `queueMutex` = thread inside a critical section) and `DataInv` (where every task is, the
meaning of `pendingTasks`, what an exited worker implies), inductive over every action of every thread including
spurious wake-ups and every choice of `notify_one`.  The property theorems are stated in `SimbodyProofs/C33.lean`.
-/
set_option linter.unusedSimpArgs false
set_option linter.unnecessarySeqFocus false
set_option linter.unusedVariables false
set_option linter.unreachableTactic false
set_option linter.unusedTactic false
namespace C33.WQ
open C33.PE (upd)

@[simp] theorem upd_same {α : Type} (f : Nat → α) (i : Nat) (v : α) : upd f i v i = v := by simp [upd]
theorem upd_other {α : Type} (f : Nat → α) {i j : Nat} (v : α) (h : j ≠ i) : upd f i v j = f j := by simp [upd, h]

def holdsW : WPc → Bool
  | .mark | .waitChk | .take | .exitMark => true
  | _ => false
def holdsP : PPc → Bool
  | .addChk | .flushChk | .dSet => true
  | _ => false

/-- the owner of `queueMutex` is exactly the thread inside a critical section; every access to `taskQueue` and
`pendingTasks` other than the reads in the worker's loop condition happens at such a program counter -/
structure LockInv (s : State) : Prop where
  w : ∀ w, w < s.n → holdsW (s.wk w).pc = true → s.mutex = some (.worker w)
  m : holdsP s.ppc = true → s.mutex = some .main
  convW : ∀ w, s.mutex = some (.worker w) → w < s.n ∧ holdsW (s.wk w).pc = true
  convM : s.mutex = some .main → holdsP s.ppc = true

@[simp] theorem holdsP_wakeProd (pc : PPc) : holdsP (wakeProd pc) = holdsP pc := by
  cases pc <;> rfl

theorem firstBlocked_spec (wk : Nat → Worker) : ∀ k v, firstBlocked wk k = some v → (wk v).pc = .blocked := by
  intro k; induction k with
  | zero => intro v h; simp [firstBlocked] at h
  | succ k ih =>
    intro v h
    simp only [firstBlocked] at h
    cases hf : firstBlocked wk k with
    | some u => rw [hf] at h; simp at h; subst h; exact ih u hf
    | none => rw [hf] at h; simp at h; obtain ⟨h1, h2⟩ := h; subst h2; exact h1

/-- `notify_one` changes nothing but the program counter of at most one blocked worker -/
theorem wakeOne_spec (wk : Nat → Worker) (n pick v : Nat) :
    wakeOne wk n pick v = wk v ∨ ((wk v).pc = .blocked ∧ wakeOne wk n pick v = { wk v with pc := .reacq }) := by
  have key : ∀ target : Option Nat, (∀ u, target = some u → (wk u).pc = .blocked) →
      (match target with | some u => upd wk u { wk u with pc := .reacq } | none => wk) v = wk v ∨
      ((wk v).pc = .blocked ∧
        (match target with | some u => upd wk u { wk u with pc := .reacq } | none => wk) v = { wk v with pc := .reacq }) := by
    intro target ht
    cases target with
    | none => left; rfl
    | some u =>
      by_cases hvu : v = u
      · subst hvu; right; exact ⟨ht v rfl, by simp⟩
      · left; exact upd_other _ _ hvu
  unfold wakeOne
  apply key
  intro u hu
  split at hu
  · rename_i hp; injection hu with hu; subst hu; exact hp.2
  · exact firstBlocked_spec wk n u hu

theorem wakeAll_spec (wk : Nat → Worker) (v : Nat) :
    wakeAll wk v = wk v ∨ ((wk v).pc = .blocked ∧ wakeAll wk v = { wk v with pc := .reacq }) := by
  unfold wakeAll
  split
  · rename_i h; exact Or.inr ⟨h, rfl⟩
  · exact Or.inl rfl

/-- a worker record after a possible wake-up -/
def Woken (x x' : Worker) : Prop := x' = x ∨ (x.pc = .blocked ∧ x' = { x with pc := .reacq })

theorem woken_holds {x x' : Worker} (h : Woken x x') : holdsW x'.pc = holdsW x.pc := by
  rcases h with h | ⟨hb, h⟩ <;> subst h
  · rfl
  · simp [hb, holdsW]

section frames
variable {s s' : State} {w : Nat} {x' : Worker}

theorem lock_w_keep (hi : LockInv s) (hn : s'.n = s.n) (hwk : s'.wk = upd s.wk w x')
    (hmpc : holdsP s'.ppc = holdsP s.ppc) (hmu : s'.mutex = s.mutex) (hh : holdsW x'.pc = holdsW (s.wk w).pc) :
    LockInv s' := by
  have key : ∀ v, holdsW (s'.wk v).pc = holdsW (s.wk v).pc := by
    intro v; rw [hwk]; by_cases hv : v = w
    · subst hv; simp [hh]
    · rw [upd_other _ _ hv]
  constructor
  · intro v hv hh'; rw [hn] at hv; rw [key] at hh'; rw [hmu]; exact hi.w v hv hh'
  · intro hm; rw [hmpc] at hm; rw [hmu]; exact hi.m hm
  · intro v hv; rw [hmu] at hv; rw [hn, key]; exact hi.convW v hv
  · intro hm; rw [hmu] at hm; rw [hmpc]; exact hi.convM hm

theorem lock_free_noW (hi : LockInv s) (hfree : s.mutex = none) (v : Nat) (hv : v < s.n) : holdsW (s.wk v).pc = false := by
  cases h : holdsW (s.wk v).pc
  · rfl
  · have := hi.w v hv h; rw [hfree] at this; cases this

theorem lock_free_noM (hi : LockInv s) (hfree : s.mutex = none) : holdsP s.ppc = false := by
  cases h : holdsP s.ppc
  · rfl
  · have := hi.m h; rw [hfree] at this; cases this

theorem lock_w_acq (hi : LockInv s) (hwn : w < s.n) (hn : s'.n = s.n) (hwk : s'.wk = upd s.wk w x')
    (hmpc : holdsP s'.ppc = holdsP s.ppc) (hfree : s.mutex = none) (hmu : s'.mutex = some (.worker w))
    (hh : holdsW x'.pc = true) : LockInv s' := by
  constructor
  · intro v hv hh'
    rw [hn] at hv
    by_cases hvw : v = w
    · subst hvw; exact hmu
    · rw [hwk, upd_other _ _ hvw, lock_free_noW hi hfree v hv] at hh'; cases hh'
  · intro hm; rw [hmpc, lock_free_noM hi hfree] at hm; cases hm
  · intro v hv; rw [hmu] at hv; injection hv with hv; injection hv with hv; subst hv
    rw [hn, hwk]; simp [hwn, hh]
  · intro hm; rw [hmu] at hm; injection hm with hm; cases hm

theorem lock_w_rel (hi : LockInv s) (hwn : w < s.n) (hn : s'.n = s.n) (hwk : s'.wk = upd s.wk w x')
    (hmpc : holdsP s'.ppc = holdsP s.ppc) (hold : holdsW (s.wk w).pc = true) (hmu : s'.mutex = none)
    (hh : holdsW x'.pc = false) : LockInv s' := by
  have hown := hi.w w hwn hold
  constructor
  · intro v hv hh'
    rw [hn] at hv
    by_cases hvw : v = w
    · subst hvw; rw [hwk] at hh'; simp [hh] at hh'
    · rw [hwk, upd_other _ _ hvw] at hh'
      have := hi.w v hv hh'; rw [hown] at this; injection this with this; injection this with this
      exact absurd this.symm hvw
  · intro hm; rw [hmpc] at hm; have := hi.m hm; rw [hown] at this; injection this with this; cases this
  · intro v hv; rw [hmu] at hv; cases hv
  · intro hm; rw [hmu] at hm; cases hm

theorem lock_m_keep (hi : LockInv s) (hn : s'.n = s.n) (hwk : ∀ v, holdsW (s'.wk v).pc = holdsW (s.wk v).pc)
    (hmu : s'.mutex = s.mutex) (hh : holdsP s'.ppc = holdsP s.ppc) : LockInv s' := by
  constructor
  · intro v hv hh'; rw [hn] at hv; rw [hwk] at hh'; rw [hmu]; exact hi.w v hv hh'
  · intro hm; rw [hh] at hm; rw [hmu]; exact hi.m hm
  · intro v hv; rw [hmu] at hv; rw [hn, hwk]; exact hi.convW v hv
  · intro hm; rw [hmu] at hm; rw [hh]; exact hi.convM hm

theorem lock_m_acq (hi : LockInv s) (hn : s'.n = s.n) (hwk : ∀ v, holdsW (s'.wk v).pc = holdsW (s.wk v).pc)
    (hfree : s.mutex = none) (hmu : s'.mutex = some .main) (hh : holdsP s'.ppc = true) : LockInv s' := by
  constructor
  · intro v hv hh'; rw [hn] at hv; rw [hwk, lock_free_noW hi hfree v hv] at hh'; cases hh'
  · intro _; exact hmu
  · intro v hv; rw [hmu] at hv; injection hv with hv; cases hv
  · intro _; exact hh

theorem lock_m_rel (hi : LockInv s) (hn : s'.n = s.n) (hwk : ∀ v, holdsW (s'.wk v).pc = holdsW (s.wk v).pc)
    (hold : holdsP s.ppc = true) (hmu : s'.mutex = none) (hh : holdsP s'.ppc = false) : LockInv s' := by
  have hown := hi.m hold
  constructor
  · intro v hv hh'; rw [hn] at hv; rw [hwk] at hh'; have := hi.w v hv hh'; rw [hown] at this
    injection this with this; cases this
  · intro hm; rw [hh] at hm; cases hm
  · intro v hv; rw [hmu] at hv; cases hv
  · intro hm; rw [hmu] at hm; cases hm
end frames

theorem lockInv_init (n q : Nat) (todo : List Op) : LockInv (init n q todo) := by
  constructor <;> simp [init, holdsW, holdsP]

theorem lockInv_step {s s' : State} {a : Act} (hi : LockInv s) (h : step s a = some s') : LockInv s' := by
  cases a with
  | step t pick =>
    cases t with
    | main =>
      simp only [step, stepMain] at h
      cases hpc : s.ppc <;> simp only [hpc] at h
      case idle =>
        split at h <;> (injection h with h; subst h; exact lock_m_keep hi rfl (fun _ => rfl) rfl (by simp [hpc, holdsP]))
      case addLock =>
        split at h
        · rename_i hf; injection h with h; subst h; exact lock_m_acq hi rfl (fun _ => rfl) hf rfl rfl
        · cases h
      case addChk =>
        split at h
        · injection h with h; subst h
          exact lock_m_rel hi rfl (fun v => woken_holds (wakeOne_spec _ _ _ v)) (by simp [hpc, holdsP]) rfl rfl
        · injection h with h; subst h; exact lock_m_rel hi rfl (fun _ => rfl) (by simp [hpc, holdsP]) rfl rfl
      case addBlocked => cases h
      case addReacq =>
        split at h
        · rename_i hf; injection h with h; subst h; exact lock_m_acq hi rfl (fun _ => rfl) hf rfl rfl
        · cases h
      case flushLock =>
        split at h
        · rename_i hf; injection h with h; subst h; exact lock_m_acq hi rfl (fun _ => rfl) hf rfl rfl
        · cases h
      case flushChk =>
        split at h <;> (injection h with h; subst h; exact lock_m_rel hi rfl (fun _ => rfl) (by simp [hpc, holdsP]) rfl rfl)
      case flushBlocked => cases h
      case flushReacq =>
        split at h
        · rename_i hf; injection h with h; subst h; exact lock_m_acq hi rfl (fun _ => rfl) hf rfl rfl
        · cases h
      case dLock =>
        split at h
        · rename_i hf; injection h with h; subst h; exact lock_m_acq hi rfl (fun _ => rfl) hf rfl rfl
        · cases h
      case dSet =>
        injection h with h; subst h
        exact lock_m_rel hi rfl (fun v => woken_holds (wakeAll_spec _ v)) (by simp [hpc, holdsP]) rfl rfl
      case join =>
        split at h
        · injection h with h; subst h; exact lock_m_keep hi rfl (fun _ => rfl) rfl (by simp [hpc, holdsP])
        · cases h
      case final => cases h
    | worker w =>
      simp only [step, stepWorker] at h
      split at h
      · rename_i hwn
        cases hpc : (s.wk w).pc <;> simp only [hpc] at h
        case loopTest =>
          injection h with h; subst h
          exact lock_w_keep hi rfl rfl rfl rfl (by simp only [hpc]; split <;> simp [holdsW])
        case lockAcq =>
          split at h
          · rename_i hf; injection h with h; subst h; exact lock_w_acq hi hwn rfl rfl rfl hf rfl rfl
          · cases h
        case mark =>
          split at h
          · injection h with h; subst h; exact lock_w_keep hi rfl rfl (by simp) rfl (by simp [hpc, holdsW])
          · injection h with h; subst h; exact lock_w_keep hi rfl rfl rfl rfl (by simp [hpc, holdsW])
        case waitChk =>
          split at h
          · injection h with h; subst h; exact lock_w_keep hi rfl rfl rfl rfl (by simp [hpc, holdsW])
          · injection h with h; subst h; exact lock_w_rel hi hwn rfl rfl rfl (by simp [hpc, holdsW]) rfl rfl
        case blocked => cases h
        case reacq =>
          split at h
          · rename_i hf; injection h with h; subst h; exact lock_w_acq hi hwn rfl rfl rfl hf rfl rfl
          · cases h
        case take =>
          split at h <;> (injection h with h; subst h
                          exact lock_w_rel hi hwn rfl rfl (by simp) (by simp [hpc, holdsW]) rfl rfl)
        case run t =>
          injection h with h; subst h; exact lock_w_keep hi rfl rfl rfl rfl (by simp [hpc, holdsW])
        case exitLock =>
          split at h
          · split at h
            · rename_i hf; injection h with h; subst h; exact lock_w_acq hi hwn rfl rfl rfl hf rfl rfl
            · cases h
          · injection h with h; subst h; exact lock_w_keep hi rfl rfl rfl rfl (by simp [hpc, holdsW])
        case exitMark =>
          injection h with h; subst h
          exact lock_w_rel hi hwn rfl rfl (by simp) (by simp [hpc, holdsW]) rfl rfl
        case done => cases h
      · cases h
  | spurious t =>
    cases t with
    | main =>
      simp only [step] at h
      split at h
      · rename_i hb; injection h with h; subst h; exact lock_m_keep hi rfl (fun _ => rfl) rfl (by simp [hb, holdsP])
      · rename_i hb; injection h with h; subst h; exact lock_m_keep hi rfl (fun _ => rfl) rfl (by simp [hb, holdsP])
      · cases h
    | worker w =>
      simp only [step] at h
      split at h
      · rename_i hb; injection h with h; subst h
        exact lock_w_keep hi rfl rfl rfl rfl (by simp [hb.2, holdsW])
      · cases h

/-! ### data invariant -/
def isRun : WPc → Bool
  | .run _ => true
  | _ => false
def exited : WPc → Bool
  | .exitLock | .exitMark | .done => true
  | _ => false
def decClear : WPc → Bool
  | .waitChk | .blocked | .reacq | .take | .run _ => true
  | _ => false
def runs (x : Worker) : Nat := if isRun x.pc then 1 else 0
def load (x : Worker) : Nat := runs x + (if x.dec then 1 else 0)

def sumN (f : Nat → Nat) : Nat → Nat
  | 0 => 0
  | k + 1 => sumN f k + f k

theorem sumN_congr {f g : Nat → Nat} : ∀ k, (∀ v, v < k → f v = g v) → sumN f k = sumN g k := by
  intro k; induction k with
  | zero => intro _; rfl
  | succ k ih => intro h; simp only [sumN]; rw [ih (fun v hv => h v (by omega)), h k (by omega)]

theorem sumN_upd (f : Worker → Nat) (wk : Nat → Worker) (w : Nat) (x' : Worker) :
    ∀ k, w < k → sumN (fun v => f (upd wk w x' v)) k + f (wk w) = sumN (fun v => f (wk v)) k + f x' := by
  intro k; induction k with
  | zero => intro h; omega
  | succ k ih =>
    intro h
    simp only [sumN]
    by_cases hk : w = k
    · subst hk
      rw [sumN_congr (g := fun v => f (wk v)) w (fun v hv => by rw [upd_other _ _ (by omega)]), upd_same]
      omega
    · have := ih (by omega)
      rw [upd_other _ _ (fun e => hk e.symm)]
      omega

theorem sumN_le (f : Nat → Nat) : ∀ k w, w < k → f w ≤ sumN f k := by
  intro k; induction k with
  | zero => intro w h; omega
  | succ k ih =>
    intro w h
    simp only [sumN]
    by_cases hk : w = k
    · subst hk; omega
    · have := ih w (by omega); omega

theorem sumN_zero {f : Nat → Nat} {k : Nat} (h : sumN f k = 0) (w : Nat) (hw : w < k) : f w = 0 := by
  have := sumN_le f k w hw; omega

theorem runs_le_load (x : Worker) : runs x ≤ load x := by unfold load; omega

structure DataInv (s : State) : Prop where
  pend : s.pending = s.queue.length + sumN (fun v => load (s.wk v)) s.n
  comp : s.completed + s.queue.length + sumN (fun v => runs (s.wk v)) s.n = s.nextId
  qnodup : s.queue.Nodup
  locq : ∀ t, s.loc t = .queued ↔ t ∈ s.queue
  locr : ∀ t w, s.loc t = .running w ↔ (w < s.n ∧ (s.wk w).pc = .run t)
  locf : ∀ t, s.loc t = .fresh ↔ s.nextId ≤ t
  ec : ∀ t, s.execCount t = if s.loc t = .finished then 1 else 0
  flush : ∀ p, p ∈ s.flushLog → p.1 = p.2
  exd : ∀ w, w < s.n → exited (s.wk w).pc = true → s.finished = true ∧ s.queue = []
  finp : s.finished = true → s.ppc = .join ∨ s.ppc = .final
  dcl : ∀ w, w < s.n → decClear (s.wk w).pc = true → (s.wk w).dec = false
  fdone : s.ppc = .final → ∀ w, w < s.n → (s.wk w).pc = .done
  emd : ∀ w, w < s.n → (s.wk w).pc = .exitMark → (s.wk w).dec = true

theorem wakeProd_join {p : PPc} (h : p = .join ∨ p = .final) : wakeProd p = .join ∨ wakeProd p = .final := by
  rcases h with h | h <;> subst h <;> simp [wakeProd]

section dframes
variable {s s' : State} {w : Nat} {x' : Worker}

/-- a worker step that leaves queue, ids and ghost task state alone -/
theorem data_w (hi : DataInv s) (hwn : w < s.n) (hn : s'.n = s.n) (hq : s'.queue = s.queue) (hloc : s'.loc = s.loc)
    (hec : s'.execCount = s.execCount) (hnext : s'.nextId = s.nextId) (hcomp : s'.completed = s.completed)
    (hfl : s'.flushLog = s.flushLog) (hfin : s'.finished = s.finished)
    (hppc : s'.ppc = s.ppc ∨ s'.ppc = wakeProd s.ppc) (hwk : s'.wk = upd s.wk w x')
    (hld : load x' ≤ load (s.wk w)) (hpend : s'.pending = s.pending - (load (s.wk w) - load x'))
    (hruns : runs x' = runs (s.wk w)) (hrun : ∀ t, x'.pc = .run t ↔ (s.wk w).pc = .run t)
    (hex : exited x'.pc = true → exited (s.wk w).pc = true ∨ (s.finished = true ∧ s.queue = []))
    (hdc : decClear x'.pc = true → x'.dec = false) (hnd : (s.wk w).pc ≠ .done)
    (hem : x'.pc = .exitMark → x'.dec = true) : DataInv s' := by
  have h1 := sumN_upd load s.wk w x' s.n hwn
  have h2 := sumN_upd runs s.wk w x' s.n hwn
  have h3 := sumN_le (fun v => load (s.wk v)) s.n w hwn
  constructor
  · rw [hpend, hq, hn, hwk, hi.pend]; omega
  · rw [hcomp, hq, hn, hwk, hnext]; have := hi.comp; omega
  · rw [hq]; exact hi.qnodup
  · intro t; rw [hloc, hq]; exact hi.locq t
  · intro t v
    rw [hloc, hn, hwk, hi.locr t v]
    by_cases hvw : v = w
    · subst hvw; rw [upd_same, hrun]
    · rw [upd_other _ _ hvw]
  · intro t; rw [hloc, hnext]; exact hi.locf t
  · intro t; rw [hec, hloc]; exact hi.ec t
  · rw [hfl]; exact hi.flush
  · intro v hv hx
    rw [hn] at hv
    rw [hfin, hq]
    by_cases hvw : v = w
    · subst hvw
      rw [hwk, upd_same] at hx
      rcases hex hx with h | h
      · exact hi.exd v hv h
      · exact h
    · rw [hwk, upd_other _ _ hvw] at hx; exact hi.exd v hv hx
  · intro hf
    rw [hfin] at hf
    rcases hppc with h | h <;> rw [h]
    · exact hi.finp hf
    · exact wakeProd_join (hi.finp hf)
  · intro v hv hd
    rw [hn] at hv
    by_cases hvw : v = w
    · subst hvw; rw [hwk, upd_same] at hd ⊢; exact hdc hd
    · rw [hwk, upd_other _ _ hvw] at hd ⊢; exact hi.dcl v hv hd
  · intro hf
    have hf' : s.ppc = .final := by
      rcases hppc with h | h <;> rw [h] at hf
      · exact hf
      · cases hp : s.ppc <;> rw [hp] at hf <;> simp [wakeProd] at hf <;> rfl
    exact absurd (hi.fdone hf' w hwn) hnd
  · intro v hv hd
    rw [hn] at hv
    by_cases hvw : v = w
    · subst hvw; rw [hwk, upd_same] at hd ⊢; exact hem hd
    · rw [hwk, upd_other _ _ hvw] at hd ⊢; exact hi.emd v hv hd

/-- a producer step that changes nothing but its own program counter (and possibly the mutex) -/
theorem data_m (hi : DataInv s) (hn : s'.n = s.n) (hq : s'.queue = s.queue) (hloc : s'.loc = s.loc)
    (hec : s'.execCount = s.execCount) (hnext : s'.nextId = s.nextId) (hcomp : s'.completed = s.completed)
    (hfl : s'.flushLog = s.flushLog) (hfin : s'.finished = s.finished) (hwk : s'.wk = s.wk)
    (hpend : s'.pending = s.pending) (hfinp : s.finished = true → s'.ppc = .join ∨ s'.ppc = .final)
    (hfd : s'.ppc = .final → ∀ w, w < s.n → (s.wk w).pc = .done) : DataInv s' := by
  constructor
  · rw [hpend, hq, hn, hwk]; exact hi.pend
  · rw [hcomp, hq, hn, hwk, hnext]; exact hi.comp
  · rw [hq]; exact hi.qnodup
  · intro t; rw [hloc, hq]; exact hi.locq t
  · intro t v; rw [hloc, hn, hwk]; exact hi.locr t v
  · intro t; rw [hloc, hnext]; exact hi.locf t
  · intro t; rw [hec, hloc]; exact hi.ec t
  · rw [hfl]; exact hi.flush
  · intro v hv hx; rw [hn] at hv; rw [hwk] at hx; rw [hfin, hq]; exact hi.exd v hv hx
  · intro hf; rw [hfin] at hf; exact hfinp hf
  · intro v hv hd; rw [hn] at hv; rw [hwk] at hd ⊢; exact hi.dcl v hv hd
  · intro hf v hv; rw [hn] at hv; rw [hwk]; exact hfd hf v hv
  · intro v hv hd; rw [hn] at hv; rw [hwk] at hd ⊢; exact hi.emd v hv hd
end dframes

theorem dataInv_init (n q : Nat) (todo : List Op) : DataInv (init n q todo) := by
  have z : ∀ (f : Worker → Nat) k, f ⟨.loopTest, false⟩ = 0 → sumN (fun _ => f ⟨.loopTest, false⟩) k = 0 := by
    intro f k h; induction k with
    | zero => rfl
    | succ k ih => simp only [sumN]; rw [ih, h]
  constructor
  · simp only [init]; rw [z load n (by simp [load, runs, isRun])]; rfl
  · simp only [init]; rw [z runs n (by simp [runs, isRun])]; rfl
  · simp [init]
  · simp [init]
  · simp [init]
  · simp [init]
  · simp [init]
  · simp [init]
  · simp [init, exited]
  · simp [init]
  · simp [init, decClear]
  · simp [init]
  · simp [init]

theorem woken_facts {x x' : Worker} (h : Woken x x') :
    load x' = load x ∧ runs x' = runs x ∧ (∀ t, x'.pc = .run t ↔ x.pc = .run t) ∧ exited x'.pc = exited x.pc ∧
    x'.dec = x.dec ∧ (decClear x'.pc = decClear x.pc) ∧ (x'.pc = .done ↔ x.pc = .done) := by
  rcases h with h | ⟨hb, h⟩ <;> subst h
  · simp
  · simp [load, runs, isRun, exited, decClear, hb]

theorem sumN_zero_of {f : Nat → Nat} : ∀ k, (∀ v, v < k → f v = 0) → sumN f k = 0 := by
  intro k; induction k with
  | zero => intro _; rfl
  | succ k ih => intro h; simp only [sumN]; rw [ih (fun v hv => h v (by omega)), h k (by omega)]

theorem isRun_false_iff {p : WPc} (h : isRun p = false) (t : Nat) : p ≠ .run t := by
  intro e; subst e; simp [isRun] at h

/-- worker step that only moves the program counter between non-`run` locations -/
theorem data_w_pc {s s' : State} {w : Nat} {p' : WPc} (hi : DataInv s) (hwn : w < s.n) (hn : s'.n = s.n)
    (hq : s'.queue = s.queue) (hloc : s'.loc = s.loc)
    (hec : s'.execCount = s.execCount) (hnext : s'.nextId = s.nextId) (hcomp : s'.completed = s.completed)
    (hfl : s'.flushLog = s.flushLog) (hfin : s'.finished = s.finished)
    (hppc : s'.ppc = s.ppc ∨ s'.ppc = wakeProd s.ppc) (hwk : s'.wk = upd s.wk w { s.wk w with pc := p' })
    (hpend : s'.pending = s.pending) (h1 : isRun (s.wk w).pc = false) (h2 : isRun p' = false)
    (hex : exited p' = true → exited (s.wk w).pc = true ∨ (s.finished = true ∧ s.queue = []))
    (hdc : decClear p' = true → (s.wk w).dec = false) (hnd : (s.wk w).pc ≠ .done)
    (hem : p' = .exitMark → (s.wk w).dec = true) : DataInv s' := by
  have e1 : runs { s.wk w with pc := p' } = runs (s.wk w) := by simp [runs, h1, h2]
  have e2 : load { s.wk w with pc := p' } = load (s.wk w) := by simp [load, e1]
  refine data_w hi hwn hn hq hloc hec hnext hcomp hfl hfin hppc hwk (by omega) (by rw [hpend]; omega) e1 ?_ hex hdc hnd hem
  intro t
  constructor
  · intro e; exact absurd e (isRun_false_iff h2 t)
  · intro e; exact absurd e (isRun_false_iff h1 t)

theorem dataInv_step_worker {s s' : State} {w : Nat} (hi : DataInv s) (h : stepWorker s w = some s') : DataInv s' := by
  simp only [stepWorker] at h
  split at h
  · rename_i hwn
    cases hpc : (s.wk w).pc <;> simp only [hpc] at h
    case loopTest =>
      injection h with h; subst h
      refine data_w_pc hi hwn rfl rfl rfl rfl rfl rfl rfl rfl (Or.inl rfl) rfl rfl (by simp [hpc, isRun])
        (by split <;> rfl) ?_ (by split <;> simp [decClear]) (by simp [hpc]) (by split <;> simp)
      split
      · simp [exited]
      · rename_i hc; intro _; right; simp at hc; simp [hc]
    case lockAcq =>
      split at h
      · injection h with h; subst h
        exact data_w_pc hi hwn rfl rfl rfl rfl rfl rfl rfl rfl (Or.inl rfl) rfl rfl (by simp [hpc, isRun]) rfl
          (by simp [exited]) (by simp [decClear]) (by simp [hpc]) (by simp)
      · cases h
    case mark =>
      split at h
      · rename_i hdec
        injection h with h; subst h
        have hl : load (s.wk w) = 1 := by simp [load, runs, hpc, isRun, hdec]
        refine data_w hi hwn rfl rfl rfl rfl rfl rfl rfl rfl (Or.inr rfl) rfl ?_ ?_ ?_ ?_ (by simp [exited]) (by simp)
          (by simp [hpc]) (by simp)
        · simp [load, runs, isRun]
        · rw [hl]; simp [load, runs, isRun]
        · simp [runs, isRun, hpc]
        · intro t; simp [hpc]
      · rename_i hdec
        injection h with h; subst h
        exact data_w_pc hi hwn rfl rfl rfl rfl rfl rfl rfl rfl (Or.inl rfl) rfl rfl (by simp [hpc, isRun]) rfl
          (by simp [exited]) (by intro _; simpa using hdec) (by simp [hpc]) (by simp)
    case waitChk =>
      have hd := hi.dcl w hwn (by simp [hpc, decClear])
      split at h <;> (injection h with h; subst h
                      exact data_w_pc hi hwn rfl rfl rfl rfl rfl rfl rfl rfl (Or.inl rfl) rfl rfl (by simp [hpc, isRun]) rfl
                        (by simp [exited]) (fun _ => hd) (by simp [hpc]) (by simp))
    case blocked => cases h
    case reacq =>
      have hd := hi.dcl w hwn (by simp [hpc, decClear])
      split at h
      · injection h with h; subst h
        exact data_w_pc hi hwn rfl rfl rfl rfl rfl rfl rfl rfl (Or.inl rfl) rfl rfl (by simp [hpc, isRun]) rfl
          (by simp [exited]) (fun _ => hd) (by simp [hpc]) (by simp)
      · cases h
    case take =>
      have hdec := hi.dcl w hwn (by simp [hpc, decClear])
      split at h
      · rename_i t rest hq
        injection h with h; subst h
        have hs1 := sumN_upd load s.wk w ⟨.run t, (s.wk w).dec⟩ s.n hwn
        have hs2 := sumN_upd runs s.wk w ⟨.run t, (s.wk w).dec⟩ s.n hwn
        have hr0 : runs (s.wk w) = 0 := by simp [runs, hpc, isRun]
        have hl0 : load (s.wk w) = 0 := by simp [load, hr0, hdec]
        have hr1 : runs ⟨.run t, (s.wk w).dec⟩ = 1 := by simp [runs, isRun]
        have hl1 : load ⟨.run t, (s.wk w).dec⟩ = 1 := by simp [load, runs, isRun, hdec]
        have hpend := hi.pend; have hcomp := hi.comp
        rw [hq] at hpend hcomp
        simp only [List.length_cons] at hpend hcomp
        have hnd := hi.qnodup; rw [hq, List.nodup_cons] at hnd
        have hlt : s.loc t = .queued := (hi.locq t).mpr (by rw [hq]; simp)
        have hnoex : ∀ v, v < s.n → exited (s.wk v).pc = false := by
          intro v hv
          cases he : exited (s.wk v).pc
          · rfl
          · have := (hi.exd v hv he).2; rw [hq] at this; cases this
        constructor
        · simp only; omega
        · simp only; omega
        · exact hnd.2
        · intro u
          by_cases hut : u = t
          · subst hut; simp [hnd.1]
          · simp only [upd_other _ _ hut]; rw [hi.locq u, hq]; simp [hut]
        · intro u v
          by_cases hut : u = t
          · subst hut
            simp only [upd_same]
            by_cases hvw : v = w
            · subst hvw; simp [hwn]
            · simp only [upd_other _ _ hvw]
              constructor
              · intro e; injection e with e; exact absurd e.symm hvw
              · intro e; have := (hi.locr u v).mpr e; rw [hlt] at this; cases this
          · simp only [upd_other _ _ hut]
            by_cases hvw : v = w
            · subst hvw
              simp only [upd_same]
              rw [hi.locr u v, hpc]
              constructor
              · intro e; cases e.2
              · intro e; injection e.2 with e; exact absurd e.symm hut
            · simp only [upd_other _ _ hvw]; exact hi.locr u v
        · intro u
          by_cases hut : u = t
          · subst hut; simp only [upd_same]
            constructor
            · intro e; cases e
            · intro e; have := (hi.locf u).mpr e; rw [hlt] at this; cases this
          · simp only [upd_other _ _ hut]; exact hi.locf u
        · intro u
          by_cases hut : u = t
          · subst hut; simp only [upd_same]; rw [hi.ec u, hlt]; simp
          · simp only [upd_other _ _ hut]; exact hi.ec u
        · exact hi.flush
        · intro v hv hx
          by_cases hvw : v = w
          · subst hvw; simp [exited] at hx
          · simp only [upd_other _ _ hvw] at hx; rw [hnoex v hv] at hx; cases hx
        · intro hf; exact wakeProd_join (hi.finp hf)
        · intro v hv hd
          by_cases hvw : v = w
          · subst hvw; simp only [upd_same]; exact hdec
          · simp only [upd_other _ _ hvw] at hd ⊢; exact hi.dcl v hv hd
        · intro hf
          have hf' : s.ppc = .final := by
            cases hp : s.ppc <;> rw [hp] at hf <;> simp [wakeProd] at hf <;> rfl
          have := hi.fdone hf' w hwn; rw [hpc] at this; cases this
        · intro v hv hd
          by_cases hvw : v = w
          · subst hvw; simp at hd
          · simp only [upd_other _ _ hvw] at hd ⊢; exact hi.emd v hv hd
      · injection h with h; subst h
        exact data_w_pc hi hwn rfl rfl rfl rfl rfl rfl rfl rfl (Or.inr rfl) rfl rfl (by simp [hpc, isRun]) rfl
          (by simp [exited]) (by simp [decClear]) (by simp [hpc]) (by simp)
    case run t =>
      injection h with h; subst h
      have hdec := hi.dcl w hwn (by simp [hpc, decClear])
      have hs1 := sumN_upd load s.wk w { pc := .loopTest, dec := true } s.n hwn
      have hs2 := sumN_upd runs s.wk w { pc := .loopTest, dec := true } s.n hwn
      have hr1 : runs (s.wk w) = 1 := by simp [runs, hpc, isRun]
      have hl1 : load (s.wk w) = 1 := by simp [load, hr1, hdec]
      have hr0 : runs { pc := .loopTest, dec := true } = 0 := by simp [runs, isRun]
      have hl0 : load { pc := .loopTest, dec := true } = 1 := by simp [load, hr0]
      have hlt : s.loc t = .running w := (hi.locr t w).mpr ⟨hwn, hpc⟩
      have hpend := hi.pend; have hcomp := hi.comp
      constructor
      · simp only; omega
      · simp only; omega
      · exact hi.qnodup
      · intro u
        by_cases hut : u = t
        · subst hut; simp only [upd_same]
          constructor
          · intro e; cases e
          · intro e; have := (hi.locq u).mpr e; rw [hlt] at this; cases this
        · simp only [upd_other _ _ hut]; exact hi.locq u
      · intro u v
        by_cases hut : u = t
        · subst hut
          simp only [upd_same]
          constructor
          · intro e; cases e
          · rintro ⟨hv, e⟩
            by_cases hvw : v = w
            · subst hvw; simp at e
            · simp only [upd_other _ _ hvw] at e
              have := (hi.locr u v).mpr ⟨hv, e⟩; rw [hlt] at this; injection this with this
              exact absurd this.symm hvw
        · simp only [upd_other _ _ hut]
          by_cases hvw : v = w
          · subst hvw
            simp only [upd_same]
            rw [hi.locr u v, hpc]
            constructor
            · intro e; injection e.2 with e; exact absurd e.symm hut
            · intro e; cases e.2
          · simp only [upd_other _ _ hvw]; exact hi.locr u v
      · intro u
        by_cases hut : u = t
        · subst hut; simp only [upd_same]
          constructor
          · intro e; cases e
          · intro e; have := (hi.locf u).mpr e; rw [hlt] at this; cases this
        · simp only [upd_other _ _ hut]; exact hi.locf u
      · intro u
        by_cases hut : u = t
        · subst hut; simp only [upd_same]; rw [hi.ec u, hlt]; simp
        · simp only [upd_other _ _ hut]; exact hi.ec u
      · exact hi.flush
      · intro v hv hx
        by_cases hvw : v = w
        · subst hvw; simp [exited] at hx
        · simp only [upd_other _ _ hvw] at hx; exact hi.exd v hv hx
      · exact hi.finp
      · intro v hv hd
        by_cases hvw : v = w
        · subst hvw; simp [decClear] at hd
        · simp only [upd_other _ _ hvw] at hd ⊢; exact hi.dcl v hv hd
      · intro hf
        have := hi.fdone hf w hwn; rw [hpc] at this; cases this
      · intro v hv hd
        by_cases hvw : v = w
        · subst hvw; simp at hd
        · simp only [upd_other _ _ hvw] at hd ⊢; exact hi.emd v hv hd
    case exitLock =>
      split at h
      · rename_i hdec
        split at h
        · injection h with h; subst h
          exact data_w_pc hi hwn rfl rfl rfl rfl rfl rfl rfl rfl (Or.inl rfl) rfl rfl (by simp [hpc, isRun]) rfl
            (by intro _; left; simp [hpc, exited]) (by simp [decClear]) (by simp [hpc]) (fun _ => hdec)
        · cases h
      · injection h with h; subst h
        exact data_w_pc hi hwn rfl rfl rfl rfl rfl rfl rfl rfl (Or.inl rfl) rfl rfl (by simp [hpc, isRun]) rfl
          (by intro _; left; simp [hpc, exited]) (by simp [decClear]) (by simp [hpc]) (by simp)
    case exitMark =>
      injection h with h; subst h
      have hdec := hi.emd w hwn hpc
      have hl : load (s.wk w) = 1 := by simp [load, runs, hpc, isRun, hdec]
      refine data_w hi hwn rfl rfl rfl rfl rfl rfl rfl rfl (Or.inr rfl) rfl ?_ ?_ ?_ ?_ ?_ (by simp [decClear])
        (by simp [hpc]) (by simp)
      · simp [load, runs, isRun]
      · rw [hl]; simp [load, runs, isRun]
      · simp [runs, isRun, hpc]
      · intro t; simp [hpc]
      · intro _; left; simp [hpc, exited]
    case done => cases h
  · cases h

/-- a producer step that may wake workers (`notify_one`/`notify_all`) and leaves the rest of the worker records alone -/
theorem sums_woken {s : State} {wk' : Nat → Worker} (hw : ∀ v, Woken (s.wk v) (wk' v)) :
    sumN (fun v => load (wk' v)) s.n = sumN (fun v => load (s.wk v)) s.n ∧
    sumN (fun v => runs (wk' v)) s.n = sumN (fun v => runs (s.wk v)) s.n :=
  ⟨sumN_congr _ (fun v _ => (woken_facts (hw v)).1), sumN_congr _ (fun v _ => (woken_facts (hw v)).2.1)⟩

theorem woken_exitMark {x x' : Worker} (h : Woken x x') (hd : x'.pc = .exitMark) : x.pc = .exitMark := by
  rcases h with e | ⟨_, e⟩ <;> subst e
  · exact hd
  · simp at hd

theorem dataInv_step_main {s s' : State} {pick : Nat} (hi : DataInv s) (h : stepMain s pick = some s') : DataInv s' := by
  simp only [stepMain] at h
  have nofin : s.ppc ≠ .join → s.ppc ≠ .final → s.finished = false := by
    intro h1 h2
    cases hf : s.finished
    · rfl
    · rcases hi.finp hf with e | e
      · exact absurd e h1
      · exact absurd e h2
  cases hpc : s.ppc <;> simp only [hpc] at h
  case idle =>
    have hf := nofin (by simp [hpc]) (by simp [hpc])
    split at h <;> (injection h with h; subst h
                    exact data_m hi rfl rfl rfl rfl rfl rfl rfl rfl rfl rfl (by simp [hf]) (by simp))
  case addLock =>
    have hf := nofin (by simp [hpc]) (by simp [hpc])
    split at h
    · injection h with h; subst h; exact data_m hi rfl rfl rfl rfl rfl rfl rfl rfl rfl rfl (by simp [hf]) (by simp)
    · cases h
  case addChk =>
    have hf := nofin (by simp [hpc]) (by simp [hpc])
    split at h
    · injection h with h; subst h
      have hw : ∀ v, Woken (s.wk v) (wakeOne s.wk s.n pick v) := fun v => wakeOne_spec _ _ _ v
      obtain ⟨e1, e2⟩ := sums_woken hw
      have hfresh : s.loc s.nextId = .fresh := (hi.locf _).mpr (le_refl _)
      have hnotin : s.nextId ∉ s.queue := by
        intro e; have := (hi.locq _).mpr e; rw [hfresh] at this; cases this
      have hpend := hi.pend; have hcomp := hi.comp
      constructor
      · simp only [List.length_append, List.length_singleton]; rw [e1]; omega
      · simp only [List.length_append, List.length_singleton]; rw [e2]; omega
      · rw [List.nodup_append]
        refine ⟨hi.qnodup, by simp, ?_⟩
        intro a ha b hb; simp at hb; subst hb; intro e; subst e; exact hnotin ha
      · intro u
        by_cases hu : u = s.nextId
        · subst hu; simp
        · simp only [upd_other _ _ hu]; rw [hi.locq u]; simp [hu]
      · intro u v
        rw [(woken_facts (hw v)).2.2.1 u]
        by_cases hu : u = s.nextId
        · subst hu
          simp only [upd_same]
          constructor
          · intro e; cases e
          · intro e; have := (hi.locr _ v).mpr e; rw [hfresh] at this; cases this
        · simp only [upd_other _ _ hu]; exact hi.locr u v
      · intro u
        by_cases hu : u = s.nextId
        · subst hu; simp
        · simp only [upd_other _ _ hu]; rw [hi.locf u]; omega
      · intro u
        by_cases hu : u = s.nextId
        · subst hu; simp only [upd_same]; rw [hi.ec, hfresh]; simp
        · simp only [upd_other _ _ hu]; exact hi.ec u
      · exact hi.flush
      · intro v hv hx
        rw [(woken_facts (hw v)).2.2.2.1] at hx
        have := (hi.exd v hv hx).1; rw [hf] at this; cases this
      · intro e; rw [hf] at e; cases e
      · intro v hv hd
        rw [(woken_facts (hw v)).2.2.2.2.2.1] at hd; rw [(woken_facts (hw v)).2.2.2.2.1]; exact hi.dcl v hv hd
      · intro e; cases e
      · intro v hv hd
        have hx : (s.wk v).pc = .exitMark := woken_exitMark (hw v) hd
        rw [(woken_facts (hw v)).2.2.2.2.1]; exact hi.emd v hv hx
    · injection h with h; subst h; exact data_m hi rfl rfl rfl rfl rfl rfl rfl rfl rfl rfl (by simp [hf]) (by simp)
  case addBlocked => cases h
  case addReacq =>
    have hf := nofin (by simp [hpc]) (by simp [hpc])
    split at h
    · injection h with h; subst h; exact data_m hi rfl rfl rfl rfl rfl rfl rfl rfl rfl rfl (by simp [hf]) (by simp)
    · cases h
  case flushLock =>
    have hf := nofin (by simp [hpc]) (by simp [hpc])
    split at h
    · injection h with h; subst h; exact data_m hi rfl rfl rfl rfl rfl rfl rfl rfl rfl rfl (by simp [hf]) (by simp)
    · cases h
  case flushChk =>
    have hf := nofin (by simp [hpc]) (by simp [hpc])
    split at h
    · rename_i hp0
      injection h with h; subst h
      -- pendingTasks == 0: nothing queued, nothing running, hence everything added so far has completed
      have hpend := hi.pend
      have hsum : sumN (fun v => load (s.wk v)) s.n = 0 := by omega
      have hruns : sumN (fun v => runs (s.wk v)) s.n = 0 :=
        sumN_zero_of _ (fun v hv => by have := sumN_zero hsum v hv; have := runs_le_load (s.wk v); omega)
      have hcomp := hi.comp
      have hdone : s.completed = s.nextId := by omega
      have base := data_m (s' := { s with mutex := none, ppc := .idle }) hi rfl rfl rfl rfl rfl rfl rfl rfl rfl rfl
        (by simp [hf]) (by simp)
      refine { base with flush := ?_ }
      intro p hp
      simp only [List.mem_append, List.mem_singleton] at hp
      rcases hp with hp | hp
      · exact hi.flush p hp
      · subst hp; exact hdone
    · injection h with h; subst h; exact data_m hi rfl rfl rfl rfl rfl rfl rfl rfl rfl rfl (by simp [hf]) (by simp)
  case flushBlocked => cases h
  case flushReacq =>
    have hf := nofin (by simp [hpc]) (by simp [hpc])
    split at h
    · injection h with h; subst h; exact data_m hi rfl rfl rfl rfl rfl rfl rfl rfl rfl rfl (by simp [hf]) (by simp)
    · cases h
  case dLock =>
    have hf := nofin (by simp [hpc]) (by simp [hpc])
    split at h
    · injection h with h; subst h; exact data_m hi rfl rfl rfl rfl rfl rfl rfl rfl rfl rfl (by simp [hf]) (by simp)
    · cases h
  case dSet =>
    injection h with h; subst h
    have hw : ∀ v, Woken (s.wk v) (wakeAll s.wk v) := fun v => wakeAll_spec _ v
    obtain ⟨e1, e2⟩ := sums_woken hw
    constructor
    · simp only; rw [e1]; exact hi.pend
    · simp only; rw [e2]; exact hi.comp
    · exact hi.qnodup
    · exact hi.locq
    · intro u v; rw [(woken_facts (hw v)).2.2.1 u]; exact hi.locr u v
    · exact hi.locf
    · exact hi.ec
    · exact hi.flush
    · intro v hv hx
      rw [(woken_facts (hw v)).2.2.2.1] at hx
      exact ⟨rfl, (hi.exd v hv hx).2⟩
    · intro _; left; rfl
    · intro v hv hd
      rw [(woken_facts (hw v)).2.2.2.2.2.1] at hd; rw [(woken_facts (hw v)).2.2.2.2.1]; exact hi.dcl v hv hd
    · intro e; cases e
    · intro v hv hd
      have hx : (s.wk v).pc = .exitMark := woken_exitMark (hw v) hd
      rw [(woken_facts (hw v)).2.2.2.2.1]; exact hi.emd v hv hx
  case join =>
    split at h
    · rename_i hall
      injection h with h; subst h
      refine data_m hi rfl rfl rfl rfl rfl rfl rfl rfl rfl rfl (by simp) ?_
      intro _
      have : ∀ k, allDone s.wk k = true → ∀ v, v < k → (s.wk v).pc = .done := by
        intro k; induction k with
        | zero => intro _ v hv; omega
        | succ k ih =>
          intro hk v hv
          simp only [allDone, Bool.and_eq_true, beq_iff_eq] at hk
          by_cases hvk : v = k
          · subst hvk; exact hk.2
          · exact ih hk.1 v (by omega)
      exact this s.n hall
    · cases h
  case final => cases h

theorem dataInv_step {s s' : State} {a : Act} (hi : DataInv s) (h : step s a = some s') : DataInv s' := by
  cases a with
  | step t pick =>
    cases t with
    | main => exact dataInv_step_main hi h
    | worker w => exact dataInv_step_worker hi h
  | spurious t =>
    cases t with
    | main =>
      simp only [step] at h
      have nofin : s.ppc ≠ .join → s.ppc ≠ .final → s.finished = false := by
        intro h1 h2
        cases hf : s.finished
        · rfl
        · rcases hi.finp hf with e | e
          · exact absurd e h1
          · exact absurd e h2
      split at h
      · rename_i hb; injection h with h; subst h
        exact data_m hi rfl rfl rfl rfl rfl rfl rfl rfl rfl rfl (by simp [nofin (by simp [hb]) (by simp [hb])]) (by simp)
      · rename_i hb; injection h with h; subst h
        exact data_m hi rfl rfl rfl rfl rfl rfl rfl rfl rfl rfl (by simp [nofin (by simp [hb]) (by simp [hb])]) (by simp)
      · cases h
    | worker w =>
      simp only [step] at h
      split at h
      · rename_i hb; injection h with h; subst h
        have hd := hi.dcl w hb.1 (by simp [hb.2, decClear])
        exact data_w_pc hi hb.1 rfl rfl rfl rfl rfl rfl rfl rfl (Or.inl rfl) rfl rfl (by simp [hb.2, isRun]) rfl
          (by simp [exited]) (fun _ => hd) (by simp [hb.2]) (by simp)
      · cases h

theorem step_n {s s' : State} {a : Act} (h : step s a = some s') : s'.n = s.n := by
  cases a with
  | step t pick =>
    cases t with
    | main =>
      simp only [step, stepMain] at h
      cases hpc : s.ppc <;> simp only [hpc] at h <;> (try split at h) <;> (cases h <;> rfl)
    | worker w =>
      simp only [step, stepWorker] at h
      split at h
      · cases hpc : (s.wk w).pc <;> simp only [hpc] at h <;> (try split at h) <;> (try split at h) <;> (cases h <;> rfl)
      · cases h
  | spurious t =>
    cases t <;> simp only [step] at h <;> split at h <;> (cases h <;> rfl)

theorem reach_inv {n q : Nat} {todo : List Op} {s : State} (h : Reach n q todo s) : LockInv s ∧ DataInv s ∧ s.n = n := by
  induction h with
  | init => exact ⟨lockInv_init n q todo, dataInv_init n q todo, rfl⟩
  | step a _ hs ih => exact ⟨lockInv_step ih.1 hs, dataInv_step ih.2.1 hs, by rw [step_n hs]; exact ih.2.2⟩

theorem reach_run {n q : Nat} {todo : List Op} (sched : List Act) :
    ∀ {s : State}, Reach n q todo s → Reach n q todo (run s sched) := by
  induction sched with
  | nil => intro s h; exact h
  | cons a as ih =>
    intro s h
    simp only [run]
    cases hs : step s a with
    | none => exact ih h
    | some s' => exact ih (Reach.step a h hs)

/-- in a state where nothing is queued and no worker is running a task, every task added so far has been executed
(and deleted) exactly once and no other task has been touched -/
theorem all_done_of_idle {s : State} (hi : DataInv s) (hq : s.queue = [])
    (hr : ∀ w, w < s.n → ∀ t, (s.wk w).pc ≠ .run t) (t : Nat) : s.execCount t = if t < s.nextId then 1 else 0 := by
  rw [hi.ec t]
  by_cases ht : t < s.nextId
  · rw [if_pos ht]
    cases hl : s.loc t with
    | fresh => have := (hi.locf t).mp hl; omega
    | queued => have := (hi.locq t).mp hl; rw [hq] at this; cases this
    | running w => obtain ⟨hw, hp⟩ := (hi.locr t w).mp hl; exact absurd hp (hr w hw t)
    | finished => simp
  · rw [if_neg ht]
    have := (hi.locf t).mpr (by omega)
    rw [this]; simp
end C33.WQ
