import SimbodyModel.C31
import SimbodyProofs.C31_lemmas
import Mathlib.Tactic.NormNum
import Mathlib.Tactic.Linarith
import Mathlib.Tactic.IntervalCases
import Mathlib.Tactic.Positivity
import Mathlib.Tactic.Ring
import Mathlib.Algebra.Order.Field.Basic
import Mathlib.Algebra.Order.Floor.Ring
import Mathlib.Data.Rat.Floor

/-!
# C31 — property theorems (random generators are deterministic and in range; SFMT is the reference)

Model: `SimbodyModel/C31.lean` (bit-exact transcription of SFMT.cpp / Random.cpp; parameters regenerated from
the source header into `SimbodyModel/Gen/SFMTParams.lean` on every run).

* `params_are_reference` — the parameters the code is compiled with are the published SFMT-19937 set.
* `res53_*` — `to_res53` maps every raw 64-bit word into `[0,1]`; it is `< 1` **iff** `raw < 2⁶⁴ − 2¹⁰`;
  `res53_hits_one` is the negative witness (`to_res53(2⁶⁴−1) = 1.0`): the `[0,1)` claim is *not* provable.
* `uniform_in_range_exact`, `uniform_getValue_in_range_exact`, `uniform_getIntValue_in_range_exact`, `int_mode_in_range_exact` — in exact arithmetic the
  formulas stay in `[min,max)` for `u < 1`.
* `uniform_can_hit_max`, `uniform_unit_can_hit_one`, `int_mode_can_hit_max`, `uniform_can_exceed_max` — with exact
  binary64 rounding the coded formulas return `max` (or more): finding F8.
* `seed_determines_sequence`, `uniform_seed_determines_sequence`, `gaussian_seed_determines_sequence` — after
  `setSeed s` the output stream is a function of `s` (and the configured parameters) only, whatever the history.
* `gaussian_domain` — the polar loop only accepts `0 < r² < 1`, so `log` and `sqrt` are called inside their domains.
* `period_certification_certifies`, `recursion_indices_in_range`, `genRandAll_size`.
-/
namespace C31
open C31.Gen

/-! ## the parameters are the published ones -/

/-- The parameters extracted from `SFMT-params.h` / `SFMT-params19937.h` of the current tree equal the published
SFMT-19937 parameter set (Saito & Matsumoto, SFMT 1.3: `SFMT-19937:122-18-1-11-1:dfffffef-ddfecb7f-bffaffff-bffffff6`,
parity `00000001-00000000-00000000-13c9e684`). The right-hand sides are written by hand here. -/
theorem params_are_reference :
    MEXP = 19937 ∧ POS1 = 122 ∧ SL1 = 18 ∧ SL2 = 1 ∧ SR1 = 11 ∧ SR2 = 1 ∧
    MSK1 = 0xdfffffef ∧ MSK2 = 0xddfecb7f ∧ MSK3 = 0xbffaffff ∧ MSK4 = 0xbffffff6 ∧
    PARITY1 = 0x00000001 ∧ PARITY2 = 0x00000000 ∧ PARITY3 = 0x00000000 ∧ PARITY4 = 0x13c9e684 := by
  decide

/-- every index used by `gen_rand_all` (operands `a = sfmt[i]`, `b = sfmt[idxB i]`, `r1`,`r2` start at `N-2`,`N-1`)
is inside the state array, and the shift amounts are legal (`0 < SL2,SR2 < 8`, `SL1,SR1 < 32`) -/
theorem recursion_indices_in_range :
    (∀ i, i < N → idxB i < N) ∧ N - 2 < N ∧ N - 1 < N ∧ POS1 < N ∧
    0 < SL2 ∧ SL2 < 8 ∧ 0 < SR2 ∧ SR2 < 8 ∧ SL1 < 32 ∧ SR1 < 32 := by
  have hN : N = 156 := by decide
  have hP : POS1 = 122 := by decide
  refine ⟨?_, by omega, by omega, by omega, by decide, by decide, by decide, by decide, by decide, by decide⟩
  intro i hi
  unfold idxB
  split <;> omega

/-- `gen_rand_all` keeps the size of the state array -/
theorem genRandAll_size (st : Array UInt32) : (genRandAll st).size = st.size :=
  genRandAll_size_aux st

/-! ## `to_res53` -/

theorem roundTo53_bounds {v : Nat} (h : v < 2 ^ 64) :
    roundTo53 v ≤ 2 ^ 64 ∧ (roundTo53 v < 2 ^ 64 ↔ v < 2 ^ 64 - 2 ^ 10) := by
  unfold roundTo53
  rcases Nat.lt_or_ge v (2 ^ 53) with h53 | h53
  · rw [if_pos h53]; omega
  · rw [if_neg (Nat.not_lt.2 h53)]
    have hv0 : v ≠ 0 := by omega
    have hk1 : 53 ≤ v.log2 := (Nat.le_log2 hv0).2 h53
    have hk2 : v.log2 < 64 := (Nat.log2_lt hv0).2 h
    have hlo := Nat.log2_self_le hv0
    have hhi := @Nat.lt_log2_self v
    generalize v.log2 = k at *
    interval_cases k <;> norm_num at hlo hhi ⊢ <;> (split_ifs <;> omega)

/-- `to_res53` never leaves the closed unit interval … -/
theorem res53_in_closed_unit_interval (v : UInt64) :
    0 ≤ res53ToRat (res53Num v) ∧ res53ToRat (res53Num v) ≤ 1 := by
  have hb := (roundTo53_bounds (v := v.toNat) v.toNat_lt).1
  rw [res53ToRat_eq]
  unfold res53Num
  constructor
  · positivity
  · rw [div_le_one (by positivity)]
    exact_mod_cast hb

/-- … and it is `< 1` exactly when the raw word is below `2⁶⁴ − 2¹⁰`: the half-open interval `[0,1)` promised by
`SFMT.h` ("generates a random number on [0,1) with 53-bit resolution") fails for the top 1024 raw words. -/
theorem res53_lt_one_iff (v : UInt64) :
    res53ToRat (res53Num v) < 1 ↔ v.toNat < 2 ^ 64 - 2 ^ 10 := by
  have hb := (roundTo53_bounds (v := v.toNat) v.toNat_lt).2
  rw [res53ToRat_eq, div_lt_one (by positivity), ← hb]
  unfold res53Num
  exact_mod_cast Iff.rfl

/-- values below one are at most `1 − 2⁻⁵³` (the 53-bit grid) -/
theorem res53_le_pred_of_lt_one (v : UInt64) (h : res53ToRat (res53Num v) < 1) :
    res53ToRat (res53Num v) ≤ 1 - 1 / 2 ^ 53 := by
  have hv := (res53_lt_one_iff v).1 h
  have hgrid : roundTo53 v.toNat ≤ 2 ^ 64 - 2 ^ 11 := roundTo53_grid v.toNat_lt hv
  rw [res53ToRat_eq, div_le_iff₀ (by positivity)]
  unfold res53Num
  have : ((roundTo53 v.toNat : ℕ) : ℚ) ≤ ((2 ^ 64 - 2 ^ 11 : ℕ) : ℚ) := by exact_mod_cast hgrid
  norm_num at this ⊢
  linarith

/-- **negative witness** (finding F8): `to_res53(0xFFFFFFFFFFFFFFFF) = 1.0` -/
theorem res53_hits_one : res53ToRat (res53Num 0xFFFFFFFFFFFFFFFF) = 1 := by
  have : res53Num 0xFFFFFFFFFFFFFFFF = 2 ^ 64 := by decide +kernel
  rw [this, res53ToRat_eq]; norm_num

/-! ## range, exact arithmetic -/

section Field
variable {K : Type} [Field K] [LinearOrder K] [IsStrictOrderedRing K]

/-- over any ordered field: `min ≤ min + u·(max−min) < max` for `u ∈ [0,1)`, `min < max` -/
theorem uniform_in_range_exact (min max u : K) (hmm : min < max) (h0 : 0 ≤ u) (h1 : u < 1) :
    min ≤ uniformFormula min (max - min) u ∧ uniformFormula min (max - min) u < max := by
  unfold uniformFormula
  have hr : 0 < max - min := sub_pos.2 hmm
  constructor
  · nlinarith [mul_nonneg h0 hr.le]
  · nlinarith [mul_lt_mul_of_pos_right h1 hr]

/-- for `u ∈ [0,1]` (what `to_res53` really delivers) only the closed interval holds -/
theorem uniform_in_closed_range_exact (min max u : K) (hmm : min < max) (h0 : 0 ≤ u) (h1 : u ≤ 1) :
    min ≤ uniformFormula min (max - min) u ∧ uniformFormula min (max - min) u ≤ max := by
  unfold uniformFormula
  have hr : 0 < max - min := sub_pos.2 hmm
  constructor
  · nlinarith [mul_nonneg h0 hr.le]
  · nlinarith [mul_le_mul_of_nonneg_right h1 hr.le]

omit [IsStrictOrderedRing K] in
/-- integer mode `(int) floor(getValue())`: for integer bounds `a < b` the result is an integer in `[a, b)` as soon
as the real value is in `[a, b)` -/
theorem int_mode_in_range_exact [FloorRing K] (a b : ℤ) (v : K) (h1 : (a : K) ≤ v) (h2 : v < (b : K)) :
    a ≤ ⌊v⌋ ∧ ⌊v⌋ < b :=
  ⟨Int.le_floor.2 h1, Int.floor_lt.2 h2⟩

end Field

/-- `UniformImpl::getValue` of the model, executed in exact rational arithmetic: for every generator state whose
`range` field is `max − min` (constructor, `setMin`, `setMax` all establish it) and every raw word below
`2⁶⁴ − 2¹⁰` the value is in `[min,max)`; for the remaining 1024 raw words it is `max`. -/
theorem uniform_getValue_in_range_exact (u : Uniform ℚ) (hr : u.range = u.max - u.min) (hmm : u.min < u.max) :
    u.min ≤ (u.getValue res53ToRat).1 ∧ (u.getValue res53ToRat).1 ≤ u.max ∧
    (u.rng.nextRaw.1.toNat < 2 ^ 64 - 2 ^ 10 → (u.getValue res53ToRat).1 < u.max) ∧
    (¬ u.rng.nextRaw.1.toNat < 2 ^ 64 - 2 ^ 10 → (u.getValue res53ToRat).1 = u.max) := by
  have hv : (u.getValue res53ToRat).1 = uniformFormula u.min (u.max - u.min) (res53ToRat (res53Num u.rng.nextRaw.1)) := by
    simp [Uniform.getValue, hr]
  rw [hv]
  obtain ⟨h0, h1⟩ := res53_in_closed_unit_interval u.rng.nextRaw.1
  refine ⟨(uniform_in_closed_range_exact _ _ _ hmm h0 h1).1, (uniform_in_closed_range_exact _ _ _ hmm h0 h1).2, ?_, ?_⟩
  · intro hlt
    exact (uniform_in_range_exact _ _ _ hmm h0 ((res53_lt_one_iff _).2 hlt)).2
  · intro hge
    have : res53ToRat (res53Num u.rng.nextRaw.1) = 1 :=
      le_antisymm h1 (not_lt.1 (fun h => hge ((res53_lt_one_iff _).1 h)))
    rw [this]; unfold uniformFormula; ring

/-- **integer mode of the executed model** (`Uniform.getIntValue`, the function the driver runs, here over ℚ with the exact
floor): for integer bounds `a < b` and every raw word below `2⁶⁴ − 2¹⁰` the result is an integer in `[a, b)`.  For the top
1024 raw words the value is `b` itself (`uniform_getValue_in_range_exact`, fourth clause) — finding F8. -/
theorem uniform_getIntValue_in_range_exact (u : Uniform ℚ) (a b : ℤ) (hmin : u.min = a) (hmax : u.max = b)
    (hr : u.range = u.max - u.min) (hab : a < b) (hraw : u.rng.nextRaw.1.toNat < 2 ^ 64 - 2 ^ 10) :
    a ≤ (u.getIntValue res53ToRat Rat.floor).1 ∧ (u.getIntValue res53ToRat Rat.floor).1 < b := by
  have hmm : u.min < u.max := by rw [hmin, hmax]; exact_mod_cast hab
  obtain ⟨h1, _, h3, _⟩ := uniform_getValue_in_range_exact u hr hmm
  have hv : (u.getIntValue res53ToRat Rat.floor).1 = ⌊(u.getValue res53ToRat).1⌋ := rfl
  rw [hv]
  have hlt := h3 hraw
  rw [hmin] at h1
  rw [hmax] at hlt
  exact ⟨Int.le_floor.2 h1, Int.floor_lt.2 hlt⟩

/-- non-vacuity: a `Uniform(0,10)` state over ℚ whose buffer holds the raw word 0 at the read position satisfies all
hypotheses, and the theorem then gives `0 ≤ getIntValue < 10` -/
example : ∃ u : Uniform ℚ, u.min = (0 : ℤ) ∧ u.max = (10 : ℤ) ∧ u.range = u.max - u.min ∧
    u.rng.nextRaw.1.toNat < 2 ^ 64 - 2 ^ 10 :=
  ⟨⟨⟨⟨#[], 0⟩, #[0], 0⟩, 0, 10, 10⟩, by norm_num, by norm_num, by norm_num, by decide⟩

/-- the three ways a `Uniform` is configured all establish `range = max − min` -/
theorem uniform_range_invariant (seed : UInt32) (mn mx v : ℚ) :
    (Uniform.new seed mn mx).range = (Uniform.new seed mn mx).max - (Uniform.new seed mn mx).min ∧
    (∀ u : Uniform ℚ, (u.setMin v).range = (u.setMin v).max - (u.setMin v).min) ∧
    (∀ u : Uniform ℚ, (u.setMax v).range = (u.setMax v).max - (u.setMax v).min) := by
  refine ⟨rfl, fun u => rfl, fun u => rfl⟩

/-! ## range, binary64 arithmetic: finding F8 -/

/-- `1 − 2⁻⁵³` is a `to_res53` value (raw word `0xFFFFFFFFFFFFF800`) -/
theorem res53_u53 : res53ToRat (res53Num 0xFFFFFFFFFFFFF800) = 1 - 1 / 2 ^ 53 := by
  have : res53Num 0xFFFFFFFFFFFFF800 = 2 ^ 64 - 2 ^ 11 := by decide +kernel
  rw [this, res53ToRat_eq]; norm_num

/-- **F8** `Uniform(1,2)`: with `u = 1 − 2⁻⁵³` the binary64 evaluation of `min + u*range` is exactly `max = 2` -/
theorem uniform_can_hit_max : uniformFl 1 2 (res53ToRat (res53Num 0xFFFFFFFFFFFFF800)) = 2 := by
  rw [res53_u53]; exact uniformFl_witness_1_2

/-- **F8** `Uniform(0,1)` (the default generator): raw word `2⁶⁴−1` gives exactly `max = 1` -/
theorem uniform_unit_can_hit_one : uniformFl 0 1 (res53ToRat (res53Num 0xFFFFFFFFFFFFFFFF)) = 1 := by
  rw [res53_hits_one]; exact uniformFl_witness_0_1

/-- **F8** integer mode on `[0,10)`: raw word `2⁶⁴−1` gives `floor(10.0) = 10 = max` -/
theorem int_mode_can_hit_max : (uniformFl 0 10 (res53ToRat (res53Num 0xFFFFFFFFFFFFFFFF))).floor = 10 := by
  rw [res53_hits_one]; exact uniformFl_witness_0_10

/-- **F8** even the closed interval fails when `fl(max−min)` rounds up:
`min = −1`, `max = 2⁻³⁰(1+2⁻²³+2⁻⁵²)`, `u = 1` gives `2⁻³⁰(1+2⁻²²) > max` -/
theorem uniform_can_exceed_max :
    uniformFl (-1) (1 / 2 ^ 30 * (1 + 1 / 2 ^ 23 + 1 / 2 ^ 52)) (res53ToRat (res53Num 0xFFFFFFFFFFFFFFFF))
      > 1 / 2 ^ 30 * (1 + 1 / 2 ^ 23 + 1 / 2 ^ 52) := by
  rw [res53_hits_one, uniformFl_witness_exceed]; norm_num

/-! ## determinism: the stream is a function of the seed -/

/-- after `setSeed s` the next raw word *and the whole successor state* do not depend on the generator's past
(the stale buffer is discarded because `nextIndex = bufferSize` forces a refill) -/
theorem nextRaw_setSeed (g₁ g₂ : RandomImpl) (s : UInt32) : (g₁.setSeed s).nextRaw = (g₂.setSeed s).nextRaw :=
  nextRaw_setSeed_aux g₁ g₂ s

/-- **raw stream**: any two generators, whatever their histories, produce the same raw sequence after `setSeed s` -/
theorem seed_determines_sequence (g₁ g₂ : RandomImpl) (s : UInt32) (n : Nat) :
    (g₁.setSeed s).rawDraws n = (g₂.setSeed s).rawDraws n := by
  cases n with
  | zero => rfl
  | succ n => simp only [RandomImpl.rawDraws, nextRaw_setSeed g₁ g₂ s]

/-- a freshly constructed generator with seed `s` is the same stream as any reseeded one -/
theorem fresh_equals_reseeded (g : RandomImpl) (s : UInt32) (n : Nat) :
    (RandomImpl.new s).rawDraws n = (g.setSeed s).rawDraws n := by
  have h : RandomImpl.new s = (RandomImpl.new s).setSeed s := by
    simp [RandomImpl.new, RandomImpl.setSeed]
  rw [h]; exact seed_determines_sequence _ _ s n

section Streams
variable {K : Type} [Add K] [Sub K] [Mul K] [Neg K] [Div K] [OfNat K 0] [OfNat K 1] [OfNat K 2]
  [LT K] [DecidableLT K] [LE K] [DecidableLE K] [BEq K]

/-- the first `n` values of `Uniform::getValue` -/
def Uniform.draws (cv : Nat → K) : Nat → Uniform K → List K
  | 0, _ => []
  | n + 1, u => let (v, u') := u.getValue cv; v :: draws cv n u'

/-- the first `n` values of `Gaussian::getValue` -/
def Gaussian.draws (cv : Nat → K) (log sqrt : K → K) (fuel : Nat) : Nat → Gaussian K → List K
  | 0, _ => []
  | n + 1, g => let (v, g') := g.getValue cv log sqrt fuel; v :: draws cv log sqrt fuel n g'

omit [Sub K] [Neg K] [Div K] [OfNat K 0] [OfNat K 1] [OfNat K 2] [LT K] [DecidableLT K] [LE K] [DecidableLE K] [BEq K] in
/-- **Uniform**: two `Uniform` objects with the same `min`/`range` produce identical value sequences after
`setSeed s`, whatever they did before -/
theorem uniform_seed_determines_sequence (cv : Nat → K) (u₁ u₂ : Uniform K) (s : UInt32) (n : Nat)
    (hmin : u₁.min = u₂.min) (hrange : u₁.range = u₂.range) :
    Uniform.draws cv n (u₁.setSeed s) = Uniform.draws cv n (u₂.setSeed s) := by
  have key : ∀ (n : Nat) (a b : Uniform K), UEq a b → Uniform.draws cv n a = Uniform.draws cv n b := by
    intro n
    induction n with
    | zero => intros; rfl
    | succ n ih =>
      intro a b h
      obtain ⟨hv, hs⟩ := uniform_step cv a b h
      simp only [Uniform.draws, hv, ih _ _ hs]
  exact key n _ _ (UEq_setSeed u₁ u₂ s hmin hrange)

omit [LT K] [DecidableLT K] in
/-- **Gaussian**: same statement; `setSeed` drops the cached second value, so the stale `nextGaussian` of either
object cannot leak into the new stream -/
theorem gaussian_seed_determines_sequence (cv : Nat → K) (log sqrt : K → K) (fuel : Nat)
    (g₁ g₂ : Gaussian K) (s : UInt32) (n : Nat) (hmean : g₁.mean = g₂.mean) (hsd : g₁.stddev = g₂.stddev) :
    Gaussian.draws cv log sqrt fuel n (g₁.setSeed s) = Gaussian.draws cv log sqrt fuel n (g₂.setSeed s) := by
  have key : ∀ (n : Nat) (a b : Gaussian K), GEq a b →
      Gaussian.draws cv log sqrt fuel n a = Gaussian.draws cv log sqrt fuel n b := by
    intro n
    induction n with
    | zero => intros; rfl
    | succ n ih =>
      intro a b h
      obtain ⟨hv, hs⟩ := gauss_step cv log sqrt fuel a b h
      simp only [Gaussian.draws, hv, ih _ _ hs]
  exact key n _ _ (GEq_setSeed g₁ g₂ s hmean hsd)

end Streams

/-! ## the Gaussian transformation stays inside the domains of `log` and `sqrt` -/

section Gauss
variable {K : Type} [Field K] [LinearOrder K] [IsStrictOrderedRing K]

/-- whatever the polar loop accepts satisfies `r² = x² + y²` and `0 < r² < 1` -/
theorem polarLoop_accepts (cv : Nat → K) (fuel : Nat) (g g' : RandomImpl) (x y r2 : K)
    (h : polarLoop cv fuel g = (some (x, y, r2), g')) : r2 = x * x + y * y ∧ 0 < r2 ∧ r2 < 1 := by
  induction fuel generalizing g with
  | zero => simp [polarLoop] at h
  | succ f ih =>
    simp only [polarLoop] at h
    split at h
    · exact ih _ h
    · rename_i hc
      simp only [Prod.mk.injEq, Option.some.injEq] at h
      obtain ⟨⟨hx, hy, hr⟩, _⟩ := h
      simp only [Bool.or_eq_true, decide_eq_true_eq, beq_iff_eq, not_or, not_le] at hc
      subst hx hy
      refine ⟨hr.symm, ?_, by rw [← hr]; exact hc.1⟩
      rw [← hr]
      have : 0 ≤ (2 * cv (res53Num g.nextRaw.1) - 1) * (2 * cv (res53Num g.nextRaw.1) - 1) +
          (2 * cv (res53Num g.nextRaw.2.nextRaw.1) - 1) * (2 * cv (res53Num g.nextRaw.2.nextRaw.1) - 1) := by
        nlinarith [mul_self_nonneg (2 * cv (res53Num g.nextRaw.1) - 1),
                   mul_self_nonneg (2 * cv (res53Num g.nextRaw.2.nextRaw.1) - 1)]
      exact lt_of_le_of_ne this (Ne.symm hc.2)

/-- **domain**: with any `log` that is negative on `(0,1)`, the argument `(-2·log r²)/r²` handed to `sqrt` is
positive and `log` is only called on a positive number -/
theorem gaussian_domain (cv : Nat → K) (log : K → K) (hlog : ∀ r, 0 < r → r < 1 → log r < 0)
    (fuel : Nat) (g g' : RandomImpl) (x y r2 : K)
    (h : polarLoop cv fuel g = (some (x, y, r2), g')) :
    0 < r2 ∧ 0 < (-2 * log r2) / r2 := by
  obtain ⟨_, hpos, hlt⟩ := polarLoop_accepts cv fuel g g' x y r2 h
  refine ⟨hpos, div_pos ?_ hpos⟩
  have := hlog r2 hpos hlt
  nlinarith

end Gauss

/-! ## period certification -/

/-- after `period_certification` the parity check of the first 128-bit word holds (`inner = 1`), for every state
array with at least four words — this is what guarantees the period `2¹⁹⁹³⁷−1` in the SFMT paper -/
theorem period_certification_certifies (st : Array UInt32) (h : 4 ≤ st.size) :
    parityInner (periodCertification st) = 1 :=
  periodCertification_parity st h

/-- `period_certification` is idempotent -/
theorem period_certification_idempotent (st : Array UInt32) (h : 4 ≤ st.size) :
    periodCertification (periodCertification st) = periodCertification st := by
  exact periodCertification_of_parity _ (period_certification_certifies st h)

end C31
