import SimbodyModel.Mobilizer
import Mathlib.Tactic.Ring
import Mathlib.Tactic.FieldSimp
import Mathlib.Tactic.LinearCombination
import Mathlib.Algebra.Field.Defs
import Mathlib.Algebra.CharZero.Defs

/-!
# Helper lemmas for the mobilizer family (C03, C05, C06)

* simp lemmas for jets and the small structures;
* `IsRot` (proper rotation: orthonormal and equal to its own cofactor matrix) and its closure properties;
* `IsRigidVel X V` : the jet `X` of a pose moves rigidly with spatial velocity `V` (`Ṙ = [ω]× R`, `ṗ = v`)
  and its calculus: constants, composition, inverse.
-/
namespace Mobilizer
variable {K : Type} [Field K]

@[simp] theorem Jet.add_re (a b : Jet K) : (a + b).re = a.re + b.re := rfl
@[simp] theorem Jet.add_eps (a b : Jet K) : (a + b).eps = a.eps + b.eps := rfl
@[simp] theorem Jet.sub_re (a b : Jet K) : (a - b).re = a.re - b.re := rfl
@[simp] theorem Jet.sub_eps (a b : Jet K) : (a - b).eps = a.eps - b.eps := rfl
@[simp] theorem Jet.mul_re (a b : Jet K) : (a * b).re = a.re * b.re := rfl
@[simp] theorem Jet.mul_eps (a b : Jet K) : (a * b).eps = a.re * b.eps + a.eps * b.re := rfl
@[simp] theorem Jet.neg_re (a : Jet K) : (-a).re = -a.re := rfl
@[simp] theorem Jet.neg_eps (a : Jet K) : (-a).eps = -a.eps := rfl
@[simp] theorem Jet.div_re (a b : Jet K) : (a / b).re = a.re / b.re := rfl
@[simp] theorem Jet.div_eps (a b : Jet K) : (a / b).eps = (a.eps * b.re - a.re * b.eps) / (b.re * b.re) := rfl
@[simp] theorem Jet.zero_re : (0 : Jet K).re = 0 := rfl
@[simp] theorem Jet.zero_eps : (0 : Jet K).eps = 0 := rfl
@[simp] theorem Jet.one_re : (1 : Jet K).re = 1 := rfl
@[simp] theorem Jet.one_eps : (1 : Jet K).eps = 0 := rfl
@[simp] theorem Jet.two_re : (2 : Jet K).re = 2 := rfl
@[simp] theorem Jet.two_eps : (2 : Jet K).eps = 0 := rfl

/-- unfold the small-structure algebra and the jet arithmetic down to scalar equations -/
syntax "mob_unfold" (Lean.Parser.Tactic.location)? : tactic
macro_rules
  | `(tactic| mob_unfold $[$loc]?) => `(tactic| simp only [
      V3.add, V3.sub, V3.neg, V3.smul, V3.dot, V3.cross, V3.emul, V3.zero, V3.ex, V3.ey, V3.ez,
      V3.re, V3.eps, V3.const, V3.var,
      M33.mul, M33.mulVec, M33.tr, M33.add, M33.sub, M33.col0, M33.col1, M33.col2, M33.ofCols, M33.crossMat, M33.one,
      M33.re, M33.eps, M33.const, M33.var,
      SV.zero, SV.add, SV.sub, SV.neg, SV.smul, SV.dot, SV.rot, SV.re, SV.eps, SV.var,
      Xf.one, Xf.mul, Xf.inv, Xf.app, Xf.re, Xf.const,
      Q4.smul, Q4.normSq, Q4.dot, Q4.add, Q4.hmul, Q4.conj, Q4.rotate, Q4.var,
      Jet.const, Jet.var, Jet.cosL, Jet.sinL, Jet.oocosL, Jet.invSqrtL,
      Jet.add_re, Jet.add_eps, Jet.sub_re, Jet.sub_eps, Jet.mul_re, Jet.mul_eps, Jet.neg_re, Jet.neg_eps,
      Jet.div_re, Jet.div_eps, Jet.zero_re, Jet.zero_eps, Jet.one_re, Jet.one_eps, Jet.two_re, Jet.two_eps,
      Hmul, List.map, List.cons.injEq, List.append, List.cons_append, List.nil_append, and_true, true_and,
      V3.mk.injEq, M33.mk.injEq, SV.mk.injEq, Xf.mk.injEq, Q4.mk.injEq] $[$loc]?)

/-- split a conjunction of scalar equations and close each by `ring` -/
macro "ring_all" : tactic => `(tactic| all_goals ((repeat' apply And.intro) <;> ring1))

/-! ## Matrix algebra -/

theorem M33.mul_assoc (A B C : M33 K) : M33.mul (M33.mul A B) C = M33.mul A (M33.mul B C) := by
  mob_unfold; ring_all
theorem M33.mulVec_mul (A B : M33 K) (v : V3 K) : (M33.mul A B).mulVec v = A.mulVec (B.mulVec v) := by
  mob_unfold; ring_all
theorem M33.one_mul (A : M33 K) : M33.mul M33.one A = A := by
  obtain ⟨a, b, c, d, e, f, g, h, i⟩ := A; mob_unfold; ring_all
theorem M33.mul_one (A : M33 K) : M33.mul A M33.one = A := by
  obtain ⟨a, b, c, d, e, f, g, h, i⟩ := A; mob_unfold; ring_all
theorem M33.tr_mul (A B : M33 K) : (M33.mul A B).tr = M33.mul B.tr A.tr := by
  mob_unfold; ring_all
omit [Field K] in
theorem M33.tr_tr (A : M33 K) : A.tr.tr = A := rfl
theorem M33.crossMat_mulVec (w v : V3 K) : (M33.crossMat w).mulVec v = V3.cross w v := by
  mob_unfold; ring_all

/-- proper rotation: orthonormal (both ways) and equal to its cofactor matrix (`det = +1`) -/
structure IsRot (R : M33 K) : Prop where
  orth : M33.mul R.tr R = M33.one
  orth' : M33.mul R R.tr = M33.one
  cxx : R.yy * R.zz - R.yz * R.zy = R.xx
  cxy : R.yz * R.zx - R.yx * R.zz = R.xy
  cxz : R.yx * R.zy - R.yy * R.zx = R.xz
  cyx : R.zy * R.xz - R.zz * R.xy = R.yx
  cyy : R.zz * R.xx - R.zx * R.xz = R.yy
  cyz : R.zx * R.xy - R.zy * R.xx = R.yz
  czx : R.xy * R.yz - R.xz * R.yy = R.zx
  czy : R.xz * R.yx - R.xx * R.yz = R.zy
  czz : R.xx * R.yy - R.xy * R.yx = R.zz

theorem IsRot.one : IsRot (M33.one : M33 K) := by
  constructor <;> mob_unfold <;> ring_all

theorem IsRot.tr {R : M33 K} (h : IsRot R) : IsRot R.tr := by
  obtain ⟨h1, h2, cxx, cxy, cxz, cyx, cyy, cyz, czx, czy, czz⟩ := h
  refine ⟨h2, h1, ?_, ?_, ?_, ?_, ?_, ?_, ?_, ?_, ?_⟩ <;> simp only [M33.tr]
  · linear_combination cxx
  · linear_combination cyx
  · linear_combination czx
  · linear_combination cxy
  · linear_combination cyy
  · linear_combination czy
  · linear_combination cxz
  · linear_combination cyz
  · linear_combination czz

theorem IsRot.mul {A B : M33 K} (hA : IsRot A) (hB : IsRot B) : IsRot (M33.mul A B) := by
  have o1 : M33.mul (M33.mul A B).tr (M33.mul A B) = M33.one := by
    rw [M33.tr_mul, M33.mul_assoc, ← M33.mul_assoc A.tr, hA.orth, M33.one_mul, hB.orth]
  have o2 : M33.mul (M33.mul A B) (M33.mul A B).tr = M33.one := by
    rw [M33.tr_mul, M33.mul_assoc, ← M33.mul_assoc B, hB.orth', M33.one_mul, hA.orth']
  obtain ⟨_, _, axx, axy, axz, ayx, ayy, ayz, azx, azy, azz⟩ := hA
  obtain ⟨_, _, bxx, bxy, bxz, byx, byy, byz, bzx, bzy, bzz⟩ := hB
  refine ⟨o1, o2, ?_, ?_, ?_, ?_, ?_, ?_, ?_, ?_, ?_⟩ <;> simp only [M33.mul]
  -- Cauchy–Binet: cof(AB) = cof(A) cof(B); then replace cof(A) by A and cof(B) by B
  · linear_combination B.xx * axx + (A.yy * A.zz - A.yz * A.zy) * bxx + B.yx * axy + (A.yz * A.zx - A.yx * A.zz) * byx
      + B.zx * axz + (A.yx * A.zy - A.yy * A.zx) * bzx
  · linear_combination B.xy * axx + (A.yy * A.zz - A.yz * A.zy) * bxy + B.yy * axy + (A.yz * A.zx - A.yx * A.zz) * byy
      + B.zy * axz + (A.yx * A.zy - A.yy * A.zx) * bzy
  · linear_combination B.xz * axx + (A.yy * A.zz - A.yz * A.zy) * bxz + B.yz * axy + (A.yz * A.zx - A.yx * A.zz) * byz
      + B.zz * axz + (A.yx * A.zy - A.yy * A.zx) * bzz
  · linear_combination B.xx * ayx + (A.zy * A.xz - A.zz * A.xy) * bxx + B.yx * ayy + (A.zz * A.xx - A.zx * A.xz) * byx
      + B.zx * ayz + (A.zx * A.xy - A.zy * A.xx) * bzx
  · linear_combination B.xy * ayx + (A.zy * A.xz - A.zz * A.xy) * bxy + B.yy * ayy + (A.zz * A.xx - A.zx * A.xz) * byy
      + B.zy * ayz + (A.zx * A.xy - A.zy * A.xx) * bzy
  · linear_combination B.xz * ayx + (A.zy * A.xz - A.zz * A.xy) * bxz + B.yz * ayy + (A.zz * A.xx - A.zx * A.xz) * byz
      + B.zz * ayz + (A.zx * A.xy - A.zy * A.xx) * bzz
  · linear_combination B.xx * azx + (A.xy * A.yz - A.xz * A.yy) * bxx + B.yx * azy + (A.xz * A.yx - A.xx * A.yz) * byx
      + B.zx * azz + (A.xx * A.yy - A.xy * A.yx) * bzx
  · linear_combination B.xy * azx + (A.xy * A.yz - A.xz * A.yy) * bxy + B.yy * azy + (A.xz * A.yx - A.xx * A.yz) * byy
      + B.zy * azz + (A.xx * A.yy - A.xy * A.yx) * bzy
  · linear_combination B.xz * azx + (A.xy * A.yz - A.xz * A.yy) * bxz + B.yz * azy + (A.xz * A.yx - A.xx * A.yz) * byz
      + B.zz * azz + (A.xx * A.yy - A.xy * A.yx) * bzz

/-- a rotation maps cross products to cross products -/
theorem IsRot.cross {R : M33 K} (h : IsRot R) (a b : V3 K) :
    V3.cross (R.mulVec a) (R.mulVec b) = R.mulVec (V3.cross a b) := by
  obtain ⟨_, _, cxx, cxy, cxz, cyx, cyy, cyz, czx, czy, czz⟩ := h
  mob_unfold
  refine ⟨?_, ?_, ?_⟩
  · linear_combination (a.y * b.z - a.z * b.y) * cxx + (a.z * b.x - a.x * b.z) * cxy + (a.x * b.y - a.y * b.x) * cxz
  · linear_combination (a.y * b.z - a.z * b.y) * cyx + (a.z * b.x - a.x * b.z) * cyy + (a.x * b.y - a.y * b.x) * cyz
  · linear_combination (a.y * b.z - a.z * b.y) * czx + (a.z * b.x - a.x * b.z) * czy + (a.x * b.y - a.y * b.x) * czz

/-- `[R w]× R = R [w]×` -/
theorem IsRot.crossMat_mul {R : M33 K} (h : IsRot R) (w : V3 K) :
    M33.mul (M33.crossMat (R.mulVec w)) R = M33.mul R (M33.crossMat w) := by
  obtain ⟨_, _, cxx, cxy, cxz, cyx, cyy, cyz, czx, czy, czz⟩ := h
  mob_unfold
  refine ⟨?_, ?_, ?_, ?_, ?_, ?_, ?_, ?_, ?_⟩
  · linear_combination w.z * cxy - w.y * cxz
  · linear_combination w.x * cxz - w.z * cxx
  · linear_combination w.y * cxx - w.x * cxy
  · linear_combination w.z * cyy - w.y * cyz
  · linear_combination w.x * cyz - w.z * cyx
  · linear_combination w.y * cyx - w.x * cyy
  · linear_combination w.z * czy - w.y * czz
  · linear_combination w.x * czz - w.z * czx
  · linear_combination w.y * czx - w.x * czy

theorem IsRot.mulVec_tr_mulVec {R : M33 K} (h : IsRot R) (v : V3 K) : R.tr.mulVec (R.mulVec v) = v := by
  rw [← M33.mulVec_mul, h.orth]; obtain ⟨x, y, z⟩ := v; mob_unfold; ring_all
theorem IsRot.mulVec_mulVec_tr {R : M33 K} (h : IsRot R) (v : V3 K) : R.mulVec (R.tr.mulVec v) = v := by
  rw [← M33.mulVec_mul, h.orth']; obtain ⟨x, y, z⟩ := v; mob_unfold; ring_all

/-! ## Rigid motion of a pose jet -/

/-- the pose jet `X` moves rigidly with spatial velocity `V`: `Ṙ = [ω]× R`, `ṗ = v` -/
def IsRigidVel (X : Xf (Jet K)) (V : SV K) : Prop :=
  X.R.eps = M33.mul (M33.crossMat V.w) X.R.re ∧ X.p.eps = V.v

theorem IsRigidVel.const (X : Xf K) : IsRigidVel (Xf.const X) SV.zero := by
  simp only [IsRigidVel]; mob_unfold; ring_all

/-- jets of products -/
theorem M33.mul_re (A B : M33 (Jet K)) : (M33.mul A B).re = M33.mul A.re B.re := by
  mob_unfold
theorem M33.mul_eps (A B : M33 (Jet K)) :
    (M33.mul A B).eps = M33.add (M33.mul A.eps B.re) (M33.mul A.re B.eps) := by
  mob_unfold; ring_all
theorem M33.mulVec_re (A : M33 (Jet K)) (v : V3 (Jet K)) : (A.mulVec v).re = A.re.mulVec v.re := by
  mob_unfold
theorem M33.mulVec_eps (A : M33 (Jet K)) (v : V3 (Jet K)) :
    (A.mulVec v).eps = V3.add (A.eps.mulVec v.re) (A.re.mulVec v.eps) := by
  mob_unfold; ring_all

/-- velocity of a composed pose, in the frame of the first factor -/
def composeVel (X1 : Xf K) (V1 : SV K) (X2 : Xf K) (V2 : SV K) : SV K :=
  ⟨V3.add V1.w (X1.R.mulVec V2.w),
   V3.add (V3.add V1.v (V3.cross V1.w (X1.R.mulVec X2.p))) (X1.R.mulVec V2.v)⟩

/-- composition of rigidly moving poses moves rigidly -/
theorem IsRigidVel.mul {X1 X2 : Xf (Jet K)} {V1 V2 : SV K} (h1 : IsRigidVel X1 V1) (h2 : IsRigidVel X2 V2)
    (hR : IsRot X1.R.re) : IsRigidVel (Xf.mul X1 X2) (composeVel X1.re V1 X2.re V2) := by
  obtain ⟨h1R, h1p⟩ := h1
  obtain ⟨h2R, h2p⟩ := h2
  constructor
  · -- Ṙ = [w1] R1 R2 + R1 [w2] R2 = [w1 + R1 w2] R1 R2
    simp only [Xf.mul, M33.mul_eps, M33.mul_re, h1R, h2R, composeVel, Xf.re]
    have key := hR.crossMat_mul V2.w
    -- R1 [w2] R2 = [R1 w2] R1 R2
    have e : M33.mul X1.R.re (M33.mul (M33.crossMat V2.w) X2.R.re)
        = M33.mul (M33.crossMat (X1.R.re.mulVec V2.w)) (M33.mul X1.R.re X2.R.re) := by
      rw [← M33.mul_assoc, ← key, M33.mul_assoc]
    rw [e, M33.mul_assoc]
    generalize M33.mul X1.R.re X2.R.re = R12
    generalize X1.R.re.mulVec V2.w = w2
    mob_unfold; ring_all
  · simp only [Xf.mul, composeVel, Xf.re]
    have e : (V3.add X1.p (X1.R.mulVec X2.p)).eps = V3.add X1.p.eps (X1.R.mulVec X2.p).eps := by
      mob_unfold
    rw [e, M33.mulVec_eps, h1R, h1p, h2p, M33.mulVec_mul, M33.crossMat_mulVec]
    generalize X1.R.re.mulVec X2.p.re = a
    generalize X1.R.re.mulVec V2.v = b
    mob_unfold; ring_all

omit [Field K] in
theorem M33.tr_re (A : M33 (Jet K)) : A.tr.re = A.re.tr := rfl
omit [Field K] in
theorem M33.tr_eps (A : M33 (Jet K)) : A.tr.eps = A.eps.tr := rfl

/-- inverse of a rigidly moving pose moves rigidly with the reversed velocity
(`RigidBodyNode::reverseSpatialVelocity`) -/
theorem IsRigidVel.inv {X : Xf (Jet K)} {V : SV K} (h : IsRigidVel X V) (hR : IsRot X.R.re) :
    IsRigidVel (Xf.inv X) (reverseSpatialVelocity X.re V) := by
  obtain ⟨hRd, hpd⟩ := h
  have key := hR.tr.crossMat_mul V.w
  constructor
  · simp only [Xf.inv, M33.tr_eps, M33.tr_re, hRd, reverseSpatialVelocity, SV.rot, Xf.re]
    -- ([w]R)ᵀ = −Rᵀ[w] = [−Rᵀw] Rᵀ
    have e1 : (M33.mul (M33.crossMat V.w) X.R.re).tr = M33.mul X.R.re.tr (M33.crossMat (V3.neg V.w)) := by
      mob_unfold; ring_all
    have e2 := hR.tr.crossMat_mul (V3.neg V.w)
    rw [e1, ← e2]
  · simp only [Xf.inv, reverseSpatialVelocity, SV.rot, Xf.re]
    have e : (V3.neg (X.R.tr.mulVec X.p)).eps = V3.neg (V3.add (X.R.eps.tr.mulVec X.p.re) (X.R.re.tr.mulVec X.p.eps)) := by
      mob_unfold; ring_all
    rw [e, hRd, hpd]
    have e1 : (M33.mul (M33.crossMat V.w) X.R.re).tr = M33.mul X.R.re.tr (M33.crossMat (V3.neg V.w)) := by
      mob_unfold; ring_all
    rw [e1, M33.mulVec_mul, M33.crossMat_mulVec]
    generalize X.R.re.tr = Rt
    mob_unfold; ring_all

/-! ## Hinge-matrix columns are linear -/

theorem Hmul_map {f : SV K → SV K} (hadd : ∀ a b, f (SV.add a b) = SV.add (f a) (f b))
    (hsmul : ∀ (s : K) a, f (SV.smul s a) = SV.smul s (f a)) (hzero : f SV.zero = SV.zero) :
    ∀ (H : List (SV K)) (u : List K), Hmul (H.map f) u = f (Hmul H u)
  | [], _ => by simp only [List.map, Hmul, hzero]
  | _ :: _, [] => by simp only [List.map, Hmul, hzero]
  | h :: hs, u :: us => by
    simp only [List.map, Hmul, hadd, hsmul, Hmul_map hadd hsmul hzero hs us]

end Mobilizer

namespace Mobilizer
variable {K : Type} [Field K]

/-! ## Elementary rotations and trig pairs -/

/-- `(c,s)` is the cosine/sine pair of some angle -/
def Trig (c s : K) : Prop := c * c + s * s = 1

theorem Trig.sq {c s : K} (h : Trig c s) : c ^ 2 = 1 - s ^ 2 := by unfold Trig at h; linear_combination h

/-- close a polynomial identity modulo `cᵢ² = 1 − sᵢ²` (the listed rewrite rules) -/
syntax "trig_ring" "[" Lean.Parser.Tactic.simpLemma,* "]" : tactic
macro_rules
  | `(tactic| trig_ring [$hs,*]) => `(tactic| first | ring1 | (ring_nf; simp only [$hs,*]; ring1))

def rotX (c s : K) : M33 K := ⟨1, 0, 0, 0, c, -s, 0, s, c⟩
def rotY (c s : K) : M33 K := ⟨c, 0, s, 0, 1, 0, -s, 0, c⟩

theorem rotAxis_ex (c s : K) : rotAxis V3.ex c s = rotX c s := by
  simp only [rotAxis, rotX]; mob_unfold; ring_all
theorem rotAxis_ey (c s : K) : rotAxis V3.ey c s = rotY c s := by
  simp only [rotAxis, rotY]; mob_unfold; ring_all
theorem rotAxis_ez (c s : K) : rotAxis V3.ez c s = rotZ c s := by
  simp only [rotAxis, rotZ]; mob_unfold; ring_all

theorem rotX_isRot {c s : K} (h : Trig c s) : IsRot (rotX c s) := by
  unfold Trig at h
  constructor <;> simp only [rotX] <;> (try mob_unfold) <;> (repeat' apply And.intro) <;>
    first | ring1 | linear_combination h
theorem rotY_isRot {c s : K} (h : Trig c s) : IsRot (rotY c s) := by
  unfold Trig at h
  constructor <;> simp only [rotY] <;> (try mob_unfold) <;> (repeat' apply And.intro) <;>
    first | ring1 | linear_combination h
theorem rotZ_isRot {c s : K} (h : Trig c s) : IsRot (rotZ c s) := by
  unfold Trig at h
  constructor <;> simp only [rotZ] <;> (try mob_unfold) <;> (repeat' apply And.intro) <;>
    first | ring1 | linear_combination h

/-- a unit quaternion gives a proper rotation (`setRotationFromQuaternion`) -/
theorem rotQuat_isRot [CharZero K] {e : Q4 K} (h : Q4.normSq e = 1) : IsRot (rotQuat e) := by
  obtain ⟨a, b, c, d⟩ := e
  simp only [Q4.normSq] at h
  constructor <;> simp only [rotQuat] <;> (try mob_unfold) <;> (repeat' apply And.intro)
  all_goals first
    | ring1
    | linear_combination (a * a + b * b + c * c + d * d + 1) * h
    | linear_combination (a * a + b * b - c * c - d * d) * h
    | linear_combination (a * a - b * b + c * c - d * d) * h
    | linear_combination (a * a - b * b - c * c + d * d) * h
    | linear_combination (2 * (b * c - a * d)) * h
    | linear_combination (2 * (b * c + a * d)) * h
    | linear_combination (2 * (b * d + a * c)) * h
    | linear_combination (2 * (b * d - a * c)) * h
    | linear_combination (2 * (c * d - a * b)) * h
    | linear_combination (2 * (c * d + a * b)) * h

/-- the coded quaternion-to-matrix formula is the Hamilton sandwich `e v e*` (for every `e`) -/
theorem rotQuat_eq_rotate (e : Q4 K) (v : V3 K) : (rotQuat e).mulVec v = Q4.rotate e v := by
  simp only [rotQuat]; mob_unfold; ring_all

/-! ## Inverse of a transform -/
theorem Xf.inv_mul_self {X : Xf K} (h : IsRot X.R) : Xf.mul (Xf.inv X) X = Xf.one := by
  have o := h.orth
  simp only [Xf.mul, Xf.inv, Xf.one, Xf.mk.injEq]
  refine ⟨o, ?_⟩
  generalize X.R.tr.mulVec X.p = a
  mob_unfold; ring_all
theorem Xf.mul_inv_self {X : Xf K} (h : IsRot X.R) : Xf.mul X (Xf.inv X) = Xf.one := by
  have o := h.orth'
  simp only [Xf.mul, Xf.inv, Xf.one, Xf.mk.injEq]
  refine ⟨o, ?_⟩
  have e : X.R.mulVec (V3.neg (X.R.tr.mulVec X.p)) = V3.neg (X.R.mulVec (X.R.tr.mulVec X.p)) := by
    mob_unfold; ring_all
  rw [e, h.mulVec_mulVec_tr]
  mob_unfold; ring_all

end Mobilizer

namespace Mobilizer
variable {K : Type} [Field K]

/-! ## Turning matrices (rotation part of `IsRigidVel`) -/

/-- the matrix jet `Rj` turns with angular velocity `w`: `Ṙ = [w]× R` -/
def Turns (Rj : M33 (Jet K)) (w : V3 K) : Prop := Rj.eps = M33.mul (M33.crossMat w) Rj.re

theorem Turns.mul {A B : M33 (Jet K)} {a b : V3 K} (hA : Turns A a) (hB : Turns B b) (hR : IsRot A.re) :
    Turns (M33.mul A B) (V3.add a (A.re.mulVec b)) := by
  unfold Turns at *
  simp only [M33.mul_eps, M33.mul_re, hA, hB]
  have key := hR.crossMat_mul b
  have e : M33.mul A.re (M33.mul (M33.crossMat b) B.re)
      = M33.mul (M33.crossMat (A.re.mulVec b)) (M33.mul A.re B.re) := by
    rw [← M33.mul_assoc, ← key, M33.mul_assoc]
  rw [e, M33.mul_assoc]
  generalize M33.mul A.re B.re = R12
  generalize A.re.mulVec b = w2
  mob_unfold; ring_all

theorem rotAxis_ex_re (c s u : K) : (rotAxis V3.ex (Jet.cosL c s u) (Jet.sinL c s u)).re = rotAxis V3.ex c s := by
  simp only [rotAxis]; mob_unfold
theorem rotAxis_ey_re (c s u : K) : (rotAxis V3.ey (Jet.cosL c s u) (Jet.sinL c s u)).re = rotAxis V3.ey c s := by
  simp only [rotAxis]; mob_unfold
theorem rotAxis_ez_re (c s u : K) : (rotAxis V3.ez (Jet.cosL c s u) (Jet.sinL c s u)).re = rotAxis V3.ez c s := by
  simp only [rotAxis]; mob_unfold
/-- an elementary rotation whose angle moves with rate `u` turns about its axis with rate `u` -/
theorem rotAxis_ex_turns (c s u : K) : Turns (rotAxis V3.ex (Jet.cosL c s u) (Jet.sinL c s u)) (V3.smul u V3.ex) := by
  simp only [Turns, rotAxis]; mob_unfold; ring_all
theorem rotAxis_ey_turns (c s u : K) : Turns (rotAxis V3.ey (Jet.cosL c s u) (Jet.sinL c s u)) (V3.smul u V3.ey) := by
  simp only [Turns, rotAxis]; mob_unfold; ring_all
theorem rotAxis_ez_turns (c s u : K) : Turns (rotAxis V3.ez (Jet.cosL c s u) (Jet.sinL c s u)) (V3.smul u V3.ez) := by
  simp only [Turns, rotAxis]; mob_unfold; ring_all

/-- translating a rigidly moving pose by a moving offset `p(t)` (expressed in the base frame) -/
theorem IsRigidVel.translate {X : Xf (Jet K)} {V : SV K} (h : IsRigidVel X V) (p v : V3 K) :
    IsRigidVel (Xf.mul ⟨M33.one, V3.var p v⟩ X) ⟨V.w, V3.add v V.v⟩ := by
  obtain ⟨⟨⟨a0, a1⟩, ⟨b0, b1⟩, ⟨c0, c1⟩, ⟨d0, d1⟩, ⟨e0, e1⟩, ⟨f0, f1⟩, ⟨g0, g1⟩, ⟨h0, h1⟩, ⟨i0, i1⟩⟩, ⟨⟨x0, x1⟩, ⟨y0, y1⟩, ⟨z0, z1⟩⟩⟩ := X
  obtain ⟨⟨wx, wy, wz⟩, ⟨vx, vy, vz⟩⟩ := V
  simp only [IsRigidVel] at h ⊢
  mob_unfold at h
  obtain ⟨⟨r1, r2, r3, r4, r5, r6, r7, r8, r9⟩, r10, r11, r12⟩ := h
  subst r1 r2 r3 r4 r5 r6 r7 r8 r9 r10 r11 r12
  mob_unfold; ring_all

/-- a point carried by a turning frame at a moving distance: `p = t · (R a)` -/
theorem Turns.smul_mulVec_eps {R : M33 (Jet K)} {w : V3 K} (hR : Turns R w) (t : Jet K) (a : V3 K) :
    (V3.smul t (R.mulVec (V3.const a))).eps
      = V3.add (V3.cross w (V3.smul t.re (R.re.mulVec a))) (V3.smul t.eps (R.re.mulVec a)) := by
  obtain ⟨⟨a0, a1⟩, ⟨b0, b1⟩, ⟨c0, c1⟩, ⟨d0, d1⟩, ⟨e0, e1⟩, ⟨f0, f1⟩, ⟨g0, g1⟩, ⟨h0, h1⟩, ⟨i0, i1⟩⟩ := R
  unfold Turns at hR
  mob_unfold at hR
  obtain ⟨r1, r2, r3, r4, r5, r6, r7, r8, r9⟩ := hR
  subst r1 r2 r3 r4 r5 r6 r7 r8 r9
  mob_unfold; ring_all

end Mobilizer

namespace Mobilizer
variable {K : Type} [Field K]

omit [Field K] in
theorem Jet.ext' {a b : Jet K} (h1 : a.re = b.re) (h2 : a.eps = b.eps) : a = b := by
  cases a; cases b; simp_all

/-- reduce jet arithmetic under `.re` / `.eps` -/
macro "jet_simp" : tactic => `(tactic| simp only [
      Jet.const, Jet.var, Jet.cosL, Jet.sinL, Jet.oocosL, Jet.invSqrtL,
      Jet.add_re, Jet.add_eps, Jet.sub_re, Jet.sub_eps, Jet.mul_re, Jet.mul_eps, Jet.neg_re, Jet.neg_eps,
      Jet.div_re, Jet.div_eps, Jet.zero_re, Jet.zero_eps, Jet.one_re, Jet.one_eps, Jet.two_re, Jet.two_eps])

/-- the Hamilton sandwich and the coded matrix agree on jets too -/
theorem docRq_cols_jet (e : Q4 (Jet K)) :
    M33.ofCols (Q4.rotate e V3.ex) (Q4.rotate e V3.ey) (Q4.rotate e V3.ez) = rotQuat e := by
  obtain ⟨⟨a0, a1⟩, ⟨b0, b1⟩, ⟨c0, c1⟩, ⟨d0, d1⟩⟩ := e
  simp only [rotQuat, M33.ofCols, Q4.rotate, Q4.hmul, Q4.conj, V3.ex, V3.ey, V3.ez, M33.mk.injEq]
  repeat' apply And.intro
  all_goals (apply Jet.ext' <;> jet_simp <;> ring1)

theorem rotQuat_var_re (e ed : Q4 K) : (rotQuat (Q4.var e ed)).re = rotQuat e := by
  simp only [rotQuat]; mob_unfold

section
variable [CharZero K]
/-- normalising a quaternion that moves with `q̇ = N(q) ω` gives a quaternion moving with `ė = N(e) ω`
(the norm is constant along the motion because `q · N(q) ω = 0`) -/
theorem smul_var_quat_N (q : Q4 K) (r : K) (w : V3 K) :
    Q4.smul (Jet.invSqrtL (Q4.normSq (Q4.var q (quat_N q w))) r) (Q4.var q (quat_N q w))
      = Q4.var (Q4.smul r q) (quat_N (Q4.smul r q) w) := by
  obtain ⟨a, b, c, d⟩ := q; obtain ⟨x, y, z⟩ := w
  simp only [Q4.smul, Q4.var, Q4.normSq, quat_N, Q4.mk.injEq]
  repeat' apply And.intro
  all_goals (apply Jet.ext' <;> jet_simp <;> ring1)
end

end Mobilizer
