import SimbodyProofs.C26_lemmas

/-!
# C26 — every `Array_` operation of the model refines the `std::vector` list operation

`Rep a vs` : the array `a` represents the list `vs` (first `|vs|` cells live with these values,
all other cells of the block raw).  For each operation `op` with a legal, undisturbed value argument:
`Rep a vs → StepOK … (spec vs op)`.
-/
namespace C26

/-- what cell `j` of a block of `cap` cells holds when the block represents `vs` -/
def cellAt (vs : List Elt) (cap j : Nat) : Option Cell :=
  if j < vs.length then some vs[j]? else if j < cap then some none else none

structure Rep (a : Arr) (vs : List Elt) : Prop where
  size : a.size = vs.length
  le : vs.length ≤ a.cells.length
  cells : ∀ j, a.cells[j]? = cellAt vs a.cells.length j

theorem length_of_pointwise {c : Block} {N : Nat} (h : ∀ j, c[j]? = none ↔ N ≤ j) : c.length = N := by
  have h1 := (h c.length).1 (List.getElem?_eq_none (Nat.le_refl _))
  rcases Nat.lt_or_ge N c.length with h2 | h2
  · have := (h N).2 (Nat.le_refl _)
    have h3 : N < c.length := h2
    rw [List.getElem?_eq_getElem h3] at this
    simp at this
  · omega

theorem cellAt_none_iff {vs : List Elt} {cap j : Nat} (h : vs.length ≤ cap) : cellAt vs cap j = none ↔ cap ≤ j := by
  unfold cellAt
  split_ifs <;> simp <;> omega

/-- build `Rep` from a pointwise description of the block -/
theorem Rep.of_pointwise {a : Arr} {vs : List Elt} (cap : Nat) (hs : a.size = vs.length) (hle : vs.length ≤ cap)
    (hc : ∀ j, a.cells[j]? = cellAt vs cap j) : Rep a vs ∧ a.cells.length = cap := by
  have hl : a.cells.length = cap := length_of_pointwise (fun j => by rw [hc j]; exact cellAt_none_iff hle)
  exact ⟨⟨hs, by omega, by rw [hl]; exact hc⟩, hl⟩

theorem Rep.live {a : Arr} {vs : List Elt} (h : Rep a vs) {j : Nat} (hj : j < vs.length) :
    a.cells[j]? = some (some vs[j]) := by
  rw [h.cells j, cellAt, if_pos hj, List.getElem?_eq_getElem hj]

theorem Rep.raw {a : Arr} {vs : List Elt} (h : Rep a vs) {j : Nat} (h1 : vs.length ≤ j) (h2 : j < a.cells.length) :
    a.cells[j]? = some none := by
  rw [h.cells j, cellAt, if_neg (by omega), if_pos h2]

theorem abs_of_rep {a : Arr} {vs : List Elt} (h : Rep a vs) : abs a = vs := by
  apply List.ext_getElem?
  intro j
  unfold abs
  rw [List.getElem?_map, List.getElem?_take, h.size]
  by_cases hj : j < vs.length
  · rw [if_pos hj, h.live hj, List.getElem?_eq_getElem hj]; rfl
  · rw [if_neg hj, List.getElem?_eq_none (by omega)]; rfl

theorem rep_empty : Rep {} [] := ⟨rfl, by simp, by intro j; simp [cellAt]⟩

theorem rep_unique {a : Arr} {vs ws : List Elt} (h1 : Rep a vs) (h2 : Rep a ws) : vs = ws := by
  rw [← abs_of_rep h1, ← abs_of_rep h2]

/-- the outcome of a step that is disciplined and refines `expect` -/
structure StepOK (a : Arr) (L : Log) (r : Res) (expect : List Elt) : Prop where
  rep : Rep r.arr expect
  viol : r.log.viol = L.viol
  bal : r.log.ctor + a.size + L.dtor = r.log.dtor + r.arr.size + L.ctor
  nothrow : r.thrown = false

/-- a step that threw: nothing changed -/
def Unchanged (a : Arr) (L : Log) (r : Res) : Prop := r.arr = a ∧ r.log = L ∧ r.thrown = true

/-! ## pointwise form of the list specifications -/

theorem getElem?_splice {vs ws : List Elt} {p q : Nat} (hp : p ≤ vs.length) (j : Nat) :
    (splice vs p q ws)[j]? =
      if j < p then vs[j]? else if j < p + ws.length then ws[j - p]? else vs[q + (j - (p + ws.length))]? := by
  unfold splice
  rw [List.getElem?_append]
  simp only [List.length_take, Nat.min_eq_left hp]
  by_cases h1 : j < p
  · rw [if_pos h1, if_pos h1, List.getElem?_take, if_pos h1]
  · rw [if_neg h1, if_neg h1, List.getElem?_append]
    by_cases h2 : j - p < ws.length
    · rw [if_pos h2, if_pos (by omega)]
    · rw [if_neg h2, if_neg (by omega), List.getElem?_drop]; congr 1; omega

theorem length_splice {vs ws : List Elt} {p q : Nat} (hp : p ≤ vs.length) :
    (splice vs p q ws).length = p + ws.length + (vs.length - q) := by
  simp [splice, Nat.min_eq_left hp]; omega

/-- `calcNewCapacityForGrowthBy` gives enough room -/
theorem calcNew_ge {mx cap n nc : Nat} (h : calcNewCapacityForGrowthBy mx cap n = some nc) : cap + n ≤ nc := by
  unfold calcNewCapacityForGrowthBy at h
  by_cases h1 : cap + n ≤ mx
  · rw [if_pos h1] at h
    dsimp only at h
    simp only [Option.some.injEq] at h
    omega
  · rw [if_neg h1] at h; simp at h

theorem allocN_getElem? (n j : Nat) : (allocN n)[j]? = if j < n then some none else none := by
  unfold allocN
  rw [List.getElem?_replicate]

/-- closes the pointwise goals of the operation lemmas -/
macro "pw_close" : tactic =>
  `(tactic| (split_ifs <;> first | rfl | omega | (congr 1; omega) | (congr 2; omega) | (simp_all; done) | (exfalso; omega)))

/-! ## reallocation: move everything into a fresh block of `nc` cells -/

theorem moveAll_spec {a : Arr} {vs : List Elt} (L : Log) (nc : Nat) (h : Rep a vs) (hnc : vs.length ≤ nc) :
    Rep ⟨(moveRange (allocN nc) a.cells L 0 0 a.size).1, a.size⟩ vs ∧
    (moveRange (allocN nc) a.cells L 0 0 a.size).1.length = nc ∧
    (moveRange (allocN nc) a.cells L 0 0 a.size).2.2 = L.adv vs.length vs.length := by
  have hsrc : ∀ k, k < a.size → ∃ x, a.cells[0 + k]? = some (some x) := by
    intro k hk; rw [Nat.zero_add]; exact ⟨_, h.live (by rw [← h.size]; exact hk)⟩
  have hdst : ∀ k, k < a.size → (allocN nc)[0 + k]? = some none := by
    intro k hk; rw [Nat.zero_add, allocN_getElem?, if_pos (by rw [h.size] at hk; omega)]
  obtain ⟨e1, e2, _⟩ := moveRange_spec a.size (allocN nc) a.cells L 0 0 hsrc hdst
  have hp := Rep.of_pointwise (a := ⟨(moveRange (allocN nc) a.cells L 0 0 a.size).1, a.size⟩) nc h.size hnc (by
    intro j
    show (moveRange (allocN nc) a.cells L 0 0 a.size).1[j]? = _
    rw [e2 j, h.size, allocN_getElem?]
    simp only [Nat.zero_le, true_and, Nat.zero_add, Nat.sub_zero]
    rw [h.cells j]
    unfold cellAt
    have := h.le
    pw_close)
  exact ⟨hp.1, hp.2, by rw [e1, h.size]⟩

/-! ## insertGapAt: a raw gap of `n` cells at `p` -/

/-- cell `j` of a block of `cap` cells that represents `vs` with a raw gap `[p, p+n)` opened in it -/
def gapAt (vs : List Elt) (p n cap j : Nat) : Option Cell :=
  if j < p then some vs[j]?
  else if j < p + n then some none
  else if j < vs.length + n then some vs[j - n]?
  else if j < cap then some none else none

theorem insertGapAt_spec {mx : Nat} {a : Arr} {vs : List Elt} (L : Log) {p n : Nat} (h : Rep a vs) (hp : p ≤ vs.length) :
    (insertGapAt mx a L p n = none ∧ n ≠ 0 ∧ a.cap < a.size + n) ∨
    ∃ a' L' re m, insertGapAt mx a L p n = some (a', L', re) ∧ a'.size = a.size ∧
      vs.length + n ≤ a'.cells.length ∧ (∀ j, a'.cells[j]? = gapAt vs p n a'.cells.length j) ∧
      L' = L.adv m m ∧ (re = true ↔ (n ≠ 0 ∧ a.cap < a.size + n)) := by
  have hs := h.size
  have hle := h.le
  unfold insertGapAt
  by_cases hn : n = 0
  · right
    subst hn
    refine ⟨a, L, false, 0, by simp, rfl, by omega, ?_, by simp, by simp⟩
    intro j; rw [h.cells j]; unfold cellAt gapAt; pw_close
  · rw [if_neg hn]
    by_cases hcap : a.cap ≥ a.size + n
    · right
      rw [if_pos hcap]
      unfold Arr.cap at hcap
      have hlive : ∀ k, k < a.size - p → ∃ x, a.cells[p + k]? = some (some x) := by
        intro k hk; exact ⟨_, h.live (by omega)⟩
      have hraw : ∀ k, k < n → a.cells[p + (a.size - p) + k]? = some none := by
        intro k hk; exact h.raw (by omega) (by omega)
      obtain ⟨e1, e2⟩ := moveElementsUp_spec n (by omega) p (a.size - p) a.cells L hlive hraw
      have hlen : (moveElementsUp a.cells L n p (a.size - p)).1.length = a.cells.length := by
        apply length_of_pointwise
        intro j
        rw [e2 j]
        constructor
        · intro hj
          split_ifs at hj with h1 h2
          · have := List.getElem?_eq_none_iff.1 hj; omega
          · exact List.getElem?_eq_none_iff.1 hj
        · intro hj
          rw [if_neg (by omega), if_neg (by omega)]; exact List.getElem?_eq_none hj
      refine ⟨_, _, false, a.size - p, rfl, rfl, by rw [hlen]; omega, ?_, e1, by simp [Arr.cap]; omega⟩
      intro j
      show (moveElementsUp a.cells L n p (a.size - p)).1[j]? = _
      rw [hlen, e2 j, h.cells j, h.cells (j - n)]
      unfold cellAt gapAt
      pw_close
    · rw [if_neg hcap]
      cases hc : calcNewCapacityForGrowthBy mx a.cap n with
      | none => left; exact ⟨rfl, hn, by omega⟩
      | some nc =>
        right
        have hge := calcNew_ge hc
        unfold Arr.cap at hge hcap
        -- first move: [0,p)
        have hs1 : ∀ k, k < p → ∃ x, a.cells[0 + k]? = some (some x) := by
          intro k hk; rw [Nat.zero_add]; exact ⟨_, h.live (by omega)⟩
        have hd1 : ∀ k, k < p → (allocN nc)[0 + k]? = some none := by
          intro k hk; rw [Nat.zero_add, allocN_getElem?, if_pos (by omega)]
        obtain ⟨l1, n1, o1⟩ := moveRange_spec p (allocN nc) a.cells L 0 0 hs1 hd1
        -- second move: [p,size) -> [p+n, size+n)
        have hs2 : ∀ k, k < a.size - p → ∃ x, (moveRange (allocN nc) a.cells L 0 0 p).2.1[p + k]? = some (some x) := by
          intro k hk
          rw [o1, if_neg (by omega)]; exact ⟨_, h.live (by omega)⟩
        have hd2 : ∀ k, k < a.size - p → (moveRange (allocN nc) a.cells L 0 0 p).1[p + n + k]? = some none := by
          intro k hk
          rw [n1, if_neg (by omega), allocN_getElem?, if_pos (by omega)]
        obtain ⟨l2, n2, _⟩ := moveRange_spec (a.size - p) (moveRange (allocN nc) a.cells L 0 0 p).1
          (moveRange (allocN nc) a.cells L 0 0 p).2.1 (moveRange (allocN nc) a.cells L 0 0 p).2.2 (p + n) p hs2 hd2
        have hpt : ∀ j, (moveRange (moveRange (allocN nc) a.cells L 0 0 p).1 (moveRange (allocN nc) a.cells L 0 0 p).2.1
            (moveRange (allocN nc) a.cells L 0 0 p).2.2 (p + n) p (a.size - p)).1[j]? = gapAt vs p n nc j := by
          intro j
          rw [n2 j, o1, n1 j, allocN_getElem?]
          simp only [Nat.zero_le, true_and, Nat.zero_add, Nat.sub_zero, h.cells]
          unfold cellAt gapAt
          pw_close
        have hlen : (moveRange (moveRange (allocN nc) a.cells L 0 0 p).1 (moveRange (allocN nc) a.cells L 0 0 p).2.1
            (moveRange (allocN nc) a.cells L 0 0 p).2.2 (p + n) p (a.size - p)).1.length = nc := by
          apply length_of_pointwise
          intro j
          rw [hpt j]; unfold gapAt
          constructor
          · intro hj; split_ifs at hj; omega
          · intro hj; rw [if_neg (by omega), if_neg (by omega), if_neg (by omega), if_neg (by omega)]
        refine ⟨_, _, true, p + (a.size - p), rfl, rfl, by show vs.length + n ≤ _; rw [hlen]; omega, ?_, ?_, by simp; exact ⟨hn, by unfold Arr.cap; omega⟩⟩
        · intro j
          show _ = gapAt vs p n (List.length _) j
          rw [hlen]; exact hpt j
        · show _ = L.adv _ _
          rw [l2, l1]; simp

/-- constructing `ws` into the gap gives the spliced list -/
theorem gap_fill {vs ws : List Elt} {c : Block} {p cap : Nat} (L : Log) (hp : p ≤ vs.length)
    (hcap : vs.length + ws.length ≤ cap) (hc : ∀ j, c[j]? = gapAt vs p ws.length cap j) :
    (copyConstructList c L p ws).2 = L.adv ws.length 0 ∧
    ∀ j, (copyConstructList c L p ws).1[j]? = cellAt (splice vs p p ws) cap j := by
  have hraw : ∀ k, k < ws.length → c[p + k]? = some none := by
    intro k hk; rw [hc]; unfold gapAt; rw [if_neg (by omega), if_pos (by omega)]
  obtain ⟨e1, e2⟩ := copyConstructList_spec ws c L p hraw
  refine ⟨e1, ?_⟩
  intro j
  rw [e2 j, hc j]
  unfold cellAt gapAt
  rw [getElem?_splice hp, length_splice hp]
  pw_close

theorem insertRange_ok {mx : Nat} {a : Arr} {vs : List Elt} (L : Log) {p : Nat} (ws : List Elt) (h : Rep a vs)
    (hp : p ≤ vs.length) :
    StepOK a L (insertRange mx a L p ws) (splice vs p p ws) ∨ Unchanged a L (insertRange mx a L p ws) := by
  unfold insertRange
  rcases insertGapAt_spec (mx := mx) L (n := ws.length) h hp with ⟨e, _⟩ | ⟨a', L', re, m, e, hsz, hcap, hcells, hL, _⟩
  · right; rw [e]; exact ⟨rfl, rfl, rfl⟩
  · left
    rw [e]
    simp only []
    obtain ⟨g1, g2⟩ := gap_fill L' hp hcap hcells
    have hp' := Rep.of_pointwise (a := ⟨(copyConstructList a'.cells L' p ws).1, a'.size + ws.length⟩)
      (vs := splice vs p p ws) a'.cells.length (by show a'.size + ws.length = _; rw [length_splice hp, hsz, h.size]; omega)
      (by rw [length_splice hp]; omega) g2
    refine ⟨hp'.1, by rw [g1, hL]; rfl, ?_, rfl⟩
    show (copyConstructList a'.cells L' p ws).2.ctor + a.size + L.dtor
      = (copyConstructList a'.cells L' p ws).2.dtor + (a'.size + ws.length) + L.ctor
    rw [g1, hL, hsz]
    simp only [Log.adv_adv, Log.adv_ctor, Log.adv_dtor]
    omega

theorem resolve_ext (v : Elt) (re : Bool) : resolve (.ext v) re = .val v := by cases re <;> rfl

theorem insertN_eq_insertRange {mx : Nat} {a : Arr} {vs : List Elt} (L : Log) {p n : Nat} (r : Ref) (h : Rep a vs)
    (hp : p ≤ vs.length) (hi : ∀ i, r = .slot i → i < vs.length)
    (hr : refOK a (.insertN p n r) = true) :
    insertN mx a L p n r = insertRange mx a L p (List.replicate n (r.value vs)) := by
  unfold insertN insertRange
  rw [List.length_replicate]
  rcases insertGapAt_spec (mx := mx) L (n := n) h hp with ⟨e, _⟩ | ⟨a', L', re, m, e, hsz, hcap, hcells, hL, hre⟩
  · rw [e]
  · rw [e]
    simp only []
    have key : fillConstruct a'.cells L' (resolve r re) p n
        = copyConstructList a'.cells L' p (List.replicate n (r.value vs)) := by
      cases r with
      | ext v => rw [resolve_ext]; exact fillConstruct_val_eq v n _ _ _
      | slot i =>
        have hi' := hi i rfl
        by_cases hn : n = 0
        · subst hn; rfl
        · have hr' : a.size + n ≤ a.cap ∧ i < p := by simpa [refOK, hn] using hr
          have hre' : re = false := by
            cases re with
            | false => rfl
            | true => have := hre.1 rfl; omega
          subst hre'
          have hlive : a'.cells[i]? = some (some vs[i]) := by
            rw [hcells i]; unfold gapAt; rw [if_pos hr'.2, List.getElem?_eq_getElem hi']
          have hraw : ∀ k, k < n → a'.cells[p + k]? = some none := by
            intro k hk; rw [hcells]; unfold gapAt; rw [if_neg (by omega), if_pos (by omega)]
          have hv : (Ref.slot i).value vs = vs[i] := by
            simp [Ref.value, List.getD_eq_getElem?_getD, List.getElem?_eq_getElem hi']
          rw [hv]
          exact fillConstruct_cur_eq i vs[i] n _ _ _ hlive hraw
    rw [key]

theorem insert_eq_insertN (mx : Nat) (a : Arr) (L : Log) (p : Nat) (r : Ref) :
    insert mx a L p r = insertN mx a L p 1 r := by
  unfold insert insertN
  cases insertGapAt mx a L p 1 with
  | none => rfl
  | some t => obtain ⟨a', L', re⟩ := t; rfl

theorem insertN_ok {mx : Nat} {a : Arr} {vs : List Elt} (L : Log) {p n : Nat} (r : Ref) (h : Rep a vs)
    (hp : p ≤ vs.length) (hi : ∀ i, r = .slot i → i < vs.length) (hr : refOK a (.insertN p n r) = true) :
    StepOK a L (insertN mx a L p n r) (splice vs p p (List.replicate n (r.value vs))) ∨
      Unchanged a L (insertN mx a L p n r) := by
  rw [insertN_eq_insertRange L r h hp hi hr]
  exact insertRange_ok L _ h hp

theorem insert_ok {mx : Nat} {a : Arr} {vs : List Elt} (L : Log) {p : Nat} (r : Ref) (h : Rep a vs)
    (hp : p ≤ vs.length) (hi : ∀ i, r = .slot i → i < vs.length) (hr : refOK a (.insert p r) = true) :
    StepOK a L (insert mx a L p r) (splice vs p p [r.value vs]) ∨ Unchanged a L (insert mx a L p r) := by
  rw [insert_eq_insertN]
  have hr' : refOK a (.insertN p 1 r) = true := by
    cases r with
    | ext v => rfl
    | slot i => simpa [refOK] using hr
  exact insertN_ok L r h hp hi hr'

/-! ## appending at the end, overwriting in the middle -/

theorem append_fill {a : Arr} {vs : List Elt} (L : Log) (ws : List Elt) (h : Rep a vs)
    (hcap : vs.length + ws.length ≤ a.cells.length) :
    Rep ⟨(copyConstructList a.cells L a.size ws).1, a.size + ws.length⟩ (vs ++ ws) ∧
    (copyConstructList a.cells L a.size ws).1.length = a.cells.length ∧
    (copyConstructList a.cells L a.size ws).2 = L.adv ws.length 0 := by
  have hg : ∀ j, a.cells[j]? = gapAt vs vs.length ws.length a.cells.length j := by
    intro j; rw [h.cells j]; unfold cellAt gapAt; pw_close
  rw [h.size]
  obtain ⟨g1, g2⟩ := gap_fill L (Nat.le_refl _) hcap hg
  have e : splice vs vs.length vs.length ws = vs ++ ws := by simp [splice]
  rw [e] at g2
  have hp := Rep.of_pointwise (a := ⟨(copyConstructList a.cells L vs.length ws).1, vs.length + ws.length⟩)
    (vs := vs ++ ws) a.cells.length (by simp) (by simp; omega) g2
  exact ⟨hp.1, hp.2, g1⟩

theorem overwrite {a : Arr} {vs : List Elt} (L : Log) (s : Nat) (ws : List Elt) (h : Rep a vs)
    (hs : s + ws.length ≤ vs.length) :
    Rep ⟨(assignList a.cells L s ws).1, a.size⟩ (splice vs s (s + ws.length) ws) ∧
    (assignList a.cells L s ws).1.length = a.cells.length ∧
    (assignList a.cells L s ws).2 = L := by
  have hlive : ∀ k, k < ws.length → ∃ x, a.cells[s + k]? = some (some x) := by
    intro k hk; exact ⟨_, h.live (by omega)⟩
  obtain ⟨e1, e2⟩ := assignList_spec ws a.cells L s hlive
  have hle := h.le
  have hp := Rep.of_pointwise (a := ⟨(assignList a.cells L s ws).1, a.size⟩)
    (vs := splice vs s (s + ws.length) ws) a.cells.length
    (by rw [length_splice (by omega), h.size]; omega) (by rw [length_splice (by omega)]; omega) (by
      intro j
      show (assignList a.cells L s ws).1[j]? = _
      rw [e2 j, h.cells j]
      unfold cellAt
      rw [getElem?_splice (by omega), length_splice (by omega)]
      pw_close)
  exact ⟨hp.1, hp.2, e1⟩

/-! ## erase -/

theorem splice_self_nil (vs : List Elt) (f : Nat) : splice vs f f [] = vs := by simp [splice]

theorem erase_ok {a : Arr} {vs : List Elt} (L : Log) {f l : Nat} (h : Rep a vs) (hf : f ≤ l) (hl : l ≤ vs.length) :
    StepOK a L (erase a L f l) (splice vs f l []) := by
  have hs := h.size
  have hle := h.le
  unfold erase
  by_cases hn : l - f = 0
  · have : l = f := by omega
    subst this
    simp only [Nat.sub_self, if_true]
    rw [splice_self_nil]
    exact ⟨h, rfl, by show L.ctor + a.size + L.dtor = L.dtor + a.size + L.ctor; omega, rfl⟩
  · simp only [hn, if_false]
    have hlive : ∀ k, k < l - f → ∃ x, a.cells[f + k]? = some (some x) := by
      intro k hk; exact ⟨_, h.live (by omega)⟩
    obtain ⟨d1, d2⟩ := destructRange_spec (l - f) a.cells L f hlive
    have hraw' : ∀ k, k < l - f → (destructRange a.cells L f (l - f)).1[f + (l - f) - (l - f) + k]? = some none := by
      intro k hk; rw [d2, if_pos (by omega)]
    have hlive' : ∀ k, k < a.size - (f + (l - f)) → ∃ x, (destructRange a.cells L f (l - f)).1[f + (l - f) + k]? = some (some x) := by
      intro k hk; rw [d2, if_neg (by omega)]; exact ⟨_, h.live (by omega)⟩
    obtain ⟨m1, m2⟩ := moveElementsDown_spec (l - f) (by omega) (a.size - (f + (l - f))) _ (destructRange a.cells L f (l - f)).2
      (f + (l - f)) (by omega) hraw' hlive'
    have hp := Rep.of_pointwise
      (a := ⟨(moveElementsDown (destructRange a.cells L f (l - f)).1 (destructRange a.cells L f (l - f)).2 (l - f) (f + (l - f)) (a.size - (f + (l - f)))).1, a.size - (l - f)⟩)
      (vs := splice vs f l []) a.cells.length
      (by rw [length_splice (by omega)]; simp; omega) (by rw [length_splice (by omega)]; simp; omega) (by
        intro j
        show (moveElementsDown _ _ _ _ _).1[j]? = _
        rw [m2 j]
        simp only [d2, h.cells]
        unfold cellAt
        rw [getElem?_splice (by omega), length_splice (by omega)]
        simp only [List.length_nil, Nat.add_zero]
        pw_close)
    refine ⟨hp.1, by rw [m1, d1]; rfl, ?_, rfl⟩
    show (moveElementsDown _ _ _ _ _).2.ctor + a.size + L.dtor = (moveElementsDown _ _ _ _ _).2.dtor + (a.size - (l - f)) + L.ctor
    rw [m1, d1]
    simp only [Log.adv_adv, Log.adv_ctor, Log.adv_dtor]
    omega

theorem eraseOne_eq (a : Arr) (L : Log) (p : Nat) : eraseOne a L p = erase a L p (p + 1) := by
  simp [eraseOne, erase, destructRange]

theorem clear_ok {a : Arr} {vs : List Elt} (L : Log) (h : Rep a vs) :
    StepOK a L (clear a L) [] ∧ (clear a L).arr.cells.length = a.cells.length := by
  have hs := h.size
  have hlive : ∀ k, k < a.size → ∃ x, a.cells[0 + k]? = some (some x) := by
    intro k hk; rw [Nat.zero_add]; exact ⟨_, h.live (by omega)⟩
  obtain ⟨d1, d2⟩ := destructRange_spec a.size a.cells L 0 hlive
  show StepOK a L ⟨⟨(destructRange a.cells L 0 a.size).1, 0⟩, (destructRange a.cells L 0 a.size).2, false⟩ [] ∧
    (destructRange a.cells L 0 a.size).1.length = a.cells.length
  have hp := Rep.of_pointwise (a := ⟨(destructRange a.cells L 0 a.size).1, 0⟩) (vs := []) a.cells.length rfl (by simp) (by
    intro j
    show (destructRange a.cells L 0 a.size).1[j]? = _
    rw [d2 j, h.cells j]
    unfold cellAt
    have := h.le
    simp only [List.length_nil, Nat.zero_le, true_and, Nat.zero_add]
    pw_close)
  refine ⟨⟨hp.1, by rw [d1]; rfl, ?_, rfl⟩, hp.2⟩
  show (destructRange a.cells L 0 a.size).2.ctor + a.size + L.dtor = (destructRange a.cells L 0 a.size).2.dtor + 0 + L.ctor
  rw [d1]; simp only [Log.adv_ctor, Log.adv_dtor]; omega

theorem popBack_ok {a : Arr} {vs : List Elt} (L : Log) (h : Rep a vs) (hpos : 0 < vs.length) :
    StepOK a L (popBack a L) (vs.take (vs.length - 1)) := by
  have hs := h.size
  have hle := h.le
  unfold popBack
  rw [destruct_live L (h.live (j := a.size - 1) (by omega))]
  have hp := Rep.of_pointwise (a := ⟨a.cells.set (a.size - 1) none, a.size - 1⟩) (vs := vs.take (vs.length - 1))
    a.cells.length (by simp; omega) (by simp; omega) (by
      intro j
      show (a.cells.set (a.size - 1) none)[j]? = _
      rw [getElem?_set_in _ (by omega), h.cells j]
      unfold cellAt
      simp only [List.length_take, List.getElem?_take]
      pw_close)
  exact ⟨hp.1, rfl, by simp only [Log.adv_ctor, Log.adv_dtor]; show _ = _ + (a.size - 1) + _; omega, rfl⟩

theorem eraseFast_ok {a : Arr} {vs : List Elt} (L : Log) {p : Nat} (h : Rep a vs) (hp : p < vs.length) :
    StepOK a L (eraseFast a L p) ((vs.set p (vs.getD (vs.length - 1) deadVal)).take (vs.length - 1)) := by
  have hs := h.size
  have hle := h.le
  have hlast : vs.getD (vs.length - 1) deadVal = vs[vs.length - 1]'(by omega) := by
    simp [List.getD_eq_getElem?_getD, List.getElem?_eq_getElem (show vs.length - 1 < vs.length by omega)]
  unfold eraseFast
  rw [destruct_live L (h.live hp)]
  simp only []
  by_cases hlastp : p + 1 = a.size
  · simp only [hlastp, ne_eq, not_true_eq_false, if_false]
    have hp' := Rep.of_pointwise (a := ⟨a.cells.set p none, a.size - 1⟩)
      (vs := (vs.set p (vs.getD (vs.length - 1) deadVal)).take (vs.length - 1))
      a.cells.length (by simp; omega) (by simp; omega) (by
        intro j
        show (a.cells.set p none)[j]? = _
        rw [getElem?_set_in _ (by omega), h.cells j]
        unfold cellAt
        simp only [List.length_take, List.length_set, List.getElem?_take, List.getElem?_set]
        pw_close)
    exact ⟨hp'.1, rfl, by simp only [Log.adv_ctor, Log.adv_dtor]; show _ = _ + (a.size - 1) + _; omega, rfl⟩
  · simp only [ne_eq, hlastp, not_false_eq_true, if_true]
    have hfrom : (a.cells.set p none)[a.size - 1]? = some (some (vs[vs.length - 1]'(by omega))) := by
      rw [getElem?_set_ne' _ (by omega)]
      have := h.live (j := vs.length - 1) (by omega)
      rw [← this]; congr 1; omega
    have hto : (a.cells.set p none)[p]? = some none := getElem?_set_self' _ (by omega)
    obtain ⟨m1, m2⟩ := moveOne_spec (L.adv 0 1) hfrom hto
    have hp' := Rep.of_pointwise (a := ⟨(moveOneElement (a.cells.set p none) (L.adv 0 1) p (a.size - 1)).1, a.size - 1⟩)
      (vs := (vs.set p (vs.getD (vs.length - 1) deadVal)).take (vs.length - 1))
      a.cells.length (by simp; omega) (by simp; omega) (by
        intro j
        show (moveOneElement _ _ _ _).1[j]? = _
        rw [m2 j, getElem?_set_in _ (by omega), h.cells j, hlast]
        unfold cellAt
        simp only [List.length_take, List.length_set, List.getElem?_take, List.getElem?_set]
        pw_close)
    refine ⟨hp'.1, by rw [m1]; rfl, ?_, rfl⟩
    show (moveOneElement _ _ _ _).2.ctor + a.size + L.dtor = (moveOneElement _ _ _ _).2.dtor + (a.size - 1) + L.ctor
    rw [m1]; simp only [Log.adv_adv, Log.adv_ctor, Log.adv_dtor]; omega

/-! ## push_back -/

theorem pushBack_ok {mx : Nat} {a : Arr} {vs : List Elt} (L : Log) (r : Ref) (h : Rep a vs)
    (hl : legal mx a (.pushBack r) = true) (hr : refOK a (.pushBack r) = true) :
    StepOK a L (pushBack mx a L r) (vs ++ [r.value vs]) ∨ Unchanged a L (pushBack mx a L r) := by
  unfold pushBack
  by_cases hfull : a.cap = a.size
  · rw [if_pos hfull]
    -- reallocation: the reference must be external
    obtain ⟨v, rfl⟩ : ∃ v, r = .ext v := by
      cases r with
      | ext v => exact ⟨v, rfl⟩
      | slot i => simp [refOK, hfull] at hr
    unfold growAtEnd
    cases hc : calcNewCapacityForGrowthBy mx a.cap 1 with
    | none => right; exact ⟨rfl, rfl, rfl⟩
    | some nc =>
      left
      have hge := calcNew_ge hc
      have hcap : a.cap = vs.length := by rw [hfull, h.size]
      obtain ⟨m1, m2, m3⟩ := moveAll_spec L nc h (by omega)
      simp only [Ref.afterRealloc, readRef, Ref.value]
      have hraw : (moveRange (allocN nc) a.cells L 0 0 a.size).1[a.size]? = some none := by
        have hs := h.size
        exact m1.raw (j := a.size) (by omega) (by show a.size < _; rw [m2]; omega)
      rw [construct_raw _ v hraw, m3]
      have hp := Rep.of_pointwise (a := ⟨(moveRange (allocN nc) a.cells L 0 0 a.size).1.set a.size (some v), a.size + 1⟩)
        (vs := vs ++ [v]) nc (by simp [h.size]) (by simp; omega) (by
          intro j
          show ((moveRange (allocN nc) a.cells L 0 0 a.size).1.set a.size (some v))[j]? = _
          rw [getElem?_set_in _ (by rw [m2, h.size]; omega), m1.cells j]
          show _ = cellAt _ _ _
          simp only [m2]
          unfold cellAt
          simp only [List.length_append, List.length_singleton, h.size, List.getElem?_append]
          pw_close)
      exact ⟨hp.1, by simp, by simp [h.size]; omega, rfl⟩
  · rw [if_neg hfull]
    left
    have hlt : vs.length < a.cells.length := by
      have := h.le; have := h.size; unfold Arr.cap at hfull; omega
    have hraw : a.cells[a.size]? = some none := by
      have hs := h.size
      exact h.raw (by omega) (by omega)
    have hread : readRef a.cells L r.inPlace = (r.value vs, L) := by
      cases r with
      | ext v => rfl
      | slot i =>
        have hi : i < vs.length := by simpa [legal, h.size] using hl
        simp only [Ref.inPlace, readRef, Ref.value]
        rw [read_live L (h.live hi)]
        simp [List.getD_eq_getElem?_getD, List.getElem?_eq_getElem hi]
    rw [hread]
    simp only []
    rw [construct_raw _ _ hraw]
    have hp := Rep.of_pointwise (a := ⟨a.cells.set a.size (some (r.value vs)), a.size + 1⟩)
      (vs := vs ++ [r.value vs]) a.cells.length (by simp [h.size]) (by simp; omega) (by
        intro j
        show (a.cells.set a.size (some (r.value vs)))[j]? = _
        rw [getElem?_set_in _ (by rw [h.size]; omega), h.cells j]
        unfold cellAt
        simp only [List.length_append, List.length_singleton, h.size, List.getElem?_append]
        pw_close)
    exact ⟨hp.1, by simp, by simp [h.size]; omega, rfl⟩

/-! ## capacity operations -/

theorem reserve_ok {a : Arr} {vs : List Elt} (L : Log) (n : Nat) (h : Rep a vs) :
    StepOK a L (reserve a L n) vs ∧ n ≤ (reserve a L n).arr.cells.length ∧
      (a.cap ≥ n → reserve a L n = ⟨a, L, false⟩) := by
  unfold reserve
  by_cases hc : a.cap ≥ n
  · rw [if_pos hc]
    exact ⟨⟨h, rfl, by show L.ctor + a.size + L.dtor = L.dtor + a.size + L.ctor; omega, rfl⟩, hc, fun _ => rfl⟩
  · rw [if_neg hc]
    have hle := h.le
    unfold Arr.cap at hc
    obtain ⟨m1, m2, m3⟩ := moveAll_spec L n h (by omega)
    refine ⟨⟨m1, by show (moveRange _ _ _ _ _ _).2.2.viol = _; rw [m3]; rfl, ?_, rfl⟩, by show n ≤ (moveRange _ _ _ _ _ _).1.length; omega, fun hc' => absurd hc' hc⟩
    show (moveRange _ _ _ _ _ _).2.2.ctor + a.size + L.dtor = (moveRange _ _ _ _ _ _).2.2.dtor + a.size + L.ctor
    rw [m3]; simp only [Log.adv_ctor, Log.adv_dtor]; omega

theorem shrinkToFit_ok {a : Arr} {vs : List Elt} (L : Log) (h : Rep a vs) :
    StepOK a L (shrinkToFit a L) vs := by
  unfold shrinkToFit
  by_cases hc : a.cap - a.size / 4 ≤ a.size
  · rw [if_pos hc]
    exact ⟨h, rfl, by show L.ctor + a.size + L.dtor = L.dtor + a.size + L.ctor; omega, rfl⟩
  · rw [if_neg hc]
    obtain ⟨m1, m2, m3⟩ := moveAll_spec L a.size h (by rw [h.size]; exact Nat.le_refl _)
    refine ⟨m1, by show (moveRange _ _ _ _ _ _).2.2.viol = _; rw [m3]; rfl, ?_, rfl⟩
    show (moveRange _ _ _ _ _ _).2.2.ctor + a.size + L.dtor = (moveRange _ _ _ _ _ _).2.2.dtor + a.size + L.ctor
    rw [m3]; simp only [Log.adv_ctor, Log.adv_dtor]; omega

theorem splice_to_end (vs : List Elt) (n : Nat) : splice vs n vs.length [] = vs.take n := by
  simp [splice]

theorem grow_fill_ok {a : Arr} {vs : List Elt} (L : Log) (n : Nat) (ws : List Elt) (h : Rep a vs)
    (hn : a.size + ws.length = n) :
    StepOK a L ⟨⟨(copyConstructList (reserve a L n).arr.cells (reserve a L n).log a.size ws).1, n⟩,
      (copyConstructList (reserve a L n).arr.cells (reserve a L n).log a.size ws).2, false⟩ (vs ++ ws) := by
  have hs := h.size
  obtain ⟨r1, r2, _⟩ := reserve_ok L n h
  have hsz : (reserve a L n).arr.size = a.size := by rw [r1.rep.size, hs]
  obtain ⟨f1, f2, f3⟩ := append_fill (reserve a L n).log ws r1.rep (by omega)
  rw [hsz] at f1 f3
  subst hn
  refine ⟨f1, ?_, ?_, rfl⟩
  · show (copyConstructList _ _ _ _).2.viol = _
    rw [f3]; exact r1.viol
  · show (copyConstructList _ _ _ _).2.ctor + a.size + L.dtor = (copyConstructList _ _ _ _).2.dtor + (a.size + ws.length) + L.ctor
    rw [f3]; simp only [Log.adv_ctor, Log.adv_dtor]
    have := r1.bal; omega

theorem resize_ok {a : Arr} {vs : List Elt} (L : Log) (n : Nat) (h : Rep a vs) :
    StepOK a L (resize a L n)
      (if n ≤ vs.length then vs.take n else vs ++ List.replicate (n - vs.length) defaultVal) := by
  have hs := h.size
  unfold resize
  by_cases h1 : n = a.size
  · rw [if_pos h1, if_pos (by omega), show n = vs.length by omega, List.take_length]
    exact ⟨h, rfl, by show L.ctor + a.size + L.dtor = L.dtor + a.size + L.ctor; omega, rfl⟩
  · rw [if_neg h1]
    by_cases h2 : n < a.size
    · rw [if_pos h2, if_pos (by omega), ← splice_to_end, ← hs]
      exact erase_ok L h (by omega) (by omega)
    · rw [if_neg h2, if_neg (by omega), ← hs]
      show StepOK a L ⟨⟨(defaultConstructRange (reserve a L n).arr.cells (reserve a L n).log a.size (n - a.size)).1, n⟩,
        (defaultConstructRange (reserve a L n).arr.cells (reserve a L n).log a.size (n - a.size)).2, false⟩ _
      rw [defaultConstructRange_eq]
      exact grow_fill_ok L n _ h (by rw [List.length_replicate]; omega)

theorem resizeFill_ok {a : Arr} {vs : List Elt} (L : Log) (n : Nat) (r : Ref) (h : Rep a vs)
    (hi : ∀ i, r = .slot i → i < vs.length) (hr : refOK a (.resizeFill n r) = true) :
    StepOK a L (resizeFill a L n r)
      (if n ≤ vs.length then vs.take n else vs ++ List.replicate (n - vs.length) (r.value vs)) := by
  have hs := h.size
  unfold resizeFill
  by_cases h1 : n = a.size
  · rw [if_pos h1, if_pos (by omega), show n = vs.length by omega, List.take_length]
    exact ⟨h, rfl, by show L.ctor + a.size + L.dtor = L.dtor + a.size + L.ctor; omega, rfl⟩
  · rw [if_neg h1]
    by_cases h2 : n < a.size
    · rw [if_pos h2, if_pos (by omega), ← splice_to_end, ← hs]
      exact erase_ok L h (by omega) (by omega)
    · rw [if_neg h2, if_neg (by omega), ← hs]
      obtain ⟨r1, r2, r3⟩ := reserve_ok L n h
      have key : fillConstruct (reserve a L n).arr.cells (reserve a L n).log (resolve r (decide (a.cap < n))) a.size (n - a.size)
          = copyConstructList (reserve a L n).arr.cells (reserve a L n).log a.size (List.replicate (n - a.size) (r.value vs)) := by
        cases r with
        | ext v => rw [resolve_ext]; exact fillConstruct_val_eq v _ _ _ _
        | slot i =>
          have hi' := hi i rfl
          have hcap : n ≤ a.cap := by simpa [refOK] using hr
          have hre : decide (a.cap < n) = false := by simp; omega
          rw [hre, r3 hcap]
          have hv : (Ref.slot i).value vs = vs[i] := by
            simp [Ref.value, List.getD_eq_getElem?_getD, List.getElem?_eq_getElem hi']
          rw [hv]
          unfold Arr.cap at hcap
          exact fillConstruct_cur_eq i vs[i] _ _ _ _ (h.live hi') (by
            intro k hk; exact h.raw (by omega) (by omega))
      show StepOK a L ⟨⟨(fillConstruct (reserve a L n).arr.cells (reserve a L n).log (resolve r (decide (a.cap < n))) a.size (n - a.size)).1, n⟩,
        (fillConstruct (reserve a L n).arr.cells (reserve a L n).log (resolve r (decide (a.cap < n))) a.size (n - a.size)).2, false⟩ _
      rw [key]
      exact grow_fill_ok L n _ h (by rw [List.length_replicate]; omega)

/-! ## assign -/

theorem realloc_rep {mx : Nat} {c : Block} (n : Nat) (h : Rep ⟨c, 0⟩ []) :
    Rep ⟨reallocateIfAdvisable mx c n, 0⟩ [] ∧ n ≤ (reallocateIfAdvisable mx c n).length := by
  unfold reallocateIfAdvisable
  by_cases hc : c.length < n ∨ c.length / 2 > max (minAlloc mx) n
  · rw [if_pos hc]
    have hp := Rep.of_pointwise (a := ⟨allocN n, 0⟩) (vs := []) n rfl (by simp) (by
      intro j; show (allocN n)[j]? = _; rw [allocN_getElem?]; unfold cellAt; simp)
    exact ⟨hp.1, by rw [hp.2]; exact Nat.le_refl _⟩
  · rw [if_neg hc]
    exact ⟨h, by omega⟩

theorem assignRange_ok {mx : Nat} {a : Arr} {vs : List Elt} (L : Log) (ws : List Elt) (h : Rep a vs) :
    StepOK a L (assignRange mx a L ws) ws := by
  obtain ⟨c1, c2⟩ := clear_ok L h
  obtain ⟨q1, q2⟩ := realloc_rep (mx := mx) ws.length (c := (clear a L).arr.cells) (by
    have := c1.rep
    have hz : (clear a L).arr.size = 0 := this.size
    have e : (clear a L).arr = ⟨(clear a L).arr.cells, 0⟩ := by
      cases hx : (clear a L).arr with
      | mk cs sz => rw [hx] at hz; simp at hz; subst hz; rfl
    rw [e] at this; exact this)
  obtain ⟨f1, f2, f3⟩ := append_fill (clear a L).log ws q1 (by simp; exact q2)
  unfold assignRange
  simp only [List.nil_append, Nat.zero_add] at f1
  refine ⟨f1, ?_, ?_, rfl⟩
  · show (copyConstructList _ _ 0 ws).2.viol = _
    rw [f3]; exact c1.viol
  · show (copyConstructList _ _ 0 ws).2.ctor + a.size + L.dtor = (copyConstructList _ _ 0 ws).2.dtor + ws.length + L.ctor
    rw [f3]; simp only [Log.adv_ctor, Log.adv_dtor]
    have := c1.bal
    have hz : (clear a L).arr.size = 0 := c1.rep.size
    omega

theorem assignN_eq (mx : Nat) (a : Arr) (L : Log) (n : Nat) (v : Elt) :
    assignN mx a L n v = assignRange mx a L (List.replicate n v) := by
  simp only [assignN, assignRange, fillConstruct_val_eq, List.length_replicate]

theorem deallocate_ok {a : Arr} {vs : List Elt} (L : Log) (h : Rep a vs) :
    StepOK a L (deallocate a L) [] := by
  obtain ⟨c1, _⟩ := clear_ok L h
  unfold deallocate
  refine ⟨rep_empty, c1.viol, ?_, rfl⟩
  have := c1.bal
  have hz : (clear a L).arr.size = 0 := c1.rep.size
  show (clear a L).log.ctor + a.size + L.dtor = (clear a L).log.dtor + 0 + L.ctor
  omega

/-! ## elementwise assignment: fill, operator[], views -/

theorem readRef_inPlace {a : Arr} {vs : List Elt} (L : Log) (r : Ref) (h : Rep a vs)
    (hi : ∀ i, r = .slot i → i < vs.length) : readRef a.cells L r.inPlace = (r.value vs, L) := by
  cases r with
  | ext v => rfl
  | slot i =>
    have hi' := hi i rfl
    simp only [Ref.inPlace, readRef, Ref.value]
    rw [read_live L (h.live hi')]
    simp [List.getD_eq_getElem?_getD, List.getElem?_eq_getElem hi']

theorem fillAssign_eq {a : Arr} {vs : List Elt} (L : Log) (r : Ref) (s n : Nat) (h : Rep a vs)
    (hi : ∀ i, r = .slot i → i < vs.length) (hs : s + n ≤ vs.length) :
    fillAssign a.cells L r.inPlace s n = assignList a.cells L s (List.replicate n (r.value vs)) := by
  cases r with
  | ext v => exact fillAssign_val_eq v n _ _ _
  | slot i =>
    have hi' := hi i rfl
    have hv : (Ref.slot i).value vs = vs[i] := by
      simp [Ref.value, List.getD_eq_getElem?_getD, List.getElem?_eq_getElem hi']
    rw [hv]
    exact fillAssign_cur_eq i vs[i] n _ _ _ (h.live hi') (by intro k hk; exact ⟨_, h.live (by omega)⟩)

theorem viewFill_ok {a : Arr} {vs : List Elt} (L : Log) (off off2 len2 : Nat) (r : Ref) (h : Rep a vs)
    (hi : ∀ i, r = .slot i → i < vs.length) (hs : off + off2 + len2 ≤ vs.length) :
    StepOK a L (viewFill a L off off2 len2 r)
      (splice vs (off + off2) (off + off2 + len2) (List.replicate len2 (r.value vs))) := by
  unfold viewFill
  rw [fillAssign_eq L r _ _ h hi hs]
  obtain ⟨o1, o2, o3⟩ := overwrite L (off + off2) (List.replicate len2 (r.value vs)) h (by simpa using hs)
  rw [List.length_replicate] at o1
  refine ⟨o1, by show (assignList _ _ _ _).2.viol = _; rw [o3], ?_, rfl⟩
  show (assignList _ _ _ _).2.ctor + a.size + L.dtor = (assignList _ _ _ _).2.dtor + a.size + L.ctor
  rw [o3]; omega

theorem fill_ok {a : Arr} {vs : List Elt} (L : Log) (r : Ref) (h : Rep a vs)
    (hi : ∀ i, r = .slot i → i < vs.length) :
    StepOK a L (fill a L r) (List.replicate vs.length (r.value vs)) := by
  have e : fill a L r = viewFill a L 0 0 a.size r := by simp [fill, viewFill]
  have := viewFill_ok L 0 0 a.size r h hi (by rw [h.size]; omega)
  rw [e]
  rw [h.size] at this ⊢
  simpa [splice] using this

theorem viewAssign_ok {a : Arr} {vs : List Elt} (L : Log) (off : Nat) (ws : List Elt) (h : Rep a vs)
    (hs : off + ws.length ≤ vs.length) :
    StepOK a L (viewAssign a L off ws) (splice vs off (off + ws.length) ws) := by
  unfold viewAssign
  obtain ⟨o1, o2, o3⟩ := overwrite L off ws h hs
  refine ⟨o1, by show (assignList _ _ _ _).2.viol = _; rw [o3], ?_, rfl⟩
  show (assignList _ _ _ _).2.ctor + a.size + L.dtor = (assignList _ _ _ _).2.dtor + a.size + L.ctor
  rw [o3]; omega

theorem setElt_ok {a : Arr} {vs : List Elt} (L : Log) (i : Nat) (v : Elt) (h : Rep a vs) (hi : i < vs.length) :
    StepOK a L (setElt a L i v) (vs.set i v) := by
  have e : setElt a L i v = viewAssign a L i [v] := by simp [setElt, viewAssign, assignList]
  rw [e]
  have := viewAssign_ok L i [v] h (by simp; omega)
  have e2 : splice vs i (i + [v].length) [v] = vs.set i v := by
    apply List.ext_getElem?
    intro j
    rw [getElem?_splice (by omega), List.getElem?_set]
    simp only [List.length_singleton]
    by_cases h1 : j < i
    · rw [if_pos h1, if_neg (by omega)]
    · rw [if_neg h1]
      by_cases h2 : j < i + 1
      · have : j = i := by omega
        subst this
        rw [if_pos h2, if_pos rfl, if_pos hi]; simp
      · rw [if_neg h2, if_neg (by omega)]; congr 1; omega
  rw [e2] at this; exact this

end C26

namespace C26

/-! ## push_back(T&&) with a temporary or with `std::move(a[i])` -/

theorem pushBackMove_ext (mx : Nat) (a : Arr) (L : Log) (v : Elt) :
    pushBackMove mx a L (.ext v) = pushBack mx a L (.ext v) := by
  unfold pushBackMove pushBack
  by_cases h : a.cap = a.size
  · rw [if_pos h, if_pos h]
    cases growAtEnd mx a L 1 with
    | none => rfl
    | some t => obtain ⟨a', L'⟩ := t; rfl
  · rw [if_neg h, if_neg h]; rfl

/-- moving out of element `i` leaves a live moved-from object there -/
theorem rep_moveOut {a : Arr} {vs : List Elt} (L : Log) {i : Nat} (h : Rep a vs) (hi : i < vs.length) :
    moveOut a.cells L i = (vs[i], a.cells.set i (some movedVal), L) ∧
    Rep ⟨a.cells.set i (some movedVal), a.size⟩ (vs.set i movedVal) := by
  have hle := h.le
  refine ⟨moveOut_live L (h.live hi), ?_⟩
  have hp := Rep.of_pointwise (a := ⟨a.cells.set i (some movedVal), a.size⟩) (vs := vs.set i movedVal)
    a.cells.length (by simp [h.size]) (by simp; omega) (by
      intro j
      show (a.cells.set i (some movedVal))[j]? = _
      rw [getElem?_set_in _ (by omega), h.cells j]
      unfold cellAt
      simp only [List.length_set, List.getElem?_set]
      pw_close)
  exact hp.1

theorem pushBackMove_slot_ok {mx : Nat} {a : Arr} {vs : List Elt} (L : Log) (i : Nat) (h : Rep a vs)
    (hi : i < vs.length) (hroom : a.cap ≠ a.size) :
    StepOK a L (pushBackMove mx a L (.slot i)) (vs.set i movedVal ++ [vs.getD i deadVal]) := by
  have hs := h.size
  have hle := h.le
  obtain ⟨m1, m2⟩ := rep_moveOut L h hi
  have hv : vs.getD i deadVal = vs[i] := by
    simp [List.getD_eq_getElem?_getD, List.getElem?_eq_getElem hi]
  unfold pushBackMove
  rw [if_neg hroom]
  simp only [Ref.inPlace, moveRef]
  rw [m1, hv]
  simp only []
  have hlt : vs.length < a.cells.length := by unfold Arr.cap at hroom; omega
  have hraw : (a.cells.set i (some movedVal))[a.size]? = some none := by
    have := m2.raw (j := a.size) (by simp; omega) (by show a.size < (a.cells.set i (some movedVal)).length; simp; omega)
    exact this
  rw [construct_raw L vs[i] hraw]
  have e := append_fill L [vs[i]] m2 (by simp; omega)
  simp only [copyConstructList, List.length_singleton] at e
  rw [construct_raw L vs[i] hraw] at e
  obtain ⟨f1, _, _⟩ := e
  exact ⟨f1, rfl, by simp only [Log.adv_ctor, Log.adv_dtor]; show _ = _ + (a.size + 1) + _; omega, rfl⟩

end C26

namespace C26

/-! ## emplace with reallocation: the new element is constructed in the new block first -/

theorem realloc_with_new {a : Arr} {vs : List Elt} (L : Log) (nc p : Nat) (v : Elt) (h : Rep a vs)
    (hp : p ≤ vs.length) (hnc : vs.length + 1 ≤ nc) :
    let c0 := construct (allocN nc) L p v
    let c1 := moveRange c0.1 a.cells c0.2 0 0 p
    let c2 := moveRange c1.1 c1.2.1 c1.2.2 (p + 1) p (a.size - p)
    Rep ⟨c2.1, a.size + 1⟩ (splice vs p p [v]) ∧ c2.1.length = nc ∧ c2.2.2 = L.adv (vs.length + 1) vs.length := by
  intro c0 c1 c2
  have hs := h.size
  have hle := h.le
  have hraw0 : (allocN nc)[p]? = some none := by rw [allocN_getElem?, if_pos (by omega)]
  have e0 : c0 = ((allocN nc).set p (some v), L.adv 1 0) := construct_raw L v hraw0
  have hlen0 : (allocN nc).length = nc := by simp [allocN]
  have n0 : ∀ j, c0.1[j]? = if j = p then some (some v) else if j < nc then some none else none := by
    intro j; rw [e0]; show ((allocN nc).set p (some v))[j]? = _
    rw [getElem?_set_in _ (by rw [hlen0]; omega), allocN_getElem?]
  -- first move: [0,p)
  have hs1 : ∀ k, k < p → ∃ x, a.cells[0 + k]? = some (some x) := by
    intro k hk; rw [Nat.zero_add]; exact ⟨_, h.live (by omega)⟩
  have hd1 : ∀ k, k < p → c0.1[0 + k]? = some none := by
    intro k hk; rw [Nat.zero_add, n0, if_neg (by omega), if_pos (by omega)]
  obtain ⟨l1, n1, o1⟩ := moveRange_spec p c0.1 a.cells c0.2 0 0 hs1 hd1
  -- second move: [p,size) -> [p+1, size+1)
  have hs2 : ∀ k, k < a.size - p → ∃ x, c1.2.1[p + k]? = some (some x) := by
    intro k hk
    show ∃ x, (moveRange c0.1 a.cells c0.2 0 0 p).2.1[p + k]? = _
    rw [o1, if_neg (by omega)]; exact ⟨_, h.live (by omega)⟩
  have hd2 : ∀ k, k < a.size - p → c1.1[p + 1 + k]? = some none := by
    intro k hk
    show (moveRange c0.1 a.cells c0.2 0 0 p).1[p + 1 + k]? = _
    rw [n1, if_neg (by omega), n0, if_neg (by omega), if_pos (by omega)]
  obtain ⟨l2, n2, _⟩ := moveRange_spec (a.size - p) c1.1 c1.2.1 c1.2.2 (p + 1) p hs2 hd2
  have hpt : ∀ j, c2.1[j]? = cellAt (splice vs p p [v]) nc j := by
    intro j
    show (moveRange c1.1 c1.2.1 c1.2.2 (p + 1) p (a.size - p)).1[j]? = _
    rw [n2 j]
    show (if p + 1 ≤ j ∧ j < p + 1 + (a.size - p) then (moveRange c0.1 a.cells c0.2 0 0 p).2.1[p + (j - (p + 1))]?
      else (moveRange c0.1 a.cells c0.2 0 0 p).1[j]?) = _
    rw [o1, n1 j, n0 j]
    simp only [Nat.zero_le, true_and, Nat.zero_add, Nat.sub_zero, h.cells]
    unfold cellAt
    rw [getElem?_splice hp, length_splice hp]
    simp only [List.length_singleton]
    pw_close
  have hp' := Rep.of_pointwise (a := ⟨c2.1, a.size + 1⟩) (vs := splice vs p p [v]) nc
    (by rw [length_splice hp]; simp; omega) (by rw [length_splice hp]; simp; omega) hpt
  refine ⟨hp'.1, hp'.2, ?_⟩
  show (moveRange c1.1 c1.2.1 c1.2.2 (p + 1) p (a.size - p)).2.2 = _
  rw [l2]
  show (moveRange c0.1 a.cells c0.2 0 0 p).2.2.adv _ _ = _
  rw [l1, e0]
  simp only [Log.adv_adv]
  congr 1 <;> omega

end C26
