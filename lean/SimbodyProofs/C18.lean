import SimbodyProofs.C18_track
/-!
# C18 — State stage and cache semantics follow the documented model  (property theorems)

Model: `SimbodyModel/C18.lean` (transcription of StateImpl.h / State.cpp).  Helper lemmas:
`C18_lemmas.lean` (lists), `C18_view.lean` (static view, structural invariant `Inv`), `C18_ghost.lean`
(version-stamp invariant `Ghost`).  Everything here is core Lean (no Mathlib).

Every theorem quantifies over *all* model states / operations / operation lists; the reachable-state
invariant `WGood` is proved for the initial world and preserved by every legal operation (`wgood_step`),
hence holds after every legal history (`wgood_run`).
-/
namespace C18

/-! ## reachable states -/

/-- invariant of every State object of a world: structure (`Inv`: system stage ≤ every subsystem stage ≤ Report,
eleven positive stage versions, allocation stacks sorted by allocation stage with entries allocated at most
one stage ahead, well-formed depends-on / computed-by / invalidates stages) and version stamps (`Ghost`). -/
def WGood (w : World) : Prop := ∀ st, some st ∈ w.sts → Inv st ∧ Ghost st

/-- a history all of whose operations are legal when they are issued and that follows the marking discipline
`strict` (an entry is marked valid only once its subsystem has reached the entry's depends-on stage) -/
def legalRun : World → List Op → Prop
  | _, [] => True
  | w, op :: ops => legal w op = true ∧ strict w op = true ∧ legalRun (step w op) ops

theorem WGood.setSlot {w : World} (h : WGood w) (k : Nat) (o : Option St)
    (ho : ∀ st, o = some st → Inv st ∧ Ghost st) (snap : List Nat) :
    WGood { sts := setSlot w.sts k o, snap := snap } := by
  intro st hst
  rcases mem_modAt hst with hm | ⟨x, _, hx⟩
  · exact h st hm
  · exact ho st hx.symm

theorem Ghost.with_subs_default (st : St) (l : List Sub) (hl : ∀ sb ∈ l, sb = {}) : Ghost { st with subs := l } := by
  intro sb hsb e he
  rw [hl sb hsb] at he
  simp at he

/-- the initial world (one default-constructed State given `n` subsystems) satisfies the invariant -/
theorem wgood_init (n : Nat) : WGood { sts := [some { subs := List.replicate n {} }] } := by
  intro st hst
  simp only [List.mem_singleton, Option.some.injEq] at hst
  subst hst
  exact ⟨Inv.with_subs_default (st := {}) rfl _ (fun sb hsb => (List.mem_replicate.mp hsb).2),
         Ghost.with_subs_default {} _ (fun sb hsb => (List.mem_replicate.mp hsb).2)⟩

/-- `Inv` and `Ghost` are preserved by every legal operation (single-State operations, copy construction,
copy assignment, moves, clear, setNumSubsystems, addSubsystem). -/
theorem wgood_step {w : World} (h : WGood w) (op : Op) (hl : legal w op = true) (hs : strict w op = true) :
    WGood (step w op) := by
  cases op with
  | on k o =>
    simp only [step]
    cases hk : w.live k with
    | none => simpa [hk] using h
    | some st =>
      simp only [legal, hk] at hl
      simp only [strict, hk] at hs
      have hst := h st (live_mem hk)
      exact h.setSlot k _ (fun st' hst' => by
        cases hst'; exact ⟨hst.1.stepS o hl, Ghost.stepS hst.1 hst.2 o hl hs⟩) _
  | copyNew k =>
    simp only [step]
    cases hk : w.live k with
    | none => simpa [hk] using h
    | some st =>
      intro st' hst'
      simp only [List.mem_append, List.mem_singleton] at hst'
      rcases hst' with hm | hm
      · exact h st' hm
      · cases hm
        have hst := h st (live_mem hk)
        exact ⟨hst.1.copyNew, hst.2.copyFrom _⟩
  | copyAssign s d =>
    simp only [step]
    cases hs : w.live s with
    | none => exact h.setSlot d none (fun _ hx => by cases hx) _
    | some src =>
      have hsrc := h src (live_mem hs)
      cases hd : w.live d with
      | none => exact h.setSlot d _ (fun st' hst' => by cases hst'; exact ⟨hsrc.1.copyNew, hsrc.2.copyFrom _⟩) _
      | some dst =>
        exact h.setSlot d _ (fun st' hst' => by
          cases hst'; exact ⟨(h dst (live_mem hd)).1.assign hsrc.1, hsrc.2.copyFrom _⟩) _
  | moveNew k =>
    simp only [step]
    intro st' hst'
    simp only [List.mem_append, List.mem_singleton] at hst'
    rcases hst' with hm | hm
    · exact (h.setSlot k none (fun _ hx => by cases hx) w.snap) st' hm
    · exact h st' (live_mem hm.symm)
  | moveAssign s d =>
    simp only [step]
    have h1 := h.setSlot s (w.live d) (fun st' hst' => h st' (live_mem hst')) w.snap
    exact h1.setSlot d (w.live s) (fun st' hst' => h st' (live_mem hst')) w.snap
  | clear k => exact h.setSlot k _ (fun st' hst' => by cases hst'; exact ⟨Inv.fresh, Ghost.fresh⟩) _
  | setNumSubs k n =>
    simp only [step]
    cases hk : w.live k with
    | none => simpa [hk] using h
    | some st =>
      simp only [legal, hk, Bool.and_eq_true] at hl
      exact h.setSlot k _ (fun st' hst' => by
        cases hst'
        exact ⟨Inv.with_subs_default (St.pristine_eq hl.2) _ (fun sb hsb => (List.mem_replicate.mp hsb).2),
               Ghost.with_subs_default st _ (fun sb hsb => (List.mem_replicate.mp hsb).2)⟩) _
  | addSub k =>
    simp only [step]
    cases hk : w.live k with
    | none => simpa [hk] using h
    | some st =>
      simp only [legal, hk, Bool.and_eq_true] at hl
      have hp := hl.1
      have hall : ∀ sb ∈ st.subs ++ [({} : Sub)], sb = {} := by
        intro sb hsb
        rcases List.mem_append.mp hsb with hm | hm
        · unfold St.pristine at hp
          simp only [Bool.and_eq_true, List.all_eq_true] at hp
          have := hp.2 sb hm
          unfold Sub.pristine at this
          simpa using this
        · simpa using hm
      exact h.setSlot k _ (fun st' hst' => by
        cases hst'
        exact ⟨Inv.with_subs_default (St.pristine_eq hp) _ hall, Ghost.with_subs_default st _ hall⟩) _
  | snap k =>
    simp only [step]
    cases hk : w.live k with
    | none => simpa [hk] using h
    | some st => exact fun st' hst' => h st' hst'
  | diff k => exact h
  | probeStale k s c => exact h

/-- the invariant holds after every legal history -/
theorem wgood_run (ops : List Op) {w : World} (h : WGood w) (hl : legalRun w ops) : WGood (run w ops) := by
  induction ops generalizing w with
  | nil => exact h
  | cons op ops ih =>
    simp only [run, List.foldl_cons]
    exact ih (wgood_step h op hl.1 hl.2.1) hl.2.2

/-- **Inv**: in every reachable state the system stage never exceeds any subsystem's stage. -/
theorem system_stage_le_subsystem_stage {st : St} (h : Inv st) {s : Nat} {sb : Sub} (hs : st.subs[s]? = some sb) :
    st.sys ≤ sb.cur ∧ sb.cur ≤ 9 :=
  ⟨(h.sub hs).sys_le, (h.sub hs).cur_le⟩

/-! ## changing a variable lowers the stages -/

theorem restore_cur (sb : Sub) (g : Nat) : (sb.restore g).cur = min sb.cur g := by
  unfold Sub.restore
  by_cases h1 : sb.cur ≤ g
  · simp only [h1, if_true]; omega
  · simp only [h1, if_false]
    by_cases h2 : g = 0
    · simp only [h2, if_true]; show 0 = min sb.cur 0; omega
    · simp only [h2, if_false]; omega

theorem curs_of_view (st : St) : st.subs.map Sub.cur = st.view.subs.map Sub.cur := by
  simp [St.view, List.map_map, Function.comp_def]

/-- **upd_lowers_stage.**  Every variable-changing operation (`updQ/U/Z` and their per-subsystem forms, `updY`,
`setTime`, weights, `updDiscreteVariable`/`setDiscreteVariable`, `invalidateAll`, `invalidateAllCacheAtOrAbove`)
that invalidates stage `g` (`invalStage`, as coded) leaves the system stage and the stage of *every* subsystem at
`min (old stage) (g-1)`: at most `g-1`, and unchanged if it was already below `g`. -/
theorem upd_lowers_stage (st : St) (op : SOp) (g : Nat) (hiv : invalStage st op = some g)
    (hexc : excOf st op = none) :
    (stepS st op).sys = min st.sys (g - 1) ∧
    (stepS st op).subs.map Sub.cur = st.subs.map (fun sb => min sb.cur (g - 1)) := by
  have hv : (stepS st op).view = st.view.invalAllV g := by
    unfold stepS; rw [hexc]; exact view_applyS_inval st op g hiv
  constructor
  · have h1 : (stepS st op).sys = (st.view.invalAllV g).sys := show (stepS st op).view.sys = _ from congrArg St.sys hv
    rw [h1]
    show (if st.sys < g then st.sys else g - 1) = _
    by_cases hlt : st.sys < g
    · rw [if_pos hlt]; omega
    · rw [if_neg hlt]; omega
  · rw [curs_of_view, hv]
    simp only [St.invalAllV, St.view, List.map_map]
    apply List.map_congr_left
    intro sb _
    simp only [Function.comp]
    rw [restore_cur]; rfl

/-- corollary in the wording of the property -/
theorem upd_lowers_stage_le (st : St) (op : SOp) (g : Nat) (hiv : invalStage st op = some g)
    (hexc : excOf st op = none) (hg : 1 ≤ g) :
    (stepS st op).sys < g ∧ (st.sys < g → (stepS st op).sys = st.sys) ∧
    ∀ sb' ∈ (stepS st op).subs, sb'.cur < g := by
  obtain ⟨h1, h2⟩ := upd_lowers_stage st op g hiv hexc
  refine ⟨by omega, fun h => by omega, ?_⟩
  intro sb' hsb'
  have : sb'.cur ∈ (stepS st op).subs.map Sub.cur := List.mem_map_of_mem hsb'
  rw [h2] at this
  obtain ⟨sb, _, hsb⟩ := List.mem_map.mp this
  omega

/-- frame operations (mark / unmark / cache writes and reads / auto-update) change no stage -/
theorem frame_ops_keep_stages (st : St) (op : SOp) (hf : isFrameOp op = true) :
    (stepS st op).sys = st.sys ∧ (stepS st op).subs.map Sub.cur = st.subs.map Sub.cur := by
  have hv : (stepS st op).view = st.view := by
    unfold stepS; split
    · rfl
    · exact view_applyS_frame st op hf
  exact ⟨by have := congrArg St.sys hv; simpa using this, by rw [curs_of_view, hv, ← curs_of_view]⟩

/-! ## stage version counters (value versions: see the section at the end) -/

/-- **stage versions (system).**  An operation that invalidates stage `g` increases by exactly one the
version of every system stage `g ≤ i ≤ (old system stage)` and leaves all others unchanged. -/
theorem stage_version_bumps_system {st : St} (hI : Inv st) (op : SOp) (g : Nat) (hiv : invalStage st op = some g)
    (hexc : excOf st op = none) (i : Nat) :
    (stepS st op).sysVers.getD i 0 =
      if g ≤ i ∧ i ≤ st.sys then st.sysVers.getD i 0 + 1 else st.sysVers.getD i 0 := by
  have hv : (stepS st op).view = st.view.invalAllV g := by
    unfold stepS; rw [hexc]; exact view_applyS_inval st op g hiv
  have h1 : (stepS st op).sysVers = (st.view.invalAllV g).sysVers :=
    show (stepS st op).view.sysVers = _ from congrArg St.sysVers hv
  rw [h1]
  show (if st.sys < g then st.sysVers else bump st.sysVers g st.sys).getD i 0 = _
  by_cases hs : st.sys < g
  · rw [if_pos hs, if_neg (by omega)]
  · rw [if_neg hs]
    by_cases hi : i < st.sysVers.length
    · exact getD_bump _ _ _ _ hi
    · have h11 : st.sysVers.length = 11 := hI.svlen
      have h9 : st.sys ≤ 9 := hI.sys_le
      rw [if_neg (by omega)]
      have h1 : (bump st.sysVers g st.sys)[i]? = none := List.getElem?_eq_none (by simp; omega)
      have h2 : st.sysVers[i]? = none := List.getElem?_eq_none (by omega)
      simp [List.getD_eq_getElem?_getD, h1, h2]

/-- **stage versions (subsystem).**  Restoring a subsystem from stage `cur` to a lower stage `g ≥ 1`
increases by exactly one the version of every stage `g < i ≤ cur`, leaves the others unchanged. -/
theorem stage_version_bumps_subsystem (sb : Sub) (g i : Nat) (hg : 1 ≤ g) (hc : g < sb.cur) (hi : i < sb.vers.length) :
    (sb.restore g).ver i = if g < i ∧ i ≤ sb.cur then sb.ver i + 1 else sb.ver i := by
  unfold Sub.restore Sub.ver
  rw [if_neg (by omega), if_neg (by omega)]
  simp only
  rw [getD_bump _ _ _ _ hi]
  by_cases h : g < i ∧ i ≤ sb.cur
  · rw [if_pos h, if_pos ⟨by omega, h.2⟩]
  · rw [if_neg h, if_neg (fun hx => h ⟨by omega, hx.2⟩)]

/-- stage versions never decrease under an invalidation (system level), whatever the arguments -/
theorem stage_version_mono_system (st : St) (g i : Nat) : st.sysVers.getD i 0 ≤ (st.invalAll g).sysVers.getD i 0 := by
  have hv := view_invalAll st g
  have h1 : (st.invalAll g).sysVers = (st.view.invalAllV g).sysVers :=
    show (st.invalAll g).view.sysVers = _ from congrArg St.sysVers hv
  rw [h1]
  show _ ≤ (if st.sys < g then st.sysVers else bump st.sysVers g st.sys).getD i 0
  by_cases hlt : st.sys < g
  · rw [if_pos hlt]; exact Nat.le_refl _
  · rw [if_neg hlt]; exact getD_bump_ge _ _ _ _

/-! ## allocation stacks pop with the stage -/

theorem filter_map_static_ce (l : List CE) (g : Nat) :
    (l.filter (fun e => e.alloc ≤ g)).map CE.static = (l.map CE.static).filter (fun e => e.alloc ≤ g) := by
  induction l with
  | nil => rfl
  | cons a as ih =>
    by_cases h : a.alloc ≤ g
    · simp [h, ih]
    · simp [h, ih]

theorem filter_map_static_dv (l : List DV) (g : Nat) :
    (l.filter (fun e => e.alloc ≤ g)).map DV.static = (l.map DV.static).filter (fun e => e.alloc ≤ g) := by
  induction l with
  | nil => rfl
  | cons a as ih =>
    by_cases h : a.alloc ≤ g
    · simp [h, ih]
    · simp [h, ih]

theorem unfresh_of_static (e : CE) (g : Nat) (c : Nat) : (e.static).unfresh g c = e.static := by
  unfold CE.unfresh; split <;> rfl

/-- **stacks_pop_with_stage.**  In a reachable state, invalidating stage `g` restores every subsystem that had
reached `g` to stage `g-1` and pops from each of its allocation stacks *exactly* the entries allocated at stage
`≥ g` (cache entries allocated while realizing Topology / Model / Instance disappear when that stage is invalidated;
the survivors keep their order and identity); a subsystem below `g` keeps everything, including allocations made
for the stage it is currently realizing. -/
theorem stacks_pop_with_stage {st : St} (hI : Inv st) (g : Nat) (hg : 2 ≤ g) {s : Nat} {sb : Sub}
    (hs : st.subs[s]? = some sb) :
    ∃ sb', (st.invalAll g).subs[s]? = some sb' ∧
      (sb.cur < g → sb'.view = sb.view) ∧
      (g ≤ sb.cur → sb'.cur = g - 1 ∧
        sb'.ces.map CE.static = (sb.ces.filter (fun e => e.alloc ≤ g - 1)).map CE.static ∧
        sb'.dvs.map DV.static = (sb.dvs.filter (fun d => d.alloc ≤ g - 1)).map DV.static ∧
        sb'.qInfo = sb.qInfo.filter (fun c => c.alloc ≤ g - 1) ∧
        sb'.uInfo = sb.uInfo.filter (fun c => c.alloc ≤ g - 1) ∧
        sb'.zInfo = sb.zInfo.filter (fun c => c.alloc ≤ g - 1) ∧
        sb'.qerrInfo = sb.qerrInfo.filter (fun c => c.alloc ≤ g - 1) ∧
        sb'.uerrInfo = sb.uerrInfo.filter (fun c => c.alloc ≤ g - 1) ∧
        sb'.udoterrInfo = sb.udoterrInfo.filter (fun c => c.alloc ≤ g - 1) ∧
        sb'.trig = sb.trig.filter (fun c => c.alloc ≤ g - 1)) := by
  have hv := view_invalAll st g
  have hsubs : (st.invalAll g).subs.map Sub.view = st.subs.map (fun sb => (sb.restore (g - 1)).view) := by
    have := congrArg St.subs hv
    simp only [St.view, St.invalAllV, List.map_map] at this
    rw [this]
    apply List.map_congr_left
    intro x _
    simp [restore_view]
  have hlen : (st.invalAll g).subs.length = st.subs.length := by
    have := congrArg List.length hsubs; simpa using this
  have hslt : s < st.subs.length := by
    rcases List.getElem?_eq_some_iff.mp hs with ⟨h, _⟩; exact h
  obtain ⟨sb', hsb'⟩ : ∃ sb', (st.invalAll g).subs[s]? = some sb' :=
    ⟨_, List.getElem?_eq_getElem (by omega)⟩
  have hview : sb'.view = (sb.restore (g - 1)).view := by
    have h1 : ((st.invalAll g).subs.map Sub.view)[s]? = some sb'.view := by simp [hsb']
    rw [hsubs] at h1
    simp [hs] at h1
    exact h1.symm
  refine ⟨sb', hsb', ?_, ?_⟩
  · intro hlt
    rw [hview]
    rw [restore_view, Sub.restore, if_pos (by show sb.view.cur ≤ g - 1; simp only [Sub.view_cur]; omega)]
    -- the early return only touches the ghost, which the static view does not contain
    show ({ sb.view with ces := sb.view.ces.map (fun e => e.unfresh (g - 1) sb.view.cur) } : Sub) = sb.view
    have : sb.view.ces.map (fun e => e.unfresh (g - 1) sb.view.cur) = sb.view.ces := by
      simp only [Sub.view, List.map_map]
      apply List.map_congr_left
      intro e _
      exact unfresh_of_static e (g - 1) sb.cur
    rw [this]
  · intro hge
    have hg' := hI.sub hs
    have hne : ¬ sb.cur ≤ g - 1 := by omega
    have h0 : g - 1 ≠ 0 := by omega
    rw [restore_view, Sub.restore, if_neg (by simpa using hne), if_neg h0] at hview
    have e1 := congrArg Sub.cur hview
    have e2 := congrArg Sub.ces hview
    have e3 := congrArg Sub.dvs hview
    have e4 := congrArg Sub.qInfo hview
    have e5 := congrArg Sub.uInfo hview
    have e6 := congrArg Sub.zInfo hview
    have e7 := congrArg Sub.qerrInfo hview
    have e8 := congrArg Sub.uerrInfo hview
    have e9 := congrArg Sub.udoterrInfo hview
    have e10 := congrArg Sub.trig hview
    simp only [Sub.view] at e1 e2 e3 e4 e5 e6 e7 e8 e9 e10
    refine ⟨e1, ?_, ?_, ?_, ?_, ?_, ?_, ?_, ?_, ?_⟩
    · have hsc : ((sb.ces.map CE.static).map CE.alloc).Pairwise (· ≤ ·) := hg'.ces.sorted
      rw [e2, popBack_eq_filter CE.alloc _ _ hsc, ← filter_map_static_ce, List.map_map]
      apply List.map_congr_left
      intro e _
      exact unfresh_of_static e _ sb.cur
    · have hsd : ((sb.dvs.map DV.static).map DV.alloc).Pairwise (· ≤ ·) := hg'.dvs.sorted
      rw [e3, popBack_eq_filter DV.alloc _ _ hsd, ← filter_map_static_dv]
    · rw [e4]; exact popBack_eq_filter CV.alloc _ _ hg'.q.sorted
    · rw [e5]; exact popBack_eq_filter CV.alloc _ _ hg'.u.sorted
    · rw [e6]; exact popBack_eq_filter CV.alloc _ _ hg'.z.sorted
    · rw [e7]; exact popBack_eq_filter Al.alloc _ _ hg'.qerr.sorted
    · rw [e8]; exact popBack_eq_filter Al.alloc _ _ hg'.uerr.sorted
    · rw [e9]; exact popBack_eq_filter Al.alloc _ _ hg'.udoterr.sorted
    · rw [e10]; exact popBack_eq_filter Tr.alloc _ _ hg'.trig.sorted


/-! ## cache validity -/

theorem isRealized_iff (st : St) (k : Key) :
    st.isRealized k = true ↔
      ∃ sb e, st.subs[k.1]? = some sb ∧ sb.ces[k.2]? = some e ∧
        (e.comp ≤ sb.cur ∨ (e.dep ≤ sb.cur ∧ sb.ver e.dep = e.stamp ∧ e.flag = true)) := by
  unfold St.isRealized
  cases hs : st.subs[k.1]? with
  | none =>
    constructor
    · intro h; cases h
    · rintro ⟨sb, e, h, _⟩; cases h
  | some sb =>
    show (match sb.ces[k.2]? with | some e => e.upToDate sb | none => false) = true ↔ _
    cases he : sb.ces[k.2]? with
    | none =>
      constructor
      · intro h; cases h
      · rintro ⟨sb', e, h1, h2, _⟩; cases h1; rw [he] at h2; cases h2
    | some e =>
      show e.upToDate sb = true ↔ _
      have key : e.upToDate sb = true ↔
          (e.comp ≤ sb.cur ∨ (e.dep ≤ sb.cur ∧ sb.ver e.dep = e.stamp ∧ e.flag = true)) := by
        unfold CE.upToDate
        by_cases h1 : sb.cur ≥ e.comp
        · rw [if_pos h1]; exact ⟨fun _ => Or.inl h1, fun _ => rfl⟩
        · rw [if_neg h1]
          by_cases h2 : sb.cur < e.dep
          · rw [if_pos h2]
            constructor
            · intro h; cases h
            · intro h; rcases h with h | h <;> omega
          · rw [if_neg h2]
            simp only [Bool.and_eq_true, beq_iff_eq]
            constructor
            · intro h; exact Or.inr ⟨by omega, h.1, h.2⟩
            · intro h
              rcases h with h | h
              · omega
              · exact ⟨h.2.1, h.2.2⟩
      constructor
      · intro h; exact ⟨sb, e, rfl, he, key.mp h⟩
      · rintro ⟨sb', e', h1, h2, h3⟩
        cases h1; rw [he] at h2; cases h2; exact key.mpr h3

/-- **cache_valid_iff.**  In every reachable state a cache entry reads valid (`isCacheValueRealized`, and
`getCacheEntry` does not throw) iff its subsystem has reached the computed-by stage, or it has reached the
depends-on stage *and the entry is fresh*: it was marked valid (`markCacheValueRealized`) after the last time its
depends-on stage was invalidated, after the last `invalidate()` on it (explicit `markCacheValueNotRealized`,
notification from a changed prerequisite — q, u, z, a discrete variable, an upstream cache entry —, update of its
auto-update variable, auto-update swap) and, in a copy, only if its depends-on stage was copied and it has no
prerequisites.  (`fresh` is the ghost history bit of the model; the code decides with version stamps, `Ghost`
is the invariant that makes the two agree.) -/
theorem cache_valid_iff {st : St} (hG : Ghost st) (k : Key) :
    st.isRealized k = true ↔
      ∃ sb e, st.subs[k.1]? = some sb ∧ sb.ces[k.2]? = some e ∧
        (e.comp ≤ sb.cur ∨ (e.dep ≤ sb.cur ∧ e.fresh = true)) := by
  rw [isRealized_iff]
  constructor
  · rintro ⟨sb, e, hs, he, h⟩
    refine ⟨sb, e, hs, he, ?_⟩
    rcases h with h | ⟨h1, h2, h3⟩
    · exact Or.inl h
    · have := hG sb (List.mem_of_getElem? hs) e (List.mem_of_getElem? he)
      exact Or.inr ⟨h1, this.iff.mp ⟨h2.symm, h3⟩⟩
  · rintro ⟨sb, e, hs, he, h⟩
    refine ⟨sb, e, hs, he, ?_⟩
    rcases h with h | ⟨h1, h2⟩
    · exact Or.inl h
    · have := hG sb (List.mem_of_getElem? hs) e (List.mem_of_getElem? he)
      have h3 := this.iff.mpr h2
      exact Or.inr ⟨h1, h3.1.symm, h3.2⟩

/-- marking makes the entry fresh (ghost semantics, part 1) -/
theorem mark_makes_fresh (st : St) (k : Key) (e : CE) (he : st.ce? k = some e) :
    ((st.markCE k).ce? k).map CE.fresh = some true := by
  obtain ⟨sb, hs, _⟩ := ce?_mem he
  unfold St.markCE
  simp only [hs]
  rw [ceOpt_modCE_self, he]
  rfl

/-- `markCacheValueNotRealized` (and every notification that reaches the entry) clears freshness (part 2) -/
theorem unmark_clears_fresh (st : St) (k : Key) (e : CE) (he : st.ce? k = some e) :
    ((st.notify [k]).ce? k).map CE.fresh = some false := by
  unfold St.notify St.invalidateMany
  rw [ceOpt_mapCE, he]
  have hc : 1 ≤ (reach st (st.numCE + 1) [k]).count k := by
    simp only [reach, List.count_append]
    have : [k].count k = 1 := by simp
    omega
  simp only [Option.map_some, CE.invN]
  rw [if_neg (by omega)]

/-- changing a variable of a stage ≤ the depends-on stage clears freshness (part 3): after `restoreToStage(g)`
*every* surviving entry whose depends-on stage is above `g` is not fresh — whether or not the subsystem had reached
that stage, i.e. also on the early-return path of the C++ (specification-level ghost) -/
theorem restore_clears_fresh (sb : Sub) (g : Nat) :
    ∀ e ∈ (sb.restore g).ces, g < e.dep → e.fresh = false := by
  intro e' he' h1
  unfold Sub.restore at he'
  split at he'
  · obtain ⟨e, _, rfl⟩ := List.mem_map.mp he'
    simp only [CE.unfresh_dep] at h1
    unfold CE.unfresh; rw [if_pos h1]
  · split at he'
    · simp at he'
    · obtain ⟨e, _, rfl⟩ := List.mem_map.mp he'
      simp only [CE.unfresh_dep] at h1
      unfold CE.unfresh; rw [if_pos h1]

/-- a copied entry is fresh only if its depends-on stage was copied (≤ Instance) and it has no prerequisites (part 4) -/
theorem copy_clears_fresh (sb : Sub) : ∀ e ∈ (Sub.copyOf sb).ces, e.fresh = true → e.dep ≤ 3 ∧ e.hasPre = false := by
  intro e' he' hf
  have hces : (Sub.copyOf sb).ces = (popBack CE.alloc (min sb.cur 3) sb.ces).map (fun e => e.copied (min sb.cur 3)) := rfl
  rw [hces] at he'
  obtain ⟨e, _, rfl⟩ := List.mem_map.mp he'
  simp only [CE.copied, Bool.and_eq_true, decide_eq_true_eq, Bool.not_eq_eq_eq_not, Bool.not_true] at hf
  exact ⟨by have := hf.1.2; show e.dep ≤ 3; omega, hf.2⟩

/-! ## copies -/

/-- **copy: stages.**  A copy (constructor or assignment) is realized through `min (source stage) Instance`,
system and every subsystem. -/
theorem copy_stage (dstVers : List Nat) (src : St) :
    (St.copyFrom dstVers src).sys = min src.sys 3 ∧
    (St.copyFrom dstVers src).subs.map Sub.cur = src.subs.map (fun sb => min sb.cur 3) := by
  have hv := view_copyFrom dstVers src
  constructor
  · exact (show (St.copyFrom dstVers src).view.sys = _ from congrArg St.sys hv)
  · rw [curs_of_view, hv]
    simp [St.view, List.map_map, Function.comp_def, Sub.copyOf]

/-- **copy: cache.**  In a copy of a reachable state a cache entry can read valid only if its depends-on stage is
at most Instance ("copied cache is valid only through Instance"). -/
theorem copy_cache_valid_only_through_instance {src : St} (hI : Inv src) (dstVers : List Nat)
    (hl : dstVers.length = 11) (hp : ∀ x ∈ dstVers, 1 ≤ x) (k : Key)
    (hv : (St.copyFrom dstVers src).isRealized k = true) :
    ∃ e, (St.copyFrom dstVers src).ce? k = some e ∧ e.dep ≤ 3 := by
  have hIc := hI.copyFrom dstVers hl hp
  obtain ⟨sb, e, hs, he, h⟩ := (isRealized_iff _ k).mp hv
  have hcur : sb.cur ≤ 3 := by
    have h2 := (copy_stage dstVers src).2
    have : sb.cur ∈ (St.copyFrom dstVers src).subs.map Sub.cur := List.mem_map_of_mem (List.mem_of_getElem? hs)
    rw [h2] at this
    obtain ⟨x, _, hx⟩ := List.mem_map.mp this
    omega
  have hwf := (hIc.sub hs).cewf e.static (List.mem_map_of_mem (List.mem_of_getElem? he))
  refine ⟨e, by unfold St.ce?; simp [hs, he], ?_⟩
  have hd : e.static.dep = e.dep := rfl
  have hc : e.static.comp = e.comp := rfl
  rcases h with h | h <;> omega

/-- State objects an operation may write -/
def writes (w : World) : Op → List Nat
  | .on k _ | .clear k | .setNumSubs k _ | .addSub k => [k]
  | .copyNew _ => [w.sts.length]
  | .copyAssign _ d => [d]
  | .moveNew k => [k, w.sts.length]
  | .moveAssign s d => [s, d]
  | .snap _ | .diff _ | .probeStale _ _ _ => []

/-- **copy_independent.**  An operation does not change any State object it does not write: in particular copy
construction / assignment leave the source untouched, and no operation on a copy changes the source (and vice
versa) — State objects share nothing. -/
theorem copy_independent (w : World) (op : Op) (k : Nat) (hk : k ∉ writes w op) :
    (step w op).sts[k]? = w.sts[k]? := by
  cases op with
  | on j o =>
    simp only [writes, List.mem_singleton] at hk
    simp only [step]; split
    · exact getElemOpt_setSlot _ _ _ _ hk
    · rfl
  | copyNew j =>
    simp only [writes, List.mem_singleton] at hk
    simp only [step]; split
    · simp only
      by_cases hlt : k < w.sts.length
      · exact List.getElem?_append_left hlt
      · rw [List.getElem?_eq_none (by simp; omega), List.getElem?_eq_none (by omega)]
    · rfl
  | copyAssign s d =>
    simp only [writes, List.mem_singleton] at hk
    simp only [step]; split <;> exact getElemOpt_setSlot _ _ _ _ hk
  | moveNew j =>
    simp only [writes, List.mem_cons, List.not_mem_nil, or_false, not_or] at hk
    simp only [step]
    by_cases hlt : k < w.sts.length
    · rw [List.getElem?_append_left (by simpa [setSlot] using hlt)]
      exact getElemOpt_setSlot _ _ _ _ hk.1
    · rw [List.getElem?_eq_none (by simp [setSlot]; omega), List.getElem?_eq_none (by omega)]
  | moveAssign s d =>
    simp only [writes, List.mem_cons, List.not_mem_nil, or_false, not_or] at hk
    simp only [step]
    rw [getElemOpt_setSlot _ _ _ _ hk.2, getElemOpt_setSlot _ _ _ _ hk.1]
  | clear j =>
    simp only [writes, List.mem_singleton] at hk
    exact getElemOpt_setSlot _ _ _ _ hk
  | setNumSubs j n =>
    simp only [writes, List.mem_singleton] at hk
    simp only [step]; split
    · exact getElemOpt_setSlot _ _ _ _ hk
    · rfl
  | addSub j =>
    simp only [writes, List.mem_singleton] at hk
    simp only [step]; split
    · exact getElemOpt_setSlot _ _ _ _ hk
    · rfl
  | snap j => simp only [step]; split <;> rfl
  | diff j => rfl
  | probeStale j s c => rfl

/-- a history none of whose operations writes State object `k` -/
def untouched (k : Nat) : World → List Op → Prop
  | _, [] => True
  | w, op :: ops => k ∉ writes w op ∧ untouched k (step w op) ops

/-- … lifted to arbitrary histories -/
theorem copy_independent_run (k : Nat) (ops : List Op) (w : World) (h : untouched k w ops) :
    (run w ops).sts[k]? = w.sts[k]? := by
  induction ops generalizing w with
  | nil => rfl
  | cons op ops ih =>
    simp only [run, List.foldl_cons]
    exact (ih (step w op) h.2).trans (copy_independent w op k h.1)

/-! ## auto-update discrete variables -/

/-- **autoupdate_only_on_request.**  (1) `autoUpdateDiscreteVariables` changes no stage and no stage version, and
no allocation (`frame_ops_keep_stages`, here for the whole static view); (2) every *other* operation except an
explicit update of that variable leaves the values of all surviving discrete variables unchanged
(`dvs_change_only_on_request`). -/
theorem autoupdate_only_on_request (st : St) :
    (stepS st .autoUpdate).view = st.view ∧
    ∀ op : SOp, op ≠ .autoUpdate → (∀ s d v, op ≠ .setDV s d v) → PrefRel st.dparts (stepS st op).dparts :=
  ⟨by unfold stepS; split
      · rfl
      · exact view_applyS_frame st .autoUpdate rfl,
   fun op h1 h2 => dvs_change_only_on_request st op h1 h2⟩

/-- one step of the auto-update loop swaps variable and update value exactly when the update value reads valid -/
theorem autoUpdateOne_not_realized (st : St) (k : Key) (dv : DV) (cx : Nat) (hd : st.dv? k = some dv)
    (ha : dv.auto = some cx) (hr : st.isRealized (k.1, cx) = false) : st.autoUpdateOne k = st := by
  unfold St.autoUpdateOne
  simp only [hd, ha]
  split
  · rfl
  · simp [hr]


/-! ## where the code departs from the property text -/

/-- legality of a whole history as a Boolean (for the concrete counterexamples below) -/
def legalAll : World → List Op → Bool
  | _, [] => true
  | w, op :: ops => legal w op && legalAll (step w op) ops

/-- **Counterexample (finding `cache_valid.marked_one_stage_early_then_variable_changed`).**
`markCacheValueRealized` is accepted while the subsystem is still one stage below the entry's depends-on stage
(`StateImpl.h`: `SimTK_STAGECHECK_GE(stage, dependsOn.prev())`).  In this *legal* history a lazy entry depending on
Position is marked at Time stage, then `updQ()` changes a Position-stage variable (no stage version is bumped: the
subsystem had not reached Position, `restoreToStage` returns early), then Position is realized: the entry reads
valid although it was marked before the last change to its depends-on stage — it is not `fresh`.
This is why `cache_valid_iff` is stated for histories obeying `strict`. -/
theorem mark_one_stage_early_survives_change :
    let w0 : World := { sts := [some { subs := [{}] }] }
    let ops : List Op :=
      [.on 0 (.allocCE 0 5 10 3), .on 0 (.advSub 0 1), .on 0 (.advSys 1), .on 0 (.advSub 0 2), .on 0 (.advSys 2),
       .on 0 (.advSub 0 3), .on 0 (.advSys 3), .on 0 (.advSub 0 4), .on 0 (.advSys 4),
       .on 0 (.mark 0 0), .on 0 (.updQ none), .on 0 (.advSub 0 5), .on 0 (.advSys 5)]
    legalAll w0 ops = true ∧
    ((run w0 ops).live 0).map (fun st => (st.isRealized (0, 0), (st.ce? (0, 0)).map CE.fresh)) =
      some (true, some false) := by
  decide

/-- **Counterexample (findings `value_version.dv.autoUpdate`, `cache_valid.prerequisite_dv_autoupdate_swap_…`).**
`autoUpdateDiscreteVariables` swaps the value of an auto-update variable (`DiscreteVarInfo::swapValue`) without
bumping its value version and without notifying its dependents: here the variable goes 1 → 2, its value version
stays 1, and the cache entry that declared it as a prerequisite (and was marked before) still reads valid. -/
theorem autoUpdate_swap_keeps_version_and_dependents :
    let w0 : World := { sts := [some { subs := [{}] }] }
    let ops : List Op :=
      [.on 0 (.allocAutoDV 0 7 1 4), .on 0 (.allocCEpre 0 4 10 false false false [(0, 0)] [] 10),
       .on 0 (.advSub 0 1), .on 0 (.advSys 1), .on 0 (.advSub 0 2), .on 0 (.advSys 2),
       .on 0 (.advSub 0 3), .on 0 (.advSys 3), .on 0 (.advSub 0 4), .on 0 (.advSys 4),
       .on 0 (.setCE 0 0 2), .on 0 (.markDVUpd 0 0), .on 0 (.mark 0 1), .on 0 .autoUpdate]
    legalAll w0 ops = true ∧
    ((run w0 ops).live 0).map (fun st => ((st.dv? (0, 0)).map (fun d => (d.value, d.valVer)), st.isRealized (0, 1))) =
      some (some (2, 1), true) := by
  decide

/-- **Counterexample (findings `value_version.ce.setCE`, `cache_valid.prerequisite_ce_updCacheEntry_…`).**
Writing a cache entry's value through `updCacheEntry` neither bumps its value version nor notifies the entries that
declared it as a prerequisite: the downstream entry marked before the write still reads valid. -/
theorem updCacheEntry_keeps_version_and_dependents :
    let w0 : World := { sts := [some { subs := [{}] }] }
    let ops : List Op :=
      [.on 0 (.allocCE 0 4 10 5), .on 0 (.allocCEpre 0 4 10 false false false [] [(0, 0)] 50),
       .on 0 (.advSub 0 1), .on 0 (.advSys 1), .on 0 (.advSub 0 2), .on 0 (.advSys 2),
       .on 0 (.advSub 0 3), .on 0 (.advSys 3), .on 0 (.advSub 0 4), .on 0 (.advSys 4),
       .on 0 (.mark 0 0), .on 0 (.mark 0 1), .on 0 (.setCE 0 0 7)]
    legalAll w0 ops = true ∧
    ((run w0 ops).live 0).map (fun st => ((st.ce? (0, 0)).map (fun e => (e.value, e.valVer)), st.isRealized (0, 1))) =
      some (some (7, 1), true) := by
  decide

/-- `updCacheEntry` in general: value version and dependents of the written entry are untouched -/
theorem setCE_keeps_valVer (st : St) (s c : Nat) (v : Int) :
    ((stepS st (.setCE s c v)).ce? (s, c)).map CE.valVer = (st.ce? (s, c)).map CE.valVer := by
  unfold stepS
  have : excOf st (.setCE s c v) = none := rfl
  rw [this]
  show ((st.modCE (s, c) _).ce? (s, c)).map CE.valVer = _
  rw [ceOpt_modCE_self]
  cases st.ce? (s, c) <;> rfl

/-! ## the documented invalidated stage -/

/-- the stage each variable-changing call invalidates *according to the documentation* (State.h) -/
def docStage (st : St) : SOp → Option Nat
  | .updZW => some 9          -- "Set z weights. … This will invalidate just Report stage"
  | op => invalStage st op

/-- the coded table `invalStage` (read off `applyS`) is the documented one, with exactly one exception -/
theorem invalStage_eq_docStage (st : St) (op : SOp) (h : op ≠ .updZW) : invalStage st op = docStage st op := by
  cases op <;> first | rfl | exact absurd rfl h

/-- the exception (finding `updZW.invalidated_stage_differs_from_documentation`): system-level `updZWeights()`
invalidates Dynamics where the documentation (and the per-subsystem overload) say Report -/
theorem updZWeights_departs_from_documentation (st : St) :
    invalStage st .updZW = some 7 ∧ docStage st .updZW = some 9 ∧ invalStage st (.updZWsub 0) = some 9 :=
  ⟨rfl, rfl, rfl⟩


/-! ## value versions -/

/-- discrete variable `(s, d)` (dependents aside) in a list of per-subsystem stacks -/
def at2 (l : List (List DV)) (s d : Nat) : Option DV := (l[s]?).bind (fun x => x[d]?)

theorem at2_prefRel {a b : List (List DV)} (h : PrefRel a b) {s d : Nat} {x y : DV}
    (hx : at2 a s d = some x) (hy : at2 b s d = some y) : x = y := by
  unfold at2 at hx hy
  cases ha : a[s]? with
  | none => simp [ha] at hx
  | some la =>
    cases hb : b[s]? with
    | none => simp [hb] at hy
    | some lb =>
      simp only [ha, hb, Option.bind_some] at hx hy
      rcases h.2 s la lb ha hb with ⟨r, hr⟩ | ⟨r, hr⟩
      · have := getElem?_prefix hr hy; rw [hx] at this; cases this; rfl
      · have := getElem?_prefix hr hx; rw [hy] at this; cases this; rfl

theorem at2_modAt (l : List (List DV)) (s' d' : Nat) (f : DV → DV) (s d : Nat) :
    at2 (modAt l s' (fun x => modAt x d' f)) s d =
      if s = s' ∧ d = d' then (at2 l s d).map f else at2 l s d := by
  unfold at2
  rw [getElem?_modAt]
  by_cases hs : s = s'
  · subst hs
    simp only [if_true, true_and]
    cases l[s]? with
    | none => simp
    | some x =>
      simp only [Option.map_some, Option.bind_some, getElem?_modAt]
  · simp [hs]

/-- **value versions of discrete variables.**  For every operation other than `autoUpdateDiscreteVariables`: a
discrete variable whose value is different afterwards has a strictly larger value version (the only operation that
changes a value is the explicit `updDiscreteVariable`, which bumps the version of that variable and leaves every
other variable's value, version and update time alone).  The excluded operation violates the clause:
`autoUpdate_swap_keeps_version_and_dependents`. -/
theorem dv_value_change_bumps_version (st : St) (op : SOp) (h1 : op ≠ .autoUpdate) (s d : Nat) (x y : DV)
    (hx : at2 st.dparts s d = some x) (hy : at2 (stepS st op).dparts s d = some y) (hv : y.value ≠ x.value) :
    x.valVer < y.valVer := by
  by_cases hset : ∃ s' d' v, op = .setDV s' d' v
  · obtain ⟨s', d', v, rfl⟩ := hset
    have hstep : stepS st (.setDV s' d' v) = st.setDV (s', d') v := rfl
    rw [hstep] at hy
    cases hdv : st.dv? (s', d') with
    | none =>
      have : st.setDV (s', d') v = st := by unfold St.setDV; simp only [hdv]
      rw [this, hx] at hy; cases hy; exact absurd rfl hv
    | some dv =>
      rw [dparts_setDV st (s', d') v dv hdv, at2_modAt] at hy
      -- the restored stacks are prefixes of the old ones
      have hpre : PrefRel st.dparts (st.subs.map (fun sb => (sb.restore (dv.inval - 1)).dpart)) := by
        refine ⟨by simp [St.dparts], ?_⟩
        intro i a b ha hb
        simp only [St.dparts, List.getElem?_map, Option.map_eq_some_iff] at ha hb
        obtain ⟨sb, hsb, rfl⟩ := ha
        obtain ⟨sb', hsb', rfl⟩ := hb
        rw [hsb] at hsb'; cases hsb'
        exact Or.inl (restore_dpart_prefix sb _)
      split at hy
      · cases hz : at2 (st.subs.map (fun sb => (sb.restore (dv.inval - 1)).dpart)) s d with
        | none => simp [hz] at hy
        | some x' =>
          rw [hz] at hy
          simp only [Option.map_some, Option.some.injEq] at hy
          have : x = x' := at2_prefRel hpre hx hz
          subst hy; subst this
          show x.valVer < x.valVer + 1
          omega
      · have : x = y := at2_prefRel hpre hx hy
        exact absurd (by rw [this]) hv
  · have h2 : ∀ s' d' v, op ≠ .setDV s' d' v := fun s' d' v hop => hset ⟨s', d', v, hop⟩
    have := at2_prefRel (dvs_change_only_on_request st op h1 h2) hx hy
    exact absurd (by rw [this]) hv

/-- an explicit update of one discrete variable leaves every *other* discrete variable alone -/
theorem setDV_other_unchanged (st : St) (s' d' : Nat) (v : Int) (s d : Nat) (hne : ¬(s = s' ∧ d = d')) (x y : DV)
    (hx : at2 st.dparts s d = some x) (hy : at2 (stepS st (.setDV s' d' v)).dparts s d = some y) : x = y := by
  have hstep : stepS st (.setDV s' d' v) = st.setDV (s', d') v := rfl
  rw [hstep] at hy
  cases hdv : st.dv? (s', d') with
  | none =>
    have : st.setDV (s', d') v = st := by unfold St.setDV; simp only [hdv]
    rw [this, hx] at hy; cases hy; rfl
  | some dv =>
    rw [dparts_setDV st (s', d') v dv hdv, at2_modAt, if_neg hne] at hy
    have hpre : PrefRel st.dparts (st.subs.map (fun sb => (sb.restore (dv.inval - 1)).dpart)) := by
      refine ⟨by simp [St.dparts], ?_⟩
      intro i a b ha hb
      simp only [St.dparts, List.getElem?_map, Option.map_eq_some_iff] at ha hb
      obtain ⟨sb, hsb, rfl⟩ := ha
      obtain ⟨sb', hsb', rfl⟩ := hb
      rw [hsb] at hsb'; cases hsb'
      exact Or.inl (restore_dpart_prefix sb _)
    exact at2_prefRel hpre hx hy


/-! ## freshness is set by marks only -/

theorem FreshLe.autoUpdateOne (st : St) (k : Key) : FreshLe st (st.autoUpdateOne k) := by
  unfold St.autoUpdateOne
  split
  · exact FreshLe.refl _
  · rename_i dv _
    split
    · exact FreshLe.refl _
    · rename_i cx _
      split
      · exact FreshLe.refl _
      · rename_i e _
        split
        · have h1 := FreshLe.modDV st k (fun d => { d with value := e.value, tLast := st.t })
          have h2 := FreshLe.modCE (st.modDV k (fun d => { d with value := e.value, tLast := st.t })) (k.1, cx)
            (fun c => { c with value := dv.value }) (fun _ h => h)
          have h3 := FreshLe.notify ((st.modDV k (fun d => { d with value := e.value, tLast := st.t })).modCE (k.1, cx)
            (fun c => { c with value := dv.value })) [(k.1, cx)]
          exact h1.trans (h2.trans h3)
        · exact FreshLe.refl _

theorem FreshLe.foldl_autoUpdateOne (l : List Key) (st : St) :
    FreshLe st (l.foldl (fun acc k => acc.autoUpdateOne k) st) := by
  induction l generalizing st with
  | nil => exact FreshLe.refl _
  | cons a as ih => exact FreshLe.trans (FreshLe.autoUpdateOne st a) (ih _)

theorem FreshLe.setDV (st : St) (k : Key) (v : Int) : FreshLe st (st.setDV k v) := by
  cases h : st.dv? k with
  | none =>
    have : st.setDV k v = st := by unfold St.setDV; simp only [h]
    rw [this]; exact FreshLe.refl _
  | some dv =>
    have hdef : st.setDV k v =
        ((st.preSetDV k dv).modDV k (fun d => { d with valVer := d.valVer + 1, tLast := (st.preSetDV k dv).t, value := v })).notify
          (match (st.preSetDV k dv).dv? k with | some d => d.deps | none => []) := by
      unfold St.setDV St.preSetDV
      simp only [h]
      rfl
    have hpre : FreshLe st (st.preSetDV k dv) := by
      unfold St.preSetDV
      split
      · exact (FreshLe.invalAll st dv.inval).trans (FreshLe.notify _ _)
      · exact FreshLe.invalAll st dv.inval
    rw [hdef]
    exact hpre.trans ((FreshLe.modDV _ _ _).trans (FreshLe.notify _ _))

theorem FreshLe.advSys (st : St) (g : Nat) : FreshLe st (st.advSys g) := by
  unfold St.advSys
  split
  · exact FreshLe.of_subs rfl
  · split
    · have key : ∀ a0 : St, a0.subs = st.subs →
          FreshLe st ({ (((a0.notify a0.qDeps).notify a0.uDeps).notify a0.zDeps) with sys := 2 } : St) := by
        intro a0 h0
        have h1 : FreshLe st a0 := FreshLe.of_subs h0
        have h2 := FreshLe.notify a0 a0.qDeps
        have h3 := FreshLe.notify (a0.notify a0.qDeps) a0.uDeps
        have h4 := FreshLe.notify ((a0.notify a0.qDeps).notify a0.uDeps) a0.zDeps
        have h5 : FreshLe (((a0.notify a0.qDeps).notify a0.uDeps).notify a0.zDeps)
            ({ (((a0.notify a0.qDeps).notify a0.uDeps).notify a0.zDeps) with sys := 2 } : St) := FreshLe.of_subs rfl
        exact h1.trans (h2.trans (h3.trans (h4.trans h5)))
      exact key _ rfl
    · exact FreshLe.of_subs rfl

/-- **fresh_only_by_mark.**  No operation on a State other than `markCacheValueRealized` /
`markDiscreteVarUpdateValueRealized` makes a cache entry fresh: whatever is fresh after the operation sits at the
same key before it and was fresh already (newly allocated entries are not fresh).  Together with
`mark_makes_fresh`, `unmark_clears_fresh`, `restore_clears_fresh`, `copy_clears_fresh` this pins the reading of the
ghost bit used in `cache_valid_iff`. -/
theorem fresh_only_by_mark (st : St) (op : SOp) (h1 : ∀ s c, op ≠ .mark s c) (h2 : ∀ s d, op ≠ .markDVUpd s d) :
    FreshLe st (stepS st op) := by
  unfold stepS
  cases hexc : excOf st op with
  | some c => exact FreshLe.refl _
  | none =>
  simp only
  have keep : ∀ (s : Nat) (f : Sub → Sub), (∀ sb, (f sb).ces = sb.ces) → FreshLe st (st.modSub s f) := by
    intro s f hf
    apply FreshLe.modSub
    intro sb c e' hc hfe
    rw [hf] at hc; exact ⟨e', hc, hfe⟩
  cases op with
  | advSub s g => exact keep s _ (fun _ => rfl)
  | advSys g => exact FreshLe.advSys st g
  | invalAll g => exact FreshLe.invalAll st g
  | invalCache g => exact FreshLe.invalAll st g
  | allocQ s vals => exact keep s _ (fun _ => rfl)
  | allocU s vals => exact keep s _ (fun _ => rfl)
  | allocZ s vals => exact keep s _ (fun _ => rfl)
  | allocQErr s n => exact keep s _ (fun _ => rfl)
  | allocUErr s n => exact keep s _ (fun _ => rfl)
  | allocUDotErr s n => exact keep s _ (fun _ => rfl)
  | allocTrig s g n => exact keep s _ (fun _ => rfl)
  | allocDV s inv v => exact keep s _ (fun _ => rfl)
  | allocAutoDV s inv v ud =>
    exact FreshLe.pushCE st s _ (fun sb => { alloc := sb.cur + 1, dep := ud, comp := 10, value := v, assoc := some sb.dvs.length })
      (fun _ => rfl) (fun _ => rfl)
  | allocCE s dep comp v =>
    exact FreshLe.pushCE st s _ (fun sb => { alloc := sb.cur + 1, dep := dep, comp := comp, value := v })
      (fun _ => rfl) (fun _ => rfl)
  | allocCEpre s dep comp q u z dvs ces v =>
    show FreshLe st (match st.subs[s]? with
      | none => st
      | some sb => _)
    split
    · exact FreshLe.refl _
    · rename_i sb hs
      simp only
      refine FreshLe.trans ?_ (FreshLe.register _ _ _)
      exact FreshLe.pushCE st s _ (fun _ => _) (fun _ => rfl) (fun _ => rfl)
  | mark s c => exact absurd rfl (h1 s c)
  | unmark s c => exact FreshLe.notify st _
  | markDVUpd s d => exact absurd rfl (h2 s d)
  | setCE s c v => exact FreshLe.modCE st _ _ (fun _ h => h)
  | getCE s c => exact FreshLe.refl _
  | setDV s d v => exact FreshLe.setDV st _ _
  | updQ w => exact (FreshLe.invalAll st 5).trans ((FreshLe.noteQ (st.invalAll 5)).trans (FreshLe.of_subs rfl))
  | updU w => exact (FreshLe.invalAll st 6).trans ((FreshLe.noteU (st.invalAll 6)).trans (FreshLe.of_subs rfl))
  | updZ w => exact (FreshLe.invalAll st 7).trans ((FreshLe.noteZ (st.invalAll 7)).trans (FreshLe.of_subs rfl))
  | updQsub s w => exact (FreshLe.invalAll st 5).trans ((FreshLe.noteQ (st.invalAll 5)).trans (FreshLe.of_subs rfl))
  | updUsub s w => exact (FreshLe.invalAll st 6).trans ((FreshLe.noteU (st.invalAll 6)).trans (FreshLe.of_subs rfl))
  | updZsub s w => exact (FreshLe.invalAll st 7).trans ((FreshLe.noteZ (st.invalAll 7)).trans (FreshLe.of_subs rfl))
  | updY => exact (FreshLe.invalAll st 5).trans (FreshLe.noteY _)
  | setTime v => exact (FreshLe.invalAll st 4).trans (FreshLe.of_subs rfl)
  | updUW => exact FreshLe.invalAll st _
  | updZW => exact FreshLe.invalAll st _
  | updUWsub s => exact FreshLe.invalAll st _
  | updZWsub s => exact FreshLe.invalAll st _
  | updQErrW => exact FreshLe.invalAll st _
  | updUErrW => exact FreshLe.invalAll st _
  | updQErrWsub s => exact FreshLe.invalAll st _
  | updUErrWsub s => exact FreshLe.invalAll st _
  | autoUpdate => exact FreshLe.foldl_autoUpdateOne _ st
  | setTopoVer v => exact FreshLe.of_subs rfl


/-! ## what a copy contains -/

/-- time, continuous variables and their value versions -/
def St.cont (st : St) : Option Int × List Int × List Int × List Int × Nat × Nat × Nat :=
  (st.t, st.q, st.u, st.z, st.qVer, st.uVer, st.zVer)

theorem cont_foldl_register (l : List (Key × CE)) (st : St) :
    (l.foldl (fun acc ke => acc.register ke.1 ke.2) st).cont = st.cont := by
  induction l generalizing st with
  | nil => rfl
  | cons a as ih => simp only [List.foldl_cons]; rw [ih]; rfl

theorem dparts_foldl_register (l : List (Key × CE)) (st : St) :
    (l.foldl (fun acc ke => acc.register ke.1 ke.2) st).dparts = st.dparts := by
  induction l generalizing st with
  | nil => rfl
  | cons a as ih => simp only [List.foldl_cons]; rw [ih, dparts_register]

/-- **copy: variables.**  A copy (constructor or assignment) contains, per subsystem, exactly the source's discrete
variables allocated through the copied stage with their values, value versions and update times; time if the source
had realized Topology; q, u, z and their value versions if it had realized Model (otherwise the pools do not exist
and the versions are one ahead). -/
theorem copy_keeps_variables (dstVers : List Nat) (src : St) :
    (St.copyFrom dstVers src).dparts =
      src.subs.map (fun sb => (popBack DV.alloc (min sb.cur 3) sb.dvs).map DV.nodeps) ∧
    (1 ≤ src.sys → (St.copyFrom dstVers src).t = src.t) ∧
    (2 ≤ src.sys → (St.copyFrom dstVers src).cont = src.cont) := by
  unfold St.copyFrom St.registerAll
  simp only
  refine ⟨?_, ?_, ?_⟩
  · rw [dparts_foldl_register, dparts_mapCE]
    simp only [St.dparts, List.map_map]
    apply List.map_congr_left
    intro sb _
    simp only [Function.comp, Sub.dpart, Sub.copyOf, List.map_map]
    apply List.map_congr_left
    intro d _
    rfl
  · intro h
    have ht : ∀ (l : List (Key × CE)) (st : St), (l.foldl (fun acc ke => acc.register ke.1 ke.2) st).t = st.t :=
      fun l st => congrArg Prod.fst (cont_foldl_register l st)
    rw [ht]
    show (if src.sys ≥ 1 then src.t else none) = src.t
    rw [if_pos h]
  · intro h
    rw [cont_foldl_register]
    show ((if src.sys ≥ 1 then src.t else none), (if src.sys ≥ 2 then src.q else []), (if src.sys ≥ 2 then src.u else []),
          (if src.sys ≥ 2 then src.z else []), (if src.sys ≥ 2 then src.qVer else src.qVer + 1),
          (if src.sys ≥ 2 then src.uVer else src.uVer + 1), (if src.sys ≥ 2 then src.zVer else src.zVer + 1)) = src.cont
    have h1 : src.sys ≥ 1 := by omega
    simp only [h, h1, if_true, St.cont]

end C18
