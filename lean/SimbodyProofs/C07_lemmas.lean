import SimbodyModel.ConstraintEq
import Mathlib.Tactic.Ring
import Mathlib.Tactic.LinearCombination

/-!
# C07 — helper lemmas: dual-number projections, rigid-motion lifts, orthogonality

`Jet1 K = K[ε]/(ε²)`.  A quantity `x(t)` with derivative `ẋ` is represented by the jet `⟨x, ẋ⟩`; evaluating a
polynomial model function on jets yields `⟨f(x), d/dt f(x)⟩` (that is the *definition* of the derivative used in
the C07 theorems, DESIGN.md §1.3 / §3 item 6).  A rigid motion of a frame `B` in `A` with angular velocity `w` and
origin velocity `v` is the jet pose with `Ṙ = [w]× R`, `ṗ = v`.
-/
namespace ConstraintEq
variable {K : Type} [CommRing K]

@[simp] theorem Jet1.add_val (a b : Jet1 K) : (a + b).val = a.val + b.val := rfl
@[simp] theorem Jet1.add_eps (a b : Jet1 K) : (a + b).eps = a.eps + b.eps := rfl
@[simp] theorem Jet1.sub_val (a b : Jet1 K) : (a - b).val = a.val - b.val := rfl
@[simp] theorem Jet1.sub_eps (a b : Jet1 K) : (a - b).eps = a.eps - b.eps := rfl
@[simp] theorem Jet1.mul_val (a b : Jet1 K) : (a * b).val = a.val * b.val := rfl
@[simp] theorem Jet1.mul_eps (a b : Jet1 K) : (a * b).eps = a.val * b.eps + a.eps * b.val := rfl
@[simp] theorem Jet1.neg_val (a : Jet1 K) : (-a).val = -a.val := rfl
@[simp] theorem Jet1.neg_eps (a : Jet1 K) : (-a).eps = -a.eps := rfl
@[simp] theorem Jet1.zero_val : (0 : Jet1 K).val = 0 := rfl
@[simp] theorem Jet1.zero_eps : (0 : Jet1 K).eps = 0 := rfl

/-- jet of a scalar with given derivative -/
def jet (x xd : K) : Jet1 K := ⟨x, xd⟩
/-- jet of a vector with given derivative -/
def jetV (a d : V3 K) : V3 (Jet1 K) := ⟨⟨a.x, d.x⟩, ⟨a.y, d.y⟩, ⟨a.z, d.z⟩⟩
/-- a vector constant in time -/
def constV (a : V3 K) : V3 (Jet1 K) := ⟨⟨a.x, 0⟩, ⟨a.y, 0⟩, ⟨a.z, 0⟩⟩
/-- a matrix constant in time -/
def constM (R : M33 K) : M33 (Jet1 K) := ⟨constV R.r0, constV R.r1, constV R.r2⟩
def constX (X : Xf K) : Xf (Jet1 K) := ⟨constM X.R, constV X.p⟩
/-- `Ṙ = [w]× R` : rows of `[w]× R` -/
def rotDot (R : M33 K) (w : V3 K) : M33 K :=
  ⟨(V3.smul (-w.z) R.r1).add (V3.smul w.y R.r2),
   (V3.smul w.z R.r0).add (V3.smul (-w.x) R.r2),
   (V3.smul (-w.y) R.r0).add (V3.smul w.x R.r1)⟩
/-- jet of a rotation matrix turning with angular velocity `w` -/
def jetR (R : M33 K) (w : V3 K) : M33 (Jet1 K) :=
  let D := rotDot R w
  ⟨jetV R.r0 D.r0, jetV R.r1 D.r1, jetV R.r2 D.r2⟩
/-- jet of a pose moving rigidly with spatial velocity `V = (w, v)`: `Ṙ = [w]× R`, `ṗ = v` -/
def jetX (X : Xf K) (V : SV K) : Xf (Jet1 K) := ⟨jetR X.R V.w, jetV X.p V.v⟩
/-- jet of a spatial velocity with spatial acceleration `A = (b, a)`: `ẇ = b`, `v̇ = a` -/
def jetSV (V A : SV K) : SV (Jet1 K) := ⟨jetV V.w A.w, jetV V.v A.v⟩

/-- componentwise derivative part of a jet vector -/
def epsV (a : V3 (Jet1 K)) : V3 K := ⟨a.x.eps, a.y.eps, a.z.eps⟩
def valV (a : V3 (Jet1 K)) : V3 K := ⟨a.x.val, a.y.val, a.z.val⟩

/-- rows of `R` are orthonormal, i.e. `R * ~R = 1` (what a `Rotation` guarantees) -/
structure IsOrtho (R : M33 K) : Prop where
  h00 : V3.dot R.r0 R.r0 = 1
  h11 : V3.dot R.r1 R.r1 = 1
  h22 : V3.dot R.r2 R.r2 = 1
  h01 : V3.dot R.r0 R.r1 = 0
  h02 : V3.dot R.r0 R.r2 = 0
  h12 : V3.dot R.r1 R.r2 = 0

/-- `R * (~R * x) = x` for an orthogonal `R` -/
theorem mulVec_tmulVec {R : M33 K} (h : IsOrtho R) (x : V3 K) : R.mulVec (R.tmulVec x) = x := by
  obtain ⟨h00, h11, h22, h01, h02, h12⟩ := h
  obtain ⟨⟨a, b, c⟩, ⟨d, e, f⟩, ⟨g, i, j⟩⟩ := R
  obtain ⟨x, y, z⟩ := x
  simp only [V3.dot] at *
  simp only [M33.mulVec, M33.tmulVec, V3.dot, V3.mk.injEq]
  refine ⟨?_, ?_, ?_⟩
  · linear_combination x * h00 + y * h01 + z * h02
  · linear_combination x * h01 + y * h11 + z * h12
  · linear_combination x * h02 + y * h12 + z * h22

/-- the same cancellation for the *jet* of an orthogonal matrix turning with any angular velocity:
`d/dt (R ~R) = [w]× − [w]× = 0` -/
theorem jet_mulVec_tmulVec {R : M33 K} (h : IsOrtho R) (w : V3 K) (x : V3 (Jet1 K)) :
    (jetR R w).mulVec ((jetR R w).tmulVec x) = x := by
  obtain ⟨h00, h11, h22, h01, h02, h12⟩ := h
  obtain ⟨⟨a, b, c⟩, ⟨d, e, f⟩, ⟨g, i, j⟩⟩ := R
  obtain ⟨⟨x0, y0⟩, ⟨x1, y1⟩, ⟨x2, y2⟩⟩ := x
  simp only [V3.dot] at *
  have ext : ∀ (u v : Jet1 K), u.val = v.val → u.eps = v.eps → u = v := by
    intro u v h1 h2; cases u; cases v; simp_all
  simp only [jetR, rotDot, jetV, M33.mulVec, M33.tmulVec, V3.dot, V3.add, V3.smul, V3.mk.injEq]
  refine ⟨ext _ _ ?_ ?_, ext _ _ ?_ ?_, ext _ _ ?_ ?_⟩ <;>
    simp only [Jet1.add_val, Jet1.add_eps, Jet1.mul_val, Jet1.mul_eps]
  · linear_combination x0 * h00 + x1 * h01 + x2 * h02
  · linear_combination y0 * h00 + x0 * ((-w.z) * h01 + (-w.z) * h01 + (w.y) * h02 + (w.y) * h02) + y1 * h01 + x1 * ((w.z) * h00 + (-w.z) * h11 + (w.y) * h12 + (-w.x) * h02) + y2 * h02 + x2 * ((-w.y) * h00 + (-w.z) * h12 + (w.x) * h01 + (w.y) * h22)
  · linear_combination x0 * h01 + x1 * h11 + x2 * h12
  · linear_combination y0 * h01 + x0 * ((w.z) * h00 + (-w.z) * h11 + (-w.x) * h02 + (w.y) * h12) + y1 * h11 + x1 * ((w.z) * h01 + (w.z) * h01 + (-w.x) * h12 + (-w.x) * h12) + y2 * h12 + x2 * ((w.z) * h02 + (-w.y) * h01 + (w.x) * h11 + (-w.x) * h22)
  · linear_combination x0 * h02 + x1 * h12 + x2 * h22
  · linear_combination y0 * h02 + x0 * ((-w.y) * h00 + (w.x) * h01 + (-w.z) * h12 + (w.y) * h22) + y1 * h12 + x1 * ((-w.y) * h01 + (w.z) * h02 + (w.x) * h11 + (-w.x) * h22) + y2 * h22 + x2 * ((-w.y) * h02 + (-w.y) * h02 + (w.x) * h12 + (w.x) * h12)

theorem V3.add_cross_zero (a w : V3 K) : a.add (w.cross V3.zero) = a := by
  obtain ⟨a0, a1, a2⟩ := a
  simp only [V3.add, V3.cross, V3.zero, V3.mk.injEq]; refine ⟨?_, ?_, ?_⟩ <;> ring
theorem V3.sub_cross_zero (a w : V3 K) : a.sub (w.cross V3.zero) = a := by
  obtain ⟨a0, a1, a2⟩ := a
  simp only [V3.sub, V3.cross, V3.zero, V3.mk.injEq]; refine ⟨?_, ?_, ?_⟩ <;> ring
theorem V3.add_zero_cross (a b : V3 K) : a.add ((V3.zero : V3 K).cross b) = a := by
  obtain ⟨a0, a1, a2⟩ := a
  simp only [V3.add, V3.cross, V3.zero, V3.mk.injEq]; refine ⟨?_, ?_, ?_⟩ <;> ring

/-- the identity matrix is orthogonal (non-vacuity of `IsOrtho`) -/
theorem isOrtho_id : IsOrtho (⟨⟨1, 0, 0⟩, ⟨0, 1, 0⟩, ⟨0, 0, 1⟩⟩ : M33 K) := by
  constructor <;> simp [V3.dot]

/-- a rotation about z through a trig pair `(c, s)`, `c² + s² = 1`, is orthogonal -/
theorem isOrtho_rotZ (c s : K) (h : c * c + s * s = 1) : IsOrtho (⟨⟨c, -s, 0⟩, ⟨s, c, 0⟩, ⟨0, 0, 1⟩⟩ : M33 K) := by
  refine ⟨?_, ?_, ?_, ?_, ?_, ?_⟩ <;> simp only [V3.dot]
  · linear_combination h
  · linear_combination h
  · ring
  · ring
  · ring
  · ring
/-! ## definitional restatements for the mobility-level constraints (not counted as property obligations):
`perr = q − pos`, `pverr = qdot`, … are their own derivative hierarchy by inspection -/
namespace ConstantCoordinate
theorem pverr_is_derivative (pos : K) (x : Q3 K) : (perr (⟨pos, 0⟩ : Jet1 K) ⟨⟨x.q, x.qd⟩, ⟨x.qd, x.qdd⟩, ⟨x.qdd, 0⟩⟩).eps = pverr x := by
  simp [perr, pverr]
theorem paerr_is_derivative (x : Q3 K) : (pverr (⟨⟨x.q, x.qd⟩, ⟨x.qd, x.qdd⟩, ⟨x.qdd, 0⟩⟩ : Q3 (Jet1 K))).eps = paerr x := by
  simp [pverr, paerr]
theorem force_adjoint (x : Q3 K) (lam : K) : lam * pverr x = qforce lam * x.qd := by simp [pverr, qforce]
end ConstantCoordinate

namespace ConstantSpeed
theorem vaerr_is_derivative (speed u udot : K) : (verr (⟨speed, 0⟩ : Jet1 K) ⟨u, udot⟩).eps = vaerr udot := by
  simp [verr, vaerr]
theorem force_adjoint (u lam : K) : lam * (verr 0 u) = uforce lam * u := by simp [verr, uforce]
end ConstantSpeed

namespace ConstantAcceleration
/-- acceleration-only: the force is the transpose of `∂aerr/∂udot` -/
theorem force_adjoint (udot lam : K) : lam * (aerr 0 udot) = uforce lam * udot := by simp [aerr, uforce]
end ConstantAcceleration

namespace PrescribedMotion
/-- `f fd fdd fddd`: the user function of time and its derivatives (the contract of `Function::calcDerivative`) -/
theorem pverr_is_derivative (x : Q3 K) (f fd : K) :
    (perr (⟨⟨x.q, x.qd⟩, ⟨x.qd, x.qdd⟩, ⟨x.qdd, 0⟩⟩ : Q3 (Jet1 K)) ⟨f, fd⟩).eps = pverr x fd := by
  simp [perr, pverr]
theorem paerr_is_derivative (x : Q3 K) (fd fdd : K) :
    (pverr (⟨⟨x.q, x.qd⟩, ⟨x.qd, x.qdd⟩, ⟨x.qdd, 0⟩⟩ : Q3 (Jet1 K)) ⟨fd, fdd⟩).eps = paerr x fdd := by
  simp [pverr, paerr]
/-- adjoint for the part of `pverr` that is linear in `qdot` (the bias `−f'(t)` does no virtual work) -/
theorem force_adjoint (x : Q3 K) (fd lam : K) : lam * (pverr x fd - pverr ⟨x.q, 0, x.qdd⟩ fd) = qforce lam * x.qd := by
  simp [pverr, qforce]
end PrescribedMotion

/-! ### couplers, relative to the user Function's derivatives -/

theorem dotL_jet (g gd x xd : List K) (hl : g.length = gd.length) (hx : x.length = xd.length)
    (hgx : g.length = x.length) :
    (dotL (List.zipWith (fun a b => (⟨a, b⟩ : Jet1 K)) g gd) (List.zipWith (fun a b => (⟨a, b⟩ : Jet1 K)) x xd)).eps
      = dotL g xd + dotL gd x := by
  induction g generalizing gd x xd with
  | nil =>
    cases gd with
    | nil => simp [dotL]
    | cons b bs => simp at hl
  | cons a as ih =>
    cases gd with
    | nil => simp at hl
    | cons b bs =>
      cases x with
      | nil => simp at hgx
      | cons y ys =>
        cases xd with
        | nil => simp at hx
        | cons z zs =>
          simp only [List.zipWith_cons_cons, dotL, Jet1.add_eps, Jet1.mul_eps]
          rw [ih bs ys zs (by simpa using hl) (by simpa using hx) (by simpa using hgx)]
          ring


theorem dotL_smul (lam : K) (g x : List K) : dotL (g.map (fun gi => lam * gi)) x = lam * dotL g x := by
  induction g generalizing x with
  | nil => simp [dotL]
  | cons a as ih => cases x with
    | nil => simp [dotL]
    | cons y ys => simp only [List.map_cons, dotL, ih]; ring


end ConstraintEq
