import SimbodyProofs.C42_grow

/-! # C42 — `growTree`: the joint loop and the level loop keep the invariant -/
namespace C42

/-- loop invariant of the `for jNum` loop of `growTree` at level `level`, started in `s0` -/
structure GInv (g : Input) (level : Nat) (s0 : St) (st : GS) : Prop where
  inv : Inv g st.s
  m7 : M7 g st.s
  ext : Ext s0 st.s
  any : st.any = true → ∃ m ∈ st.s.mobs, m.level = level

theorem Ext.mem_mobs {s s' : St} (h : Ext s s') {m : Mob} (hm : m ∈ s.mobs) : m ∈ s'.mobs := by
  obtain ⟨e, he⟩ := h.mobs; rw [he]; exact List.mem_append_left _ hm

theorem growJoint_spec {g : Input} {level : Nat} {s0 : St} {st st' : GS} {j : Nat}
    (hG : GInv g level s0 st) (hj : j < st.s.joints.length) (h : growJoint g level st j = .ok st') :
    GInv g level s0 st' := by
  unfold growJoint at h
  cases hjm : st.s.jmob j with
  | some mi =>
    simp only [hjm] at h
    split at h
    · rename_i hcond
      simp only [Except.ok.injEq] at h
      subst h
      refine ⟨hG.inv, hG.m7, hG.ext, fun _ => ?_⟩
      have hidx := hG.inv.jmob_idx j mi hjm
      cases hget : st.s.mobs[mi]? with
      | none => simp [hget] at hidx
      | some mob =>
        refine ⟨mob, List.mem_of_getElem? hget, ?_⟩
        simp only [Bool.and_eq_true, beq_iff_eq] at hcond
        have := hcond.2
        simpa [List.getD, hget] using this
    · simp only [Except.ok.injEq] at h
      subst h; exact hG
  | none =>
    simp only [hjm] at h
    by_cases hnl : (jointAt st.s j).mustLoop = true
    · simp only [hnl, if_true, Except.ok.injEq] at h; subst h; exact hG
    simp only [hnl, Bool.false_eq_true, if_false] at h
    by_cases hxor : (inTree st.s (jointAt st.s j).parent == inTree st.s (jointAt st.s j).child) = true
    · simp only [hxor, if_true, Except.ok.injEq] at h; subst h; exact hG
    simp only [hxor, Bool.false_eq_true, if_false] at h
    by_cases hlev : (inbLevel st.s (jointAt st.s j) + 1 != level) = true
    · simp only [hlev, if_true, Except.ok.injEq] at h; subst h; exact hG
    simp only [hlev, Bool.false_eq_true, if_false] at h
    have hpre : Pre st.s j := ⟨hj, hjm, by simpa using hnl, by simpa using hxor⟩
    obtain ⟨m, l, hinb, houtb, hmlev, hmj, hends, heq⟩ := addMob_eq hpre
    have hI1 := addMob_inv hG.inv hpre
    have hE1 := addMob_ext hpre
    have hO1 : M7open g (addMob st.s j) := by rw [heq]; exact M7open_addMobWith_of_M7 j m hG.m7
    have hm_mem : m ∈ (addMob st.s j).mobs := by rw [heq]; simp [addMobWith]
    have hm_level : m.level = level := by
      simp only [bne_iff_ne, ne_eq, Decidable.not_not] at hlev
      unfold inbLevel at hlev
      rcases hends with ⟨_, hi, ho⟩ | ⟨_, hi, ho⟩
      · rw [hi] at hinb; simp only [hinb] at hlev; omega
      · rw [hi] at hinb; rw [ho] at houtb; simp only [houtb, hinb, Option.getD_some] at hlev; omega
    by_cases hstop : ((typeOf g (jointAt st.s j).type).nmob == 0 || decide (0 < massOf g (lastOutb (addMob st.s j)))) = true
    · simp only [hstop, if_true, Except.ok.injEq] at h
      subst h
      refine ⟨hI1, ?_, hG.ext.trans hE1, fun _ => ⟨m, hm_mem, hm_level⟩⟩
      apply M7_of_open hO1
      intro m1 hm1 _ hn
      have hm1m : m1 = m := by
        rw [heq] at hm1; simp [addMobWith] at hm1; exact hm1.symm
      subst hm1m
      have hlo : lastOutb (addMob st.s j) = m1.outb := by rw [heq]; exact lastOutb_addMobWith _ _ _
      rw [hlo] at hstop
      obtain ⟨hn1, hn2⟩ := hn
      rw [jointAt_congr hE1.joints, hmj] at hn2
      simp only [Bool.or_eq_true, beq_iff_eq, decide_eq_true_eq] at hstop
      omega
    · simp only [hstop, Bool.false_eq_true, if_false] at h
      cases hext : extend g ((addMob st.s j).nb + 1) (addMob st.s j) (j :: st.added) with
      | error e => simp [hext] at h
      | ok p =>
        obtain ⟨s2, added2⟩ := p
        simp only [hext, Except.ok.injEq] at h
        subst h
        obtain ⟨hI2, hE2, hM2⟩ := extend_spec _ _ _ _ _ hI1 hO1 hext
        exact ⟨hI2, hM2, (hG.ext.trans hE1).trans hE2, fun _ => ⟨m, hE2.mem_mobs hm_mem, hm_level⟩⟩

theorem growFold_spec {g : Input} {level : Nat} {s0 : St} {st st' : GS} (hG : GInv g level s0 st)
    (h : (List.range s0.joints.length).foldlM (growJoint g level) st = .ok st') : GInv g level s0 st' := by
  refine foldlM_inv (GInv g level s0) (growJoint g level) _ ?_ st st' hG h
  intro a x a' hx hGa hstep
  have hxl : x < a.s.joints.length := by
    rw [hGa.ext.joints]; exact List.mem_range.mp hx
  exact growJoint_spec hGa hxl hstep

theorem growLevels_spec {g : Input} : ∀ (fuel level : Nat) (s : St) (added : List Nat) (s' : St),
    Inv g s → M7 g s → growLevels g fuel level s added = .ok s' → Inv g s' ∧ M7 g s' ∧ Ext s s' := by
  intro fuel
  induction fuel with
  | zero => intro level s added s' _ _ h; simp [growLevels] at h
  | succ f ih =>
    intro level s added s' hI hM h
    unfold growLevels at h
    split at h
    · cases h
    · rename_i st hfold
      have hG : GInv g level s st :=
        growFold_spec (st := ⟨s, added, false⟩) ⟨hI, hM, Ext.refl s, by simp⟩ hfold
      split at h
      · obtain ⟨h1, h2, h3⟩ := ih (level + 1) st.s st.added s' hG.inv hG.m7 h
        exact ⟨h1, h2, hG.ext.trans h3⟩
      · simp only [Except.ok.injEq] at h
        subst h
        exact ⟨hG.inv, hG.m7, hG.ext⟩

theorem growTree_spec {g : Input} {s s' : St} (hI : Inv g s) (hM : M7 g s) (h : growTree g s = .ok s') :
    Inv g s' ∧ M7 g s' ∧ Ext s s' :=
  growLevels_spec _ _ _ _ _ hI hM h

end C42
