import SimbodyModel.C18
/-!
Helper lemmas for C18 (core Lean only): list helpers of the model (`mapI`, `modAt`, `popBack`, `bump`) and the
frame behaviour of the global maps (`mapCE`, `mapDV`, `notify`, `register`, `unregister`).
-/
namespace C18

/-! ### mapIFrom / mapI -/

theorem length_mapIFrom {α β : Type} (f : Nat → α → β) (n : Nat) (l : List α) :
    (mapIFrom f n l).length = l.length := by
  induction l generalizing n with
  | nil => rfl
  | cons x xs ih => simp [mapIFrom, ih]

@[simp] theorem length_mapI {α β : Type} (f : Nat → α → β) (l : List α) : (mapI f l).length = l.length :=
  length_mapIFrom f 0 l

theorem map_mapIFrom {α β γ : Type} (g : β → γ) (f : Nat → α → β) (n : Nat) (l : List α) :
    (mapIFrom f n l).map g = mapIFrom (fun i x => g (f i x)) n l := by
  induction l generalizing n with
  | nil => rfl
  | cons x xs ih => simp [mapIFrom, ih]

theorem map_mapI {α β γ : Type} (g : β → γ) (f : Nat → α → β) (l : List α) :
    (mapI f l).map g = mapI (fun i x => g (f i x)) l := map_mapIFrom g f 0 l

theorem mapIFrom_eq_map {α β : Type} (f : Nat → α → β) (h : α → β) (n : Nat) (l : List α)
    (hf : ∀ i x, f i x = h x) : mapIFrom f n l = l.map h := by
  induction l generalizing n with
  | nil => rfl
  | cons x xs ih => simp [mapIFrom, ih, hf]

theorem mapI_eq_map {α β : Type} (f : Nat → α → β) (h : α → β) (l : List α)
    (hf : ∀ i x, f i x = h x) : mapI f l = l.map h := mapIFrom_eq_map f h 0 l hf

/-- projecting through an indexed map whose function does not change the projection -/
theorem map_mapI_of_proj {α β : Type} (p : α → β) (f : Nat → α → α) (l : List α)
    (hf : ∀ i x, p (f i x) = p x) : (mapI f l).map p = l.map p := by
  rw [map_mapI]; exact mapI_eq_map _ p l hf

theorem mem_mapIFrom {α β : Type} {f : Nat → α → β} {n : Nat} {l : List α} {y : β}
    (h : y ∈ mapIFrom f n l) : ∃ i x, x ∈ l ∧ y = f i x := by
  induction l generalizing n with
  | nil => simp [mapIFrom] at h
  | cons a as ih =>
    simp only [mapIFrom, List.mem_cons] at h
    rcases h with h | h
    · exact ⟨n, a, by simp, h⟩
    · obtain ⟨i, x, hx, hy⟩ := ih h
      exact ⟨i, x, by simp [hx], hy⟩

theorem mem_mapI {α β : Type} {f : Nat → α → β} {l : List α} {y : β}
    (h : y ∈ mapI f l) : ∃ i x, x ∈ l ∧ y = f i x := mem_mapIFrom h

theorem getElem?_mapIFrom {α β : Type} (f : Nat → α → β) (n : Nat) (l : List α) (i : Nat) :
    (mapIFrom f n l)[i]? = (l[i]?).map (f (n + i)) := by
  induction l generalizing n i with
  | nil => simp [mapIFrom]
  | cons a as ih =>
    cases i with
    | zero => simp [mapIFrom]
    | succ j =>
      simp only [mapIFrom, List.getElem?_cons_succ, ih]
      congr 2; omega

theorem getElem?_mapI {α β : Type} (f : Nat → α → β) (l : List α) (i : Nat) :
    (mapI f l)[i]? = (l[i]?).map (f i) := by
  have := getElem?_mapIFrom f 0 l i
  simpa [mapI] using this

theorem forall_mem_mapI {α β : Type} {f : Nat → α → β} {l : List α} {P : β → Prop}
    (h : ∀ i x, x ∈ l → P (f i x)) : ∀ y ∈ mapI f l, P y := by
  intro y hy
  obtain ⟨i, x, hx, rfl⟩ := mem_mapI hy
  exact h i x hx

/-! ### modAt -/

@[simp] theorem length_modAt {α : Type} (l : List α) (i : Nat) (f : α → α) : (modAt l i f).length = l.length := by
  induction l generalizing i with
  | nil => rfl
  | cons x xs ih => cases i <;> simp [modAt, ih]

theorem mem_modAt {α : Type} {l : List α} {i : Nat} {f : α → α} {y : α}
    (h : y ∈ modAt l i f) : y ∈ l ∨ ∃ x, l[i]? = some x ∧ y = f x := by
  induction l generalizing i with
  | nil => simp [modAt] at h
  | cons a as ih =>
    cases i with
    | zero =>
      simp only [modAt, List.mem_cons] at h
      rcases h with h | h
      · right; exact ⟨a, by simp, h⟩
      · left; simp [h]
    | succ j =>
      simp only [modAt, List.mem_cons] at h
      rcases h with h | h
      · left; simp [h]
      · rcases ih h with h' | ⟨x, hx, hy⟩
        · left; simp [h']
        · right; exact ⟨x, by simpa using hx, hy⟩

theorem getElem?_modAt {α : Type} (l : List α) (i j : Nat) (f : α → α) :
    (modAt l i f)[j]? = if j = i then (l[j]?).map f else l[j]? := by
  induction l generalizing i j with
  | nil => simp [modAt]
  | cons a as ih =>
    cases i with
    | zero => cases j <;> simp [modAt]
    | succ i' =>
      cases j with
      | zero => simp [modAt]
      | succ j' => simp [modAt, ih]

theorem map_modAt_of_proj {α β : Type} (p : α → β) (l : List α) (i : Nat) (f : α → α)
    (hf : ∀ x, p (f x) = p x) : (modAt l i f).map p = l.map p := by
  induction l generalizing i with
  | nil => rfl
  | cons a as ih => cases i <;> simp [modAt, ih, hf]

theorem forall_mem_modAt {α : Type} {l : List α} {i : Nat} {f : α → α} {P : α → Prop}
    (hl : ∀ x ∈ l, P x) (hf : ∀ x ∈ l, P (f x)) : ∀ y ∈ modAt l i f, P y := by
  intro y hy
  rcases mem_modAt hy with h | ⟨x, hx, rfl⟩
  · exact hl y h
  · exact hf x (List.mem_of_getElem? hx)

/-! ### popBack -/

theorem popBack_eq_filter {α : Type} (alloc : α → Nat) (g : Nat) (l : List α)
    (hs : (l.map alloc).Pairwise (· ≤ ·)) :
    popBack alloc g l = l.filter (fun x => alloc x ≤ g) := by
  induction l with
  | nil => rfl
  | cons a as ih =>
    simp only [List.map_cons, List.pairwise_cons] at hs
    have ih' := ih hs.2
    simp only [popBack]
    rw [ih']
    by_cases ha : alloc a ≤ g
    · simp only [List.filter_cons, ha, decide_true, if_true]
      cases h : as.filter (fun x => decide (alloc x ≤ g)) with
      | nil => simp [Nat.not_lt.mpr ha]
      | cons r rs => rfl
    · have hall : as.filter (fun x => decide (alloc x ≤ g)) = [] := by
        rw [List.filter_eq_nil_iff]
        intro x hx
        have := hs.1 (alloc x) (List.mem_map_of_mem hx)
        simp; omega
      simp only [List.filter_cons, ha, decide_false, hall]
      simp [Nat.lt_of_not_le ha]

theorem popBack_sublist {α : Type} (alloc : α → Nat) (g : Nat) (l : List α) :
    ∀ x ∈ popBack alloc g l, x ∈ l := by
  induction l with
  | nil => simp [popBack]
  | cons a as ih =>
    intro x hx
    simp only [popBack] at hx
    split at hx
    · split at hx
      · simp at hx
      · simp at hx; simp [hx]
    · rename_i r rs heq
      simp only [List.mem_cons] at hx
      rcases hx with rfl | hx
      · simp
      · have : x ∈ popBack alloc g as := by rw [heq]; simpa using hx
        simp [ih x this]

/-- `popBack` keeps a prefix -/
theorem popBack_prefix {α : Type} (alloc : α → Nat) (g : Nat) (l : List α) :
    ∃ r, l = popBack alloc g l ++ r := by
  induction l with
  | nil => exact ⟨[], rfl⟩
  | cons a as ih =>
    obtain ⟨r, hr⟩ := ih
    simp only [popBack]
    split
    · split
      · exact ⟨a :: as, rfl⟩
      · exact ⟨as, rfl⟩
    · rename_i x xs heq
      refine ⟨r, ?_⟩
      rw [heq] at hr
      simp [← hr]

theorem popBack_length_le {α : Type} (alloc : α → Nat) (g : Nat) (l : List α) :
    (popBack alloc g l).length ≤ l.length := by
  obtain ⟨r, hr⟩ := popBack_prefix alloc g l
  have := congrArg List.length hr
  simp at this; omega

theorem popBack_all_le {α : Type} (alloc : α → Nat) (g : Nat) (l : List α)
    (hs : (l.map alloc).Pairwise (· ≤ ·)) : ∀ x ∈ popBack alloc g l, alloc x ≤ g := by
  rw [popBack_eq_filter alloc g l hs]
  intro x hx
  simpa using (List.mem_filter.mp hx).2

theorem pairwise_map_prefix {α : Type} (alloc : α → Nat) (l r : List α)
    (hs : ((l ++ r).map alloc).Pairwise (· ≤ ·)) : (l.map alloc).Pairwise (· ≤ ·) := by
  simp only [List.map_append] at hs
  exact (List.pairwise_append.mp hs).1

theorem popBack_sorted {α : Type} (alloc : α → Nat) (g : Nat) (l : List α)
    (hs : (l.map alloc).Pairwise (· ≤ ·)) : ((popBack alloc g l).map alloc).Pairwise (· ≤ ·) := by
  obtain ⟨r, hr⟩ := popBack_prefix alloc g l
  rw [hr] at hs
  exact pairwise_map_prefix alloc _ r hs

/-! ### bump -/

@[simp] theorem length_bump (vs : List Nat) (lo hi : Nat) : (bump vs lo hi).length = vs.length := by
  simp [bump]

theorem getD_mapI_nat (f : Nat → Nat → Nat) (vs : List Nat) (i : Nat) (hi : i < vs.length) :
    (mapI f vs).getD i 0 = f i (vs.getD i 0) := by
  simp only [List.getD_eq_getElem?_getD, getElem?_mapI]
  have : vs[i]? = some vs[i] := List.getElem?_eq_getElem hi
  simp [this]

theorem getD_bump (vs : List Nat) (lo hi i : Nat) (h : i < vs.length) :
    (bump vs lo hi).getD i 0 = if lo ≤ i ∧ i ≤ hi then vs.getD i 0 + 1 else vs.getD i 0 := by
  unfold bump
  rw [getD_mapI_nat _ vs i h]

theorem bump_pos (vs : List Nat) (lo hi : Nat) (h : ∀ v ∈ vs, 1 ≤ v) : ∀ v ∈ bump vs lo hi, 1 ≤ v := by
  unfold bump
  apply forall_mem_mapI
  intro i x hx
  have := h x hx
  split <;> omega

theorem getD_bump_ge (vs : List Nat) (lo hi i : Nat) : vs.getD i 0 ≤ (bump vs lo hi).getD i 0 := by
  by_cases h : i < vs.length
  · rw [getD_bump vs lo hi i h]; split <;> omega
  · have h1 : vs.getD i 0 = 0 := by
      simp [List.getD_eq_getElem?_getD, List.getElem?_eq_none (Nat.le_of_not_lt h)]
    omega

end C18
