import SimbodyProofs.C19_lemmas
import SimbodyProofs.C22
import Mathlib.Algebra.Order.Ring.Unbundled.Rat
/-!
# C19 — property theorems: the step / report / final-time contract

All theorems are about `C19.stepTo` (SimbodyModel/C19.lean, the model of `AbstractIntegratorRep::stepTo`)
over an ARBITRARY linearly ordered time type `T`, for EVERY request sequence (`Op` list: `stepTo` requests and
`reinitialize` calls) that is legal (`LegalRun`) and EVERY oracle (`takeOneStep` behaviour) — an oracle answer
that violates `ansOK` ends the run with `Outcome.badOracle`, so every *returned* state is covered.

`trace` lists the normal returns of a session; each theorem says that a predicate holds for every entry of the
trace of every legal session started in a state satisfying the invariant `Inv` (e.g. `init t0`, `inv_init`).
-/
namespace C19
variable {T : Type} [LinearOrder T]

/-- one caller action -/
inductive Op (T : Type) where
  | step (report sched : T) (orc : List (Ans T))
  | reinit (lowered terminate : Bool)

/-- one normal return of `stepTo` -/
structure Entry (T : Type) where
  before : St T
  report : T
  sched  : T
  st     : Status
  after  : St T

/-- run a session, collecting the normal returns (a run ends at `starved` / `badOracle`) -/
def trace (o : Opts T) : St T → List (Op T) → List (Entry T)
  | _, [] => []
  | s, .reinit l t :: ops => trace o (reinit l t s) ops
  | s, .step r sc orc :: ops =>
    match stepTo o r sc orc s with
    | .ret st s' _ => ⟨s, r, sc, st, s'⟩ :: trace o s' ops
    | .refused s' => trace o s' ops
    | _ => []

/-- the caller keeps its side of the contract along the whole session -/
def LegalRun (o : Opts T) : St T → List (Op T) → Prop
  | _, [] => True
  | s, .reinit l t :: ops => reinitOK s = true ∧ LegalRun o (reinit l t s) ops
  | s, .step r sc orc :: ops =>
    Legal r sc s ∧
    match stepTo o r sc orc s with
    | .ret _ s' _ => LegalRun o s' ops
    | .refused s' => LegalRun o s' ops
    | _ => True

theorem loop_refused {o : Opts T} {report sched : T} :
    ∀ (orc : List (Ans T)) (taken : Nat) (s s' : St T),
      loop o report sched orc taken s = .refused s' → s.scs = .finalReturned ∧ s' = { s with tPrev := s.tAdv } := by
  intro orc
  induction orc with
  | nil =>
    intro taken s s' e
    unfold loop at e
    split at e
    · rename_i hp; injection e with e1; subst e1; exact phase_refuse hp
    · cases e
    · split at e
      · cases e
      · split at e <;> cases e
  | cons a rest ih =>
    intro taken s s' e
    unfold loop at e
    split at e
    · rename_i hp; injection e with e1; subst e1; exact phase_refuse hp
    · cases e
    · split at e
      · cases e
      · split at e
        · cases e
        · split at e
          · rename_i hx; cases hx
          · rename_i a' r' hx
            injection hx with hx1 hx2; subst hx1; subst hx2
            split at e
            · have := (ih _ _ _ e).1
              unfold applyStep at this
              split at this <;> cases this
            · cases e

theorem stepTo_refused_inv {o : Opts T} {report sched : T} {orc : List (Ans T)} {s s' : St T}
    (hi : Inv o s) (e : stepTo o report sched orc s = .refused s') : Inv o s' ∧ s'.time = s.time := by
  unfold stepTo at e
  split at e
  · cases e
  · obtain ⟨hf, rfl⟩ := loop_refused _ _ _ _ e
    obtain ⟨i1, i2, i3, i4, i5, i6, i7, i8⟩ := hi
    refine ⟨⟨?_, ?_, ?_, ?_, ?_, ?_, ?_, ?_⟩, ?_⟩ <;> simp_all [St.time]

/-- generic session lemma: whatever every single legal call guarantees holds along every legal session -/
theorem session_all {o : Opts T} (P : Entry T → Prop)
    (hP : ∀ (s : St T) report sched orc st s' rest, Inv o s → Legal report sched s →
      stepTo o report sched orc s = .ret st s' rest → P ⟨s, report, sched, st, s'⟩) :
    ∀ (ops : List (Op T)) (s : St T), Inv o s → LegalRun o s ops → ∀ e ∈ trace o s ops, P e := by
  intro ops
  induction ops with
  | nil => intro s _ _ e he; simp [trace] at he
  | cons op ops ih =>
    intro s hi hl e he
    cases op with
    | reinit l t =>
      simp only [trace] at he
      simp only [LegalRun] at hl
      exact ih _ (inv_reinit l t hi hl.1) hl.2 e he
    | step r sc orc =>
      simp only [trace] at he
      simp only [LegalRun] at hl
      obtain ⟨hleg, hrest⟩ := hl
      cases hst : stepTo o r sc orc s with
      | ret st s' rest =>
        rw [hst] at he hrest
        simp only [List.mem_cons] at he
        rcases he with he | he
        · subst he; exact hP _ _ _ _ _ _ _ hi hleg hst
        · exact ih _ (stepTo_post hi hleg hst).inv hrest e he
      | refused s' =>
        rw [hst] at he hrest
        exact ih _ (stepTo_refused_inv hi hst).1 hrest e he
      | starved s' => rw [hst] at he; simp at he
      | badOracle s' => rw [hst] at he; simp at he

section Properties
variable {o : Opts T} {s0 : St T} {ops : List (Op T)}

/-- every returned state lies no later than the earliest of the pending report, scheduled-event and final times -/
theorem returned_time_le_pending (hi : Inv o s0) (hl : LegalRun o s0 ops) :
    ∀ e ∈ trace o s0 ops, e.after.time ≤ min e.report (min e.sched o.finalTime) :=
  session_all _ (fun _ _ _ _ _ _ _ hi hl h => by
    have p := stepTo_post hi hl h
    exact le_min p.le_report (le_min p.le_sched p.le_final)) ops s0 hi hl

/-- within one call time does not decrease (`getTime()` before ≤ `getTime()` after) and the advanced time does
not decrease; `time_monotone_session` chains this over the whole session -/
theorem time_monotone (hi : Inv o s0) (hl : LegalRun o s0 ops) :
    ∀ e ∈ trace o s0 ops, e.before.time ≤ e.after.time ∧ e.before.tAdv ≤ e.after.tAdv
      ∧ e.after.time ≤ e.after.tAdv :=
  session_all _ (fun _ _ _ _ _ _ _ hi hl h => by
    have p := stepTo_post hi hl h
    exact ⟨p.mono, p.adv_mono, p.time_le_adv⟩) ops s0 hi hl

/-- the advanced state never passes the final time, and never MOVES past the scheduled-event time of the call: after the
call it is at or before the scheduled time, or it did not move (the caller scheduled a time behind a state the integrator
had already advanced to — `TimeStepper::stepTo(t)` with `t` below the advanced time does that, legally) -/
theorem advanced_never_passes_sched_or_final (hi : Inv o s0) (hl : LegalRun o s0 ops) :
    ∀ e ∈ trace o s0 ops, (e.after.tAdv ≤ e.sched ∨ e.after.tAdv = e.before.tAdv) ∧ e.after.tAdv ≤ o.finalTime :=
  session_all _ (fun _ _ _ _ _ _ _ hi hl h => by
    have p := stepTo_post hi hl h
    exact ⟨p.adv_sched, p.adv_final⟩) ops s0 hi hl

/-- a report stop returns exactly at the report time (or at the final time when that comes first: the
"`t_adv >= t_final` -> Final" row of the table in IntegratorRep.h returns `ReachedReportTime`), a
scheduled-event stop exactly at the scheduled time with the advanced state there too, EndOfSimulation
exactly at the final time -/
theorem stop_is_exact (hi : Inv o s0) (hl : LegalRun o s0 ops) :
    ∀ e ∈ trace o s0 ops,
      (e.st = .reachedReportTime → e.after.time = min e.report o.finalTime) ∧
      (e.st = .reachedScheduledEvent → e.after.time = e.sched ∧ e.after.tAdv = e.sched) ∧
      (e.st = .endOfSimulation → e.after.time = o.finalTime) :=
  session_all _ (fun _ _ _ _ _ _ _ hi hl h => by
    have p := stepTo_post hi hl h
    exact ⟨p.report_exact, p.sched_exact, fun q => (p.eos q).1⟩) ops s0 hi hl

/-- EndOfSimulation is returned at the final time, leaves `isSimulationOver()` true, and from then on every
`stepTo` — any request, any oracle — is refused and the integrator stays over … -/
theorem eos_once_then_refused (hi : Inv o s0) (hl : LegalRun o s0 ops) :
    ∀ e ∈ trace o s0 ops, e.st = .endOfSimulation →
      e.after.time = o.finalTime ∧ e.after.over = true ∧
      ∀ report sched orc, ∃ s', stepTo o report sched orc e.after = .refused s' ∧ s'.over = true
        ∧ s'.startCI = false ∧ s'.time = e.after.time :=
  session_all _ (fun _ _ _ _ _ _ _ hi hl h => by
    intro q
    have p := (stepTo_post hi hl h).eos q
    refine ⟨p.1, by simp [St.over, p.2.1], ?_⟩
    intro report sched orc
    refine ⟨_, stepTo_refused report sched orc p.2.1 p.2.2.1, ?_, ?_, ?_⟩ <;> simp [St.over, St.time, p.2.1, p.2.2.1]) ops s0 hi hl

/-- … so EndOfSimulation is returned at most once in any session in which no handler restarts a continuous
interval (`reinitialize` with a lowered stage) — cf. notes/C19.md for what the code does in that case. -/
theorem eos_at_most_once (hi : Inv o s0) (hl : LegalRun o s0 ops)
    (hno : ∀ op ∈ ops, ∀ t, op ≠ Op.reinit true t) :
    ((trace o s0 ops).filter (fun e => decide (e.st = .endOfSimulation))).length ≤ 1 := by
  -- from a final state (no pending StartOfContinuousInterval) the trace is empty
  have hdead : ∀ (ops : List (Op T)) (s : St T), s.scs = .finalReturned → s.startCI = false →
      (∀ op ∈ ops, ∀ t, op ≠ Op.reinit true t) → trace o s ops = [] := by
    intro ops
    induction ops with
    | nil => intros; rfl
    | cons op ops ih =>
      intro s hf hc hno
      have hno' : ∀ op' ∈ ops, ∀ t, op' ≠ Op.reinit true t := fun op' h => hno op' (List.mem_cons_of_mem _ h)
      cases op with
      | reinit l t =>
        simp only [trace]
        cases l with
        | true => exact absurd rfl (hno _ (List.mem_cons_self) t)
        | false =>
          apply ih _ _ _ hno' <;> (unfold reinit; cases t <;> simp [hf, hc])
      | step r sc orc =>
        simp only [trace]
        rw [stepTo_refused r sc orc hf hc]
        exact ih _ hf hc hno'
  revert s0
  induction ops with
  | nil => intro s0 _ _; simp [trace]
  | cons op ops ih =>
    intro s0 hi hl
    have hno' : ∀ op' ∈ ops, ∀ t, op' ≠ Op.reinit true t := fun op' h => hno op' (List.mem_cons_of_mem _ h)
    cases op with
    | reinit l t =>
      simp only [trace]; simp only [LegalRun] at hl
      exact ih hno' (inv_reinit l t hi hl.1) hl.2
    | step r sc orc =>
      simp only [trace]; simp only [LegalRun] at hl
      obtain ⟨hleg, hrest⟩ := hl
      cases hst : stepTo o r sc orc s0 with
      | ret st s' rest =>
        rw [hst] at hrest
        have p := stepTo_post hi hleg hst
        by_cases q : st = .endOfSimulation
        · have pe := p.eos q
          simp [hdead ops s' pe.2.1 pe.2.2.1 hno', q]
        · simp only [List.filter_cons, q, decide_false]
          exact ih hno' p.inv hrest
      | refused s' =>
        rw [hst] at hrest
        exact ih hno' (stepTo_refused_inv hi hst).1 hrest
      | starved s' => simp
      | badOracle s' => simp

/-- at a ReachedEventTrigger return the state handed out is the before-state at `tLow`, the advanced state
sits at `tHigh`, and neither the scheduled time of the call (unless the caller placed it behind the advanced state), nor the final time, nor the report time that was
pending when the internal step was taken (`tRep`) lies strictly inside the window -/
theorem no_time_inside_event_window (hi : Inv o s0) (hl : LegalRun o s0 ops) :
    ∀ e ∈ trace o s0 ops, e.st = .reachedEventTrigger →
      e.after.time = e.after.tLow ∧ e.after.tAdv = e.after.tHigh ∧ e.after.tLow < e.after.tHigh ∧
      (e.after.tAdv ≤ e.sched → ¬ (e.after.tLow < e.sched ∧ e.sched < e.after.tHigh)) ∧
      ¬ (e.after.tLow < o.finalTime ∧ o.finalTime < e.after.tHigh) ∧
      ¬ (e.after.tLow < e.after.tRep ∧ e.after.tRep < e.after.tHigh) :=
  session_all _ (fun _ _ _ _ _ _ _ hi hl h => by
    intro q
    obtain ⟨_, p2, p3, p4, p5, p6, p7⟩ := (stepTo_post hi hl h).trigger q
    exact ⟨p2, p3, p4, p5, p6, p7⟩) ops s0 hi hl

/-- … and `tRep` IS the report time of the call whenever the call itself took the internal step that
localised the event (it consumed oracle answers).  When the event is only reported by a LATER call, that
call's report time may lie inside the window: see `report_inside_window_possible`. -/
theorem window_excludes_report_of_stepping_call {report sched : T} {orc rest : List (Ans T)} {s s' : St T}
    {st : Status} (hi : Inv o s) (hl : Legal report sched s)
    (h : stepTo o report sched orc s = .ret st s' rest) (hq : st = .reachedEventTrigger) (hne : rest ≠ orc) :
    ¬ (s'.tLow < report ∧ report < s'.tHigh) := by
  have p := (stepTo_post hi hl h).trigger hq
  have ht : s'.tRep = report := by
    unfold stepTo at h
    split at h
    · injection h with h1 h2 h3; exact absurd h3.symm hne
    · rcases loop_tRep _ _ _ h with ⟨q, _⟩ | q
      · exact absurd q hne
      · exact q
  rw [← ht]; exact p.2.2.2.2.2.2

/-- every interpolation request made by `stepTo` lies inside the last internal step
(`interpolateOrder3` asserts `t0 <= t <= t1`), and a handed-out state is never later than the advanced one -/
theorem interpolation_inside_last_step (hi : Inv o s0) (hl : LegalRun o s0 ops) :
    ∀ e ∈ trace o s0 ops, e.after.useInterp = true →
      e.after.tPrev ≤ e.after.tInterp ∧ e.after.tInterp ≤ e.after.tAdv :=
  session_all _ (fun _ _ _ _ st _ _ hi hl h => by
    intro q
    have p := stepTo_post hi hl h
    by_cases hf : st = Status.endOfSimulation
    · have := (p.eos hf).2.2.2
      rw [this] at q; cases q
    · exact p.inv.interp (p.alive hf) q) ops s0 hi hl


/-- `reinitialize` (issued as `TimeStepper` does, after an event-type return) never moves time backwards -/
theorem reinit_time_mono {s : St T} (l t : Bool) (hi : Inv o s) :
    s.time ≤ (reinit l t s).time := by
  have h8 := hi.interp_hi
  unfold reinit St.time
  cases l <;> cases t <;> simp <;> split <;> simp_all

/-- along a whole legal session — `stepTo` calls, refusals and `reinitialize` calls interleaved — the times
handed out by successive returns never decrease, and none is earlier than the time at the start -/
theorem time_monotone_session :
    ∀ (ops : List (Op T)) (s0 : St T), Inv o s0 → LegalRun o s0 ops →
      (∀ e ∈ trace o s0 ops, s0.time ≤ e.after.time) ∧
      List.Pairwise (fun a b : Entry T => a.after.time ≤ b.after.time) (trace o s0 ops) := by
  intro ops
  induction ops with
  | nil => intro s0 _ _; simp [trace]
  | cons op ops ih =>
    intro s0 hi hl
    cases op with
    | reinit l t =>
      simp only [trace]; simp only [LegalRun] at hl
      obtain ⟨h1, h2⟩ := ih _ (inv_reinit l t hi hl.1) hl.2
      exact ⟨fun e he => le_trans (reinit_time_mono l t hi) (h1 e he), h2⟩
    | step r sc orc =>
      simp only [trace]; simp only [LegalRun] at hl
      obtain ⟨hleg, hrest⟩ := hl
      cases hst : stepTo o r sc orc s0 with
      | ret st s' rest =>
        rw [hst] at hrest
        have p := stepTo_post hi hleg hst
        obtain ⟨h1, h2⟩ := ih _ p.inv hrest
        refine ⟨?_, ?_⟩
        · intro e he
          simp only [List.mem_cons] at he
          rcases he with he | he
          · subst he; exact p.mono
          · exact le_trans p.mono (h1 e he)
        · exact List.Pairwise.cons (fun e he => h1 e he) h2
      | refused s' =>
        rw [hst] at hrest
        obtain ⟨q1, q2⟩ := stepTo_refused_inv hi hst
        obtain ⟨h1, h2⟩ := ih _ q1 hrest
        exact ⟨fun e he => by rw [← q2]; exact h1 e he, h2⟩
      | starved s' => simp
      | badOracle s' => simp

end Properties

/-! ## The oracle contract is what the code of `takeOneStep` guarantees (link to the C22 model of that code) -/
section OracleContract
variable {K : Type} [Field K] [LinearOrder K] [IsStrictOrderedRing K]

/-- **ansOK_of_takeOneStep** (no event): the trial end time chosen by the 0.95 / 1.001 rule of `takeOneStep`
(`C22.chooseT1`, literals re-extracted from the source: `C22.gen_literals_field`) satisfies the oracle contract assumed
by all theorems above, whenever the machine calls `takeOneStep` (`tAdv < tMax`, shown in `phase_adv`) with a positive
step size. -/
theorem ansOK_of_takeOneStep (o : Opts K) (report sched c095 c1001 h x : K) (s : St K)
    (hh : 0 < h) (hc : 1 ≤ c1001) (hm : s.tAdv < tMaxOf o report sched) :
    ansOK o report sched s ⟨C22.chooseT1 c095 c1001 s.tAdv h (tMaxOf o report sched), false, x⟩ = true := by
  obtain ⟨h1, h2⟩ := C22.chooseT1_contract c095 c1001 s.tAdv h (tMaxOf o report sched) hh hm
  simp [ansOK, h1, h2 hc]

/-- **ansOK_of_takeOneStep** (event): if the event part of `takeOneStep` (`C22.localize`, any trigger functions)
reports a window for that trial step, then `(tHigh, event, tLow)` satisfies the oracle contract: window inside the step,
`tHigh ≤ tMax`, report time not strictly inside — so `advanced_never_passes_sched_or_final` and the window clauses follow
from the modelled code, not from an assumption. -/
theorem ansOK_of_takeOneStep_event (o : Opts K) (report sched c095 c1001 h : K) (s : St K)
    (tenth inf accTs mw : K) (infos : Nat → C22.TrigInfo K) (eval : K → Nat → K) (n fuel : Nat) (r : C22.LocResult K)
    (hh : 0 < h) (hc : 1 ≤ c1001) (hm : s.tAdv < tMaxOf o report sched)
    (hmw : 0 < mw) (ht : 0 < tenth) (ht2 : 2 * tenth ≤ 1)
    (hinf : C22.chooseT1 c095 c1001 s.tAdv h (tMaxOf o report sched) ≤ inf)
    (hinf2 : C22.chooseT1 c095 c1001 s.tAdv h (tMaxOf o report sched) - s.tAdv ≤ inf)
    (e : C22.localize tenth inf accTs infos eval n s.tAdv
          (C22.chooseT1 c095 c1001 s.tAdv h (tMaxOf o report sched)) report mw fuel = .event r) :
    ansOK o report sched s ⟨r.tHigh, true, r.tLow⟩ = true := by
  obtain ⟨h1, h2⟩ := C22.chooseT1_contract c095 c1001 s.tAdv h (tMaxOf o report sched) hh hm
  obtain ⟨l1, l2, l3, _, _, l6, _⟩ :=
    C22.localize_spec tenth inf accTs infos mw eval report n s.tAdv _ fuel r h1 hmw ht ht2 hinf hinf2 e
  have ha : s.tAdv < r.tHigh := lt_of_le_of_lt l1 l2
  have hb : r.tHigh ≤ tMaxOf o report sched := le_trans l3 (h2 hc)
  have hc' : ¬ (r.tLow < report ∧ report < r.tHigh) := l6
  simp only [ansOK, Bool.and_eq_true, Bool.or_eq_true, decide_eq_true_eq, Bool.not_eq_true', Bool.and_eq_false_iff,
    decide_eq_false_iff_not]
  refine ⟨⟨ha, hb⟩, Or.inr ⟨⟨l1, l2⟩, ?_⟩⟩
  by_cases q : r.tLow < report
  · right; exact fun q2 => hc' ⟨q, q2⟩
  · left; exact q

end OracleContract

/-! ## Transfer to the executable instantiation and non-vacuity -/

/-- the driver runs the model at `T := Rat` with core Lean's order instances; Mathlib's `LinearOrder ℚ`
(under which the theorems above apply) is built from exactly those, so it is the same function -/
example (o : Opts Rat) (r sc : Rat) (orc : List (Ans Rat)) (s : St Rat) :
    @stepTo Rat Rat.instLT Rat.instLE inferInstance inferInstance inferInstance o r sc orc s
      = stepTo o r sc orc s := rfl

/-- a concrete legal session over `ℕ` (final time 10): start, an interpolated report inside a step, the exact
report at the end of the step, an internal step ending in an event that is first hidden behind a report and
then revealed, a scheduled event, the final time, EndOfSimulation, and the refusal afterwards -/
def demoOpts : Opts Nat := { finalTime := 10, returnEvery := false, stepLimit := 0, noInterp := false }
def demoOps : List (Op Nat) :=
  [ .step 2 100 [],                       -- StartOfContinuousInterval
    .step 2 100 [⟨3, false, 0⟩],          -- ReachedReportTime, interpolated at 2 (advanced 3)
    .step 3 100 [],                       -- ReachedReportTime exactly at 3
    .step 4 100 [⟨7, true, 5⟩],           -- event window (5,7]; report 4 <= tLow is served first
    .step 6 100 [],                       -- ReachedEventTrigger at tLow = 5   (report 6 lies inside (5,7) !)
    .reinit true false,
    .step 9 8 [],                         -- StartOfContinuousInterval at 7
    .step 9 8 [⟨8, false, 0⟩],            -- ReachedScheduledEvent at 8
    .step 20 100 [⟨10, false, 0⟩],        -- ReachedReportTime at the final time 10 (report 20 is beyond it)
    .step 20 100 [],                      -- EndOfSimulation
    .step 20 100 [] ]                     -- refused

example : (trace demoOpts (init 0) demoOps).map (fun e => (e.st.code, e.after.time, e.after.tAdv)) =
    [(7, 0, 0), (1, 2, 3), (1, 3, 3), (1, 4, 7), (2, 5, 7), (7, 7, 7), (3, 8, 8), (1, 10, 10), (6, 10, 10)] := by
  decide +kernel

/-- executable mirror of `LegalRun` (for the non-vacuity examples) -/
def legalRunB (o : Opts T) : St T → List (Op T) → Bool
  | _, [] => true
  | s, .reinit l t :: ops => reinitOK s && legalRunB o (reinit l t s) ops
  | s, .step r sc orc :: ops =>
    legalReq r sc s &&
    match stepTo o r sc orc s with
    | .ret _ s' _ => legalRunB o s' ops
    | .refused s' => legalRunB o s' ops
    | _ => true

theorem legalRunB_sound (o : Opts T) : ∀ (ops : List (Op T)) (s : St T), legalRunB o s ops = true → LegalRun o s ops := by
  intro ops
  induction ops with
  | nil => intro s _; trivial
  | cons op ops ih =>
    intro s h
    cases op with
    | reinit l t =>
      simp only [legalRunB, Bool.and_eq_true] at h
      exact ⟨h.1, ih _ h.2⟩
    | step r sc orc =>
      simp only [legalRunB, Bool.and_eq_true] at h
      obtain ⟨h1, h2⟩ := h
      simp only [legalReq, Bool.and_eq_true, Bool.or_eq_true, decide_eq_true_eq] at h1
      refine ⟨⟨h1.1.1, h1.1.2, h1.2⟩, ?_⟩
      cases hst : stepTo o r sc orc s with
      | ret st s' rest => rw [hst] at h2; exact ih _ h2
      | refused s' => rw [hst] at h2; exact ih _ h2
      | starved s' => trivial
      | badOracle s' => trivial

example : LegalRun demoOpts (init 0) demoOps := legalRunB_sound _ _ _ (by decide +kernel)
example : Inv demoOpts (init 0) := inv_init (by decide)

/-- The clause "no report time ever lies strictly inside a reported event window" holds only for the report
time that was pending when the internal step was taken.  A LEGAL later request (`report ≥ getTime()`) can
place its report time strictly inside the window the integrator then reports — both in the model and in the
implementation (harness key `*.stepTo.report_in_window`; see notes/C19.md). -/
theorem report_inside_window_possible :
    ∃ e ∈ trace demoOpts (init 0) demoOps, e.st = .reachedEventTrigger ∧
      e.after.tLow < e.report ∧ e.report < e.after.tHigh := by
  decide +kernel

end C19
