import SimbodyModel.C31
import Mathlib.Tactic.NormNum
import Mathlib.Tactic.Linarith
import Mathlib.Tactic.IntervalCases
import Mathlib.Algebra.Order.Field.Basic

/-! Helper lemmas for `SimbodyProofs/C31.lean` (kept apart from the property statements). -/
namespace C31
open C31.Gen

/-! ### sizes -/

theorem setW_size (st : Array UInt32) (i : Nat) (w : W128) : (setW st i w).size = st.size := by
  simp [setW]

theorem genRandAllStep_size (acc : Array UInt32 × W128 × W128) (i : Nat) :
    (genRandAllStep acc i).1.size = acc.1.size := by
  obtain ⟨st, r1, r2⟩ := acc
  simp [genRandAllStep, setW_size]

theorem foldl_genRandAllStep_size (l : List Nat) (acc : Array UInt32 × W128 × W128) :
    (l.foldl genRandAllStep acc).1.size = acc.1.size := by
  induction l generalizing acc with
  | nil => rfl
  | cons a t ih => rw [List.foldl_cons, ih, genRandAllStep_size]

theorem genRandAll_size_aux (st : Array UInt32) : (genRandAll st).size = st.size := by
  unfold genRandAll
  rw [foldl_genRandAllStep_size]

/-! ### `roundTo53` on 64-bit words -/

/-- below `2⁶⁴ − 2¹⁰` the rounded value stays on the 53-bit grid below `2⁶⁴` -/
theorem roundTo53_grid {v : Nat} (h : v < 2 ^ 64) (hv : v < 2 ^ 64 - 2 ^ 10) : roundTo53 v ≤ 2 ^ 64 - 2 ^ 11 := by
  unfold roundTo53
  rcases Nat.lt_or_ge v (2 ^ 53) with h53 | h53
  · rw [if_pos h53]; omega
  · rw [if_neg (Nat.not_lt.2 h53)]
    have hv0 : v ≠ 0 := by omega
    have hk1 : 53 ≤ v.log2 := (Nat.le_log2 hv0).2 h53
    have hk2 : v.log2 < 64 := (Nat.log2_lt hv0).2 h
    have hlo := Nat.log2_self_le hv0
    have hhi := @Nat.lt_log2_self v
    generalize v.log2 = k at *
    interval_cases k <;> norm_num at hlo hhi ⊢ <;> (split_ifs <;> omega)

/-! ### concrete binary64 roundings (finding F8) -/

theorem uniformFl_witness_1_2 : uniformFl 1 2 (1 - 1 / 2 ^ 53) = 2 := by decide +kernel
theorem uniformFl_witness_0_1 : uniformFl 0 1 1 = 1 := by decide +kernel
theorem uniformFl_witness_0_10 : (uniformFl 0 10 1).floor = 10 := by decide +kernel
theorem uniformFl_witness_exceed :
    uniformFl (-1) (1 / 2 ^ 30 * (1 + 1 / 2 ^ 23 + 1 / 2 ^ 52)) 1 = 1 / 2 ^ 30 * (1 + 1 / 2 ^ 22) := by
  decide +kernel

/-! ### observational equivalence of generator objects -/

theorem res53ToRat_eq (n : Nat) : res53ToRat n = (n : ℚ) / 2 ^ 64 := by
  unfold res53ToRat
  rw [Rat.mkRat_eq_div]
  push_cast
  rfl

theorem nextRaw_setSeed_aux (g₁ g₂ : RandomImpl) (s : UInt32) : (g₁.setSeed s).nextRaw = (g₂.setSeed s).nextRaw := by
  simp [RandomImpl.nextRaw, RandomImpl.setSeed]

section
variable {K : Type} [Add K] [Sub K] [Mul K] [Neg K] [Div K] [OfNat K 0] [OfNat K 1] [OfNat K 2]
  [LT K] [DecidableLT K] [LE K] [DecidableLE K] [BEq K]

omit [Neg K] [Div K] [LT K] [DecidableLT K] in
/-- the polar loop depends on its generator only through `nextRaw` -/
theorem polarLoop_congr (cv : Nat → K) (fuel : Nat) (r₁ r₂ : RandomImpl) (h : r₁.nextRaw = r₂.nextRaw) :
    (polarLoop cv fuel r₁).1 = (polarLoop cv fuel r₂).1 ∧
    (polarLoop cv fuel r₁).2.nextRaw = (polarLoop cv fuel r₂).2.nextRaw := by
  cases fuel with
  | zero => simp [polarLoop, h]
  | succ f => simp [polarLoop, h]

/-- two `Uniform` objects are indistinguishable: same next raw step (value *and* successor state), same `min`, `range` -/
def UEq (a b : Uniform K) : Prop := a.rng.nextRaw = b.rng.nextRaw ∧ a.min = b.min ∧ a.range = b.range

omit [Sub K] [Neg K] [Div K] [OfNat K 0] [OfNat K 1] [OfNat K 2] [LT K] [DecidableLT K] [LE K] [DecidableLE K] [BEq K] in
theorem uniform_step (cv : Nat → K) (a b : Uniform K) (h : UEq a b) :
    (a.getValue cv).1 = (b.getValue cv).1 ∧ UEq (a.getValue cv).2 (b.getValue cv).2 := by
  obtain ⟨ra, mina, maxa, rangea⟩ := a
  obtain ⟨rb, minb, maxb, rangeb⟩ := b
  obtain ⟨h1, h2, h3⟩ := h
  simp only at h1 h2 h3
  subst h2 h3
  simp [Uniform.getValue, UEq, h1]

/-- two `Gaussian` objects are indistinguishable (the cached value matters only while it is valid) -/
def GEq (a b : Gaussian K) : Prop :=
  a.rng.nextRaw = b.rng.nextRaw ∧ a.mean = b.mean ∧ a.stddev = b.stddev ∧
  a.nextGaussianIsValid = b.nextGaussianIsValid ∧ (a.nextGaussianIsValid = true → a.nextGaussian = b.nextGaussian)

omit [LT K] [DecidableLT K] in
theorem gauss_step (cv : Nat → K) (log sqrt : K → K) (fuel : Nat) (a b : Gaussian K) (h : GEq a b) :
    (a.getValue cv log sqrt fuel).1 = (b.getValue cv log sqrt fuel).1 ∧
    GEq (a.getValue cv log sqrt fuel).2 (b.getValue cv log sqrt fuel).2 := by
  obtain ⟨ra, ma, sa, nga, va⟩ := a
  obtain ⟨rb, mb, sb, ngb, vb⟩ := b
  obtain ⟨h1, h2, h3, h4, h5⟩ := h
  simp only at h1 h2 h3 h4 h5
  subst h2 h3 h4
  cases va with
  | true =>
    have := h5 rfl
    subst this
    simp [Gaussian.getValue, GEq, h1]
  | false =>
    have hpl := polarLoop_congr cv fuel ra rb h1
    rcases hA : polarLoop cv fuel ra with ⟨oa, ra'⟩
    rcases hB : polarLoop cv fuel rb with ⟨ob, rb'⟩
    rw [hA, hB] at hpl
    obtain ⟨e1, e2⟩ := hpl
    simp only at e1 e2
    subst e1
    cases oa with
    | none => simp [Gaussian.getValue, GEq, hA, hB, e2]
    | some t =>
      obtain ⟨x, y, r2⟩ := t
      simp [Gaussian.getValue, GEq, hA, hB, e2]

omit [Add K] [Sub K] [Mul K] [Neg K] [Div K] [OfNat K 0] [OfNat K 1] [OfNat K 2] [LT K] [DecidableLT K] [LE K]
  [DecidableLE K] [BEq K] in
theorem uniform_setSeed_eq (u : Uniform K) (s : UInt32) :
    u.setSeed s = ⟨u.rng.setSeed s, u.min, u.max, u.range⟩ := rfl

omit [Add K] [Sub K] [Mul K] [Neg K] [Div K] [OfNat K 0] [OfNat K 1] [OfNat K 2] [LT K] [DecidableLT K] [LE K]
  [DecidableLE K] [BEq K] in
theorem gaussian_setSeed_eq (g : Gaussian K) (s : UInt32) :
    g.setSeed s = ⟨g.rng.setSeed s, g.mean, g.stddev, g.nextGaussian, false⟩ := rfl

omit [Add K] [Sub K] [Mul K] [Neg K] [Div K] [OfNat K 0] [OfNat K 1] [OfNat K 2] [LT K] [DecidableLT K] [LE K]
  [DecidableLE K] [BEq K] in
/-- reseeded `Uniform` objects with equal `min`, `range` are indistinguishable (proved through the propositional
unfolding `uniform_setSeed_eq`: a definitional unfolding makes the kernel compare `initGenRand s` with a variable) -/
theorem UEq_setSeed (u₁ u₂ : Uniform K) (s : UInt32) (hmin : u₁.min = u₂.min) (hrange : u₁.range = u₂.range) :
    UEq (u₁.setSeed s) (u₂.setSeed s) := by
  rw [uniform_setSeed_eq, uniform_setSeed_eq]
  exact ⟨nextRaw_setSeed_aux _ _ s, hmin, hrange⟩

omit [Add K] [Sub K] [Mul K] [Neg K] [Div K] [OfNat K 0] [OfNat K 1] [OfNat K 2] [LT K] [DecidableLT K] [LE K]
  [DecidableLE K] [BEq K] in
theorem GEq_setSeed (g₁ g₂ : Gaussian K) (s : UInt32) (hmean : g₁.mean = g₂.mean) (hsd : g₁.stddev = g₂.stddev) :
    GEq (g₁.setSeed s) (g₂.setSeed s) := by
  rw [gaussian_setSeed_eq, gaussian_setSeed_eq]
  refine ⟨nextRaw_setSeed_aux _ _ s, hmean, hsd, rfl, ?_⟩
  intro h; cases h
end

/-! ### period certification -/

theorem u32_xor_and (a b c : UInt32) : (a ^^^ b) &&& c = (a &&& c) ^^^ (b &&& c) := by
  apply UInt32.toNat_inj.1
  simp [Nat.and_xor_distrib_right]

/-- one level of the xor-fold -/
def parityL (i : UInt32) (x : UInt32) : UInt32 := x ^^^ (x >>> i)

theorem parityL_xor (i a b : UInt32) : parityL i (a ^^^ b) = parityL i a ^^^ parityL i b := by
  unfold parityL
  rw [UInt32.shiftRight_xor]
  ac_rfl

theorem parityFold_eq (x : UInt32) :
    parityFold x = parityL 1 (parityL 2 (parityL 4 (parityL 8 (parityL 16 x)))) &&& 1 := rfl

theorem parityFold_xor (a b : UInt32) : parityFold (a ^^^ b) = parityFold a ^^^ parityFold b := by
  simp only [parityFold_eq, parityL_xor, u32_xor_and]

theorem parityFold_one : parityFold 1 = 1 := by decide

theorem u32_and_one (x : UInt32) : x &&& 1 = 0 ∨ x &&& 1 = 1 := by
  have h : (x &&& 1).toNat = x.toNat % 2 := by simp [Nat.and_one_is_mod]
  rcases Nat.mod_two_eq_zero_or_one x.toNat with h0 | h1
  · left; apply UInt32.toNat_inj.1; rw [h, h0]; rfl
  · right; apply UInt32.toNat_inj.1; rw [h, h1]; rfl

theorem parityFold_01 (x : UInt32) : parityFold x = 0 ∨ parityFold x = 1 := by
  rw [parityFold_eq]; exact u32_and_one _

theorem firstParityBit_eq : firstParityBit = some (0, 1) := by decide

theorem periodCertification_of_parity (st : Array UInt32) (h : parityInner st = 1) : periodCertification st = st := by
  unfold periodCertification
  rw [if_pos (by rw [h]; rfl)]

theorem periodCertification_parity (st : Array UInt32) (h : 4 ≤ st.size) :
    parityInner (periodCertification st) = 1 := by
  unfold periodCertification
  by_cases hp : (parityInner st == 1) = true
  · rw [if_pos hp]; exact eq_of_beq hp
  · rw [if_neg hp, firstParityBit_eq]
    simp only
    have hne : parityInner st ≠ 1 := fun e => hp (by rw [e]; rfl)
    unfold parityInner at hne ⊢
    rw [Array.getElem!_set!_self _ _ _ (by omega), Array.getElem!_set!_ne _ _ _ _ (by decide),
      Array.getElem!_set!_ne _ _ _ _ (by decide), Array.getElem!_set!_ne _ _ _ _ (by decide)]
    have hP : (1 : UInt32) &&& PARITY1 = 1 := by decide
    have e : ((st[0]! ^^^ (1 : UInt32)) &&& PARITY1) ^^^ (st[1]! &&& PARITY2) ^^^ (st[2]! &&& PARITY3) ^^^ (st[3]! &&& PARITY4)
        = ((st[0]! &&& PARITY1) ^^^ (st[1]! &&& PARITY2) ^^^ (st[2]! &&& PARITY3) ^^^ (st[3]! &&& PARITY4)) ^^^ (1 : UInt32) := by
      rw [u32_xor_and, hP]; ac_rfl
    rw [e, parityFold_xor, parityFold_one]
    rcases parityFold_01 ((st[0]! &&& PARITY1) ^^^ (st[1]! &&& PARITY2) ^^^ (st[2]! &&& PARITY3) ^^^ (st[3]! &&& PARITY4))
      with h0 | h1
    · rw [h0]; rfl
    · exact absurd h1 hne

end C31
