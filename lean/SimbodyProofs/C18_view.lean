import SimbodyProofs.C18_lemmas
/-!
C18 — the *static view* of a State (stages, stage versions, immutable part of every allocation stack), how every
operation of the model acts on it, and the structural invariant `Inv` with its preservation by every legal
operation (`Inv.stepS`, `WInv.step`).  Core Lean only.
-/
namespace C18
/-! ## the static view of a State: stages, versions and the immutable part of every allocation stack -/

def CE.static (e : CE) : CE :=
  { e with deps := [], value := 0, valVer := 0, stamp := 0, flag := false, gQ := 0, gU := 0, gZ := 0, gDV := [], gCE := [],
           fresh := false }
def DV.static (d : DV) : DV := { d with deps := [], value := 0, valVer := 0, tLast := none }
def Sub.view (sb : Sub) : Sub := { sb with dvs := sb.dvs.map DV.static, ces := sb.ces.map CE.static }
def St.view (st : St) : St := { sys := st.sys, sysVers := st.sysVers, subs := st.subs.map Sub.view }

@[simp] theorem CE.static_alloc (e : CE) : e.static.alloc = e.alloc := rfl
@[simp] theorem DV.static_alloc (d : DV) : d.static.alloc = d.alloc := rfl
@[simp] theorem Sub.view_cur (sb : Sub) : sb.view.cur = sb.cur := rfl
@[simp] theorem Sub.view_vers (sb : Sub) : sb.view.vers = sb.vers := rfl
@[simp] theorem St.view_sys (st : St) : st.view.sys = st.sys := rfl
@[simp] theorem St.view_sysVers (st : St) : st.view.sysVers = st.sysVers := rfl

theorem view_mapCE (st : St) (f : Key → CE → CE) (hf : ∀ k e, (f k e).static = e.static) :
    (st.mapCE f).view = st.view := by
  unfold St.view St.mapCE
  simp only [St.mk.injEq, true_and, and_true]
  rw [map_mapI]
  apply mapI_eq_map
  intro i sb
  unfold Sub.view
  simp only [Sub.mk.injEq, true_and]
  exact map_mapI_of_proj CE.static _ _ (fun c e => hf (i, c) e)

theorem view_mapDV (st : St) (f : Key → DV → DV) (hf : ∀ k d, (f k d).static = d.static) :
    (st.mapDV f).view = st.view := by
  unfold St.view St.mapDV
  simp only [St.mk.injEq, true_and, and_true]
  rw [map_mapI]
  apply mapI_eq_map
  intro i sb
  unfold Sub.view
  simp only [Sub.mk.injEq, true_and, and_true]
  exact map_mapI_of_proj DV.static _ _ (fun c e => hf (i, c) e)

theorem CE.invN_static (e : CE) (n : Nat) : (e.invN n).static = e.static := by
  unfold CE.invN; split <;> rfl

theorem view_invalidateMany (st : St) (ks) : (st.invalidateMany ks).view = st.view :=
  view_mapCE st _ (fun _ e => CE.invN_static e _)

theorem view_notify (st : St) (ks) : (st.notify ks).view = st.view := view_invalidateMany st _


theorem view_register (st : St) (k : Key) (e : CE) : (st.register k e).view = st.view := by
  unfold St.register
  simp only
  rw [view_mapCE _ _ (by intro ck c; split <;> rfl), view_mapDV _ _ (by intro dk d; split <;> rfl)]
  rfl

theorem view_unregister (st : St) (k : Key) (e : CE) : (st.unregister k e).view = st.view := by
  unfold St.unregister
  simp only
  rw [view_mapCE _ _ (by intro ck c; split <;> rfl), view_mapDV _ _ (by intro dk d; split <;> rfl)]
  rfl

theorem view_foldl_unregister (l : List (Key × CE)) (st : St) :
    (l.foldl (fun acc ke => acc.unregister ke.1 ke.2) st).view = st.view := by
  induction l generalizing st with
  | nil => rfl
  | cons a as ih => simp only [List.foldl_cons]; rw [ih, view_unregister]

theorem view_foldl_register (l : List (Key × CE)) (st : St) :
    (l.foldl (fun acc ke => acc.register ke.1 ke.2) st).view = st.view := by
  induction l generalizing st with
  | nil => rfl
  | cons a as ih => simp only [List.foldl_cons]; rw [ih, view_register]

theorem view_noteQ (st : St) : st.noteQ.view = st.view := by unfold St.noteQ; rw [view_notify]; rfl
theorem view_noteU (st : St) : st.noteU.view = st.view := by unfold St.noteU; rw [view_notify]; rfl
theorem view_noteZ (st : St) : st.noteZ.view = st.view := by unfold St.noteZ; rw [view_notify]; rfl
theorem view_noteY (st : St) : st.noteY.view = st.view := by
  unfold St.noteY; rw [view_noteZ, view_noteU, view_noteQ]

theorem view_modSub (st : St) (s : Nat) (f : Sub → Sub) (hf : ∀ sb, (f sb).view = sb.view) :
    (st.modSub s f).view = st.view := by
  unfold St.view St.modSub
  simp only [St.mk.injEq, true_and, and_true]
  exact map_modAt_of_proj Sub.view _ _ _ hf

theorem view_modCE (st : St) (k : Key) (f : CE → CE) (hf : ∀ e, (f e).static = e.static) :
    (st.modCE k f).view = st.view := by
  unfold St.modCE
  apply view_modSub
  intro sb
  unfold Sub.view
  simp only [Sub.mk.injEq, true_and]
  exact map_modAt_of_proj CE.static _ _ _ hf

theorem view_modDV (st : St) (k : Key) (f : DV → DV) (hf : ∀ e, (f e).static = e.static) :
    (st.modDV k f).view = st.view := by
  unfold St.modDV
  apply view_modSub
  intro sb
  unfold Sub.view
  simp only [Sub.mk.injEq, true_and, and_true]
  exact map_modAt_of_proj DV.static _ _ _ hf

theorem view_markCE (st : St) (k : Key) : (st.markCE k).view = st.view := by
  unfold St.markCE
  split
  · rfl
  · exact view_modCE _ _ _ (fun _ => rfl)

theorem CE.unfresh_static (e : CE) (g cur : Nat) : (e.unfresh g cur).static = e.static := by
  unfold CE.unfresh; split <;> rfl
@[simp] theorem CE.unfresh_alloc (e : CE) (g cur : Nat) : (e.unfresh g cur).alloc = e.alloc := by
  unfold CE.unfresh; split <;> rfl
@[simp] theorem CE.unfresh_dep (e : CE) (g cur : Nat) : (e.unfresh g cur).dep = e.dep := by
  unfold CE.unfresh; split <;> rfl
@[simp] theorem CE.unfresh_comp (e : CE) (g cur : Nat) : (e.unfresh g cur).comp = e.comp := by
  unfold CE.unfresh; split <;> rfl

/-! ### popBack commutes with maps that keep the allocation stage -/
theorem popBack_map {α β : Type} (a : α → Nat) (b : β → Nat) (h : α → β) (g : Nat) (l : List α)
    (hab : ∀ x, b (h x) = a x) : popBack b g (l.map h) = (popBack a g l).map h := by
  induction l with
  | nil => rfl
  | cons x xs ih =>
    simp only [List.map_cons, popBack, ih]
    cases hp : popBack a g xs with
    | nil => simp only [List.map_nil, hab]; split <;> rfl
    | cons r rs => simp

theorem restore_view (sb : Sub) (g : Nat) : (sb.restore g).view = sb.view.restore g := by
  unfold Sub.restore
  simp only [Sub.view_cur]
  by_cases h1 : sb.cur ≤ g
  · simp only [h1, if_true]
    unfold Sub.view
    simp only [Sub.mk.injEq, true_and, List.map_map]
    apply List.map_congr_left
    intro e _
    simp only [Function.comp]
    unfold CE.unfresh
    show CE.static _ = (if g < e.dep then _ else _)
    split <;> rfl
  · simp only [h1, if_false]
    by_cases h2 : g = 0
    · simp only [h2, if_true]; rfl
    · simp only [h2, if_false]
      unfold Sub.view
      simp only [Sub.mk.injEq, true_and]
      refine ⟨(popBack_map DV.alloc DV.alloc DV.static g _ (fun _ => rfl)).symm, ?_⟩
      rw [List.map_map, popBack_map CE.alloc CE.alloc CE.static g _ (fun _ => rfl), List.map_map]
      apply List.map_congr_left
      intro e _
      simp only [Function.comp]
      unfold CE.unfresh
      show CE.static _ = (if g < e.dep then _ else _)
      split <;> rfl

/-- stage / stack part of `invalidateJustSystemStage` + `restoreToStage` on every subsystem -/
def St.invalAllV (v : St) (g : Nat) : St :=
  { sys := if v.sys < g then v.sys else g - 1,
    sysVers := if v.sys < g then v.sysVers else bump v.sysVers g v.sys,
    subs := v.subs.map (fun sb => sb.restore (g - 1)) }

theorem view_invalSys (st : St) (g : Nat) :
    (st.invalSys g).view =
      { sys := if st.sys < g then st.sys else g - 1,
        sysVers := if st.sys < g then st.sysVers else bump st.sysVers g st.sys,
        subs := st.view.subs } := by
  unfold St.invalSys
  split
  · rfl
  · simp only
    have h1 : (if 2 ≤ st.sys ∧ g ≤ 2 then ({ st with q := [], u := [], z := [] } : St).noteY else st).view = st.view := by
      split
      · rw [view_noteY]; rfl
      · rfl
    have h2 : ∀ (a : St), a.view = st.view → (if g ≤ 1 then { a with t := none } else a).view = st.view := by
      intro a ha; split
      · rw [← ha]; rfl
      · exact ha
    have h3 := h2 _ h1
    generalize (if g ≤ 1 then ({ (if 2 ≤ st.sys ∧ g ≤ 2 then ({ st with q := [], u := [], z := [] } : St).noteY else st) with t := none } : St) else (if 2 ≤ st.sys ∧ g ≤ 2 then ({ st with q := [], u := [], z := [] } : St).noteY else st)) = a at h3
    have : a.sysVers = st.sysVers := by
      have := congrArg St.sysVers h3; simpa using this
    have hs : a.subs.map Sub.view = st.subs.map Sub.view := by
      have := congrArg St.subs h3; simpa [St.view] using this
    simp only [St.view, this, hs]

theorem view_invalAll (st : St) (g : Nat) : (st.invalAll g).view = st.view.invalAllV g := by
  unfold St.invalAll
  simp only
  rw [view_foldl_unregister]
  have h := view_invalSys st g
  unfold St.invalAllV
  simp only [St.view_sys, St.view_sysVers]
  have hsys := congrArg St.sys h
  have hsv := congrArg St.sysVers h
  have hsub := congrArg St.subs h
  simp only [St.view_sys, St.view_sysVers] at hsys hsv
  simp only [St.view] at hsub ⊢
  simp only [St.mk.injEq, and_true]
  refine ⟨hsys, hsv, ?_⟩
  rw [List.map_map, List.map_map]
  have : (Sub.view ∘ fun sb => sb.restore (g - 1)) = (fun sb => sb.restore (g - 1)) ∘ Sub.view := by
    funext sb; simp [restore_view]
  rw [this, ← List.map_map, hsub, List.map_map]


/-! ## structural invariant -/

structure StackOK {α : Type} (alloc : α → Nat) (cur lim : Nat) (l : List α) : Prop where
  sorted : (l.map alloc).Pairwise (· ≤ ·)
  bound : ∀ x ∈ l, 1 ≤ alloc x ∧ alloc x ≤ cur + 1 ∧ alloc x ≤ lim

theorem StackOK.nil {α : Type} (alloc : α → Nat) (cur lim : Nat) : StackOK alloc cur lim [] :=
  ⟨by simp, by simp⟩

theorem StackOK.mono {α : Type} {alloc : α → Nat} {cur cur' lim : Nat} {l : List α}
    (h : StackOK alloc cur lim l) (hc : cur ≤ cur') : StackOK alloc cur' lim l :=
  ⟨h.sorted, fun x hx => by have := h.bound x hx; omega⟩

theorem StackOK.push {α : Type} {alloc : α → Nat} {cur lim : Nat} {l : List α} (x : α)
    (h : StackOK alloc cur lim l) (hx : alloc x = cur + 1) (hl : cur + 1 ≤ lim) :
    StackOK alloc cur lim (l ++ [x]) := by
  refine ⟨?_, ?_⟩
  · rw [List.map_append, List.pairwise_append]
    refine ⟨h.sorted, by simp, ?_⟩
    intro a ha b hb
    simp only [List.map_cons, List.map_nil, List.mem_singleton] at hb
    obtain ⟨y, hy, rfl⟩ := List.mem_map.mp ha
    have := h.bound y hy
    omega
  · intro y hy
    rcases List.mem_append.mp hy with hy | hy
    · exact h.bound y hy
    · simp only [List.mem_singleton] at hy; subst hy; omega

theorem StackOK.pop {α : Type} {alloc : α → Nat} {cur lim g : Nat} {l : List α}
    (h : StackOK alloc cur lim l) : StackOK alloc g lim (popBack alloc g l) := by
  refine ⟨popBack_sorted alloc g l h.sorted, ?_⟩
  intro x hx
  have h1 := popBack_all_le alloc g l h.sorted x hx
  have h2 := h.bound x (popBack_sublist alloc g l x hx)
  omega

theorem StackOK.map_iff {α β : Type} {a : α → Nat} {b : β → Nat} (h : α → β) (hab : ∀ x, b (h x) = a x)
    {cur lim : Nat} {l : List α} : StackOK b cur lim (l.map h) ↔ StackOK a cur lim l := by
  have hm : (l.map h).map b = l.map a := by simp [List.map_map, Function.comp_def, hab]
  constructor
  · intro ⟨hs, hb⟩
    refine ⟨hm ▸ hs, fun x hx => ?_⟩
    have := hb (h x) (List.mem_map_of_mem hx)
    rwa [hab] at this
  · intro ⟨hs, hb⟩
    refine ⟨hm ▸ hs, fun y hy => ?_⟩
    obtain ⟨x, hx, rfl⟩ := List.mem_map.mp hy
    rw [hab]; exact hb x hx

structure SubGood (sys : Nat) (sb : Sub) : Prop where
  sys_le : sys ≤ sb.cur
  cur_le : sb.cur ≤ 9
  vlen : sb.vers.length = 11
  vpos : ∀ v ∈ sb.vers, 1 ≤ v
  q : StackOK CV.alloc sb.cur 2 sb.qInfo
  u : StackOK CV.alloc sb.cur 2 sb.uInfo
  z : StackOK CV.alloc sb.cur 2 sb.zInfo
  qerr : StackOK Al.alloc sb.cur 3 sb.qerrInfo
  uerr : StackOK Al.alloc sb.cur 3 sb.uerrInfo
  udoterr : StackOK Al.alloc sb.cur 3 sb.udoterrInfo
  trig : StackOK Tr.alloc sb.cur 3 sb.trig
  dvs : StackOK DV.alloc sb.cur 2 sb.dvs
  ces : StackOK CE.alloc sb.cur 3 sb.ces
  dvwf : ∀ d ∈ sb.dvs, d.alloc < d.inval ∧ d.inval ≤ 9
  cewf : ∀ e ∈ sb.ces, 1 ≤ e.dep ∧ e.dep ≤ 9 ∧ e.dep ≤ e.comp ∧ e.comp ≤ 10

structure Good (v : St) : Prop where
  sys_le : v.sys ≤ 9
  svlen : v.sysVers.length = 11
  svpos : ∀ x ∈ v.sysVers, 1 ≤ x
  subs : ∀ sb ∈ v.subs, SubGood v.sys sb

/-- the structural invariant of a State -/
def Inv (st : St) : Prop := Good st.view

theorem SubGood.default (sys : Nat) (h : sys = 0) : SubGood sys ({} : Sub) := by
  subst h
  refine ⟨by simp, by simp, by simp, ?_, ?_, ?_, ?_, ?_, ?_, ?_, ?_, ?_, ?_, by simp, by simp⟩
  · intro v hv; simp at hv; omega
  all_goals exact StackOK.nil _ _ _

theorem SubGood.mono_sys {sys sys' : Nat} {sb : Sub} (h : SubGood sys sb) (hs : sys' ≤ sys) : SubGood sys' sb :=
  { h with sys_le := Nat.le_trans hs h.sys_le }

theorem SubGood.restore {sys : Nat} {sb : Sub} (h : SubGood sys sb) (g : Nat) :
    SubGood (min sys g) (sb.restore g) := by
  unfold Sub.restore
  by_cases h1 : sb.cur ≤ g
  · simp only [h1, if_true]
    have h' := h.mono_sys (Nat.min_le_left sys g)
    exact { h' with
      ces := (StackOK.map_iff (a := CE.alloc) (b := CE.alloc) (fun e => e.unfresh g sb.cur) (fun _ => CE.unfresh_alloc _ _ _)).mpr h'.ces,
      cewf := fun e he => by
        obtain ⟨x, hx, rfl⟩ := List.mem_map.mp he
        simpa using h'.cewf x hx }
  · simp only [h1, if_false]
    by_cases h2 : g = 0
    · simp only [h2, if_true]
      exact SubGood.default _ (by simp)
    · simp only [h2, if_false]
      have hc := h.cur_le
      exact { sys_le := Nat.min_le_right _ _, cur_le := by simp; omega,
              vlen := by simp [h.vlen], vpos := bump_pos _ _ _ h.vpos,
              q := h.q.pop, u := h.u.pop, z := h.z.pop, qerr := h.qerr.pop, uerr := h.uerr.pop,
              udoterr := h.udoterr.pop, trig := h.trig.pop, dvs := h.dvs.pop,
              ces := (StackOK.map_iff (a := CE.alloc) (b := CE.alloc) (fun e => e.unfresh g sb.cur) (fun _ => CE.unfresh_alloc _ _ _)).mpr h.ces.pop,
              dvwf := fun d hd => h.dvwf d (popBack_sublist _ _ _ d hd),
              cewf := fun e he => by
                obtain ⟨x, hx, rfl⟩ := List.mem_map.mp he
                simpa using h.cewf x (popBack_sublist _ _ _ x hx) }

theorem Good.invalAllV {v : St} (h : Good v) (g : Nat) (hg : 1 ≤ g) : Good (v.invalAllV g) := by
  unfold St.invalAllV
  refine ⟨?_, ?_, ?_, ?_⟩
  · simp only; have := h.sys_le; split <;> omega
  · simp only; split <;> simp [h.svlen]
  · simp only; split
    · exact h.svpos
    · exact bump_pos _ _ _ h.svpos
  · simp only
    intro sb' hsb'
    obtain ⟨sb, hsb, rfl⟩ := List.mem_map.mp hsb'
    have := (h.subs sb hsb).restore (g - 1)
    refine this.mono_sys ?_
    split <;> omega

theorem Inv.invalAll {st : St} (h : Inv st) (g : Nat) (hg : 1 ≤ g) : Inv (st.invalAll g) := by
  unfold Inv; rw [view_invalAll]; exact Good.invalAllV h g hg

theorem Inv.of_view_eq {st st' : St} (h : Inv st) (hv : st'.view = st.view) : Inv st' := by
  unfold Inv; rw [hv]; exact h


/-! ## how every operation acts on the static view -/

/-- the stage a variable-changing operation invalidates (as coded) -/
def invalStage (st : St) : SOp → Option Nat
  | .invalAll g | .invalCache g => some g
  | .updQ _ | .updQsub _ _ | .updY | .updQErrW | .updQErrWsub _ => some 5
  | .updU _ | .updUsub _ _ | .updUErrW | .updUErrWsub _ => some 6
  | .updZ _ | .updZsub _ _ | .updZW => some 7
  | .updUW | .updUWsub _ | .updZWsub _ => some 9
  | .setTime _ => some 4
  | .setDV s d _ => (st.dv? (s, d)).map DV.inval
  | _ => none

theorem view_setDV (st : St) (k : Key) (v : Int) (dv : DV) (h : st.dv? k = some dv) :
    (st.setDV k v).view = st.view.invalAllV dv.inval := by
  unfold St.setDV
  simp only [h]
  rw [view_notify]
  refine Eq.trans (view_modDV _ _ _ (fun _ => rfl)) ?_
  split
  · rw [view_notify, view_invalAll]
  · rw [view_invalAll]

theorem view_applyS_inval (st : St) (op : SOp) (g : Nat) (h : invalStage st op = some g) :
    (applyS st op).view = st.view.invalAllV g := by
  cases op <;> simp only [invalStage, Option.some.injEq, Option.map_eq_some_iff, reduceCtorEq] at h
  case invalAll g' => subst h; exact view_invalAll st _
  case invalCache g' => subst h; exact view_invalAll st _
  case updQ w => subst h; show ((st.invalAll 5).noteQ).view = _; rw [view_noteQ, view_invalAll]
  case updU w => subst h; show ((st.invalAll 6).noteU).view = _; rw [view_noteU, view_invalAll]
  case updZ w => subst h; show ((st.invalAll 7).noteZ).view = _; rw [view_noteZ, view_invalAll]
  case updQsub s w => subst h; show ((st.invalAll 5).noteQ).view = _; rw [view_noteQ, view_invalAll]
  case updUsub s w => subst h; show ((st.invalAll 6).noteU).view = _; rw [view_noteU, view_invalAll]
  case updZsub s w => subst h; show ((st.invalAll 7).noteZ).view = _; rw [view_noteZ, view_invalAll]
  case updY => subst h; show ((st.invalAll 5).noteY).view = _; rw [view_noteY, view_invalAll]
  case setTime v => subst h; show (st.invalAll 4).view = _; rw [view_invalAll]
  case updUW => subst h; exact view_invalAll st _
  case updZW => subst h; exact view_invalAll st _
  case updUWsub s => subst h; exact view_invalAll st _
  case updZWsub s => subst h; exact view_invalAll st _
  case updQErrW => subst h; exact view_invalAll st _
  case updUErrW => subst h; exact view_invalAll st _
  case updQErrWsub s => subst h; exact view_invalAll st _
  case updUErrWsub s => subst h; exact view_invalAll st _
  case setDV s d v =>
    obtain ⟨dv, hdv, rfl⟩ := h
    exact view_setDV st (s, d) v dv hdv

theorem view_autoUpdateOne (st : St) (k : Key) : (st.autoUpdateOne k).view = st.view := by
  unfold St.autoUpdateOne
  split
  · rfl
  · split
    · rfl
    · split
      · rfl
      · split
        · rw [view_notify]
          refine Eq.trans (view_modCE _ _ _ (fun _ => rfl)) ?_
          exact view_modDV _ _ _ (fun _ => rfl)
        · rfl

theorem view_foldl_autoUpdateOne (l : List Key) (st : St) :
    (l.foldl (fun acc k => acc.autoUpdateOne k) st).view = st.view := by
  induction l generalizing st with
  | nil => rfl
  | cons a as ih => simp only [List.foldl_cons]; rw [ih, view_autoUpdateOne]

/-- operations that change neither stages, versions nor the set of allocated entries -/
def isFrameOp : SOp → Bool
  | .mark _ _ | .unmark _ _ | .markDVUpd _ _ | .setCE _ _ _ | .getCE _ _ | .autoUpdate => true
  | _ => false

theorem view_applyS_frame (st : St) (op : SOp) (h : isFrameOp op = true) : (applyS st op).view = st.view := by
  cases op <;> simp only [isFrameOp, reduceCtorEq] at h
  case mark s c => exact view_markCE st _
  case unmark s c => exact view_notify st _
  case markDVUpd s d =>
    show (match st.dv? (s, d) with
      | some dv => match dv.auto with | some cx => st.markCE (s, cx) | none => st
      | none => st).view = _
    split
    · split
      · exact view_markCE st _
      · rfl
    · rfl
  case setCE s c v => exact view_modCE st _ _ (fun _ => rfl)
  case getCE s c => rfl
  case autoUpdate => exact view_foldl_autoUpdateOne _ st


/-! ## the invariant is preserved by every legal operation on one State -/

theorem dv?_mem {st : St} {k : Key} {dv : DV} (h : st.dv? k = some dv) :
    ∃ sb, st.subs[k.1]? = some sb ∧ sb.dvs[k.2]? = some dv := by
  unfold St.dv? at h
  cases hs : st.subs[k.1]? with
  | none => simp [hs] at h
  | some sb => simp only [hs, Option.bind_some] at h; exact ⟨sb, rfl, h⟩

theorem ce?_mem {st : St} {k : Key} {e : CE} (h : st.ce? k = some e) :
    ∃ sb, st.subs[k.1]? = some sb ∧ sb.ces[k.2]? = some e := by
  unfold St.ce? at h
  cases hs : st.subs[k.1]? with
  | none => simp [hs] at h
  | some sb => simp only [hs, Option.bind_some] at h; exact ⟨sb, rfl, h⟩

theorem Inv.sub {st : St} (h : Inv st) {s : Nat} {sb : Sub} (hs : st.subs[s]? = some sb) :
    SubGood st.sys sb.view := by
  have : sb.view ∈ st.view.subs := List.mem_map_of_mem (List.mem_of_getElem? hs)
  exact h.subs _ this

theorem Inv.dv_inval {st : St} (h : Inv st) {k : Key} {dv : DV} (hd : st.dv? k = some dv) :
    dv.alloc < dv.inval ∧ dv.inval ≤ 9 := by
  obtain ⟨sb, hs, hdv⟩ := dv?_mem hd
  have hg := h.sub hs
  have : dv.static ∈ sb.view.dvs := List.mem_map_of_mem (List.mem_of_getElem? hdv)
  exact hg.dvwf dv.static this

theorem Inv.modSub {st : St} (h : Inv st) (s : Nat) (f : Sub → Sub)
    (hf : ∀ sb, st.subs[s]? = some sb → SubGood st.sys sb.view → SubGood st.sys (f sb).view) :
    Inv (st.modSub s f) := by
  refine ⟨h.sys_le, h.svlen, h.svpos, ?_⟩
  intro sb' hsb'
  obtain ⟨y, hy, rfl⟩ := List.mem_map.mp hsb'
  rcases mem_modAt hy with hy | ⟨x, hx, rfl⟩
  · exact h.subs _ (List.mem_map_of_mem hy)
  · exact hf x hx (h.sub hx)

theorem SubGood.advance {sys : Nat} {sb : Sub} (h : SubGood sys sb) (hc : sb.cur + 1 ≤ 9) :
    SubGood sys { sb with cur := sb.cur + 1 } :=
  { sys_le := by have := h.sys_le; simp; omega, cur_le := hc, vlen := h.vlen, vpos := h.vpos,
    q := h.q.mono (by simp), u := h.u.mono (by simp), z := h.z.mono (by simp), qerr := h.qerr.mono (by simp),
    uerr := h.uerr.mono (by simp), udoterr := h.udoterr.mono (by simp), trig := h.trig.mono (by simp),
    dvs := h.dvs.mono (by simp), ces := h.ces.mono (by simp), dvwf := h.dvwf, cewf := h.cewf }

theorem Inv.set_sys {st st' : St} (h : Inv st) (g : Nat) (hg : g ≤ 9) (hv : st'.view = { st.view with sys := g })
    (hall : ∀ sb ∈ st.subs, g ≤ sb.cur) : Inv st' := by
  unfold Inv; rw [hv]
  refine ⟨hg, h.svlen, h.svpos, ?_⟩
  intro sb' hsb'
  obtain ⟨sb, hsb, rfl⟩ := List.mem_map.mp hsb'
  exact { h.subs _ (List.mem_map_of_mem hsb) with sys_le := hall sb hsb }

theorem view_with_sys (a st : St) (g : Nat) (h : a.view = st.view) :
    ({ a with sys := g } : St).view = { st.view with sys := g } := by
  have h1 : a.sysVers = st.sysVers := by have := congrArg St.sysVers h; simpa using this
  have h2 : a.subs.map Sub.view = st.subs.map Sub.view := by have := congrArg St.subs h; simpa [St.view] using this
  simp only [St.view, h1, h2]

theorem view_advSys (st : St) (g : Nat) : (st.advSys g).view = { st.view with sys := g } := by
  unfold St.advSys
  split
  · subst_vars; rfl
  · split
    · subst_vars
      apply view_with_sys
      rw [view_notify, view_notify, view_notify]; rfl
    · exact view_with_sys st st g rfl


theorem SubGood.pushDV {sys : Nat} {sb : Sub} (h : SubGood sys sb) (d : DV) (hd : d.alloc = sb.cur + 1)
    (hc : sb.cur < 2) (hw : d.alloc < d.inval ∧ d.inval ≤ 9) : SubGood sys { sb with dvs := sb.dvs ++ [d] } :=
  { h with dvs := h.dvs.push d hd (by omega),
           dvwf := fun x hx => by
             rcases List.mem_append.mp hx with hx | hx
             · exact h.dvwf x hx
             · simp only [List.mem_singleton] at hx; subst hx; exact hw }

theorem SubGood.pushCE {sys : Nat} {sb : Sub} (h : SubGood sys sb) (e : CE) (he : e.alloc = sb.cur + 1)
    (hc : sb.cur < 3) (hw : 1 ≤ e.dep ∧ e.dep ≤ 9 ∧ e.dep ≤ e.comp ∧ e.comp ≤ 10) :
    SubGood sys { sb with ces := sb.ces ++ [e] } :=
  { h with ces := h.ces.push e he (by omega),
           cewf := fun x hx => by
             rcases List.mem_append.mp hx with hx | hx
             · exact h.cewf x hx
             · simp only [List.mem_singleton] at hx; subst hx; exact hw }

theorem view_pushDV (sb : Sub) (d : DV) : (sb.pushDV d).view = { sb.view with dvs := sb.view.dvs ++ [d.static] } := by
  simp [Sub.view, Sub.pushDV]
theorem view_pushCE (sb : Sub) (e : CE) : (sb.pushCE e).view = { sb.view with ces := sb.view.ces ++ [e.static] } := by
  simp [Sub.view, Sub.pushCE]


theorem excOf_allocDV_none {st : St} {s inv : Nat} {v : Int} {sb : Sub} (hs : st.subs[s]? = some sb)
    (h : excOf st (.allocDV s inv v) = none) : 1 ≤ inv ∧ inv ≤ 9 ∧ sb.cur < 2 := by
  simp only [excOf, hs] at h
  by_cases c1 : inv < 1 ∨ inv > 9
  · rw [if_pos c1] at h; cases h
  · rw [if_neg c1] at h
    by_cases c2 : sb.cur ≥ (if inv ≤ 2 then 1 else 2)
    · rw [if_pos c2] at h; cases h
    · split at c2 <;> omega

theorem excOf_allocAutoDV_none {st : St} {s inv ud : Nat} {v : Int} {sb : Sub} (hs : st.subs[s]? = some sb)
    (h : excOf st (.allocAutoDV s inv v ud) = none) : 1 ≤ inv ∧ inv ≤ 9 ∧ sb.cur < 2 := by
  simp only [excOf, hs] at h
  by_cases c1 : inv < 1 ∨ inv > 9
  · rw [if_pos c1] at h; cases h
  · rw [if_neg c1] at h
    by_cases c2 : sb.cur ≥ (if inv ≤ 2 then 1 else 2)
    · rw [if_pos c2] at h; cases h
    · split at c2 <;> omega

theorem excOf_allocCE_none {st : St} {s dep comp : Nat} {v : Int} {sb : Sub} (hs : st.subs[s]? = some sb)
    (h : excOf st (.allocCE s dep comp v) = none) : 1 ≤ dep ∧ dep ≤ 9 ∧ dep ≤ comp ∧ comp ≤ 10 ∧ sb.cur < 3 := by
  simp only [excOf, hs] at h
  by_cases c1 : dep < 1 ∨ dep > 9
  · rw [if_pos c1] at h; cases h
  · rw [if_neg c1] at h
    by_cases c2 : comp < dep ∨ comp > 10
    · rw [if_pos c2] at h; cases h
    · rw [if_neg c2] at h
      by_cases c3 : sb.cur ≥ 3
      · rw [if_pos c3] at h; cases h
      · omega

theorem excOf_allocCEpre_none {st : St} {s dep comp : Nat} {q u z : Bool} {dvs ces : List Key} {v : Int} {sb : Sub}
    (hs : st.subs[s]? = some sb) (h : excOf st (.allocCEpre s dep comp q u z dvs ces v) = none) :
    1 ≤ dep ∧ dep ≤ 9 ∧ dep ≤ comp ∧ comp ≤ 10 ∧ sb.cur < 3 := by
  simp only [excOf, hs] at h
  split at h
  · simp at h
  · by_cases c1 : dep < 1 ∨ dep > 9
    · rw [if_pos c1] at h; cases h
    · rw [if_neg c1] at h
      by_cases c2 : comp < dep ∨ comp > 10
      · rw [if_pos c2] at h; cases h
      · rw [if_neg c2] at h
        by_cases c3 : sb.cur ≥ 3
        · rw [if_pos c3] at h; cases h
        · omega

theorem Inv.stepS {st : St} (h : Inv st) (op : SOp) (hl : legalS st op = true) : Inv (stepS st op) := by
  unfold C18.stepS
  cases hexc : excOf st op with
  | some c => exact h
  | none =>
  simp only
  by_cases hfr : isFrameOp op = true
  · exact h.of_view_eq (view_applyS_frame st op hfr)
  cases hiv : invalStage st op with
  | some g =>
    unfold Inv; rw [view_applyS_inval st op g hiv]
    apply Good.invalAllV h
    cases op <;> simp only [invalStage, Option.some.injEq, Option.map_eq_some_iff, reduceCtorEq] at hiv
    case invalAll g' => subst hiv; simp [legalS] at hl; omega
    case invalCache g' => subst hiv; simp [legalS] at hl; omega
    case setDV s d v => obtain ⟨dv, hdv, rfl⟩ := hiv; have := h.dv_inval hdv; omega
    all_goals omega
  | none =>
  cases op <;> simp only [isFrameOp, invalStage, reduceCtorEq, Bool.false_eq_true, not_false_eq_true, not_true_eq_false] at hfr hiv
  case advSub s g =>
    simp only [legalS] at hl
    apply h.modSub
    intro sb hs hg
    simp only [hs, Bool.and_eq_true, decide_eq_true_eq, beq_iff_eq] at hl
    obtain ⟨⟨_, h9⟩, rfl⟩ := hl
    exact hg.advance h9
  case advSys g =>
    simp only [legalS, Bool.and_eq_true, decide_eq_true_eq, beq_iff_eq, List.all_eq_true] at hl
    exact h.set_sys g hl.1.1.2 (view_advSys st g) hl.2
  case allocQ s vals =>
    apply h.modSub; intro sb hs hg
    simp only [excOf, hs, ite_eq_right_iff, reduceCtorEq, imp_false, Nat.not_le] at hexc
    exact { hg with q := hg.q.push _ rfl (by simp; omega) }
  case allocU s vals =>
    apply h.modSub; intro sb hs hg
    simp only [excOf, hs, ite_eq_right_iff, reduceCtorEq, imp_false, Nat.not_le] at hexc
    exact { hg with u := hg.u.push _ rfl (by simp; omega) }
  case allocZ s vals =>
    apply h.modSub; intro sb hs hg
    simp only [excOf, hs, ite_eq_right_iff, reduceCtorEq, imp_false, Nat.not_le] at hexc
    exact { hg with z := hg.z.push _ rfl (by simp; omega) }
  case allocQErr s n =>
    apply h.modSub; intro sb hs hg
    simp only [excOf, hs, ite_eq_right_iff, reduceCtorEq, imp_false, Nat.not_le] at hexc
    exact { hg with qerr := hg.qerr.push _ rfl (by simp; omega) }
  case allocUErr s n =>
    apply h.modSub; intro sb hs hg
    simp only [excOf, hs, ite_eq_right_iff, reduceCtorEq, imp_false, Nat.not_le] at hexc
    exact { hg with uerr := hg.uerr.push _ rfl (by simp; omega) }
  case allocUDotErr s n =>
    apply h.modSub; intro sb hs hg
    simp only [excOf, hs, ite_eq_right_iff, reduceCtorEq, imp_false, Nat.not_le] at hexc
    exact { hg with udoterr := hg.udoterr.push _ rfl (by simp; omega) }
  case allocTrig s g n =>
    apply h.modSub; intro sb hs hg
    simp only [excOf, hs, ite_eq_right_iff, reduceCtorEq, imp_false, Nat.not_le] at hexc
    exact { hg with trig := hg.trig.push _ rfl (by simp; omega) }
  case allocDV s inv v =>
    apply h.modSub; intro sb hs hg
    simp only [legalS, hs, hexc, Option.isSome_none, Bool.false_or, decide_eq_true_eq] at hl
    have hx := excOf_allocDV_none hs hexc
    rw [view_pushDV]
    exact hg.pushDV _ rfl (by simpa using hx.2.2) (by simp [DV.static]; omega)
  case allocAutoDV s inv v ud =>
    apply h.modSub; intro sb hs hg
    simp only [legalS, hs, hexc, Option.isSome_none, Bool.false_or, Bool.and_eq_true, decide_eq_true_eq] at hl
    have hx := excOf_allocAutoDV_none hs hexc
    rw [view_pushCE, view_pushDV]
    have h1 := hg.pushDV ({ alloc := sb.cur + 1, inval := inv, value := v, auto := some sb.ces.length } : DV).static rfl
      (by simpa using hx.2.2) (by simp [DV.static]; omega)
    exact h1.pushCE _ rfl (by simp; omega) (by simp [CE.static]; omega)
  case allocCE s dep comp v =>
    apply h.modSub; intro sb hs hg
    have hx := excOf_allocCE_none hs hexc
    rw [view_pushCE]
    exact hg.pushCE _ rfl (by simp; omega) (by simp [CE.static]; omega)
  case allocCEpre s dep comp q u z dvs ces v =>
    show Inv (match st.subs[s]? with
      | none => st
      | some sb => _)
    split
    · exact h
    · rename_i sb hs
      simp only
      refine Inv.of_view_eq ?_ (view_register _ _ _)
      apply h.modSub; intro sb' hs' hg
      rw [hs] at hs'; cases hs'
      have hx := excOf_allocCEpre_none hs hexc
      rw [view_pushCE]
      exact hg.pushCE _ rfl (by simp; omega) (by simp [CE.static]; omega)
  case setDV s d v =>
    simp only [Option.map_eq_none_iff] at hiv
    show Inv (st.setDV (s, d) v)
    unfold St.setDV; simp only [hiv]; exact h
  case setTopoVer v =>
    simp only [legalS, decide_eq_true_eq] at hl
    refine ⟨h.sys_le, (length_modAt _ _ _).trans h.svlen, ?_, h.subs⟩
    show ∀ x ∈ modAt st.sysVers 1 (fun _ => v), 1 ≤ x
    exact forall_mem_modAt h.svpos (fun _ _ => hl)


/-! ## copies -/

theorem copyOf_view (sb : Sub) : (Sub.copyOf sb).view = Sub.copyOf sb.view := by
  unfold Sub.copyOf Sub.view
  simp only [Sub.mk.injEq, true_and, List.map_map]
  refine ⟨?_, ?_⟩
  · rw [popBack_map DV.alloc DV.alloc DV.static _ _ (fun _ => rfl), List.map_map]; rfl
  · rw [popBack_map CE.alloc CE.alloc CE.static _ _ (fun _ => rfl), List.map_map]; rfl

theorem view_registerAll (st : St) : st.registerAll.view = st.view := by
  unfold St.registerAll
  simp only
  rw [view_foldl_register]
  exact view_mapCE _ _ (fun _ _ => rfl)

/-- the copied system stage versions -/
def copyVers (dstVers : List Nat) (src : St) : List Nat :=
  mapI (fun i v => if 1 ≤ i ∧ i ≤ min src.sys 3 then src.sysVers.getD i 0
                   else if 1 ≤ i ∧ i ≤ src.sys then src.sysVers.getD i 0 + 1 else v) dstVers

theorem view_copyFrom (dstVers : List Nat) (src : St) :
    (St.copyFrom dstVers src).view =
      { sys := min src.sys 3, sysVers := copyVers dstVers src, subs := src.view.subs.map Sub.copyOf } := by
  unfold St.copyFrom
  simp only
  rw [view_registerAll]
  simp only [St.view, copyVers, List.map_map, St.mk.injEq, true_and, and_true]
  apply List.map_congr_left
  intro sb _
  exact copyOf_view sb

theorem getD_pos (l : List Nat) (h : ∀ x ∈ l, 1 ≤ x) (i : Nat) (hi : i < l.length) : 1 ≤ l.getD i 0 := by
  have : l.getD i 0 = l[i] := by simp [List.getD_eq_getElem?_getD, List.getElem?_eq_getElem hi]
  rw [this]; exact h _ (List.getElem_mem hi)

theorem SubGood.copyOf {sys : Nat} {sb : Sub} (h : SubGood sys sb) : SubGood (min sys 3) (Sub.copyOf sb) := by
  unfold Sub.copyOf
  have hs := h.sys_le
  exact
    { sys_le := by simp only; omega,
      cur_le := by simp only; omega,
      vlen := by simp [h.vlen],
      vpos := by
        simp only
        apply forall_mem_mapI
        intro i x hx
        have := h.vpos x hx
        split
        · exact this
        · split <;> omega,
      q := h.q.pop, u := h.u.pop, z := h.z.pop, qerr := h.qerr.pop, uerr := h.uerr.pop,
      udoterr := h.udoterr.pop, trig := h.trig.pop,
      dvs := (StackOK.map_iff (a := DV.alloc) (b := DV.alloc) DV.copied (fun _ => rfl)).mpr h.dvs.pop,
      ces := (StackOK.map_iff (a := CE.alloc) (b := CE.alloc) (fun e => e.copied (min sb.cur 3)) (fun _ => rfl)).mpr h.ces.pop,
      dvwf := by
        simp only
        intro d hd
        obtain ⟨x, hx, rfl⟩ := List.mem_map.mp hd
        exact h.dvwf x (popBack_sublist _ _ _ x hx),
      cewf := by
        simp only
        intro e he
        obtain ⟨x, hx, rfl⟩ := List.mem_map.mp he
        exact h.cewf x (popBack_sublist _ _ _ x hx) }

theorem Inv.copyFrom {src : St} (h : Inv src) (dstVers : List Nat) (hl : dstVers.length = 11)
    (hp : ∀ x ∈ dstVers, 1 ≤ x) : Inv (St.copyFrom dstVers src) := by
  unfold Inv; rw [view_copyFrom]
  refine ⟨by simp only; omega, by simp [copyVers, hl], ?_, ?_⟩
  · simp only [copyVers]
    apply forall_mem_mapI
    intro i x hx
    have hsys := h.sys_le
    simp only [St.view_sys] at hsys
    split
    · exact getD_pos _ h.svpos i (by have h1 := h.svlen; omega)
    · split
      · omega
      · exact hp x hx
  · simp only
    intro sb' hsb'
    obtain ⟨sb, hsb, rfl⟩ := List.mem_map.mp hsb'
    exact (h.subs sb hsb).copyOf

theorem Inv.fresh : Inv ({} : St) := by
  refine ⟨by simp [St.view], by simp [St.view], ?_, by simp [St.view]⟩
  intro x hx; simp [St.view] at hx; omega

theorem Inv.copyNew {src : St} (h : Inv src) : Inv src.copyNew :=
  h.copyFrom _ (by simp) (by intro x hx; simp at hx; omega)

theorem Inv.invalSys {st : St} (h : Inv st) (g : Nat) :
    (st.invalSys g).sysVers.length = 11 ∧ ∀ x ∈ (st.invalSys g).sysVers, 1 ≤ x := by
  have hv := view_invalSys st g
  have : (st.invalSys g).sysVers = if st.sys < g then st.sysVers else bump st.sysVers g st.sys := by
    have := congrArg St.sysVers hv; simpa using this
  rw [this]
  split
  · exact ⟨h.svlen, h.svpos⟩
  · exact ⟨by simp; exact h.svlen, bump_pos _ _ _ h.svpos⟩

theorem Inv.assign {dst src : St} (hd : Inv dst) (hs : Inv src) : Inv (dst.assign src) :=
  hs.copyFrom _ (hd.invalSys 1).1 (hd.invalSys 1).2

/-! ## several State objects -/

def WInv (w : World) : Prop := ∀ st, some st ∈ w.sts → Inv st

theorem live_mem {w : World} {k : Nat} {st : St} (h : w.live k = some st) : some st ∈ w.sts := by
  unfold World.live at h
  cases hk : w.sts[k]? with
  | none => simp [hk] at h
  | some o =>
    simp only [hk, Option.join_some] at h
    subst h
    exact List.mem_of_getElem? hk

theorem WInv.setSlot {w : World} (h : WInv w) (k : Nat) (o : Option St) (ho : ∀ st, o = some st → Inv st)
    (snap : List Nat) : WInv { sts := setSlot w.sts k o, snap := snap } := by
  intro st hst
  rcases mem_modAt hst with hm | ⟨x, _, hx⟩
  · exact h st hm
  · exact ho st hx.symm

theorem St.pristine_eq {st : St} (h : st.pristine = true) : st = { subs := st.subs } := by
  unfold St.pristine at h
  simp only [Bool.and_eq_true, beq_iff_eq] at h
  exact h.1

theorem Inv.with_subs_default {st : St} (h : st = { subs := st.subs }) (l : List Sub) (hl : ∀ sb ∈ l, sb = {}) :
    Inv { st with subs := l } := by
  rw [h]
  refine ⟨by simp [St.view], by simp [St.view], ?_, ?_⟩
  · intro x hx; simp [St.view] at hx; omega
  · intro sb' hsb'
    simp only [St.view] at hsb'
    obtain ⟨sb, hsb, rfl⟩ := List.mem_map.mp hsb'
    rw [hl sb hsb]
    exact SubGood.default _ rfl

theorem WInv.step {w : World} (h : WInv w) (op : Op) (hl : legal w op = true) : WInv (C18.step w op) := by
  cases op with
  | on k o =>
    simp only [C18.step]
    cases hk : w.live k with
    | none => simpa [hk] using h
    | some st =>
      simp only [legal, hk] at hl
      exact h.setSlot k _ (fun st' hst' => by cases hst'; exact (h st (live_mem hk)).stepS o hl) _
  | copyNew k =>
    simp only [C18.step]
    cases hk : w.live k with
    | none => simpa [hk] using h
    | some st =>
      intro st' hst'
      simp only [List.mem_append, List.mem_singleton] at hst'
      rcases hst' with hm | hm
      · exact h st' hm
      · cases hm; exact (h st (live_mem hk)).copyNew
  | copyAssign s d =>
    simp only [C18.step]
    cases hs : w.live s with
    | none => exact h.setSlot d none (fun _ hx => by cases hx) _
    | some src =>
      cases hd : w.live d with
      | none => exact h.setSlot d _ (fun st' hst' => by cases hst'; exact (h src (live_mem hs)).copyNew) _
      | some dst =>
        exact h.setSlot d _ (fun st' hst' => by
          cases hst'; exact (h dst (live_mem hd)).assign (h src (live_mem hs))) _
  | moveNew k =>
    simp only [C18.step]
    intro st' hst'
    simp only [List.mem_append, List.mem_singleton] at hst'
    rcases hst' with hm | hm
    · exact (h.setSlot k none (fun _ hx => by cases hx) w.snap) st' hm
    · exact h st' (live_mem hm.symm)
  | moveAssign s d =>
    simp only [C18.step]
    have h1 := h.setSlot s (w.live d) (fun st' hst' => h st' (live_mem hst')) w.snap
    exact h1.setSlot d (w.live s) (fun st' hst' => h st' (live_mem hst')) w.snap
  | clear k => exact h.setSlot k _ (fun st' hst' => by cases hst'; exact Inv.fresh) _
  | setNumSubs k n =>
    simp only [C18.step]
    cases hk : w.live k with
    | none => simpa [hk] using h
    | some st =>
      simp only [legal, hk, Bool.and_eq_true] at hl
      exact h.setSlot k _ (fun st' hst' => by
        cases hst'
        exact Inv.with_subs_default (St.pristine_eq hl.2) _ (fun sb hsb => (List.mem_replicate.mp hsb).2)) _
  | addSub k =>
    simp only [C18.step]
    cases hk : w.live k with
    | none => simpa [hk] using h
    | some st =>
      simp only [legal, hk, Bool.and_eq_true] at hl
      have hp := hl.1
      exact h.setSlot k _ (fun st' hst' => by
        cases hst'
        refine Inv.with_subs_default (St.pristine_eq hp) _ (fun sb hsb => ?_)
        rcases List.mem_append.mp hsb with hm | hm
        · unfold St.pristine at hp
          simp only [Bool.and_eq_true, List.all_eq_true] at hp
          have := hp.2 sb hm
          unfold Sub.pristine at this
          simpa using this
        · simpa using hm) _
  | snap k =>
    simp only [C18.step]
    cases hk : w.live k with
    | none => simpa [hk] using h
    | some st => exact fun st' hst' => h st' hst'
  | diff k => exact h
  | probeStale k s c => exact h

end C18
