import SimbodyProofs.C10_lemmas

/-!
# C10 — the executed `partition` / `prescribe` / `knownUDot` honour locks and Motions (slot-level lemmas)

Everything here is about the definitions the driver runs (`C10.partition`, `C10.prescribe`, `C10.knownUDot`,
`MobIn.methods`, `MobIn.qPoolVals/uPoolVals/udotPoolVals`).
-/
namespace C10
variable {K : Type} [Field K] [DecidableEq K]

/-- what the theorems need to know about the list of mobilizers: slot ranges of the mobilizers that own slots do not
overlap and lie inside the state vectors; every lock value / callback result has one entry per slot -/
structure WellFormed (mobs : List (MobIn K)) (NQ NU : Nat) : Prop where
  allocQ : (liveMobs mobs).Pairwise (fun a b => a.qx + a.nq ≤ b.qx)
  allocU : (liveMobs mobs).Pairwise (fun a b => a.ux + a.nu ≤ b.ux)
  boundQ : ∀ m ∈ mobs, m.qx + m.nq ≤ NQ
  boundU : ∀ m ∈ mobs, m.ux + m.nu ≤ NU
  lenLockedQ : ∀ m ∈ mobs, m.lockedQ.length = m.nq
  lenLockedU : ∀ m ∈ mobs, m.lockedU.length = m.nu
  lenPos : ∀ m ∈ mobs, m.cbPos.length = m.nq
  lenVel : ∀ m ∈ mobs, m.cbVel.length = m.nu
  lenVelDot : ∀ m ∈ mobs, m.cbVelDot.length = m.nu
  lenAcc : ∀ m ∈ mobs, m.cbAcc.length = m.nu
  lenNInv : ∀ m ∈ mobs, m.nInv.length = m.nu

theorem mem_liveMobs {mobs : List (MobIn K)} {m : MobIn K} : m ∈ liveMobs mobs ↔ m ∈ mobs ∧ m.nq ≠ 0 := by
  simp [liveMobs]

theorem matVec_length (A : List (List K)) (x : List K) : (matVec A x).length = A.length := by simp [matVec]

/-! the three state-changing operations are the same walk -/
theorem prescribe_fst (mobs : List (MobIn K)) (q u : List K) :
    (prescribe mobs q u).1 = walkScatter q (liveMobs mobs) (fun m => (m.qx, m.nq, m.methods.q)) MobIn.qPoolVals := rfl
theorem prescribe_snd (mobs : List (MobIn K)) (q u : List K) :
    (prescribe mobs q u).2 = walkScatter u (liveMobs mobs) (fun m => (m.ux, m.nu, m.methods.u)) MobIn.uPoolVals := rfl
theorem knownUDot_eq (mobs : List (MobIn K)) (udot : List K) :
    knownUDot mobs udot = walkScatter udot (liveMobs mobs) (fun m => (m.ux, m.nu, m.methods.udot)) MobIn.udotPoolVals := rfl

section slots
variable {mobs : List (MobIn K)} {q u udot : List K} (hw : WellFormed mobs q.length u.length) (hud : udot.length = u.length)
include hw

theorem allocQ_entries (fm : MobIn K → Method) : Alloc ((liveMobs mobs).map (fun m => (m.qx, m.nq, fm m))) := by
  unfold Alloc; rw [List.pairwise_map]; exact hw.allocQ
theorem allocU_entries (fm : MobIn K → Method) : Alloc ((liveMobs mobs).map (fun m => (m.ux, m.nu, fm m))) := by
  unfold Alloc; rw [List.pairwise_map]; exact hw.allocU

theorem len_qPool : ∀ m ∈ liveMobs mobs, m.qPoolVals.length = m.nq := by
  intro m hm
  have hm' := (mem_liveMobs.mp hm).1
  unfold MobIn.qPoolVals; split
  · exact hw.lenLockedQ m hm'
  · exact hw.lenPos m hm'
theorem len_uPool : ∀ m ∈ liveMobs mobs, m.uPoolVals.length = m.nu := by
  intro m hm
  have hm' := (mem_liveMobs.mp hm).1
  unfold MobIn.uPoolVals; split
  · exact hw.lenLockedU m hm'
  · split
    · rw [matVec_length]; exact hw.lenNInv m hm'
    · exact hw.lenVel m hm'
theorem len_udotPool : ∀ m ∈ liveMobs mobs, m.udotPoolVals.length = m.nu := by
  intro m hm
  have hm' := (mem_liveMobs.mp hm).1
  unfold MobIn.udotPoolVals; split
  · exact hw.lenLockedU m hm'
  · split
    · rw [matVec_length]; exact hw.lenNInv m hm'
    · split
      · exact hw.lenVelDot m hm'
      · exact hw.lenAcc m hm'

variable {m : MobIn K} (hm : m ∈ mobs) (hnq : m.nq ≠ 0)
include hm hnq

theorem q_slot_pres (h : m.methods.q = .prescribed) (j : Nat) (hj : j < m.nq) :
    (prescribe mobs q u).1[m.qx + j]? = m.qPoolVals[j]? := by
  rw [prescribe_fst]
  exact walk_pres q (liveMobs mobs) _ _ (allocQ_entries hw _) (len_qPool hw)
    (fun a ha => hw.boundQ a (mem_liveMobs.mp ha).1) m (mem_liveMobs.mpr ⟨hm, hnq⟩) h j hj

theorem q_slot_zero (h : m.methods.q = .zero) (j : Nat) (hj : j < m.nq) :
    (prescribe mobs q u).1[m.qx + j]? = some 0 := by
  rw [prescribe_fst]
  exact walk_zero q (liveMobs mobs) _ _ (fun a ha => hw.boundQ a (mem_liveMobs.mp ha).1) m
    (mem_liveMobs.mpr ⟨hm, hnq⟩) h j hj

theorem u_slot_pres (h : m.methods.u = .prescribed) (j : Nat) (hj : j < m.nu) :
    (prescribe mobs q u).2[m.ux + j]? = m.uPoolVals[j]? := by
  rw [prescribe_snd]
  exact walk_pres u (liveMobs mobs) _ _ (allocU_entries hw _) (len_uPool hw)
    (fun a ha => hw.boundU a (mem_liveMobs.mp ha).1) m (mem_liveMobs.mpr ⟨hm, hnq⟩) h j hj

theorem u_slot_zero (h : m.methods.u = .zero) (j : Nat) (hj : j < m.nu) :
    (prescribe mobs q u).2[m.ux + j]? = some 0 := by
  rw [prescribe_snd]
  exact walk_zero u (liveMobs mobs) _ _ (fun a ha => hw.boundU a (mem_liveMobs.mp ha).1) m
    (mem_liveMobs.mpr ⟨hm, hnq⟩) h j hj

include hud in
theorem udot_slot_pres (h : m.methods.udot = .prescribed) (j : Nat) (hj : j < m.nu) :
    (knownUDot mobs udot)[m.ux + j]? = m.udotPoolVals[j]? := by
  rw [knownUDot_eq]
  exact walk_pres udot (liveMobs mobs) _ _ (allocU_entries hw _) (len_udotPool hw)
    (fun a ha => by rw [hud]; exact hw.boundU a (mem_liveMobs.mp ha).1) m (mem_liveMobs.mpr ⟨hm, hnq⟩) h j hj

include hud in
theorem udot_slot_zero (h : m.methods.udot = .zero) (j : Nat) (hj : j < m.nu) :
    (knownUDot mobs udot)[m.ux + j]? = some 0 := by
  rw [knownUDot_eq]
  exact walk_zero udot (liveMobs mobs) _ _ (fun a ha => by rw [hud]; exact hw.boundU a (mem_liveMobs.mp ha).1) m
    (mem_liveMobs.mpr ⟨hm, hnq⟩) h j hj
end slots

/-- two members of a pairwise-ordered list are equal or ordered one way or the other -/
theorem pairwise_mem_cases {α : Type} {R : α → α → Prop} {l : List α} (h : l.Pairwise R) {a b : α}
    (ha : a ∈ l) (hb : b ∈ l) : a = b ∨ R a b ∨ R b a := by
  induction l with
  | nil => simp at ha
  | cons x xs ih =>
    rw [List.pairwise_cons] at h
    rcases List.mem_cons.mp ha with rfl | ha' <;> rcases List.mem_cons.mp hb with rfl | hb'
    · exact Or.inl rfl
    · exact Or.inr (Or.inl (h.1 _ hb'))
    · exact Or.inr (Or.inr (h.1 _ ha'))
    · exact ih h.2 ha' hb'

section untouched
variable {mobs : List (MobIn K)} {q u udot : List K} (hw : WellFormed mobs q.length u.length)
variable {m : MobIn K} (hm : m ∈ mobs) (hnq : m.nq ≠ 0)
include hw hm hnq

/-- the q slots of a mobilizer whose q is neither Prescribed nor Zero are not touched by `prescribe` -/
theorem q_slot_untouched (h1 : m.methods.q ≠ .prescribed) (h2 : m.methods.q ≠ .zero) (j : Nat) (hj : j < m.nq) :
    (prescribe mobs q u).1[m.qx + j]? = q[m.qx + j]? := by
  rw [prescribe_fst]
  apply walk_other
  intro a ha hgov hin
  simp only at hgov hin
  rcases pairwise_mem_cases hw.allocQ (mem_liveMobs.mpr ⟨hm, hnq⟩) ha with rfl | hlt | hlt
  · rcases hgov with h | h
    · exact h1 h
    · exact h2 h
  · omega
  · omega

/-- the u slots of a mobilizer whose u is neither Prescribed nor Zero are not touched by `prescribe` -/
theorem u_slot_untouched (h1 : m.methods.u ≠ .prescribed) (h2 : m.methods.u ≠ .zero) (j : Nat) (hj : j < m.nu) :
    (prescribe mobs q u).2[m.ux + j]? = u[m.ux + j]? := by
  rw [prescribe_snd]
  apply walk_other
  intro a ha hgov hin
  simp only at hgov hin
  rcases pairwise_mem_cases hw.allocU (mem_liveMobs.mpr ⟨hm, hnq⟩) ha with rfl | hlt | hlt
  · rcases hgov with h | h
    · exact h1 h
    · exact h2 h
  · omega
  · omega
end untouched

/-- all entries of a list that has no nonzero entry are zero -/
theorem getElem?_of_not_anyNonzero (xs : List K) (h : anyNonzero xs = false) (j : Nat) (hj : j < xs.length) :
    xs[j]? = some 0 := by
  have : xs[j] = 0 := by
    have hall := h
    simp only [anyNonzero, List.any_eq_false, Bool.not_eq_true, Bool.not_eq_false', beq_iff_eq] at hall
    exact hall _ (List.getElem_mem hj)
  simp [hj, this]

end C10
