import SimbodyModel.C04
import SimbodyProofs.C04_lemmas
import Mathlib.Tactic.Ring
import Mathlib.Tactic.Linarith

/-!
# C04 — Jacobian operators: property theorems

All theorems are about the executable definitions of `SimbodyModel/C04.lean` themselves (no separate abstract
twin is needed: the model is already algebraic), over an arbitrary commutative ring `K`, for an arbitrary
forest of rose trees `ts : List (Tr K)`, arbitrary joint dimensions (`H.length` per body, 0 allowed), arbitrary
hinge columns, shift vectors, speed vectors and force fields.

* `mulJ_adjoint_subtree`, `mulJs_adjoint_subtree` — the inductive core (mutual tree induction)
* `mulJT_adjoint`            `⟪F, J u⟫ = ⟪~J F, u⟫` body-wise pairing, no side condition at all
* `mulJT_adjoint_flat`       the same with the flat generalized-force vector the C++ returns
* `mulJ_eq_bodyVel`          `J u` is the velocity recursion of the kinematics when `V_PB_G = H u`
* `stationJ_is_shift`, `frameJT_adjoint`, `stationJT_adjoint`
* `bias_identity`, `frame_bias_identity`, `station_bias_identity`   `A(udot) = J udot + A(0)`
* `tasks_are_rows`, `tasks_are_rows_transpose`
* `calcFrameJ_entry`, `calcStationJ_entry`   (`calcSysJ_col`, `mulFrameJ_def`, `calcFrameJ_def` in the lemma file only unfold definitions)
* `sysJ_time_derivative`, `sysAcc_is_derivative`   tree level: the executed acceleration recursion is d/dt of the executed `J u`
* `velStep_derivative`       d/dt of one step of the velocity recursion is one step of the acceleration
                             recursion with exactly the Coriolis term the C++ forms (first-order jets)
-/
set_option linter.unusedSectionVars false
set_option linter.unusedVariables false
namespace C04
variable {K : Type} [CommRing K]

/-! ### vocabulary used in the statements -/
mutual
/-- body indices of a subtree in the order the outward pass emits them -/
def ids : Tr K → List Nat
  | .node b cs => b.id :: idss cs
def idss : List (Tr K) → List Nat
  | [] => []
  | c :: cs => ids c ++ idss cs
end

mutual
/-- every body's block of speeds `[u0, u0 + dof)` lies inside `[0, n)` -/
def Fits (n : Nat) : Tr K → Prop
  | .node b cs => b.u0 + b.H.length ≤ n ∧ Fitss n cs
def Fitss (n : Nat) : List (Tr K) → Prop
  | [] => True
  | c :: cs => Fits n c ∧ Fitss n cs
end

/-- a predicate holds for every body of a subtree -/
inductive AllB (P : Bd K → Prop) : Tr K → Prop
  | mk (b : Bd K) (cs : List (Tr K)) (hb : P b) (hcs : ∀ c ∈ cs, AllB P c) : AllB P (.node b cs)

/-- `Σ_i ~F_i * V_i` of two lists of spatial vectors -/
def pairS : List (SV K) → List (SV K) → K
  | F :: Fs, V :: Vs => SV.dot F V + pairS Fs Vs
  | _, _ => 0

/-- `Σ_i ~f_i * v_i` of two lists of 3-vectors -/
def pair3 : List (V3 K) → List (V3 K) → K
  | f :: fs, v :: vs => V3.dot f v + pair3 fs vs
  | _, _ => 0

/-- entrywise sum of two body-tagged lists (tags of the first) -/
def addVals (X Y : BodyVals K) : BodyVals K :=
  List.zipWith (fun a b => (a.1, SV.add a.2 b.2)) X Y

/-! ## 1. the adjoint theorem -/
mutual
/-- Core, subtree form: pairing the outward pass started from parent value `Vp` with `F` equals pairing the
root's accumulated `z` with the shifted parent value, plus the mobility-space pairing of the inward pass. -/
theorem mulJ_adjoint_subtree (F : Nat → SV K) (u : List K) : ∀ (t : Tr K) (Vp : SV K),
    pairV F (mulJ u t Vp) = SV.dot (mulJT F t).1 (phiT t.bd.l Vp) + pairU u (mulJT F t).2
  | .node b cs, Vp => by
      have ih := mulJs_adjoint_subtree F u cs (SV.add (phiT b.l Vp) (mulH b.H (u.drop b.u0)))
      simp only [mulJ, mulJT, pairV, pairU, Tr.bd, ih, ← dot_mulH, SV.dot_add_left, SV.dot_add_right]
      ring
theorem mulJs_adjoint_subtree (F : Nat → SV K) (u : List K) : ∀ (cs : List (Tr K)) (V : SV K),
    pairV F (mulJs u cs V) = SV.dot (mulJTs F cs).1 V + pairU u (mulJTs F cs).2
  | [], V => by simp [mulJs, mulJTs, pairV, pairU, SV.dot_zero_left]
  | c :: cs, V => by
      have h1 := mulJ_adjoint_subtree F u c V
      have h2 := mulJs_adjoint_subtree F u cs V
      simp only [mulJs, mulJTs, pairV_append, pairU_append, h1, h2, SV.dot_add_left, dot_phi]
      ring
end

/-- **Adjoint theorem** `⟪F, J u⟫ = ⟪~J F, u⟫` for every forest, every joint dimension, every hinge matrix,
every shift vector, every `u` and `F` (even ill-formed index assignments: the pairing is body-wise). -/
theorem mulJT_adjoint (ts : List (Tr K)) (F : Nat → SV K) (u : List K) :
    pairV F (sysJ ts u) = pairU u (sysJT ts F) := by
  simp [sysJ, sysJT, mulJs_adjoint_subtree, SV.dot_zero_right]

example : pairV (fun _ => (⟨⟨1, 2, 3⟩, ⟨4, 5, 6⟩⟩ : SV Int))
      (sysJ [Tr.node ⟨1, 0, ⟨1, 0, 2⟩, [⟨⟨0, 0, 1⟩, ⟨0, 3, 0⟩⟩], []⟩
              [Tr.node ⟨2, 1, ⟨0, 1, 1⟩, [⟨⟨1, 0, 0⟩, ⟨0, 0, 0⟩⟩, ⟨⟨0, 0, 0⟩, ⟨0, 1, 0⟩⟩], []⟩ []]] [2, 3, 5])
    = 92 := by decide

mutual
theorem mulJT_fits (F : Nat → SV K) (n : Nat) : ∀ (t : Tr K), Fits n t → FitsM n (mulJT F t).2
  | .node b cs, h => by
      simp only [Fits] at h
      simp only [mulJT, FitsM, mulHt, List.length_map]
      exact ⟨h.1, mulJTs_fits F n cs h.2⟩
theorem mulJTs_fits (F : Nat → SV K) (n : Nat) : ∀ (cs : List (Tr K)), Fitss n cs → FitsM n (mulJTs F cs).2
  | [], _ => by simp [mulJTs, FitsM]
  | c :: cs, h => by
      simp only [Fitss] at h
      simp only [mulJTs]
      exact FitsM_append n _ _ (mulJT_fits F n c h.1) (mulJTs_fits F n cs h.2)
end

/-- Adjoint theorem with the flat length-`n` generalized force vector (what
`multiplyBySystemJacobianTranspose` returns): `(~J F) · u = Σ_bodies ~F_b (J u)_b`. -/
theorem mulJT_adjoint_flat (ts : List (Tr K)) (n : Nat) (h : Fitss n ts) (F : Nat → SV K) (u : List K) :
    dotL (sysJTflat ts n F) u = pairV F (sysJ ts u) := by
  rw [mulJT_adjoint, sysJTflat]
  exact dotL_scatter n u _ (mulJTs_fits F n ts h)

/-! ## 2. `J u` is the velocity recursion -/
mutual
theorem mulJ_eq_bodyVel_subtree (u : List K) (vpb : Nat → SV K) : ∀ (t : Tr K),
    AllB (fun b => vpb b.id = mulH b.H (u.drop b.u0)) t → ∀ Vp, mulJ u t Vp = bodyVel vpb t Vp
  | .node b cs, h, Vp => by
      cases h with
      | mk _ _ hb hcs =>
        simp only [mulJ, bodyVel, hb]
        rw [mulJs_eq_bodyVel_subtree u vpb cs hcs]
theorem mulJs_eq_bodyVel_subtree (u : List K) (vpb : Nat → SV K) : ∀ (cs : List (Tr K)),
    (∀ c ∈ cs, AllB (fun b => vpb b.id = mulH b.H (u.drop b.u0)) c) → ∀ V, mulJs u cs V = bodyVels vpb cs V
  | [], _, V => by simp [mulJs, bodyVels]
  | c :: cs, h, V => by
      simp only [mulJs, bodyVels]
      rw [mulJ_eq_bodyVel_subtree u vpb c (h c (by simp)),
          mulJs_eq_bodyVel_subtree u vpb cs (fun c' hc' => h c' (by simp [hc']))]
end

/-- If every mobilizer's cross-joint velocity is `V_PB_G = H u` (how `realizeVelocity` forms it), then the
spatial velocities produced by the kinematics recursion `V_GB = ~Phi V_GP + V_PB_G` are exactly `J u`. -/
theorem mulJ_eq_bodyVel (ts : List (Tr K)) (u : List K) (vpb : Nat → SV K)
    (h : ∀ c ∈ ts, AllB (fun b => vpb b.id = mulH b.H (u.drop b.u0)) c) :
    sysJ ts u = bodyVels vpb ts SV.zero :=
  mulJs_eq_bodyVel_subtree u vpb ts h SV.zero

example : AllB (fun b => (fun _ => mulH b.H ([2] : List Int)) b.id = mulH b.H (([2] : List Int).drop b.u0))
    (Tr.node ⟨1, 0, ⟨1, 0, 2⟩, [⟨⟨0, 0, 1⟩, ⟨0, 3, 0⟩⟩], []⟩ []) :=
  AllB.mk _ _ rfl (by simp)

/-! ## 3. station / frame operators are the shift composed with `J`; their transposes are adjoint -/
/-- station velocity `= v_B + ω_B × r` of `J u` -/
theorem stationJ_is_shift (ts : List (Tr K)) (tasks : List (Task K)) (u : List K) :
    mulStationJ ts tasks u =
      tasks.map (fun t => V3.add (lookup t.body (sysJ ts u)).v (V3.cross (lookup t.body (sysJ ts u)).w t.r)) := by
  simp [mulStationJ, mulFrameJ, phiT, List.map_map, Function.comp_def]

/-- pointwise adjointness of the task shift: `⟨F, (ω, v + ω × r)⟩ = ⟨(τ + r × f, f), (ω, v)⟩` -/
theorem shift_adjoint (r : V3 K) (F V : SV K) : SV.dot F (phiT r V) = SV.dot (phi r F) V :=
  (dot_phi r F V).symm

/-- station form: `⟨f, v + ω × r⟩ = ⟨(r × f, f), (ω, v)⟩` -/
theorem shift_adjoint_station (r f : V3 K) (V : SV K) :
    V3.dot f (phiT r V).v = SV.dot (phi r ⟨V3.zero, f⟩) V := by
  simp only [SV.dot, phi, phiT, V3.dot, V3.add, V3.cross, V3.zero]; ring

theorem pairV_add (F G : Nat → SV K) : ∀ (X : BodyVals K),
    pairV (fun i => SV.add (F i) (G i)) X = pairV F X + pairV G X
  | [] => by simp [pairV]
  | (i, V) :: r => by simp only [pairV, pairV_add F G r, SV.dot_add_left]; ring

theorem pairV_zero : ∀ (X : BodyVals K), pairV (fun _ => (SV.zero : SV K)) X = 0
  | [] => by simp [pairV]
  | (i, V) :: r => by simp [pairV, pairV_zero r, SV.dot_zero_left]

theorem lookup_not_mem (b : Nat) : ∀ (X : BodyVals K), b ∉ X.map Prod.fst → lookup b X = SV.zero
  | [], _ => rfl
  | (j, V) :: r, h => by
      simp only [List.map_cons, List.mem_cons, not_or] at h
      simp [lookup, h.1, lookup_not_mem b r h.2]

/-- a force field supported on one body pairs with a (duplicate-free) body list through `lookup` -/
theorem pairV_single (b : Nat) (Fb : SV K) : ∀ (X : BodyVals K), (X.map Prod.fst).Nodup →
    pairV (single b Fb) X = SV.dot Fb (lookup b X)
  | [], _ => by simp [pairV, lookup, SV.dot_zero_right]
  | (j, V) :: r, h => by
      simp only [List.map_cons, List.nodup_cons] at h
      by_cases hb : b = j
      · subst hb
        have hz : pairV (single b Fb) r = 0 := by
          rw [pairV_single b Fb r h.2, lookup_not_mem b r h.1, SV.dot_zero_right]
        simp [pairV, lookup, single, hz]
      · have hb' : ¬ j = b := fun e => hb e.symm
        simp [pairV, lookup, single, hb, hb', pairV_single b Fb r h.2, SV.dot_zero_left]

theorem taskForces_cons (t : Task K) (tasks : List (Task K)) (F : SV K) (Fs : List (SV K)) :
    taskForces (t :: tasks) (F :: Fs) =
      fun i => SV.add (single t.body (phi t.r F) i) (taskForces tasks Fs i) := by
  funext i
  by_cases h : i = t.body <;> simp [taskForces, single, h, SV.zero_add]

/-- pairing the accumulated task forces with any duplicate-free list of body values = sum over the tasks -/
theorem pairV_taskForces (X : BodyVals K) (hX : (X.map Prod.fst).Nodup) :
    ∀ (tasks : List (Task K)) (Fs : List (SV K)),
    pairV (taskForces tasks Fs) X = pairS Fs (tasks.map (fun t => phiT t.r (lookup t.body X)))
  | [], Fs => by cases Fs <;> simp [taskForces, pairV_zero, pairS]
  | t :: tasks, [] => by simp [taskForces, pairV_zero, pairS]
  | t :: tasks, F :: Fs => by
      rw [taskForces_cons, pairV_add, pairV_single _ _ X hX, pairV_taskForces X hX tasks Fs]
      simp [pairS, dot_phi]

mutual
theorem mulJ_ids (u : List K) : ∀ (t : Tr K) (Vp : SV K), (mulJ u t Vp).map Prod.fst = ids t
  | .node b cs, Vp => by simp [mulJ, ids, mulJs_ids u cs]
theorem mulJs_ids (u : List K) : ∀ (cs : List (Tr K)) (V : SV K), (mulJs u cs V).map Prod.fst = idss cs
  | [], V => by simp [mulJs, idss]
  | c :: cs, V => by simp [mulJs, idss, mulJ_ids u c, mulJs_ids u cs]
end

/-- **Frame Jacobian transpose is the adjoint of the frame Jacobian** (any task list, repeated bodies allowed,
tasks on Ground or on unknown bodies contribute zero on both sides). -/
theorem frameJT_adjoint (ts : List (Tr K)) (n : Nat) (hfit : Fitss n ts) (hid : (idss ts).Nodup)
    (tasks : List (Task K)) (Fs : List (SV K)) (u : List K) :
    dotL (mulFrameJT ts n tasks Fs) u = pairS Fs (mulFrameJ ts tasks u) := by
  rw [mulFrameJT, mulJT_adjoint_flat ts n hfit, mulFrameJ]
  exact pairV_taskForces _ (by rw [sysJ, mulJs_ids]; exact hid) tasks Fs

theorem pairS_station : ∀ (fs : List (V3 K)) (Vs : List (SV K)),
    pairS (fs.map (fun f => (⟨V3.zero, f⟩ : SV K))) Vs = pair3 fs (Vs.map (·.v))
  | [], Vs => by cases Vs <;> simp [pairS, pair3]
  | f :: fs, [] => by simp [pairS, pair3]
  | f :: fs, V :: Vs => by
      simp only [List.map_cons, pairS, pair3, pairS_station fs Vs]
      simp [SV.dot, V3.dot, V3.zero]

/-- **Station Jacobian transpose is the adjoint of the station Jacobian.** -/
theorem stationJT_adjoint (ts : List (Tr K)) (n : Nat) (hfit : Fitss n ts) (hid : (idss ts).Nodup)
    (tasks : List (Task K)) (fs : List (V3 K)) (u : List K) :
    dotL (mulStationJT ts n tasks fs) u = pair3 fs (mulStationJ ts tasks u) := by
  rw [mulStationJT, frameJT_adjoint ts n hfit hid, mulStationJ, pairS_station]

/-! ## 4. bias terms: `A(udot) = J udot + A(0)` -/
mutual
theorem acc_split_subtree (a : Nat → SV K) (ud : List K) : ∀ (t : Tr K) (X Y : SV K),
    acc a ud t (SV.add X Y) = addVals (mulJ ud t X) (acc a [] t Y)
  | .node b cs, X, Y => by
      have e : SV.add (SV.add (phiT b.l (SV.add X Y)) (mulH b.H (ud.drop b.u0))) (a b.id)
          = SV.add (SV.add (phiT b.l X) (mulH b.H (ud.drop b.u0)))
                   (SV.add (SV.add (phiT b.l Y) (mulH b.H (([] : List K).drop b.u0))) (a b.id)) := by
        simp only [List.drop_nil, mulH_nil_right, phiT_add, SV.add_zero]
        apply SV.ext' <;> apply V3.ext' <;> simp only [SV.add, V3.add] <;> ring
      simp only [acc, mulJ, addVals, List.zipWith_cons_cons]
      rw [e, accs_split_subtree a ud cs]
      rfl
theorem accs_split_subtree (a : Nat → SV K) (ud : List K) : ∀ (cs : List (Tr K)) (X Y : SV K),
    accs a ud cs (SV.add X Y) = addVals (mulJs ud cs X) (accs a [] cs Y)
  | [], X, Y => by simp [accs, mulJs, addVals]
  | c :: cs, X, Y => by
      have hlen : (mulJ ud c X).length = (acc a [] c Y).length := by
        have h1 := congrArg List.length (mulJ_ids ud c X)
        have h2 := congrArg List.length (acc_ids a [] c Y)
        simp only [List.length_map] at h1 h2
        rw [h1, h2]
      simp only [accs, mulJs, addVals]
      rw [List.zipWith_append hlen]
      rw [← addVals, ← addVals, ← acc_split_subtree a ud c X Y, ← accs_split_subtree a ud cs X Y]
theorem acc_ids (a : Nat → SV K) (ud : List K) : ∀ (t : Tr K) (Ap : SV K), (acc a ud t Ap).map Prod.fst = ids t
  | .node b cs, Ap => by simp [acc, ids, accs_ids a ud cs]
theorem accs_ids (a : Nat → SV K) (ud : List K) : ∀ (cs : List (Tr K)) (A : SV K),
    (accs a ud cs A).map Prod.fst = idss cs
  | [], A => by simp [accs, idss]
  | c :: cs, A => by simp [accs, idss, acc_ids a ud c, accs_ids a ud cs]
end

/-- **Bias identity**: the body accelerations for any `udot` (recursion of
`calcBodyAccelerationsFromUdotOutward`) are `J udot` plus the accelerations for `udot = 0`, which is what
`calcBiasForSystemJacobian` returns (the total Coriolis acceleration). -/
theorem bias_identity (ts : List (Tr K)) (a : Nat → SV K) (ud : List K) :
    sysAcc ts a ud = addVals (sysJ ts ud) (sysBias ts a) := by
  have := accs_split_subtree a ud ts SV.zero SV.zero
  rwa [SV.add_zero] at this

theorem lookup_addVals (i : Nat) : ∀ (X Y : BodyVals K), X.map Prod.fst = Y.map Prod.fst →
    lookup i (addVals X Y) = SV.add (lookup i X) (lookup i Y)
  | [], [], _ => by simp [addVals, lookup, SV.add_zero]
  | [], _ :: _, h => by simp at h
  | (j, V) :: X, [], h => by simp at h
  | (j, V) :: X, (k, W) :: Y, h => by
      simp only [List.map_cons, List.cons.injEq] at h
      obtain ⟨hjk, hr⟩ := h
      subst hjk
      have ih := lookup_addVals i X Y hr
      simp only [addVals] at ih
      by_cases hi : i = j <;> simp [addVals, lookup, hi, ih]

/-- frame tasks: acceleration of the task frame for any `udot` = `JF udot + JFdot u` -/
theorem frame_bias_identity (ts : List (Tr K)) (a : Nat → SV K) (w : Nat → V3 K)
    (tasks : List (Task K)) (ud : List K) :
    accFrame ts a w tasks ud =
      List.zipWith SV.add (mulFrameJ ts tasks ud) (biasFrameJ ts a w tasks) := by
  have hid : (sysJ ts ud).map Prod.fst = (sysBias ts a).map Prod.fst := by
    rw [sysJ, sysBias, mulJs_ids, accs_ids]
  simp only [accFrame, mulFrameJ, biasFrameJ, bias_identity]
  induction tasks with
  | nil => simp
  | cons t tasks ih =>
    simp only [List.map_cons, List.zipWith_cons_cons, lookup_addVals _ _ _ hid, shiftAcc_add] at ih ⊢
    rw [ih]

/-- station tasks: `a_S(udot) = JS udot + JSdot u` -/
theorem station_bias_identity (ts : List (Tr K)) (a : Nat → SV K) (w : Nat → V3 K)
    (tasks : List (Task K)) (ud : List K) :
    (accFrame ts a w tasks ud).map (·.v) =
      List.zipWith V3.add (mulStationJ ts tasks ud) (biasStationJ ts a w tasks) := by
  rw [frame_bias_identity, mulStationJ, biasStationJ]
  generalize mulFrameJ ts tasks ud = X
  generalize biasFrameJ ts a w tasks = Y
  induction X generalizing Y with
  | nil => simp
  | cons x X ih => cases Y with
    | nil => simp
    | cons y Y => simp [SV.add, ih]

/-! ## 5. a task list is a row selection (duplicates included) -/
/-- rows stack: the result for a concatenated task list is the concatenation of the results; in particular
task `i` of a list gives exactly what the one-task call gives, however often its body is repeated -/
theorem tasks_are_rows (ts : List (Tr K)) (t1 t2 : List (Task K)) (u : List K) :
    mulFrameJ ts (t1 ++ t2) u = mulFrameJ ts t1 u ++ mulFrameJ ts t2 u ∧
    mulStationJ ts (t1 ++ t2) u = mulStationJ ts t1 u ++ mulStationJ ts t2 u := by
  simp [mulFrameJ, mulStationJ]

/-- transposes: the generalized force of a task list is the sum of the one-task generalized forces
(entry `j`; tasks on the same body accumulate) -/
theorem tasks_are_rows_transpose (ts : List (Tr K)) (n : Nat) (hfit : Fitss n ts) (hid : (idss ts).Nodup)
    (t : Task K) (tasks : List (Task K)) (F : SV K) (Fs : List (SV K)) (j : Nat) (hj : j < n) :
    (mulFrameJT ts n (t :: tasks) (F :: Fs)).getD j 0 =
      (mulFrameJT ts n [t] [F]).getD j 0 + (mulFrameJT ts n tasks Fs).getD j 0 := by
  have e := fun (tk : List (Task K)) (G : List (SV K)) =>
    frameJT_adjoint ts n hfit hid tk G (unitL n j)
  simp only [dotL_unitL, hj, if_true] at e
  rw [e, e, e]
  simp [mulFrameJ, pairS]

/-! ## 6. explicit matrices -/
theorem dot_unit (V : SV K) (i : Nat) : SV.dot (SV.unit i) V = (SV.toList V).getD i 0 := by
  match i with
  | 0 | 1 | 2 | 3 | 4 | 5 => simp [SV.unit, V3.unit, SV.dot, V3.dot, V3.zero, SV.toList]
  | i + 6 =>
    have h1 : ¬ (i + 6 < 3) := by omega
    have h2 : i + 6 - 3 ≠ 0 ∧ i + 6 - 3 ≠ 1 ∧ i + 6 - 3 ≠ 2 := by omega
    simp [SV.unit, V3.unit, SV.dot, V3.dot, V3.zero, SV.toList, h1]

/-- `calcFrameJacobian` builds its rows through `~J` (one unit force at a time); entry `(task, i, j)` of the
result nevertheless equals component `i` of the frame operator applied to `e_j`: the explicit matrix and
the O(n) operator are the same linear map. -/
theorem calcFrameJ_entry (ts : List (Tr K)) (n : Nat) (hfit : Fitss n ts) (hid : (idss ts).Nodup)
    (t : Task K) (i j : Nat) (hj : j < n) :
    (sysJTflat ts n (single t.body (phi t.r (SV.unit i)))).getD j 0 =
      (SV.toList (phiT t.r (lookup t.body (sysJ ts (unitL n j))))).getD i 0 := by
  have e := mulJT_adjoint_flat ts n hfit (single t.body (phi t.r (SV.unit i))) (unitL n j)
  simp only [dotL_unitL, hj, if_true] at e
  rw [e, pairV_single _ _ _ (by rw [sysJ, mulJs_ids]; exact hid), dot_phi, dot_unit]

/-- `calcStationJacobian`: entry `(task, i, j)` = component `i` of the station velocity for `u = e_j` -/
theorem calcStationJ_entry (ts : List (Tr K)) (n : Nat) (hfit : Fitss n ts) (hid : (idss ts).Nodup)
    (t : Task K) (i j : Nat) (hi : i < 3) (hj : j < n) :
    (sysJTflat ts n (single t.body (phi t.r (SV.unit (i + 3))))).getD j 0 =
      (V3.toList (phiT t.r (lookup t.body (sysJ ts (unitL n j)))).v).getD i 0 := by
  rw [calcFrameJ_entry ts n hfit hid t (i + 3) j hj]
  match i, hi with
  | 0, _ | 1, _ | 2, _ => simp [SV.toList, V3.toList]

/-! ## 7. the Coriolis term is the time derivative of the velocity step (first-order jets) -/
theorem mulH_jet : ∀ (H H' : List (SV K)) (u u' : List K), H.length = H'.length → u.length = u'.length →
    SV.ep (mulH (List.zipWith SV.jet H H') (List.zipWith Jet.mk u u')) = SV.add (mulH H u') (mulH H' u) ∧
    SV.re (mulH (List.zipWith SV.jet H H') (List.zipWith Jet.mk u u')) = mulH H u
  | [], [], u, u', _, _ => by
      simp [mulH, SV.ep, SV.re, V3.ep, V3.re, SV.zero, V3.zero, SV.add, V3.add]
      constructor <;> rfl
  | [], _ :: _, _, _, h, _ => by simp at h
  | _ :: _, [], _, _, h, _ => by simp at h
  | h :: H, h' :: H', [], [], _, _ => by
      simp [mulH, SV.ep, SV.re, V3.ep, V3.re, SV.zero, V3.zero, SV.add, V3.add]
      constructor <;> rfl
  | h :: H, h' :: H', [], _ :: _, _, hu => by simp at hu
  | h :: H, h' :: H', _ :: _, [], _, hu => by simp at hu
  | h :: H, h' :: H', x :: u, x' :: u', hH, hu => by
      obtain ⟨ih1, ih2⟩ := mulH_jet H H' u u' (by simpa using hH) (by simpa using hu)
      simp only [List.zipWith_cons_cons, mulH]
      constructor
      · have : SV.ep (SV.add (SV.smul (Jet.mk x x') (SV.jet h h'))
              (mulH (List.zipWith SV.jet H H') (List.zipWith Jet.mk u u')))
            = SV.add (SV.ep (SV.smul (Jet.mk x x') (SV.jet h h')))
                (SV.ep (mulH (List.zipWith SV.jet H H') (List.zipWith Jet.mk u u'))) := rfl
        rw [this, ih1]
        apply SV.ext' <;> apply V3.ext' <;>
          simp only [SV.add, SV.smul, SV.ep, SV.jet, V3.add, V3.smul, V3.ep, V3.jet, Jet.mul_ep] <;>
          ring
      · have : SV.re (SV.add (SV.smul (Jet.mk x x') (SV.jet h h'))
              (mulH (List.zipWith SV.jet H H') (List.zipWith Jet.mk u u')))
            = SV.add (SV.re (SV.smul (Jet.mk x x') (SV.jet h h')))
                (SV.re (mulH (List.zipWith SV.jet H H') (List.zipWith Jet.mk u u'))) := rfl
        rw [this, ih2]
        apply SV.ext' <;> apply V3.ext' <;>
          simp only [SV.add, SV.smul, SV.re, SV.jet, V3.add, V3.smul, V3.re, V3.jet, Jet.mul_re]

/-- Run one step of the velocity recursion `V = ~Phi(l) V_P + H u` on first-order jets (value, time
derivative): with `l' = v_B − v_P` (the derivative of `p_PB_G`), `V_P' = A_P`, `u' = udot`, the derivative part
of the result is one step of the acceleration recursion `~Phi(l) A_P + H udot + a` where `a` is exactly the
mobilizer Coriolis acceleration `(HDot u).w, (HDot u).v + ω_P × (v_B − v_P)` formed by
`calcJointIndependentKinematicsVel`.  So `A = J udot + Jdot u` with `Jdot u` the total Coriolis acceleration. -/
theorem velStep_derivative (l vB vP : V3 K) (VP AP : SV K) (H H' : List (SV K)) (u ud : List K)
    (hH : H.length = H'.length) (hu : u.length = ud.length) (hvP : VP.v = vP) :
    SV.ep (SV.add (phiT (V3.jet l (V3.sub vB vP)) (SV.jet VP AP))
                  (mulH (List.zipWith SV.jet H H') (List.zipWith Jet.mk u ud)))
      = SV.add (SV.add (phiT l AP) (mulH H ud)) (mobCoriolis (mulH H' u) VP.w vB vP) := by
  have h := (mulH_jet H H' u ud hH hu).1
  have : SV.ep (SV.add (phiT (V3.jet l (V3.sub vB vP)) (SV.jet VP AP))
                  (mulH (List.zipWith SV.jet H H') (List.zipWith Jet.mk u ud)))
      = SV.add (SV.ep (phiT (V3.jet l (V3.sub vB vP)) (SV.jet VP AP)))
               (SV.ep (mulH (List.zipWith SV.jet H H') (List.zipWith Jet.mk u ud))) := rfl
  rw [this, h]
  subst hvP
  apply SV.ext' <;> apply V3.ext' <;>
    simp only [SV.add, SV.ep, SV.jet, V3.add, V3.sub, V3.cross, V3.ep, V3.jet, phiT, mobCoriolis,
      Jet.add_ep, Jet.sub_ep, Jet.mul_ep] <;>
    ring

/-! ## 8. tree level: the acceleration recursion with the C++ Coriolis increments is d/dt of `J u` along the motion -/
mutual
/-- the tree as a first-order jet along the motion generated by `u`: every `p_PB_G` moves with `v_B − v_P` (velocities from
the model's own `J u` recursion), every hinge column with the supplied `HDot` columns (`Hd id`) -/
def liftT (u : List K) (Hd : Nat → List (SV K)) : Tr K → SV K → Tr (Jet K)
  | .node b cs, Vp =>
    let V := SV.add (phiT b.l Vp) (mulH b.H (u.drop b.u0))
    .node ⟨b.id, b.u0, V3.jet b.l (V3.sub V.v Vp.v), List.zipWith SV.jet b.H (Hd b.id), []⟩ (liftTs u Hd cs V)
def liftTs (u : List K) (Hd : Nat → List (SV K)) : List (Tr K) → SV K → List (Tr (Jet K))
  | [], _ => []
  | c :: cs, V => liftT u Hd c V :: liftTs u Hd cs V
end

mutual
/-- `calcBodyAccelerationsFromUdotOutward` with the Coriolis increment *computed* the way
`calcJointIndependentKinematicsVel` does: `a = ((HDot u).w, (HDot u).v + ω_P × (v_B − v_P))` -/
def accD (u ud : List K) (Hd : Nat → List (SV K)) : Tr K → SV K → SV K → BodyVals K
  | .node b cs, Vp, Ap =>
    let V := SV.add (phiT b.l Vp) (mulH b.H (u.drop b.u0))
    let A := SV.add (SV.add (phiT b.l Ap) (mulH b.H (ud.drop b.u0)))
                    (mobCoriolis (mulH (Hd b.id) (u.drop b.u0)) Vp.w V.v Vp.v)
    (b.id, A) :: accDs u ud Hd cs V A
def accDs (u ud : List K) (Hd : Nat → List (SV K)) : List (Tr K) → SV K → SV K → BodyVals K
  | [], _, _ => []
  | c :: cs, V, A => accD u ud Hd c V A ++ accDs u ud Hd cs V A
end

/-- pair values with their time derivatives -/
def jetVals (X Y : BodyVals K) : List (Nat × SV (Jet K)) :=
  List.zipWith (fun a b => (a.1, SV.jet a.2 b.2)) X Y

theorem SV.jet_of_parts (X : SV (Jet K)) (V A : SV K) (h1 : SV.re X = V) (h2 : SV.ep X = A) : X = SV.jet V A := by
  subst h1; subst h2
  rcases X with ⟨⟨⟨a, a'⟩, ⟨b, b'⟩, ⟨c, c'⟩⟩, ⟨⟨d, d'⟩, ⟨e, e'⟩, ⟨f, f'⟩⟩⟩
  rfl

theorem phiT_jet_re (l l' : V3 K) (V A : SV K) : SV.re (phiT (V3.jet l l') (SV.jet V A)) = phiT l V := by
  apply SV.ext' <;> apply V3.ext' <;>
    simp only [SV.re, SV.jet, V3.re, V3.jet, phiT, V3.add, V3.cross, Jet.add_re, Jet.sub_re, Jet.mul_re]

/-- one node of the jet recursion produces exactly (velocity, acceleration) of the two real recursions -/
theorem node_jet (b : Bd K) (Hd : List (SV K)) (u ud : List K) (Vp Ap : SV K)
    (hH : b.H.length = Hd.length) (hu : u.length = ud.length) :
    SV.add (phiT (V3.jet b.l (V3.sub (SV.add (phiT b.l Vp) (mulH b.H (u.drop b.u0))).v Vp.v)) (SV.jet Vp Ap))
           (mulH (List.zipWith SV.jet b.H Hd) ((List.zipWith Jet.mk u ud).drop b.u0))
      = SV.jet (SV.add (phiT b.l Vp) (mulH b.H (u.drop b.u0)))
               (SV.add (SV.add (phiT b.l Ap) (mulH b.H (ud.drop b.u0)))
                  (mobCoriolis (mulH Hd (u.drop b.u0)) Vp.w (SV.add (phiT b.l Vp) (mulH b.H (u.drop b.u0))).v Vp.v)) := by
  have hd : (u.drop b.u0).length = (ud.drop b.u0).length := by simp [hu]
  rw [List.drop_zipWith]
  apply SV.jet_of_parts
  · have h2 := (mulH_jet b.H Hd (u.drop b.u0) (ud.drop b.u0) hH hd).2
    have : SV.re (SV.add (phiT (V3.jet b.l (V3.sub (SV.add (phiT b.l Vp) (mulH b.H (u.drop b.u0))).v Vp.v)) (SV.jet Vp Ap))
              (mulH (List.zipWith SV.jet b.H Hd) (List.zipWith Jet.mk (u.drop b.u0) (ud.drop b.u0))))
        = SV.add (SV.re (phiT (V3.jet b.l (V3.sub (SV.add (phiT b.l Vp) (mulH b.H (u.drop b.u0))).v Vp.v)) (SV.jet Vp Ap)))
                 (SV.re (mulH (List.zipWith SV.jet b.H Hd) (List.zipWith Jet.mk (u.drop b.u0) (ud.drop b.u0)))) := rfl
    rw [this, h2, phiT_jet_re]
  · exact velStep_derivative b.l _ Vp.v Vp Ap b.H Hd (u.drop b.u0) (ud.drop b.u0) hH hd rfl

mutual
theorem jet_recursion_subtree (u ud : List K) (Hd : Nat → List (SV K)) (hu : u.length = ud.length) :
    ∀ (t : Tr K), AllB (fun b => b.H.length = (Hd b.id).length) t → ∀ (Vp Ap : SV K),
    mulJ (List.zipWith Jet.mk u ud) (liftT u Hd t Vp) (SV.jet Vp Ap) = jetVals (mulJ u t Vp) (accD u ud Hd t Vp Ap)
  | .node b cs, h, Vp, Ap => by
      cases h with
      | mk _ _ hb hcs =>
        simp only [liftT, mulJ, accD, jetVals, List.zipWith_cons_cons]
        rw [node_jet b (Hd b.id) u ud Vp Ap hb hu, jet_recursion_kids u ud Hd hu cs hcs]
        rfl
theorem jet_recursion_kids (u ud : List K) (Hd : Nat → List (SV K)) (hu : u.length = ud.length) :
    ∀ (cs : List (Tr K)), (∀ c ∈ cs, AllB (fun b => b.H.length = (Hd b.id).length) c) → ∀ (V A : SV K),
    mulJs (List.zipWith Jet.mk u ud) (liftTs u Hd cs V) (SV.jet V A) = jetVals (mulJs u cs V) (accDs u ud Hd cs V A)
  | [], _, V, A => by simp [liftTs, mulJs, accDs, jetVals]
  | c :: cs, h, V, A => by
      have hlen : (mulJ u c V).length = (accD u ud Hd c V A).length := by
        have h1 := congrArg List.length (mulJ_ids u c V)
        have h2 := congrArg List.length (accD_ids u ud Hd c V A)
        simp only [List.length_map] at h1 h2
        rw [h1, h2]
      simp only [liftTs, mulJs, accDs, jetVals]
      rw [List.zipWith_append hlen, ← jetVals, ← jetVals,
          jet_recursion_subtree u ud Hd hu c (h c (by simp)) V A,
          jet_recursion_kids u ud Hd hu cs (fun c' hc' => h c' (by simp [hc'])) V A]
theorem accD_ids (u ud : List K) (Hd : Nat → List (SV K)) : ∀ (t : Tr K) (Vp Ap : SV K),
    (accD u ud Hd t Vp Ap).map Prod.fst = ids t
  | .node b cs, Vp, Ap => by simp [accD, ids, accDs_ids u ud Hd cs]
theorem accDs_ids (u ud : List K) (Hd : Nat → List (SV K)) : ∀ (cs : List (Tr K)) (V A : SV K),
    (accDs u ud Hd cs V A).map Prod.fst = idss cs
  | [], V, A => by simp [accDs, idss]
  | c :: cs, V, A => by simp [accDs, idss, accD_ids u ud Hd c, accDs_ids u ud Hd cs]
end

/-- **Tree-level `A = d/dt (J u)`.**  Run the *same* operator `sysJ` on the jet of the tree along its own motion
(`p_PB_G` moving with `v_B − v_P`, `H` with `HDot`, `u` with `udot`): the value parts are `J u` and the derivative parts are
the acceleration recursion with the Coriolis increments the C++ forms.  With `udot = 0` this says that what
`calcBiasForSystemJacobian` returns is `Jdot · u`, provided the `HDot` columns are the derivatives of the `H` columns. -/
theorem sysJ_time_derivative (ts : List (Tr K)) (u ud : List K) (Hd : Nat → List (SV K)) (hu : u.length = ud.length)
    (hH : ∀ c ∈ ts, AllB (fun b => b.H.length = (Hd b.id).length) c) :
    sysJ (liftTs u Hd ts SV.zero) (List.zipWith Jet.mk u ud)
      = jetVals (sysJ ts u) (accDs u ud Hd ts SV.zero SV.zero) := by
  have h := jet_recursion_kids u ud Hd hu ts hH SV.zero SV.zero
  have z : (SV.jet (SV.zero : SV K) SV.zero) = (SV.zero : SV (Jet K)) := rfl
  rw [z] at h
  exact h

example : AllB (fun b => b.H.length = ((fun _ => [(⟨⟨0, 1, 0⟩, ⟨0, 0, 2⟩⟩ : SV Int)]) b.id).length)
    (Tr.node ⟨1, 0, ⟨1, 0, 2⟩, [⟨⟨0, 0, 1⟩, ⟨0, 3, 0⟩⟩], []⟩ []) :=
  AllB.mk _ _ rfl (by simp)

mutual
/-- the per-mobilizer increments the recursion computes, tagged by body (what `getMobilizerCoriolisAcceleration` exports) -/
def corList (u : List K) (Hd : Nat → List (SV K)) : Tr K → SV K → BodyVals K
  | .node b cs, Vp =>
    let V := SV.add (phiT b.l Vp) (mulH b.H (u.drop b.u0))
    (b.id, mobCoriolis (mulH (Hd b.id) (u.drop b.u0)) Vp.w V.v Vp.v) :: corLists u Hd cs V
def corLists (u : List K) (Hd : Nat → List (SV K)) : List (Tr K) → SV K → BodyVals K
  | [], _ => []
  | c :: cs, V => corList u Hd c V ++ corLists u Hd cs V
end

mutual
theorem accD_eq_acc_subtree (u ud : List K) (Hd : Nat → List (SV K)) (a : Nat → SV K) : ∀ (t : Tr K) (Vp Ap : SV K),
    (∀ x ∈ corList u Hd t Vp, a x.1 = x.2) → accD u ud Hd t Vp Ap = acc a ud t Ap
  | .node b cs, Vp, Ap, h => by
      have hb : a b.id = mobCoriolis (mulH (Hd b.id) (u.drop b.u0)) Vp.w
          (SV.add (phiT b.l Vp) (mulH b.H (u.drop b.u0))).v Vp.v :=
        h (b.id, mobCoriolis (mulH (Hd b.id) (u.drop b.u0)) Vp.w
          (SV.add (phiT b.l Vp) (mulH b.H (u.drop b.u0))).v Vp.v) (by simp [corList])
      simp only [accD, acc, hb]
      rw [accDs_eq_acc_kids u ud Hd a cs _ _ (fun x hx => h x (by simp [corList, hx]))]
theorem accDs_eq_acc_kids (u ud : List K) (Hd : Nat → List (SV K)) (a : Nat → SV K) : ∀ (cs : List (Tr K)) (V A : SV K),
    (∀ x ∈ corLists u Hd cs V, a x.1 = x.2) → accDs u ud Hd cs V A = accs a ud cs A
  | [], _, _, _ => by simp [accDs, accs]
  | c :: cs, V, A, h => by
      simp only [accDs, accs]
      rw [accD_eq_acc_subtree u ud Hd a c V A (fun x hx => h x (by simp [corLists, hx])),
          accDs_eq_acc_kids u ud Hd a cs V A (fun x hx => h x (by simp [corLists, hx]))]
end

/-- If the exported increments `a` are the ones the recursion computes, the executed `sysAcc` (and, for `udot = 0`,
`sysBias`) is that derivative: together with `sysJ_time_derivative`, `bias = Jdot u` on the whole tree. -/
theorem sysAcc_is_derivative (ts : List (Tr K)) (u ud : List K) (Hd : Nat → List (SV K)) (a : Nat → SV K)
    (ha : ∀ x ∈ corLists u Hd ts SV.zero, a x.1 = x.2) :
    accDs u ud Hd ts SV.zero SV.zero = sysAcc ts a ud :=
  accDs_eq_acc_kids u ud Hd a ts SV.zero SV.zero ha

end C04
