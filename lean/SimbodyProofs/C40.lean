import SimbodyModel.C40
import Mathlib.Tactic.Ring
import Mathlib.Tactic.FieldSimp
import Mathlib.Tactic.Linarith
import Mathlib.Tactic.Positivity
import Mathlib.Tactic.NormNum
import Mathlib.Algebra.Order.Field.Basic
import Mathlib.Algebra.Order.AbsoluteValue.Basic

/-!
# C40 — property theorems: numerical differentiation meets its error bounds

Over an arbitrary linear ordered field `K` (exact arithmetic).  The model (`SimbodyModel/C40.lean`) mirrors
`DifferentiatorRep::calcDerivative/calcGradient/calcJacobian`.  The rounding part of the bound is carried as
an explicit perturbation `δ` of the function values (`forward_error_bound`, `central_error_bound`).
-/
namespace C40
variable {K : Type} [Field K] [LinearOrder K] [IsStrictOrderedRing K]

theorem absK_eq_abs (x : K) : absK x = |x| := by
  unfold absK
  split_ifs with h
  · exact (abs_of_neg h).symm
  · exact (abs_of_nonneg (not_lt.mp h)).symm

omit [Field K] [IsStrictOrderedRing K] in
theorem maxK_eq_max (a b : K) : maxK a b = max a b := by
  unfold maxK
  split_ifs with h
  · exact (max_eq_right (le_of_lt h)).symm
  · exact (max_eq_left (not_lt.mp h)).symm

/-- **step selection**: in exact arithmetic `cleanUpH` is the identity, the step is strictly positive (so
`y0 + h ≠ y0`), at least `accFac/10` and at least `accFac·|y0|`: it is never zero and scales with `|y0|` -/
theorem step_nonzero_and_scaled (accFac y0 : K) (ha : 0 < accFac) :
    stepH accFac y0 = accFac * max |y0| (1 / 10) ∧ 0 < stepH accFac y0 ∧ y0 + stepH accFac y0 ≠ y0 ∧
    accFac / 10 ≤ stepH accFac y0 ∧ accFac * |y0| ≤ stepH accFac y0 := by
  have e : stepH accFac y0 = accFac * max |y0| (1 / 10) := by
    simp only [stepH, cleanUpH, hEst, yMin, absK_eq_abs, maxK_eq_max]; ring
  have hm : (1 : K) / 10 ≤ max |y0| (1 / 10) := le_max_right _ _
  have hm' : |y0| ≤ max |y0| (1 / 10) := le_max_left _ _
  have hpos : 0 < stepH accFac y0 := by rw [e]; apply mul_pos ha; linarith [show (0 : K) < 1 / 10 by norm_num]
  refine ⟨e, hpos, by linarith, ?_, ?_⟩
  · rw [e]; have := mul_le_mul_of_nonneg_left hm (le_of_lt ha); linarith
  · rw [e]; exact mul_le_mul_of_nonneg_left hm' (le_of_lt ha)

omit [LinearOrder K] [IsStrictOrderedRing K] in
/-- **forward difference is exact for affine functions** (any non-zero step) -/
theorem forwardQ_exact_affine (a b y0 h : K) (hh : h ≠ 0) :
    forwardQ (a * (y0 + h) + b) (a * y0 + b) h = a := by
  unfold forwardQ; field_simp; ring

/-- **central difference is exact for quadratics** -/
theorem centralQ_exact_quadratic (a b c y0 h : K) (hh : h ≠ 0) :
    centralQ (a * (y0 + h) ^ 2 + b * (y0 + h) + c) (a * (y0 - h) ^ 2 + b * (y0 - h) + c) h = 2 * a * y0 + b := by
  unfold centralQ; field_simp; ring

omit [LinearOrder K] [IsStrictOrderedRing K] in
/-- forward difference on a quadratic: the error is exactly `h·f''/2 = a·h` -/
theorem forwardQ_error_quadratic (a b c y0 h : K) (hh : h ≠ 0) :
    forwardQ (a * (y0 + h) ^ 2 + b * (y0 + h) + c) (a * y0 ^ 2 + b * y0 + c) h - (2 * a * y0 + b) = a * h := by
  unfold forwardQ; field_simp; ring

/-- central difference on a quartic `p`: the error is exactly `h²·p'''(y0)/6 = h²(4a·y0 + b)` (the `h⁴` term needs a
fifth derivative) -/
theorem centralQ_error_quartic (a b c d e y0 h : K) (hh : h ≠ 0) :
    centralQ (a * (y0 + h) ^ 4 + b * (y0 + h) ^ 3 + c * (y0 + h) ^ 2 + d * (y0 + h) + e)
             (a * (y0 - h) ^ 4 + b * (y0 - h) ^ 3 + c * (y0 - h) ^ 2 + d * (y0 - h) + e) h
      - (4 * a * y0 ^ 3 + 3 * b * y0 ^ 2 + 2 * c * y0 + d) = h ^ 2 * (4 * a * y0 + b) := by
  unfold centralQ; field_simp; ring

/-- **`calcDerivative`, forward, affine function**: with the step the code selects (any `accFac > 0`, any `y0`,
including `y0 = 0`) the estimate is exactly the slope -/
theorem forward_exact_affine (a b accFac y0 : K) (ha : 0 < accFac) :
    forwardDiff (fun y => a * y + b) accFac y0 (a * y0 + b) = a := by
  have h := (step_nonzero_and_scaled accFac y0 ha).2.1
  simp only [forwardDiff]
  exact forwardQ_exact_affine a b y0 _ (ne_of_gt h)

/-- **`calcDerivative`, central, quadratic function**: exact -/
theorem central_exact_quadratic (a b c accFac y0 : K) (ha : 0 < accFac) :
    centralDiff (fun y => a * y ^ 2 + b * y + c) accFac y0 = 2 * a * y0 + b := by
  have h := (step_nonzero_and_scaled accFac y0 ha).2.1
  simp only [centralDiff]
  exact centralQ_exact_quadratic a b c y0 _ (ne_of_gt h)

/-- **forward error bound (order 1 + rounding)**: if `f` obeys the second-order Taylor bound
`|f(y0+h) − f(y0) − d·h| ≤ M·h²/2` and the values actually used are within `δ` of the true ones, the forward
estimate differs from `d` by at most `M·h/2 + 2δ/h` -/
theorem forward_error_bound (fp f0 fp' f0' d M δ h : K) (hh : 0 < h)
    (taylor : |fp - f0 - d * h| ≤ M * h ^ 2 / 2) (rp : |fp' - fp| ≤ δ) (r0 : |f0' - f0| ≤ δ) :
    |forwardQ fp' f0' h - d| ≤ M * h / 2 + 2 * δ / h := by
  have e : forwardQ fp' f0' h - d = ((fp - f0 - d * h) + (fp' - fp) - (f0' - f0)) / h := by
    unfold forwardQ; field_simp; ring
  rw [e, abs_div, abs_of_pos hh, div_le_iff₀ hh]
  have t1 := abs_add_le ((fp - f0 - d * h) + (fp' - fp)) (-(f0' - f0))
  have t2 := abs_add_le (fp - f0 - d * h) (fp' - fp)
  rw [abs_neg] at t1
  have e2 : (M * h / 2 + 2 * δ / h) * h = M * h ^ 2 / 2 + 2 * δ := by field_simp
  rw [e2, sub_eq_add_neg]
  linarith

/-- **central error bound (order 2 + rounding)**: with third-order Taylor bounds on both sides,
`|f(y0±h) − (f0 ± d·h + c·h²)| ≤ M·h³/6`, and values within `δ`, the central estimate differs from `d` by at most
`M·h²/6 + δ/h` -/
theorem central_error_bound (fp fm fp' fm' f0 d c M δ h : K) (hh : 0 < h)
    (tp : |fp - (f0 + d * h + c * h ^ 2)| ≤ M * h ^ 3 / 6) (tm : |fm - (f0 - d * h + c * h ^ 2)| ≤ M * h ^ 3 / 6)
    (rp : |fp' - fp| ≤ δ) (rm : |fm' - fm| ≤ δ) :
    |centralQ fp' fm' h - d| ≤ M * h ^ 2 / 6 + δ / h := by
  have h2 : (0 : K) < 2 * h := by linarith
  have e : centralQ fp' fm' h - d =
      ((fp - (f0 + d * h + c * h ^ 2)) + -(fm - (f0 - d * h + c * h ^ 2)) + (fp' - fp) + -(fm' - fm)) / (2 * h) := by
    unfold centralQ; field_simp; ring
  rw [e, abs_div, abs_of_pos h2, div_le_iff₀ h2]
  have t1 := abs_add_le ((fp - (f0 + d * h + c * h ^ 2)) + -(fm - (f0 - d * h + c * h ^ 2)) + (fp' - fp)) (-(fm' - fm))
  have t2 := abs_add_le ((fp - (f0 + d * h + c * h ^ 2)) + -(fm - (f0 - d * h + c * h ^ 2))) (fp' - fp)
  have t3 := abs_add_le (fp - (f0 + d * h + c * h ^ 2)) (-(fm - (f0 - d * h + c * h ^ 2)))
  rw [abs_neg] at t1 t3
  have e2 : (M * h ^ 2 / 6 + δ / h) * (2 * h) = 2 * (M * h ^ 3 / 6) + 2 * δ := by field_simp
  rw [e2]
  linarith

/-- **documented total error of the executed forward rule, `O(√acc)`**: `forwardDiff` run with the step it selects itself
(`h = stepH √acc y0 = √acc·s`, `s = max(|y0|, 0.1)`) on a function `f` whose values are within the *stated accuracy*
`acc·F` of a function `g` that obeys the second-order Taylor bound at that step: the estimate is within
`(M·s/2 + 2F/s)·√acc` of the derivative `d`.  (`rt` plays `√acc`: `rt² = acc`.) -/
theorem forward_total_error (g f : K → K) (rt acc y0 fy0 d M F : K) (hrt : 0 < rt) (hacc : rt ^ 2 = acc)
    (taylor : |g (y0 + stepH rt y0) - g y0 - d * stepH rt y0| ≤ M * stepH rt y0 ^ 2 / 2)
    (rp : |f (y0 + stepH rt y0) - g (y0 + stepH rt y0)| ≤ acc * F) (r0 : |fy0 - g y0| ≤ acc * F) :
    |forwardDiff f rt y0 fy0 - d| ≤ (M * max |y0| (1 / 10) / 2 + 2 * F / max |y0| (1 / 10)) * rt := by
  obtain ⟨e, hpos, -, -, -⟩ := step_nonzero_and_scaled rt y0 hrt
  have hs : (0 : K) < max |y0| (1 / 10) := lt_of_lt_of_le (by norm_num) (le_max_right _ _)
  have b := forward_error_bound (g (y0 + stepH rt y0)) (g y0) (f (y0 + stepH rt y0)) fy0 d M (acc * F) (stepH rt y0) hpos
    taylor rp r0
  have eq : M * stepH rt y0 / 2 + 2 * (acc * F) / stepH rt y0
      = (M * max |y0| (1 / 10) / 2 + 2 * F / max |y0| (1 / 10)) * rt := by
    rw [e, ← hacc]; field_simp
  unfold forwardDiff
  simpa only [eq] using b

/-- **documented total error of the executed central rule, `O(acc^{2/3})`**: `centralDiff` with its own step
`h = ∛acc·s` on values within `acc·F` of a function obeying third-order Taylor bounds on both sides: the estimate is
within `(M·s²/6 + F/s)·(∛acc)²` of `d`.  (`ct` plays `∛acc`: `ct³ = acc`.) -/
theorem central_total_error (g f : K → K) (ct acc y0 d c M F : K) (hct : 0 < ct) (hacc : ct ^ 3 = acc)
    (tp : |g (y0 + stepH ct y0) - (g y0 + d * stepH ct y0 + c * stepH ct y0 ^ 2)| ≤ M * stepH ct y0 ^ 3 / 6)
    (tm : |g (y0 - stepH ct y0) - (g y0 - d * stepH ct y0 + c * stepH ct y0 ^ 2)| ≤ M * stepH ct y0 ^ 3 / 6)
    (rp : |f (y0 + stepH ct y0) - g (y0 + stepH ct y0)| ≤ acc * F)
    (rm : |f (y0 - stepH ct y0) - g (y0 - stepH ct y0)| ≤ acc * F) :
    |centralDiff f ct y0 - d| ≤ (M * max |y0| (1 / 10) ^ 2 / 6 + F / max |y0| (1 / 10)) * ct ^ 2 := by
  obtain ⟨e, hpos, -, -, -⟩ := step_nonzero_and_scaled ct y0 hct
  have hs : (0 : K) < max |y0| (1 / 10) := lt_of_lt_of_le (by norm_num) (le_max_right _ _)
  have b := central_error_bound (g (y0 + stepH ct y0)) (g (y0 - stepH ct y0)) (f (y0 + stepH ct y0))
    (f (y0 - stepH ct y0)) (g y0) d c M (acc * F) (stepH ct y0) hpos tp tm rp rm
  have eq : M * stepH ct y0 ^ 2 / 6 + acc * F / stepH ct y0
      = (M * max |y0| (1 / 10) ^ 2 / 6 + F / max |y0| (1 / 10)) * ct ^ 2 := by
    rw [e, ← hacc]; field_simp
  unfold centralDiff
  simpa only [eq] using b

/-- **gradient / Jacobian entries are the scalar rule on the coordinate restriction**: if along coordinate `i`
through `y` the function is affine, `f(y[i:=t]) = a·t + b` for all `t`, the forward entry is exactly `a`; if it is
quadratic the central entry is exactly `2a·yᵢ + b` -/
theorem gradEntry_exact (f : List K → K) (accFac : K) (y : List K) (i : Nat) (ha : 0 < accFac) (a b c : K) :
    ((∀ t, f (setAt y i t) = a * t + b) →
        gradEntry 1 f accFac y (a * y.getD i 0 + b) i = a) ∧
    ((∀ t, f (setAt y i t) = a * t ^ 2 + b * t + c) →
        gradEntry 2 f accFac y (f y) i = 2 * a * y.getD i 0 + b) := by
  constructor
  · intro hf
    have : restrict f y i = fun t => a * t + b := funext hf
    simp only [gradEntry, if_true, this]
    exact forward_exact_affine a b accFac _ ha
  · intro hf
    have : restrict f y i = fun t => a * t ^ 2 + b * t + c := funext hf
    simp only [gradEntry, this, show (2 : Nat) ≠ 1 by decide, if_false]
    exact central_exact_quadratic a b c accFac _ ha

omit [Field K] [LinearOrder K] [IsStrictOrderedRing K] in
/-- a Jacobian entry is the gradient entry of the `k`-th output component -/
theorem jacEntry_is_gradEntry [Add K] [Sub K] [Mul K] [Neg K] [Div K] [OfNat K 0] [OfNat K 1] [OfNat K 2] [OfNat K 10]
    [LT K] [DecidableLT K] (order : Nat) (f : List K → List K) (accFac : K) (y fy0 : List K) (k i : Nat) :
    jacEntry order f accFac y fy0 k i = gradEntry order (fun v => (f v).getD k 0) accFac y (fy0.getD k 0) i := rfl

/-- `getMethodOrder` after defaulting only ever yields 1 or 2, `CentralDifference` (2) iff requested or defaulted -/
theorem methodOrder_spec (m d : Nat) :
    (methodOrder m d = 1 ∨ methodOrder m d = 2) ∧ methodOrder 2 d = 2 ∧ methodOrder 1 d = 1 ∧
    methodOrder 0 0 = 1 ∧ methodOrder 0 2 = 2 := by
  refine ⟨?_, by simp [methodOrder], by simp [methodOrder], by simp [methodOrder], by simp [methodOrder]⟩
  unfold methodOrder; simp only; split_ifs <;> simp

/-- non-vacuity: the hypotheses of the error bounds are satisfiable with a non-trivial instance (`f = y²` at `y0 = 1`,
`h = 1/2`, `M = 2`, exact values) -/
example : |((3 / 2 : ℚ) ^ 2) - 1 - 2 * (1 / 2)| ≤ 2 * (1 / 2 : ℚ) ^ 2 / 2 := by norm_num [abs_le]
example : forwardDiff (fun y : ℚ => 3 * y + 1) (1 / 1000) 0 (3 * 0 + 1) = 3 :=
  forward_exact_affine (K := ℚ) 3 1 (1 / 1000) 0 (by norm_num)

end C40
