import Mathlib.LinearAlgebra.Matrix.NonsingularInverse
import Mathlib.Data.Matrix.Mul
import Mathlib.Tactic.Ring
import Mathlib.Tactic.Abel
import Mathlib.Tactic.NoncommRing

/-!
# TreeDynAbs — the abstract (dense `Matrix`) twin of `SimbodyModel/TreeDyn.lean`

A multibody tree is a rose tree of bodies; a body carries its joint dimension `d`, hinge matrix
`H : ι × d`, child-to-parent shift operator `phi : ι × ι`, spatial inertia `M : ι × ι`, the claimed
inverse `DI` of `D = Hᵀ P H`, an applied mobility force `f` and a per-body vector `ud : Fin d → K`
(a given generalized acceleration / speed, read by "field policies").
Nothing uses that spatial vectors are 6-dimensional: `ι` is any finite type, `phi` any matrix.

Recursions (same intermediate quantities as `RigidBodyNodeSpec.cpp`):
* `P`, `PP` (= P⁺), `G`               : `realizeArticulatedBodyInertiasInward`
* `z`, `eps`, `zP` (= z⁺), `udotA`, `accP`: `calcUDotPass1Inward` / `calcUDotPass2Outward`
                                        (with zero bias: `multiplyByMInvPass1Inward/Pass2Outward`)
* `FrP`                               : `calcBodyAccelerationsFromUdotOutward` + `calcInverseDynamicsPass2Inward`
                                        (with zero bias: `multiplyByMPass1Outward/Pass2Inward`)
The generalized acceleration used at a node by the outward pass is supplied by a *policy*
`pol : (t : MBT) → (A⁺ : ι → K) → Fin d → K`; `udotA` (what forward dynamics computes) is one policy,
`fieldPol` (read the `ud` stored in the node: an arbitrary assignment of vectors to bodies) another.
Bias terms are parameters: `ab n` = mobilizer Coriolis acceleration `a`, `fb n` = gyroscopic force minus applied
body force `b − F`; the mass-matrix operators are the instances `ab = 0`, `fb = 0`.
-/

open Matrix

namespace TreeDynAbs

variable {K : Type} [Field K] {ι : Type} [Fintype ι] [DecidableEq ι]

/-- One mobilized body. -/
structure Bd (K : Type) (ι : Type) where
  d   : ℕ
  H   : Matrix ι (Fin d) K
  phi : Matrix ι ι K
  M   : Matrix ι ι K
  DI  : Matrix (Fin d) (Fin d) K
  f   : Fin d → K
  ud  : Fin d → K
  a   : ι → K
  b   : ι → K
  Fa  : ι → K

inductive MBT (K : Type) (ι : Type) where
  | mk (n : Bd K ι) (cs : List (MBT K ι)) : MBT K ι

namespace MBT

def bd : MBT K ι → Bd K ι | mk n _ => n
def kids : MBT K ι → List (MBT K ι) | mk _ cs => cs

mutual
/-- all bodies of a subtree (preorder) -/
def bds : MBT K ι → List (Bd K ι)
  | mk n cs => n :: bdsL cs
def bdsL : List (MBT K ι) → List (Bd K ι)
  | [] => []
  | c :: cs => bds c ++ bdsL cs
end

mutual
/-- articulated body inertia `P` of the subtree root -/
def P : MBT K ι → Matrix ι ι K
  | mk n cs => n.M + Pkids cs
def Pkids : List (MBT K ι) → Matrix ι ι K
  | [] => 0
  | c :: cs =>
      (bd c).phi * (P c - P c * (bd c).H * (bd c).DI * (bd c).Hᵀ * P c) * (bd c).phiᵀ + Pkids cs
end

/-- `D = Hᵀ P H` -/
def D (t : MBT K ι) : Matrix (Fin (bd t).d) (Fin (bd t).d) K := (bd t).Hᵀ * P t * (bd t).H

/-- `P⁺ = P − P H DI Hᵀ P` : inertia felt through the joint -/
def PP (t : MBT K ι) : Matrix ι ι K :=
  P t - P t * (bd t).H * (bd t).DI * (bd t).Hᵀ * P t

/-- `G = P H DI` -/
def G (t : MBT K ι) : Matrix ι (Fin (bd t).d) K := P t * (bd t).H * (bd t).DI

/-- a policy supplies the generalized acceleration of the inboard joint of a subtree, given `A⁺` -/
abbrev Pol (K ι : Type) := (t : MBT K ι) → (ι → K) → Fin (bd t).d → K

/-- read the vector stored in the node -/
def fieldPol : Pol K ι := fun t _ => (bd t).ud

/-- an assignment of applied mobility forces to the inboard joints (indexed by the subtree they carry) -/
abbrev MobF (K ι : Type) := (t : MBT K ι) → Fin (bd t).d → K

/-- read the applied mobility force stored in the node -/
def fieldF : MobF K ι := fun t => (bd t).f

section bias
variable (ab fb : Bd K ι → ι → K) (fm : MobF K ι)

mutual
/-- articulated-body residual force `z = P a + (b − F) + Σ φ z⁺` -/
def z : MBT K ι → ι → K
  | mk n cs => (P (mk n cs)) *ᵥ (ab n) + fb n + zkids cs
def zkids : List (MBT K ι) → ι → K
  | [] => 0
  | c :: cs =>
      (bd c).phi *ᵥ (z c + G c *ᵥ (fm c - (bd c).Hᵀ *ᵥ z c)) + zkids cs
end

/-- `ε = f − Hᵀ z` -/
def eps (t : MBT K ι) : Fin (bd t).d → K := fm t - (bd t).Hᵀ *ᵥ z ab fb fm t
/-- `z⁺ = z + G ε` -/
def zP (t : MBT K ι) : ι → K := z ab fb fm t + G t *ᵥ eps ab fb fm t

/-- forward dynamics (pass 2): `u̇ = DI ε − Gᵀ A⁺` -/
def udotA : Pol K ι := fun t Ap => (bd t).DI *ᵥ eps ab fb fm t - (G t)ᵀ *ᵥ Ap

variable (pol : Pol K ι)

/-- body acceleration `A = A⁺ + H u̇ + a` -/
def accP (t : MBT K ι) (Ap : ι → K) : ι → K :=
  Ap + (bd t).H *ᵥ pol t Ap + ab (bd t)

mutual
/-- inverse dynamics: spatial force through the inboard joint of `t`,
`F = M A + (b − F_applied) + Σ φ_c F_c`, with the joint accelerations supplied by `pol` -/
def FrP : MBT K ι → (ι → K) → ι → K
  | mk n cs, Ap =>
      n.M *ᵥ (accP ab pol (mk n cs) Ap) + fb n + FrPkids cs (accP ab pol (mk n cs) Ap)
def FrPkids : List (MBT K ι) → (ι → K) → ι → K
  | [], _ => 0
  | c :: cs, A => (bd c).phi *ᵥ FrP c ((bd c).phiᵀ *ᵥ A) + FrPkids cs A
end

/-- inverse-dynamics residual at the inboard joint: `Hᵀ F − f` -/
def resid (t : MBT K ι) (Ap : ι → K) : Fin (bd t).d → K :=
  (bd t).Hᵀ *ᵥ FrP ab fb pol t Ap - fm t

mutual
/-- `Q` holds at every node of the subtree, each node seeing the `A⁺` that the outward pass (driven by `pol`)
delivers to it -/
def AllN (Q : MBT K ι → (ι → K) → Prop) : MBT K ι → (ι → K) → Prop
  | mk n cs, Ap => Q (mk n cs) Ap ∧ AllNk Q cs (accP ab pol (mk n cs) Ap)
def AllNk (Q : MBT K ι → (ι → K) → Prop) : List (MBT K ι) → (ι → K) → Prop
  | [], _ => True
  | c :: cs, A => AllN Q c ((bd c).phiᵀ *ᵥ A) ∧ AllNk Q cs A
end

end bias

/-- well-formedness: symmetric inertias and `DI` really inverts `D`, everywhere -/
inductive WF : MBT K ι → Prop
  | mk (n : Bd K ι) (cs : List (MBT K ι))
      (hM : n.Mᵀ = n.M)
      (hcs : ∀ c ∈ cs, WF c)
      (hD1 : (n.Hᵀ * P (mk n cs) * n.H) * n.DI = 1)
      (hD2 : n.DI * (n.Hᵀ * P (mk n cs) * n.H) = 1) : WF (mk n cs)

theorem Pkids_cons (c : MBT K ι) (cs : List (MBT K ι)) :
    Pkids (c :: cs) = (bd c).phi * PP c * (bd c).phiᵀ + Pkids cs := by
  simp only [Pkids, PP]

theorem PP_mk (n : Bd K ι) (cs : List (MBT K ι)) :
    PP (MBT.mk n cs) = P (MBT.mk n cs) - P (MBT.mk n cs) * n.H * n.DI * n.Hᵀ * P (MBT.mk n cs) := rfl

theorem WF.kids {n : Bd K ι} {cs : List (MBT K ι)} (h : WF (MBT.mk n cs)) : ∀ c ∈ cs, WF c := by
  cases h with | mk _ _ _ hcs _ _ => exact hcs

end MBT

theorem inv_symm_of_symm {n : Type} [Fintype n] [DecidableEq n] (D DI : Matrix n n K)
    (hs : Dᵀ = D) (h : D * DI = 1) : DIᵀ = DI := by
  have h1 : DI = D⁻¹ := (Matrix.inv_eq_right_inv h).symm
  rw [h1, Matrix.transpose_nonsing_inv, hs]

namespace MBT

mutual
theorem P_symm : ∀ (t : MBT K ι), WF t → (P t)ᵀ = P t
  | mk n cs, h => by
      cases h with
      | mk _ _ hM hcs hD1 hD2 =>
        simp only [P, transpose_add, hM, Pkids_symm cs hcs]
theorem Pkids_symm : ∀ (cs : List (MBT K ι)), (∀ c ∈ cs, WF c) → (Pkids cs)ᵀ = Pkids cs
  | [], _ => by simp [Pkids]
  | c :: cs, h => by
      have hc : WF c := h c (by simp)
      have hcs : ∀ c' ∈ cs, WF c' := fun c' hc' => h c' (by simp [hc'])
      have hP := P_symm c hc
      have hDI : ((bd c).DI)ᵀ = (bd c).DI := by
        cases c with
        | mk n cs' =>
          cases hc with
          | mk _ _ hM hcs' hD1 hD2 =>
            simp only [bd] at *
            refine inv_symm_of_symm _ _ ?_ hD1
            simp [transpose_mul, hP, Matrix.mul_assoc]
      simp only [Pkids, transpose_add, transpose_mul, transpose_sub, transpose_transpose,
        Pkids_symm cs hcs, hP, hDI, Matrix.mul_assoc]
end

theorem D_symm (t : MBT K ι) (h : WF t) : (D t)ᵀ = D t := by
  have hP := P_symm t h
  simp [D, transpose_mul, hP, Matrix.mul_assoc]

theorem DI_symm (t : MBT K ι) (h : WF t) : ((bd t).DI)ᵀ = (bd t).DI := by
  have hD := D_symm t h
  cases t with
  | mk n cs =>
    cases h with
    | mk _ _ hM hcs hD1 hD2 =>
      simp only [bd, D] at *
      exact inv_symm_of_symm _ _ hD hD1

theorem D_mul_DI (t : MBT K ι) (h : WF t) : D t * (bd t).DI = 1 := by
  cases t with
  | mk n cs => cases h with | mk _ _ hM hcs hD1 hD2 => exact hD1

theorem DI_mul_D (t : MBT K ι) (h : WF t) : (bd t).DI * D t = 1 := by
  cases t with
  | mk n cs => cases h with | mk _ _ hM hcs hD1 hD2 => exact hD2

theorem PP_symm (t : MBT K ι) (h : WF t) : (PP t)ᵀ = PP t := by
  have hP := P_symm t h
  have hDI := DI_symm t h
  simp only [PP, transpose_sub, transpose_mul, transpose_transpose, hP, hDI, Matrix.mul_assoc]

end MBT

section local_algebra
variable {d : ℕ} (P : Matrix ι ι K) (H : Matrix ι (Fin d) K) (DI : Matrix (Fin d) (Fin d) K)

/-- one node of the articulated-body recursion: `P A + z = P⁺ A⁺ + z⁺` when `A = A⁺ + H u̇` with ABA's `u̇` -/
theorem node_step (hP : Pᵀ = P) (hDI : DIᵀ = DI) (z Ap : ι → K) (f : Fin d → K) :
    P *ᵥ (Ap + H *ᵥ (DI *ᵥ (f - Hᵀ *ᵥ z) - (P * H * DI)ᵀ *ᵥ Ap)) + z
      = (P - P * H * DI * Hᵀ * P) *ᵥ Ap + (z + (P * H * DI) *ᵥ (f - Hᵀ *ᵥ z)) := by
  simp only [transpose_mul, hP, hDI, mulVec_add, mulVec_sub, mulVec_mulVec, sub_mulVec,
    Matrix.mul_assoc]
  abel

/-- `Hᵀ (P⁺ A⁺ + z⁺) = f` -/
theorem node_residual (hD1 : (Hᵀ * P * H) * DI = 1) (z Ap : ι → K) (f : Fin d → K) :
    Hᵀ *ᵥ ((P - P * H * DI * Hᵀ * P) *ᵥ Ap + (z + (P * H * DI) *ᵥ (f - Hᵀ *ᵥ z))) = f := by
  have h1 : Hᵀ * (P - P * H * DI * Hᵀ * P) = 0 := by
    have : Hᵀ * (P * H * DI * Hᵀ * P) = ((Hᵀ * P * H) * DI) * (Hᵀ * P) := by
      simp only [Matrix.mul_assoc]
    rw [Matrix.mul_sub, this, hD1, Matrix.one_mul, sub_self]
  have h2 : Hᵀ * (P * H * DI) = 1 := by
    rw [← hD1]; simp only [Matrix.mul_assoc]
  rw [mulVec_add, mulVec_add, mulVec_mulVec, h1, zero_mulVec, mulVec_mulVec, h2, one_mulVec]
  abel

/-- converse direction at one node: if the applied mobility force is what inverse dynamics of `u` demands,
forward dynamics returns `u` -/
theorem node_inverse (hP : Pᵀ = P) (hDI : DIᵀ = DI) (hD2 : DI * (Hᵀ * P * H) = 1)
    (z Ap : ι → K) (u f : Fin d → K) (hf : Hᵀ *ᵥ (P *ᵥ (Ap + H *ᵥ u) + z) = f) :
    DI *ᵥ (f - Hᵀ *ᵥ z) - (P * H * DI)ᵀ *ᵥ Ap = u := by
  have e1 : f - Hᵀ *ᵥ z = (Hᵀ * P) *ᵥ Ap + (Hᵀ * P * H) *ᵥ u := by
    rw [← hf]
    simp only [mulVec_add, mulVec_mulVec, Matrix.mul_assoc]
    abel
  rw [e1, mulVec_add, mulVec_mulVec, mulVec_mulVec, hD2, one_mulVec]
  simp only [transpose_mul, hP, hDI, Matrix.mul_assoc]
  abel

/-- `P (A⁺ + H u) + z = P⁺ A⁺ + z⁺` as soon as `f = Hᵀ (P (A⁺ + H u) + z)` -/
theorem node_step_inverse (hD2 : DI * (Hᵀ * P * H) = 1)
    (z Ap : ι → K) (u f : Fin d → K) (hf : Hᵀ *ᵥ (P *ᵥ (Ap + H *ᵥ u) + z) = f) :
    P *ᵥ (Ap + H *ᵥ u) + z
      = (P - P * H * DI * Hᵀ * P) *ᵥ Ap + (z + (P * H * DI) *ᵥ (f - Hᵀ *ᵥ z)) := by
  have e1 : f - Hᵀ *ᵥ z = (Hᵀ * P) *ᵥ Ap + (Hᵀ * P * H) *ᵥ u := by
    rw [← hf]
    simp only [mulVec_add, mulVec_mulVec, Matrix.mul_assoc]
    abel
  have e2 : (P * H * DI) * (Hᵀ * P * H) = P * H := by
    have : (P * H * DI) * (Hᵀ * P * H) = P * H * (DI * (Hᵀ * P * H)) := by
      simp only [Matrix.mul_assoc]
    rw [this, hD2, Matrix.mul_one]
  rw [e1]
  simp only [mulVec_add, sub_mulVec, mulVec_mulVec]
  rw [e2]
  simp only [Matrix.mul_assoc]
  abel
end local_algebra

theorem aux_split (M Pk Pm : Matrix ι ι K) (hPe : Pm = M + Pk) (w a F zk : ι → K) :
    M *ᵥ (w + a) + F + (Pk *ᵥ (w + a) + zk) = Pm *ᵥ w + (Pm *ᵥ a + F + zk) := by
  subst hPe
  simp only [mulVec_add, add_mulVec]
  abel

namespace MBT
variable (ab fb : Bd K ι → ι → K) (fm : MobF K ι)

mutual
/-- Articulated-body equation: the inverse-dynamics force through the inboard joint of `t`
 equals `P⁺ A⁺ + z⁺` when the joint accelerations are the ones forward dynamics computes. -/
theorem Fr_eq : ∀ (t : MBT K ι) (Ap : ι → K), WF t →
    FrP ab fb (udotA ab fb fm) t Ap = PP t *ᵥ Ap + zP ab fb fm t
  | mk n cs, Ap, h => by
      have hP := P_symm (mk n cs) h
      have hDI : (n.DI)ᵀ = n.DI := DI_symm (mk n cs) h
      have hcs := WF.kids h
      have hk := Frkids_eq cs (accP ab (udotA ab fb fm) (mk n cs) Ap) hcs
      have hstep := node_step (P (mk n cs)) n.H n.DI hP hDI (z ab fb fm (mk n cs)) Ap (fm (mk n cs))
      simp only [FrP, hk]
      simp only [PP, zP, eps, G, bd] at hstep ⊢
      refine Eq.trans ?_ hstep
      have hz : z ab fb fm (mk n cs) = P (mk n cs) *ᵥ ab n + fb n + zkids ab fb fm cs := by
        simp only [z]
      have hPe : P (mk n cs) = n.M + Pkids cs := by simp only [P]
      have hacc : accP ab (udotA ab fb fm) (mk n cs) Ap
          = (Ap + n.H *ᵥ (udotA ab fb fm (mk n cs) Ap)) + ab n := rfl
      simp only [udotA, eps, G, bd] at hacc
      rw [hacc, aux_split _ _ _ hPe, ← hz]
      rfl
theorem Frkids_eq : ∀ (cs : List (MBT K ι)) (A : ι → K), (∀ c ∈ cs, WF c) →
    FrPkids ab fb (udotA ab fb fm) cs A = Pkids cs *ᵥ A + zkids ab fb fm cs
  | [], A, _ => by simp [FrPkids, Pkids, zkids]
  | c :: cs, A, h => by
      have hc : WF c := h c (by simp)
      have hcs : ∀ c' ∈ cs, WF c' := fun c' hc' => h c' (by simp [hc'])
      simp only [FrPkids, Pkids, zkids, Fr_eq c _ hc, Frkids_eq cs A hcs]
      simp only [PP, zP, eps, mulVec_add, add_mulVec, mulVec_mulVec, Matrix.mul_assoc]
      abel
end

/-- forward dynamics followed by inverse dynamics: zero residual at the inboard joint of `t` -/
theorem residual_root (t : MBT K ι) (Ap : ι → K) (h : WF t) :
    (bd t).Hᵀ *ᵥ FrP ab fb (udotA ab fb fm) t Ap = fm t := by
  rw [Fr_eq ab fb fm t Ap h]
  cases t with
  | mk n cs =>
    cases h with
    | mk _ _ hM hcs hD1 hD2 =>
      simp only [PP, zP, eps, G, bd]
      exact node_residual (P (mk n cs)) n.H n.DI hD1 _ _ _

variable (pol : Pol K ι)

mutual
/-- a statement that holds at the root of every well-formed tree for every `A⁺` holds at every node -/
theorem allN_of_forall (Q : MBT K ι → (ι → K) → Prop) (hQ : ∀ t Ap, WF t → Q t Ap) :
    ∀ (t : MBT K ι) (Ap : ι → K), WF t → AllN ab pol Q t Ap
  | mk n cs, Ap, h => by
      simp only [AllN]
      exact ⟨hQ _ _ h, allNk_of_forall Q hQ cs _ (WF.kids h)⟩
theorem allNk_of_forall (Q : MBT K ι → (ι → K) → Prop) (hQ : ∀ t Ap, WF t → Q t Ap) :
    ∀ (cs : List (MBT K ι)) (A : ι → K), (∀ c ∈ cs, WF c) → AllNk ab pol Q cs A
  | [], _, _ => by simp only [AllNk]
  | c :: cs, A, h => by
      simp only [AllNk]
      exact ⟨allN_of_forall Q hQ c _ (h c (by simp)),
             allNk_of_forall Q hQ cs A (fun c' hc' => h c' (by simp [hc']))⟩
end

mutual
/-- If at every node the applied mobility force equals what inverse dynamics of the policy's accelerations
demands, then (i) the force through the joint is `P⁺A⁺ + z⁺` and (ii) forward dynamics reproduces the
policy's acceleration at every node. -/
theorem inverse_core : ∀ (t : MBT K ι) (Ap : ι → K), WF t →
    AllN ab pol (fun t Ap => (bd t).Hᵀ *ᵥ FrP ab fb pol t Ap = fm t) t Ap →
    FrP ab fb pol t Ap = PP t *ᵥ Ap + zP ab fb fm t ∧
    AllN ab pol (fun t Ap => udotA ab fb fm t Ap = pol t Ap) t Ap
  | mk n cs, Ap, h, hall => by
      have hP := P_symm (mk n cs) h
      have hDI : (n.DI)ᵀ = n.DI := DI_symm (mk n cs) h
      have hD1 := D_mul_DI (mk n cs) h
      have hD2 := DI_mul_D (mk n cs) h
      simp only [D, bd] at hD1 hD2
      simp only [AllN] at hall
      obtain ⟨hroot, hkids⟩ := hall
      have hk := inverse_kids cs (accP ab pol (mk n cs) Ap) (WF.kids h) hkids
      obtain ⟨hkF, hkA⟩ := hk
      -- the force through the joint in terms of P and z
      have hz : z ab fb fm (mk n cs) = P (mk n cs) *ᵥ ab n + fb n + zkids ab fb fm cs := by
        simp only [z]
      have hPe : P (mk n cs) = n.M + Pkids cs := by simp only [P]
      have hacc : accP ab pol (mk n cs) Ap = (Ap + n.H *ᵥ pol (mk n cs) Ap) + ab n := rfl
      have hF : FrP ab fb pol (mk n cs) Ap
          = P (mk n cs) *ᵥ (Ap + n.H *ᵥ pol (mk n cs) Ap) + z ab fb fm (mk n cs) := by
        simp only [FrP, hkF]
        rw [hacc, aux_split _ _ _ hPe, ← hz]
      simp only [bd] at hroot
      rw [hF] at hroot
      refine ⟨?_, ?_⟩
      · rw [hF]
        simp only [PP, zP, eps, G, bd]
        exact node_step_inverse (P (mk n cs)) n.H n.DI hD2 _ _ _ _ hroot
      · simp only [AllN]
        refine ⟨?_, hkA⟩
        simp only [udotA, eps, G, bd]
        exact node_inverse (P (mk n cs)) n.H n.DI hP hDI hD2 _ _ _ _ hroot
theorem inverse_kids : ∀ (cs : List (MBT K ι)) (A : ι → K), (∀ c ∈ cs, WF c) →
    AllNk ab pol (fun t Ap => (bd t).Hᵀ *ᵥ FrP ab fb pol t Ap = fm t) cs A →
    FrPkids ab fb pol cs A = Pkids cs *ᵥ A + zkids ab fb fm cs ∧
    AllNk ab pol (fun t Ap => udotA ab fb fm t Ap = pol t Ap) cs A
  | [], A, _, _ => by simp [FrPkids, Pkids, zkids, AllNk]
  | c :: cs, A, h, hall => by
      have hc : WF c := h c (by simp)
      have hcs : ∀ c' ∈ cs, WF c' := fun c' hc' => h c' (by simp [hc'])
      simp only [AllNk] at hall
      obtain ⟨h1, h2⟩ := hall
      obtain ⟨hF1, hA1⟩ := inverse_core c _ hc h1
      obtain ⟨hF2, hA2⟩ := inverse_kids cs A hcs h2
      refine ⟨?_, ?_⟩
      · simp only [FrPkids, Pkids, zkids, hF1, hF2]
        simp only [PP, zP, eps, mulVec_add, add_mulVec, mulVec_mulVec, Matrix.mul_assoc]
        abel
      · simp only [AllNk]
        exact ⟨hA1, hA2⟩
end


/-! ## applied body forces enter as `Jᵀ F` -/

section bodyforce
variable (ab fb : Bd K ι → ι → K) (fm : MobF K ι) (X : Bd K ι → ι → K)

mutual
/-- `multiplyBySystemJacobianTranspose`: `Z = X + Σ φ_c Z_c` -/
def Zx : MBT K ι → ι → K
  | mk n cs => X n + Zxkids cs
def Zxkids : List (MBT K ι) → ι → K
  | [] => 0
  | c :: cs => (bd c).phi *ᵥ Zx c + Zxkids cs
end

/-- the block of `Jᵀ X` at the inboard joint of `t`: `Hᵀ Z` -/
def JT : MobF K ι := fun t => (bd t).Hᵀ *ᵥ Zx X t

mutual
theorem z_bodyforce : ∀ (t : MBT K ι),
    z ab (fun n => fb n - X n) fm t = z ab fb (fun t => fm t + JT X t) t - Zx X t
  | mk n cs => by
      simp only [z, Zx, zkids_bodyforce cs]
      abel
theorem zkids_bodyforce : ∀ (cs : List (MBT K ι)),
    zkids ab (fun n => fb n - X n) fm cs = zkids ab fb (fun t => fm t + JT X t) cs - Zxkids X cs
  | [] => by simp [zkids, Zxkids]
  | c :: cs => by
      simp only [zkids, Zxkids, z_bodyforce c, zkids_bodyforce cs, JT, mulVec_sub, mulVec_add]
      abel
end

/-- **applied body forces enter exactly as `Jᵀ F`**: forward dynamics with body forces `X` (they enter the bias force
as `−X`) equals forward dynamics without them and mobility forces `f + Jᵀ X` -/
theorem udotA_bodyforce (t : MBT K ι) (Ap : ι → K) :
    udotA ab (fun n => fb n - X n) fm t Ap = udotA ab fb (fun t => fm t + JT X t) t Ap := by
  have e : eps ab (fun n => fb n - X n) fm t = eps ab fb (fun t => fm t + JT X t) t := by
    simp only [eps, z_bodyforce, JT, mulVec_sub]
    abel
  simp only [udotA, e]

mutual
/-- the same for inverse dynamics: the force through the joint differs by `Z`, so the residual `Hᵀ F − f` agrees -/
theorem FrP_bodyforce (pol : Pol K ι) : ∀ (t : MBT K ι) (Ap : ι → K),
    FrP ab (fun n => fb n - X n) pol t Ap = FrP ab fb pol t Ap - Zx X t
  | mk n cs, Ap => by
      simp only [FrP, Zx, FrPkids_bodyforce pol cs]
      abel
theorem FrPkids_bodyforce (pol : Pol K ι) : ∀ (cs : List (MBT K ι)) (A : ι → K),
    FrPkids ab (fun n => fb n - X n) pol cs A = FrPkids ab fb pol cs A - Zxkids X cs
  | [], _ => by simp [FrPkids, Zxkids]
  | c :: cs, A => by
      simp only [FrPkids, Zxkids, FrP_bodyforce pol c, FrPkids_bodyforce pol cs A, mulVec_sub]
      abel
end

theorem resid_bodyforce (pol : Pol K ι) (t : MBT K ι) (Ap : ι → K) :
    resid ab (fun n => fb n - X n) fm pol t Ap = resid ab fb (fun t => fm t + JT X t) pol t Ap := by
  simp only [resid, FrP_bodyforce, JT, mulVec_sub]
  abel

end bodyforce

end MBT
end TreeDynAbs
