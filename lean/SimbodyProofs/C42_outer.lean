import SimbodyProofs.C42_grow2

/-! # C42 — `chooseNewBaseBody`, `connectBodyToGround`, the outer loop and the first loop of `generateGraph` -/
namespace C42

/-! ### `chooseNewBaseBody` -/

theorem chooseStep_cases (s : St) (acc : CB) (x : Nat) :
    (inTree s x = true ∧ chooseStep s acc x = acc) ∨
    (inTree s x = false ∧ (chooseStep s acc x = acc ∧ (acc.seen = true ∨ acc.nCh ≠ none)
        ∨ (chooseStep s acc x).best = some x)) := by
  unfold chooseStep
  by_cases h1 : inTree s x = true
  · left; simp [h1]
  · right
    have h1' : inTree s x = false := by simpa using h1
    refine ⟨h1', ?_⟩
    simp only [h1', Bool.false_eq_true, if_false]
    by_cases h2 : (acc.seen && !(jointsAsChild s x).isEmpty) = true
    · left; simp only [h2, if_true, true_and]
      left; simp only [Bool.and_eq_true] at h2; exact h2.1
    · simp only [h2, Bool.false_eq_true, if_false]
      by_cases h3 : (!acc.seen && (jointsAsChild s x).isEmpty) = true
      · right; simp [h3]
      · simp only [h3, Bool.false_eq_true, if_false]
        cases hn : acc.nCh with
        | none => right; simp
        | some n =>
          by_cases h4 : n < (jointsAsParent s x).length
          · right; simp [h4]
          · left; simp [h4]

theorem choose_fold_none (s : St) : ∀ (l : List Nat) (acc : CB),
    (acc.best = none → acc.seen = false ∧ acc.nCh = none) →
    (l.foldl (chooseStep s) acc).best = none → acc.best = none ∧ ∀ x ∈ l, inTree s x = true := by
  intro l
  induction l with
  | nil => intro acc _ h; exact ⟨by simpa using h, by simp⟩
  | cons x l ih =>
    intro acc hacc h
    simp only [List.foldl_cons] at h
    have hpre' : (chooseStep s acc x).best = none → (chooseStep s acc x).seen = false ∧ (chooseStep s acc x).nCh = none := by
      intro hb
      rcases chooseStep_cases s acc x with ⟨_, he⟩ | ⟨_, ⟨he, _⟩ | he⟩
      · rw [he] at hb ⊢; exact hacc hb
      · rw [he] at hb ⊢; exact hacc hb
      · rw [he] at hb; cases hb
    obtain ⟨hb', hl⟩ := ih (chooseStep s acc x) hpre' h
    rcases chooseStep_cases s acc x with ⟨hin, he⟩ | ⟨_, ⟨he, hs⟩ | he⟩
    · rw [he] at hb'
      refine ⟨hb', ?_⟩
      intro y hy
      rcases List.mem_cons.mp hy with rfl | hy
      · exact hin
      · exact hl y hy
    · rw [he] at hb'
      obtain ⟨h1, h2⟩ := hacc hb'
      rcases hs with hs | hs
      · rw [h1] at hs; cases hs
      · exact absurd h2 hs
    · rw [he] at hb'; cases hb'

theorem choose_fold_some {P : Nat → Prop} (s : St) : ∀ (l : List Nat) (acc : CB) (b : Nat),
    (∀ b, acc.best = some b → inTree s b = false ∧ P b) → (∀ x ∈ l, P x) →
    (l.foldl (chooseStep s) acc).best = some b → inTree s b = false ∧ P b := by
  intro l
  induction l with
  | nil => intro acc b hacc _ h; exact hacc b (by simpa using h)
  | cons x l ih =>
    intro acc b hacc hP h
    simp only [List.foldl_cons] at h
    refine ih (chooseStep s acc x) b ?_ (fun y hy => hP y (List.mem_cons_of_mem _ hy)) h
    intro b' hb'
    rcases chooseStep_cases s acc x with ⟨_, he⟩ | ⟨hout, ⟨he, _⟩ | he⟩
    · rw [he] at hb'; exact hacc b' hb'
    · rw [he] at hb'; exact hacc b' hb'
    · rw [he] at hb'; cases hb'; exact ⟨hout, hP x List.mem_cons_self⟩

theorem choose_none {s : St} (h : chooseNewBaseBody s = none) :
    ∀ b, 0 < b → b < s.nb → inTree s b = true := by
  intro b hb0 hbn
  have := (choose_fold_none s _ ⟨false, none, none⟩ (fun _ => ⟨rfl, rfl⟩) h).2 b
  apply this
  rw [List.mem_range']
  exact ⟨b - 1, by omega, by omega⟩

theorem choose_some {s : St} {b : Nat} (h : chooseNewBaseBody s = some b) :
    inTree s b = false ∧ (0 < b ∧ b < s.nb) := by
  refine choose_fold_some (P := fun b => 0 < b ∧ b < s.nb) s _ ⟨false, none, none⟩ b (by intro b hb; cases hb) ?_ h
  intro x hx
  rw [List.mem_range'] at hx
  obtain ⟨i, hi, rfl⟩ := hx
  omega

/-! ### `connectBodyToGround` -/

theorem jointAt_connect_lt {s : St} {b k : Nat} (hk : k < s.joints.length) :
    jointAt (connectToGround s b) k = jointAt s k := by
  simp [jointAt, connectToGround, List.getD, List.getElem?_append_left hk]

theorem jointAt_connect_len (s : St) (b : Nat) :
    jointAt (connectToGround s b) s.joints.length = ⟨1, 0, b, false, true⟩ := by
  simp [jointAt, connectToGround, List.getD]

theorem connect_inv {g : Input} {s : St} {b : Nat} (hI : Inv g s) (hb : b < g.bodies.length) :
    Inv g (connectToGround s b) := by
  have hlen : (connectToGround s b).joints.length = s.joints.length + 1 := by simp [connectToGround]
  refine
    { nb_pos := hI.nb_pos, nb_ge := hI.nb_ge, joints_wf := ?_, lvl0 := hI.lvl0, tree := hI.tree,
      outb_nodup := hI.outb_nodup, outb_pos := hI.outb_pos, outb_lt := hI.outb_lt, ordered := hI.ordered,
      joint_nodup := hI.joint_nodup, jmob_some := hI.jmob_some, jmob_idx := hI.jmob_idx, bmob_idx := hI.bmob_idx,
      mob_kind := ?_, levels := hI.levels, lvl_bound := hI.lvl_bound, masters := hI.masters }
  · intro k hk
    rw [hlen] at hk
    by_cases hkl : k < s.joints.length
    · rw [jointAt_connect_lt hkl]; exact hI.joints_wf k hkl
    · have : k = s.joints.length := by omega
      subst this
      rw [jointAt_connect_len]; exact ⟨hI.nb_pos, hb⟩
  · intro m hm
    obtain ⟨hml, hk⟩ := hI.mob_kind m hm
    refine ⟨by rw [hlen]; exact Nat.lt_succ_of_lt hml, ?_⟩
    simp only [TreeMob, SlaveMob, jointAt_connect_lt hml]
    exact hk

theorem connect_M7 {g : Input} {s : St} {b : Nat} (hI : Inv g s) (hM : M7 g s) : M7 g (connectToGround s b) := by
  intro i m hi hlt hn
  have hm : m ∈ s.mobs := List.mem_of_getElem? hi
  have hml := (hI.mob_kind m hm).1
  have hn' : NeedsNext g s m := by
    simpa only [NeedsNext, jointAt_connect_lt hml] using hn
  exact hM i m hi hlt hn'

/-- state before `breakLoops`: no slaves, no loop constraints yet -/
structure PhaseB (g : Input) (s : St) : Prop where
  nb : s.nb = g.bodies.length
  cons : s.cons = []
  jloop : s.jloop = fun _ => none
  master : s.master = fun _ => none
  slaves : s.slaves = fun _ => []

/-- the joint list is the input joints followed by added free joints Ground → input body -/
def JExt (g : Input) (s : St) : Prop :=
  ∃ extra, s.joints = g.joints ++ extra ∧
    ∀ e ∈ extra, e.type = 1 ∧ e.parent = 0 ∧ 0 < e.child ∧ e.child < g.bodies.length ∧ e.mustLoop = false ∧ e.addedBase = true

theorem PhaseB.ext {g : Input} {s s' : St} (h : PhaseB g s) (hE : Ext s s') : PhaseB g s' :=
  ⟨hE.nb.trans h.nb, hE.cons.trans h.cons, hE.jloop.trans h.jloop, hE.master.trans h.master, hE.slaves.trans h.slaves⟩

theorem PhaseB.connect {g : Input} {s : St} (h : PhaseB g s) (b : Nat) : PhaseB g (connectToGround s b) :=
  ⟨h.nb, h.cons, h.jloop, h.master, h.slaves⟩

theorem JExt.ext {g : Input} {s s' : St} (h : JExt g s) (hE : Ext s s') : JExt g s' := by
  obtain ⟨e, he, hp⟩ := h
  exact ⟨e, by rw [hE.joints]; exact he, hp⟩

theorem JExt.connect {g : Input} {s : St} (h : JExt g s) {b : Nat} (hb0 : 0 < b) (hb : b < g.bodies.length) :
    JExt g (connectToGround s b) := by
  obtain ⟨e, he, hp⟩ := h
  refine ⟨e ++ [⟨1, 0, b, false, true⟩], by simp [connectToGround, he], ?_⟩
  intro x hx
  rcases List.mem_append.mp hx with hx | hx
  · exact hp x hx
  · simp at hx; subst hx; exact ⟨rfl, rfl, hb0, hb, rfl, rfl⟩

/-! ### the outer loop -/

/-- all input bodies are in the tree -/
def AllIn (s : St) : Prop := ∀ b, 0 < b → b < s.nb → inTree s b = true

theorem outer_spec {g : Input} : ∀ (fuel : Nat) (s s' : St),
    Inv g s → M7 g s → PhaseB g s → JExt g s → outer g fuel s = .ok s' →
    Inv g s' ∧ M7 g s' ∧ PhaseB g s' ∧ JExt g s' ∧ AllIn s' := by
  intro fuel
  induction fuel with
  | zero => intro s s' _ _ _ _ h; simp [outer] at h
  | succ f ih =>
    intro s s' hI hM hB hJ h
    unfold outer at h
    cases hg : growTree g s with
    | error e => simp [hg] at h
    | ok s1 =>
      simp only [hg] at h
      obtain ⟨hI1, hM1, hE1⟩ := growTree_spec hI hM hg
      have hB1 := hB.ext hE1
      have hJ1 := hJ.ext hE1
      cases hc : chooseNewBaseBody s1 with
      | none =>
        simp only [hc, Except.ok.injEq] at h
        subst h
        exact ⟨hI1, hM1, hB1, hJ1, choose_none hc⟩
      | some b =>
        simp only [hc] at h
        obtain ⟨_, hb0, hbn⟩ := choose_some hc
        rw [hB1.nb] at hbn
        exact ih _ s' (connect_inv hI1 hbn) (connect_M7 hI1 hM1) (hB1.connect b) (hJ1.connect hb0 hbn) h

/-! ### the first loop of `generateGraph` -/

theorem init_inv {g : Input} (hW : WF g) : Inv g (init g) := by
  refine
    { nb_pos := hW.1, nb_ge := Nat.le_refl _, joints_wf := ?_, lvl0 := rfl, tree := ?_,
      outb_nodup := List.nodup_nil, outb_pos := by simp [outbs, init], outb_lt := by simp [init],
      ordered := trivial, joint_nodup := List.nodup_nil, jmob_some := by simp [init, mjoints],
      jmob_idx := by simp [init], bmob_idx := by simp [init], mob_kind := by simp [init],
      levels := by simp [init], lvl_bound := by simp [init], masters := fun _ _ => rfl }
  · intro j hj
    have hj' : j < g.joints.length := hj
    have hmem : g.joints[j] ∈ g.joints := List.getElem_mem hj'
    have := hW.2 _ hmem
    simpa [jointAt, init, List.getD, List.getElem?_eq_getElem hj'] using this
  · intro b
    by_cases hb : b = 0 <;> simp [init, outbs, hb]

theorem step1_spec {g : Input} (hW : WF g) {s : St} (h : step1 g = .ok s) :
    Inv g s ∧ M7 g s ∧ PhaseB g s ∧ JExt g s := by
  unfold step1 at h
  refine foldlM_inv (fun s => Inv g s ∧ M7 g s ∧ PhaseB g s ∧ JExt g s) (checkBody g) _ ?_ (init g) s ?_ h
  · intro a x a' hx ⟨hI, hM, hB, hJ⟩ hstep
    rw [List.mem_range'] at hx
    obtain ⟨i, hi, rfl⟩ := hx
    have hx0 : 0 < 1 + 1 * i := by omega
    have hxn : 1 + 1 * i < g.bodies.length := by omega
    unfold checkBody at hstep
    dsimp only at hstep
    split_ifs at hstep
    · simp only [Except.ok.injEq] at hstep
      subst hstep
      exact ⟨connect_inv hI hxn, connect_M7 hI hM, hB.connect _, hJ.connect hx0 hxn⟩
    · simp only [Except.ok.injEq] at hstep
      subst hstep
      exact ⟨hI, hM, hB, hJ⟩
  · refine ⟨init_inv hW, ?_, ⟨rfl, rfl, rfl, rfl, rfl⟩, ⟨[], by simp [init], by simp⟩⟩
    intro i m hi; simp [init] at hi

end C42
