import SimbodyModel.C45
import Mathlib.Tactic.Ring
import Mathlib.Tactic.FieldSimp
import Mathlib.Tactic.Linarith
import Mathlib.Tactic.LinearCombination
import Mathlib.Tactic.Positivity
import Mathlib.Tactic.NormNum
import Mathlib.Algebra.Order.Field.Basic

/-!
# C45 — property theorems (cable paths are geometrically and energetically consistent)

Over an arbitrary linear ordered field `K`; `sqrt` is any function with `SqrtSpec`.  The path solver is not
modelled (partial): the theorems are about the length / length-rate / force / power formulas of `CableSpan.cpp`
applied to *any* path data, under the hypothesis `smooth` (what a converged solve delivers: each tangent equals
the direction of the adjacent straight segment) where needed.

* `length_ge_straight` — triangle inequality along the whole chain (arcs at least their chords);
* `lengthdot_is_derivative` — the straight-segment rate `ê·(v₂−v₁)` is the ε-coefficient of `‖p₂−p₁‖` on jets,
  `sqrtJ_mul_self` justifies the jet lift of `√`, `lengthDot_via_is_derivative` — whole path through via points;
* `power_eq_minus_tension_lengthdot` — `calcCablePower = −T·lengthDot` for smooth paths, `0` for a slack cable;
* `forces_sum_zero`, `moments_sum_zero` — third law for the resultant of `applyBodyForces` (exactly smooth path);
* `totalForce_eq_defects`, `unitPower_add_lengthDot_eq_defects` — for ANY path data the resultant force / the power
  mismatch equal the sum of the tangent defects (what the harness bounds by the reported smoothness).
-/
namespace C45
open V3

variable {K : Type} [Field K] [LinearOrder K] [IsStrictOrderedRing K]

/-- the algebraic specification assumed of the square-root routine -/
structure SqrtSpec (sqrt : K → K) : Prop where
  sq : ∀ x, 0 ≤ x → sqrt x * sqrt x = x
  nonneg : ∀ x, 0 ≤ x → 0 ≤ sqrt x

omit [Field K] [LinearOrder K] [IsStrictOrderedRing K] in
theorem V3.ext' (a b : V3 K) (hx : a.x = b.x) (hy : a.y = b.y) (hz : a.z = b.z) : a = b := by
  cases a; cases b; simp_all

theorem dot_self_nonneg (v : V3 K) : 0 ≤ dot v v := by
  unfold dot
  have := mul_self_nonneg v.x; have := mul_self_nonneg v.y; have := mul_self_nonneg v.z
  linarith

theorem norm_nonneg {sqrt : K → K} (hs : SqrtSpec sqrt) (v : V3 K) : 0 ≤ norm sqrt v :=
  hs.nonneg _ (dot_self_nonneg v)

theorem norm_sq {sqrt : K → K} (hs : SqrtSpec sqrt) (v : V3 K) : norm sqrt v * norm sqrt v = dot v v :=
  hs.sq _ (dot_self_nonneg v)

/-- Cauchy–Schwarz in three dimensions (Lagrange's identity) -/
theorem cauchy_schwarz3 (u v : V3 K) : dot u v * dot u v ≤ dot u u * dot v v := by
  unfold dot
  nlinarith [sq_nonneg (u.x * v.y - u.y * v.x), sq_nonneg (u.y * v.z - u.z * v.y), sq_nonneg (u.z * v.x - u.x * v.z)]

/-- triangle inequality for three points -/
theorem norm_triangle {sqrt : K → K} (hs : SqrtSpec sqrt) (a b c : V3 K) :
    norm sqrt (sub c a) ≤ norm sqrt (sub b a) + norm sqrt (sub c b) := by
  set u := sub b a with hu
  set v := sub c b with hv
  have hw : dot (sub c a) (sub c a) = dot u u + dot v v + 2 * dot u v := by
    simp only [hu, hv, dot, sub]; ring
  have hsu := norm_sq hs u; have hsv := norm_sq hs v; have hsw := norm_sq hs (sub c a)
  have hnu := norm_nonneg hs u; have hnv := norm_nonneg hs v; have hnw := norm_nonneg hs (sub c a)
  set su := norm sqrt u; set sv := norm sqrt v; set sw := norm sqrt (sub c a)
  have hcs := cauchy_schwarz3 u v
  -- u·v ≤ su sv
  have huv : dot u v ≤ su * sv := by
    by_contra hlt
    have hlt' : su * sv < dot u v := not_le.mp hlt
    have h0 : 0 ≤ su * sv := mul_nonneg hnu hnv
    have : (su * sv) * (su * sv) < dot u v * dot u v := mul_self_lt_mul_self h0 hlt'
    have e : (su * sv) * (su * sv) = dot u u * dot v v := by rw [← hsu, ← hsv]; ring
    linarith
  have hsq : sw * sw ≤ (su + sv) * (su + sv) := by
    have : (su + sv) * (su + sv) = dot u u + dot v v + 2 * (su * sv) := by rw [← hsu, ← hsv]; ring
    rw [this, hsw, hw]; linarith
  by_contra hlt
  have hlt' : su + sv < sw := not_le.mp hlt
  have := mul_self_lt_mul_self (add_nonneg hnu hnv) hlt'
  linarith

/-- **The path is at least as long as the straight line between its ends** (from any start point on), provided
every curve segment is at least as long as its chord. -/
theorem lengthFrom_ge_straight {sqrt : K → K} (hs : SqrtSpec sqrt) (es : List (Elem K)) :
    ∀ (q : V3 K) (T : EndPt K), arcsGeChords sqrt es → norm sqrt (sub T.p q) ≤ lengthFrom sqrt q es T := by
  induction es with
  | nil => intro q T _; simp [lengthFrom]
  | cons e es ih =>
    intro q T h
    cases e with
    | curve k P tP Q tQ arc =>
      simp only [arcsGeChords] at h
      simp only [lengthFrom]
      have h1 := ih Q T h.2
      have t1 := norm_triangle hs q Q T.p
      have t2 := norm_triangle hs q P Q
      linarith [h.1]
    | via k p tin tout =>
      simp only [arcsGeChords] at h
      simp only [lengthFrom]
      have h1 := ih p T h
      have t1 := norm_triangle hs q p T.p
      linarith

theorem length_ge_straight {sqrt : K → K} (hs : SqrtSpec sqrt) (c : Path K) (h : arcsGeChords sqrt c.elems) :
    norm sqrt (sub c.term.p c.origin.p) ≤ length sqrt c :=
  lengthFrom_ge_straight hs c.elems c.origin.p c.term h

/-- … and it is exactly the sum of its segments: lengths are non-negative, so the total is at least every part -/
theorem lengthFrom_nonneg {sqrt : K → K} (hs : SqrtSpec sqrt) (es : List (Elem K)) :
    ∀ (q : V3 K) (T : EndPt K), arcsGeChords sqrt es → 0 ≤ lengthFrom sqrt q es T := by
  intro q T h
  exact le_trans (norm_nonneg hs _) (lengthFrom_ge_straight hs es q T h)

/-! ## Length rate is the derivative of the length (jets) -/

omit [Field K] [LinearOrder K] [IsStrictOrderedRing K] in
theorem Jet.ext' (a b : Jet K) (hv : a.v = b.v) (hd : a.d = b.d) : a = b := by
  cases a; cases b; simp_all

/-- the lift of `√` squares back to its argument: `(√a)² = a` holds as an identity of jets -/
theorem sqrtJ_mul_self {sqrt : K → K} (hs : SqrtSpec sqrt) (a : Jet K) (ha : 0 < a.v) :
    sqrtJ sqrt a * sqrtJ sqrt a = a := by
  have hsq := hs.sq a.v ha.le
  have hne : sqrt a.v ≠ 0 := by
    intro h0; rw [h0] at hsq; simp at hsq; exact absurd hsq.symm (ne_of_gt ha)
  apply Jet.ext'
  · show sqrt a.v * sqrt a.v = a.v
    exact hsq
  · show sqrt a.v * (a.d / (2 * sqrt a.v)) + a.d / (2 * sqrt a.v) * sqrt a.v = a.d
    field_simp; ring

/-- **Straight segment.**  For end points moving with velocities `v₁`, `v₂` the ε-coefficient of the distance
`‖(p₂+εv₂) − (p₁+εv₁)‖`, computed by the *same* `norm` code on jets, is `ê·(v₂ − v₁)` with `ê = UnitVec3(p₂ − p₁)`
— the summand of `calcDataVel`. -/
theorem lengthdot_is_derivative {sqrt : K → K} (hs : SqrtSpec sqrt) (p1 v1 p2 v2 : V3 K)
    (hpos : 0 < dot (sub p2 p1) (sub p2 p1)) :
    (norm (sqrtJ sqrt) (sub (liftPt p2 v2) (liftPt p1 v1))).d = dot (unit sqrt (sub p2 p1)) (sub v2 v1) ∧
    (norm (sqrtJ sqrt) (sub (liftPt p2 v2) (liftPt p1 v1))).v = norm sqrt (sub p2 p1) := by
  have hsq := hs.sq _ hpos.le
  have hne : sqrt (dot (sub p2 p1) (sub p2 p1)) ≠ 0 := by
    intro h0; rw [h0] at hsq; simp at hsq; exact absurd hsq.symm (ne_of_gt hpos)
  constructor
  · show ((p2.x - p1.x) * (v2.x - v1.x) + (v2.x - v1.x) * (p2.x - p1.x)
        + ((p2.y - p1.y) * (v2.y - v1.y) + (v2.y - v1.y) * (p2.y - p1.y))
        + ((p2.z - p1.z) * (v2.z - v1.z) + (v2.z - v1.z) * (p2.z - p1.z)))
        / (2 * sqrt ((p2.x - p1.x) * (p2.x - p1.x) + (p2.y - p1.y) * (p2.y - p1.y) + (p2.z - p1.z) * (p2.z - p1.z)))
      = _
    simp only [unit, norm, dot, smul, sub] at hne ⊢
    field_simp
    ring
  · rfl

/-- jet lift of a path that runs through via points only: every point moves with the body it is fixed to -/
def zJ : V3 (Jet K) := ⟨⟨0, 0⟩, ⟨0, 0⟩, ⟨0, 0⟩⟩
def liftEnd (T : EndPt K) : EndPt (Jet K) := ⟨⟨zJ, zJ, zJ⟩, liftPt T.p (pointVel T.k T.p), zJ⟩
def liftVias : List (Elem K) → List (Elem (Jet K))
  | [] => []
  | .via k p _ _ :: es => .via ⟨zJ, zJ, zJ⟩ (liftPt p (pointVel k p)) zJ zJ :: liftVias es
  | .curve _ _ _ _ _ _ :: es => liftVias es

/-- all elements are via points and every straight segment has positive length -/
def viaOnlyPos (q : V3 K) : List (Elem K) → EndPt K → Prop
  | [], T => 0 < dot (sub T.p q) (sub T.p q)
  | .via _ p _ _ :: es, T => 0 < dot (sub p q) (sub p q) ∧ viaOnlyPos p es T
  | .curve _ _ _ _ _ _ :: _, _ => False

/-- **Whole path through via points**: the ε-coefficient of the length of the moving path, computed by the same
`lengthFrom` code on jets, is `ldotFrom` — i.e. `calcLengthDot` is the time derivative of `calcLength`. -/
theorem lengthDot_via_is_derivative {sqrt : K → K} (hs : SqrtSpec sqrt) (es : List (Elem K)) :
    ∀ (q vq : V3 K) (T : EndPt K), viaOnlyPos q es T →
      (lengthFrom (sqrtJ sqrt) (liftPt q vq) (liftVias es) (liftEnd T)).d = ldotFrom sqrt q vq es T := by
  induction es with
  | nil =>
    intro q vq T h
    exact (lengthdot_is_derivative hs q vq T.p (pointVel T.k T.p) h).1
  | cons e es ih =>
    intro q vq T h
    cases e with
    | curve k P tP Q tQ arc => exact absurd h (by simp [viaOnlyPos])
    | via k p tin tout =>
      obtain ⟨h1, h2⟩ := h
      have e1 := (lengthdot_is_derivative hs q vq p (pointVel k p) h1).1
      have e2 := ih p (pointVel k p) T h2
      simp only [liftVias, lengthFrom, ldotFrom]
      rw [← e1, ← e2]
      rfl

/-! ## Power and the third law -/

omit [LinearOrder K] [IsStrictOrderedRing K] in
/-- power of a force `f` applied at point `p` of a body = `f · (velocity of that point)` -/
theorem spatialPower_point (k : Kin K) (p f : V3 K) :
    spatialPower ⟨cross (sub p k.xB) f, f⟩ k = dot f (pointVel k p) := by
  simp only [spatialPower, pointVel, dot, cross, sub, add]; ring

omit [LinearOrder K] [IsStrictOrderedRing K] in
theorem spatialPower_elem (e : Elem K) :
    spatialPower (unitForceElem e) (elemKin e) =
      match e with
      | .curve k P tP Q tQ _ => dot tQ (pointVel k Q) - dot tP (pointVel k P)
      | .via k p tin tout => dot tout (pointVel k p) - dot tin (pointVel k p) := by
  cases e <;> simp only [unitForceElem, elemKin, spatialPower, pointVel, dot, cross, sub, add] <;> ring

omit [LinearOrder K] [IsStrictOrderedRing K] in
theorem spatialPower_term (T : EndPt K) : spatialPower (unitForceTerm T) T.k = -dot T.t (pointVel T.k T.p) := by
  simp only [unitForceTerm, spatialPower, pointVel, dot, cross, sub, add, neg]; ring

omit [LinearOrder K] [IsStrictOrderedRing K] in
/-- telescoping: from any straight-segment start `(q, v_q)` with outgoing tangent `t_q` on, the remaining unit
power plus `t_q·v_q` is minus the remaining length rate -/
theorem powerFrom_eq (sqrt : K → K) (es : List (Elem K)) :
    ∀ (q tq vq : V3 K) (T : EndPt K), smoothFrom sqrt q tq es T →
      dot tq vq + powerFrom es T = -ldotFrom sqrt q vq es T := by
  induction es with
  | nil =>
    intro q tq vq T h
    obtain ⟨h1, h2⟩ := h
    simp only [powerFrom, ldotFrom, spatialPower_term]
    rw [h2, ← h1]
    simp only [dot, sub]; ring
  | cons e es ih =>
    intro q tq vq T h
    cases e with
    | curve k P tP Q tQ arc =>
      obtain ⟨h1, h2, h3⟩ := h
      have := ih Q tQ (pointVel k Q) T h3
      simp only [powerFrom, ldotFrom, spatialPower_elem]
      rw [h2, ← h1]
      simp only [dot, sub] at this ⊢
      linear_combination this
    | via k p tin tout =>
      obtain ⟨h1, h2, h3⟩ := h
      have := ih p tout (pointVel k p) T h3
      simp only [powerFrom, ldotFrom, spatialPower_elem]
      rw [h2, ← h1]
      simp only [dot, sub] at this ⊢
      linear_combination this

omit [LinearOrder K] [IsStrictOrderedRing K] in
theorem unitPower_eq_neg_lengthDot (sqrt : K → K) (c : Path K) (h : smooth sqrt c) :
    unitPower c = -lengthDot sqrt c := by
  unfold unitPower lengthDot
  have := powerFrom_eq sqrt c.elems c.origin.p c.origin.t (pointVel c.origin.k c.origin.p) c.term h
  have e : spatialPower (unitForceOrigin c.origin) c.origin.k = dot c.origin.t (pointVel c.origin.k c.origin.p) :=
    spatialPower_point c.origin.k c.origin.p c.origin.t
  rw [e]; exact this

omit [IsStrictOrderedRing K] in
/-- **The cable's applied forces deliver power `−T·L̇`** (smooth path, non-negative tension); a slack cable
(negative tension) delivers none. -/
theorem power_eq_minus_tension_lengthdot (sqrt : K → K) (c : Path K) (h : smooth sqrt c) (T : K) :
    (0 ≤ T → cablePower c T = -(T * lengthDot sqrt c)) ∧ (T < 0 → cablePower c T = 0) := by
  unfold cablePower
  constructor
  · intro hT
    rw [if_neg (not_lt.mpr hT), unitPower_eq_neg_lengthDot sqrt c h]; ring
  · intro hT; rw [if_pos hT]

omit [LinearOrder K] [IsStrictOrderedRing K] in
theorem forceFrom_eq (sqrt : K → K) (es : List (Elem K)) :
    ∀ (q tq : V3 K) (T : EndPt K), smoothFrom sqrt q tq es T → forceFrom es T = neg tq := by
  induction es with
  | nil => intro q tq T h; simp only [forceFrom, unitForceTerm]; rw [h.2]
  | cons e es ih =>
    intro q tq T h
    cases e with
    | curve k P tP Q tQ arc =>
      obtain ⟨_, h2, h3⟩ := h
      simp only [forceFrom, unitForceElem, ih Q tQ T h3, h2]
      apply V3.ext' <;> simp only [add, sub, neg] <;> ring
    | via k p tin tout =>
      obtain ⟨_, h2, h3⟩ := h
      simp only [forceFrom, unitForceElem, ih p tout T h3, h2]
      apply V3.ext' <;> simp only [add, sub, neg] <;> ring

omit [LinearOrder K] [IsStrictOrderedRing K] in
/-- **Third law (forces).**  On a smooth path the forces `applyBodyForces` applies sum to zero. -/
theorem forces_sum_zero (sqrt : K → K) (c : Path K) (h : smooth sqrt c) : totalForce c = zero := by
  unfold totalForce
  rw [forceFrom_eq sqrt c.elems c.origin.p c.origin.t c.term h]
  apply V3.ext' <;> simp only [unitForceOrigin, add, neg, zero] <;> ring

omit [LinearOrder K] [IsStrictOrderedRing K] in
theorem cross_unit_parallel (sqrt : K → K) (a b : V3 K) : cross (sub b a) (unit sqrt (sub b a)) = zero := by
  apply V3.ext' <;> simp only [unit, smul, cross, sub, zero] <;> ring

omit [LinearOrder K] [IsStrictOrderedRing K] in
theorem momentFrom_eq (sqrt : K → K) (es : List (Elem K)) :
    ∀ (q tq : V3 K) (T : EndPt K), smoothFrom sqrt q tq es T → momentFrom es T = neg (cross q tq) := by
  induction es with
  | nil =>
    intro q tq T h
    obtain ⟨h1, h2⟩ := h
    have hp := cross_unit_parallel sqrt q T.p
    rw [← h1] at hp
    simp only [momentFrom, groundMoment, unitForceTerm, h2]
    have hx := congrArg V3.x hp; have hy := congrArg V3.y hp; have hz := congrArg V3.z hp
    simp only [cross, sub, zero] at hx hy hz
    apply V3.ext' <;> simp only [add, sub, neg, cross]
    · linear_combination -hx
    · linear_combination -hy
    · linear_combination -hz
  | cons e es ih =>
    intro q tq T h
    cases e with
    | curve k P tP Q tQ arc =>
      obtain ⟨h1, h2, h3⟩ := h
      have hp := cross_unit_parallel sqrt q P
      rw [← h1] at hp
      have hx := congrArg V3.x hp; have hy := congrArg V3.y hp; have hz := congrArg V3.z hp
      simp only [cross, sub, zero] at hx hy hz
      simp only [momentFrom, groundMoment, unitForceElem, elemKin, ih Q tQ T h3, h2]
      apply V3.ext' <;> simp only [add, sub, neg, cross]
      · linear_combination -hx
      · linear_combination -hy
      · linear_combination -hz
    | via k p tin tout =>
      obtain ⟨h1, h2, h3⟩ := h
      have hp := cross_unit_parallel sqrt q p
      rw [← h1] at hp
      have hx := congrArg V3.x hp; have hy := congrArg V3.y hp; have hz := congrArg V3.z hp
      simp only [cross, sub, zero] at hx hy hz
      simp only [momentFrom, groundMoment, unitForceElem, elemKin, ih p tout T h3, h2]
      apply V3.ext' <;> simp only [add, sub, neg, cross]
      · linear_combination -hx
      · linear_combination -hy
      · linear_combination -hz

omit [LinearOrder K] [IsStrictOrderedRing K] in
/-- **Third law (moments).**  On a smooth path the resultant moment about the ground origin is zero. -/
theorem moments_sum_zero (sqrt : K → K) (c : Path K) (h : smooth sqrt c) : totalMoment c = zero := by
  unfold totalMoment
  rw [momentFrom_eq sqrt c.elems c.origin.p c.origin.t c.term h]
  apply V3.ext' <;> simp only [groundMoment, unitForceOrigin, add, neg, zero, cross, sub] <;> ring

/-! ## Without the smoothness hypothesis: resultants equal the tangent defects

A converged solve delivers tangents equal to the segment directions only up to its smoothness tolerance.  The next two
theorems hold for *any* path data: the resultant force is exactly the sum of the tangent defects `t − ê` at the two ends
of every straight segment, and `unitPower + lengthDot` is exactly the sum of `defect · point velocity`.  The harness
bounds its force / moment / power predicates by the smoothness the solver reports through these identities
(each defect is at most `√2 ·` path error), instead of by fixed numbers. -/

/-- sum over the remaining straight segments of (exit-tangent defect at the start) − (entrance-tangent defect at the end) -/
def defectForceFrom (sqrt : K → K) (q tq : V3 K) : List (Elem K) → EndPt K → V3 K
  | [], T => sub (sub tq (unit sqrt (sub T.p q))) (sub T.t (unit sqrt (sub T.p q)))
  | .curve _ P tP Q tQ _ :: es, T =>
      add (sub (sub tq (unit sqrt (sub P q))) (sub tP (unit sqrt (sub P q)))) (defectForceFrom sqrt Q tQ es T)
  | .via _ p tin tout :: es, T =>
      add (sub (sub tq (unit sqrt (sub p q))) (sub tin (unit sqrt (sub p q)))) (defectForceFrom sqrt p tout es T)

/-- the same with each defect dotted into the velocity of the point it sits at -/
def defectPowerFrom (sqrt : K → K) (q tq vq : V3 K) : List (Elem K) → EndPt K → K
  | [], T => dot (sub tq (unit sqrt (sub T.p q))) vq - dot (sub T.t (unit sqrt (sub T.p q))) (pointVel T.k T.p)
  | .curve k P tP Q tQ _ :: es, T =>
      dot (sub tq (unit sqrt (sub P q))) vq - dot (sub tP (unit sqrt (sub P q))) (pointVel k P)
        + defectPowerFrom sqrt Q tQ (pointVel k Q) es T
  | .via k p tin tout :: es, T =>
      dot (sub tq (unit sqrt (sub p q))) vq - dot (sub tin (unit sqrt (sub p q))) (pointVel k p)
        + defectPowerFrom sqrt p tout (pointVel k p) es T

omit [LinearOrder K] [IsStrictOrderedRing K] in
theorem forceFrom_add_eq_defects (sqrt : K → K) (es : List (Elem K)) :
    ∀ (q tq : V3 K) (T : EndPt K), add tq (forceFrom es T) = defectForceFrom sqrt q tq es T := by
  induction es with
  | nil =>
    intro q tq T
    simp only [forceFrom, unitForceTerm, defectForceFrom]
    apply V3.ext' <;> simp only [add, sub, neg] <;> ring
  | cons e es ih =>
    intro q tq T
    cases e with
    | curve k P tP Q tQ arc =>
      have h := ih Q tQ T
      simp only [forceFrom, unitForceElem, defectForceFrom, ← h]
      apply V3.ext' <;> simp only [add, sub] <;> ring
    | via k p tin tout =>
      have h := ih p tout T
      simp only [forceFrom, unitForceElem, defectForceFrom, ← h]
      apply V3.ext' <;> simp only [add, sub] <;> ring

omit [LinearOrder K] [IsStrictOrderedRing K] in
/-- **Resultant force = sum of tangent defects** (no hypothesis on the path) -/
theorem totalForce_eq_defects (sqrt : K → K) (c : Path K) :
    totalForce c = defectForceFrom sqrt c.origin.p c.origin.t c.elems c.term := by
  unfold totalForce
  exact forceFrom_add_eq_defects sqrt c.elems c.origin.p c.origin.t c.term

omit [LinearOrder K] [IsStrictOrderedRing K] in
theorem powerFrom_add_ldot_eq_defects (sqrt : K → K) (es : List (Elem K)) :
    ∀ (q tq vq : V3 K) (T : EndPt K),
      dot tq vq + powerFrom es T + ldotFrom sqrt q vq es T = defectPowerFrom sqrt q tq vq es T := by
  induction es with
  | nil =>
    intro q tq vq T
    simp only [powerFrom, ldotFrom, spatialPower_term, defectPowerFrom]
    simp only [dot, sub]; ring
  | cons e es ih =>
    intro q tq vq T
    cases e with
    | curve k P tP Q tQ arc =>
      have h := ih Q tQ (pointVel k Q) T
      simp only [powerFrom, ldotFrom, spatialPower_elem, defectPowerFrom, ← h]
      simp only [dot, sub]; ring
    | via k p tin tout =>
      have h := ih p tout (pointVel k p) T
      simp only [powerFrom, ldotFrom, spatialPower_elem, defectPowerFrom, ← h]
      simp only [dot, sub]; ring

omit [LinearOrder K] [IsStrictOrderedRing K] in
/-- **`unitPower + lengthDot` = sum of (tangent defect · point velocity)** (no hypothesis on the path); with `smooth`
every defect vanishes and this is `unitPower_eq_neg_lengthDot` -/
theorem unitPower_add_lengthDot_eq_defects (sqrt : K → K) (c : Path K) :
    unitPower c + lengthDot sqrt c
      = defectPowerFrom sqrt c.origin.p c.origin.t (pointVel c.origin.k c.origin.p) c.elems c.term := by
  unfold unitPower lengthDot
  have e : spatialPower (unitForceOrigin c.origin) c.origin.k = dot c.origin.t (pointVel c.origin.k c.origin.p) :=
    spatialPower_point c.origin.k c.origin.p c.origin.t
  rw [e]
  exact powerFrom_add_ldot_eq_defects sqrt c.elems c.origin.p c.origin.t (pointVel c.origin.k c.origin.p) c.term

/-! ## Non-vacuity -/

/-- a smooth two-point path exists for a concrete `sqrt` on the value used: O=(0,0,0), T=(2,0,0), `√4 = 2`,
tangent (1,0,0) at both ends -/
example :
    let z : V3 ℚ := ⟨0, 0, 0⟩
    let k : Kin ℚ := ⟨z, z, z⟩
    smooth (K := ℚ) (fun x => if x = 4 then 2 else 0) ⟨⟨k, z, ⟨1, 0, 0⟩⟩, [], ⟨k, ⟨2, 0, 0⟩, ⟨1, 0, 0⟩⟩⟩ := by
  simp only [smooth, smoothFrom, unit, norm, dot, sub, smul]
  norm_num

end C45
