import SimbodyModel.Spatial
import Mathlib.Tactic.Ring
import Mathlib.Tactic.FieldSimp
import Mathlib.Tactic.Linarith
import Mathlib.Tactic.LinearCombination
import Mathlib.Tactic.Positivity
import Mathlib.Tactic.NormNum
import Mathlib.Algebra.Order.Field.Basic

/-!
# Generic lemmas about the `Spatial` model (shared by C27, C28, C29 and the tree families)

3×3 matrix algebra over a commutative ring / field for the plain-structure model: associativity, transpose,
determinant multiplicativity, the predicate `IsProper` (orthonormal with determinant one) and its closure
properties, cross-product covariance under proper rotations.
-/
namespace Spatial

/-- unfolds the componentwise definitions of the model (to be followed by `ring`) -/
macro "spatial_unfold" : tactic =>
  `(tactic| simp only [Vec3.add, Vec3.sub, Vec3.neg, Vec3.smul, Vec3.divS, Vec3.dot, Vec3.cross, Vec3.normSq,
      Vec3.zero, Mat33.transpose, Mat33.mul, Mat33.mulVec, Mat33.tmulVec, Mat33.add, Mat33.sub, Mat33.neg,
      Mat33.smul, Mat33.diag, Mat33.one, Mat33.zero, Mat33.det, Mat33.trace, Mat33.crossMat, Mat33.adj,
      Mat33.ofCols, SymMat33.toMat33, SymMat33.ofLower, SymMat33.add, SymMat33.sub, SymMat33.smul,
      SymMat33.diag, SymMat33.mulVec, SymMat33.trace, SymMat33.minors2, SymMat33.det,
      SpatialVec.add, SpatialVec.sub, SpatialVec.neg, SpatialVec.smul, SpatialVec.dot, SpatialVec.rot,
      SpatialVec.trot, SpatialMat.mulVec, SpatialMat.mul, SpatialMat.transpose, SpatialMat.add,
      Quaternion.normSq, Quaternion.smul, Quaternion.divS, Quaternion.neg, Quaternion.add, Quaternion.dot,
      Quaternion.hamilton])

/-- prove an equation between model structures componentwise by `ring` -/
macro "spatial_ring" : tactic =>
  `(tactic| ((try spatial_unfold); (try ext) <;> (try simp only []) <;> (try ring)))


/-! ## Jets: projection lemmas (simp set for "value part / derivative part" computations) -/
namespace Jet
variable {K : Type}
@[simp] theorem add_re [Add K] (a b : Jet K) : (a + b).re = a.re + b.re := rfl
@[simp] theorem add_eps [Add K] (a b : Jet K) : (a + b).eps = a.eps + b.eps := rfl
@[simp] theorem sub_re [Sub K] (a b : Jet K) : (a - b).re = a.re - b.re := rfl
@[simp] theorem sub_eps [Sub K] (a b : Jet K) : (a - b).eps = a.eps - b.eps := rfl
@[simp] theorem neg_re [Neg K] (a : Jet K) : (-a).re = -a.re := rfl
@[simp] theorem neg_eps [Neg K] (a : Jet K) : (-a).eps = -a.eps := rfl
@[simp] theorem mul_re [Add K] [Mul K] (a b : Jet K) : (a * b).re = a.re * b.re := rfl
@[simp] theorem mul_eps [Add K] [Mul K] (a b : Jet K) : (a * b).eps = a.re * b.eps + a.eps * b.re := rfl
@[simp] theorem div_re [Sub K] [Mul K] [Div K] (a b : Jet K) : (a / b).re = a.re / b.re := rfl
@[simp] theorem div_eps [Sub K] [Mul K] [Div K] (a b : Jet K) :
    (a / b).eps = (a.eps * b.re - a.re * b.eps) / (b.re * b.re) := rfl
@[simp] theorem ofNat_re (n : Nat) [OfNat K n] [OfNat K 0] : (OfNat.ofNat n : Jet K).re = OfNat.ofNat n := rfl
@[simp] theorem ofNat_eps (n : Nat) [OfNat K n] [OfNat K 0] : (OfNat.ofNat n : Jet K).eps = 0 := rfl
@[simp] theorem zero_re [OfNat K 0] : (0 : Jet K).re = 0 := rfl
@[simp] theorem zero_eps [OfNat K 0] : (0 : Jet K).eps = 0 := rfl
@[simp] theorem one_re [OfNat K 1] [OfNat K 0] : (1 : Jet K).re = 1 := rfl
@[simp] theorem one_eps [OfNat K 1] [OfNat K 0] : (1 : Jet K).eps = 0 := rfl
@[simp] theorem two_re [OfNat K 2] [OfNat K 0] : (2 : Jet K).re = 2 := rfl
@[simp] theorem two_eps [OfNat K 2] [OfNat K 0] : (2 : Jet K).eps = 0 := rfl
@[simp] theorem four_re [OfNat K 4] [OfNat K 0] : (4 : Jet K).re = 4 := rfl
@[simp] theorem four_eps [OfNat K 4] [OfNat K 0] : (4 : Jet K).eps = 0 := rfl
end Jet

/-- unfolds jet arithmetic down to the scalar field -/
macro "jet_simp" : tactic =>
  `(tactic| simp only [Jet.add_re, Jet.add_eps, Jet.sub_re, Jet.sub_eps, Jet.neg_re, Jet.neg_eps, Jet.mul_re,
      Jet.mul_eps, Jet.div_re, Jet.div_eps, Jet.ofNat_re, Jet.ofNat_eps, Jet.zero_re, Jet.zero_eps, Jet.one_re,
      Jet.one_eps, Jet.two_re, Jet.two_eps, Jet.four_re, Jet.four_eps, Trig.lift])

section CommRing
variable {K : Type} [CommRing K]

namespace Mat33
theorem mul_assoc (a b c : Mat33 K) : (a.mul b).mul c = a.mul (b.mul c) := by spatial_ring
theorem mul_one (a : Mat33 K) : a.mul one = a := by spatial_ring
theorem one_mul (a : Mat33 K) : one.mul a = a := by spatial_ring
theorem transpose_mul (a b : Mat33 K) : (a.mul b).transpose = b.transpose.mul a.transpose := by spatial_ring
omit [CommRing K] in
theorem transpose_transpose (a : Mat33 K) : a.transpose.transpose = a := rfl
theorem transpose_one : (one : Mat33 K).transpose = one := rfl
theorem det_mul (a b : Mat33 K) : (a.mul b).det = a.det * b.det := by spatial_unfold; ring
theorem det_transpose (a : Mat33 K) : a.transpose.det = a.det := by spatial_unfold; ring
theorem det_one : (one : Mat33 K).det = 1 := by spatial_unfold; ring
theorem mulVec_mulVec (a b : Mat33 K) (v : Vec3 K) : a.mulVec (b.mulVec v) = (a.mul b).mulVec v := by spatial_ring
theorem one_mulVec (v : Vec3 K) : (one : Mat33 K).mulVec v = v := by spatial_ring
theorem mul_adj (a : Mat33 K) : a.mul a.adj = smul a.det one := by spatial_ring
theorem adj_mul (a : Mat33 K) : a.adj.mul a = smul a.det one := by spatial_ring
theorem crossMat_mulVec (v w : Vec3 K) : (crossMat v).mulVec w = v.cross w := by spatial_ring
theorem trace_mul_comm (a b : Mat33 K) : (a.mul b).trace = (b.mul a).trace := by spatial_unfold; ring
theorem mulVec_add (a : Mat33 K) (v w : Vec3 K) : a.mulVec (v.add w) = (a.mulVec v).add (a.mulVec w) := by spatial_ring
theorem mulVec_sub (a : Mat33 K) (v w : Vec3 K) : a.mulVec (v.sub w) = (a.mulVec v).sub (a.mulVec w) := by spatial_ring
theorem mulVec_neg (a : Mat33 K) (v : Vec3 K) : a.mulVec v.neg = (a.mulVec v).neg := by spatial_ring
/-- `(A v) × (A w) = adj(A)ᵀ (v × w)` -/
theorem cross_mulVec (a : Mat33 K) (v w : Vec3 K) :
    (a.mulVec v).cross (a.mulVec w) = a.adj.transpose.mulVec (v.cross w) := by spatial_ring
theorem dot_mulVec (a : Mat33 K) (v w : Vec3 K) : (a.mulVec v).dot w = v.dot (a.transpose.mulVec w) := by
  spatial_unfold; ring

/-- proper rotation: orthonormal (both `RᵀR = 1` and `RRᵀ = 1`) with determinant one -/
structure IsProper (R : Mat33 K) : Prop where
  tmul : R.transpose.mul R = one
  mult : R.mul R.transpose = one
  det1 : R.det = 1

theorem isProper_one : IsProper (one : Mat33 K) := ⟨by spatial_ring, by spatial_ring, by spatial_unfold; ring⟩

theorem IsProper.mul {a b : Mat33 K} (ha : IsProper a) (hb : IsProper b) : IsProper (a.mul b) := by
  refine ⟨?_, ?_, ?_⟩
  · rw [transpose_mul, mul_assoc, ← mul_assoc a.transpose, ha.tmul, one_mul, hb.tmul]
  · rw [transpose_mul, mul_assoc, ← mul_assoc b, hb.mult, one_mul, ha.mult]
  · rw [det_mul, ha.det1, hb.det1, _root_.mul_one]

theorem IsProper.transpose {a : Mat33 K} (ha : IsProper a) : IsProper a.transpose :=
  ⟨by rw [transpose_transpose]; exact ha.mult, by rw [transpose_transpose]; exact ha.tmul,
   by rw [det_transpose]; exact ha.det1⟩

/-- for a proper rotation the adjugate is the transpose (every entry equals its cofactor) -/
theorem IsProper.adj_eq {a : Mat33 K} (ha : IsProper a) : a.adj = a.transpose := by
  have h1 : a.transpose.mul (a.mul a.adj) = a.transpose.mul (smul a.det one) := by rw [mul_adj]
  rw [← mul_assoc, ha.tmul, one_mul, ha.det1] at h1
  rw [h1]; spatial_ring

/-- a proper rotation commutes with the cross product -/
theorem IsProper.cross {a : Mat33 K} (ha : IsProper a) (v w : Vec3 K) :
    (a.mulVec v).cross (a.mulVec w) = a.mulVec (v.cross w) := by
  rw [cross_mulVec, ha.adj_eq, transpose_transpose]

theorem IsProper.dot {a : Mat33 K} (ha : IsProper a) (v w : Vec3 K) : (a.mulVec v).dot (a.mulVec w) = v.dot w := by
  rw [dot_mulVec, mulVec_mulVec, ha.tmul, one_mulVec]

theorem IsProper.tmulVec_mulVec {a : Mat33 K} (ha : IsProper a) (v : Vec3 K) : a.tmulVec (a.mulVec v) = v := by
  unfold tmulVec; rw [mulVec_mulVec, ha.tmul, one_mulVec]

theorem IsProper.mulVec_tmulVec {a : Mat33 K} (ha : IsProper a) (v : Vec3 K) : a.mulVec (a.tmulVec v) = v := by
  unfold tmulVec; rw [mulVec_mulVec, ha.mult, one_mulVec]

end Mat33
end CommRing

section FieldLemmas
variable {K : Type} [Field K]
open Mat33
namespace Rotation
/-- **`reexpressSymMat33` (Featherstone's 57-flop trick) equals `R S Rᵀ`** for every proper rotation `R` and
symmetric `S` — all nine entries -/
theorem reexpressSymMat33_eq' (R : Mat33 K) (h : IsProper R) (S : SymMat33 K) :
    (reexpressSymMat33 R S).toMat33 = (R.mul S.toMat33).mul R.transpose := by
  have hadj := h.adj_eq
  have hm := h.mult
  have ht := h.tmul
  simp only [Mat33.adj, Mat33.transpose, Mat33.mul, Mat33.one, Mat33.diag, Mat33.mk.injEq] at hadj hm ht
  obtain ⟨k00, k01, k02, k10, k11, k12, k20, k21, k22⟩ := hadj
  obtain ⟨m00, m01, m02, m10, m11, m12, m20, m21, m22⟩ := hm
  obtain ⟨t00, t01, t02, t10, t11, t12, t20, t21, t22⟩ := ht
  simp only [reexpressSymMat33, SymMat33.toMat33, Mat33.mul, Mat33.transpose]
  ext <;> simp only []
  · linear_combination (-S.zz) * m00 + (-S.xx + S.zz) * t00 + (-2*S.xy) * t01 + (-2*S.xz) * t02 + (-S.yy + S.zz) * t11 + (-2*S.yz) * t12
  · linear_combination (-S.zz) * m01 + (S.yz) * k02 + (-S.xz) * k12
  · linear_combination (-S.yz) * k01 + (-S.zz) * m02 + (S.xz) * k11
  · linear_combination (-S.zz) * m01 + (S.yz) * k02 + (-S.xz) * k12
  · linear_combination (-S.zz) * m11
  · linear_combination (S.yz) * k00 + (-S.xz) * k10 + (-S.zz) * m12
  · linear_combination (-S.yz) * k01 + (-S.zz) * m02 + (S.xz) * k11
  · linear_combination (S.yz) * k00 + (-S.xz) * k10 + (-S.zz) * m12
  · linear_combination (-S.zz) * m22
end Rotation
end FieldLemmas
end Spatial
