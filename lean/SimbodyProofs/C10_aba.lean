import SimbodyProofs.TreeDynAbs

/-!
# C10 — articulated-body forward dynamics WITH prescribed mobilizers, on arbitrary rose trees

Abstract (dense `Matrix`) twin of the prescribed branches of `RigidBodyNodeSpec.cpp`
(`realizeArticulatedBodyInertiasInward`: `P⁺ = P` for a prescribed mobilizer;
`calcUDotPass1Inward`: `z = P a + b − F (+ P (H u̇_p) if prescribed) + Σ φ_c z⁺_c`, `eps = f − ~H z`,
`z⁺ = z` if prescribed else `z + G eps`;
`calcUDotPass2Outward`: `tau = eps − ~H (P A⁺)` if prescribed else `u̇ = DI eps − ~G A⁺`; `A = A⁺ + H u̇ + a`),
the same recursions `SimbodyModel/TreeDyn.lean` (`abiIn`, `fwdIn`, `fwdOut`) executes in the `aba` records of the C10 driver.

The tree type, the body record (`H`, `phi`, `M`, biases, applied forces, the stored vector `ud` = the prescribed
acceleration of the joint) and the inverse-dynamics recursion `FrP` (RNEA: `F = M A + b − F_applied + Σ φ_c F_c`) are
those of `TreeDynAbs`.  Which joints are prescribed is a flag on subtrees `pr`; the inverse `di t` of
`D = Hᵀ P H` at a free joint is a parameter (the prescribed system has its own articulated inertias, hence its own `D`).
-/

open Matrix

namespace C10.Aba
open TreeDynAbs TreeDynAbs.MBT

variable {K : Type} [Field K] {ι : Type} [Fintype ι] [DecidableEq ι]

/-- which inboard joints are prescribed (`isUDotKnown`) -/
abbrev Flag (K ι : Type) := MBT K ι → Bool
/-- the claimed inverse of `D = Hᵀ P H` of the prescribed system, per joint -/
abbrev DInv (K ι : Type) := (t : MBT K ι) → Matrix (Fin (bd t).d) (Fin (bd t).d) K

section defs
variable (pr : Flag K ι) (di : DInv K ι)

/-- `P⁺` from `P`: rigid shift across a prescribed joint, `P − P H DI Hᵀ P` across a free one -/
def plusOf (t : MBT K ι) (P : Matrix ι ι K) : Matrix ι ι K :=
  if pr t then P else P - P * (bd t).H * di t * (bd t).Hᵀ * P

mutual
/-- articulated body inertia with prescribed joints -/
def Pp : MBT K ι → Matrix ι ι K
  | mk n cs => n.M + Ppkids cs
def Ppkids : List (MBT K ι) → Matrix ι ι K
  | [] => 0
  | c :: cs => (bd c).phi * plusOf pr di c (Pp c) * (bd c).phiᵀ + Ppkids cs
end

def PPp (t : MBT K ι) : Matrix ι ι K := plusOf pr di t (Pp pr di t)
/-- `D = Hᵀ P H` of the prescribed system -/
def Dp (t : MBT K ι) : Matrix (Fin (bd t).d) (Fin (bd t).d) K := (bd t).Hᵀ * Pp pr di t * (bd t).H
def Gp (t : MBT K ι) : Matrix ι (Fin (bd t).d) K := Pp pr di t * (bd t).H * di t

variable (ab fb : Bd K ι → ι → K) (fm : MobF K ι)

mutual
/-- pass 1: `z = P a + (b − F) + [P (H u̇_p)] + Σ φ_c z⁺_c` -/
def zp : MBT K ι → ι → K
  | mk n cs => Pp pr di (mk n cs) *ᵥ ab n + fb n
      + (if pr (mk n cs) then Pp pr di (mk n cs) *ᵥ (n.H *ᵥ n.ud) else 0) + zpkids cs
def zpkids : List (MBT K ι) → ι → K
  | [] => 0
  | c :: cs =>
      (bd c).phi *ᵥ (if pr c then zp c else zp c + Gp pr di c *ᵥ (fm c - (bd c).Hᵀ *ᵥ zp c)) + zpkids cs
end

/-- `eps = f − Hᵀ z` -/
def epsp (t : MBT K ι) : Fin (bd t).d → K := fm t - (bd t).Hᵀ *ᵥ zp pr di ab fb fm t
/-- `z⁺` -/
def zPp (t : MBT K ι) : ι → K :=
  if pr t then zp pr di ab fb fm t else zp pr di ab fb fm t + Gp pr di t *ᵥ epsp pr di ab fb fm t

/-- pass 2: the generalized acceleration of every joint — the prescribed value, or `DI eps − Gᵀ A⁺` -/
def udotP : Pol K ι := fun t Ap =>
  if pr t then (bd t).ud else di t *ᵥ epsp pr di ab fb fm t - (Gp pr di t)ᵀ *ᵥ Ap

/-- pass 2: the reported motion force of a prescribed joint, `tau = eps − Hᵀ (P A⁺)` -/
def taup (t : MBT K ι) (Ap : ι → K) : Fin (bd t).d → K :=
  epsp pr di ab fb fm t - (bd t).Hᵀ *ᵥ (Pp pr di t *ᵥ Ap)

/-- `findMotionForces`: `tau` at prescribed joints, `0` at free joints -/
def tauFull (t : MBT K ι) (Ap : ι → K) : Fin (bd t).d → K :=
  if pr t then taup pr di ab fb fm t Ap else 0

/-- well-formedness of the prescribed system: symmetric inertias; at every FREE joint `di` inverts `Hᵀ P H` -/
inductive WFp : MBT K ι → Prop
  | mk (n : Bd K ι) (cs : List (MBT K ι))
      (hM : n.Mᵀ = n.M)
      (hcs : ∀ c ∈ cs, WFp c)
      (hD : pr (MBT.mk n cs) = false →
        Dp pr di (MBT.mk n cs) * di (MBT.mk n cs) = 1 ∧ di (MBT.mk n cs) * Dp pr di (MBT.mk n cs) = 1) :
      WFp (MBT.mk n cs)
end defs

section proofs
variable (pr : Flag K ι) (di : DInv K ι)

theorem WFp.kids {n : Bd K ι} {cs : List (MBT K ι)} (h : WFp pr di (MBT.mk n cs)) : ∀ c ∈ cs, WFp pr di c := by
  cases h with | mk _ _ _ hcs _ => exact hcs

theorem WFp.inv {t : MBT K ι} (h : WFp pr di t) (hf : pr t = false) :
    ((bd t).Hᵀ * Pp pr di t * (bd t).H) * di t = 1 ∧ di t * ((bd t).Hᵀ * Pp pr di t * (bd t).H) = 1 := by
  cases h with | mk n cs _ _ hD => exact hD hf

mutual
theorem Pp_symm : ∀ (t : MBT K ι), WFp pr di t → (Pp pr di t)ᵀ = Pp pr di t
  | mk n cs, h => by
      cases h with
      | mk _ _ hM hcs hD =>
        simp only [Pp, transpose_add, hM, Ppkids_symm cs hcs]
theorem Ppkids_symm : ∀ (cs : List (MBT K ι)), (∀ c ∈ cs, WFp pr di c) → (Ppkids pr di cs)ᵀ = Ppkids pr di cs
  | [], _ => by simp [Ppkids]
  | c :: cs, h => by
      have hc : WFp pr di c := h c (by simp)
      have hcs : ∀ c' ∈ cs, WFp pr di c' := fun c' hc' => h c' (by simp [hc'])
      have hP := Pp_symm c hc
      by_cases hpr : pr c = true
      · simp only [Ppkids, plusOf, hpr, if_true, transpose_add, transpose_mul, transpose_transpose,
          Ppkids_symm cs hcs, hP, Matrix.mul_assoc]
      · have hf : pr c = false := by simpa using hpr
        have hDI : (di c)ᵀ = di c := by
          refine inv_symm_of_symm _ _ ?_ (WFp.inv pr di hc hf).1
          simp [transpose_mul, hP, Matrix.mul_assoc]
        simp only [Ppkids, plusOf, hf, Bool.false_eq_true, if_false, transpose_add, transpose_mul, transpose_sub,
          transpose_transpose, Ppkids_symm cs hcs, hP, hDI, Matrix.mul_assoc]
end

theorem di_symm (t : MBT K ι) (h : WFp pr di t) (hf : pr t = false) : (di t)ᵀ = di t := by
  have hP := Pp_symm pr di t h
  refine inv_symm_of_symm _ _ ?_ (WFp.inv pr di h hf).1
  simp [transpose_mul, hP, Matrix.mul_assoc]

variable (ab fb : Bd K ι → ι → K) (fm : MobF K ι)

mutual
/-- **Articulated-body equation with prescribed joints**: the inverse-dynamics (RNEA) force through the inboard joint
of `t`, evaluated on the accelerations the two passes produce (prescribed joints at their prescribed value), equals
`P⁺ A⁺ + z⁺`. -/
theorem Frp_eq : ∀ (t : MBT K ι) (Ap : ι → K), WFp pr di t →
    FrP ab fb (udotP pr di ab fb fm) t Ap = PPp pr di t *ᵥ Ap + zPp pr di ab fb fm t
  | mk n cs, Ap, h => by
      have hP := Pp_symm pr di (mk n cs) h
      have hcs := WFp.kids pr di h
      have hk := Frpkids_eq cs (accP ab (udotP pr di ab fb fm) (mk n cs) Ap) hcs
      have hPe : Pp pr di (mk n cs) = n.M + Ppkids pr di cs := by simp only [Pp]
      have hacc : accP ab (udotP pr di ab fb fm) (mk n cs) Ap
          = (Ap + n.H *ᵥ (udotP pr di ab fb fm (mk n cs) Ap)) + ab n := rfl
      simp only [FrP, hk]
      rw [hacc, aux_split _ _ _ hPe]
      by_cases hpr : pr (mk n cs) = true
      · simp only [udotP, PPp, zPp, plusOf, zp, hpr, if_true, bd, mulVec_add]
        abel
      · have hf : pr (mk n cs) = false := by simpa using hpr
        have hDI : (di (mk n cs))ᵀ = di (mk n cs) := di_symm pr di _ h hf
        have hstep := node_step (Pp pr di (mk n cs)) n.H (di (mk n cs)) hP hDI
          (zp pr di ab fb fm (mk n cs)) Ap (fm (mk n cs))
        have hz : zp pr di ab fb fm (mk n cs)
            = Pp pr di (mk n cs) *ᵥ ab n + fb n + zpkids pr di ab fb fm cs := by
          simp only [zp, hf, Bool.false_eq_true, if_false, add_zero]
        simp only [udotP, PPp, zPp, plusOf, epsp, Gp, hf, Bool.false_eq_true, if_false, bd]
        rw [← hz]
        exact hstep
theorem Frpkids_eq : ∀ (cs : List (MBT K ι)) (A : ι → K), (∀ c ∈ cs, WFp pr di c) →
    FrPkids ab fb (udotP pr di ab fb fm) cs A = Ppkids pr di cs *ᵥ A + zpkids pr di ab fb fm cs
  | [], A, _ => by simp [FrPkids, Ppkids, zpkids]
  | c :: cs, A, h => by
      have hc : WFp pr di c := h c (by simp)
      have hcs : ∀ c' ∈ cs, WFp pr di c' := fun c' hc' => h c' (by simp [hc'])
      simp only [FrPkids, Ppkids, zpkids, Frp_eq c _ hc, Frpkids_eq cs A hcs]
      by_cases hpr : pr c = true
      · simp only [PPp, zPp, plusOf, hpr, if_true, mulVec_add, add_mulVec, mulVec_mulVec, Matrix.mul_assoc]
        abel
      · have hf : pr c = false := by simpa using hpr
        simp only [PPp, zPp, plusOf, epsp, hf, Bool.false_eq_true, if_false, mulVec_add, add_mulVec, mulVec_mulVec,
          Matrix.mul_assoc]
        abel
end

/-- **Both block rows at one joint.**  Inverse dynamics of the two-pass result, projected on the joint:
`Hᵀ F = f` at a free joint (the free accelerations solve the equations of motion with the prescribed ones as given
inputs) and `Hᵀ F = f − tau` at a prescribed joint (the reported `tau = eps − Hᵀ P A⁺` is exactly the generalized force
missing from the equations of motion: `M u̇ + tau = f`). -/
theorem aba_prescribed_row (t : MBT K ι) (Ap : ι → K) (h : WFp pr di t) :
    (bd t).Hᵀ *ᵥ FrP ab fb (udotP pr di ab fb fm) t Ap = fm t - tauFull pr di ab fb fm t Ap := by
  rw [Frp_eq pr di ab fb fm t Ap h]
  by_cases hpr : pr t = true
  · simp only [PPp, zPp, plusOf, tauFull, taup, epsp, hpr, if_true, mulVec_add]
    abel
  · have hf : pr t = false := by simpa using hpr
    obtain ⟨hD1, _⟩ := WFp.inv pr di h hf
    simp only [PPp, zPp, plusOf, tauFull, epsp, Gp, hf, Bool.false_eq_true, if_false, sub_zero]
    exact node_residual (Pp pr di t) (bd t).H (di t) hD1 _ _ _

mutual
theorem allN_of_forall_p (pol : Pol K ι) (Q : MBT K ι → (ι → K) → Prop) (hQ : ∀ t Ap, WFp pr di t → Q t Ap) :
    ∀ (t : MBT K ι) (Ap : ι → K), WFp pr di t → AllN ab pol Q t Ap
  | mk n cs, Ap, h => by
      simp only [AllN]
      exact ⟨hQ _ _ h, allNk_of_forall_p pol Q hQ cs _ (WFp.kids pr di h)⟩
theorem allNk_of_forall_p (pol : Pol K ι) (Q : MBT K ι → (ι → K) → Prop) (hQ : ∀ t Ap, WFp pr di t → Q t Ap) :
    ∀ (cs : List (MBT K ι)) (A : ι → K), (∀ c ∈ cs, WFp pr di c) → AllNk ab pol Q cs A
  | [], _, _ => by simp only [AllNk]
  | c :: cs, A, h => by
      simp only [AllNk]
      exact ⟨allN_of_forall_p pol Q hQ c _ (h c (by simp)),
             allNk_of_forall_p pol Q hQ cs A (fun c' hc' => h c' (by simp [hc']))⟩
end

mutual
theorem allN_mp2 (pol : Pol K ι) (Q1 Q2 Q3 : MBT K ι → (ι → K) → Prop) (hQ : ∀ t Ap, Q1 t Ap → Q2 t Ap → Q3 t Ap) :
    ∀ (t : MBT K ι) (Ap : ι → K), AllN ab pol Q1 t Ap → AllN ab pol Q2 t Ap → AllN ab pol Q3 t Ap
  | mk n cs, Ap, h1, h2 => by
      simp only [AllN] at h1 h2 ⊢
      exact ⟨hQ _ _ h1.1 h2.1, allNk_mp2 pol Q1 Q2 Q3 hQ cs _ h1.2 h2.2⟩
theorem allNk_mp2 (pol : Pol K ι) (Q1 Q2 Q3 : MBT K ι → (ι → K) → Prop) (hQ : ∀ t Ap, Q1 t Ap → Q2 t Ap → Q3 t Ap) :
    ∀ (cs : List (MBT K ι)) (A : ι → K), AllNk ab pol Q1 cs A → AllNk ab pol Q2 cs A → AllNk ab pol Q3 cs A
  | [], _, _, _ => by simp only [AllNk]
  | c :: cs, A, h1, h2 => by
      simp only [AllNk] at h1 h2 ⊢
      exact ⟨allN_mp2 pol Q1 Q2 Q3 hQ c _ h1.1 h2.1, allNk_mp2 pol Q1 Q2 Q3 hQ cs A h1.2 h2.2⟩
end

end proofs
end C10.Aba
