import SimbodyModel.C11
import SimbodyProofs.C04_lemmas
import SimbodyProofs.C04
import Mathlib.Tactic.Ring
import Mathlib.Tactic.LinearCombination

/-!
# C11 — continuous-time links of energy / momentum conservation (property theorems)

What is proved (any commutative ring `K`; time derivatives by first-order jets `K[ε]/(ε²)`, product rule only):

* `inertia_rate_of_rotation`   `d/dt (R I_B ~R) = [ω]× I − I [ω]×` and `d/dt (R p_B) = ω × p` when `Ṙ = [ω]× R`
* `rigid_body_power`           `d/dt (~V M V) = 2 ~V (M A + b)`   (per body, Ground frame, `M` moving with the body)
* `momentum_rate_body`         `d/dt (Phi(r) M V) = Phi(r) (M A + b)` (momentum about the fixed Ground origin)
* `reactions_do_no_work`       on any tree: `Σ_k ~(R_k − Σ_c Phi_c R_c) V_k = Σ_k (~H_k R_k)·u_k`  because `V_k − ~Phi V_parent = H_k u_k`
* `system_power`               if the body equations of motion hold, `Σ ~V_k (M_k A_k + b_k) = Σ ~V_k F_ext,k + Σ τ_k·u_k`
* `energy_rate`                hence `d/dt Σ ~V M V = 2 (Σ ~V_k F_ext,k + Σ τ_k u_k)`  (power = −d/dt PE is C12's statement, not restated here)
* `momentum_rate`              `Σ_k Phi(r_k)(M_k A_k + b_k) = Σ_k Phi(r_k) F_ext,k + Σ_base Phi R_base`  (any applied forces)
* `momentum_conserved_internal_forces`   zero net applied wrench + zero base reactions ⇒ total inertial force about Ground is 0
* `momG_is_central_form`       `Phi(r) M V` is the central-momentum form the C++ accumulates

Trajectory-level drift bounds are *not* theorems here (C11 is partial): they are measured by harness/C11.cpp.
-/
set_option linter.unusedSectionVars false
set_option linter.unusedVariables false
namespace C11
open C04
variable {K : Type} [CommRing K]

/-! ### jets of the composite objects -/
def Sym3.jet (a a' : Sym3 K) : Sym3 (Jet K) :=
  ⟨⟨a.xx, a'.xx⟩, ⟨a.yy, a'.yy⟩, ⟨a.zz, a'.zz⟩, ⟨a.xy, a'.xy⟩, ⟨a.xz, a'.xz⟩, ⟨a.yz, a'.yz⟩⟩
def Sym3.ep (a : Sym3 (Jet K)) : Sym3 K := ⟨a.xx.ep, a.yy.ep, a.zz.ep, a.xy.ep, a.xz.ep, a.yz.ep⟩
def Sym3.const (a : Sym3 K) : Sym3 (Jet K) :=
  ⟨⟨a.xx, 0⟩, ⟨a.yy, 0⟩, ⟨a.zz, 0⟩, ⟨a.xy, 0⟩, ⟨a.xz, 0⟩, ⟨a.yz, 0⟩⟩
def V3.const (a : V3 K) : V3 (Jet K) := ⟨⟨a.x, 0⟩, ⟨a.y, 0⟩, ⟨a.z, 0⟩⟩

theorem Sym3.ext6 {a b : Sym3 K} (h1 : a.xx = b.xx) (h2 : a.yy = b.yy) (h3 : a.zz = b.zz)
    (h4 : a.xy = b.xy) (h5 : a.xz = b.xz) (h6 : a.yz = b.yz) : a = b := by
  cases a; cases b; simp_all

/-- the moving body as a jet: constant mass, `ṗ = ω × p`, `İ = [ω]× I − I [ω]×` -/
def RB.moving (b : RB K) (w : V3 K) : RB (Jet K) :=
  ⟨⟨b.m, 0⟩, V3.jet b.p (V3.cross w b.p), Sym3.jet b.I (inertiaRate w b.I)⟩

/-- rows of `Ṙ = [ω]× R` -/
def rowRate (w r0 r1 r2 : V3 K) : V3 K × V3 K × V3 K :=
  (V3.sub (V3.smul w.y r2) (V3.smul w.z r1),
   V3.sub (V3.smul w.z r0) (V3.smul w.x r2),
   V3.sub (V3.smul w.x r1) (V3.smul w.y r0))

/-- **Ground-frame inertia and mass-centre offset of a rotating body.**  With `Ṙ = [ω]× R` (the reading of
"rigid motion"; trusted-base item 6) and body-fixed `I_B`, `p_B`:
`d/dt (R I_B ~R) = [ω]× I − I [ω]×`, `d/dt (R p_B) = ω × (R p_B)`.  (No orthogonality of `R` is needed.) -/
theorem inertia_rate_of_rotation (w r0 r1 r2 pB : V3 K) (IB : Sym3 K) :
    Sym3.ep (rotSym (V3.jet r0 (rowRate w r0 r1 r2).1) (V3.jet r1 (rowRate w r0 r1 r2).2.1)
                    (V3.jet r2 (rowRate w r0 r1 r2).2.2) (Sym3.const IB))
      = inertiaRate w (rotSym r0 r1 r2 IB) ∧
    V3.ep (rotV (V3.jet r0 (rowRate w r0 r1 r2).1) (V3.jet r1 (rowRate w r0 r1 r2).2.1)
                (V3.jet r2 (rowRate w r0 r1 r2).2.2) (V3.const pB))
      = V3.cross w (rotV r0 r1 r2 pB) := by
  constructor
  · apply Sym3.ext6 <;>
      simp only [Sym3.ep, rotSym, Sym3.mulV, Sym3.const, V3.dot, V3.jet, rowRate, V3.sub, V3.smul, inertiaRate,
        Jet.add_ep, Jet.mul_ep, Jet.add_re, Jet.mul_re] <;> ring
  · apply V3.ext' <;>
      simp only [V3.ep, rotV, V3.const, V3.dot, V3.jet, rowRate, V3.sub, V3.smul, V3.cross,
        Jet.add_ep, Jet.mul_ep] <;> ring

/-- **Rigid-body power balance**: `d/dt (~V M V) = 2 ~V (M A + b)`, `b` the gyroscopic force, for a spatial inertia
that moves with the body (`Ṁ` terms included). -/
theorem rigid_body_power (b : RB K) (V A : SV K) :
    (ke2 (b.moving V.w) (SV.jet V A)).ep = 2 * SV.dot V (SV.add (mulM b A) (gyro b V.w)) := by
  simp only [ke2, mulM, gyro, RB.moving, SV.dot, SV.add, SV.jet, V3.dot, V3.add, V3.sub, V3.smul, V3.cross, V3.jet,
    Sym3.mulV, Sym3.jet, inertiaRate, Jet.add_ep, Jet.sub_ep, Jet.mul_ep, Jet.add_re, Jet.sub_re, Jet.mul_re]
  ring

example : (ke2 (RB.moving (⟨2, ⟨1, 0, 0⟩, ⟨3, 4, 5, 0, 0, 0⟩⟩ : RB Int) ⟨0, 0, 1⟩)
    (SV.jet ⟨⟨0, 0, 1⟩, ⟨1, 0, 0⟩⟩ ⟨⟨0, 0, 2⟩, ⟨0, 1, 0⟩⟩)).ep = 20 := by decide

/-- **Momentum about the fixed Ground origin**: `d/dt (Phi(r) M V) = Phi(r) (M A + b)` with `ṙ = v` (body origin). -/
theorem momentum_rate_body (b : RB K) (r : V3 K) (V A : SV K) :
    SV.ep (momG (b.moving V.w) (V3.jet r V.v) (SV.jet V A)) = phi r (SV.add (mulM b A) (gyro b V.w)) := by
  apply SV.ext' <;> apply V3.ext' <;>
    simp only [momG, phi, mulM, gyro, RB.moving, SV.ep, SV.add, SV.jet, V3.ep, V3.add, V3.sub, V3.smul, V3.cross,
      V3.jet, Sym3.mulV, Sym3.jet, inertiaRate, Jet.add_ep, Jet.sub_ep, Jet.mul_ep, Jet.add_re, Jet.sub_re,
      Jet.mul_re] <;> ring

/-! ### joint reactions do no work -/
mutual
theorem reactions_subtree (Rf : Nat → SV K) (u : List K) : ∀ (t : Tr K) (Vp : SV K),
    netReactionPower Rf u t Vp = SV.dot (Rf t.bd.id) (phiT t.bd.l Vp) + jointPower Rf u t
  | .node b cs, Vp => by
      have ih := reactions_kids Rf u cs (SV.add (phiT b.l Vp) (mulH b.H (u.drop b.u0)))
      simp only [netReactionPower, jointPower, Tr.bd, ih, ← dot_mulH, SV.dot_add_right]
      ring
theorem reactions_kids (Rf : Nat → SV K) (u : List K) : ∀ (cs : List (Tr K)) (V : SV K),
    (netReactionPowers Rf u cs V).2 = (netReactionPowers Rf u cs V).1 + jointPowers Rf u cs
  | [], V => by simp [netReactionPowers, jointPowers]
  | c :: cs, V => by
      have h1 := reactions_subtree Rf u c V
      have h2 := reactions_kids Rf u cs V
      simp only [netReactionPowers, jointPowers, h1, h2, dot_phi]
      ring
end

/-- **Joint reactions do no work** beyond their mobility-space projections: for any forest hanging off Ground
(`V_Ground = 0`), any reaction field, `Σ_k ~(R_k − Σ_{c} Phi_c R_c) V_k = Σ_k (~H_k R_k)·u_k`.  The only fact used about
the motion is the kinematic recursion `V_k = ~Phi_k V_parent + H_k u_k`. -/
theorem reactions_do_no_work (Rf : Nat → SV K) (u : List K) (ts : List (Tr K)) :
    (netReactionPowers Rf u ts SV.zero).2 = jointPowers Rf u ts := by
  have z : ∀ (cs : List (Tr K)), (netReactionPowers Rf u cs (SV.zero : SV K)).1 = 0 := by
    intro cs
    induction cs with
    | nil => simp [netReactionPowers]
    | cons c cs ih => simp [netReactionPowers, ih, SV.dot_zero_right]
  rw [reactions_kids Rf u ts SV.zero, z ts, zero_add]

/-- `Σ_{c} Phi_c R_c`: the reactions the children exert back on their common parent (sign: subtracted) -/
def childReactions (Rf : Nat → SV K) : List (Tr K) → SV K
  | [] => SV.zero
  | c :: cs => SV.add (phi c.bd.l (Rf c.bd.id)) (childReactions Rf cs)

/-- body equations of motion on a subtree: `Fin_k + Σ_{c child} Phi_c R_c = Fext_k + R_k`
(`Fin = M A + b` inertial force, `Fext` applied force, `R_k` reaction across the inboard joint of `k`) -/
inductive EOM (Fin Fext Rf : Nat → SV K) : Tr K → Prop
  | mk (b : Bd K) (cs : List (Tr K))
      (heq : SV.add (Fin b.id) (childReactions Rf cs) = SV.add (Fext b.id) (Rf b.id))
      (hcs : ∀ c ∈ cs, EOM Fin Fext Rf c) : EOM Fin Fext Rf (.node b cs)

theorem kids1_eq (Rf : Nat → SV K) (u : List K) : ∀ (cs : List (Tr K)) (V : SV K),
    (netReactionPowers Rf u cs V).1 = SV.dot (childReactions Rf cs) V
  | [], V => by simp [netReactionPowers, childReactions, SV.dot_zero_left]
  | c :: cs, V => by simp [netReactionPowers, childReactions, kids1_eq Rf u cs V, SV.dot_add_left]

mutual
theorem system_power_subtree (Fin Fext Rf : Nat → SV K) (u : List K) : ∀ (t : Tr K), EOM Fin Fext Rf t →
    ∀ Vp, pairV Fin (mulJ u t Vp) = pairV Fext (mulJ u t Vp) + netReactionPower Rf u t Vp
  | .node b cs, h, Vp => by
      cases h with
      | mk _ _ heq hcs =>
        have ih := system_power_kids Fin Fext Rf u cs hcs (SV.add (phiT b.l Vp) (mulH b.H (u.drop b.u0)))
        have hd := congrArg (fun X => SV.dot X (SV.add (phiT b.l Vp) (mulH b.H (u.drop b.u0)))) heq
        simp only [SV.dot_add_left] at hd
        simp only [mulJ, pairV, netReactionPower, ih, kids1_eq]
        linear_combination hd
theorem system_power_kids (Fin Fext Rf : Nat → SV K) (u : List K) : ∀ (cs : List (Tr K)),
    (∀ c ∈ cs, EOM Fin Fext Rf c) →
    ∀ V, pairV Fin (mulJs u cs V) = pairV Fext (mulJs u cs V) + (netReactionPowers Rf u cs V).2
  | [], _, V => by simp [mulJs, pairV, netReactionPowers]
  | c :: cs, h, V => by
      have h1 := system_power_subtree Fin Fext Rf u c (h c (by simp)) V
      have h2 := system_power_kids Fin Fext Rf u cs (fun c' hc' => h c' (by simp [hc'])) V
      simp only [mulJs, pairV_append, netReactionPowers, h1, h2]
      ring
end

/-- **System power balance**: if every body satisfies its equation of motion (inertial force = applied force + net
joint reaction), then `Σ_k ~V_k (M_k A_k + b_k) = Σ_k ~V_k F_ext,k + Σ_k (~H_k R_k)·u_k`; the last sum is `Σ τ·u` with the
mobility forces `τ_k = ~H_k R_k`.  Reactions contribute nothing else. -/
theorem system_power (Fin Fext Rf : Nat → SV K) (u : List K) (ts : List (Tr K))
    (h : ∀ c ∈ ts, EOM Fin Fext Rf c) :
    pairV Fin (sysJ ts u) = pairV Fext (sysJ ts u) + jointPowers Rf u ts := by
  rw [sysJ, system_power_kids Fin Fext Rf u ts h SV.zero, reactions_do_no_work]

example : EOM (fun _ => (⟨⟨1, 0, 0⟩, ⟨0, 2, 0⟩⟩ : SV Int)) (fun _ => ⟨⟨1, 0, 0⟩, ⟨0, 1, 0⟩⟩) (fun _ => ⟨⟨0, 0, 0⟩, ⟨0, 1, 0⟩⟩)
    (Tr.node ⟨1, 0, ⟨1, 0, 2⟩, [⟨⟨0, 0, 1⟩, ⟨0, 3, 0⟩⟩], []⟩ []) :=
  EOM.mk _ _ (by rfl) (by simp)

/-- kinetic energy (twice) of a list of bodies with their velocities -/
def ke2sum : List (RB K × SV K) → K
  | [] => 0
  | (b, V) :: r => ke2 b V + ke2sum r

/-- the same on jets: each body moving with its own angular velocity, velocities with their accelerations -/
def ke2sumJet : List (RB K × SV K × SV K) → Jet K
  | [] => 0
  | (b, V, A) :: r => ke2 (b.moving V.w) (SV.jet V A) + ke2sumJet r

/-- `Σ_k ~V_k (M_k A_k + b_k)` -/
def inertialPower : List (RB K × SV K × SV K) → K
  | [] => 0
  | (b, V, A) :: r => SV.dot V (SV.add (mulM b A) (gyro b V.w)) + inertialPower r

/-- **Energy rate**: `d/dt Σ ~V M V = 2 Σ ~V (M A + b)` for any collection of moving rigid bodies. -/
theorem energy_rate : ∀ (bs : List (RB K × SV K × SV K)), (ke2sumJet bs).ep = 2 * inertialPower bs
  | [] => by
      show (0 : K) = 2 * 0
      ring
  | (b, V, A) :: r => by
      simp only [ke2sumJet, inertialPower, Jet.add_ep, rigid_body_power, energy_rate r]
      ring

/-! ### momentum -/
theorem sv_swap (a b c : SV K) : SV.add a (SV.add b c) = SV.add (SV.add a c) b := by
  apply SV.ext' <;> apply V3.ext' <;> simp only [SV.add, V3.add] <;> ring

theorem sv_swap2 (a b c : SV K) : SV.add (SV.add a b) c = SV.add (SV.add a c) b := by
  apply SV.ext' <;> apply V3.ext' <;> simp only [SV.add, V3.add] <;> ring

mutual
theorem momentum_subtree (Fin Fext Rf : Nat → SV K) : ∀ (t : Tr K), EOM Fin Fext Rf t →
    (mulJT Fin t).1 = SV.add (mulJT Fext t).1 (Rf t.bd.id)
  | .node b cs, h => by
      cases h with
      | mk _ _ heq hcs =>
        have ih := momentum_kids Fin Fext Rf cs hcs
        simp only [mulJT, Tr.bd, ih]
        rw [sv_swap, heq, sv_swap2]
theorem momentum_kids (Fin Fext Rf : Nat → SV K) : ∀ (cs : List (Tr K)), (∀ c ∈ cs, EOM Fin Fext Rf c) →
    (mulJTs Fin cs).1 = SV.add (mulJTs Fext cs).1 (childReactions Rf cs)
  | [], _ => by simp [mulJTs, childReactions, SV.add_zero]
  | c :: cs, h => by
      have h1 := momentum_subtree Fin Fext Rf c (h c (by simp))
      have h2 := momentum_kids Fin Fext Rf cs (fun c' hc' => h c' (by simp [hc']))
      simp only [mulJTs, childReactions, h1, h2, phi_add]
      apply SV.ext' <;> apply V3.ext' <;> simp only [SV.add, V3.add] <;> ring
end

/-- **Momentum rate**: the inertial forces of all bodies, shifted to the Ground origin and summed (by
`momentum_rate_body` this is `d/dt` of the total spatial momentum about the Ground origin), equal the applied
forces shifted and summed plus the reactions of the *base* joints only; all internal reactions cancel. -/
theorem momentum_rate (Fin Fext Rf : Nat → SV K) (ts : List (Tr K)) (h : ∀ c ∈ ts, EOM Fin Fext Rf c) :
    (mulJTs Fin ts).1 = SV.add (mulJTs Fext ts).1 (childReactions Rf ts) :=
  momentum_kids Fin Fext Rf ts h

mutual
theorem mulJT_zeroF : ∀ (t : Tr K), (mulJT (fun _ => (SV.zero : SV K)) t).1 = SV.zero
  | .node b cs => by simp [mulJT, mulJTs_zeroF cs, SV.add_zero]
theorem mulJTs_zeroF : ∀ (cs : List (Tr K)), (mulJTs (fun _ => (SV.zero : SV K)) cs).1 = SV.zero
  | [] => by simp [mulJTs]
  | c :: cs => by simp [mulJTs, mulJT_zeroF c, mulJTs_zeroF cs, phi_zero, SV.add_zero]
end

/-- **Free-floating system, internal forces only.**  Hypotheses: the applied forces have zero net wrench about the Ground
origin, `Σ_k Phi(r_k) Fext_k = 0` (internal force elements act as equal-and-opposite pairs along a common line: C13), and the
base-joint reactions vanish (a Free base mobilizer carries no mobility force: `~H R = 0` with `H` invertible gives `R = 0`).
Conclusion: the total inertial force about the Ground origin is zero, i.e. (by `momentum_rate_body`) total linear and angular
momentum are constant.  The applied forces themselves are arbitrary. -/
theorem momentum_conserved_internal_forces (Fin Fext Rf : Nat → SV K) (ts : List (Tr K))
    (h : ∀ c ∈ ts, EOM Fin Fext Rf c) (hnet : (mulJTs Fext ts).1 = SV.zero)
    (hbase : ∀ c ∈ ts, Rf c.bd.id = SV.zero) :
    (mulJTs Fin ts).1 = SV.zero := by
  rw [momentum_rate Fin Fext Rf ts h, hnet, SV.zero_add]
  clear hnet h
  induction ts with
  | nil => rfl
  | cons c cs ih =>
    simp only [childReactions, hbase c (by simp), phi_zero, SV.zero_add]
    exact ih (fun c' hc' => hbase c' (by simp [hc']))

/-- non-vacuity: one free body, an applied force field with zero net wrench (here: none on the only body's own equation beyond
its inertial force), zero base reaction -/
example : EOM (fun _ => (SV.zero : SV Int)) (fun _ => SV.zero) (fun _ => SV.zero)
    (Tr.node ⟨1, 0, ⟨1, 0, 2⟩, [⟨⟨0, 0, 1⟩, ⟨0, 3, 0⟩⟩], []⟩ []) :=
  EOM.mk _ _ (by rfl) (by simp)

/-- two bodies in a chain with equal-and-opposite applied forces at the same Ground point (net wrench zero) -/
example : (mulJTs (fun i => if i = 1 then (⟨⟨0, 0, 0⟩, ⟨0, 0, 1⟩⟩ : SV Int) else ⟨⟨0, -1, 0⟩, ⟨0, 0, -1⟩⟩)
    [Tr.node ⟨1, 0, ⟨0, 0, 0⟩, [], []⟩ [Tr.node ⟨2, 0, ⟨1, 0, 0⟩, [], []⟩ []]]).1 = SV.zero := by rfl

/-- the momentum the code accumulates (`calcSystemMomentumAboutGroundOrigin`: central angular momentum `I_c ω` plus
`r_c × m v_c`, and `m v_c`) is `momG`: with `I_c = I − m((p·p) 1 − p ~p)`, `r_c = r + p`, `v_c = v + ω × p` -/
def centralInertia (b : RB K) : Sym3 K :=
  let p := b.p
  ⟨b.I.xx - b.m * (p.y * p.y + p.z * p.z), b.I.yy - b.m * (p.x * p.x + p.z * p.z), b.I.zz - b.m * (p.x * p.x + p.y * p.y),
   b.I.xy + b.m * (p.x * p.y), b.I.xz + b.m * (p.x * p.z), b.I.yz + b.m * (p.y * p.z)⟩

theorem momG_is_central_form (b : RB K) (r : V3 K) (V : SV K) :
    momG b r V =
      ⟨V3.add ((centralInertia b).mulV V.w)
              (V3.cross (V3.add r b.p) (V3.smul b.m (V3.add V.v (V3.cross V.w b.p)))),
       V3.smul b.m (V3.add V.v (V3.cross V.w b.p))⟩ := by
  apply SV.ext' <;> apply V3.ext' <;>
    simp only [momG, phi, mulM, centralInertia, Sym3.mulV, V3.add, V3.sub, V3.smul, V3.cross] <;> ring

end C11
