import SimbodyModel.C26
import Mathlib.Tactic.SplitIfs

/-!
# C26 — helper lemmas: the primitives and loops of the slot machine, pointwise

Every loop of `Array.h` is characterised by what it leaves in each cell (`c'[j]? = …`) and by
its effect on the log, under the preconditions that make it violation free.
-/
namespace C26

/-! ## the log -/

/-- `L'` is `L` after `nc` constructions and `nd` destructions without any violation -/
def Log.adv (L : Log) (nc nd : Nat) : Log := { ctor := L.ctor + nc, dtor := L.dtor + nd, viol := L.viol }

@[simp] theorem Log.adv_zero (L : Log) : L.adv 0 0 = L := by cases L; simp [Log.adv]
@[simp] theorem Log.adv_adv (L : Log) (a b c d : Nat) : (L.adv a b).adv c d = L.adv (a + c) (b + d) := by
  simp [Log.adv, Nat.add_assoc]
@[simp] theorem Log.adv_viol (L : Log) (a b : Nat) : (L.adv a b).viol = L.viol := rfl
@[simp] theorem Log.adv_ctor (L : Log) (a b : Nat) : (L.adv a b).ctor = L.ctor + a := rfl
@[simp] theorem Log.adv_dtor (L : Log) (a b : Nat) : (L.adv a b).dtor = L.dtor + b := rfl

/-! ## primitives on a cell in the expected state -/

theorem construct_raw {c : Block} {i : Nat} (L : Log) (v : Elt) (h : c[i]? = some none) :
    construct c L i v = (c.set i (some v), L.adv 1 0) := by
  simp [construct, isRaw, h, Log.adv]

theorem destruct_live {c : Block} {i : Nat} {x : Elt} (L : Log) (h : c[i]? = some (some x)) :
    destruct c L i = (c.set i none, L.adv 0 1) := by
  simp [destruct, isLive, h, Log.adv]

theorem read_live {c : Block} {i : Nat} {x : Elt} (L : Log) (h : c[i]? = some (some x)) :
    read c L i = (x, L) := by
  simp [read, h]

theorem assignAt_live {c : Block} {i : Nat} {x : Elt} (L : Log) (v : Elt) (h : c[i]? = some (some x)) :
    assignAt c L i v = (c.set i (some v), L) := by
  simp [assignAt, isLive, h]

theorem moveOut_live {c : Block} {i : Nat} {x : Elt} (L : Log) (h : c[i]? = some (some x)) :
    moveOut c L i = (x, c.set i (some movedVal), L) := by
  simp [moveOut, h]

/-- a cell that is `some _` lies inside the block -/
theorem lt_length_of_getElem?_eq_some {c : Block} {i : Nat} {x : Cell} (h : c[i]? = some x) : i < c.length := by
  rcases Nat.lt_or_ge i c.length with h' | h'
  · exact h'
  · have : c[i]? = none := List.getElem?_eq_none h'
    simp [this] at h

theorem getElem?_set_self' {c : Block} {i : Nat} (x : Cell) (h : i < c.length) : (c.set i x)[i]? = some x := by
  simp [h]

theorem getElem?_set_ne' {c : Block} {i j : Nat} (x : Cell) (h : i ≠ j) : (c.set i x)[j]? = c[j]? := by
  simp [h]

/-- pointwise form of `set` inside the block -/
theorem getElem?_set_in {c : Block} {i : Nat} (x : Cell) (h : i < c.length) (j : Nat) :
    (c.set i x)[j]? = if j = i then some x else c[j]? := by
  by_cases hj : j = i
  · subst hj; simp [h]
  · simp [hj, Ne.symm hj]

theorem moveOne_spec {c : Block} {t f : Nat} {x : Elt} (L : Log)
    (hf : c[f]? = some (some x)) (ht : c[t]? = some none) :
    (moveOneElement c L t f).2 = L.adv 1 1 ∧
    ∀ j, (moveOneElement c L t f).1[j]? = if j = f then some none else if j = t then some (some x) else c[j]? := by
  have hne : t ≠ f := by intro e; subst e; simp [hf] at ht
  have hfl := lt_length_of_getElem?_eq_some hf
  have htl := lt_length_of_getElem?_eq_some ht
  unfold moveOneElement
  rw [moveOut_live L hf]
  have h1 : (c.set f (some movedVal))[t]? = some none := by rw [getElem?_set_ne' _ (Ne.symm hne)]; exact ht
  simp only []
  rw [construct_raw _ _ h1]
  have h2 : ((c.set f (some movedVal)).set t (some x))[f]? = some (some movedVal) := by
    rw [getElem?_set_ne' _ hne]; exact getElem?_set_self' _ hfl
  simp only []
  rw [destruct_live _ h2]
  refine ⟨by simp, ?_⟩
  intro j
  have l1 : f < ((c.set f (some movedVal)).set t (some x)).length := by simp [hfl]
  have l2 : t < (c.set f (some movedVal)).length := by simp [htl]
  rw [getElem?_set_in _ l1, getElem?_set_in _ l2, getElem?_set_in _ hfl]
  by_cases h1 : j = f
  · simp [h1]
  · by_cases h2 : j = t <;> simp [h1, h2]

/-! ## loops -/

theorem moveRange_spec : ∀ (n : Nat) (dst src : Block) (L : Log) (b s : Nat),
    (∀ k, k < n → ∃ x, src[s + k]? = some (some x)) →
    (∀ k, k < n → dst[b + k]? = some none) →
    (moveRange dst src L b s n).2.2 = L.adv n n ∧
    (∀ j, (moveRange dst src L b s n).1[j]? = if b ≤ j ∧ j < b + n then src[s + (j - b)]? else dst[j]?) ∧
    (∀ j, (moveRange dst src L b s n).2.1[j]? = if s ≤ j ∧ j < s + n then some none else src[j]?) := by
  intro n
  induction n with
  | zero =>
    intro dst src L b s _ _
    refine ⟨by simp [moveRange], ?_, ?_⟩ <;> intro j <;> simp [moveRange] <;> omega
  | succ n ih =>
    intro dst src L b s hs hd
    obtain ⟨x, hx⟩ := hs 0 (by omega)
    have hd0 := hd 0 (by omega)
    simp only [Nat.add_zero] at hx hd0
    have hsl := lt_length_of_getElem?_eq_some hx
    have hdl := lt_length_of_getElem?_eq_some hd0
    unfold moveRange
    rw [moveOut_live L hx]
    simp only []
    rw [construct_raw _ _ hd0]
    have h2 : (src.set s (some movedVal))[s]? = some (some movedVal) := getElem?_set_self' _ hsl
    simp only []
    rw [destruct_live _ h2]
    simp only []
    have hs' : ∀ k, k < n → ∃ y, ((src.set s (some movedVal)).set s none)[s + 1 + k]? = some (some y) := by
      intro k hk
      obtain ⟨y, hy⟩ := hs (k + 1) (by omega)
      refine ⟨y, ?_⟩
      rw [getElem?_set_ne' _ (by omega), getElem?_set_ne' _ (by omega)]
      rw [← hy]; congr 1; omega
    have hd' : ∀ k, k < n → (dst.set b (some x))[b + 1 + k]? = some none := by
      intro k hk
      rw [getElem?_set_ne' _ (by omega)]
      rw [← hd (k + 1) (by omega)]; congr 1; omega
    obtain ⟨e1, e2, e3⟩ := ih (dst.set b (some x)) ((src.set s (some movedVal)).set s none) ((L.adv 1 0).adv 0 1) (b + 1) (s + 1) hs' hd'
    refine ⟨by rw [e1]; simp [Nat.add_comm], ?_, ?_⟩
    · intro j
      rw [e2 j]
      by_cases hj : j = b
      · subst hj
        rw [if_neg (by omega), if_pos (by omega), getElem?_set_self' _ hdl, Nat.sub_self, Nat.add_zero, hx]
      · by_cases hin : b + 1 ≤ j ∧ j < b + 1 + n
        · rw [if_pos hin, if_pos (by omega), getElem?_set_ne' _ (by omega), getElem?_set_ne' _ (by omega)]
          congr 1; omega
        · rw [if_neg hin, if_neg (by omega), getElem?_set_ne' _ (Ne.symm hj)]
    · intro j
      rw [e3 j]
      by_cases hj : j = s
      · subst hj
        rw [if_neg (by omega), if_pos (by omega), getElem?_set_self' _ (by simp [hsl])]
      · by_cases hin : s + 1 ≤ j ∧ j < s + 1 + n
        · rw [if_pos hin, if_pos (by omega)]
        · rw [if_neg hin, if_neg (by omega), getElem?_set_ne' _ (Ne.symm hj), getElem?_set_ne' _ (Ne.symm hj)]

/-- closes pointwise goals made of nested `if`s over index arithmetic -/
macro "ifs_omega" : tactic =>
  `(tactic| (split_ifs <;> first | rfl | omega | (congr 1; omega) | (subst_vars; simp_all; done)))

theorem destructRange_spec : ∀ (n : Nat) (c : Block) (L : Log) (b : Nat),
    (∀ k, k < n → ∃ x, c[b + k]? = some (some x)) →
    (destructRange c L b n).2 = L.adv 0 n ∧
    ∀ j, (destructRange c L b n).1[j]? = if b ≤ j ∧ j < b + n then some none else c[j]? := by
  intro n
  induction n with
  | zero => intro c L b _; refine ⟨by simp [destructRange], ?_⟩; intro j; simp [destructRange]; omega
  | succ n ih =>
    intro c L b h
    obtain ⟨x, hx⟩ := h 0 (by omega)
    simp only [Nat.add_zero] at hx
    have hl := lt_length_of_getElem?_eq_some hx
    unfold destructRange
    rw [destruct_live L hx]
    simp only []
    have h' : ∀ k, k < n → ∃ y, (c.set b none)[b + 1 + k]? = some (some y) := by
      intro k hk
      obtain ⟨y, hy⟩ := h (k + 1) (by omega)
      exact ⟨y, by rw [getElem?_set_ne' _ (by omega), ← hy]; congr 1; omega⟩
    obtain ⟨e1, e2⟩ := ih (c.set b none) (L.adv 0 1) (b + 1) h'
    refine ⟨by rw [e1]; simp [Nat.add_comm], ?_⟩
    intro j
    rw [e2 j, getElem?_set_in _ hl]
    ifs_omega

theorem copyConstructList_spec : ∀ (vs : List Elt) (c : Block) (L : Log) (b : Nat),
    (∀ k, k < vs.length → c[b + k]? = some none) →
    (copyConstructList c L b vs).2 = L.adv vs.length 0 ∧
    ∀ j, (copyConstructList c L b vs).1[j]? = if b ≤ j ∧ j < b + vs.length then some vs[j - b]? else c[j]? := by
  intro vs
  induction vs with
  | nil => intro c L b _; refine ⟨by simp [copyConstructList], ?_⟩; intro j; simp [copyConstructList]; omega
  | cons v vs ih =>
    intro c L b h
    have h0 := h 0 (by simp)
    simp only [Nat.add_zero] at h0
    have hl := lt_length_of_getElem?_eq_some h0
    unfold copyConstructList
    rw [construct_raw L v h0]
    simp only []
    have h' : ∀ k, k < vs.length → (c.set b (some v))[b + 1 + k]? = some none := by
      intro k hk
      rw [getElem?_set_ne' _ (by omega), ← h (k + 1) (by simp; omega)]; congr 1; omega
    obtain ⟨e1, e2⟩ := ih (c.set b (some v)) (L.adv 1 0) (b + 1) h'
    refine ⟨by rw [e1]; simp [Nat.add_comm], ?_⟩
    intro j
    rw [e2 j, getElem?_set_in _ hl]
    simp only [List.length_cons]
    by_cases hj : j = b
    · subst hj
      rw [if_neg (by omega), if_pos rfl, if_pos (by omega)]; simp
    · by_cases hin : b + 1 ≤ j ∧ j < b + 1 + vs.length
      · rw [if_pos hin, if_pos (by omega)]
        have : j - b = (j - (b + 1)) + 1 := by omega
        rw [this, List.getElem?_cons_succ]
      · rw [if_neg hin, if_neg hj, if_neg (by omega)]

theorem assignList_spec : ∀ (vs : List Elt) (c : Block) (L : Log) (b : Nat),
    (∀ k, k < vs.length → ∃ x, c[b + k]? = some (some x)) →
    (assignList c L b vs).2 = L ∧
    ∀ j, (assignList c L b vs).1[j]? = if b ≤ j ∧ j < b + vs.length then some vs[j - b]? else c[j]? := by
  intro vs
  induction vs with
  | nil => intro c L b _; refine ⟨by simp [assignList], ?_⟩; intro j; simp [assignList]; omega
  | cons v vs ih =>
    intro c L b h
    obtain ⟨x, h0⟩ := h 0 (by simp)
    simp only [Nat.add_zero] at h0
    have hl := lt_length_of_getElem?_eq_some h0
    unfold assignList
    rw [assignAt_live L v h0]
    simp only []
    have h' : ∀ k, k < vs.length → ∃ y, (c.set b (some v))[b + 1 + k]? = some (some y) := by
      intro k hk
      obtain ⟨y, hy⟩ := h (k + 1) (by simp; omega)
      exact ⟨y, by rw [getElem?_set_ne' _ (by omega), ← hy]; congr 1; omega⟩
    obtain ⟨e1, e2⟩ := ih (c.set b (some v)) L (b + 1) h'
    refine ⟨e1, ?_⟩
    intro j
    rw [e2 j, getElem?_set_in _ hl]
    simp only [List.length_cons]
    by_cases hj : j = b
    · subst hj
      rw [if_neg (by omega), if_pos rfl, if_pos (by omega)]; simp
    · by_cases hin : b + 1 ≤ j ∧ j < b + 1 + vs.length
      · rw [if_pos hin, if_pos (by omega)]
        have : j - b = (j - (b + 1)) + 1 := by omega
        rw [this, List.getElem?_cons_succ]
      · rw [if_neg hin, if_neg hj, if_neg (by omega)]

/-! the value loops are instances of the list loops -/

theorem defaultConstructRange_eq : ∀ (n : Nat) (c : Block) (L : Log) (b : Nat),
    defaultConstructRange c L b n = copyConstructList c L b (List.replicate n defaultVal) := by
  intro n
  induction n with
  | zero => intro c L b; rfl
  | succ n ih => intro c L b; simp only [defaultConstructRange, List.replicate_succ, copyConstructList]; exact ih _ _ _

theorem fillConstruct_val_eq (v : Elt) : ∀ (n : Nat) (c : Block) (L : Log) (b : Nat),
    fillConstruct c L (.val v) b n = copyConstructList c L b (List.replicate n v) := by
  intro n
  induction n with
  | zero => intro c L b; rfl
  | succ n ih => intro c L b; simp only [fillConstruct, readRef, List.replicate_succ, copyConstructList]; exact ih _ _ _

theorem fillConstruct_cur_eq (i : Nat) (x : Elt) : ∀ (n : Nat) (c : Block) (L : Log) (b : Nat),
    c[i]? = some (some x) → (∀ k, k < n → c[b + k]? = some none) →
    fillConstruct c L (.cur i) b n = copyConstructList c L b (List.replicate n x) := by
  intro n
  induction n with
  | zero => intro c L b _ _; rfl
  | succ n ih =>
    intro c L b hi hraw
    have h0 := hraw 0 (by omega)
    simp only [Nat.add_zero] at h0
    have hne : b ≠ i := by intro e; subst e; simp [hi] at h0
    simp only [fillConstruct, readRef, read_live L hi, List.replicate_succ, copyConstructList]
    rw [construct_raw L x h0]
    simp only []
    apply ih
    · rw [getElem?_set_ne' _ hne]; exact hi
    · intro k hk
      rw [getElem?_set_ne' _ (by omega), ← hraw (k + 1) (by omega)]; congr 1; omega

theorem fillAssign_val_eq (v : Elt) : ∀ (n : Nat) (c : Block) (L : Log) (b : Nat),
    fillAssign c L (.val v) b n = assignList c L b (List.replicate n v) := by
  intro n
  induction n with
  | zero => intro c L b; rfl
  | succ n ih => intro c L b; simp only [fillAssign, readRef, List.replicate_succ, assignList]; exact ih _ _ _

theorem fillAssign_cur_eq (i : Nat) (x : Elt) : ∀ (n : Nat) (c : Block) (L : Log) (b : Nat),
    c[i]? = some (some x) → (∀ k, k < n → ∃ y, c[b + k]? = some (some y)) →
    fillAssign c L (.cur i) b n = assignList c L b (List.replicate n x) := by
  intro n
  induction n with
  | zero => intro c L b _ _; rfl
  | succ n ih =>
    intro c L b hi hlive
    obtain ⟨y, h0⟩ := hlive 0 (by omega)
    simp only [Nat.add_zero] at h0
    have hl := lt_length_of_getElem?_eq_some h0
    simp only [fillAssign, readRef, read_live L hi, List.replicate_succ, assignList]
    rw [assignAt_live L x h0]
    simp only []
    apply ih
    · rw [getElem?_set_in _ hl]; split_ifs <;> simp [hi]
    · intro k hk
      obtain ⟨z, hz⟩ := hlive (k + 1) (by omega)
      exact ⟨z, by rw [getElem?_set_ne' _ (by omega), ← hz]; congr 1; omega⟩

theorem moveElementsDown_spec (n : Nat) (hn : 0 < n) : ∀ (m : Nat) (c : Block) (L : Log) (p : Nat),
    n ≤ p →
    (∀ k, k < n → c[p - n + k]? = some none) →
    (∀ k, k < m → ∃ x, c[p + k]? = some (some x)) →
    (moveElementsDown c L n p m).2 = L.adv m m ∧
    ∀ j, (moveElementsDown c L n p m).1[j]? =
      if p - n ≤ j ∧ j < p - n + m then c[j + n]? else if p - n + m ≤ j ∧ j < p + m then some none else c[j]? := by
  intro m
  induction m with
  | zero =>
    intro c L p hp hraw _
    refine ⟨by simp [moveElementsDown], ?_⟩
    intro j
    simp only [moveElementsDown, Nat.add_zero]
    by_cases hj : p - n ≤ j ∧ j < p
    · rw [if_neg (by omega), if_pos hj]
      have := hraw (j - (p - n)) (by omega)
      rw [← this]; congr 1; omega
    · rw [if_neg (by omega), if_neg hj]
  | succ m ih =>
    intro c L p hp hraw hlive
    obtain ⟨x, hx⟩ := hlive 0 (by omega)
    have hr0 := hraw 0 hn
    simp only [Nat.add_zero] at hx hr0
    obtain ⟨l1, c1⟩ := moveOne_spec L hx hr0
    unfold moveElementsDown
    have hraw' : ∀ k, k < n → (moveOneElement c L (p - n) p).1[p + 1 - n + k]? = some none := by
      intro k hk
      rw [c1]
      by_cases hk' : p + 1 - n + k = p
      · rw [if_pos hk']
      · rw [if_neg hk', if_neg (by omega), ← hraw (k + 1) (by omega)]; congr 1; omega
    have hlive' : ∀ k, k < m → ∃ y, (moveOneElement c L (p - n) p).1[p + 1 + k]? = some (some y) := by
      intro k hk
      obtain ⟨y, hy⟩ := hlive (k + 1) (by omega)
      refine ⟨y, ?_⟩
      rw [c1, if_neg (by omega), if_neg (by omega), ← hy]; congr 1; omega
    obtain ⟨e1, e2⟩ := ih (moveOneElement c L (p - n) p).1 (moveOneElement c L (p - n) p).2 (p + 1) (by omega) hraw' hlive'
    refine ⟨by rw [e1, l1]; simp [Nat.add_comm], ?_⟩
    intro j
    rw [e2 j]
    simp only [c1]
    have hxx : ∀ i, i = p → c[i]? = some (some x) := by intro i hi; subst hi; exact hx
    split_ifs <;> first | rfl | omega | (rw [hxx _ (by omega)])

theorem moveElementsUp_spec (n : Nat) (hn : 0 < n) (p : Nat) : ∀ (m : Nat) (c : Block) (L : Log),
    (∀ k, k < m → ∃ x, c[p + k]? = some (some x)) →
    (∀ k, k < n → c[p + m + k]? = some none) →
    (moveElementsUp c L n p m).2 = L.adv m m ∧
    ∀ j, (moveElementsUp c L n p m).1[j]? =
      if p ≤ j ∧ j < p + n then some none else if p + n ≤ j ∧ j < p + n + m then c[j - n]? else c[j]? := by
  intro m
  induction m with
  | zero =>
    intro c L _ hraw
    refine ⟨by simp [moveElementsUp], ?_⟩
    intro j
    simp only [moveElementsUp, Nat.add_zero]
    by_cases hj : p ≤ j ∧ j < p + n
    · rw [if_pos hj]
      have := hraw (j - p) (by omega)
      rw [← this]; congr 1; omega
    · rw [if_neg hj, if_neg (by omega)]
  | succ m ih =>
    intro c L hlive hraw
    obtain ⟨x, hx⟩ := hlive m (by omega)
    have hr0 := hraw (n - 1) (by omega)
    have hr0' : c[p + m + n]? = some none := by rw [← hr0]; congr 1; omega
    obtain ⟨l1, c1⟩ := moveOne_spec L hx hr0'
    unfold moveElementsUp
    have hlive' : ∀ k, k < m → ∃ y, (moveOneElement c L (p + m + n) (p + m)).1[p + k]? = some (some y) := by
      intro k hk
      obtain ⟨y, hy⟩ := hlive k (by omega)
      exact ⟨y, by rw [c1, if_neg (by omega), if_neg (by omega)]; exact hy⟩
    have hraw' : ∀ k, k < n → (moveOneElement c L (p + m + n) (p + m)).1[p + m + k]? = some none := by
      intro k hk
      rw [c1]
      by_cases hk' : p + m + k = p + m
      · rw [if_pos hk']
      · rw [if_neg hk', if_neg (by omega), ← hraw (k - 1) (by omega)]; congr 1; omega
    obtain ⟨e1, e2⟩ := ih (moveOneElement c L (p + m + n) (p + m)).1 (moveOneElement c L (p + m + n) (p + m)).2 hlive' hraw'
    refine ⟨by rw [e1, l1]; simp [Nat.add_comm], ?_⟩
    intro j
    rw [e2 j]
    simp only [c1]
    have hxx : ∀ i, i = p + m → c[i]? = some (some x) := by intro i hi; subst hi; exact hx
    split_ifs <;> first | rfl | omega | (rw [hxx _ (by omega)])

end C26
