import SimbodyProofs.C35_lemmas
import SimbodyProofs.C34

/-!
# C35 — property theorems: the closed-form collision detectors report exactly the overlapping pairs

Over any linear ordered field; rotations enter through `IsRot` (orthonormal rows and columns), `sqrt` through
`SqrtSpec`.  Pairs: half space–sphere, sphere–sphere, half space–ellipsoid, and the order dispatch `Col.detect`.
The iterative pairs (ConvexConvex, meshes) are decided by contract predicates of the harness only.
-/
namespace Geom
namespace Col
variable {K : Type} [Field K] [LinearOrder K] [IsStrictOrderedRing K]

/-! ## half space – sphere -/

/-- a contact is reported iff the ball and the open half space `x_H > 0` share a point -/
theorem hsSphere_contact_iff_overlap (i1 i2 : Nat) (X1 : Xf K) (hR : IsRot X1.R) (p2 : V3 K) (r : K) (hr : 0 ≤ r) :
    (hsSphere i1 i2 X1 p2 r).isSome = true ↔
      ∃ y : V3 K, V3.normSq (V3.sub y p2) ≤ r * r ∧ 0 < (Xf.inv X1 y).x := by
  have hsome : (hsSphere i1 i2 X1 p2 r).isSome = true ↔ 0 < r + (Xf.inv X1 p2).x := by
    unfold hsSphere; simp only []; split_ifs with h <;> simp [h]
  rw [hsome]
  constructor
  · intro h
    -- deepest point of the ball: centre + r · (x axis of the half-space frame)
    refine ⟨V3.add p2 (V3.smul r (M3.mulVec X1.R ⟨1, 0, 0⟩)), ?_, ?_⟩
    · have e : V3.sub (V3.add p2 (V3.smul r (M3.mulVec X1.R ⟨1, 0, 0⟩))) p2 = V3.smul r (M3.mulVec X1.R ⟨1, 0, 0⟩) := by
        simp only [V3.sub, V3.add]; apply V3.ext' <;> (simp only; ring)
      rw [e]
      have hn := normSq_mulVec hR (⟨1, 0, 0⟩ : V3 K)
      simp only [V3.normSq, V3.dot, V3.smul] at hn ⊢
      nlinarith [hn]
    · have e : Xf.inv X1 (V3.add p2 (V3.smul r (M3.mulVec X1.R ⟨1, 0, 0⟩)))
          = V3.add (Xf.inv X1 p2) (V3.smul r ⟨1, 0, 0⟩) := by
        have h1 : V3.sub (V3.add p2 (V3.smul r (M3.mulVec X1.R ⟨1, 0, 0⟩))) X1.p
            = V3.add (V3.sub p2 X1.p) (M3.mulVec X1.R (V3.smul r ⟨1, 0, 0⟩)) := by
          rw [mulVec_smul]; simp only [V3.sub, V3.add]; apply V3.ext' <;> (simp only; ring)
        simp only [Xf.inv, h1]
        rw [← mulVec_transpose, mulVec_add, mulVec_transpose, mulVec_transpose, tmul_mul hR]
      rw [e]; simp only [V3.add, V3.smul]; linarith
  · rintro ⟨y, hy, hpos⟩
    -- (inv y).x = (inv p2).x + e_x · Rᵀ(y − p2) ≤ (inv p2).x + r
    have e : (Xf.inv X1 y).x = (Xf.inv X1 p2).x + V3.dot ⟨1, 0, 0⟩ (M3.tmulVec X1.R (V3.sub y p2)) := by
      simp only [Xf.inv, M3.tmulVec, M3.mulVec, M3.transpose, M3.col0, V3.dot, V3.sub]; ring
    have hle : V3.dot (⟨1, 0, 0⟩ : V3 K) (M3.tmulVec X1.R (V3.sub y p2)) ≤ 1 * r := by
      apply dot_le_mul zero_le_one hr
      · simp [V3.normSq, V3.dot]
      · rw [normSq_tmulVec hR]; exact hy
    linarith

/-- depth, normal and point are those of the exact geometry: the normal is the half space's outward unit normal
`−x_H` in ground, `depth` is the largest `x_H` over the ball (attained at `centre + r x_H`), and the contact point has
half-space coordinates `(depth/2, c_y, c_z)`: midway between the plane and the deepest point, under the centre -/
theorem hsSphere_depth_normal_point_exact (i1 i2 : Nat) (X1 : Xf K) (hR : IsRot X1.R) (p2 : V3 K) (r : K) (hr : 0 ≤ r)
    (c : Contact K) (hc : hsSphere i1 i2 X1 p2 r = some c) :
    c.depth = r + (Xf.inv X1 p2).x ∧ V3.normSq c.normal = 1 ∧ c.normal = V3.neg (M3.mulVec X1.R ⟨1, 0, 0⟩) ∧
    Xf.inv X1 c.point = ⟨c.depth / 2, (Xf.inv X1 p2).y, (Xf.inv X1 p2).z⟩ ∧
    (∀ y : V3 K, V3.normSq (V3.sub y p2) ≤ r * r → (Xf.inv X1 y).x ≤ c.depth) ∧ c.s1 = i1 ∧ c.s2 = i2 := by
  unfold hsSphere at hc
  simp only [] at hc
  split_ifs at hc with h
  simp only [Option.some.injEq] at hc
  subst hc
  refine ⟨rfl, ?_, ?_, ?_, ?_, rfl, rfl⟩
  · rw [normSq_mulVec hR]; simp [V3.normSq, V3.dot]
  · rw [← mulVec_neg]; simp [V3.neg]
  · simp only [Xf.inv, Xf.app]
    have e : V3.sub (V3.add (M3.mulVec X1.R ⟨(r + (M3.tmulVec X1.R (V3.sub p2 X1.p)).x) / 2,
        (M3.tmulVec X1.R (V3.sub p2 X1.p)).y, (M3.tmulVec X1.R (V3.sub p2 X1.p)).z⟩) X1.p) X1.p
        = M3.mulVec X1.R ⟨(r + (M3.tmulVec X1.R (V3.sub p2 X1.p)).x) / 2,
        (M3.tmulVec X1.R (V3.sub p2 X1.p)).y, (M3.tmulVec X1.R (V3.sub p2 X1.p)).z⟩ := by
      simp only [V3.sub, V3.add]; apply V3.ext' <;> (simp only; ring)
    rw [e, tmul_mul hR]
  · intro y hy
    have e : (Xf.inv X1 y).x = (Xf.inv X1 p2).x + V3.dot ⟨1, 0, 0⟩ (M3.tmulVec X1.R (V3.sub y p2)) := by
      simp only [Xf.inv, M3.tmulVec, M3.mulVec, M3.transpose, M3.col0, V3.dot, V3.sub]; ring
    have hle : V3.dot (⟨1, 0, 0⟩ : V3 K) (M3.tmulVec X1.R (V3.sub y p2)) ≤ 1 * r := by
      apply dot_le_mul zero_le_one hr
      · simp [V3.normSq, V3.dot]
      · rw [normSq_tmulVec hR]; exact hy
    simp only; linarith

/-- moving both objects by the same rigid motion `G` moves the contact by `G` and leaves the depth unchanged -/
theorem hsSphere_rigid_motion_invariance (i1 i2 : Nat) (G X1 : Xf K) (hG : IsRot G.R) (p2 : V3 K) (r : K) :
    hsSphere i1 i2 (Xf.comp G X1) (Xf.app G p2) r =
      (hsSphere i1 i2 X1 p2 r).map (fun c => { c with point := Xf.app G c.point, normal := M3.mulVec G.R c.normal }) := by
  unfold hsSphere
  simp only [inv_comp_app hG, app_comp]
  split_ifs with h
  · simp only [Option.map_some, Xf.comp, mulVec_mul]
  · rfl


/-! ## sphere – sphere -/

theorem sphereSphere_some_iff (sqrt : K → K) (i1 i2 : Nat) (p1 p2 : V3 K) (r1 r2 : K) :
    (sphereSphere sqrt i1 i2 p1 p2 r1 r2).isSome = true ↔
      sqrt (V3.normSq (V3.sub p2 p1)) ≠ 0 ∧ sqrt (V3.normSq (V3.sub p2 p1)) < r1 + r2 := by
  unfold sphereSphere
  simp only []
  split_ifs with h1 h2
  · simp only [Option.isSome_some, true_iff]
    exact ⟨by rcases h1 with h | h; exact ne_of_lt h; exact ne_of_gt h, by linarith⟩
  · simp only [Option.isSome_none, Bool.false_eq_true, false_iff, not_and, not_lt]
    intro _; linarith [not_lt.mp h2]
  · simp only [Option.isSome_none, Bool.false_eq_true, false_iff, not_and]
    intro hne; exact absurd (lt_or_gt_of_ne hne) h1

/-- a contact is reported iff the two open balls share a point (centres not coincident — the code gives up on
concentric spheres, "no sensible way to deal with this") -/
theorem sphereSphere_contact_iff_overlap (sqrt : K → K) (hsq : SqrtSpec sqrt) (i1 i2 : Nat) (p1 p2 : V3 K) (r1 r2 : K)
    (hr1 : 0 < r1) (hr2 : 0 < r2) (hne : V3.normSq (V3.sub p2 p1) ≠ 0) :
    (sphereSphere sqrt i1 i2 p1 p2 r1 r2).isSome = true ↔
      ∃ y : V3 K, V3.normSq (V3.sub y p1) < r1 * r1 ∧ V3.normSq (V3.sub y p2) < r2 * r2 := by
  rw [sphereSphere_some_iff]
  have hD := normSq_nonneg (V3.sub p2 p1)
  have hs := hsq.sq _ hD
  have hn := hsq.nonneg _ hD
  generalize hdd : sqrt (V3.normSq (V3.sub p2 p1)) = d at hs hn ⊢
  have hd0 : d ≠ 0 := by intro h; rw [h] at hs; exact hne (by linarith)
  have hdpos : 0 < d := lt_of_le_of_ne hn (Ne.symm hd0)
  constructor
  · rintro ⟨_, hlt⟩
    -- the point at fraction r1/(r1+r2) of the centre line
    refine ⟨V3.add p1 (V3.smul (r1 / (r1 + r2)) (V3.sub p2 p1)), ?_, ?_⟩
    · have e : V3.normSq (V3.sub (V3.add p1 (V3.smul (r1 / (r1 + r2)) (V3.sub p2 p1))) p1)
          = (r1 / (r1 + r2)) * (r1 / (r1 + r2)) * V3.normSq (V3.sub p2 p1) := by
        simp only [V3.normSq, V3.dot, V3.sub, V3.add, V3.smul]; ring
      rw [e, ← hs]
      have hpos : 0 < r1 + r2 := by linarith
      have hfr : r1 / (r1 + r2) * d < r1 := by
        rw [div_mul_eq_mul_div, div_lt_iff₀ hpos]; nlinarith
      have hfr0 : 0 ≤ r1 / (r1 + r2) * d := by positivity
      nlinarith
    · have e : V3.normSq (V3.sub (V3.add p1 (V3.smul (r1 / (r1 + r2)) (V3.sub p2 p1))) p2)
          = (r2 / (r1 + r2)) * (r2 / (r1 + r2)) * V3.normSq (V3.sub p2 p1) := by
        have hpos : r1 + r2 ≠ 0 := by linarith
        simp only [V3.normSq, V3.dot, V3.sub, V3.add, V3.smul]; field_simp; ring
      rw [e, ← hs]
      have hpos : 0 < r1 + r2 := by linarith
      have hfr : r2 / (r1 + r2) * d < r2 := by
        rw [div_mul_eq_mul_div, div_lt_iff₀ hpos]; nlinarith
      have hfr0 : 0 ≤ r2 / (r1 + r2) * d := by positivity
      nlinarith
  · rintro ⟨y, h1, h2⟩
    refine ⟨hd0, ?_⟩
    -- triangle inequality through Cauchy–Schwarz
    have hu := normSq_nonneg (V3.sub y p1)
    have hv := normSq_nonneg (V3.sub y p2)
    have su := hsq.sq _ hu; have nu := hsq.nonneg _ hu
    have sv := hsq.sq _ hv; have nv := hsq.nonneg _ hv
    generalize sqrt (V3.normSq (V3.sub y p1)) = a at su nu
    generalize sqrt (V3.normSq (V3.sub y p2)) = b at sv nv
    have hdot : V3.dot (V3.sub y p1) (V3.neg (V3.sub y p2)) ≤ a * b := by
      apply dot_le_mul nu nv su.symm
      have : V3.normSq (V3.neg (V3.sub y p2)) = V3.normSq (V3.sub y p2) := by
        simp only [V3.normSq, V3.dot, V3.neg]; ring
      rw [this, sv]
    have hsum : V3.normSq (V3.sub p2 p1) = V3.normSq (V3.sub y p1) + V3.normSq (V3.sub y p2)
        + 2 * V3.dot (V3.sub y p1) (V3.neg (V3.sub y p2)) := by
      simp only [V3.normSq, V3.dot, V3.sub, V3.neg]; ring
    have ha : a < r1 := by by_contra hc; have := not_lt.mp hc; nlinarith
    have hb : b < r2 := by by_contra hc; have := not_lt.mp hc; nlinarith
    have : d * d ≤ (a + b) * (a + b) := by rw [hs, hsum, ← su, ← sv]; nlinarith
    have hab : d ≤ a + b := le_of_sq_le (by linarith) this
    linarith

/-- depth, normal, point of the exact geometry: with `n = (p2−p1)/dist` (a unit vector), `depth = r1+r2−dist`, the
surface points on the centre line are `a1 = p1 + r1 n`, `a2 = p2 − r2 n`; `a1 − a2 = depth·n` and the contact point
is their midpoint; the relative radius is `r1 r2/(r1+r2)` -/
theorem sphereSphere_depth_normal_point_exact (sqrt : K → K) (hsq : SqrtSpec sqrt) (i1 i2 : Nat) (p1 p2 : V3 K) (r1 r2 : K)
    (c : Contact K) (hc : sphereSphere sqrt i1 i2 p1 p2 r1 r2 = some c) :
    c.depth = r1 + r2 - sqrt (V3.normSq (V3.sub p2 p1)) ∧ 0 < c.depth ∧ V3.normSq c.normal = 1 ∧
    V3.smul (sqrt (V3.normSq (V3.sub p2 p1))) c.normal = V3.sub p2 p1 ∧
    V3.sub (V3.add p1 (V3.smul r1 c.normal)) (V3.sub p2 (V3.smul r2 c.normal)) = V3.smul c.depth c.normal ∧
    V3.smul 2 c.point = V3.add (V3.add p1 (V3.smul r1 c.normal)) (V3.sub p2 (V3.smul r2 c.normal)) ∧
    c.s1 = i1 ∧ c.s2 = i2 := by
  have hD := normSq_nonneg (V3.sub p2 p1)
  have hs := hsq.sq _ hD
  unfold sphereSphere at hc
  simp only [] at hc
  split_ifs at hc with h1 h2
  simp only [Option.some.injEq] at hc
  subst hc
  have hd0 : sqrt (V3.normSq (V3.sub p2 p1)) ≠ 0 := by
    rcases h1 with h | h; exact ne_of_lt h; exact ne_of_gt h
  generalize sqrt (V3.normSq (V3.sub p2 p1)) = d at hs hd0 h2 ⊢
  refine ⟨rfl, h2, ?_, ?_, ?_, ?_, rfl, rfl⟩
  · simp only [V3.normSq, V3.dot, V3.sdiv, V3.sub] at hs ⊢
    field_simp
    linear_combination (-1 : K) * hs
  · simp only [V3.smul, V3.sdiv, V3.sub]; apply V3.ext' <;> (simp only; field_simp)
  · simp only [V3.smul, V3.sdiv, V3.sub, V3.add]; apply V3.ext' <;> (simp only; field_simp; ring)
  · simp only [V3.smul, V3.sdiv, V3.sub, V3.add]; apply V3.ext' <;> (simp only; field_simp; ring)

omit [LinearOrder K] [IsStrictOrderedRing K] in
theorem normSq_sub_comm (a b : V3 K) : V3.normSq (V3.sub a b) = V3.normSq (V3.sub b a) := by
  simp only [V3.normSq, V3.dot, V3.sub]; ring

/-- the two spheres given in the other order: same point, depth and radii, reversed normal, swapped roles -/
theorem sphereSphere_swap_symmetry (sqrt : K → K) (hsq : SqrtSpec sqrt) (i1 i2 : Nat) (p1 p2 : V3 K) (r1 r2 : K) :
    sphereSphere sqrt i2 i1 p2 p1 r2 r1 =
      (sphereSphere sqrt i1 i2 p1 p2 r1 r2).map
        (fun c => { c with s1 := c.s2, s2 := c.s1, normal := V3.neg c.normal }) := by
  have hD := normSq_nonneg (V3.sub p2 p1)
  have hs := hsq.sq _ hD
  unfold sphereSphere
  simp only [normSq_sub_comm p1 p2]
  generalize sqrt (V3.normSq (V3.sub p2 p1)) = d at hs ⊢
  have e1 : r2 + r1 - d = r1 + r2 - d := by ring
  simp only [e1]
  split_ifs with h1 h2
  · have hd0 : d ≠ 0 := by rcases h1 with h | h; exact ne_of_lt h; exact ne_of_gt h
    simp only [Option.map_some, Option.some.injEq]
    have e2 : r2 * r1 / (r2 + r1) = r1 * r2 / (r1 + r2) := by rw [mul_comm, add_comm]
    have e3 : V3.sdiv (V3.sub p1 p2) d = V3.neg (V3.sdiv (V3.sub p2 p1) d) := by
      simp only [V3.sdiv, V3.sub, V3.neg]; apply V3.ext' <;> (simp only; ring)
    have e4 : V3.add p2 (V3.smul (r2 - (r1 + r2 - d) / 2) (V3.sdiv (V3.sub p1 p2) d))
        = V3.add p1 (V3.smul (r1 - (r1 + r2 - d) / 2) (V3.sdiv (V3.sub p2 p1) d)) := by
      simp only [V3.normSq, V3.dot, V3.sub] at hs
      simp only [V3.add, V3.smul, V3.sdiv, V3.sub]
      apply V3.ext' <;> (simp only; field_simp; ring)
    rw [e2, e4, e3]
  · rfl
  · rfl

theorem sphereSphere_rigid_motion_invariance (sqrt : K → K) (i1 i2 : Nat) (G : Xf K) (hG : IsRot G.R) (p1 p2 : V3 K)
    (r1 r2 : K) :
    sphereSphere sqrt i1 i2 (Xf.app G p1) (Xf.app G p2) r1 r2 =
      (sphereSphere sqrt i1 i2 p1 p2 r1 r2).map
        (fun c => { c with point := Xf.app G c.point, normal := M3.mulVec G.R c.normal }) := by
  have e : V3.sub (Xf.app G p2) (Xf.app G p1) = M3.mulVec G.R (V3.sub p2 p1) := by
    simp only [Xf.app, mulVec_sub]; simp only [V3.sub, V3.add]; apply V3.ext' <;> (simp only; ring)
  unfold sphereSphere
  simp only [e, normSq_mulVec hG]
  split_ifs with h1 h2
  · simp only [Option.map_some, Option.some.injEq]
    rw [mulVec_sdiv]
    congr 1
    simp only [Xf.app, mulVec_add, mulVec_smul, mulVec_sdiv]
    simp only [V3.add]; apply V3.ext' <;> (simp only; ring)
  · rfl
  · rfl


/-! ## half space – ellipsoid -/

omit [LinearOrder K] [IsStrictOrderedRing K] in
/-- the half space's outward normal in the ellipsoid frame is minus the first row of `T.R` -/
theorem hsEll_normal (T : Xf K) : M3.tmulVec T.R (⟨-1, 0, 0⟩ : V3 K) = V3.neg T.R.r0 := by
  simp only [M3.tmulVec, M3.mulVec, M3.transpose, M3.col0, M3.col1, M3.col2, V3.dot, V3.neg]
  apply V3.ext' <;> (simp only; ring)

omit [LinearOrder K] [IsStrictOrderedRing K] in
/-- the point computed by the code is `Ellipsoid::calcSupportPoint` in the direction `x_H` -/
theorem hsEllLocal_is_support (sqrt : K → K) (T : Xf K) (a : V3 K) :
    (hsEllLocal sqrt T a).2.1 = Ell.support sqrt a T.R.r0 ∧
    (hsEllLocal sqrt T a).2.2 = (Xf.app T (Ell.support sqrt a T.R.r0)).x ∧
    (hsEllLocal sqrt T a).1 = V3.neg T.R.r0 := by
  have hloc : (hsEllLocal sqrt T a).2.1 = Ell.support sqrt a T.R.r0 := by
    simp only [hsEllLocal, hsEll_normal, Ell.support, V3.neg, V3.sdiv, V3.normSq, V3.dot]
    have e : -T.R.r0.x * (-T.R.r0.x * (a.x * a.x)) + -T.R.r0.y * (-T.R.r0.y * (a.y * a.y))
        + -T.R.r0.z * (-T.R.r0.z * (a.z * a.z))
        = T.R.r0.x * a.x * (T.R.r0.x * a.x) + T.R.r0.y * a.y * (T.R.r0.y * a.y) + T.R.r0.z * a.z * (T.R.r0.z * a.z) := by
      ring
    rw [e]
    apply V3.ext' <;> (simp only; ring)
  refine ⟨hloc, ?_, ?_⟩
  · rw [← hloc]; simp only [hsEllLocal]
  · simp only [hsEllLocal, hsEll_normal]

omit [IsStrictOrderedRing K] in
theorem hsEllipsoid_some_iff (sqrt : K → K) (i1 i2 : Nat) (X1 X2 : Xf K) (a : V3 K) :
    (hsEllipsoid sqrt i1 i2 X1 X2 a).isSome = true ↔ 0 < (hsEllLocal sqrt (Xf.invComp X1 X2) a).2.2 := by
  unfold hsEllipsoid
  simp only []
  split_ifs with h <;> simp [h]

/-- positivity of the normalising square root: `|(r0ᵢ aᵢ)| > 0` for a unit row and non-zero radii -/
theorem hsEll_sqrt_pos (sqrt : K → K) (hsq : SqrtSpec sqrt) (r0 a : V3 K) (hr0 : V3.dot r0 r0 = 1)
    (ha : a.x ≠ 0 ∧ a.y ≠ 0 ∧ a.z ≠ 0) :
    sqrt (V3.normSq ⟨r0.x * a.x, r0.y * a.y, r0.z * a.z⟩) * sqrt (V3.normSq ⟨r0.x * a.x, r0.y * a.y, r0.z * a.z⟩)
      = V3.normSq ⟨r0.x * a.x, r0.y * a.y, r0.z * a.z⟩ ∧
    0 < sqrt (V3.normSq ⟨r0.x * a.x, r0.y * a.y, r0.z * a.z⟩) := by
  have hW := normSq_nonneg (⟨r0.x * a.x, r0.y * a.y, r0.z * a.z⟩ : V3 K)
  have hs := hsq.sq _ hW
  have hn := hsq.nonneg _ hW
  refine ⟨hs, ?_⟩
  have hWpos : 0 < V3.normSq (⟨r0.x * a.x, r0.y * a.y, r0.z * a.z⟩ : V3 K) := by
    rcases lt_or_eq_of_le hW with h | h
    · exact h
    · exfalso
      simp only [V3.normSq, V3.dot] at h hr0
      have e0 : r0.x * a.x * (r0.x * a.x) = 0 := by nlinarith [mul_self_nonneg (r0.x * a.x), mul_self_nonneg (r0.y * a.y), mul_self_nonneg (r0.z * a.z)]
      have e1 : r0.y * a.y * (r0.y * a.y) = 0 := by nlinarith [mul_self_nonneg (r0.x * a.x), mul_self_nonneg (r0.y * a.y), mul_self_nonneg (r0.z * a.z)]
      have e2 : r0.z * a.z * (r0.z * a.z) = 0 := by nlinarith [mul_self_nonneg (r0.x * a.x), mul_self_nonneg (r0.y * a.y), mul_self_nonneg (r0.z * a.z)]
      have z0 : r0.x = 0 := by
        rcases mul_eq_zero.mp (mul_self_eq_zero.mp e0) with h' | h'; exact h'; exact absurd h' ha.1
      have z1 : r0.y = 0 := by
        rcases mul_eq_zero.mp (mul_self_eq_zero.mp e1) with h' | h'; exact h'; exact absurd h' ha.2.1
      have z2 : r0.z = 0 := by
        rcases mul_eq_zero.mp (mul_self_eq_zero.mp e2) with h' | h'; exact h'; exact absurd h' ha.2.2
      rw [z0, z1, z2] at hr0; norm_num at hr0
  rcases lt_or_eq_of_le hn with h | h
  · exact h
  · rw [← h] at hs; linarith

/-- a contact is reported iff the solid ellipsoid and the open half space share a point; `T = ~X1*X2` maps
ellipsoid coordinates to half-space coordinates -/
theorem hsEllipsoid_contact_iff_overlap (sqrt : K → K) (hsq : SqrtSpec sqrt) (i1 i2 : Nat) (X1 X2 : Xf K) (a : V3 K)
    (ha : a.x ≠ 0 ∧ a.y ≠ 0 ∧ a.z ≠ 0) (hR1 : IsRot X1.R) (hR2 : IsRot X2.R) :
    (hsEllipsoid sqrt i1 i2 X1 X2 a).isSome = true ↔
      ∃ x : V3 K, 0 ≤ Ell.value a x ∧ 0 < (Xf.app (Xf.invComp X1 X2) x).x := by
  have hr0 := (isRot_invComp hR1 hR2).r00
  rw [hsEllipsoid_some_iff, (hsEllLocal_is_support sqrt _ a).2.1]
  generalize Xf.invComp X1 X2 = T at hr0 ⊢
  obtain ⟨hs, h0⟩ := hsEll_sqrt_pos sqrt hsq T.R.r0 a hr0 ha
  constructor
  · intro h
    exact ⟨Ell.support sqrt a T.R.r0, le_of_eq (Ell.support_maximises sqrt a T.R.r0 ⟨0, 0, 0⟩ ha hs h0
      (by simp [Ell.value])).2.symm, h⟩
  · rintro ⟨x, hx, hpos⟩
    have hmax := (Ell.support_maximises sqrt a T.R.r0 x ha hs h0 hx).1
    have e : ∀ y : V3 K, (Xf.app T y).x = V3.dot T.R.r0 y + T.p.x := by
      intro y; simp only [Xf.app, M3.mulVec, V3.add]
    rw [e] at hpos ⊢
    linarith

/-- exact geometry (`IsRot X1.R`, `IsRot X2.R`): the depth is the largest half-space coordinate `x_H` over the ellipsoid;
the normal is the half space's outward unit normal `−x_H` expressed in ground; and the contact point, in half-space
coordinates, is the deepest point of the ellipsoid moved back by half the depth: `(depth/2, y_H, z_H)` of the support point -/
theorem hsEllipsoid_depth_normal_point_exact (sqrt : K → K) (hsq : SqrtSpec sqrt) (i1 i2 : Nat) (X1 X2 : Xf K) (a : V3 K)
    (ha : a.x ≠ 0 ∧ a.y ≠ 0 ∧ a.z ≠ 0) (hR1 : IsRot X1.R) (hR2 : IsRot X2.R)
    (c : Contact K) (hc : hsEllipsoid sqrt i1 i2 X1 X2 a = some c) :
    (∀ x : V3 K, 0 ≤ Ell.value a x → (Xf.app (Xf.invComp X1 X2) x).x ≤ c.depth) ∧
    c.normal = V3.neg (M3.mulVec X1.R ⟨1, 0, 0⟩) ∧ V3.normSq c.normal = 1 ∧
    Xf.inv X1 c.point = ⟨c.depth / 2,
      (Xf.app (Xf.invComp X1 X2) (Ell.support sqrt a (Xf.invComp X1 X2).R.r0)).y,
      (Xf.app (Xf.invComp X1 X2) (Ell.support sqrt a (Xf.invComp X1 X2).R.r0)).z⟩ ∧
    c.depth = (Xf.app (Xf.invComp X1 X2) (Ell.support sqrt a (Xf.invComp X1 X2).R.r0)).x ∧
    c.s1 = i1 ∧ c.s2 = i2 := by
  have hT : IsRot (Xf.invComp X1 X2).R := isRot_invComp hR1 hR2
  have hr0 := hT.r00
  unfold hsEllipsoid at hc
  simp only [] at hc
  split_ifs at hc with h
  simp only [Option.some.injEq] at hc
  subst hc
  have hn : (hsEllLocal sqrt (Xf.invComp X1 X2) a).1 = M3.tmulVec X2.R (M3.mulVec X1.R ⟨-1, 0, 0⟩) := by
    simp only [hsEllLocal, tmulVec_invComp]
  have hnormal : M3.mulVec X2.R (hsEllLocal sqrt (Xf.invComp X1 X2) a).1 = V3.neg (M3.mulVec X1.R ⟨1, 0, 0⟩) := by
    rw [hn, mul_tmul hR2, ← mulVec_neg]; simp [V3.neg]
  refine ⟨?_, hnormal, ?_, ?_, (hsEllLocal_is_support sqrt _ a).2.1, rfl, rfl⟩
  · intro x hx
    simp only [(hsEllLocal_is_support sqrt _ a).2.1]
    generalize Xf.invComp X1 X2 = T at hr0 ⊢
    obtain ⟨hs, h0⟩ := hsEll_sqrt_pos sqrt hsq T.R.r0 a hr0 ha
    have hmax := (Ell.support_maximises sqrt a T.R.r0 x ha hs h0 hx).1
    have e : ∀ y : V3 K, (Xf.app T y).x = V3.dot T.R.r0 y + T.p.x := by
      intro y; simp only [Xf.app, M3.mulVec, V3.add]
    rw [e, e]; linarith
  · simp only [hnormal]
    have : V3.neg (M3.mulVec X1.R (⟨1, 0, 0⟩ : V3 K)) = M3.mulVec X1.R ⟨-1, 0, 0⟩ := by rw [← mulVec_neg]; simp [V3.neg]
    rw [this, normSq_mulVec hR1]; simp [V3.normSq, V3.dot]
  · -- inv X1 (app X2 w) = app T w, and T.R n = −e_x
    simp only
    rw [← app_invComp]
    obtain ⟨hl, hd, hnn⟩ := hsEllLocal_is_support sqrt (Xf.invComp X1 X2) a
    rw [hl, hd, hnn]
    generalize Xf.invComp X1 X2 = T at hT ⊢
    generalize Ell.support sqrt a T.R.r0 = L
    have hTn : M3.mulVec T.R (V3.neg T.R.r0) = ⟨-1, 0, 0⟩ := by
      obtain ⟨_, _, _, _, _, _, r00, _, _, r01, r02, _⟩ := hT
      simp only [M3.mulVec, V3.neg, V3.dot] at *
      apply V3.ext'
      · simp only; linear_combination (-1 : K) * r00
      · simp only; linear_combination (-1 : K) * r01
      · simp only; linear_combination (-1 : K) * r02
    have e : Xf.app T (V3.add L (V3.smul ((Xf.app T L).x / 2) (V3.neg T.R.r0)))
        = V3.add (Xf.app T L) (V3.smul ((Xf.app T L).x / 2) (M3.mulVec T.R (V3.neg T.R.r0))) := by
      simp only [Xf.app, mulVec_add, mulVec_smul]
      simp only [V3.add, V3.smul]; apply V3.ext' <;> (simp only; ring)
    rw [e, hTn]
    simp only [V3.add, V3.smul]
    apply V3.ext' <;> (simp only; ring)

/-- common rigid motion: the contact moves with it, depth and radii unchanged -/
theorem hsEllipsoid_rigid_motion_invariance (sqrt : K → K) (i1 i2 : Nat) (G X1 X2 : Xf K) (hG : IsRot G.R) (a : V3 K) :
    hsEllipsoid sqrt i1 i2 (Xf.comp G X1) (Xf.comp G X2) a =
      (hsEllipsoid sqrt i1 i2 X1 X2 a).map
        (fun c => { c with point := Xf.app G c.point, normal := M3.mulVec G.R c.normal }) := by
  have eL : hsEllLocal sqrt (Xf.invComp (Xf.comp G X1) (Xf.comp G X2)) a = hsEllLocal sqrt (Xf.invComp X1 X2) a := by
    simp only [hsEllLocal, tmulVec_invComp_comp hG, app_invComp_comp hG]
  have eR : hsEllRadii sqrt (Xf.invComp (Xf.comp G X1) (Xf.comp G X2)) a = hsEllRadii sqrt (Xf.invComp X1 X2) a := by
    simp only [hsEllRadii, tmulVec_invComp_comp hG]
  unfold hsEllipsoid
  simp only [eL, eR]
  split_ifs with h
  · simp only [Option.map_some, app_comp]
    simp only [Xf.comp, mulVec_mul]
  · rfl

/-! ## the two shapes given in the other order (`GeneralContactSubsystem` dispatch) -/

/-- contract assumed of the unmodelled `ConvexConvex::processObjects` when it is handed two ellipsoids in the other
order: same contact with roles swapped and normal reversed; and its result carries the indices it was given.  (The harness
evaluates exactly this on the real code: keys `ConvexConvex.ellipsoid_ellipsoid.*.swap`; it FAILS for some deeply
interpenetrating poses — known finding — so the theorem below is conditional on it for the ellipsoid/ellipsoid case.) -/
structure ConvexContract (convex : Placed K → Placed K → Option (Contact K)) : Prop where
  swap : ∀ (ia ib : Nat) (a b : V3 K) (XA XB : Xf K),
    convex ⟨ib, .ellipsoid b, XB⟩ ⟨ia, .ellipsoid a, XA⟩ =
      (convex ⟨ia, .ellipsoid a, XA⟩ ⟨ib, .ellipsoid b, XB⟩).map
        (fun c => { c with s1 := c.s2, s2 := c.s1, normal := V3.neg c.normal })
  roles : ∀ (P Q : Placed K) (c : Contact K), convex P Q = some c → c.s1 = P.idx ∧ c.s2 = Q.idx

/-- `detect A B` and `detect B A` describe the same physical contact: same point, depth, radii, and the same normal
when oriented from `A` to `B` (the raw normal is reversed exactly when the roles `s1,s2` are swapped).
Content per type combination: sphere/sphere by `sphereSphere_swap_symmetry`; ellipsoid/ellipsoid by the assumed
`ConvexContract`; half space/sphere, half space/ellipsoid, ellipsoid/sphere (either order): the dispatch makes the very same
call for both orders (that is the content: the registered order wins); half space/half space: no algorithm is
registered in either order (both `none`). -/
theorem detect_swap_symmetry (sqrt : K → K) (hsq : SqrtSpec sqrt) (convex : Placed K → Placed K → Option (Contact K))
    (hconv : ConvexContract convex) (A B : Placed K) (hne : A.idx ≠ B.idx) :
    match detect sqrt convex A B, detect sqrt convex B A with
    | none, none => True
    | some c, some c' => c'.point = c.point ∧ c'.depth = c.depth ∧ c'.rad1 = c.rad1 ∧ c'.rad2 = c.rad2 ∧
        c'.normalFrom A.idx = c.normalFrom A.idx ∧ ((c'.s1 = c.s1 ∧ c'.s2 = c.s2) ∨ (c'.s1 = c.s2 ∧ c'.s2 = c.s1))
    | _, _ => False := by
  obtain ⟨ia, sa, Xa⟩ := A
  obtain ⟨ib, sb, Xb⟩ := B
  simp only at hne
  cases sa <;> cases sb <;> simp only [detect, registered]
  · -- half space / sphere: the same call either way
    generalize hsSphere ia ib Xa Xb.p _ = o
    cases o <;> simp
  · generalize hsEllipsoid sqrt ia ib Xa Xb _ = o
    cases o <;> simp
  · generalize hsSphere ib ia Xb Xa.p _ = o
    cases o <;> simp
  · -- sphere / sphere
    rename_i r1 r2
    rw [sphereSphere_swap_symmetry sqrt hsq ia ib Xa.p Xb.p r1 r2]
    cases h : sphereSphere sqrt ia ib Xa.p Xb.p r1 r2 with
    | none => simp
    | some c =>
      have hs := (sphereSphere_depth_normal_point_exact sqrt hsq ia ib Xa.p Xb.p r1 r2 c h)
      obtain ⟨_, _, _, _, _, _, h1, h2⟩ := hs
      simp only [Option.map_some, Contact.normalFrom, h1, h2]
      simp [Ne.symm hne, V3.neg]
  · -- sphere / ellipsoid: only (ellipsoid, sphere) is registered, both orders make that call
    generalize convex _ _ = o
    cases o <;> simp
  · generalize hsEllipsoid sqrt ib ia Xb Xa _ = o
    cases o <;> simp
  · generalize convex _ _ = o
    cases o <;> simp
  · -- ellipsoid / ellipsoid: the assumed contract of ConvexConvex
    rename_i a b
    rw [hconv.swap ia ib a b Xa Xb]
    cases h : convex ⟨ia, .ellipsoid a, Xa⟩ ⟨ib, .ellipsoid b, Xb⟩ with
    | none => simp
    | some c =>
      obtain ⟨h1, h2⟩ := hconv.roles _ _ c h
      simp only at h1 h2
      simp only [Option.map_some, Contact.normalFrom, h1, h2]
      simp [Ne.symm hne, V3.neg]

/-- `detect` is well defined on every pair except half space / half space: that is the only combination with no
registered algorithm in either order (so "both `none`" in `detect_swap_symmetry` for another combination means the
algorithm itself reported no contact) -/
theorem detect_registered (sqrt : K → K) (convex : Placed K → Placed K → Option (Contact K)) (A B : Placed K) :
    (registered sqrt convex A B).isSome = true ∨ (registered sqrt convex B A).isSome = true ∨
    (A.shape = .halfSpace ∧ B.shape = .halfSpace) := by
  obtain ⟨ia, sa, Xa⟩ := A
  obtain ⟨ib, sb, Xb⟩ := B
  cases sa <;> cases sb <;> simp [registered]

/-! ## non-vacuity -/

/-- the convex contract is satisfiable (e.g. by an algorithm that never reports) -/
example : ConvexContract (K := ℚ) (fun _ _ => none) := ⟨by intros; rfl, by intro _ _ _ h; simp at h⟩


/-- the identity is a rotation, so `IsRot` hypotheses are satisfiable -/
example : IsRot (⟨⟨1, 0, 0⟩, ⟨0, 1, 0⟩, ⟨0, 0, 1⟩⟩ : M3 ℚ) := by
  constructor <;> norm_num [V3.dot, M3.col0, M3.col1, M3.col2]

/-- a genuine rotation with rational entries (3-4-5 about z) -/
example : IsRot (⟨⟨3 / 5, -4 / 5, 0⟩, ⟨4 / 5, 3 / 5, 0⟩, ⟨0, 0, 1⟩⟩ : M3 ℚ) := by
  constructor <;> norm_num [V3.dot, M3.col0, M3.col1, M3.col2]

/-- half space at the origin, sphere of radius 1 centred at (−1/2,0,0): contact with depth 1/2 at (1/4,0,0) -/
example : (hsSphere 0 1 (⟨⟨⟨1, 0, 0⟩, ⟨0, 1, 0⟩, ⟨0, 0, 1⟩⟩, ⟨0, 0, 0⟩⟩ : Xf ℚ) ⟨-1 / 2, 0, 0⟩ 1).map
      (fun c => (c.depth, c.point, c.normal)) = some (1 / 2, ⟨1 / 4, 0, 0⟩, ⟨-1, 0, 0⟩) := by
  norm_num [hsSphere, Xf.inv, Xf.app, M3.tmulVec, M3.mulVec, M3.transpose, M3.col0, M3.col1, M3.col2, V3.dot,
    V3.sub, V3.add]

end Col
end Geom
