import SimbodyModel.C19
import Mathlib.Order.MinMax
import Mathlib.Tactic.Order
/-! Helper lemmas for C19: the invariant of the step-communication machine and the single-call lemma
`stepTo_post`.  The property theorems are in `SimbodyProofs/C19.lean`. -/
namespace C19
variable {T : Type} [LinearOrder T]

theorem mn_eq_min (a b : T) : mn a b = min a b := by
  unfold mn; split <;> rename_i h
  · exact (min_eq_right (le_of_lt h)).symm
  · exact (min_eq_left (not_lt.mp h)).symm

theorem tMaxOf_le (o : Opts T) (report sched : T) :
    tMaxOf o report sched ≤ sched ∧ tMaxOf o report sched ≤ o.finalTime := by
  unfold tMaxOf
  simp only [mn_eq_min]
  split <;> constructor <;> simp

/-- invariant of the integrator state between calls -/
structure Inv (o : Opts T) (s : St T) : Prop where
  prev_le_adv : s.tPrev ≤ s.tAdv
  adv_le_final : s.tAdv ≤ o.finalTime
  window : (s.scs = .completedWithEvent ∨ s.scs = .returnedWithEvent) →
      s.tPrev ≤ s.tLow ∧ s.tLow < s.tHigh ∧ s.tHigh = s.tAdv ∧ ¬ (s.tLow < s.tRep ∧ s.tRep < s.tHigh)
  pending : s.scs = .completedWithEvent → s.useInterp = true ∧ s.tInterp ≤ s.tLow
  interp : s.scs ≠ .finalReturned → s.useInterp = true → s.tPrev ≤ s.tInterp ∧ s.tInterp ≤ s.tAdv
  retNoEv : s.scs = .returnedNoEvent → s.useInterp = false
  startci : s.startCI = true → s.useInterp = false

/-- what holds at the head of the main stepping loop; `t0` = `getTime()` and `a0` = advanced time when
`stepTo` was entered -/
structure Head (o : Opts T) (report sched t0 a0 : T) (s : St T) : Prop where
  prev_le_adv : s.tPrev ≤ s.tAdv
  adv_le_final : s.tAdv ≤ o.finalTime
  window : (s.scs = .completedWithEvent ∨ s.scs = .returnedWithEvent) →
      s.tPrev ≤ s.tLow ∧ s.tLow < s.tHigh ∧ s.tHigh = s.tAdv ∧ ¬ (s.tLow < s.tRep ∧ s.tRep < s.tHigh)
  retNoEv : s.scs = .returnedNoEvent → s.useInterp = false
  t0_le_report : t0 ≤ report
  t0_le_sched : t0 ≤ sched
  t0_le_adv : t0 ≤ s.tAdv
  adv_le_sched : s.tAdv ≤ sched
  prev_le_report : s.tPrev ≤ report
  pend : s.scs = .completedWithEvent → t0 ≤ s.tLow
  retNoEv_adv : s.scs = .returnedNoEvent → s.tAdv ≤ report
  a0_le : a0 ≤ s.tAdv
  nostart : s.startCI = false

/-- what a normal return of `stepTo` guarantees -/
structure Post (o : Opts T) (report sched t0 a0 : T) (st : Status) (s' : St T) : Prop where
  inv : Inv o s'
  mono : t0 ≤ s'.time
  le_report : s'.time ≤ report
  le_sched : s'.time ≤ sched
  le_final : s'.time ≤ o.finalTime
  adv_sched : s'.tAdv ≤ sched
  adv_final : s'.tAdv ≤ o.finalTime
  adv_mono : a0 ≤ s'.tAdv
  time_le_adv : s'.time ≤ s'.tAdv
  report_exact : st = .reachedReportTime → s'.time = min report o.finalTime
  sched_exact : st = .reachedScheduledEvent → s'.time = sched ∧ s'.tAdv = sched
  eos : st = .endOfSimulation → s'.time = o.finalTime ∧ s'.scs = .finalReturned ∧ s'.startCI = false
  trigger : st = .reachedEventTrigger →
      s'.scs = .returnedWithEvent ∧ s'.time = s'.tLow ∧ s'.tAdv = s'.tHigh ∧ s'.tLow < s'.tHigh
      ∧ ¬ (s'.tLow < sched ∧ sched < s'.tHigh) ∧ ¬ (s'.tLow < o.finalTime ∧ o.finalTime < s'.tHigh)
      ∧ ¬ (s'.tLow < s'.tRep ∧ s'.tRep < s'.tHigh)
  alive : st ≠ .endOfSimulation → s'.scs ≠ .finalReturned

theorem min_cases_eq (a b c : T) (h : (c = a ∧ a ≤ b) ∨ (c = b ∧ b ≤ a)) : c = min a b := by
  rcases h with ⟨h1, h2⟩ | ⟨h1, h2⟩
  · rw [h1, min_eq_left h2]
  · rw [h1, min_eq_right h2]

end C19

namespace C19
variable {T : Type} [LinearOrder T]

macro "crunch" : tactic => `(tactic| (simp_all [St.time] <;> (try (first | order | (refine ⟨?_, ?_⟩ <;> order) | (intros; order) | (apply min_cases_eq; first | (left; constructor <;> order) | (right; constructor <;> order)) | grind))))
macro "post_split" : tactic => `(tactic| refine ⟨⟨?_, ?_, ?_, ?_, ?_, ?_, ?_⟩, ?_, ?_, ?_, ?_, ?_, ?_, ?_, ?_, ?_, ?_, ?_, ?_, ?_⟩)
macro "ret_case" e:term : tactic =>
  `(tactic| first | (injection $e with e1 e2; subst e1; subst e2; post_split <;> crunch) | (cases $e:term))

theorem completedCase_ret {o : Opts T} {report sched t0 a0 : T} {taken : Nat} {s s' : St T} {st : Status}
    (h : Head o report sched t0 a0 s)
    (hs : s.scs = .completedNoEvent ∨ (s.scs = .returnedWithEvent ∧ s.useInterp = false))
    (e : completedCase o report sched taken s = .ret st s') : Post o report sched t0 a0 st s' := by
  obtain ⟨h1, h2, h3, h4, h5, h6, h7, h8, h9, h10, h11, h12, h13⟩ := h
  unfold completedCase at e
  rcases hs with hs | ⟨hs, hu⟩
  · split at e
    · split at e <;> ret_case e
    · simp only at e
      split at e
      · ret_case e
      · split at e
        · ret_case e
        · split at e
          · ret_case e
          · split at e <;> ret_case e
  · split at e
    · split at e <;> ret_case e
    · simp only at e
      split at e
      · ret_case e
      · split at e
        · ret_case e
        · split at e
          · ret_case e
          · split at e <;> ret_case e

theorem completedCase_adv {o : Opts T} {report sched : T} {taken : Nat} {s s' : St T}
    (e : completedCase o report sched taken s = .advance s') :
    s' = { s with useInterp := false } ∧ s.tAdv < report ∧ s.tAdv < sched ∧ s.tAdv < o.finalTime := by
  unfold completedCase at e
  split at e
  · split at e <;> cases e
  · simp only at e
    split at e
    · cases e
    · split at e
      · cases e
      · split at e
        · cases e
        · split at e
          · cases e
          · injection e with e1
            subst e1
            refine ⟨rfl, ?_, ?_, ?_⟩ <;> order

theorem phase_ret {o : Opts T} {report sched t0 a0 : T} {taken : Nat} {s s' : St T} {st : Status}
    (h : Head o report sched t0 a0 s) (e : phase o report sched taken s = .ret st s') :
    Post o report sched t0 a0 st s' := by
  unfold phase at e
  split at e
  · cases e
  · rename_i hs
    obtain ⟨h1, h2, h3, h4, h5, h6, h7, h8, h9, h10, h11, h12, h13⟩ := h
    split at e <;> ret_case e
  · rename_i hs
    obtain ⟨h1, h2, h3, h4, h5, h6, h7, h8, h9, h10, h11, h12, h13⟩ := h
    split at e
    · split at e <;> ret_case e
    · ret_case e
  · rename_i hs
    refine completedCase_ret (s := { s with useInterp := false }) ?_ (Or.inr ⟨hs, rfl⟩) e
    obtain ⟨h1, h2, h3, h4, h5, h6, h7, h8, h9, h10, h11, h12, h13⟩ := h
    exact ⟨h1, h2, h3, fun _ => rfl, h5, h6, h7, h8, h9, h10, h11, h12, h13⟩
  · rename_i hs
    exact completedCase_ret h (Or.inl hs) e

theorem phase_adv {o : Opts T} {report sched t0 a0 : T} {taken : Nat} {s s' : St T}
    (h : Head o report sched t0 a0 s) (e : phase o report sched taken s = .advance s') :
    s' = { s with useInterp := false } ∧ s.tAdv ≤ report ∧ s.tAdv < o.finalTime
      ∧ s.scs ≠ .completedWithEvent ∧ s.scs ≠ .finalReturned := by
  unfold phase at e
  split at e
  · cases e
  · rename_i hs
    split at e
    · cases e
    · injection e with e1
      subst e1
      have hu := h.retNoEv hs
      have hr := h.retNoEv_adv hs
      refine ⟨?_, hr, by order, by simp [hs], by simp [hs]⟩
      cases s; simp_all
  · split at e
    · split at e <;> cases e
    · cases e
  · rename_i hs
    obtain ⟨e1, e2, e3, e4⟩ := completedCase_adv e
    exact ⟨e1, le_of_lt e2, e4, by simp [hs], by simp [hs]⟩
  · rename_i hs
    obtain ⟨e1, e2, e3, e4⟩ := completedCase_adv e
    exact ⟨e1, le_of_lt e2, e4, by simp [hs], by simp [hs]⟩

theorem phase_refuse {o : Opts T} {report sched : T} {taken : Nat} {s s' : St T}
    (e : phase o report sched taken s = .refuse s') : s.scs = .finalReturned ∧ s' = { s with tPrev := s.tAdv } := by
  unfold phase at e
  split at e
  · rename_i hs; injection e with e1; exact ⟨hs, e1.symm⟩
  · split at e <;> cases e
  · split at e
    · split at e <;> cases e
    · cases e
  · unfold completedCase at e
    split at e
    · split at e <;> cases e
    · simp only at e
      split at e
      · cases e
      · split at e
        · cases e
        · split at e
          · cases e
          · split at e <;> cases e
  · unfold completedCase at e
    split at e
    · split at e <;> cases e
    · simp only at e
      split at e
      · cases e
      · split at e
        · cases e
        · split at e
          · cases e
          · split at e <;> cases e

end C19
