import SimbodyModel.C19
import Mathlib.Order.MinMax
import Mathlib.Tactic.Order
import Mathlib.Tactic.SplitIfs
/-! Helper lemmas for C19: the invariant of the step-communication machine and the single-call lemma
`stepTo_post`.  The property theorems are in `SimbodyProofs/C19.lean`. -/
namespace C19
variable {T : Type} [LinearOrder T]

theorem mn_eq_min (a b : T) : mn a b = min a b := by
  unfold mn; split <;> rename_i h
  · exact (min_eq_right (le_of_lt h)).symm
  · exact (min_eq_left (not_lt.mp h)).symm

theorem tMaxOf_le (o : Opts T) (report sched : T) :
    tMaxOf o report sched ≤ sched ∧ tMaxOf o report sched ≤ o.finalTime := by
  unfold tMaxOf
  simp only [mn_eq_min]
  split <;> constructor <;> simp

/-- invariant of the integrator state between calls -/
structure Inv (o : Opts T) (s : St T) : Prop where
  prev_le_adv : s.tPrev ≤ s.tAdv
  adv_le_final : s.tAdv ≤ o.finalTime
  window : (s.scs = .completedWithEvent ∨ s.scs = .returnedWithEvent) →
      s.tPrev ≤ s.tLow ∧ s.tLow < s.tHigh ∧ s.tHigh = s.tAdv ∧ ¬ (s.tLow < s.tRep ∧ s.tRep < s.tHigh)
  pending : s.scs = .completedWithEvent → s.useInterp = true ∧ s.tInterp ≤ s.tLow
  interp : s.scs ≠ .finalReturned → s.useInterp = true → s.tPrev ≤ s.tInterp ∧ s.tInterp ≤ s.tAdv
  retNoEv : s.scs = .returnedNoEvent → s.useInterp = false
  startci : s.startCI = true → s.useInterp = false
  interp_hi : s.useInterp = true → s.tInterp ≤ s.tAdv

/-- what holds at the head of the main stepping loop; `t0` = `getTime()` and `a0` = advanced time when
`stepTo` was entered -/
structure Head (o : Opts T) (report sched t0 a0 : T) (s : St T) : Prop where
  prev_le_adv : s.tPrev ≤ s.tAdv
  adv_le_final : s.tAdv ≤ o.finalTime
  window : (s.scs = .completedWithEvent ∨ s.scs = .returnedWithEvent) →
      s.tPrev ≤ s.tLow ∧ s.tLow < s.tHigh ∧ s.tHigh = s.tAdv ∧ ¬ (s.tLow < s.tRep ∧ s.tRep < s.tHigh)
  retNoEv : s.scs = .returnedNoEvent → s.useInterp = false
  t0_le_report : t0 ≤ report
  t0_le_sched : t0 ≤ sched
  t0_le_adv : t0 ≤ s.tAdv
  adv_le_sched : s.tAdv ≤ sched ∨ (report ≤ sched ∧ s.tAdv = a0)
  retNoEv_sched : s.scs = .returnedNoEvent → s.tAdv ≤ sched
  prev_le_report : s.tPrev ≤ report
  pend : s.scs = .completedWithEvent → t0 ≤ s.tLow
  retNoEv_adv : s.scs = .returnedNoEvent → s.tAdv ≤ report
  a0_le : a0 ≤ s.tAdv
  nostart : s.startCI = false

/-- what a normal return of `stepTo` guarantees -/
structure Post (o : Opts T) (report sched t0 a0 : T) (st : Status) (s' : St T) : Prop where
  inv : Inv o s'
  mono : t0 ≤ s'.time
  le_report : s'.time ≤ report
  le_sched : s'.time ≤ sched
  le_final : s'.time ≤ o.finalTime
  adv_sched : s'.tAdv ≤ sched ∨ s'.tAdv = a0
  adv_final : s'.tAdv ≤ o.finalTime
  adv_mono : a0 ≤ s'.tAdv
  time_le_adv : s'.time ≤ s'.tAdv
  report_exact : st = .reachedReportTime → s'.time = min report o.finalTime
  sched_exact : st = .reachedScheduledEvent → s'.time = sched ∧ s'.tAdv = sched
  eos : st = .endOfSimulation → s'.time = o.finalTime ∧ s'.scs = .finalReturned ∧ s'.startCI = false
      ∧ s'.useInterp = false
  trigger : st = .reachedEventTrigger →
      s'.scs = .returnedWithEvent ∧ s'.time = s'.tLow ∧ s'.tAdv = s'.tHigh ∧ s'.tLow < s'.tHigh
      ∧ (s'.tAdv ≤ sched → ¬ (s'.tLow < sched ∧ sched < s'.tHigh)) ∧ ¬ (s'.tLow < o.finalTime ∧ o.finalTime < s'.tHigh)
      ∧ ¬ (s'.tLow < s'.tRep ∧ s'.tRep < s'.tHigh)
  alive : st ≠ .endOfSimulation → s'.scs ≠ .finalReturned

theorem min_cases_eq (a b c : T) (h : (c = a ∧ a ≤ b) ∨ (c = b ∧ b ≤ a)) : c = min a b := by
  rcases h with ⟨h1, h2⟩ | ⟨h1, h2⟩
  · rw [h1, min_eq_left h2]
  · rw [h1, min_eq_right h2]

end C19

namespace C19
variable {T : Type} [LinearOrder T]

macro "crunch" : tactic => `(tactic| (simp_all [St.time] <;> (try (first | order | (refine ⟨?_, ?_⟩ <;> order) | (intros; order) | (apply min_cases_eq; first | (left; constructor <;> order) | (right; constructor <;> order)) | grind))))
macro "post_split" : tactic => `(tactic| refine ⟨⟨?_, ?_, ?_, ?_, ?_, ?_, ?_, ?_⟩, ?_, ?_, ?_, ?_, ?_, ?_, ?_, ?_, ?_, ?_, ?_, ?_, ?_⟩)
macro "ret_case" e:term : tactic =>
  `(tactic| first | (injection $e with e1 e2; subst e1; subst e2; post_split <;> crunch) | (cases $e:term))

theorem completedCase_ret {o : Opts T} {report sched t0 a0 : T} {taken : Nat} {s s' : St T} {st : Status}
    (h : Head o report sched t0 a0 s)
    (hs : s.scs = .completedNoEvent ∨ (s.scs = .returnedWithEvent ∧ s.useInterp = false))
    (e : completedCase o report sched taken s = .ret st s') : Post o report sched t0 a0 st s' := by
  obtain ⟨h1, h2, h3, h4, h5, h6, h7, h8, h8b, h9, h10, h11, h12, h13⟩ := h
  unfold completedCase at e
  rcases hs with hs | ⟨hs, hu⟩
  · split at e
    · split at e <;> ret_case e
    · simp only at e
      split at e
      · ret_case e
      · split at e
        · ret_case e
        · split at e
          · ret_case e
          · split at e <;> ret_case e
  · split at e
    · split at e <;> ret_case e
    · simp only at e
      split at e
      · ret_case e
      · split at e
        · ret_case e
        · split at e
          · ret_case e
          · split at e <;> ret_case e

theorem completedCase_adv {o : Opts T} {report sched : T} {taken : Nat} {s s' : St T}
    (e : completedCase o report sched taken s = .advance s') :
    s' = { s with useInterp := false } ∧ s.tAdv < report ∧ s.tAdv < sched ∧ s.tAdv < o.finalTime := by
  unfold completedCase at e
  split at e
  · split at e <;> cases e
  · simp only at e
    split at e
    · cases e
    · split at e
      · cases e
      · split at e
        · cases e
        · split at e
          · cases e
          · injection e with e1
            subst e1
            refine ⟨rfl, ?_, ?_, ?_⟩ <;> order

theorem phase_ret {o : Opts T} {report sched t0 a0 : T} {taken : Nat} {s s' : St T} {st : Status}
    (h : Head o report sched t0 a0 s) (e : phase o report sched taken s = .ret st s') :
    Post o report sched t0 a0 st s' := by
  unfold phase at e
  split at e
  · cases e
  · rename_i hs
    obtain ⟨h1, h2, h3, h4, h5, h6, h7, h8, h8b, h9, h10, h11, h12, h13⟩ := h
    split at e <;> ret_case e
  · rename_i hs
    obtain ⟨h1, h2, h3, h4, h5, h6, h7, h8, h8b, h9, h10, h11, h12, h13⟩ := h
    split at e
    · split at e <;> ret_case e
    · ret_case e
  · rename_i hs
    refine completedCase_ret (s := { s with useInterp := false }) ?_ (Or.inr ⟨hs, rfl⟩) e
    obtain ⟨h1, h2, h3, h4, h5, h6, h7, h8, h8b, h9, h10, h11, h12, h13⟩ := h
    exact ⟨h1, h2, h3, fun _ => rfl, h5, h6, h7, h8, h8b, h9, h10, h11, h12, h13⟩
  · rename_i hs
    exact completedCase_ret h (Or.inl hs) e

theorem phase_adv {o : Opts T} {report sched t0 a0 : T} {taken : Nat} {s s' : St T}
    (h : Head o report sched t0 a0 s) (e : phase o report sched taken s = .advance s') :
    s' = { s with useInterp := false } ∧ s.tAdv ≤ report ∧ s.tAdv < o.finalTime
      ∧ s.scs ≠ .completedWithEvent ∧ s.scs ≠ .finalReturned := by
  unfold phase at e
  split at e
  · cases e
  · rename_i hs
    split at e
    · cases e
    · injection e with e1
      subst e1
      have hu := h.retNoEv hs
      have hr := h.retNoEv_adv hs
      refine ⟨?_, hr, by order, by simp [hs], by simp [hs]⟩
      cases s; simp_all
  · split at e
    · split at e <;> cases e
    · cases e
  · rename_i hs
    obtain ⟨e1, e2, e3, e4⟩ := completedCase_adv e
    exact ⟨e1, le_of_lt e2, e4, by simp [hs], by simp [hs]⟩
  · rename_i hs
    obtain ⟨e1, e2, e3, e4⟩ := completedCase_adv e
    exact ⟨e1, le_of_lt e2, e4, by simp [hs], by simp [hs]⟩

theorem phase_refuse {o : Opts T} {report sched : T} {taken : Nat} {s s' : St T}
    (e : phase o report sched taken s = .refuse s') : s.scs = .finalReturned ∧ s' = { s with tPrev := s.tAdv } := by
  unfold phase at e
  split at e
  · rename_i hs; injection e with e1; exact ⟨hs, e1.symm⟩
  · split at e <;> cases e
  · split at e
    · split at e <;> cases e
    · cases e
  · unfold completedCase at e
    split at e
    · split at e <;> cases e
    · simp only at e
      split at e
      · cases e
      · split at e
        · cases e
        · split at e
          · cases e
          · split at e <;> cases e
  · unfold completedCase at e
    split at e
    · split at e <;> cases e
    · simp only at e
      split at e
      · cases e
      · split at e
        · cases e
        · split at e
          · cases e
          · split at e <;> cases e


theorem ansOK_spec {o : Opts T} {report sched : T} {s : St T} {a : Ans T} (h : ansOK o report sched s a = true) :
    s.tAdv < a.t1 ∧ a.t1 ≤ sched ∧ a.t1 ≤ o.finalTime ∧
    (a.event = true → s.tAdv ≤ a.tLow ∧ a.tLow < a.t1 ∧ ¬ (a.tLow < report ∧ report < a.t1)) := by
  unfold ansOK at h
  have hm := tMaxOf_le o report sched
  simp only [Bool.and_eq_true, Bool.or_eq_true, decide_eq_true_eq, Bool.not_eq_true', Bool.and_eq_false_iff,
    decide_eq_false_iff_not] at h
  obtain ⟨⟨h1, h2⟩, h3⟩ := h
  refine ⟨h1, le_trans h2 hm.1, le_trans h2 hm.2, ?_⟩
  intro he
  rcases h3 with h3 | h3
  · simp [he] at h3
  · obtain ⟨⟨h4, h5⟩, h6⟩ := h3
    refine ⟨h4, h5, ?_⟩
    rintro ⟨q1, q2⟩
    rcases h6 with h6 | h6 <;> exact h6 (by assumption)

/-- the two early returns `getState().getTime() == reportTime / scheduledEventTime` -/
theorem early_report {o : Opts T} {report sched t0 a0 : T} {s : St T}
    (h : Head o report sched t0 a0 s) (hu : s.useInterp = false) (h1 : s.scs ≠ .completedWithEvent)
    (h2 : s.scs ≠ .finalReturned) (e : s.tAdv = report) :
    Post o report sched t0 a0 .reachedReportTime s := by
  obtain ⟨g1, g2, g3, g4, g5, g6, g7, g8, g8b, g9, g10, g11, g12, g13⟩ := h
  post_split <;> crunch

theorem early_sched {o : Opts T} {report sched t0 a0 : T} {s : St T}
    (h : Head o report sched t0 a0 s) (hu : s.useInterp = false) (h1 : s.scs ≠ .completedWithEvent)
    (h2 : s.scs ≠ .finalReturned) (e : s.tAdv = sched) (hr : s.tAdv ≤ report) :
    Post o report sched t0 a0 .reachedScheduledEvent s := by
  obtain ⟨g1, g2, g3, g4, g5, g6, g7, g8, g8b, g9, g10, g11, g12, g13⟩ := h
  post_split <;> crunch

theorem head_clear_interp {o : Opts T} {report sched t0 a0 : T} {s : St T}
    (h : Head o report sched t0 a0 s) : Head o report sched t0 a0 { s with useInterp := false } := by
  obtain ⟨g1, g2, g3, g4, g5, g6, g7, g8, g8b, g9, g10, g11, g12, g13⟩ := h
  exact ⟨g1, g2, g3, fun _ => rfl, g5, g6, g7, g8, g8b, g9, g10, g11, g12, g13⟩

theorem head_step {o : Opts T} {report sched t0 a0 : T} {s : St T} {a : Ans T}
    (h : Head o report sched t0 a0 s) (hr : s.tAdv ≤ report) (hne : s.tAdv ≠ report)
    (ha : ansOK o report sched s a = true) :
    Head o report sched t0 a0 (applyStep report s a) := by
  obtain ⟨g1, g2, g3, g4, g5, g6, g7, g8, g8b, g9, g10, g11, g12, g13⟩ := h
  obtain ⟨a1, a2, a3, a4⟩ := ansOK_spec ha
  have hlt : s.tAdv < report := lt_of_le_of_ne hr hne
  unfold applyStep
  cases hev : a.event
  · refine ⟨?_, ?_, ?_, ?_, ?_, ?_, ?_, ?_, ?_, ?_, ?_, ?_, ?_, ?_⟩ <;> simp_all <;> (first | order | grind)
  · have a5 := a4 hev
    refine ⟨?_, ?_, ?_, ?_, ?_, ?_, ?_, ?_, ?_, ?_, ?_, ?_, ?_, ?_⟩ <;> simp_all <;> (first | order | grind)

theorem loop_post {o : Opts T} {report sched t0 a0 : T} :
    ∀ (orc : List (Ans T)) (taken : Nat) (s : St T) {st : Status} {s' : St T} {rest : List (Ans T)},
      Head o report sched t0 a0 s → loop o report sched orc taken s = .ret st s' rest →
      Post o report sched t0 a0 st s' := by
  intro orc
  induction orc with
  | nil =>
    intro taken s st s' rest h e
    unfold loop at e
    split at e
    · cases e
    · rename_i hp
      injection e with e1 e2 e3; subst e1; subst e2
      exact phase_ret h hp
    · rename_i s2 hp
      obtain ⟨p1, p2, p3, p4, p5⟩ := phase_adv h hp
      have h2 := head_clear_interp h
      rw [← p1] at h2
      have hu : s2.useInterp = false := by rw [p1]
      have ha : s2.tAdv = s.tAdv := by rw [p1]
      have hs : s2.scs = s.scs := by rw [p1]
      have ht : s2.time = s2.tAdv := by simp [St.time, hu]
      split at e
      · rename_i q
        injection e with e1 e2 e3; subst e1; subst e2
        exact early_report h2 hu (by rw [hs]; exact p4) (by rw [hs]; exact p5) (by rw [← ht]; exact q)
      · split at e
        · rename_i q
          injection e with e1 e2 e3; subst e1; subst e2
          exact early_sched h2 hu (by rw [hs]; exact p4) (by rw [hs]; exact p5) (by rw [← ht]; exact q) (by rw [ha]; exact p2)
        · cases e
  | cons a rest0 ih =>
    intro taken s st s' rest h e
    unfold loop at e
    split at e
    · cases e
    · rename_i hp
      injection e with e1 e2 e3; subst e1; subst e2
      exact phase_ret h hp
    · rename_i s2 hp
      obtain ⟨p1, p2, p3, p4, p5⟩ := phase_adv h hp
      have h2 := head_clear_interp h
      rw [← p1] at h2
      have hu : s2.useInterp = false := by rw [p1]
      have ha : s2.tAdv = s.tAdv := by rw [p1]
      have hs : s2.scs = s.scs := by rw [p1]
      have ht : s2.time = s2.tAdv := by simp [St.time, hu]
      split at e
      · rename_i q
        injection e with e1 e2 e3; subst e1; subst e2
        exact early_report h2 hu (by rw [hs]; exact p4) (by rw [hs]; exact p5) (by rw [← ht]; exact q)
      · rename_i q1
        split at e
        · rename_i q
          injection e with e1 e2 e3; subst e1; subst e2
          exact early_sched h2 hu (by rw [hs]; exact p4) (by rw [hs]; exact p5) (by rw [← ht]; exact q) (by rw [ha]; exact p2)
        · split at e
          · rename_i hx; cases hx
          · rename_i a' r' hx
            injection hx with hx1 hx2; subst hx1; subst hx2
            split at e
            · rename_i hok
              exact ih (taken + 1) _ (head_step h2 (by rw [ha]; exact p2) (by rw [← ht]; exact q1) hok) e
            · cases e

/-- caller obligations as propositions -/
structure Legal (report sched : T) (s : St T) : Prop where
  report_ge : s.time ≤ report
  sched_ge : s.time ≤ sched
  sched_adv : s.tAdv ≤ sched ∨ report ≤ sched

theorem head_of_inv {o : Opts T} {report sched : T} {s : St T} (hi : Inv o s) (hl : Legal report sched s)
    (hn : s.startCI = false) (hf : s.scs ≠ .finalReturned) : Head o report sched s.time s.tAdv s := by
  obtain ⟨i1, i2, i3, i4, i5, i6, i7, i8⟩ := hi
  obtain ⟨l1, l2, l3⟩ := hl
  have i5' := i5 hf
  refine ⟨i1, i2, i3, i6, l1, l2, ?_, l3.imp id (fun h => ⟨h, rfl⟩), ?_, ?_, ?_, ?_, le_refl _, hn⟩
  · unfold St.time; split
    · rename_i hu; exact (i5' hu).2
    · exact le_refl _
  · intro hs
    have := i6 hs
    simpa [St.time, this] using l2
  · unfold St.time at l1; split at l1
    · rename_i hu; exact le_trans (i5' hu).1 l1
    · exact le_trans i1 l1
  · intro hs
    obtain ⟨q1, q2⟩ := i4 hs
    simp [St.time, q1, q2]
  · intro hs
    have := i6 hs
    simpa [St.time, this] using l1

/-- THE single-call lemma: every normal return of `stepTo` from a state satisfying the invariant, on a legal
request, with ANY oracle list, satisfies `Post` (which re-establishes the invariant). -/
theorem stepTo_post {o : Opts T} {report sched : T} {orc rest : List (Ans T)} {s s' : St T} {st : Status}
    (hi : Inv o s) (hl : Legal report sched s) (e : stepTo o report sched orc s = .ret st s' rest) :
    Post o report sched s.time s.tAdv st s' := by
  unfold stepTo at e
  split at e
  · rename_i hc
    injection e with e1 e2 e3; subst e1; subst e2
    obtain ⟨i1, i2, i3, i4, i5, i6, i7, i8⟩ := hi
    obtain ⟨l1, l2, l3⟩ := hl
    have hu := i7 hc
    post_split <;> crunch
  · rename_i hc
    have hc' : s.startCI = false := by simpa using hc
    by_cases hf : s.scs = .finalReturned
    · exfalso
      cases orc <;> (unfold loop phase at e; simp [hf] at e)
    · exact loop_post orc 0 s (head_of_inv hi hl hc' hf) e

/-- once `FinalTimeHasBeenReturned` is the status (and no handler restarted a continuous interval) every
`stepTo` is refused, whatever the request and the oracle, and the status stays final. -/
theorem stepTo_refused {o : Opts T} (report sched : T) (orc : List (Ans T)) {s : St T}
    (hf : s.scs = .finalReturned) (hc : s.startCI = false) :
    stepTo o report sched orc s = .refused { s with tPrev := s.tAdv } := by
  unfold stepTo
  rw [if_neg (by simp [hc])]
  cases orc <;> (unfold loop phase; simp [hf])

theorem inv_init {o : Opts T} {t0 : T} (h : t0 ≤ o.finalTime) : Inv o (init t0) := by
  refine ⟨?_, ?_, ?_, ?_, ?_, ?_, ?_, ?_⟩ <;> simp [init, h]

theorem inv_reinit {o : Opts T} {s : St T} (lowered terminate : Bool) (hi : Inv o s) (hok : reinitOK s = true) :
    Inv o (reinit lowered terminate s) := by
  obtain ⟨i1, i2, i3, i4, i5, i6, i7, i8⟩ := hi
  have hne : s.scs ≠ .completedWithEvent := by
    intro hs; simp [reinitOK, hs] at hok
  unfold reinit
  cases lowered <;> cases terminate <;> refine ⟨?_, ?_, ?_, ?_, ?_, ?_, ?_, ?_⟩ <;> simp_all <;> grind

/-- `tRep` (ghost) is the report time of the call as soon as the call has taken an internal step -/
theorem loop_tRep {o : Opts T} {report sched : T} :
    ∀ (orc : List (Ans T)) (taken : Nat) (s : St T) {st : Status} {s' : St T} {rest : List (Ans T)},
      loop o report sched orc taken s = .ret st s' rest → (rest = orc ∧ s'.tRep = s.tRep) ∨ s'.tRep = report := by
  have hphase : ∀ (taken : Nat) (s s2 : St T), (∀ st, phase o report sched taken s = .ret st s2 → s2.tRep = s.tRep)
      ∧ (phase o report sched taken s = .advance s2 → s2.tRep = s.tRep) := by
    intro taken s s2
    constructor
    · intro st e
      unfold phase completedCase at e
      cases hs : s.scs <;> simp only [hs] at e <;> (try split_ifs at e) <;>
        first | (injection e with e1 e2; subst e2; rfl) | cases e
    · intro e
      unfold phase completedCase at e
      cases hs : s.scs <;> simp only [hs] at e <;> (try split_ifs at e) <;>
        first | (injection e with e1; subst e1; rfl) | cases e
  intro orc
  induction orc with
  | nil =>
    intro taken s st s' rest e
    unfold loop at e
    split at e
    · cases e
    · rename_i hp; injection e with e1 e2 e3; subst e1; subst e2; subst e3
      exact Or.inl ⟨rfl, (hphase taken s _).1 _ hp⟩
    · rename_i s2 hp
      have := (hphase taken s s2).2 hp
      split at e
      · injection e with e1 e2 e3; subst e2; subst e3; exact Or.inl ⟨rfl, this⟩
      · split at e
        · injection e with e1 e2 e3; subst e2; subst e3; exact Or.inl ⟨rfl, this⟩
        · cases e
  | cons a rest0 ih =>
    intro taken s st s' rest e
    unfold loop at e
    split at e
    · cases e
    · rename_i hp; injection e with e1 e2 e3; subst e1; subst e2; subst e3
      exact Or.inl ⟨rfl, (hphase taken s _).1 _ hp⟩
    · rename_i s2 hp
      have := (hphase taken s s2).2 hp
      split at e
      · injection e with e1 e2 e3; subst e2; subst e3; exact Or.inl ⟨rfl, this⟩
      · split at e
        · injection e with e1 e2 e3; subst e2; subst e3; exact Or.inl ⟨rfl, this⟩
        · split at e
          · rename_i hx; cases hx
          · rename_i a' r' hx
            injection hx with hx1 hx2; subst hx1; subst hx2
            split at e
            · rcases ih (taken + 1) _ e with ⟨_, q⟩ | q
              · right; rw [q]; rfl
              · exact Or.inr q
            · cases e

end C19
