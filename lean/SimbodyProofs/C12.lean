import SimbodyProofs.ForceLaws_lemmas
import SimbodyProofs.C37

/-!
# C12 — force elements' power matches their potential energy

For every element that reports a potential energy: `power = −(pe (lift x v)).eps + diss`, `diss ≤ 0`, and
`diss = 0` without damping.  `(pe (lift x v)).eps` is the time derivative of the *coded* potential energy
along the motion, computed with jets (`K[ε]/(ε²)`, DESIGN §1.3): poses are lifted by `Ṙ = [w]× R`, `ṗ = v`,
mobility coordinates by `q̇ = u` (the elements' documented domain of validity), `√` by its Taylor
coefficient under the guard `√· ≠ 0`.  Elements documented as not contributing potential energy get
`pe_is_zero`; pure dampers additionally `power ≤ 0`.
-/
set_option linter.unusedSectionVars false
namespace ForceLaws
open V3
variable {K : Type} [Field K]

/-! ### generic bookkeeping -/

theorem spf_neg_power (sG F : V3 K) (V : Vel K) :
    (SpF.mk (-(cross sG F)) (-F)).power V = -(dot F (V.v + cross V.w sG)) := by
  simp only [SpF.power, dot, cross, V3.add_x, V3.add_y, V3.add_z, V3.neg_x, V3.neg_y, V3.neg_z]; ring

/-- a pair of opposite forces `±F` applied at stations `s1`, `s2`: total power `F·(v1 − v2)` -/
theorem pair_power (X1 X2 : Pose K) (V1 V2 : Vel K) (s1 s2 F : V3 K) :
    (SpF.mk (cross (X1.R.mulVec s1) F) F).power V1 + (SpF.mk (-(cross (X2.R.mulVec s2) F)) (-F)).power V2
      = dot F (stationVel X1 V1 s1 - stationVel X2 V2 s2) := by
  rw [spf_power, spf_neg_power]
  simp only [stationVel, dot, V3.sub_x, V3.sub_y, V3.sub_z]; ring

/-! ### TwoPointLinearSpring -/

/-- the spring energy as a function of the two end points -/
def ptSpringPE {K : Type} [Sub K] [Mul K] [Div K] [Add K] [OfNat K 2] (sqrt : K → K) (k x0 : K) (P1 P2 : V3 K) : K :=
  let r := P2 - P1
  let d := sqrt (normSq r)
  k * (d - x0) * (d - x0) / 2

theorem tpSpringPE_eq_pt {K : Type} [Add K] [Sub K] [Mul K] [Neg K] [Div K] [OfNat K 2]
    (sqrt : K → K) (k x0 : K) (X1 X2 : Pose K) (s1 s2 : V3 K) :
    tpSpringPE sqrt k x0 X1 X2 s1 s2 = ptSpringPE sqrt k x0 (X1.apply s1) (X2.apply s2) := rfl

section ordered
variable [LinearOrder K] [IsStrictOrderedRing K]

theorem ptSpringPE_rate (sqrt : K → K) (k x0 : K) (P1 P2 v1 v2 : V3 K)
    (hd : sqrt (normSq (P2 - P1)) ≠ 0) :
    (ptSpringPE (Jet.sqrt sqrt) (Jet.const k) (Jet.const x0) (liftV3 P1 v1) (liftV3 P2 v2)).eps
      = k * (sqrt (normSq (P2 - P1)) - x0) / sqrt (normSq (P2 - P1)) * dot (P2 - P1) (v2 - v1) := by
  have hre : (normSq (liftV3 P2 v2 - liftV3 P1 v1)).re = normSq (P2 - P1) := by
    simp [normSq, dot, liftV3]
  have heps : (normSq (liftV3 P2 v2 - liftV3 P1 v1)).eps = 2 * dot (P2 - P1) (v2 - v1) := by
    simp [normSq, dot, liftV3]; ring
  simp only [ptSpringPE, Jet.div_eps, Jet.mul_eps, Jet.mul_re, Jet.sub_re, Jet.sub_eps, Jet.sqrt_re, Jet.sqrt_eps,
    Jet.const_re, Jet.const_eps, Jet.re_2, Jet.eps_2, hre, heps]
  generalize sqrt (normSq (P2 - P1)) = d at hd ⊢
  generalize dot (P2 - P1) (v2 - v1) = rv
  field_simp
  ring

/-- **TwoPointLinearSpring**: power = −d(PE)/dt exactly (no dissipation), whenever the stations are not coincident -/
theorem tpSpring_power_eq (sqrt : K → K) (k x0 : K) (X1 X2 : Pose K) (V1 V2 : Vel K) (s1 s2 : V3 K)
    (hd : sqrt (normSq (X2.apply s2 - X1.apply s1)) ≠ 0) :
    (tpSpringForce sqrt k x0 X1 X2 s1 s2).1.power V1 + (tpSpringForce sqrt k x0 X1 X2 s1 s2).2.power V2
      = -(tpSpringPE (Jet.sqrt sqrt) (Jet.const k) (Jet.const x0) (liftPose X1 V1) (liftPose X2 V2)
            (constV3 s1) (constV3 s2)).eps := by
  rw [tpSpringPE_eq_pt, liftPose_apply, liftPose_apply,
    ptSpringPE_rate sqrt k x0 _ _ _ _ hd]
  simp only [tpSpringForce]
  rw [pair_power]
  simp only [Pose.apply, dot, smul, V3.sub_x, V3.sub_y, V3.sub_z, V3.add_x, V3.add_y, V3.add_z]
  ring

/-- the force is the negative gradient: with `k (d − x0)` the documented tension, the power is
`−k (d−x0) ḋ`, `ḋ = r·ṙ/d` -/
theorem tpSpring_power_explicit (sqrt : K → K) (k x0 : K) (X1 X2 : Pose K) (V1 V2 : Vel K) (s1 s2 : V3 K) :
    (tpSpringForce sqrt k x0 X1 X2 s1 s2).1.power V1 + (tpSpringForce sqrt k x0 X1 X2 s1 s2).2.power V2
      = -(k * (sqrt (normSq (X2.apply s2 - X1.apply s1)) - x0) / sqrt (normSq (X2.apply s2 - X1.apply s1))
          * dot (X2.apply s2 - X1.apply s1) (stationVel X2 V2 s2 - stationVel X1 V1 s1)) := by
  simp only [tpSpringForce]
  rw [pair_power]
  simp only [Pose.apply, dot, smul, V3.sub_x, V3.sub_y, V3.sub_z, V3.add_x, V3.add_y, V3.add_z]
  ring

/-! ### pure dampers and constant forces: no potential energy; dampers never deliver power -/

/-- **TwoPointLinearDamper**: reports no potential energy and its power is `−c (ḋ)² ≤ 0` -/
theorem tpDamper_pe_is_zero_and_power_nonpos (sqrt : K → K) (c : K) (hc : 0 ≤ c) (X1 X2 : Pose K) (V1 V2 : Vel K)
    (s1 s2 : V3 K) :
    (tpDamperPE : K) = 0 ∧
    (tpDamperForce sqrt c X1 X2 V1 V2 s1 s2).1.power V1 + (tpDamperForce sqrt c X1 X2 V1 V2 s1 s2).2.power V2 ≤ 0 := by
  refine ⟨rfl, ?_⟩
  simp only [tpDamperForce]
  rw [pair_power]
  generalize sqrt _ = n
  generalize stationVel X1 V1 s1 = v1
  generalize stationVel X2 V2 s2 = v2
  generalize X2.p + X2.R.mulVec s2 - (X1.p + X1.R.mulVec s1) = r
  have e : dot (smul (c * dot (v2 - v1) (divS r n)) (divS r n)) (v1 - v2)
      = -(c * (dot (v2 - v1) (divS r n) * dot (v2 - v1) (divS r n))) := by
    simp only [dot, smul, divS, V3.sub_x, V3.sub_y, V3.sub_z]; ring
  rw [e]
  have := mul_nonneg hc (mul_self_nonneg (dot (v2 - v1) (divS r n)))
  linarith

omit [LinearOrder K] [IsStrictOrderedRing K] in
theorem constant_elements_pe_is_zero :
    (tpConstPE : K) = 0 ∧ (constForcePE : K) = 0 ∧ (constTorquePE : K) = 0 ∧ (mobConstPE : K) = 0 :=
  ⟨rfl, rfl, rfl, rfl⟩

/-- **MobilityLinearDamper**: no potential energy, power `−c u² ≤ 0` -/
theorem mobDamper_pe_is_zero_and_power_nonpos (c u : K) (hc : 0 ≤ c) :
    (mobDamperPE : K) = 0 ∧ mobDamperForce c u * u ≤ 0 := by
  refine ⟨rfl, ?_⟩
  have := mul_nonneg hc (mul_self_nonneg u)
  simp only [mobDamperForce]; nlinarith

/-- **GlobalDamper**: no potential energy, power `−c Σ uᵢ² ≤ 0` -/
theorem globalDamper_pe_is_zero_and_power_nonpos (c : K) (hc : 0 ≤ c) (u : List K) :
    (globalDamperPE : K) = 0 ∧ mobPower (globalDamperForce c u) u ≤ 0 := by
  refine ⟨rfl, ?_⟩
  induction u with
  | nil => simp [globalDamperForce, mobPower]
  | cons a t ih =>
    simp only [globalDamperForce, List.map_cons, mobPower] at ih ⊢
    have := mul_nonneg hc (mul_self_nonneg a)
    nlinarith

/-! ### mobility spring and stop (coordinates with `q̇ = u`) -/

omit [LinearOrder K] [IsStrictOrderedRing K] in
/-- **MobilityLinearSpring**: generalized force × speed = −d(PE)/dt, no dissipation -/
theorem mobSpring_power_eq (k q0 q u : K) (h2 : (2 : K) ≠ 0) :
    mobSpringForce k q0 q * u = -(mobSpringPE (Jet.const k) (Jet.const q0) (⟨q, u⟩ : Jet K)).eps := by
  simp only [mobSpringForce, mobSpringPE, Jet.div_eps, Jet.mul_eps, Jet.mul_re, Jet.sub_re, Jet.sub_eps,
    Jet.const_re, Jet.const_eps, Jet.re_2, Jet.eps_2]
  field_simp
  ring

/-- dissipation term of the stop: `power + d(PE)/dt` -/
def mobStopDiss (k d qLow qHigh q qdot : K) : K :=
  mobStopForce k d qLow qHigh q qdot * qdot
    + (mobStopPE (Jet.const k) (Jet.const qLow) (Jet.const qHigh) (⟨q, qdot⟩ : Jet K)).eps

/-- value of `d(PE)/dt` of the stop -/
theorem mobStopPE_rate (k qLow qHigh q qdot : K) :
    (mobStopPE (Jet.const k) (Jet.const qLow) (Jet.const qHigh) (⟨q, qdot⟩ : Jet K)).eps
      = if ¬ (k < 0) ∧ ¬ (0 < k) then 0 else if qHigh < q then k * (q - qHigh) * qdot
        else if q < qLow then k * (q - qLow) * qdot else 0 := by
  unfold mobStopPE
  simp only [Jet.lt_iff, Jet.const_re, Jet.re_0]
  split_ifs <;> simp <;> field_simp <;> ring

/-- closed form of the stop's dissipation term -/
theorem mobStopDiss_eq (k d qLow qHigh q qdot : K) (hk : 0 < k) :
    mobStopDiss k d qLow qHigh q qdot =
      if qHigh < q then (if -(k * (q - qHigh) * (1 + d * qdot)) < 0 then -(k * (q - qHigh) * d * (qdot * qdot))
                        else k * (q - qHigh) * qdot)
      else if q < qLow then (if 0 < -(k * (q - qLow) * (1 - d * qdot)) then k * (q - qLow) * d * (qdot * qdot)
                        else k * (q - qLow) * qdot)
      else 0 := by
  have hk0 : ¬ (¬ (k < 0) ∧ ¬ (0 < k)) := fun h => h.2 hk
  unfold mobStopDiss
  rw [mobStopPE_rate]
  simp only [mobStopForce, if_neg hk0, kmin, kmax]
  by_cases hd : ¬ (d < 0) ∧ ¬ (0 < d)
  · have hd0 : d = 0 := le_antisymm (not_lt.mp hd.2) (not_lt.mp hd.1)
    subst hd0
    simp only [if_pos hd, mul_zero, zero_mul, add_zero, sub_zero, mul_one]
    split_ifs <;> ring
  · simp only [if_neg hd]
    split_ifs <;> ring

/-- **MobilityLinearStop**: `power = −d(PE)/dt + diss` with `diss ≤ 0` -/
theorem mobStop_diss_nonpos (k d qLow qHigh q qdot : K) (hk : 0 ≤ k) (hd : 0 ≤ d) :
    mobStopDiss k d qLow qHigh q qdot ≤ 0 := by
  rcases eq_or_lt_of_le hk with hk0 | hkpos
  · subst hk0
    unfold mobStopDiss
    rw [mobStopPE_rate]
    simp [mobStopForce]
  rw [mobStopDiss_eq _ _ _ _ _ _ hkpos]
  split_ifs with h1 h2 h3 h4
  · have hx : 0 < k * (q - qHigh) := mul_pos hkpos (sub_pos.mpr h1)
    have := mul_nonneg (mul_nonneg hx.le hd) (mul_self_nonneg qdot)
    linarith
  · -- no force: 1 + d q̇ ≤ 0, so q̇ < 0
    have hx : 0 < k * (q - qHigh) := mul_pos hkpos (sub_pos.mpr h1)
    have h5 : k * (q - qHigh) * (1 + d * qdot) ≤ 0 := by linarith [not_lt.mp h2]
    have h6 : 1 + d * qdot ≤ 0 := by
      by_contra hc
      have := mul_pos hx (not_le.mp hc); linarith
    have hq : qdot ≤ 0 := by
      by_contra hc
      have := mul_nonneg hd (not_le.mp hc).le; linarith
    nlinarith
  · have hx : k * (q - qLow) < 0 := mul_neg_of_pos_of_neg hkpos (sub_neg.mpr h3)
    have := mul_nonneg (mul_nonneg (neg_nonneg.mpr hx.le) hd) (mul_self_nonneg qdot)
    nlinarith
  · have hx : k * (q - qLow) < 0 := mul_neg_of_pos_of_neg hkpos (sub_neg.mpr h3)
    have h5 : 0 ≤ k * (q - qLow) * (1 - d * qdot) := by linarith [not_lt.mp h4]
    have h6 : 1 - d * qdot ≤ 0 := by
      by_contra hc
      have := mul_neg_of_neg_of_pos hx (not_le.mp hc); linarith
    have hq : 0 ≤ qdot := by
      by_contra hc
      have := mul_nonneg hd (neg_nonneg.mpr (not_le.mp hc).le); linarith
    nlinarith
  · exact le_refl _

/-- … and `diss = 0` when the stop has no dissipation (`d = 0`) -/
theorem mobStop_diss_zero_of_undamped (k qLow qHigh q qdot : K) (hk : 0 ≤ k) :
    mobStopDiss k 0 qLow qHigh q qdot = 0 := by
  rcases eq_or_lt_of_le hk with hk0 | hkpos
  · subst hk0
    unfold mobStopDiss
    rw [mobStopPE_rate]
    simp [mobStopForce]
  rw [mobStopDiss_eq _ _ _ _ _ _ hkpos]
  split_ifs with h1 h2 h3 h4
  · ring
  · exfalso
    have hx : 0 < k * (q - qHigh) := mul_pos hkpos (sub_pos.mpr h1)
    apply h2; simp only [zero_mul, add_zero, mul_one]; linarith
  · ring
  · exfalso
    have hx : k * (q - qLow) < 0 := mul_neg_of_pos_of_neg hkpos (sub_neg.mpr h3)
    apply h4; simp only [zero_mul, sub_zero, mul_one]; linarith
  · rfl

example : mobStopDiss (2 : ℚ) 1 (-1) 1 2 3 = -18 := by
  rw [mobStopDiss_eq _ _ _ _ _ _ (by norm_num)]; norm_num

/-! ### gravity -/

/-- total power of a list of body forces on bodies moving with the listed velocities -/
def powerList : List (SpF K) → List (Vel K) → K
  | F :: Fs, V :: Vs => F.power V + powerList Fs Vs
  | _, _ => 0

/-- a body moving with spatial velocity `V` (mass properties constant in the body frame) -/
def liftGBody (b : GBody K) (V : Vel K) : GBody (Jet K) :=
  ⟨Jet.const b.mass, constV3 b.com, liftPose b.X V, b.immune⟩

omit [LinearOrder K] [IsStrictOrderedRing K] in
theorem dot_const_lift (g P v : V3 K) :
    (dot (constV3 g) (liftV3 P v)).re = dot g P ∧ (dot (constV3 g) (liftV3 P v)).eps = dot g v := by
  constructor <;> simp [dot, constV3, liftV3]

omit [LinearOrder K] [IsStrictOrderedRing K] in
theorem uniformGravity_fold_eps (g : V3 K) (gm z : K) (bv : List (GBody K × Vel K)) (acc : Jet K) :
    ((bv.map fun p => liftGBody p.1 p.2).foldl (fun pe b =>
        pe - b.mass * (dot (constV3 g) (b.X.p + b.X.R.mulVec b.com) + Jet.const gm * Jet.const z)) acc).eps
      = acc.eps - powerList (uniformGravityForce g (bv.map Prod.fst)) (bv.map Prod.snd) := by
  induction bv generalizing acc with
  | nil => simp [powerList, uniformGravityForce]
  | cons p t ih =>
    simp only [List.map_cons, List.foldl_cons, uniformGravityForce, powerList] at ih ⊢
    rw [ih]
    have e : (liftGBody p.1 p.2).X.p + (liftGBody p.1 p.2).X.R.mulVec (liftGBody p.1 p.2).com
        = liftV3 (p.1.X.apply p.1.com) (stationVel p.1.X p.2 p.1.com) := liftPose_apply p.1.X p.2 p.1.com
    rw [e, spf_power]
    simp only [Jet.sub_eps, Jet.mul_eps, Jet.add_eps, Jet.add_re, Jet.const_re, Jet.const_eps,
      (dot_const_lift g _ _).1, (dot_const_lift g _ _).2, liftGBody]
    simp only [stationVel, dot, smul, V3.add_x, V3.add_y, V3.add_z]
    ring

omit [LinearOrder K] [IsStrictOrderedRing K] in
/-- **UniformGravity**: total power of the body forces = −d(PE)/dt, no dissipation; any number of bodies -/
theorem uniformGravity_power_eq (g : V3 K) (gm z : K) (bv : List (GBody K × Vel K)) :
    powerList (uniformGravityForce g (bv.map Prod.fst)) (bv.map Prod.snd)
      = -(uniformGravityPE (constV3 g) (Jet.const gm) (Jet.const z) (bv.map fun p => liftGBody p.1 p.2)).eps := by
  unfold uniformGravityPE
  rw [uniformGravity_fold_eps]
  simp

theorem gravity_fold_eps (d : V3 K) (g z : K) (hg : ¬ (¬ (g < 0) ∧ ¬ (0 < g))) (bv : List (GBody K × Vel K)) (acc : Jet K) :
    ((bv.map fun p => liftGBody p.1 p.2).foldl (fun pe b =>
        if b.immune then pe else
        pe - b.mass * (dot (smul (Jet.const g) (constV3 d)) (b.X.p + b.X.R.mulVec b.com) + Jet.const g * Jet.const z)) acc).eps
      = acc.eps - powerList (gravityForce d g (bv.map Prod.fst)) (bv.map Prod.snd) := by
  induction bv generalizing acc with
  | nil => simp [powerList, gravityForce]
  | cons p t ih =>
    simp only [gravityForce, if_neg hg] at ih ⊢
    simp only [List.map_cons, List.foldl_cons, powerList]
    rw [ih]
    by_cases him : p.1.immune = true
    · simp [liftGBody, him, SpF.power, dot]
    · have e : (liftGBody p.1 p.2).X.p + (liftGBody p.1 p.2).X.R.mulVec (liftGBody p.1 p.2).com
          = liftV3 (p.1.X.apply p.1.com) (stationVel p.1.X p.2 p.1.com) := liftPose_apply p.1.X p.2 p.1.com
      have him' : (liftGBody p.1 p.2).immune = false := by simpa [liftGBody] using him
      simp only [him', Bool.false_eq_true, if_false, e]
      have him2 : p.1.immune = false := by simpa using him
      simp only [him2, Bool.false_eq_true, if_false]
      rw [spf_power]
      have sm : smul (Jet.const g) (constV3 d) = constV3 (smul g d) := by
        apply V3.ext' <;> apply Jet.ext' <;> simp [smul, constV3]
      rw [sm]
      simp only [Jet.sub_eps, Jet.mul_eps, Jet.mul_re, Jet.add_eps, Jet.add_re, Jet.const_re, Jet.const_eps,
        (dot_const_lift (smul g d) _ _).1, (dot_const_lift (smul g d) _ _).2, liftGBody]
      simp only [stationVel, dot, smul, V3.add_x, V3.add_y, V3.add_z]
      ring

/-- **Gravity** (with exclusions and the `g = 0` shortcut): total power = −d(PE)/dt, no dissipation -/
theorem gravity_power_eq (d : V3 K) (g z : K) (bv : List (GBody K × Vel K)) :
    powerList (gravityForce d g (bv.map Prod.fst)) (bv.map Prod.snd)
      = -(gravityPE (constV3 d) (Jet.const g) (Jet.const z) (bv.map fun p => liftGBody p.1 p.2)).eps := by
  by_cases hg : ¬ (g < 0) ∧ ¬ (0 < g)
  · have hz : ∀ l : List (GBody K × Vel K),
        powerList ((l.map Prod.fst).map (fun _ => (SpF.zero : SpF K))) (l.map Prod.snd) = 0 := by
      intro l; induction l with
      | nil => rfl
      | cons a t ih => simp only [List.map_cons, powerList, ih]; simp [SpF.power, dot]
    unfold gravityPE gravityForce
    simp only [Jet.lt_iff, Jet.const_re, Jet.re_0, if_pos hg, hz]
    simp
  · unfold gravityPE
    simp only [Jet.lt_iff, Jet.const_re, Jet.re_0, if_neg hg]
    rw [gravity_fold_eps d g z hg]
    simp

/-! ### linear bushing: the body forces do exactly the virtual work of the documented generalized forces -/

omit [LinearOrder K] [IsStrictOrderedRing K] in
/-- **LinearBushing**, principle of virtual work: for every motion of the two bodies the power of the applied
body forces equals `Σ fᵢ q̇ᵢ` with `q̇` the coded coordinate rates (any `N`, any frames; only `R_GF` is used as a
rotation) -/
theorem bushing_power_virtual_work (X1 X2 : Pose K) (V1 V2 : Vel K) (XF XM : Pose K) (k c : Vec6 K) (qr cq sq : V3 K)
    (h : (X1.comp XF).R.IsOrtho) :
    (bushing X1 X2 V1 V2 XF XM k c qr cq sq).F_GB1.power V1 + (bushing X1 X2 V1 V2 XF XM k c qr cq sq).F_GB2.power V2
      = Vec6.dot (bushing X1 X2 V1 V2 XF XM k c qr cq sq).f (bushing X1 X2 V1 V2 XF XM k c qr cq sq).qdot := by
  set o := bushing X1 X2 V1 V2 XF XM k c qr cq sq with ho
  set A := (X1.comp XF).R with hA
  set B := (X2.comp XM).R with hB
  set N := bushingN cq sq with hN
  set pB1F := X1.R.mulVec XF.p with hp1
  set pB2M := X2.R.mulVec XM.p with hp2
  set pFM := A.mulVec o.X_FM.p with hp3
  set m := B.mulVec (N.tmulVec o.f.r) with hm
  set f := A.mulVec o.f.t with hf
  have hF2 : o.F_GB2 = ⟨m + cross pB2M f, f⟩ := rfl
  have hF1 : o.F_GB1 = ⟨-(m + cross pFM f) + cross pB1F (-f), -f⟩ := rfl
  have hqt : o.qdot.t = A.tmulVec ((V2.v + cross V2.w pB2M) - (V1.v + cross V1.w pB1F) - cross V1.w pFM) := rfl
  have hqr : o.qdot.r = N.mulVec (B.tmulVec (V2.w - V1.w)) := by
    have : o.qdot.r = N.mulVec (M33.tmulVec (A.transpose.mul B) (A.tmulVec (V2.w - V1.w))) := rfl
    rw [this, tmulVec_mul, transpose_tmulVec, M33.mulVec_tmulVec A h]
  have e1 : dot o.f.r o.qdot.r = dot m (V2.w - V1.w) := by
    rw [hqr, dot_comm', dot_mulVec, dot_comm', dot_tmulVec]
  have e2 : dot o.f.t o.qdot.t = dot f ((V2.v + cross V2.w pB2M) - (V1.v + cross V1.w pB1F) - cross V1.w pFM) := by
    rw [hqt, dot_tmulVec]
  rw [Vec6.dot, e1, e2, hF1, hF2]
  simp only [SpF.power, dot, cross, V3.add_x, V3.add_y, V3.add_z, V3.sub_x, V3.sub_y, V3.sub_z, V3.neg_x, V3.neg_y, V3.neg_z]
  ring

omit [LinearOrder K] [IsStrictOrderedRing K] in
/-- `Σ fᵢ q̇ᵢ = −Σ kᵢ qᵢ q̇ᵢ − Σ cᵢ q̇ᵢ²` : minus the rate of the documented energy `Σ kᵢqᵢ²/2` along `q̇`, minus the
documented dissipation rate -/
theorem bushing_fdotqdot (k c q qdot : Vec6 K) (h2 : (2 : K) ≠ 0) :
    Vec6.dot (docBushingF k c q qdot) qdot
      = -(docBushingPE (⟨constV3 k.r, constV3 k.t⟩ : Vec6 (Jet K)) ⟨liftV3 q.r qdot.r, liftV3 q.t qdot.t⟩).eps
        - docBushingPower c qdot := by
  simp only [Vec6.dot, docBushingF, docBushingPE, docBushingPower, dot, constV3, liftV3, Jet.add_eps, Jet.div_eps,
    Jet.mul_eps, Jet.mul_re, Jet.re_2, Jet.eps_2]
  field_simp
  ring

/-- **LinearBushing**: `power = −d(PE)/dt + diss`, `diss = −Σ cᵢ q̇ᵢ² ≤ 0`, zero without damping.
`d(PE)/dt` is the rate of the coded energy with the coordinates `q` moving at the coded rates `q̇`
(that `q̇ = N·ω` *is* the rate of the Euler angles of `R_FM` is the kinematic fact of C28/C05, not re-proved here). -/
theorem bushing_power_eq (X1 X2 : Pose K) (V1 V2 : Vel K) (XF XM : Pose K) (k c : Vec6 K) (qr cq sq : V3 K)
    (h : (X1.comp XF).R.IsOrtho) :
    let o := bushing X1 X2 V1 V2 XF XM k c qr cq sq
    o.F_GB1.power V1 + o.F_GB2.power V2
      = -(docBushingPE (⟨constV3 k.r, constV3 k.t⟩ : Vec6 (Jet K)) ⟨liftV3 o.q.r o.qdot.r, liftV3 o.q.t o.qdot.t⟩).eps
        - docBushingPower c o.qdot
    ∧ (0 ≤ c.r.x → 0 ≤ c.r.y → 0 ≤ c.r.z → 0 ≤ c.t.x → 0 ≤ c.t.y → 0 ≤ c.t.z → -docBushingPower c o.qdot ≤ 0)
    ∧ (c = ⟨V3.zero, V3.zero⟩ → docBushingPower c o.qdot = 0)
    ∧ o.pe = docBushingPE k o.q := by
  intro o
  refine ⟨?_, ?_, ?_, by simp only [o, bushing, docBushingPE]; ring⟩
  · rw [bushing_power_virtual_work _ _ _ _ _ _ _ _ _ _ _ h]
    have hf : o.f = docBushingF k c o.q o.qdot := by
      simp only [o, bushing, docBushingF]
      apply Vec6.ext' <;> apply V3.ext' <;> simp
    rw [show (bushing X1 X2 V1 V2 XF XM k c qr cq sq) = o from rfl, hf]
    exact bushing_fdotqdot k c o.q o.qdot two_ne_zero
  · intro h1 h2 h3 h4 h5 h6
    simp only [docBushingPower]
    have := mul_nonneg h1 (mul_self_nonneg o.qdot.r.x)
    have := mul_nonneg h2 (mul_self_nonneg o.qdot.r.y)
    have := mul_nonneg h3 (mul_self_nonneg o.qdot.r.z)
    have := mul_nonneg h4 (mul_self_nonneg o.qdot.t.x)
    have := mul_nonneg h5 (mul_self_nonneg o.qdot.t.y)
    have := mul_nonneg h6 (mul_self_nonneg o.qdot.t.z)
    linarith
  · intro hc; subst hc; simp [docBushingPower]

/-! ### compliant contacts (at fixed contact geometry: the penetration `x` changes at the approach speed along the
normal; the motion of the contact point over the surfaces is C35's subject) -/

omit [LinearOrder K] [IsStrictOrderedRing K] in
/-- power of `∓F` applied to two bodies at the same Ground point -/
theorem pair_at_point_power (X1 X2 : Pose K) (V1 V2 : Vel K) (loc F : V3 K) :
    (applyForceToBodyPoint X1 (X1.invApply loc) (-F)).power V1 + (applyForceToBodyPoint X2 (X2.invApply loc) F).power V2
      = -(dot F (stationVel X1 V1 (X1.invApply loc) - stationVel X2 V2 (X2.invApply loc))) := by
  simp only [applyForceToBodyPoint, applyAt_power, stationVel, dot, V3.sub_x, V3.sub_y, V3.sub_z, V3.add_x, V3.add_y,
    V3.add_z, V3.neg_x, V3.neg_y, V3.neg_z]
  ring

/-- scalar core shared by the Hunt–Crossley-type laws `f = A (1 + γ v)`, `dPE/dt = A v`: the dissipation term
`power + dPE/dt` is `≤ 0` both when the force is applied and when it is suppressed (`f ≤ 0`, "yanking") -/
theorem contact_diss_nonpos (A γ vn fr : K) (hA : 0 ≤ A) (hγ : 0 ≤ γ) (hfr : 0 ≤ fr) :
    (A * (1 + γ * vn) ≤ 0 → A * vn ≤ 0) ∧ (-(A * (1 + γ * vn) * vn + fr) + A * vn ≤ 0) := by
  constructor
  · intro h
    rcases eq_or_lt_of_le hA with h0 | hpos
    · rw [← h0]; simp
    · have h1 : 1 + γ * vn ≤ 0 := by
        by_contra hc; have := mul_pos hpos (not_le.mp hc); linarith
      have hv : vn ≤ 0 := by
        by_contra hc; have := mul_nonneg hγ (not_le.mp hc).le; linarith
      exact mul_nonpos_of_nonneg_of_nonpos hA hv
  · have : 0 ≤ A * γ * (vn * vn) := mul_nonneg (mul_nonneg hA hγ) (mul_self_nonneg vn)
    nlinarith

/-- Hertz energy as a function of the penetration -/
def hertzPEofDepth {K : Type} [Mul K] [Div K] [OfNat K 2] [OfNat K 3] [OfNat K 4] [OfNat K 5]
    (sqrt : K → K) (k R x : K) : K := 2 / 5 * (4 / 3 * k * x * sqrt (R * k * x)) * x

/-- `d/dt (2/5 fH x) = fH ẋ` -/
theorem hertzPE_rate (sqrt : K → K) (hs : SqrtSpec sqrt) (k R x xd : K) (hx : 0 ≤ R * k * x) (hne : sqrt (R * k * x) ≠ 0) :
    (hertzPEofDepth (Jet.sqrt sqrt) (Jet.const k) (Jet.const R) (⟨x, xd⟩ : Jet K)).eps
      = 4 / 3 * k * x * sqrt (R * k * x) * xd := by
  have hsq := hs.sq _ hx
  simp only [hertzPEofDepth, Jet.mul_eps, Jet.mul_re, Jet.div_eps, Jet.div_re, Jet.sqrt_re, Jet.sqrt_eps, Jet.const_re,
    Jet.const_eps, Jet.re_2, Jet.eps_2, Jet.re_3, Jet.eps_3, Jet.re_4, Jet.eps_4, Jet.re_5, Jet.eps_5]
  generalize sqrt (R * k * x) = s at hsq hne ⊢
  field_simp
  linear_combination (-(60 : K) * x * k * xd) * hsq

/-- **HuntCrossleyForce**, one contact: `power = −d(PE)/dt + diss`, `diss ≤ 0`; here
`d(PE)/dt = fH·vnormal` (`hertzPE_rate`) and `power + fH·vnormal` is the dissipation term -/
theorem hc_power_eq (sqrt : K → K) (hs : SqrtSpec sqrt) (vt : K) (hvt : 0 < vt) (h : HCContact K)
    (hn : normSq h.c.normal = 1)
    (hk : 0 ≤ h.p1.stiffness * (h.p2.stiffness / (h.p1.stiffness + h.p2.stiffness))) (hx : 0 ≤ h.c.depth)
    (hc : 0 ≤ h.p1.dissipation * (h.p2.stiffness / (h.p1.stiffness + h.p2.stiffness))
              + h.p2.dissipation * (1 - h.p2.stiffness / (h.p1.stiffness + h.p2.stiffness)))
    (hud : 0 ≤ combineMu h.p1.ud h.p2.ud) (hus : combineMu h.p1.ud h.p2.ud ≤ combineMu h.p1.us h.p2.us)
    (huv : 0 ≤ combineMu h.p1.uv h.p2.uv) :
    let o := hcContact sqrt vt h
    (o.F1.power h.V1 + o.F2.power h.V2) + o.fH * o.vnormal ≤ 0
    ∧ o.pe = hertzPEofDepth sqrt (h.p1.stiffness * (h.p2.stiffness / (h.p1.stiffness + h.p2.stiffness))) h.c.radius h.c.depth := by
  refine ⟨?_, ?_⟩
  · simp only [hcContact]
    generalize hγ : (h.p1.dissipation * (h.p2.stiffness / (h.p1.stiffness + h.p2.stiffness))
              + h.p2.dissipation * (1 - h.p2.stiffness / (h.p1.stiffness + h.p2.stiffness)) : K) = γ at hc ⊢
    generalize hA : (4 / 3 * (h.p1.stiffness * (h.p2.stiffness / (h.p1.stiffness + h.p2.stiffness))) * h.c.depth
      * sqrt (h.c.radius * (h.p1.stiffness * (h.p2.stiffness / (h.p1.stiffness + h.p2.stiffness))) * h.c.depth) : K) = A
    have hA0 : 0 ≤ A := by
      rw [← hA]
      exact mul_nonneg (mul_nonneg (mul_nonneg (by norm_num) hk) hx) (hs.nonneg _)
    generalize hloc : (h.c.location + smul (h.c.depth * (1 / 2 - h.p2.stiffness / (h.p1.stiffness + h.p2.stiffness))) h.c.normal : V3 K) = loc
    generalize hv : (stationVel h.X1 h.V1 (h.X1.invApply loc) - stationVel h.X2 h.V2 (h.X2.invApply loc) : V3 K) = v
    have hγ' : 0 ≤ 3 / 2 * γ := mul_nonneg (by norm_num) hc
    have core := contact_diss_nonpos A (3 / 2 * γ) (dot v h.c.normal)
    split_ifs with h1 h2
    · dsimp only
      have hz : (SpF.zero : SpF K).power h.V1 + (SpF.zero : SpF K).power h.V2 = 0 := by simp [SpF.power, dot]
      rw [hz, zero_add]
      exact (core 0 hA0 hγ' (le_refl _)).1 h1
    · dsimp only
      rw [pair_at_point_power, hv]
      generalize hN : normSq (v - smul (dot v h.c.normal) h.c.normal) = N at h2 ⊢
      have hN0 : 0 ≤ N := hN ▸ normSq_nonneg _
      have hmu := (hollars_bounds (combineMu h.p1.us h.p2.us) (combineMu h.p1.ud h.p2.ud) (combineMu h.p1.uv h.p2.uv)
        (sqrt N / vt) (sqrt N) hud hus huv (div_nonneg (hs.nonneg _) hvt.le) (hs.nonneg _)).1
      have hs0 := hs.nonneg N
      generalize sqrt N = s at hmu hs0 h2 ⊢
      generalize hollars (K := K) _ _ _ _ _ = muv at hmu ⊢
      have hF : 0 ≤ A * (1 + 3 / 2 * γ * dot v h.c.normal) := (not_le.mp h1).le
      have hfn : dot (divS (smul (A * (1 + 3 / 2 * γ * dot v h.c.normal) * muv) (v - smul (dot v h.c.normal) h.c.normal)) s) h.c.normal = 0 := by
        rw [fric_dot, tangent_dot_normal _ _ hn, mul_zero]
      have hfr : 0 ≤ dot (divS (smul (A * (1 + 3 / 2 * γ * dot v h.c.normal) * muv) (v - smul (dot v h.c.normal) h.c.normal)) s)
          (v - smul (dot v h.c.normal) h.c.normal) := by
        rw [fric_dot]
        have : dot (v - smul (dot v h.c.normal) h.c.normal) (v - smul (dot v h.c.normal) h.c.normal) = N := hN
        rw [this]
        exact mul_nonneg (div_nonneg (mul_nonneg hF hmu) hs0) hN0
      generalize divS _ s = fr at hfn hfr ⊢
      have e : dot (smul (A * (1 + 3 / 2 * γ * dot v h.c.normal)) h.c.normal + fr) v
          = A * (1 + 3 / 2 * γ * dot v h.c.normal) * dot v h.c.normal + dot fr (v - smul (dot v h.c.normal) h.c.normal) := by
        simp only [dot, smul, V3.add_x, V3.add_y, V3.add_z, V3.sub_x, V3.sub_y, V3.sub_z] at hfn ⊢
        linear_combination (v.x * h.c.normal.x + v.y * h.c.normal.y + v.z * h.c.normal.z) * hfn
      rw [e]
      have := (core _ hA0 hγ' hfr).2
      linarith [this]
    · dsimp only
      rw [pair_at_point_power, hv]
      have e : dot (smul (A * (1 + 3 / 2 * γ * dot v h.c.normal)) h.c.normal + V3.zero) v
          = A * (1 + 3 / 2 * γ * dot v h.c.normal) * dot v h.c.normal := by
        simp only [dot, smul, V3.add_x, V3.add_y, V3.add_z, V3.zero_x, V3.zero_y, V3.zero_z]; ring
      rw [e]
      have := (core 0 hA0 hγ' (le_refl _)).2
      linarith [this]
  · simp only [hcContact, hertzPEofDepth]
    split_ifs <;> ring

omit [LinearOrder K] [IsStrictOrderedRing K] in
theorem pair_at_point_power_flip (X1 X2 : Pose K) (V1 V2 : Vel K) (loc F : V3 K) :
    (applyForceToBodyPoint X1 (X1.invApply loc) F).power V1 + (applyForceToBodyPoint X2 (X2.invApply loc) (-F)).power V2
      = -(dot F (stationVel X2 V2 (X2.invApply loc) - stationVel X1 V1 (X1.invApply loc))) := by
  simp only [applyForceToBodyPoint, applyAt_power, stationVel, dot, V3.sub_x, V3.sub_y, V3.sub_z, V3.add_x, V3.add_y,
    V3.add_z, V3.neg_x, V3.neg_y, V3.neg_z]
  ring

/-- **ElasticFoundationForce**, one spring: with `x` the displacement and `vnormal` its rate,
`d(PE)/dt = k a x·vnormal` (`PE = k a x²/2`) and `power + k a x·vnormal ≤ 0` -/
theorem ef_power_eq (sqrt : K → K) (hs : SqrtSpec sqrt) (vt : K) (hvt : 0 < vt) (P : EFParams K) (area : K) (np sp : V3 K)
    (X1 X2 : Pose K) (V1 V2 : Vel K) (hk : 0 ≤ P.stiffness) (ha : 0 ≤ area) (hc : 0 ≤ P.dissipation)
    (hud : 0 ≤ P.ud) (hus : P.ud ≤ P.us) (huv : 0 ≤ P.uv) :
    let o := efSpring sqrt vt P area np sp X1 X2 V1 V2
    (o.F1.power V1 + o.F2.power V2) + P.stiffness * area * o.x * o.vnormal ≤ 0
    ∧ o.pe = P.stiffness * area * (o.x * o.x) / 2 := by
  have hsq := hs.sq _ (normSq_nonneg (np - sp))
  have hs0 := hs.nonneg (normSq (np - sp))
  have hz : (SpF.zero : SpF K).power V1 + (SpF.zero : SpF K).power V2 = 0 := by simp [SpF.power, dot]
  simp only [efSpring]
  by_cases h1 : ¬ (sqrt (normSq (np - sp)) < 0) ∧ ¬ (0 < sqrt (normSq (np - sp)))
  · have h0 : sqrt (normSq (np - sp)) = 0 := le_antisymm (not_lt.mp h1.2) (not_lt.mp h1.1)
    simp only [if_pos h1]
    rw [hz, h0]; simp
  · simp only [if_neg h1]
    have hne : sqrt (normSq (np - sp)) ≠ 0 := by
      intro h; apply h1; rw [h]; exact ⟨lt_irrefl _, lt_irrefl _⟩
    have hunit := normSq_divS (np - sp) _ hsq hne
    refine ⟨?_, by rw [hsq]⟩
    generalize divS (np - sp) (sqrt (normSq (np - sp))) = n at hunit ⊢
    generalize hv : stationVel X2 V2 (X2.invApply np) - stationVel X1 V1 (X1.invApply np) = v
    have hA0 : 0 ≤ P.stiffness * area * sqrt (normSq (np - sp)) := mul_nonneg (mul_nonneg hk ha) hs0
    generalize P.stiffness * area * sqrt (normSq (np - sp)) = A at hA0 ⊢
    have core := contact_diss_nonpos A P.dissipation (dot v n)
    generalize hN : normSq (v - smul (dot v n) n) = N
    have hN0 : 0 ≤ N := hN ▸ normSq_nonneg _
    have hmu := (hollars_bounds P.us P.ud P.uv (sqrt N / vt) (sqrt N) hud hus huv
      (div_nonneg (hs.nonneg _) hvt.le) (hs.nonneg _)).1
    have hsn := hs.nonneg N
    generalize sqrt N = s at hmu hsn ⊢
    generalize hollars (K := K) _ _ _ _ _ = muv at hmu ⊢
    by_cases hf : 0 < A * (1 + P.dissipation * dot v n)
    · by_cases hsl : s < 0 ∨ 0 < s
      · have hcnd : 0 < A * (1 + P.dissipation * dot v n) ∧ (s < 0 ∨ 0 < s) := ⟨hf, hsl⟩
        simp only [if_pos hcnd, if_pos hf]
        rw [pair_at_point_power_flip, hv]
        have hfn : dot (divS (smul (A * (1 + P.dissipation * dot v n) * muv) (v - smul (dot v n) n)) s) n = 0 := by
          rw [fric_dot, tangent_dot_normal _ _ hunit, mul_zero]
        have hfr : 0 ≤ dot (divS (smul (A * (1 + P.dissipation * dot v n) * muv) (v - smul (dot v n) n)) s) (v - smul (dot v n) n) := by
          rw [fric_dot]
          have : dot (v - smul (dot v n) n) (v - smul (dot v n) n) = N := hN
          rw [this]
          exact mul_nonneg (div_nonneg (mul_nonneg hf.le hmu) hsn) hN0
        generalize divS _ s = fr at hfn hfr ⊢
        have e : dot (smul (A * (1 + P.dissipation * dot v n)) n + fr) v
            = A * (1 + P.dissipation * dot v n) * dot v n + dot fr (v - smul (dot v n) n) := by
          simp only [dot, smul, V3.add_x, V3.add_y, V3.add_z, V3.sub_x, V3.sub_y, V3.sub_z] at hfn ⊢
          linear_combination (v.x * n.x + v.y * n.y + v.z * n.z) * hfn
        rw [e]
        have := (core _ hA0 hc hfr).2
        linarith [this]
      · have hcnd : ¬ (0 < A * (1 + P.dissipation * dot v n) ∧ (s < 0 ∨ 0 < s)) := fun h => hsl h.2
        simp only [if_neg hcnd, if_pos hf]
        rw [pair_at_point_power_flip, hv]
        have e : dot (smul (A * (1 + P.dissipation * dot v n)) n + V3.zero) v = A * (1 + P.dissipation * dot v n) * dot v n := by
          simp only [dot, smul, V3.add_x, V3.add_y, V3.add_z, V3.zero_x, V3.zero_y, V3.zero_z]; ring
        rw [e]
        have := (core 0 hA0 hc (le_refl _)).2
        linarith [this]
    · have hcnd : ¬ (0 < A * (1 + P.dissipation * dot v n) ∧ (s < 0 ∨ 0 < s)) := fun h => hf h.1
      simp only [if_neg hcnd, if_neg hf]
      rw [pair_at_point_power_flip, hv]
      have e : dot ((V3.zero : V3 K) + V3.zero) v = 0 := by simp [dot]
      rw [e]
      have := (core 0 hA0 hc (le_refl _)).1 (not_lt.mp hf)
      linarith [this]

/-! ### ExponentialSpringForce, normal part — about `expNormal` / `expPE`, the definitions the driver runs -/

/-- `d/dt` of the strain energy `d₁exp(−d₂(pz−d₀))/d₂` along `ṗz = vz` is `−vz·fzElas` -/
theorem expElasticPE_rate (exp : K → K) (d0 d1 d2 pz vz : K) (hd2 : d2 ≠ 0) :
    (expElasticPE (Jet.exp exp) (Jet.const d0) (Jet.const d1) (Jet.const d2) (⟨pz, vz⟩ : Jet K)).eps
      = -(vz * (d1 * exp (-d2 * (pz - d0)))) := by
  simp only [expElasticPE, Jet.div_eps, Jet.mul_eps, Jet.mul_re, Jet.exp_re, Jet.exp_eps, Jet.sub_re, Jet.sub_eps,
    Jet.neg_re, Jet.neg_eps, Jet.const_re, Jet.const_eps]
  field_simp
  ring

/-- **ExponentialSpringForce**, normal force, cap `maxNormalForce` not active: with `o = expNormal …` (the coded
normal force incl. its clamp at zero) and the coded energy `expPE = fzElas/d₂`:
`o.fz·vz = −d(PE)/dt + diss`, `diss ≤ 0`, and `diss = 0` without normal viscosity.
(With the cap active the coded energy is `(max − fzDamp)/d₂`, see notes: the source carries a TODO there.) -/
theorem exp_normal_power_eq (exp : K → K) (d0 d1 d2 cz maxF pz vz : K) (hd2 : d2 ≠ 0) (hcz : 0 ≤ cz)
    (hE : 0 ≤ d1 * exp (-d2 * (pz - d0)))
    (hcap : d1 * exp (-d2 * (pz - d0)) + -cz * vz * (d1 * exp (-d2 * (pz - d0))) ≤ maxF) (hmax : 0 ≤ maxF) :
    let o := expNormal exp d0 d1 d2 cz maxF pz vz
    let rate := (expElasticPE (Jet.exp exp) (Jet.const d0) (Jet.const d1) (Jet.const d2) (⟨pz, vz⟩ : Jet K)).eps
    expPE exp d0 d1 d2 cz maxF pz vz = expElasticPE exp d0 d1 d2 pz
    ∧ o.fz * vz + rate ≤ 0
    ∧ (cz = 0 → o.fz * vz + rate = 0) := by
  intro o rate
  have hrate : rate = -(vz * (d1 * exp (-d2 * (pz - d0)))) := expElasticPE_rate exp d0 d1 d2 pz vz hd2
  rw [hrate]
  simp only [o, expPE, expElasticPE, expNormal]
  generalize d1 * exp (-d2 * (pz - d0)) = E at hE hcap ⊢
  by_cases h : E + -cz * vz * E < 0
  · -- clamped at zero: the force is suppressed while the stored energy still decreases
    have h0 : ¬ (maxF < 0) := not_lt.mpr hmax
    simp only [if_pos h, if_neg h0]
    refine ⟨trivial, ?_, ?_⟩
    · have hEpos : 0 < E := by
        rcases eq_or_lt_of_le hE with h1 | h1
        · rw [← h1] at h; simp at h
        · exact h1
      have h2 : 1 - cz * vz < 0 := by
        by_contra hc
        have := mul_nonneg hE (not_lt.mp hc); nlinarith
      have hv : 0 ≤ vz := by
        by_contra hc
        have := mul_nonneg hcz (neg_nonneg.mpr (not_le.mp hc).le); linarith
      have := mul_nonneg hv hE
      linarith
    · intro hc0; subst hc0; exfalso; simp at h; linarith
  · have h1 : ¬ (maxF < E + -cz * vz * E) := not_lt.mpr hcap
    simp only [if_neg h, if_neg h1]
    refine ⟨trivial, ?_, ?_⟩
    · have := mul_nonneg (mul_nonneg hcz (mul_self_nonneg vz)) hE
      nlinarith
    · intro hc0; subst hc0; ring

/-! ### CableSpring: tension `f` along a path of length `L`; the path delivers the power `−f·L̇` to the bodies
(`CablePath::calcCablePower`, C45) -/

/-- rate of the cable spring's energy `k·max(0,L−L0)²/2` along `L̇` -/
theorem cablePE_rate (k L0 L Ld : K) :
    (cablePE (Jet.const k) (Jet.const L0) (⟨L, Ld⟩ : Jet K)).eps = if 0 < L - L0 then k * (L - L0) * Ld else 0 := by
  simp only [cablePE, kmax, Jet.lt_iff, Jet.sub_re, Jet.const_re, Jet.re_0]
  split_ifs <;> simp <;> field_simp <;> ring

/-- **CableSpring**: `f·L̇ = d(PE)/dt + powerLoss` (i.e. the delivered power `−f·L̇ = −d(PE)/dt − powerLoss`), `powerLoss ≥ 0`, `powerLoss = 0` without dissipation, and the coded
energy is `cablePE` -/
theorem cable_power_eq (k c L0 L Ld : K) (hk : 0 ≤ k) (hc : 0 ≤ c) :
    let o := cableSpring k c L0 L Ld
    o.f * Ld = (cablePE (Jet.const k) (Jet.const L0) (⟨L, Ld⟩ : Jet K)).eps + o.powerLoss
    ∧ 0 ≤ o.powerLoss ∧ (c = 0 → o.powerLoss = 0) ∧ o.pe = cablePE k L0 L := by
  intro o
  rw [cablePE_rate]
  simp only [o, cableSpring, cablePE, kmax]
  by_cases hx : 0 < L - L0
  · have hne : ¬ (¬ (L - L0 < 0) ∧ ¬ (0 < L - L0)) := fun h => h.2 hx
    simp only [if_pos hx, if_neg hne]
    have hkx : 0 ≤ k * (L - L0) := mul_nonneg hk hx.le
    refine ⟨?_, ?_, ?_, trivial⟩
    · split_ifs <;> ring
    · split_ifs with h1
      · -- f_rate = diss = kx·c·L̇ : powerLoss = kx c L̇² ≥ 0
        have := mul_nonneg (mul_nonneg hkx hc) (mul_self_nonneg Ld)
        nlinarith
      · -- f_rate = −kx (diss ≤ −kx ≤ 0): L̇ must be ≤ 0
        have h2 : k * (L - L0) * c * Ld ≤ -(k * (L - L0)) := not_lt.mp h1
        have hLd : Ld ≤ 0 ∨ k * (L - L0) = 0 := by
          by_contra hcon
          push Not at hcon
          have hp : 0 < k * (L - L0) := lt_of_le_of_ne hkx (Ne.symm hcon.2)
          have := mul_nonneg (mul_nonneg hkx hc) hcon.1.le
          linarith
        rcases hLd with h3 | h3
        · nlinarith
        · rw [h3]; simp
    · intro hc0; subst hc0
      split_ifs with h1
      · ring
      · have h2 : (0 : K) ≤ -(k * (L - L0)) := by simpa using not_lt.mp h1
        have : k * (L - L0) = 0 := le_antisymm (by linarith) hkx
        rw [this]; simp
  · have hz : ¬ ((0 : K) < 0) := lt_irrefl _
    simp only [if_neg hx, lt_irrefl, not_false_eq_true, and_self, if_true]
    simp

/-! ### Hertz contact of CompliantContactSubsystem (in the frame of surface 1, which is the frame the generator works in:
`vel` is the velocity of surface 2's contact point relative to surface 1, `force` acts on surface 2) -/

/-- **Hertz generator**: when a force is generated (`0 < fNormal`) the power delivered through the contact is
`force·vel = −fH·ẋ − powerLoss` with `fH·ẋ = d(2/5 fH x)/dt` (`hertzPE_rate`), the reported `powerLoss` is `≥ 0` in every
branch, and the reported energy is `2/5 fH x` -/
theorem hertz_power_eq (sqrt : K → K) (hs : SqrtSpec sqrt) (signif vtrans : K) (hvt : 0 < vtrans)
    (m1 m2 : HertzMat K) (normal origin : V3 K) (depth : K) (p12 w12 v12 : V3 K) (R e : K) (hn : normSq normal = 1)
    (he : 0 ≤ e) (hk : 0 ≤ m1.k23 * (m2.k23 / (m1.k23 + m2.k23)))
    (hc : 0 ≤ m1.c * (m2.k23 / (m1.k23 + m2.k23)) + m2.c * (1 - m2.k23 / (m1.k23 + m2.k23)))
    (hud : 0 ≤ combineMu2 m1.ud m2.ud) (hus : combineMu2 m1.ud m2.ud ≤ combineMu2 m1.us m2.us)
    (huv : 0 ≤ combineMu2 m1.uv m2.uv) :
    let o := hertzContact sqrt signif vtrans m1 m2 normal origin depth p12 w12 v12 R e
    (0 < o.fNormal → dot o.force o.vel + o.fH * o.xdot = -o.powerLoss ∧ o.pe = 2 / 5 * o.fH * depth)
    ∧ 0 ≤ o.powerLoss := by
  simp only [hertzContact]
  have hn' : dot normal normal = 1 := hn
  by_cases h1 : depth ≤ 0
  · simp only [if_pos h1]; simp
  · simp only [if_neg h1]
    have hx : 0 ≤ depth := (not_le.mp h1).le
    generalize hγ : (m1.c * (m2.k23 / (m1.k23 + m2.k23)) + m2.c * (1 - m2.k23 / (m1.k23 + m2.k23)) : K) = γ at hc ⊢
    have hA0 : 0 ≤ e * (4 / 3) * (m1.k23 * (m2.k23 / (m1.k23 + m2.k23))) * depth
        * sqrt (R * (m1.k23 * (m2.k23 / (m1.k23 + m2.k23))) * depth) :=
      mul_nonneg (mul_nonneg (mul_nonneg (mul_nonneg he (by norm_num)) hk) hx) (hs.nonneg _)
    generalize (e * (4 / 3) * (m1.k23 * (m2.k23 / (m1.k23 + m2.k23))) * depth
        * sqrt (R * (m1.k23 * (m2.k23 / (m1.k23 + m2.k23))) * depth) : K) = A at hA0 ⊢
    generalize (v12 + cross w12 (origin + smul (depth * (1 / 2 - m2.k23 / (m1.k23 + m2.k23))) normal - p12) : V3 K) = vel
    by_cases h2 : A + A * (3 / 2) * γ * -(dot vel normal) ≤ 0
    · simp only [if_pos h2]; simp
    · simp only [if_neg h2]
      have hvn : dot (vel - smul (-(-(dot vel normal))) normal) normal = 0 := tangent_dot_normal_neg vel normal hn
      generalize hN : normSq (vel - smul (-(-(dot vel normal))) normal) = N
      have hN0 : 0 ≤ N := hN ▸ normSq_nonneg _
      have hHC : 0 ≤ A * (3 / 2) * γ * -(dot vel normal) * -(dot vel normal) := by
        have := mul_nonneg (mul_nonneg (mul_nonneg hA0 (by norm_num : (0:K) ≤ 3 / 2)) hc) (mul_self_nonneg (-(dot vel normal)))
        nlinarith
      by_cases h3 : signif * signif < N
      · simp only [if_pos h3]
        have hsq := hs.sq N hN0
        have hspos : 0 < sqrt N := by
          rcases lt_or_eq_of_le (hs.nonneg N) with h | h
          · exact h
          · exfalso; rw [← h] at hsq; simp only [mul_zero] at hsq
            have : 0 ≤ signif * signif := mul_self_nonneg _
            rw [← hsq] at h3; linarith
        have hmu := (stribeck_bounds (combineMu2 m1.us m2.us) (combineMu2 m1.ud m2.ud) (combineMu2 m1.uv m2.uv * vtrans)
          (sqrt N * (1 / vtrans)) hud hus (mul_nonneg huv hvt.le) (mul_nonneg hspos.le (by positivity))).1
        generalize sqrt N = s at hsq hspos hmu ⊢
        generalize stribeck (K := K) _ _ _ _ = muv at hmu ⊢
        have hF : 0 ≤ A + A * (3 / 2) * γ * -(dot vel normal) := (not_le.mp h2).le
        refine ⟨fun _ => ⟨?_, trivial⟩, ?_⟩
        · -- force·vel
          have hdecomp : dot (smul (-((A + A * (3 / 2) * γ * -(dot vel normal)) * muv) / s) (vel - smul (-(-(dot vel normal))) normal)) vel
              = -((A + A * (3 / 2) * γ * -(dot vel normal)) * muv) / s * N := by
            rw [smul_dot]
            have : dot (vel - smul (-(-(dot vel normal))) normal) vel = N := by
              rw [← hN]
              simp only [normSq, dot, smul, V3.sub_x, V3.sub_y, V3.sub_z] at hvn ⊢
              linear_combination (vel.x * normal.x + vel.y * normal.y + vel.z * normal.z) * hvn
            rw [this]
          have e1 : dot (smul A normal + (smul (A * (3 / 2) * γ * -(dot vel normal)) normal
                + smul (-((A + A * (3 / 2) * γ * -(dot vel normal)) * muv) / s) (vel - smul (-(-(dot vel normal))) normal))) vel
              = (A + A * (3 / 2) * γ * -(dot vel normal)) * dot vel normal
                + dot (smul (-((A + A * (3 / 2) * γ * -(dot vel normal)) * muv) / s) (vel - smul (-(-(dot vel normal))) normal)) vel := by
            simp only [dot, smul, V3.add_x, V3.add_y, V3.add_z]; ring
          rw [e1, hdecomp, ← hsq]
          field_simp
          ring
        · have : 0 ≤ (A + A * (3 / 2) * γ * -(dot vel normal)) * muv * s := mul_nonneg (mul_nonneg hF hmu) hspos.le
          linarith
      · simp only [if_neg h3]
        refine ⟨fun _ => ⟨?_, trivial⟩, ?_⟩
        · simp only [dot, smul, V3.add_x, V3.add_y, V3.add_z, V3.zero_x, V3.zero_y, V3.zero_z]; ring
        · linarith

end ordered

end ForceLaws
