import SimbodyProofs.ForceLaws_lemmas

/-!
# C12 — force elements' power matches their potential energy

For every element that reports a potential energy: `power = −(pe (lift x v)).eps + diss`, `diss ≤ 0`, and
`diss = 0` without damping.  `(pe (lift x v)).eps` is the time derivative of the *coded* potential energy
along the motion, computed with jets (`K[ε]/(ε²)`, DESIGN §1.3): poses are lifted by `Ṙ = [w]× R`, `ṗ = v`,
mobility coordinates by `q̇ = u` (the elements' documented domain of validity), `√` by its Taylor
coefficient under the guard `√· ≠ 0`.  Elements documented as not contributing potential energy get
`pe_is_zero`; pure dampers additionally `power ≤ 0`.
-/
set_option linter.unusedSectionVars false
namespace ForceLaws
open V3
variable {K : Type} [Field K]

/-! ### generic bookkeeping -/

theorem spf_neg_power (sG F : V3 K) (V : Vel K) :
    (SpF.mk (-(cross sG F)) (-F)).power V = -(dot F (V.v + cross V.w sG)) := by
  simp only [SpF.power, dot, cross, V3.add_x, V3.add_y, V3.add_z, V3.neg_x, V3.neg_y, V3.neg_z]; ring

/-- a pair of opposite forces `±F` applied at stations `s1`, `s2`: total power `F·(v1 − v2)` -/
theorem pair_power (X1 X2 : Pose K) (V1 V2 : Vel K) (s1 s2 F : V3 K) :
    (SpF.mk (cross (X1.R.mulVec s1) F) F).power V1 + (SpF.mk (-(cross (X2.R.mulVec s2) F)) (-F)).power V2
      = dot F (stationVel X1 V1 s1 - stationVel X2 V2 s2) := by
  rw [spf_power, spf_neg_power]
  simp only [stationVel, dot, V3.sub_x, V3.sub_y, V3.sub_z]; ring

/-! ### TwoPointLinearSpring -/

/-- the spring energy as a function of the two end points -/
def ptSpringPE {K : Type} [Sub K] [Mul K] [Div K] [Add K] [OfNat K 2] (sqrt : K → K) (k x0 : K) (P1 P2 : V3 K) : K :=
  let r := P2 - P1
  let d := sqrt (normSq r)
  k * (d - x0) * (d - x0) / 2

theorem tpSpringPE_eq_pt {K : Type} [Add K] [Sub K] [Mul K] [Neg K] [Div K] [OfNat K 2]
    (sqrt : K → K) (k x0 : K) (X1 X2 : Pose K) (s1 s2 : V3 K) :
    tpSpringPE sqrt k x0 X1 X2 s1 s2 = ptSpringPE sqrt k x0 (X1.apply s1) (X2.apply s2) := rfl

theorem ptSpringPE_rate (sqrt : K → K) (k x0 : K) (P1 P2 v1 v2 : V3 K)
    (hsq : sqrt (normSq (P2 - P1)) * sqrt (normSq (P2 - P1)) = normSq (P2 - P1))
    (hd : sqrt (normSq (P2 - P1)) ≠ 0) :
    (ptSpringPE (Jet.sqrt sqrt) (Jet.const k) (Jet.const x0) (liftV3 P1 v1) (liftV3 P2 v2)).eps
      = k * (sqrt (normSq (P2 - P1)) - x0) / sqrt (normSq (P2 - P1)) * dot (P2 - P1) (v2 - v1) := by
  have hre : (normSq (liftV3 P2 v2 - liftV3 P1 v1)).re = normSq (P2 - P1) := by
    simp [normSq, dot, liftV3]
  have heps : (normSq (liftV3 P2 v2 - liftV3 P1 v1)).eps = 2 * dot (P2 - P1) (v2 - v1) := by
    simp [normSq, dot, liftV3]; ring
  simp only [ptSpringPE, Jet.div_eps, Jet.mul_eps, Jet.mul_re, Jet.sub_re, Jet.sub_eps, Jet.sqrt_re, Jet.sqrt_eps,
    Jet.const_re, Jet.const_eps, Jet.re_2, Jet.eps_2, hre, heps]
  generalize sqrt (normSq (P2 - P1)) = d at hsq hd ⊢
  generalize dot (P2 - P1) (v2 - v1) = rv
  field_simp
  ring

section ordered
variable [LinearOrder K] [IsStrictOrderedRing K]

/-- **TwoPointLinearSpring**: power = −d(PE)/dt exactly (no dissipation), whenever the stations are not coincident -/
theorem tpSpring_power_eq (sqrt : K → K) (hs : SqrtSpec sqrt) (k x0 : K) (X1 X2 : Pose K) (V1 V2 : Vel K) (s1 s2 : V3 K)
    (hd : sqrt (normSq (X2.apply s2 - X1.apply s1)) ≠ 0) :
    (tpSpringForce sqrt k x0 X1 X2 s1 s2).1.power V1 + (tpSpringForce sqrt k x0 X1 X2 s1 s2).2.power V2
      = -(tpSpringPE (Jet.sqrt sqrt) (Jet.const k) (Jet.const x0) (liftPose X1 V1) (liftPose X2 V2)
            (constV3 s1) (constV3 s2)).eps := by
  rw [tpSpringPE_eq_pt, liftPose_apply, liftPose_apply,
    ptSpringPE_rate sqrt k x0 _ _ _ _ (hs.sq _ (normSq_nonneg _)) hd]
  simp only [tpSpringForce]
  rw [pair_power]
  simp only [Pose.apply, dot, smul, V3.sub_x, V3.sub_y, V3.sub_z, V3.add_x, V3.add_y, V3.add_z]
  ring
end ordered

end ForceLaws
