import SimbodyModel.C33_PE
import Mathlib.Tactic.Linarith
/-!
# C33 — invariants of the ParallelExecutor transition system (helper lemmas)

`LockInv` (mutex owner = thread inside a critical section), `PhaseInv` (per-worker table of what each program
counter implies about `running`, the callback log and the loop variable, per phase of the caller), both
inductive over every action of every thread including spurious wake-ups; `no_deadlock_aux`.
The property theorems are stated in `SimbodyProofs/C33.lean`.
-/
set_option linter.unusedSimpArgs false
set_option linter.unnecessarySeqFocus false
set_option linter.unusedVariables false
namespace C33.PE

@[simp] theorem upd_same {α : Type} (f : Nat → α) (i : Nat) (v : α) : upd f i v i = v := by simp [upd]
theorem upd_other {α : Type} (f : Nat → α) {i j : Nat} (v : α) (h : j ≠ i) : upd f i v j = f j := by simp [upd, h]

def holdsW : WPc → Bool
  | .waitChk | .unlock1 | .inFin => true
  | _ => false
def holdsM : MPc → Bool
  | .setup | .waitChk | .dSet => true
  | _ => false

/-- the mutex owner is exactly the thread whose program counter lies inside a critical section -/
structure LockInv (s : State) : Prop where
  w : ∀ w, w < s.n → holdsW (s.wk w).pc = true → s.mutex = some (.worker w)
  m : holdsM s.mpc = true → s.mutex = some .main
  convW : ∀ w, s.mutex = some (.worker w) → w < s.n ∧ holdsW (s.wk w).pc = true
  convM : s.mutex = some .main → holdsM s.mpc = true

@[simp] theorem holdsW_wake (pc : WPc) : holdsW (wake pc) = holdsW pc := by
  unfold wake; split <;> simp_all [holdsW]
@[simp] theorem holdsM_wakeMain (pc : MPc) : holdsM (wakeMain pc) = holdsM pc := by
  unfold wakeMain; split <;> simp_all [holdsM]

section frames
variable {s s' : State} {w : Nat} {x' : Worker}

theorem lock_w_keep (hi : LockInv s) (hn : s'.n = s.n) (hwk : s'.wk = upd s.wk w x')
    (hmpc : holdsM s'.mpc = holdsM s.mpc) (hmu : s'.mutex = s.mutex) (hh : holdsW x'.pc = holdsW (s.wk w).pc) :
    LockInv s' := by
  have key : ∀ v, holdsW (s'.wk v).pc = holdsW (s.wk v).pc := by
    intro v; rw [hwk]; by_cases hv : v = w
    · subst hv; simp [hh]
    · rw [upd_other _ _ hv]
  constructor
  · intro v hv hh'; rw [hn] at hv; rw [key] at hh'; rw [hmu]; exact hi.w v hv hh'
  · intro hm; rw [hmpc] at hm; rw [hmu]; exact hi.m hm
  · intro v hv; rw [hmu] at hv; rw [hn, key]; exact hi.convW v hv
  · intro hm; rw [hmu] at hm; rw [hmpc]; exact hi.convM hm

theorem lock_free_noW (hi : LockInv s) (hfree : s.mutex = none) (v : Nat) (hv : v < s.n) : holdsW (s.wk v).pc = false := by
  cases h : holdsW (s.wk v).pc
  · rfl
  · have := hi.w v hv h; rw [hfree] at this; cases this

theorem lock_free_noM (hi : LockInv s) (hfree : s.mutex = none) : holdsM s.mpc = false := by
  cases h : holdsM s.mpc
  · rfl
  · have := hi.m h; rw [hfree] at this; cases this

theorem lock_w_acq (hi : LockInv s) (hwn : w < s.n) (hn : s'.n = s.n) (hwk : s'.wk = upd s.wk w x')
    (hmpc : holdsM s'.mpc = holdsM s.mpc) (hfree : s.mutex = none) (hmu : s'.mutex = some (.worker w))
    (hh : holdsW x'.pc = true) : LockInv s' := by
  constructor
  · intro v hv hh'
    rw [hn] at hv
    by_cases hvw : v = w
    · subst hvw; exact hmu
    · rw [hwk, upd_other _ _ hvw, lock_free_noW hi hfree v hv] at hh'; cases hh'
  · intro hm; rw [hmpc, lock_free_noM hi hfree] at hm; cases hm
  · intro v hv; rw [hmu] at hv; injection hv with hv; injection hv with hv; subst hv
    rw [hn, hwk]; simp [hwn, hh]
  · intro hm; rw [hmu] at hm; injection hm with hm; cases hm

theorem lock_w_rel (hi : LockInv s) (hwn : w < s.n) (hn : s'.n = s.n) (hwk : s'.wk = upd s.wk w x')
    (hmpc : holdsM s'.mpc = holdsM s.mpc) (hold : holdsW (s.wk w).pc = true) (hmu : s'.mutex = none)
    (hh : holdsW x'.pc = false) : LockInv s' := by
  have hown := hi.w w hwn hold
  constructor
  · intro v hv hh'
    rw [hn] at hv
    by_cases hvw : v = w
    · subst hvw; rw [hwk] at hh'; simp [hh] at hh'
    · rw [hwk, upd_other _ _ hvw] at hh'
      have := hi.w v hv hh'; rw [hown] at this; injection this with this; injection this with this
      exact absurd this.symm hvw
  · intro hm; rw [hmpc] at hm; have := hi.m hm; rw [hown] at this; injection this with this; cases this
  · intro v hv; rw [hmu] at hv; cases hv
  · intro hm; rw [hmu] at hm; cases hm

theorem lock_m_keep (hi : LockInv s) (hn : s'.n = s.n) (hwk : ∀ v, holdsW (s'.wk v).pc = holdsW (s.wk v).pc)
    (hmu : s'.mutex = s.mutex) (hh : holdsM s'.mpc = holdsM s.mpc) : LockInv s' := by
  constructor
  · intro v hv hh'; rw [hn] at hv; rw [hwk] at hh'; rw [hmu]; exact hi.w v hv hh'
  · intro hm; rw [hh] at hm; rw [hmu]; exact hi.m hm
  · intro v hv; rw [hmu] at hv; rw [hn, hwk]; exact hi.convW v hv
  · intro hm; rw [hmu] at hm; rw [hh]; exact hi.convM hm

theorem lock_m_acq (hi : LockInv s) (hn : s'.n = s.n) (hwk : ∀ v, holdsW (s'.wk v).pc = holdsW (s.wk v).pc)
    (hfree : s.mutex = none) (hmu : s'.mutex = some .main) (hh : holdsM s'.mpc = true) : LockInv s' := by
  constructor
  · intro v hv hh'; rw [hn] at hv; rw [hwk, lock_free_noW hi hfree v hv] at hh'; cases hh'
  · intro _; exact hmu
  · intro v hv; rw [hmu] at hv; injection hv with hv; cases hv
  · intro _; exact hh

theorem lock_m_rel (hi : LockInv s) (hn : s'.n = s.n) (hwk : ∀ v, holdsW (s'.wk v).pc = holdsW (s.wk v).pc)
    (hold : holdsM s.mpc = true) (hmu : s'.mutex = none) (hh : holdsM s'.mpc = false) : LockInv s' := by
  have hown := hi.m hold
  constructor
  · intro v hv hh'; rw [hn] at hv; rw [hwk] at hh'; have := hi.w v hv hh'; rw [hown] at this
    injection this with this; cases this
  · intro hm; rw [hh] at hm; cases hm
  · intro v hv; rw [hmu] at hv; cases hv
  · intro hm; rw [hmu] at hm; cases hm
end frames

theorem lockInv_init (n : Nat) (todo : List Nat) : LockInv (init n todo) := by
  constructor <;> simp [init, holdsW, holdsM]

theorem lockInv_step {s s' : State} {a : Act} (hi : LockInv s) (h : step s a = some s') : LockInv s' := by
  cases a with
  | step t =>
    cases t with
    | main =>
      simp only [step, stepMain] at h
      cases hpc : s.mpc <;> simp only [hpc] at h
      case idle =>
        split at h <;> (injection h with h; subst h; exact lock_m_keep hi rfl (fun _ => rfl) rfl (by simp [hpc, holdsM]))
      case lock =>
        split at h
        · rename_i hf; injection h with h; subst h; exact lock_m_acq hi rfl (fun _ => rfl) hf rfl rfl
        · cases h
      case setup =>
        injection h with h; subst h; exact lock_m_keep hi rfl (fun _ => by simp) rfl (by simp [hpc, holdsM])
      case waitChk =>
        split at h <;> (injection h with h; subst h; exact lock_m_rel hi rfl (fun _ => rfl) (by simp [hpc, holdsM]) rfl rfl)
      case blocked => cases h
      case reacq =>
        split at h
        · rename_i hf; injection h with h; subst h; exact lock_m_acq hi rfl (fun _ => rfl) hf rfl rfl
        · cases h
      case dLock =>
        split at h
        · rename_i hf; injection h with h; subst h; exact lock_m_acq hi rfl (fun _ => rfl) hf rfl rfl
        · cases h
      case dSet =>
        injection h with h; subst h; exact lock_m_rel hi rfl (fun _ => by simp) (by simp [hpc, holdsM]) rfl rfl
      case join =>
        split at h
        · injection h with h; subst h; exact lock_m_keep hi rfl (fun _ => rfl) rfl (by simp [hpc, holdsM])
        · cases h
      case final => cases h
    | worker w =>
      simp only [step, stepWorker] at h
      split at h
      · rename_i hwn
        cases hpc : (s.wk w).pc <;> simp only [hpc] at h
        case loopTest =>
          injection h with h; subst h
          exact lock_w_keep hi rfl rfl rfl rfl (by cases s.finished <;> simp [hpc, holdsW])
        case lockAcq =>
          split at h
          · rename_i hf; injection h with h; subst h; exact lock_w_acq hi hwn rfl rfl rfl hf rfl rfl
          · cases h
        case waitChk =>
          split at h
          · injection h with h; subst h; exact lock_w_keep hi rfl rfl rfl rfl (by simp [hpc, holdsW])
          · injection h with h; subst h; exact lock_w_rel hi hwn rfl rfl rfl (by simp [hpc, holdsW]) rfl rfl
        case blocked => cases h
        case reacq =>
          split at h
          · rename_i hf; injection h with h; subst h; exact lock_w_acq hi hwn rfl rfl rfl hf rfl rfl
          · cases h
        case unlock1 =>
          injection h with h; subst h; exact lock_w_rel hi hwn rfl rfl rfl (by simp [hpc, holdsW]) rfl rfl
        case test2 =>
          split at h <;> (injection h with h; subst h; exact lock_w_keep hi rfl rfl rfl rfl (by simp [hpc, holdsW]))
        case init => injection h with h; subst h; exact lock_w_keep hi rfl rfl rfl rfl (by simp [hpc, holdsW])
        case exec =>
          split at h <;> (injection h with h; subst h; exact lock_w_keep hi rfl rfl rfl rfl (by simp [hpc, holdsW]))
        case inExec => injection h with h; subst h; exact lock_w_keep hi rfl rfl rfl rfl (by simp [hpc, holdsW])
        case clearRun => injection h with h; subst h; exact lock_w_keep hi rfl rfl rfl rfl (by simp [hpc, holdsW])
        case finLock =>
          split at h
          · rename_i hf; injection h with h; subst h; exact lock_w_acq hi hwn rfl rfl rfl hf rfl rfl
          · cases h
        case inFin =>
          injection h with h; subst h
          exact lock_w_rel hi hwn rfl rfl (by simp only; split <;> simp) (by simp [hpc, holdsW]) rfl rfl
        case done => cases h
      · cases h
  | spurious t =>
    cases t with
    | main =>
      simp only [step] at h
      split at h
      · rename_i hb; injection h with h; subst h; exact lock_m_keep hi rfl (fun _ => rfl) rfl (by simp [hb, holdsM])
      · cases h
    | worker w =>
      simp only [step] at h
      split at h
      · rename_i hb; injection h with h; subst h
        exact lock_w_keep hi rfl rfl rfl rfl (by simp [hb.2, holdsW])
      · cases h

/-! ### counting -/
def cnt (f : Nat → Bool) : Nat → Nat
  | 0 => 0
  | k + 1 => cnt f k + (if f k then 1 else 0)

theorem cnt_congr {f g : Nat → Bool} : ∀ k, (∀ v, v < k → f v = g v) → cnt f k = cnt g k := by
  intro k; induction k with
  | zero => intro _; rfl
  | succ k ih => intro h; simp only [cnt]; rw [ih (fun v hv => h v (by omega)), h k (by omega)]

theorem cnt_false (k : Nat) : cnt (fun _ => false) k = 0 := by
  induction k with
  | zero => rfl
  | succ k ih => simp [cnt, ih]

theorem cnt_le (f : Nat → Bool) (k : Nat) : cnt f k ≤ k := by
  induction k with
  | zero => simp [cnt]
  | succ k ih => simp only [cnt]; split <;> omega

theorem cnt_set_true {f g : Nat → Bool} {w : Nat} (hg : ∀ v, v ≠ w → g v = f v) (hgw : g w = true) (hfw : f w = false) :
    ∀ k, w < k → cnt g k = cnt f k + 1 := by
  intro k; induction k with
  | zero => intro h; omega
  | succ k ih =>
    intro h
    simp only [cnt]
    by_cases hk : w = k
    · subst hk
      rw [cnt_congr w (fun v hv => hg v (by omega)), hgw, hfw]; simp
    · rw [ih (by omega), hg k (fun e => hk e.symm)]; omega

theorem cnt_all {f : Nat → Bool} : ∀ k, cnt f k = k → ∀ v, v < k → f v = true := by
  intro k; induction k with
  | zero => intro _ v hv; omega
  | succ k ih =>
    intro h v hv
    simp only [cnt] at h
    have := cnt_le f k
    by_cases hfk : f k = true
    · rw [hfk] at h; simp at h
      by_cases hvk : v = k
      · subst hvk; exact hfk
      · exact ih h v (by omega)
    · simp [hfk] at h; omega

theorem cnt_lt_ex {f : Nat → Bool} : ∀ k, cnt f k < k → ∃ v, v < k ∧ f v = false := by
  intro k; induction k with
  | zero => intro h; omega
  | succ k ih =>
    intro h
    simp only [cnt] at h
    cases hfk : f k
    · exact ⟨k, by omega, hfk⟩
    · rw [hfk] at h; simp at h
      obtain ⟨v, hv, hfv⟩ := ih (by omega)
      exact ⟨v, by omega, hfv⟩

/-! ### the worker loop -/
theorem stripeLoop_fuel {T count : Nat} (hT : 0 < T) : ∀ f1 f2 idx, count ≤ idx + f1 → count ≤ idx + f2 →
    stripeLoop T count f1 idx = stripeLoop T count f2 idx := by
  intro f1
  induction f1 with
  | zero =>
    intro f2 idx h1 _
    cases f2 with
    | zero => rfl
    | succ f2 => simp only [stripeLoop]; rw [if_neg (by omega)]
  | succ f1 ih =>
    intro f2 idx h1 h2
    cases f2 with
    | zero => simp only [stripeLoop]; rw [if_neg (by omega)]
    | succ f2 =>
      simp only [stripeLoop]
      split
      · rw [ih f2 (idx + T) (by omega) (by omega)]
      · rfl

theorem stripeLoop_lt {T count idx : Nat} (hT : 0 < T) (h : idx < count) :
    stripeLoop T count count idx = idx :: stripeLoop T count count (idx + T) := by
  obtain ⟨c, rfl⟩ : ∃ c, count = c + 1 := ⟨count - 1, by omega⟩
  conv => lhs; unfold stripeLoop
  rw [if_pos h, stripeLoop_fuel hT c (c + 1) (idx + T) (by omega) (by omega)]

theorem stripeLoop_ge {T count idx : Nat} (h : ¬ idx < count) : stripeLoop T count count idx = [] := by
  cases count with
  | zero => rfl
  | succ c => simp only [stripeLoop]; rw [if_neg h]

/-! ### phases -/
inductive Phase | idle | round | down
deriving DecidableEq

def phaseOf : MPc → Phase
  | .idle | .lock | .setup | .dLock | .dSet => .idle
  | .waitChk | .blocked | .reacq => .round
  | .join | .final => .down

def parked : WPc → Bool
  | .loopTest | .lockAcq | .waitChk | .blocked | .reacq => true
  | _ => false

def downOk : WPc → Bool
  | .loopTest | .lockAcq | .waitChk | .reacq | .unlock1 | .test2 | .done => true
  | _ => false

/-- callbacks still to come from a worker whose loop variable is `idx` -/
def restLog (n count idx : Nat) : List WEv := (stripeLoop n count count idx).map .exec ++ [.fin]

/-- per-worker invariant while an `execute(task, count)` is in progress -/
def WRound (n count w : Nat) (x : Worker) : Prop :=
  match x.pc with
  | .loopTest | .lockAcq | .waitChk | .reacq =>
      (x.running = true ∧ x.counted = false ∧ x.log = []) ∨
      (x.running = false ∧ x.counted = true ∧ x.log = fullLog n count w)
  | .blocked => x.running = false ∧ x.counted = true ∧ x.log = fullLog n count w
  | .unlock1 | .test2 => x.running = true ∧ x.counted = false ∧ x.log = []
  | .init => x.running = true ∧ x.counted = false ∧ x.log = [] ∧ x.cnt = count
  | .exec => x.running = true ∧ x.counted = false ∧ x.cnt = count ∧ x.idx % n = w ∧
      x.log ++ restLog n count x.idx = fullLog n count w
  | .inExec => x.running = true ∧ x.counted = false ∧ x.cnt = count ∧ x.idx % n = w ∧ x.idx < count ∧
      x.log ++ restLog n count x.idx = fullLog n count w
  | .clearRun => x.running = true ∧ x.counted = false ∧ x.log ++ [.fin] = fullLog n count w
  | .finLock | .inFin => x.running = false ∧ x.counted = false ∧ x.log ++ [.fin] = fullLog n count w
  | .done => False

def WOk (ph : Phase) (n count w : Nat) (x : Worker) : Prop :=
  match ph with
  | .idle => x.running = false ∧ parked x.pc = true
  | .round => WRound n count w x
  | .down => x.running = true ∧ downOk x.pc = true

structure PhaseInv (s : State) : Prop where
  npos : 0 < s.n
  fin : s.finished = true ↔ phaseOf s.mpc = .down
  wk : ∀ w, w < s.n → WOk (phaseOf s.mpc) s.n s.count w (s.wk w)
  rd : phaseOf s.mpc = .round →
    s.count = s.times ∧ s.waiting = cnt (fun v => (s.wk v).counted) s.n ∧ (s.mpc = .blocked → s.waiting ≠ s.n)
  hist : s.hist = s.doneTimes.map (roundLog s.n)

section frames2
variable {s s' : State} {w : Nat} {x' : Worker}

theorem phase_w (hi : PhaseInv s) (hwn : w < s.n) (hn : s'.n = s.n) (hfin : s'.finished = s.finished)
    (hcount : s'.count = s.count) (htimes : s'.times = s.times) (hhist : s'.hist = s.hist)
    (hdone : s'.doneTimes = s.doneTimes) (hmpc : s'.mpc = s.mpc) (hwait : s'.waiting = s.waiting)
    (hwk : s'.wk = upd s.wk w x') (hcnt : x'.counted = (s.wk w).counted)
    (hok : WOk (phaseOf s.mpc) s.n s.count w (s.wk w) → WOk (phaseOf s.mpc) s.n s.count w x') : PhaseInv s' := by
  constructor
  · rw [hn]; exact hi.npos
  · rw [hfin, hmpc]; exact hi.fin
  · intro v hv
    rw [hn] at hv
    rw [hmpc, hn, hcount, hwk]
    by_cases hvw : v = w
    · subst hvw; rw [upd_same]; exact hok (hi.wk v hv)
    · rw [upd_other _ _ hvw]; exact hi.wk v hv
  · intro hph
    rw [hmpc] at hph
    obtain ⟨h1, h2, h3⟩ := hi.rd hph
    refine ⟨by rw [hcount, htimes]; exact h1, ?_, by rw [hmpc, hwait, hn]; exact h3⟩
    rw [hwait, hn, h2]
    apply cnt_congr
    intro v _
    rw [hwk]
    by_cases hvw : v = w
    · subst hvw; rw [upd_same, hcnt]
    · rw [upd_other _ _ hvw]
  · rw [hhist, hdone, hn]; exact hi.hist

theorem phase_m_same (hi : PhaseInv s) (hn : s'.n = s.n) (hfin : s'.finished = s.finished)
    (hcount : s'.count = s.count) (hwk : s'.wk = s.wk) (hph : phaseOf s'.mpc = phaseOf s.mpc)
    (hhist : s'.hist = s.hist) (hdone : s'.doneTimes = s.doneTimes)
    (hrd : phaseOf s.mpc = .round → s'.times = s.times ∧ s'.waiting = s.waiting ∧ (s'.mpc = .blocked → s.waiting ≠ s.n)) :
    PhaseInv s' := by
  constructor
  · rw [hn]; exact hi.npos
  · rw [hfin, hph]; exact hi.fin
  · intro v hv; rw [hn] at hv; rw [hph, hn, hcount, hwk]; exact hi.wk v hv
  · intro h
    rw [hph] at h
    obtain ⟨h1, h2, _⟩ := hi.rd h
    obtain ⟨g1, g2, g3⟩ := hrd h
    exact ⟨by rw [hcount, g1]; exact h1, by rw [g2, hn, hwk]; exact h2, by rw [g2, hn]; exact g3⟩
  · rw [hhist, hdone, hn]; exact hi.hist
end frames2

theorem phaseInv_init (n : Nat) (hn : 0 < n) (todo : List Nat) : PhaseInv (init n todo) := by
  constructor
  · exact hn
  · simp [init, phaseOf]
  · intro w _; simp [init, phaseOf, WOk, parked]
  · simp [init, phaseOf]
  · simp [init]

set_option linter.unusedSimpArgs false

theorem fin_false_of {s : State} (hi : PhaseInv s) (h : phaseOf s.mpc ≠ .down) : s.finished = false := by
  cases hf : s.finished
  · rfl
  · exact absurd (hi.fin.mp hf) h

theorem restLog_start (n count w : Nat) : [WEv.init] ++ restLog n count w = fullLog n count w := by
  simp [restLog, fullLog, stripe]

theorem restLog_lt {n count idx : Nat} (hn : 0 < n) (h : idx < count) :
    restLog n count idx = .exec idx :: restLog n count (idx + n) := by
  simp [restLog, stripeLoop_lt hn h]

theorem restLog_ge {n count idx : Nat} (h : ¬ idx < count) : restLog n count idx = [.fin] := by
  simp [restLog, stripeLoop_ge h]

theorem phaseInv_step_worker {s s' : State} {w : Nat} (hi : PhaseInv s) (h : stepWorker s w = some s') : PhaseInv s' := by
  simp only [stepWorker] at h
  split at h
  · rename_i hwn
    have hnpos := hi.npos
    have hfd : phaseOf s.mpc = .down → s.finished = true := hi.fin.mpr
    have hfi : phaseOf s.mpc = .idle → s.finished = false := fun e => fin_false_of hi (by rw [e]; decide)
    have hfr : phaseOf s.mpc = .round → s.finished = false := fun e => fin_false_of hi (by rw [e]; decide)
    cases hpc : (s.wk w).pc <;> simp only [hpc] at h
    case loopTest =>
      injection h with h; subst h
      refine phase_w hi hwn rfl rfl rfl rfl rfl rfl rfl rfl rfl rfl ?_
      cases hph : phaseOf s.mpc <;> intro h <;> simp_all [WOk, WRound, parked, downOk]
    case lockAcq =>
      split at h
      · injection h with h; subst h
        refine phase_w hi hwn rfl rfl rfl rfl rfl rfl rfl rfl rfl rfl ?_
        cases hph : phaseOf s.mpc <;> intro h <;> simp_all [WOk, WRound, parked, downOk]
      · cases h
    case waitChk =>
      split at h
      · injection h with h; subst h
        refine phase_w hi hwn rfl rfl rfl rfl rfl rfl rfl rfl rfl rfl ?_
        cases hph : phaseOf s.mpc <;> intro h <;> simp_all [WOk, WRound, parked, downOk]
      · injection h with h; subst h
        refine phase_w hi hwn rfl rfl rfl rfl rfl rfl rfl rfl rfl rfl ?_
        cases hph : phaseOf s.mpc <;> intro h <;> simp_all [WOk, WRound, parked, downOk]
    case blocked => cases h
    case reacq =>
      split at h
      · injection h with h; subst h
        refine phase_w hi hwn rfl rfl rfl rfl rfl rfl rfl rfl rfl rfl ?_
        cases hph : phaseOf s.mpc <;> intro h <;> simp_all [WOk, WRound, parked, downOk]
      · cases h
    case unlock1 =>
      injection h with h; subst h
      refine phase_w hi hwn rfl rfl rfl rfl rfl rfl rfl rfl rfl rfl ?_
      cases hph : phaseOf s.mpc <;> intro h <;> simp_all [WOk, WRound, parked, downOk]
    case test2 =>
      split at h
      · injection h with h; subst h
        refine phase_w hi hwn rfl rfl rfl rfl rfl rfl rfl rfl rfl rfl ?_
        cases hph : phaseOf s.mpc <;> intro h <;> simp_all [WOk, WRound, parked, downOk]
      · injection h with h; subst h
        refine phase_w hi hwn rfl rfl rfl rfl rfl rfl rfl rfl rfl rfl ?_
        cases hph : phaseOf s.mpc <;> intro h <;> simp_all [WOk, WRound, parked, downOk]
    case init =>
      injection h with h; subst h
      refine phase_w hi hwn rfl rfl rfl rfl rfl rfl rfl rfl rfl rfl ?_
      cases hph : phaseOf s.mpc <;> intro h <;> simp_all [WOk, WRound, parked, downOk]
      exact ⟨Nat.mod_eq_of_lt hwn, restLog_start _ _ _⟩
    case exec =>
      split at h
      · injection h with h; subst h
        refine phase_w hi hwn rfl rfl rfl rfl rfl rfl rfl rfl rfl rfl ?_
        cases hph : phaseOf s.mpc <;> intro h <;> simp_all [WOk, WRound, parked, downOk]
      · rename_i hlt
        injection h with h; subst h
        refine phase_w hi hwn rfl rfl rfl rfl rfl rfl rfl rfl rfl rfl ?_
        cases hph : phaseOf s.mpc <;> intro h <;> simp_all [WOk, WRound, parked, downOk]
        obtain ⟨_, _, hc, _, hl⟩ := h
        rw [restLog_ge (by omega)] at hl; exact hl
    case inExec =>
      injection h with h; subst h
      refine phase_w hi hwn rfl rfl rfl rfl rfl rfl rfl rfl rfl rfl ?_
      cases hph : phaseOf s.mpc <;> intro h <;> simp_all [WOk, WRound, parked, downOk]
      obtain ⟨_, _, _, _, hlt, hl⟩ := h
      rw [restLog_lt hnpos hlt] at hl
      simpa using hl
    case clearRun =>
      injection h with h; subst h
      refine phase_w hi hwn rfl rfl rfl rfl rfl rfl rfl rfl rfl rfl ?_
      cases hph : phaseOf s.mpc <;> intro h <;> simp_all [WOk, WRound, parked, downOk]
    case finLock =>
      split at h
      · injection h with h; subst h
        refine phase_w hi hwn rfl rfl rfl rfl rfl rfl rfl rfl rfl rfl ?_
        cases hph : phaseOf s.mpc <;> intro h <;> simp_all [WOk, WRound, parked, downOk]
      · cases h
    case inFin =>
      injection h with h; subst h
      have hph' : phaseOf (if s.waiting + 1 = s.n then wakeMain s.mpc else s.mpc) = phaseOf s.mpc := by
        split
        · unfold wakeMain; split
          · rename_i hb; rw [hb]; rfl
          · rfl
        · rfl
      have hwk := hi.wk w hwn
      constructor
      · exact hnpos
      · simp only [hph']; exact hi.fin
      · intro v hv
        simp only [hph']
        by_cases hvw : v = w
        · subst hvw
          rw [upd_same]
          cases hph : phaseOf s.mpc <;> rw [hph] at hwk <;> simp_all [WOk, WRound, parked, downOk]
        · rw [upd_other _ _ hvw]; exact hi.wk v hv
      · intro hph
        simp only [hph'] at hph
        obtain ⟨h1, h2, h3⟩ := hi.rd hph
        rw [hph] at hwk
        simp only [WOk, WRound, hpc] at hwk
        refine ⟨h1, ?_, ?_⟩
        · simp only
          rw [h2]
          exact (cnt_set_true (w := w) (fun v hv => by simp only [upd_other _ _ hv]) (by simp) hwk.2.1 s.n hwn).symm
        · simp only
          split
          · intro hb; unfold wakeMain at hb; split at hb <;> simp_all
          · rename_i hne; intro _; exact hne
      · exact hi.hist
    case done => cases h
  · cases h

theorem wround_counted {n count w : Nat} {x : Worker} (h : WRound n count w x) (hc : x.counted = true) :
    x.running = false ∧ parked x.pc = true ∧ x.log = fullLog n count w := by
  unfold WRound at h
  cases hp : x.pc <;> rw [hp] at h <;> simp_all [parked]

theorem wake_parked {pc : WPc} (h : parked pc = true) : parked (wake pc) = true ∧ wake pc ≠ .blocked := by
  cases pc <;> simp_all [parked, wake]

theorem phaseInv_step_main {s s' : State} (hi : PhaseInv s) (h : stepMain s = some s') : PhaseInv s' := by
  simp only [stepMain] at h
  cases hpc : s.mpc <;> simp only [hpc] at h
  case idle =>
    split at h <;> (injection h with h; subst h
                    exact phase_m_same hi rfl rfl rfl rfl (by simp [hpc, phaseOf]) rfl rfl (by simp [hpc, phaseOf]))
  case lock =>
    split at h
    · injection h with h; subst h
      exact phase_m_same hi rfl rfl rfl rfl (by simp [hpc, phaseOf]) rfl rfl (by simp [hpc, phaseOf])
    · cases h
  case setup =>
    injection h with h; subst h
    have hwk := hi.wk
    rw [hpc] at hwk
    constructor
    · exact hi.npos
    · have hf := fin_false_of hi (by rw [hpc]; decide); simp [hf, phaseOf]
    · intro v hv
      have := hwk v hv
      simp only [phaseOf, WOk] at this ⊢
      obtain ⟨_, hp⟩ := this
      clear hwk hi
      cases hvpc : (s.wk v).pc <;> simp_all [parked, wake, WRound]
    · intro _
      refine ⟨rfl, (cnt_false _).symm, by simp⟩
    · exact hi.hist
  case waitChk =>
    have hrd := hi.rd (by rw [hpc]; rfl)
    split at h
    · rename_i hall
      injection h with h; subst h
      have hc : ∀ v, v < s.n → (s.wk v).counted = true := cnt_all s.n (by rw [← hrd.2.1]; exact hall)
      have hwk := hi.wk
      rw [hpc] at hwk
      simp only [phaseOf, WOk] at hwk
      have hfull : ∀ v, v < s.n → (s.wk v).running = false ∧ parked (s.wk v).pc = true ∧ (s.wk v).log = fullLog s.n s.count v :=
        fun v hv => wround_counted (hwk v hv) (hc v hv)
      constructor
      · exact hi.npos
      · have hf := fin_false_of hi (by rw [hpc]; decide); simp [hf, phaseOf]
      · intro v hv
        simp only [phaseOf, WOk]
        exact ⟨(hfull v hv).1, (hfull v hv).2.1⟩
      · intro hh; simp [phaseOf] at hh
      · simp only [List.map_append, List.map_cons, List.map_nil]
        rw [hi.hist]
        congr 1
        simp only [roundLog, List.cons.injEq, and_true]
        apply List.map_congr_left
        intro v hv
        rw [(hfull v (List.mem_range.mp hv)).2.2, hrd.1]
    · rename_i hne
      injection h with h; subst h
      exact phase_m_same hi rfl rfl rfl rfl (by simp [hpc, phaseOf]) rfl rfl (fun _ => ⟨rfl, rfl, fun _ => hne⟩)
  case blocked => cases h
  case reacq =>
    split at h
    · injection h with h; subst h
      exact phase_m_same hi rfl rfl rfl rfl (by simp [hpc, phaseOf]) rfl rfl (fun _ => ⟨rfl, rfl, by simp⟩)
    · cases h
  case dLock =>
    split at h
    · injection h with h; subst h
      exact phase_m_same hi rfl rfl rfl rfl (by simp [hpc, phaseOf]) rfl rfl (by simp [hpc, phaseOf])
    · cases h
  case dSet =>
    injection h with h; subst h
    have hwk := hi.wk
    rw [hpc] at hwk
    constructor
    · exact hi.npos
    · simp [phaseOf]
    · intro v hv
      have := hwk v hv
      simp only [phaseOf, WOk] at this ⊢
      obtain ⟨_, hp⟩ := this
      clear hwk hi
      cases hvpc : (s.wk v).pc <;> simp_all [parked, wake, downOk]
    · intro hh; simp [phaseOf] at hh
    · exact hi.hist
  case join =>
    split at h
    · injection h with h; subst h
      exact phase_m_same hi rfl rfl rfl rfl (by simp [hpc, phaseOf]) rfl rfl (by simp [hpc, phaseOf])
    · cases h
  case final => cases h

theorem phaseInv_step {s s' : State} {a : Act} (hi : PhaseInv s) (h : step s a = some s') : PhaseInv s' := by
  cases a with
  | step t =>
    cases t with
    | main => exact phaseInv_step_main hi h
    | worker w => exact phaseInv_step_worker hi h
  | spurious t =>
    cases t with
    | main =>
      simp only [step] at h
      split at h
      · rename_i hb; injection h with h; subst h
        exact phase_m_same hi rfl rfl rfl rfl (by simp [hb, phaseOf]) rfl rfl (fun _ => ⟨rfl, rfl, by simp⟩)
      · cases h
    | worker w =>
      simp only [step] at h
      split at h
      · rename_i hb; injection h with h; subst h
        have hpc := hb.2
        refine phase_w hi hb.1 rfl rfl rfl rfl rfl rfl rfl rfl rfl rfl ?_
        cases hph : phaseOf s.mpc <;> intro h <;> simp_all [WOk, WRound, parked, downOk]
      · cases h

/-! ### reachable states -/
theorem step_n {s s' : State} {a : Act} (h : step s a = some s') : s'.n = s.n := by
  cases a with
  | step t =>
    cases t with
    | main =>
      simp only [step, stepMain] at h
      cases hpc : s.mpc <;> simp only [hpc] at h <;> (try split at h) <;>
        (cases h <;> rfl)
    | worker w =>
      simp only [step, stepWorker] at h
      split at h
      · cases hpc : (s.wk w).pc <;> simp only [hpc] at h <;> (try split at h) <;>
          (cases h <;> rfl)
      · cases h
  | spurious t =>
    cases t <;> simp only [step] at h <;> split at h <;> (cases h <;> rfl)

theorem reach_inv {n : Nat} {todo : List Nat} (hn : 0 < n) {s : State} (h : Reach n todo s) :
    LockInv s ∧ PhaseInv s ∧ s.n = n := by
  induction h with
  | init => exact ⟨lockInv_init n todo, phaseInv_init n hn todo, rfl⟩
  | step a _ hs ih => exact ⟨lockInv_step ih.1 hs, phaseInv_step ih.2.1 hs, by rw [step_n hs]; exact ih.2.2⟩

theorem reach_run {n : Nat} {todo : List Nat} (sched : List Act) : ∀ {s : State}, Reach n todo s → Reach n todo (run s sched) := by
  induction sched with
  | nil => intro s h; exact h
  | cons a as ih =>
    intro s h
    simp only [run]
    cases hs : step s a with
    | none => exact ih h
    | some s' => exact ih (Reach.step a h hs)

/-- a worker is inside, or committed to, the user callbacks of the current `execute` -/
def inCallbacks : WPc → Bool
  | .init | .exec | .inExec | .clearRun | .finLock | .inFin => true
  | _ => false

theorem wok_callbacks {ph : Phase} {n count w : Nat} {x : Worker} (h : WOk ph n count w x) (hc : inCallbacks x.pc = true) :
    ph = .round := by
  cases ph
  · obtain ⟨_, hp⟩ := h; cases hx : x.pc <;> simp_all [parked, inCallbacks]
  · rfl
  · obtain ⟨_, hp⟩ := h; cases hx : x.pc <;> simp_all [downOk, inCallbacks]

theorem worker_enabled {s : State} {w : Nat} (hwn : w < s.n) (hm : s.mutex = none)
    (h1 : (s.wk w).pc ≠ .blocked) (h2 : (s.wk w).pc ≠ .done) : (stepWorker s w).isSome = true := by
  simp only [stepWorker, hwn, if_true]
  cases hpc : (s.wk w).pc <;> simp_all <;> split <;> rfl

theorem worker_holder_enabled {s : State} {w : Nat} (hwn : w < s.n) (h : holdsW (s.wk w).pc = true) :
    (stepWorker s w).isSome = true := by
  simp only [stepWorker, hwn, if_true]
  cases hpc : (s.wk w).pc <;> simp_all [holdsW] <;> split <;> rfl

theorem allDone_false {wk : Nat → Worker} : ∀ k, allDone wk k = false → ∃ v, v < k ∧ (wk v).pc ≠ .done := by
  intro k; induction k with
  | zero => intro h; simp [allDone] at h
  | succ k ih =>
    intro h
    simp only [allDone, Bool.and_eq_false_iff] at h
    rcases h with h | h
    · obtain ⟨v, hv, hp⟩ := ih h; exact ⟨v, by omega, hp⟩
    · exact ⟨k, by omega, by simpa using h⟩

/-- in every reachable state other than the final one, some thread can take a (non-spurious) step -/
theorem no_deadlock_aux {s : State} (hl : LockInv s) (hp : PhaseInv s) (hfin : s.mpc ≠ .final) :
    ∃ t, (step s (.step t)).isSome = true := by
  cases hm : s.mutex with
  | some t =>
    cases t with
    | main =>
      refine ⟨.main, ?_⟩
      have := hl.convM hm
      simp only [step, stepMain]
      cases hpc : s.mpc <;> simp_all [holdsM] <;> split <;> rfl
    | worker w =>
      obtain ⟨hwn, hh⟩ := hl.convW w hm
      exact ⟨.worker w, worker_holder_enabled hwn hh⟩
  | none =>
    by_cases hb : s.mpc = .blocked
    · -- the caller waits: some worker has not been counted yet and it can move
      obtain ⟨_, h2, h3⟩ := hp.rd (by rw [hb]; rfl)
      have hle := cnt_le (fun v => (s.wk v).counted) s.n
      obtain ⟨v, hv, hcv⟩ := cnt_lt_ex (f := fun v => (s.wk v).counted) s.n (by have := h3 hb; omega)
      have hw := hp.wk v hv
      rw [hb] at hw
      simp only [phaseOf, WOk] at hw
      refine ⟨.worker v, worker_enabled hv hm ?_ ?_⟩
      · intro hpc; unfold WRound at hw; rw [hpc] at hw; simp at hw; simp_all
      · intro hpc; unfold WRound at hw; rw [hpc] at hw; exact hw
    · by_cases hj : s.mpc = .join ∧ allDone s.wk s.n = false
      · obtain ⟨v, hv, hpv⟩ := allDone_false s.n hj.2
        have hw := hp.wk v hv
        rw [hj.1] at hw
        simp only [phaseOf, WOk] at hw
        refine ⟨.worker v, worker_enabled hv hm ?_ hpv⟩
        intro hpc; rw [hpc] at hw; simp [downOk] at hw
      · refine ⟨.main, ?_⟩
        simp only [step, stepMain]
        cases hpc : s.mpc <;> simp_all
        · split <;> rfl
        · split <;> rfl
end C33.PE
