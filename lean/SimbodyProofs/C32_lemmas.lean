import SimbodyModel.C32
import Mathlib.Tactic.NormNum
import Mathlib.Tactic.Linarith
import Mathlib.Tactic.IntervalCases

/-! Helper lemmas for `SimbodyProofs/C32.lean`. -/
namespace C32

/-! ### white space, tokens -/

theorem dropWS_of_allSpace (a b : List Char) (h : a.all isSpace = true) : dropWS (a ++ b) = dropWS b := by
  induction a with
  | nil => rfl
  | cons c cs ih =>
    simp only [List.all_cons, Bool.and_eq_true] at h
    simp only [List.cons_append, dropWS, h.1, if_true]
    exact ih h.2

theorem dropWS_nonspace (c : Char) (r : List Char) (h : isSpace c = false) : dropWS (c :: r) = c :: r := by
  simp [dropWS, h]

/-- a clean token: nonempty, no white-space character -/
def Clean (t : List Char) : Prop := t ≠ [] ∧ t.all (fun c => !isSpace c) = true

/-- what may follow a token: nothing, or something that starts with white space -/
def Stops (r : List Char) : Prop := r = [] ∨ ∃ c r', r = c :: r' ∧ isSpace c = true

theorem takeToken_clean (t r : List Char) (ht : t.all (fun c => !isSpace c) = true) (hr : Stops r) :
    takeToken (t ++ r) = (t, r) := by
  induction t with
  | nil =>
    rcases hr with rfl | ⟨c, r', rfl, hc⟩
    · rfl
    · simp [takeToken, hc]
  | cons c cs ih =>
    simp only [List.all_cons, Bool.and_eq_true, Bool.not_eq_true'] at ht
    simp only [List.cons_append, takeToken, ht.1, Bool.false_eq_true, if_false]
    rw [ih ht.2]

theorem readToken_clean (sep t r : List Char) (hs : sep.all isSpace = true) (ht : Clean t) (hr : Stops r) :
    readToken (sep ++ t ++ r) = some (t, r) := by
  obtain ⟨hne, hall⟩ := ht
  cases t with
  | nil => exact absurd rfl hne
  | cons c cs =>
    have hc : isSpace c = false := by
      simp only [List.all_cons, Bool.and_eq_true, Bool.not_eq_true'] at hall; exact hall.1
    unfold readToken
    rw [List.append_assoc, dropWS_of_allSpace _ _ hs, List.cons_append, dropWS_nonspace _ _ hc]
    simp only
    have := takeToken_clean (c :: cs) r hall hr
    rw [List.cons_append] at this
    rw [this]

/-! ### rendered token streams -/

section Render
variable {α : Type} (sh : α → List Char) (conv : List Char → Option α)

/-- separators are white space, tokens are clean and convert back -/
def WFp (p : List Char × α) : Prop := p.1.all isSpace = true ∧ Clean (sh p.2) ∧ conv (sh p.2) = some p.2

theorem render_stops (ps : List (List Char × α)) (hg : ∀ p ∈ ps, p.1 ≠ []) (hw : ∀ p ∈ ps, p.1.all isSpace = true) :
    Stops (render sh ps) := by
  cases ps with
  | nil => left; rfl
  | cons p r =>
    right
    obtain ⟨sep, v⟩ := p
    have hne := hg (sep, v) (List.mem_cons_self ..)
    have hsp := hw (sep, v) (List.mem_cons_self ..)
    cases sep with
    | nil => exact absurd rfl hne
    | cons c cs =>
      refine ⟨c, cs ++ sh v ++ render sh r, by simp [render], ?_⟩
      simp only [List.all_cons, Bool.and_eq_true] at hsp
      exact hsp.1

/-- reading `ps₁.length` scalars from the rendering of `ps₁ ++ ps₂` yields the values of `ps₁` and leaves the rendering
of `ps₂` (every pair except the very first is preceded by a nonempty separator) -/
theorem readFixed_render (ps₁ ps₂ : List (List Char × α))
    (hw : ∀ p ∈ ps₁ ++ ps₂, WFp sh conv p) (hg : ∀ p ∈ (ps₁ ++ ps₂).tail, p.1 ≠ []) :
    readFixed conv ps₁.length (render sh (ps₁ ++ ps₂)) = some (ps₁.map (·.2), render sh ps₂) := by
  induction ps₁ with
  | nil => simp [readFixed]
  | cons p r ih =>
    obtain ⟨sep, v⟩ := p
    have hp := hw (sep, v) (by simp)
    have hrest : ∀ q ∈ r ++ ps₂, WFp sh conv q := fun q hq => hw q (by simp [hq])
    have hgap : ∀ q ∈ r ++ ps₂, q.1 ≠ [] := fun q hq => hg q (by simpa using hq)
    have hstop : Stops (render sh (r ++ ps₂)) :=
      render_stops sh (r ++ ps₂) hgap (fun q hq => (hrest q hq).1)
    simp only [List.cons_append, List.length_cons, render, readFixed]
    rw [readToken_clean sep (sh v) _ hp.1 hp.2.1 hstop]
    simp only [hp.2.2]
    rw [ih hrest (fun q hq => hgap q (List.mem_of_mem_tail hq))]
    simp

end Render

end C32

namespace C32

/-! ### arrays -/

section Arr
variable {α : Type} (sh : α → List Char) (conv : List Char → Option α)

theorem render_append (a b : List (List Char × α)) : render sh (a ++ b) = render sh a ++ render sh b := by
  induction a with
  | nil => rfl
  | cons p r ih => obtain ⟨s, v⟩ := p; simp [render, ih]

theorem render_length_pos (p : List Char × α) (r : List (List Char × α)) (h : Clean (sh p.2)) :
    0 < (render sh (p :: r)).length := by
  obtain ⟨s, v⟩ := p
  have : sh v ≠ [] := h.1
  simp only [render, List.length_append]
  have := List.length_pos_iff.mpr this
  omega

/-- `readUnformatted(Array_<T>&)` on a rendered sequence of `k`-scalar elements whose first separator is empty (the
initial `std::ws` has been applied) -/
theorem readArrayFuel_render (k : Nat) (hk : 0 < k) (es : List (List (List Char × α)))
    (hlen : ∀ e ∈ es, e.length = k)
    (hw : ∀ p ∈ es.flatten, WFp sh conv p) (hg : ∀ p ∈ es.flatten.tail, p.1 ≠ [])
    (f : Nat) (hf : (render sh es.flatten).length < f) :
    readArrayFuel conv k f (render sh es.flatten) = some (es.map (·.map (·.2))) := by
  induction es generalizing f with
  | nil =>
    cases f with
    | zero => omega
    | succ f => simp [readArrayFuel, render]
  | cons e r ih =>
    cases f with
    | zero => omega
    | succ f =>
      have hek : e.length = k := hlen e (by simp)
      have he_ne : e ≠ [] := by intro h; rw [h] at hek; simp at hek; omega
      obtain ⟨p, e', rfl⟩ := List.exists_cons_of_ne_nil he_ne
      have hwp : WFp sh conv p := hw p (by simp)
      have hpos : 0 < (render sh ((p :: e') ++ r.flatten)).length := by
        rw [List.cons_append]; exact render_length_pos sh p _ hwp.2.1
      simp only [List.flatten_cons] at hf hw hg ⊢
      have hne : (render sh ((p :: e') ++ r.flatten)).isEmpty = false := by
        cases hr : render sh ((p :: e') ++ r.flatten) with
        | nil => rw [hr] at hpos; simp at hpos
        | cons _ _ => rfl
      unfold readArrayFuel
      rw [hne]
      simp only [Bool.false_eq_true, if_false]
      have hfix := readFixed_render sh conv (p :: e') r.flatten hw hg
      rw [hek] at hfix
      rw [hfix]
      simp only
      have hw' : ∀ q ∈ r.flatten, WFp sh conv q := fun q hq => hw q (by simp [hq])
      have hg' : ∀ q ∈ r.flatten.tail, q.1 ≠ [] := by
        intro q hq
        apply hg q
        rw [List.cons_append, List.tail_cons]
        exact List.mem_append_right _ (List.mem_of_mem_tail hq)
      have hlt : (render sh r.flatten).length < f := by
        rw [render_append] at hf hpos
        have : 0 < (render sh (p :: e')).length := render_length_pos sh p e' hwp.2.1
        rw [List.length_append] at hf
        omega
      rw [ih (fun x hx => hlen x (by simp [hx])) hw' hg' f hlt]
      simp

end Arr

/-! ### TinyXML escaping without the `&#x` pass-through -/

/-- the string contains the pattern `&#x` somewhere -/
def hasHexRef : List Char → Bool
  | [] => false
  | c :: r => (c = '&' && (match r with | '#' :: 'x' :: _ => true | _ => false)) || hasHexRef r

/-- the character-wise part of `EncodeString` -/
def encChar (keepQuotes condense : Bool) (c : Char) : List Char :=
  if c = '&' then "&amp;".toList
  else if c = '<' then "&lt;".toList
  else if c = '>' then "&gt;".toList
  else if c = '"' && !keepQuotes then "&quot;".toList
  else if c = '\'' && !keepQuotes then "&apos;".toList
  else if c.toNat < 32 && (condense || !isXmlWS c) then
    ['&', '#', 'x', hexDigitUpper (c.toNat / 16), hexDigitUpper (c.toNat % 16), ';']
  else [c]

theorem encodeFuel_noHex (kq cond : Bool) (s : List Char) (h : hasHexRef s = false) (f : Nat) (hf : s.length < f) :
    encodeFuel kq cond f s = s.flatMap (encChar kq cond) := by
  induction s generalizing f with
  | nil => cases f <;> simp [encodeFuel]
  | cons c rest ih =>
    cases f with
    | zero => simp at hf
    | succ f =>
      simp only [hasHexRef, Bool.or_eq_false_iff, Bool.and_eq_false_iff] at h
      have hrest := ih h.2 f (by simpa using hf)
      unfold encodeFuel
      split
      · -- the pass-through pattern is excluded by `h`
        exfalso
        rcases h.1 with h1 | h1
        · simp at h1
        · simp at h1
      · simp only [List.flatMap_cons, encChar]
        rw [hrest]
        split_ifs <;> simp

theorem encode_noHex (kq cond : Bool) (s : List Char) (h : hasHexRef s = false) :
    encode kq cond s = s.flatMap (encChar kq cond) :=
  encodeFuel_noHex kq cond s h _ (Nat.lt_succ_self _)

theorem encChar_ne_nil (kq cond : Bool) (c : Char) : encChar kq cond c ≠ [] := by
  unfold encChar; split_ifs <;> simp

theorem flatMap_encChar_length (kq cond : Bool) (s : List Char) : s.length ≤ (s.flatMap (encChar kq cond)).length := by
  induction s with
  | nil => simp
  | cons c r ih =>
    simp only [List.flatMap_cons, List.length_append, List.length_cons]
    have := List.length_pos_iff.mpr (encChar_ne_nil kq cond c)
    omega

/-- control characters come back from their `&#xHH;` form -/
theorem getEntity_ctrl (c : Char) (hc : c.toNat < 32) (rest : List Char) :
    getEntity (['&', '#', 'x', hexDigitUpper (c.toNat / 16), hexDigitUpper (c.toNat % 16), ';'] ++ rest) = some ([c], rest) := by
  have hcv : c = Char.ofNat c.toNat := (Char.ofNat_toNat c).symm
  generalize hn : c.toNat = n at hc hcv
  subst hcv
  interval_cases n <;> simp [getEntity, splitAtSemi, afterLast, parseRadix, hexVal, charRef, hexDigitUpper]

/-- decoding one encoded character -/
theorem decodeKeepFuel_encChar (endc : Char) (kq cond : Bool) (hend : endc = '<' ∨ (endc = '"' ∧ kq = false))
    (c : Char) (f : Nat) (rest : List Char) :
    decodeKeepFuel endc (f + 1) (encChar kq cond c ++ rest) = (decodeKeepFuel endc f rest).map (c :: ·) := by
  have hamp : ('&' : Char) ≠ endc := by rcases hend with h | ⟨h, _⟩ <;> rw [h] <;> decide
  unfold encChar
  split_ifs with h1 h2 h3 h4 h5 h6
  · subst h1
    simp [decodeKeepFuel, hamp, getEntity, startsWith]
  · subst h2
    simp [decodeKeepFuel, hamp, getEntity, startsWith]
  · subst h3
    simp [decodeKeepFuel, hamp, getEntity, startsWith]
  · simp only [Bool.and_eq_true, Bool.not_eq_true', decide_eq_true_eq] at h4
    rw [h4.1]
    simp [decodeKeepFuel, hamp, getEntity, startsWith]
  · simp only [Bool.and_eq_true, Bool.not_eq_true', decide_eq_true_eq] at h5
    rw [h5.1]
    simp [decodeKeepFuel, hamp, getEntity, startsWith]
  · simp only [Bool.and_eq_true, decide_eq_true_eq] at h6
    have := getEntity_ctrl c h6.1 rest
    simp only [List.cons_append, List.nil_append] at this ⊢
    simp only [decodeKeepFuel, hamp, if_false, if_true, this]
    simp
  · -- raw character: not `&`, not the terminator
    have hne : c ≠ endc := by
      rcases hend with h | ⟨h, hk⟩
      · rw [h]; exact h2
      · rw [h]; intro hc; apply h4; simp [hc, hk]
    simp [decodeKeepFuel, hne, h1]

theorem decodeKeepFuel_flatMap (endc : Char) (kq cond : Bool) (hend : endc = '<' ∨ (endc = '"' ∧ kq = false))
    (s tail : List Char) (f : Nat) (hf : s.length < f) :
    decodeKeepFuel endc f (s.flatMap (encChar kq cond) ++ endc :: tail) = some s := by
  induction s generalizing f with
  | nil =>
    cases f with
    | zero => simp at hf
    | succ f => simp [decodeKeepFuel]
  | cons c r ih =>
    cases f with
    | zero => simp at hf
    | succ f =>
      rw [List.flatMap_cons, List.append_assoc, decodeKeepFuel_encChar endc kq cond hend c f,
        ih f (by simpa using hf)]
      rfl

theorem encChar_no_markup (kq cond : Bool) (c : Char) :
    '<' ∉ encChar kq cond c ∧ '>' ∉ encChar kq cond c ∧
    (kq = false → '"' ∉ encChar kq cond c ∧ '\'' ∉ encChar kq cond c) := by
  have hx : ∀ n, n < 16 → hexDigitUpper n ≠ '<' ∧ hexDigitUpper n ≠ '>' ∧ hexDigitUpper n ≠ '"' ∧ hexDigitUpper n ≠ '\'' := by
    intro n hn; interval_cases n <;> decide
  unfold encChar
  split_ifs with h1 h2 h3 h4 h5 h6
  · exact ⟨by decide, by decide, fun _ => ⟨by decide, by decide⟩⟩
  · exact ⟨by decide, by decide, fun _ => ⟨by decide, by decide⟩⟩
  · exact ⟨by decide, by decide, fun _ => ⟨by decide, by decide⟩⟩
  · exact ⟨by decide, by decide, fun _ => ⟨by decide, by decide⟩⟩
  · exact ⟨by decide, by decide, fun _ => ⟨by decide, by decide⟩⟩
  · simp only [Bool.and_eq_true, decide_eq_true_eq] at h6
    obtain ⟨ha1, ha2, ha3, ha4⟩ := hx (c.toNat / 16) (by omega)
    obtain ⟨hb1, hb2, hb3, hb4⟩ := hx (c.toNat % 16) (by omega)
    refine ⟨?_, ?_, fun _ => ⟨?_, ?_⟩⟩ <;>
      simp only [List.mem_cons, List.not_mem_nil, or_false, not_or] <;>
      refine ⟨by decide, by decide, by decide, ?_, ?_, by decide⟩ <;>
      intro h <;>
      first
        | exact ha1 h.symm | exact ha2 h.symm | exact ha3 h.symm | exact ha4 h.symm
        | exact hb1 h.symm | exact hb2 h.symm | exact hb3 h.symm | exact hb4 h.symm
  · refine ⟨by simpa using Ne.symm h2, by simpa using Ne.symm h3, fun hk => ⟨?_, ?_⟩⟩
    · simp only [List.mem_singleton]; intro h; apply h4; simp [← h, hk]
    · simp only [List.mem_singleton]; intro h; apply h5; simp [← h, hk]

theorem encChar_noCR (kq cond : Bool) (c : Char) (hc : c ≠ '\r') : '\r' ∉ encChar kq cond c := by
  have hx : ∀ n, n < 16 → hexDigitUpper n ≠ '\r' := by
    intro n hn; interval_cases n <;> decide
  unfold encChar
  split_ifs with h1 h2 h3 h4 h5 h6
  · decide
  · decide
  · decide
  · decide
  · decide
  · simp only [Bool.and_eq_true, decide_eq_true_eq] at h6
    have ha := hx (c.toNat / 16) (by omega)
    have hb := hx (c.toNat % 16) (by omega)
    simp only [List.mem_cons, List.not_mem_nil, or_false, not_or]
    exact ⟨by decide, by decide, by decide, fun h => ha h.symm, fun h => hb h.symm, by decide⟩
  · simp only [List.mem_singleton]; exact fun h => hc h.symm

/-! ### the literal grammar of `scanFloat` -/

theorem takeDigits_append (ds rest : List Char) (hds : ds.all isDigit = true)
    (hr : ∀ c r, rest = c :: r → isDigit c = false) : takeDigits (ds ++ rest) = (ds, rest) := by
  induction ds with
  | nil =>
    cases rest with
    | nil => rfl
    | cons c r => simp [takeDigits, hr c r rfl]
  | cons d t ih =>
    simp only [List.all_cons, Bool.and_eq_true] at hds
    simp [takeDigits, hds.1, ih hds.2]

theorem digit_ne (d c : Char) (hd : isDigit d = true) (hc : isDigit c = false) : d ≠ c := by
  intro e; subst e; rw [hd] at hc; cases hc

theorem digit_not_space (d : Char) (hd : isDigit d = true) : isSpace d = false := by
  have h := fun c hc => digit_ne d c hd hc
  simp [isSpace, h ' ' (by decide), h '\t' (by decide), h '\n' (by decide), h '\x0b' (by decide),
    h '\x0c' (by decide), h '\r' (by decide)]

theorem takeSign_digit (d : Char) (r : List Char) (hd : isDigit d = true) : takeSign (d :: r) = (false, d :: r) := by
  have h1 := digit_ne d '+' hd (by decide)
  have h2 := digit_ne d '-' hd (by decide)
  unfold takeSign
  split
  · rename_i heq; injection heq with e _; exact absurd e h1
  · rename_i heq; injection heq with e _; exact absurd e h2
  · rfl

theorem takeExp_stop (mant : Bool) (rest : List Char) (hr : ∀ c r, rest = c :: r → c ≠ 'e' ∧ c ≠ 'E') :
    takeExp mant rest = ((false, false, false, []), rest) := by
  cases rest with
  | nil => rfl
  | cons c r =>
    obtain ⟨h1, h2⟩ := hr c r rfl
    simp [takeExp, h1, h2]

/-- **decimal literal with a fraction**: `_M_extract_float` accumulates exactly `ip.fp` and leaves `rest`, whenever `rest`
is empty or starts with a character that is neither a digit nor `e`/`E` -/
theorem scanFloat_decimal (ip fp rest : List Char) (hip : ip ≠ []) (hipd : ip.all isDigit = true)
    (hfpd : fp.all isDigit = true) (hrest : ∀ c r, rest = c :: r → isDigit c = false ∧ c ≠ 'e' ∧ c ≠ 'E') :
    scanFloat (ip ++ '.' :: (fp ++ rest)) = (⟨false, ip, fp, false, false, false, []⟩, rest) := by
  obtain ⟨d, ds, rfl⟩ := List.exists_cons_of_ne_nil hip
  have hd : isDigit d = true := by simp only [List.all_cons, Bool.and_eq_true] at hipd; exact hipd.1
  unfold scanFloat
  rw [List.cons_append, dropWS_nonspace d _ (digit_not_space d hd), takeSign_digit d _ hd]
  simp only
  rw [← List.cons_append, takeDigits_append (d :: ds) ('.' :: (fp ++ rest)) hipd
    (fun c r h => by injection h with e _; rw [← e]; decide)]
  simp only [takeFrac]
  rw [takeDigits_append fp rest hfpd (fun c r h => (hrest c r h).1)]
  simp only [List.isEmpty_cons, Bool.false_and, Bool.not_false]
  rw [takeExp_stop true rest (fun c r h => (hrest c r h).2)]

/-- **integer-form literal** (no `.`): the same, with `rest` not starting with a digit, `.` or `e`/`E` -/
theorem scanFloat_integer (ip rest : List Char) (hip : ip ≠ []) (hipd : ip.all isDigit = true)
    (hrest : ∀ c r, rest = c :: r → isDigit c = false ∧ c ≠ '.' ∧ c ≠ 'e' ∧ c ≠ 'E') :
    scanFloat (ip ++ rest) = (⟨false, ip, [], false, false, false, []⟩, rest) := by
  obtain ⟨d, ds, rfl⟩ := List.exists_cons_of_ne_nil hip
  have hd : isDigit d = true := by simp only [List.all_cons, Bool.and_eq_true] at hipd; exact hipd.1
  unfold scanFloat
  rw [List.cons_append, dropWS_nonspace d _ (digit_not_space d hd), takeSign_digit d _ hd]
  simp only
  rw [← List.cons_append, takeDigits_append (d :: ds) rest hipd (fun c r h => (hrest c r h).1)]
  have hfrac : takeFrac rest = ([], rest) := by
    cases rest with
    | nil => rfl
    | cons c r =>
      have := (hrest c r rfl).2.1
      unfold takeFrac
      split
      · rename_i heq; injection heq with e _; exact absurd e this
      · rfl
  simp only [hfrac, List.isEmpty_cons, Bool.false_and, Bool.not_false]
  rw [takeExp_stop true rest (fun c r h => ⟨(hrest c r h).2.2.1, (hrest c r h).2.2.2⟩)]

end C32
