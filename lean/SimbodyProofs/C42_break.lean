import SimbodyProofs.C42_outer

/-! # C42 — `breakLoops` -/
namespace C42

/-- `breakLoops` restricted to the joints `< n` -/
def bl (g : Input) (s : St) (n : Nat) : St := (List.range n).foldl (breakStep g) s

theorem bl_succ (g : Input) (s : St) (n : Nat) : bl g s (n + 1) = breakStep g (bl g s n) n := by
  simp [bl, List.range_succ, List.foldl_append]

/-- invariant of the loop of `breakLoops` after the joints `< n` have been processed (`J` = the joint list) -/
structure InvC (g : Input) (J : List Joint) (n : Nat) (s : St) : Prop where
  inv : Inv g s
  m7 : M7 g s
  joints : s.joints = J
  allin : ∀ b, b < g.bodies.length → b = 0 ∨ b ∈ outbs s
  cons_nodup : (cjoints s).Nodup
  cons_lt : ∀ c ∈ s.cons, c.joint < n ∧ c.joint ∉ mjoints s
  done : ∀ j, j < n → j ∈ mjoints s ∨ j ∈ cjoints s
  jloop_idx : ∀ j i, s.jloop j = some i → (s.cons[i]?).map (·.joint) = some j
  cons_kind : ∀ c ∈ s.cons, c.joint < s.joints.length ∧ (typeOf g c.type).good = true ∧
      c.type = (jointAt s c.joint).type ∧ c.parent = (jointAt s c.joint).parent ∧ c.child = (jointAt s c.joint).child
  slaves_welded : ∀ b, g.bodies.length ≤ b → b < s.nb → ∃ m ∈ s.mobs, m.outb = b ∧ SlaveMob g s m

/-- appending a mobilizer that is exempt (its outboard body is not an input body) keeps `M7` -/
theorem M7_snoc_exempt {g : Input} {s s' : St} {m : Mob} (hM : M7 g s) (hmobs : s'.mobs = s.mobs ++ [m])
    (hj : s'.joints = s.joints) (hex : ¬ m.outb < g.bodies.length) : M7 g s' := by
  intro i m0 hi hlt hn
  rw [hmobs] at hi ⊢
  by_cases hil : i < s.mobs.length
  · rw [List.getElem?_append_left hil] at hi
    obtain ⟨m', hm', hinb⟩ := hM i m0 hi hlt ((NeedsNext_congr hj m0).mp hn)
    have hi1 : i + 1 < s.mobs.length := by
      by_contra hcon
      rw [List.getElem?_eq_none (Nat.le_of_not_lt hcon)] at hm'; cases hm'
    exact ⟨m', by rw [List.getElem?_append_left hi1]; exact hm', hinb⟩
  · exfalso
    have hge : s.mobs.length ≤ i := Nat.le_of_not_lt hil
    rw [List.getElem?_append_right hge] at hi
    by_cases h0 : i - s.mobs.length = 0
    · rw [h0] at hi; simp at hi; subst hi; exact hex hlt
    · have : ([m] : List Mob)[i - s.mobs.length]? = none := by
        apply List.getElem?_eq_none; simp; omega
      rw [this] at hi; cases hi

/-- `breakStep` when the joint becomes a loop constraint -/
def pushCons (s : St) (c : LoopC) : St :=
  { s with cons := s.cons ++ [c], jloop := upd s.jloop c.joint (some s.cons.length) }

theorem breakStep_done {g : Input} {s : St} {n : Nat} (h : (s.jmob n).isSome = true) : breakStep g s n = s := by
  simp [breakStep, h]

theorem breakStep_loop {g : Input} {s : St} {n : Nat} (h : s.jmob n = none)
    (hg : (typeOf g (jointAt s n).type).good = true) :
    breakStep g s n = pushCons s ⟨(jointAt s n).type, n, (jointAt s n).parent, (jointAt s n).child⟩ := by
  simp [breakStep, pushCons, h, hg]

theorem breakStep_slave {g : Input} {s : St} {n lp : Nat} (h : s.jmob n = none)
    (hg : (typeOf g (jointAt s n).type).good = false) (hlp : s.level (jointAt s n).parent = some lp) :
    breakStep g s n = pushMob s ⟨n, lp + 1, (jointAt s n).parent, s.nb, false⟩ (s.nb + 1)
      (upd s.master s.nb (some (jointAt s n).child))
      (upd s.slaves (jointAt s n).child (s.slaves (jointAt s n).child ++ [s.nb])) := by
  simp [breakStep, pushMob, h, hg, hlp]

theorem breakStep_spec {g : Input} {J : List Joint} {n : Nat} {s : St} (hC : InvC g J n s) (hn : n < s.joints.length) :
    InvC g J (n + 1) (breakStep g s n) := by
  have hI := hC.inv
  by_cases hjm : (s.jmob n).isSome = true
  · -- already a mobilizer
    rw [breakStep_done hjm]
    refine { hC with cons_lt := ?_, done := ?_ }
    · intro c hc; exact ⟨Nat.lt_succ_of_lt (hC.cons_lt c hc).1, (hC.cons_lt c hc).2⟩
    · intro j hj
      by_cases hjn : j = n
      · subst hjn; left; exact (hI.jmob_some j).mp hjm
      · exact hC.done j (by omega)
  · have hfree : s.jmob n = none := by simpa using hjm
    have hn_notin : n ∉ mjoints s := fun hmem => hjm ((hI.jmob_some n).mpr hmem)
    have hn_notc : n ∉ cjoints s := by
      intro hmem
      simp only [cjoints, List.mem_map] at hmem
      obtain ⟨c, hc, hcj⟩ := hmem
      have := (hC.cons_lt c hc).1
      omega
    by_cases hgood : (typeOf g (jointAt s n).type).good = true
    · -- loop constraint
      rw [breakStep_loop hfree hgood]
      generalize hcdef : (⟨(jointAt s n).type, n, (jointAt s n).parent, (jointAt s n).child⟩ : LoopC) = c
      have hcj : c.joint = n := by rw [← hcdef]
      refine
        { inv := ⟨hI.nb_pos, hI.nb_ge, hI.joints_wf, hI.lvl0, hI.tree, hI.outb_nodup, hI.outb_pos, hI.outb_lt,
                  hI.ordered, hI.joint_nodup, hI.jmob_some, hI.jmob_idx, hI.bmob_idx, hI.mob_kind, hI.levels,
                  hI.lvl_bound, hI.masters⟩,
          m7 := hC.m7, joints := hC.joints, allin := hC.allin, cons_nodup := ?_, cons_lt := ?_, done := ?_,
          jloop_idx := ?_, cons_kind := ?_, slaves_welded := hC.slaves_welded }
      · show ((s.cons ++ [c]).map (·.joint)).Nodup
        simp only [List.map_append, List.map_cons, List.map_nil]
        rw [List.nodup_append]
        refine ⟨hC.cons_nodup, by simp, ?_⟩
        intro a ha b hb
        simp at hb; subst hb
        intro he; subst he; rw [hcj] at ha; exact hn_notc ha
      · intro c' hc'
        replace hc' : c' ∈ s.cons ∨ c' = c := by simpa [pushCons] using hc'
        rcases hc' with hc' | rfl
        · exact ⟨Nat.lt_succ_of_lt (hC.cons_lt c' hc').1, (hC.cons_lt c' hc').2⟩
        · rw [hcj]; exact ⟨Nat.lt_succ_self n, hn_notin⟩
      · intro j hj
        by_cases hjn : j = n
        · subst hjn; right; simp [cjoints, pushCons, hcj]
        · rcases hC.done j (by omega) with h | h
          · left; exact h
          · right; simp only [cjoints, pushCons, List.map_append, List.mem_append]; left; exact h
      · intro j i hji
        show ((s.cons ++ [c])[i]?).map (·.joint) = some j
        change upd s.jloop c.joint (some s.cons.length) j = some i at hji
        by_cases hj : j = c.joint
        · subst hj; simp at hji; subst hji; simp
        · rw [upd_ne _ _ hj] at hji
          have := hC.jloop_idx j i hji
          have hi : i < s.cons.length := by
            by_contra hcon
            simp [List.getElem?_eq_none (Nat.le_of_not_lt hcon)] at this
          rw [List.getElem?_append_left hi]; exact this
      · intro c' hc'
        replace hc' : c' ∈ s.cons ∨ c' = c := by simpa [pushCons] using hc'
        rcases hc' with hc' | rfl
        · exact hC.cons_kind c' hc'
        · rw [← hcdef]; exact ⟨hn, hgood, rfl, rfl, rfl⟩
    · -- slave body + mobilizer
      have hgood' : (typeOf g (jointAt s n).type).good = false := by simpa using hgood
      obtain ⟨hpl, hcl⟩ := hI.joints_wf n hn
      have hptree : (s.level (jointAt s n).parent).isSome = true :=
        (hI.tree _).mpr (hC.allin _ hpl)
      obtain ⟨lp, hlp⟩ := Option.isSome_iff_exists.mp hptree
      have hnb_none : s.level s.nb = none := by
        have hnot : ¬ (s.nb = 0 ∨ s.nb ∈ outbs s) := by
          intro h
          rcases h with h | h
          · have := hI.nb_ge; have := hI.nb_pos; omega
          · obtain ⟨m', hm', ho⟩ := mem_outbs.mp h
            have := hI.outb_lt m' hm'; omega
        have := mt (hI.tree s.nb).mp hnot
        simpa using this
      rw [breakStep_slave hfree hgood' hlp]
      generalize hmdef : (⟨n, lp + 1, (jointAt s n).parent, s.nb, false⟩ : Mob) = m
      have hmj : m.joint = n := by rw [← hmdef]
      have hminb : m.inb = (jointAt s n).parent := by rw [← hmdef]
      have hmoutb : m.outb = s.nb := by rw [← hmdef]
      have hmlev : m.level = lp + 1 := by rw [← hmdef]
      have hmrev : m.rev = false := by rw [← hmdef]
      generalize hs' : pushMob s m (s.nb + 1) (upd s.master s.nb (some (jointAt s n).child))
              (upd s.slaves (jointAt s n).child (s.slaves (jointAt s n).child ++ [s.nb])) = s'
      have hs'j : s'.joints = s.joints := by rw [← hs']; rfl
      have hs'mobs : s'.mobs = s.mobs ++ [m] := by rw [← hs']; rfl
      have hs'master : s'.master = upd s.master s.nb (some (jointAt s n).child) := by rw [← hs']; rfl
      have hs'slaves : s'.slaves = upd s.slaves (jointAt s n).child (s.slaves (jointAt s n).child ++ [s.nb]) := by
        rw [← hs']; rfl
      have hs'nb : s'.nb = s.nb + 1 := by rw [← hs']; rfl
      have hs'cons : s'.cons = s.cons := by rw [← hs']; rfl
      have hs'jloop : s'.jloop = s.jloop := by rw [← hs']; rfl
      have hnbge := hI.nb_ge
      have hkind_new : SlaveMob g s' m := by
        refine ⟨by rw [hmoutb]; exact hnbge, hmrev, ?_, ?_, ?_, ?_, ?_⟩
        · rw [jointAt_congr hs'j, hmj]; exact hminb
        · rw [jointAt_congr hs'j, hmj, hs'master, hmoutb]; simp
        · rw [jointAt_congr hs'j, hmj]; exact hcl
        · rw [jointAt_congr hs'j, hmj, hs'slaves, hmoutb]; simp
        · rw [jointAt_congr hs'j, hmj]; exact hgood'
      have hkind_old : ∀ m' ∈ s.mobs, SlaveMob g s m' → SlaveMob g s' m' := by
        intro m' hm' ⟨h1, h2, h3, h4, h5, h6, h7⟩
        have hne : m'.outb ≠ s.nb := by have := hI.outb_lt m' hm'; omega
        refine ⟨h1, h2, ?_, ?_, ?_, ?_, ?_⟩
        · rw [jointAt_congr hs'j]; exact h3
        · rw [jointAt_congr hs'j, hs'master, upd_ne _ _ hne]; exact h4
        · rw [jointAt_congr hs'j]; exact h5
        · rw [jointAt_congr hs'j, hs'slaves, upd_apply]
          split
          · rename_i hc; rw [← hc]; exact List.mem_append_left _ h6
          · exact h6
        · rw [jointAt_congr hs'j]; exact h7
      have hI' : Inv g s' := by
        rw [← hs']
        refine push_inv hI (l := lp) (by rw [hminb]; exact hlp) (by rw [hmoutb]; exact hnb_none) hmlev
          (by rw [hmj]; exact hn) (by rw [hmj]; exact hfree) (Nat.le_succ _) (by rw [hmoutb]; exact Nat.lt_succ_self _)
          (Or.inr (by rw [hs']; exact hkind_new)) (by rw [hs']; exact hkind_old) ?_
        intro b hb
        have : b ≠ s.nb := by omega
        rw [upd_ne _ _ this]; exact hI.masters b hb
      have hmj' : mjoints s' = mjoints s ++ [n] := by simp [mjoints, hs'mobs, hmj]
      have houtbs' : outbs s' = outbs s ++ [s.nb] := by simp [outbs, hs'mobs, hmoutb]
      refine
        { inv := hI', m7 := M7_snoc_exempt hC.m7 hs'mobs hs'j (by rw [hmoutb]; omega),
          joints := hs'j.trans hC.joints, allin := ?_, cons_nodup := ?_, cons_lt := ?_, done := ?_,
          jloop_idx := ?_, cons_kind := ?_, slaves_welded := ?_ }
      · intro b hb
        rcases hC.allin b hb with h | h
        · left; exact h
        · right; rw [houtbs']; exact List.mem_append_left _ h
      · simp only [cjoints, hs'cons]; exact hC.cons_nodup
      · intro c hc
        rw [hs'cons] at hc
        obtain ⟨h1, h2⟩ := hC.cons_lt c hc
        refine ⟨Nat.lt_succ_of_lt h1, ?_⟩
        rw [hmj']
        simp only [List.mem_append, List.mem_singleton, not_or]
        exact ⟨h2, by omega⟩
      · intro j hj
        by_cases hjn : j = n
        · subst hjn; left; rw [hmj']; simp
        · rcases hC.done j (by omega) with h | h
          · left; rw [hmj']; exact List.mem_append_left _ h
          · right; simp only [cjoints, hs'cons]; exact h
      · intro j i hji
        rw [hs'jloop] at hji; rw [hs'cons]; exact hC.jloop_idx j i hji
      · intro c hc
        rw [hs'cons] at hc
        rw [hs'j]; simp only [jointAt_congr hs'j]
        exact hC.cons_kind c hc
      · intro b hb1 hb2
        rw [hs'nb] at hb2
        by_cases hbn : b = s.nb
        · subst hbn
          exact ⟨m, by rw [hs'mobs]; simp, hmoutb, hkind_new⟩
        · obtain ⟨m', hm', ho, hk⟩ := hC.slaves_welded b hb1 (by omega)
          exact ⟨m', by rw [hs'mobs]; exact List.mem_append_left _ hm', ho, hkind_old m' hm' hk⟩

theorem bl_spec {g : Input} {s : St} (hC : InvC g s.joints 0 s) :
    ∀ n, n ≤ s.joints.length → InvC g s.joints n (bl g s n) := by
  intro n
  induction n with
  | zero => intro _; simpa [bl] using hC
  | succ k ih =>
    intro hk
    have h1 := ih (Nat.le_of_succ_le hk)
    rw [bl_succ]
    exact breakStep_spec h1 (by rw [h1.joints]; exact hk)

end C42
