import SimbodyProofs.C16_lemmas
/-!
# C16 — realization results depend only on the current state values  (property theorems)

Model: `SimbodyModel/C16.lean` (cache protocol of GeneralForceSubsystem.cpp and Force_Gravity.cpp on top of the
C18 stage model); table `SimbodyModel/Gen/ForceParams.lean` is regenerated from /repo's source on every run.
Core Lean only.
-/
namespace C16
open Gen

/-! ## the obligation on the code (translator) -/

/-- a class that keeps *lazy* cache entries of its own (computed-by = Infinity: valid until their depends-on stage is
invalidated) must not have a parameter variable that invalidates only a later stage than such an entry depends on
— otherwise a parameter change leaves the entry valid with stale contents.  Force::Gravity is exempt: its setters
invalidate the entry explicitly (`gravity_setters_ok`).  This is what lets the model treat such elements
(LinearBushing, CableSpring) as recomputed at every realization. -/
def LazyRowOK (c : FClass) : Bool :=
  c.name == "Force::GravityImpl" || c.cacheStages.all (fun dc => dc.2 != 10 || c.paramStages.all (· ≤ dc.1))

/-- every force class flagged position-only has all its state parameters invalidating a stage ≤ Position, no force
class has a parameter that invalidates only a stage after Dynamics, and no class has a lazy cache entry of its own
that a parameter change would leave valid (`LazyRowOK`) -/
def TableOK (tbl : List FClass) : Bool :=
  tbl.all (fun c => (c.posOnly != some true || c.paramStages.all (· ≤ 5)) && c.paramStages.all (· ≤ 7) && LazyRowOK c)

/-- every Force::Gravity setter that writes the parameter variable invalidates the lazy force cache first -/
def GravitySettersOK (l : List (String × Bool × Bool)) : Bool := l.all (fun s => !s.2.1 || s.2.2)

/-- the extraction's structural self-checks passed -/
theorem extraction_ok : Gen.extractionOK = true := by decide

/-- **the obligation, discharged on the table regenerated from the current source** -/
theorem table_ok : TableOK Gen.table = true := by decide

theorem gravity_setters_ok : GravitySettersOK Gen.gravitySetters = true ∧ Gen.gravitySetters.length ≥ 4 := by decide

def LazyOK (tbl : List FClass) : Bool := tbl.all LazyRowOK

/-- **obligation on the current source** (a clause of `TableOK`, stated separately): parameter stage ≤ depends-on
stage of every lazy cache entry of the class -/
theorem lazy_ok : LazyOK Gen.table = true := by decide

/-- the seeded defect "LinearBushing parameters invalidate Dynamics only" violates the obligation -/
example : TableOK [{ name := "Force::LinearBushingImpl", posOnly := some false, paramStages := [7],
                     cacheStages := [(5, 10), (6, 10), (6, 10)], nZ := 1 }] = false := by decide

/-- well-formed force list (what `TableOK` gives for forces that are instances of table rows) -/
structure WF (fs : List Force) : Prop where
  grav : ∀ f ∈ fs, f.gravity = true → f.posOnly = false
  pos : ∀ f ∈ fs, f.posOnly = true → ∀ s ∈ f.paramStages, s ≤ 5
  dyn : ∀ f ∈ fs, ∀ s ∈ f.paramStages, s ≤ 7
  gs : ∀ f ∈ fs, ∀ k, f.setterInval.getD k true = true

theorem getD_true_of_all (l : List Bool) (h : ∀ b ∈ l, b = true) (k : Nat) : l.getD k true = true := by
  rw [List.getD_eq_getElem?_getD]
  cases hk : l[k]? with
  | none => rfl
  | some b => exact h b (List.mem_of_getElem? hk)

/-- forces that are instances of rows of a table satisfying `TableOK` are well formed (for `Force::Custom` the
user's flag must respect the same rule: its row has no parameters) -/
theorem wf_of_table (tbl : List FClass) (h : TableOK tbl = true) (cs : List (FClass × Bool))
    (hm : ∀ c ∈ cs, c.1 ∈ tbl) (hc : ∀ c ∈ cs, c.1.posOnly = none → c.1.paramStages = [])
    (hg : ∀ c ∈ cs, c.1.name = "Force::GravityImpl" → c.1.posOnly = some false)
    (hgs : GravitySettersOK Gen.gravitySetters = true) :
    WF (cs.map (fun c => Force.ofClass c.1 c.2)) := by
  unfold TableOK at h
  simp only [List.all_eq_true, Bool.and_eq_true, Bool.or_eq_true, bne_iff_ne, ne_eq, decide_eq_true_eq] at h
  refine ⟨?_, ?_, ?_, ?_⟩
  · intro f hf hgr
    obtain ⟨c, hcm, rfl⟩ := List.mem_map.mp hf
    simp only [Force.ofClass, beq_iff_eq] at hgr ⊢
    rw [hg c hcm hgr]; rfl
  · intro f hf hp s hs
    obtain ⟨c, hcm, rfl⟩ := List.mem_map.mp hf
    simp only [Force.ofClass] at hp hs
    have := h c.1 (hm c hcm)
    cases hpo : c.1.posOnly with
    | none => rw [hc c hcm hpo] at hs; cases hs
    | some b =>
      rw [hpo] at hp
      simp only [Option.getD_some] at hp
      subst hp
      rcases this.1.1 with h1 | h1
      · exact absurd hpo h1
      · exact h1 s hs
  · intro f hf s hs
    obtain ⟨c, hcm, rfl⟩ := List.mem_map.mp hf
    exact (h c.1 (hm c hcm)).1.2 s hs
  · intro f hf k
    obtain ⟨c, hcm, rfl⟩ := List.mem_map.mp hf
    apply getD_true_of_all
    intro b hb
    simp only [Force.ofClass] at hb
    split at hb
    · obtain ⟨x, hx, rfl⟩ := List.mem_map.mp hb
      unfold GravitySettersOK at hgs
      exact List.all_eq_true.mp hgs x hx
    · cases hb

/-! ## the invariant: whatever is cached was computed from the current values -/

structure Inv (fs : List Force) (st : St) : Prop where
  l : LInv fs st
  cache : st.cachedValid = true → 5 ≤ st.stage → st.cacheTotal = posContribs fs st.vars
  nopos : anyPosOnly fs = false → st.cachedValid = false
  tot : 7 ≤ st.stage → st.total = canonical fs st.vars

theorem dynamics_spec (fs : List Force) (st : St) (hl : LInv fs st) (hs : 5 ≤ st.stage)
    (hc : st.cachedValid = true → st.cacheTotal = posContribs fs st.vars) :
    LInv fs (st.dynamics fs) ∧ (st.dynamics fs).vars = st.vars ∧ (st.dynamics fs).stage = st.stage ∧
    (st.dynamics fs).total = canonical fs st.vars ∧
    ((st.dynamics fs).cachedValid = true → (st.dynamics fs).cacheTotal = posContribs fs st.vars) ∧
    (anyPosOnly fs = false → (st.dynamics fs).cachedValid = st.cachedValid) := by
  unfold St.dynamics
  by_cases h1 : (!anyPosOnly fs) = true
  · rw [if_pos h1]
    obtain ⟨a, b, c⟩ := calcAll_spec fs (enabledIdx fs st.vars (fun _ => true)) st hl hs
    refine ⟨⟨a.lenF, a.lenS, a.lazy, a.low, a.zero⟩, b.vars, b.stage, ?_, ?_, fun _ => b.cv⟩
    · simp only [c, canonical, h1, if_true]
    · intro hv; simp only at hv ⊢; rw [b.ct]; exact hc (by rw [← b.cv]; exact hv)
  · rw [if_neg h1]
    by_cases h2 : (!st.cachedValid) = true
    · rw [if_pos h2]
      obtain ⟨a, b, c⟩ := calcAll_spec fs (enabledIdx fs st.vars (fun _ => true)) st hl hs
      have hpos : ((st.calcAll fs (enabledIdx fs st.vars (fun _ => true))).2.filter
            (fun c => (fs.getD c.1 default).posOnly)) = posContribs fs st.vars := by
        rw [c]; unfold enabledIdx posContribs enabledIdx
        rw [filter_map_contrib fs st.vars _ _ (fun i => (fs.getD i default).posOnly)]
        congr 1
        apply List.filter_congr
        intro i _; simp
      have hneg : ((st.calcAll fs (enabledIdx fs st.vars (fun _ => true))).2.filter
            (fun c => !(fs.getD c.1 default).posOnly)) =
            (enabledIdx fs st.vars (fun f => !f.posOnly)).map (contrib fs st.vars) := by
        rw [c]; unfold enabledIdx
        rw [filter_map_contrib fs st.vars _ _ (fun i => !(fs.getD i default).posOnly)]
        congr 1
        apply List.filter_congr
        intro i _; simp
      refine ⟨⟨a.lenF, a.lenS, a.lazy, a.low, a.zero⟩, b.vars, b.stage, ?_, ?_, ?_⟩
      · simp only [hpos, hneg, canonical, h1]; rfl
      · intro _; exact hpos
      · intro hn; rw [hn] at h1; simp at h1
    · rw [if_neg h2]
      have hv : st.cachedValid = true := by simpa using h2
      obtain ⟨a, b, c⟩ := calcAll_spec fs (enabledIdx fs st.vars (fun f => !f.posOnly)) st hl hs
      refine ⟨⟨a.lenF, a.lenS, a.lazy, a.low, a.zero⟩, b.vars, b.stage, ?_, ?_, fun _ => b.cv⟩
      · simp only [c, b.ct, hc hv, canonical, h1]; rfl
      · intro _; simp only; rw [b.ct]; exact hc hv


theorem realize_spec (fs : List Force) (st : St) (g : Nat) (h : Inv fs st) :
    Inv fs (st.realize fs g) ∧ (st.realize fs g).vars = st.vars ∧
    (7 ≤ g → (st.realize fs g).total = canonical fs st.vars) := by
  unfold St.realize
  -- the Position step
  generalize hst1 : (if st.stage < 5 ∧ 5 ≤ g ∧ anyPosOnly fs = true then { st with cachedValid := false } else st) = st1
  have e1 : st1.vars = st.vars ∧ st1.stage = st.stage ∧ st1.lazyFresh = st.lazyFresh ∧ st1.lazySnap = st.lazySnap ∧
      st1.cacheTotal = st.cacheTotal ∧ st1.total = st.total := by
    rw [← hst1]; split <;> exact ⟨rfl, rfl, rfl, rfl, rfl, rfl⟩
  have ecv : st1.cachedValid = true → st.cachedValid = true ∧ ¬(st.stage < 5 ∧ 5 ≤ g ∧ anyPosOnly fs = true) := by
    rw [← hst1]; split
    · intro hx; cases hx
    · rename_i hn; intro hx; exact ⟨hx, hn⟩
  have ecv' : st.cachedValid = false → st1.cachedValid = false := by
    rw [← hst1]; split
    · intro _; rfl
    · exact id
  obtain ⟨ev, es, ef, esn, ect, etot⟩ := e1
  have hl1 : LInv fs st1 := ⟨by rw [ef]; exact h.l.lenF, by rw [esn]; exact h.l.lenS,
    by intro i hg hf; rw [esn, ev]; rw [ef] at hf; exact h.l.lazy i hg hf,
    by intro hlt; rw [ef]; rw [es] at hlt; exact h.l.low hlt,
    by intro i hg hz; rw [esn, ev]; rw [ev] at hz; exact h.l.zero i hg hz⟩
  simp only
  by_cases hd : st.stage < 7 ∧ 7 ≤ g
  · rw [if_pos hd]
    have hl6 : LInv fs { st1 with stage := 6 } :=
      ⟨hl1.lenF, hl1.lenS, hl1.lazy, fun hlt => absurd hlt (by simp), hl1.zero⟩
    have hc6 : ({ st1 with stage := 6 } : St).cachedValid = true →
        ({ st1 with stage := 6 } : St).cacheTotal = posContribs fs ({ st1 with stage := 6 } : St).vars := by
      intro hv
      obtain ⟨hv0, hn⟩ := ecv hv
      show st1.cacheTotal = posContribs fs st1.vars
      rw [ect, ev]
      by_cases h5 : 5 ≤ st.stage
      · exact h.cache hv0 h5
      · have hno : anyPosOnly fs = false := by
          cases hp : anyPosOnly fs with
          | false => rfl
          | true => exact absurd ⟨by omega, by omega, hp⟩ hn
        rw [h.nopos hno] at hv0; cases hv0
    obtain ⟨a, b, c, d, e, f⟩ := dynamics_spec fs { st1 with stage := 6 } hl6 (by simp) hc6
    have hv' : (St.dynamics fs { st1 with stage := 6 }).vars = st.vars := by rw [b]; exact ev
    refine ⟨⟨⟨a.lenF, a.lenS, a.lazy, fun hlt => absurd hlt (by simp only; omega), a.zero⟩, ?_, ?_, ?_⟩, hv', ?_⟩
    · intro hv _
      show (St.dynamics fs { st1 with stage := 6 }).cacheTotal = posContribs fs (St.dynamics fs { st1 with stage := 6 }).vars
      rw [hv']
      exact (e hv).trans (by show posContribs fs st1.vars = _; rw [ev])
    · intro hno; simp only; rw [f hno]; exact ecv' (h.nopos hno)
    · intro _
      show (St.dynamics fs { st1 with stage := 6 }).total = canonical fs (St.dynamics fs { st1 with stage := 6 }).vars
      rw [hv']
      exact d.trans (by show canonical fs st1.vars = _; rw [ev])
    · intro _
      exact d.trans (by show canonical fs st1.vars = _; rw [ev])
  · rw [if_neg hd]
    refine ⟨⟨⟨hl1.lenF, hl1.lenS, hl1.lazy, ?_, hl1.zero⟩, ?_, ?_, ?_⟩, ev, ?_⟩
    · intro hlt; simp only at hlt; exact hl1.low (by rw [es]; omega)
    · intro hv h5
      simp only at hv h5 ⊢
      obtain ⟨hv0, hn⟩ := ecv hv
      rw [ect, ev]
      by_cases h5' : 5 ≤ st.stage
      · exact h.cache hv0 h5'
      · have hno : anyPosOnly fs = false := by
          cases hp : anyPosOnly fs with
          | false => rfl
          | true => exact absurd ⟨by omega, by omega, hp⟩ hn
        rw [h.nopos hno] at hv0; cases hv0
    · intro hno; exact ecv' (h.nopos hno)
    · intro h7
      have h7' : 7 ≤ max st.stage g := h7
      show st1.total = canonical fs st1.vars
      rw [etot, ev]; exact h.tot (by omega)
    · intro h7; show st1.total = _; rw [etot]; exact h.tot (by omega)

/-- the totals a realization to Dynamics delivers are the canonical totals of the current values -/
theorem result_eq_canonical (fs : List Force) (st : St) (h : Inv fs st) : result fs st = canonical fs st.vars :=
  (realize_spec fs st 7 h).2.2 (Nat.le_refl 7)


/-! ## every operation preserves the invariant -/

theorem getD_mem {fs : List Force} {i : Nat} (h : i < fs.length) : fs.getD i default ∈ fs := by
  have : fs.getD i default = fs[i] := by simp [List.getD_eq_getElem?_getD, List.getElem?_eq_getElem h]
  rw [this]; exact List.getElem_mem h

theorem posContribs_congr (fs : List Force) (hw : WF fs) (v w : Vars) (he : w.enabled = v.enabled)
    (ht : w.t = v.t) (hq : w.q = v.q) (hi : w.inst = v.inst) (ho : w.opt = v.opt)
    (hp : ∀ i, (fs.getD i default).posOnly = true → w.params.getD i [] = v.params.getD i []) :
    posContribs fs w = posContribs fs v := by
  unfold posContribs enabledIdx
  rw [he]
  apply List.map_congr_left
  intro i hmem
  have hf := (List.mem_filter.mp hmem)
  have hlt : i < fs.length := List.mem_range.mp hf.1
  have hpo : (fs.getD i default).posOnly = true := by
    have := hf.2; simp only [Bool.and_eq_true] at this; exact this.2
  have hng : (fs.getD i default).gravity = false := by
    cases hg : (fs.getD i default).gravity with
    | false => rfl
    | true => have := hw.grav _ (getD_mem hlt) hg; rw [this] at hpo; cases hpo
  unfold contrib
  rw [inputs_congr fs v w i (hp i hpo) (fun hg => by rw [hng] at hg; cases hg) ht hq hi ho
        (fun _ hx => by rw [hpo] at hx; cases hx)]

/-- a variable change that invalidates stage `g ≤ Dynamics` -/
theorem Inv.change {fs : List Force} (hw : WF fs) {st : St} (h : Inv fs st) (g : Nat) (hg7 : g ≤ 7) (v' : Vars)
    (hz : ∀ i, (fs.getD i default).gravity = true →
        v'.zeroMag.getD i false = st.vars.zeroMag.getD i false ∧ v'.params.getD i [] = st.vars.params.getD i [])
    (htq : 6 ≤ g → v'.t = st.vars.t ∧ v'.q = st.vars.q ∧ v'.enabled = st.vars.enabled ∧
        v'.inst = st.vars.inst ∧ v'.opt = st.vars.opt ∧
        ∀ i, (fs.getD i default).posOnly = true → v'.params.getD i [] = st.vars.params.getD i []) :
    Inv fs { (st.inval g) with vars := v' } := by
  have hfresh : ∀ i, (st.inval g).lazyFresh.getD i false = true →
      st.lazyFresh.getD i false = true ∧ ¬(g ≤ 5 ∧ 5 ≤ st.stage) := by
    intro i hf
    unfold St.inval at hf
    simp only at hf
    by_cases hc : g ≤ 5 ∧ 5 ≤ st.stage
    · rw [if_pos hc, getD_map_const_false] at hf; cases hf
    · rw [if_neg hc] at hf; exact ⟨hf, hc⟩
  refine ⟨⟨?_, h.l.lenS, ?_, ?_, ?_⟩, ?_, h.nopos, ?_⟩
  · show (st.inval g).lazyFresh.length = fs.length
    unfold St.inval; simp only; split <;> simp [h.l.lenF]
  · intro i hgr hf
    obtain ⟨hf0, hnc⟩ := hfresh i hf
    have h5 : 5 ≤ st.stage := by
      by_cases hlt : st.stage < 5
      · rw [h.l.low hlt i] at hf0; cases hf0
      · omega
    have hg6 : 6 ≤ g := by omega
    obtain ⟨ht, hq, _, hi, ho, _⟩ := htq hg6
    show st.lazySnap.getD i [] = inputs fs v' i
    rw [h.l.lazy i hgr hf0]
    exact (inputs_congr fs st.vars v' i (hz i hgr).2 (fun _ => (hz i hgr).1) ht hq hi ho
      (fun hx => by rw [hgr] at hx; cases hx)).symm
  · intro hlt i
    show (st.inval g).lazyFresh.getD i false = false
    have hlt' : min st.stage (g - 1) < 5 := hlt
    unfold St.inval; simp only
    by_cases hc : g ≤ 5 ∧ 5 ≤ st.stage
    · rw [if_pos hc]; exact getD_map_const_false _ _
    · rw [if_neg hc]; exact h.l.low (by omega) i
  · intro i hgr hzm
    show st.lazySnap.getD i [] = inputs fs v' i
    have hzm' : st.vars.zeroMag.getD i false = true := by rw [← (hz i hgr).1]; exact hzm
    rw [h.l.zero i hgr hzm']
    exact (inputs_zero fs st.vars v' i hgr (hz i hgr).2 hzm hzm').symm
  · intro hv h5
    have h5' : 5 ≤ min st.stage (g - 1) := h5
    obtain ⟨ht, hq, he, hi, ho, hp⟩ := htq (by omega)
    show st.cacheTotal = posContribs fs v'
    rw [h.cache hv (by omega)]
    exact (posContribs_congr fs hw st.vars v' he ht hq hi ho hp).symm
  · intro h7
    have h7' : 7 ≤ min st.stage (g - 1) := h7
    omega

theorem Inv.with_m {fs : List Force} {st : St} (h : Inv fs st) (x : MC) : Inv fs { st with m := x } :=
  ⟨⟨h.l.lenF, h.l.lenS, h.l.lazy, h.l.low, h.l.zero⟩, h.cache, h.nopos, h.tot⟩

/-- an invalidation of the cache alone (no variable changes) -/
theorem Inv.inval_same {fs : List Force} {st : St} (h : Inv fs st) (g : Nat) : Inv fs (st.inval g) := by
  have hfresh : ∀ i, (st.inval g).lazyFresh.getD i false = true → st.lazyFresh.getD i false = true := by
    intro i hf
    unfold St.inval at hf
    simp only at hf
    by_cases hc : g ≤ 5 ∧ 5 ≤ st.stage
    · rw [if_pos hc, getD_map_const_false] at hf; cases hf
    · rw [if_neg hc] at hf; exact hf
  refine ⟨⟨?_, h.l.lenS, fun i hgr hf => h.l.lazy i hgr (hfresh i hf), ?_, h.l.zero⟩, ?_, h.nopos, ?_⟩
  · show (st.inval g).lazyFresh.length = fs.length
    unfold St.inval; simp only; split <;> simp [h.l.lenF]
  · intro hlt i
    have hlt' : min st.stage (g - 1) < 5 := hlt
    cases hf : (st.inval g).lazyFresh.getD i false with
    | false => rfl
    | true =>
      have h0 := hfresh i hf
      by_cases hs : st.stage < 5
      · rw [h.l.low hs i] at h0; cases h0
      · unfold St.inval at hf; simp only at hf
        rw [if_pos ⟨by omega, by omega⟩, getD_map_const_false] at hf; cases hf
  · intro hv h5
    have h5' : 5 ≤ min st.stage (g - 1) := h5
    exact h.cache hv (by omega)
  · intro h7
    have h7' : 7 ≤ min st.stage (g - 1) := h7
    exact h.tot (by omega)

theorem getD_setParamVal_ne (ps : List (List Nat)) (i j v k : Nat) (h : k ≠ i) :
    (setParamVal ps i j v).getD k [] = ps.getD k [] := by
  unfold setParamVal; exact getD_setAt_ne _ _ _ _ _ h

theorem Inv.ensure {fs : List Force} {st : St} (h : Inv fs st) (i : Nat) (hs : 5 ≤ st.stage)
    (hg : (fs.getD i default).gravity = true) : Inv fs (st.ensure fs i) ∧ (st.ensure fs i).vars = st.vars ∧
      (st.ensure fs i).stage = st.stage := by
  obtain ⟨a, b, _⟩ := ensure_spec fs st i h.l hs hg
  refine ⟨⟨a, ?_, ?_, ?_⟩, b.vars, b.stage⟩
  · intro hv h5; rw [b.ct, b.vars]; exact h.cache (by rw [← b.cv]; exact hv) (by rw [← b.stage]; exact h5)
  · intro hno; rw [b.cv]; exact h.nopos hno
  · intro h7; rw [b.tot, b.vars]; exact h.tot (by rw [← b.stage]; exact h7)

/-- the variables after a Force::Gravity setter -/
def gravVars (v : Vars) (i j x : Nat) (zero : Bool) : Vars :=
  { v with params := setParamVal v.params i j x, zeroMag := setAt v.zeroMag i zero }

theorem step_gravSet_eq (fs : List Force) (st : St) (i j v : Nat) (zero : Bool) (k : Nat)
    (hgr : (fs.getD i default).gravity = true) (hk : (fs.getD i default).setterInval.getD k true = true) :
    C16.step fs st (.gravSet i j v zero k) =
      { st with stage := min st.stage 6, lazyFresh := setAt st.lazyFresh i false,
                vars := gravVars st.vars i j v zero,
                lazySnap := if zero = true then setAt st.lazySnap i (inputs fs (gravVars st.vars i j v zero) i)
                            else st.lazySnap } := by
  simp only [C16.step, if_pos hgr, hk, if_true, St.inval, gravVars]
  have : ¬ (7 ≤ 5 ∧ 5 ≤ st.stage) := by omega
  have h3 : ¬ (7 ≤ 3 ∧ 3 ≤ st.stage) := by omega
  simp only [if_neg this, if_neg h3]

theorem Inv.step {fs : List Force} (hw : WF fs) {st : St} (h : Inv fs st) (op : Op) : Inv fs (C16.step fs st op) := by
  cases op with
  | setT v => exact h.change hw 4 (by omega) _ (fun _ _ => ⟨rfl, rfl⟩) (fun h6 => absurd h6 (by omega))
  | setQ v =>
    exact (h.change hw 5 (by omega) { st.vars with q := v } (fun _ _ => ⟨rfl, rfl⟩) (fun h6 => absurd h6 (by omega))).with_m _
  | setU v =>
    exact (h.change hw 6 (by omega) { st.vars with u := v } (fun _ _ => ⟨rfl, rfl⟩)
      (fun _ => ⟨rfl, rfl, rfl, rfl, rfl, fun _ _ => rfl⟩)).with_m _
  | setZ v => exact h.change hw 7 (by omega) _ (fun _ _ => ⟨rfl, rfl⟩) (fun _ => ⟨rfl, rfl, rfl, rfl, rfl, fun _ _ => rfl⟩)
  | setInst v => exact h.change hw 3 (by omega) _ (fun _ _ => ⟨rfl, rfl⟩) (fun h6 => absurd h6 (by omega))
  | setOpt v => exact h.change hw 2 (by omega) _ (fun _ _ => ⟨rfl, rfl⟩) (fun h6 => absurd h6 (by omega))
  | mRealize e =>
    simp only [C16.step]
    split
    · split
      · exact h
      · exact h.with_m _
    · exact h
  | mInvalidate e =>
    simp only [C16.step]
    split
    · exact (h.inval_same _).with_m _
    · exact h.with_m _
  | invalAll g => exact h.inval_same g
  | setParam i j v =>
    simp only [C16.step]
    cases hj : ((fs.getD i default).paramStages)[j]? with
    | none => exact h
    | some g =>
      simp only
      by_cases hgr : (fs.getD i default).gravity = true
      · rw [if_pos hgr]; exact h
      · rw [if_neg hgr]
        have hgm : g ∈ (fs.getD i default).paramStages := List.mem_of_getElem? hj
        have hlt : i < fs.length := by
          by_cases hi : i < fs.length
          · exact hi
          · have : fs.getD i default = default := by
              simp [List.getD_eq_getElem?_getD, List.getElem?_eq_none (Nat.le_of_not_lt hi)]
            rw [this] at hgm; cases hgm
        refine h.change hw g (hw.dyn _ (getD_mem hlt) g hgm) _ ?_ ?_
        · intro k hk
          have : k ≠ i := fun hki => by subst hki; exact hgr hk
          exact ⟨rfl, getD_setParamVal_ne _ _ _ _ _ this⟩
        · intro h6
          refine ⟨rfl, rfl, rfl, rfl, rfl, ?_⟩
          intro k hk
          have : k ≠ i := fun hki => by
            subst hki
            have := hw.pos _ (getD_mem hlt) hk g hgm
            omega
          exact getD_setParamVal_ne _ _ _ _ _ this
  | setEnabled i b =>
    simp only [C16.step]
    have h3 : Inv fs (st.inval 3) := by
      have := h.change hw 3 (by omega) st.vars (fun _ _ => ⟨rfl, rfl⟩) (fun h6 => absurd h6 (by omega))
      exact this
    split
    · have h3' := h.change hw 3 (by omega) { st.vars with enabled := setAt st.vars.enabled i b }
        (fun _ _ => ⟨rfl, rfl⟩) (fun h6 => absurd h6 (by omega))
      refine ⟨⟨h3'.l.lenF, h3'.l.lenS, h3'.l.lazy, h3'.l.low, h3'.l.zero⟩, ?_, ?_, ?_⟩
      · intro hv h5
        have : (5 : Nat) ≤ min st.stage (3 - 1) := h5
        omega
      · intro hno; show (if anyPosOnly fs = true then false else (st.inval 3).cachedValid) = false
        rw [hno]; exact h.nopos hno
      · intro h7
        have : (7 : Nat) ≤ min st.stage (3 - 1) := h7
        omega
    · exact h3
  | gravSet i j v zero ks =>
    by_cases hgr : (fs.getD i default).gravity = true
    · have hi := gravity_lt hgr
      rw [step_gravSet_eq fs st i j v zero ks hgr (hw.gs _ (getD_mem hi) ks)]
      generalize hv' : gravVars st.vars i j v zero = v'
      have hvp : ∀ k, k ≠ i → v'.params.getD k [] = st.vars.params.getD k [] := by
        intro k hk; rw [← hv']; exact getD_setParamVal_ne _ _ _ _ _ hk
      have hvz : ∀ k, k ≠ i → v'.zeroMag.getD k false = st.vars.zeroMag.getD k false := by
        intro k hk; rw [← hv']; exact getD_setAt_ne _ _ _ _ _ hk
      have hvt : v'.t = st.vars.t ∧ v'.q = st.vars.q ∧ v'.enabled = st.vars.enabled := by
        rw [← hv']; exact ⟨rfl, rfl, rfl⟩
      have hvio : v'.inst = st.vars.inst ∧ v'.opt = st.vars.opt := by
        rw [← hv']; exact ⟨rfl, rfl⟩
      have hvzi : v'.zeroMag.getD i false = true → zero = true := by
        rw [← hv']
        intro hx
        have hx' : (setAt st.vars.zeroMag i zero).getD i false = true := hx
        rw [getD_setAt] at hx'
        by_cases hc : i = i ∧ i < st.vars.zeroMag.length
        · rwa [if_pos hc] at hx'
        · rw [if_neg hc] at hx'
          have hlen : ¬ i < st.vars.zeroMag.length := fun hl => hc ⟨rfl, hl⟩
          have : st.vars.zeroMag.getD i false = false := by
            simp [List.getD_eq_getElem?_getD, List.getElem?_eq_none (Nat.le_of_not_lt hlen)]
          rw [this] at hx'; cases hx'
      have hsn : ∀ k, k ≠ i → (if zero = true then setAt st.lazySnap i (inputs fs v' i) else st.lazySnap).getD k []
          = st.lazySnap.getD k [] := by
        intro k hk; split
        · exact getD_setAt_ne _ _ _ _ _ hk
        · rfl
      refine ⟨⟨?_, ?_, ?_, ?_, ?_⟩, ?_, h.nopos, ?_⟩
      · show (setAt st.lazyFresh i false).length = fs.length
        simp [h.l.lenF]
      · show (if zero = true then setAt st.lazySnap i (inputs fs v' i) else st.lazySnap).length = fs.length
        split <;> simp [h.l.lenS]
      · intro k hk hf
        have hf' : (setAt st.lazyFresh i false).getD k false = true := hf
        have hki : k ≠ i := by
          intro hki; subst hki
          rw [getD_setAt_self _ _ _ _ (by rw [h.l.lenF]; exact hi)] at hf'; cases hf'
        rw [getD_setAt_ne _ _ _ _ _ hki] at hf'
        show (if zero = true then setAt st.lazySnap i (inputs fs v' i) else st.lazySnap).getD k [] = inputs fs v' k
        rw [hsn k hki, h.l.lazy k hk hf']
        exact (inputs_congr fs st.vars v' k (hvp k hki) (fun _ => hvz k hki) hvt.1 hvt.2.1 hvio.1 hvio.2
          (fun hx => by rw [hk] at hx; cases hx)).symm
      · intro hlt k
        have hlt' : min st.stage 6 < 5 := hlt
        show (setAt st.lazyFresh i false).getD k false = false
        by_cases hki : k = i
        · subst hki
          rw [getD_setAt]; split
          · rfl
          · exact h.l.low (by omega) k
        · rw [getD_setAt_ne _ _ _ _ _ hki]; exact h.l.low (by omega) k
      · intro k hk hzm
        have hzm' : v'.zeroMag.getD k false = true := hzm
        show (if zero = true then setAt st.lazySnap i (inputs fs v' i) else st.lazySnap).getD k [] = inputs fs v' k
        by_cases hki : k = i
        · subst hki
          rw [if_pos (hvzi hzm')]
          exact getD_setAt_self _ _ _ _ (by rw [h.l.lenS]; exact hi)
        · have hz0 : st.vars.zeroMag.getD k false = true := by rw [← hvz k hki]; exact hzm'
          rw [hsn k hki, h.l.zero k hk hz0]
          exact (inputs_zero fs st.vars v' k hk (hvp k hki) hzm' hz0).symm
      · intro hv h5
        have h5' : 5 ≤ min st.stage 6 := h5
        show st.cacheTotal = posContribs fs v'
        rw [h.cache hv (by omega)]
        refine (posContribs_congr fs hw st.vars v' hvt.2.2 hvt.1 hvt.2.1 hvio.1 hvio.2 ?_).symm
        intro k hk
        have hki : k ≠ i := by
          intro hki; subst hki
          have := hw.grav _ (getD_mem hi) hgr
          rw [this] at hk; cases hk
        exact hvp k hki
      · intro h7
        have : 7 ≤ min st.stage 6 := h7
        omega
    · simp only [C16.step, if_neg hgr]; exact h
  | realize g => exact (realize_spec fs st (min g 9) h).1
  | gravQuery i =>
    simp only [C16.step]
    split
    · rename_i hc; exact (h.ensure i hc.1 hc.2).1
    · exact h
  | peQuery =>
    simp only [C16.step]
    split
    · rename_i hs
      have key : ∀ (l : List Nat) (s : St), Inv fs s → 5 ≤ s.stage →
          (∀ i ∈ l, (fs.getD i default).gravity = true) → Inv fs (l.foldl (fun acc i => acc.ensure fs i) s) := by
        intro l
        induction l with
        | nil => intro s hs' _ _; exact hs'
        | cons a as ih =>
          intro s hs' h5 hall
          simp only [List.foldl_cons]
          obtain ⟨a1, _, a3⟩ := hs'.ensure a h5 (hall a (by simp))
          exact ih _ a1 (by rw [a3]; exact h5) (fun i hi => hall i (by simp [hi]))
      apply key _ _ h hs
      intro i hi
      have := (List.mem_filter.mp hi).2
      simp only [Bool.and_eq_true] at this
      exact this.2
    · exact h


/-! ## history independence -/

theorem Inv.fresh (fs : List Force) (v : Vars) : Inv fs (fresh fs v) := by
  refine ⟨⟨by simp [C16.fresh], by simp [C16.fresh], ?_, ?_, ?_⟩, ?_, fun _ => rfl, ?_⟩
  · intro i _ hf
    have : ((fs.map (fun _ => false)).getD i false) = false := by
      simp only [List.getD_eq_getElem?_getD, List.getElem?_map]
      cases fs[i]? <;> rfl
    simp only [C16.fresh] at hf
    rw [this] at hf; cases hf
  · intro _ i
    simp only [C16.fresh, List.getD_eq_getElem?_getD, List.getElem?_map]
    cases fs[i]? <;> rfl
  · intro i hg hz
    have hi := gravity_lt hg
    simp only [C16.fresh, List.getD_eq_getElem?_getD, List.getElem?_map, List.getElem?_range hi, Option.map_some,
      Option.getD_some]
    simp only [List.getD_eq_getElem?_getD] at hz
    have hz' : v.zeroMag[i]?.getD false = true := hz
    rw [if_pos hz']
  · intro hv; cases hv
  · intro h7
    have : (7 : Nat) ≤ 2 := h7
    omega

theorem Inv.run {fs : List Force} (hw : WF fs) (ops : List Op) {st : St} (h : Inv fs st) :
    Inv fs (C16.run fs st ops) := by
  induction ops generalizing st with
  | nil => exact h
  | cons op ops ih => simp only [C16.run, List.foldl_cons]; exact ih (h.step hw op)

theorem fresh_vars (fs : List Force) (v : Vars) : (fresh fs v).vars = v := rfl

/-- **history_independent.**  For a system whose force elements respect the table obligation (`WF`, which
`wf_of_table` derives from `TableOK`), after *any* sequence of variable modifications (time, q, u, z, force
parameters, enable flags, gravity setters), realizations to arbitrary stages and intermediate queries, the force
totals delivered by a realization to Dynamics are the same as in a freshly created State given the same values. -/
theorem history_independent (fs : List Force) (hw : WF fs) (v0 : Vars) (ops : List Op) :
    result fs (run fs (fresh fs v0) ops) = result fs (fresh fs (run fs (fresh fs v0) ops).vars) := by
  rw [result_eq_canonical fs _ ((Inv.fresh fs v0).run hw ops),
      result_eq_canonical fs _ (Inv.fresh fs _), fresh_vars]

/-- the same starting from any state satisfying the invariant (e.g. in the middle of a simulation) -/
theorem history_independent_from (fs : List Force) (hw : WF fs) (st : St) (h : Inv fs st) (ops : List Op) :
    result fs (run fs st ops) = result fs (fresh fs (run fs st ops).vars) := by
  rw [result_eq_canonical fs _ (h.run hw ops), result_eq_canonical fs _ (Inv.fresh fs _), fresh_vars]

/-- …instantiated with the table regenerated from the source: any system built from the library's force classes
(each row, `Force::Custom` with either answer as long as it has no late parameter) -/
theorem history_independent_table (cs : List (FClass × Bool)) (hm : ∀ c ∈ cs, c.1 ∈ Gen.table)
    (v0 : Vars) (ops : List Op) :
    let fs := cs.map (fun c => Force.ofClass c.1 c.2)
    result fs (run fs (fresh fs v0) ops) = result fs (fresh fs (run fs (fresh fs v0) ops).vars) := by
  intro fs
  refine history_independent fs (wf_of_table Gen.table table_ok cs hm ?_ ?_ gravity_setters_ok.1) v0 ops
  · intro c hc hp
    have : ∀ r ∈ Gen.table, r.posOnly = none → r.paramStages = [] := by decide
    exact this c.1 (hm c hc) hp
  · intro c hc hn
    have : ∀ r ∈ Gen.table, r.name = "Force::GravityImpl" → r.posOnly = some false := by decide
    exact this c.1 (hm c hc) hn

/-- **gravity_cache_invalidated_by_setters.**  After a Force::Gravity setter that the generated table lists as
invalidating (`gravity_setters_ok`: all of them) the element's lazy force cache is not marked valid, whatever the
stage — so the next use recomputes it from the new parameters. -/
theorem gravity_cache_invalidated_by_setters (fs : List Force) (st : St) (i j v : Nat) (zero : Bool) (k : Nat)
    (hg : (fs.getD i default).gravity = true) (hk : (fs.getD i default).setterInval.getD k true = true)
    (hl : st.lazyFresh.length = fs.length) :
    (step fs st (.gravSet i j v zero k)).lazyFresh.getD i false = false := by
  rw [step_gravSet_eq fs st i j v zero k hg hk]
  exact getD_setAt_self _ _ _ _ (by rw [hl]; exact gravity_lt hg)

/-- **that obligation is needed too**: with a Force::Gravity setter that writes the parameters without invalidating
the force cache, a change after a realization (stage stays ≥ Position, the lazy entry stays valid) is ignored. -/
theorem history_dependent_without_GravitySettersOK :
    let fs : List Force := [{ posOnly := false, gravity := true, paramStages := [7], setterInval := [false] }]
    let v0 : Vars := { params := [[5]], enabled := [true], zeroMag := [false] }
    let ops : List Op := [.realize 8, .gravSet 0 0 50 false 0, .realize 8]
    result fs (run fs (fresh fs v0) ops) ≠ result fs (fresh fs (run fs (fresh fs v0) ops).vars) := by
  decide

/-- what a query returns: `Force::Gravity::getBodyForces` / `getPotentialEnergy` after any history deliver the
value computed from the current variable values (the query fills the lazy cache if it is not valid) -/
theorem gravity_query_returns_current (fs : List Force) (hw : WF fs) (v0 : Vars) (ops : List Op) (i : Nat)
    (hs : 5 ≤ (run fs (fresh fs v0) ops).stage) (hg : (fs.getD i default).gravity = true) :
    (step fs (run fs (fresh fs v0) ops) (.gravQuery i)).lazySnap.getD i [] =
      inputs fs (run fs (fresh fs v0) ops).vars i := by
  have h := (Inv.fresh fs v0).run hw ops
  simp only [C16.step]
  rw [if_pos ⟨hs, hg⟩]
  exact (ensure_spec fs _ i h.l hs hg).2.2

/-- **the hypothesis is needed** (the mechanism of finding F4): with a position-only element whose parameter
invalidates only Dynamics, changing the parameter after a realization gives totals that differ from a fresh
State's. -/
theorem history_dependent_without_TableOK :
    let fs : List Force := [{ posOnly := true, paramStages := [7] }]
    let v0 : Vars := { params := [[5]], enabled := [true], zeroMag := [false] }
    let ops : List Op := [.realize 8, .setParam 0 0 50, .realize 8]
    result fs (run fs (fresh fs v0) ops) ≠ result fs (fresh fs (run fs (fresh fs v0) ops).vars) := by
  decide

/-- non-vacuity of `history_independent`: a mixed system (position-only spring with an Instance-stage parameter,
damper with a Dynamics-stage parameter, gravity) is well formed -/
example : WF [{ posOnly := true, paramStages := [3] }, { posOnly := false, paramStages := [7] },
              { posOnly := false, gravity := true, paramStages := [7] }] := by
  refine ⟨?_, ?_, ?_, ?_⟩ <;> intro f hf <;> simp only [List.mem_cons, List.not_mem_nil, or_false] at hf <;>
    rcases hf with rfl | rfl | rfl <;> simp

/-! ## the matter subsystem's lazy entries -/

/-- **obligation on the current source**: the entries `SimbodyMatterSubsystemRep` allocates with prerequisites are
the five the model transcribes, with exactly these stages and prerequisites -/
theorem matter_table_ok : Gen.matterEntries = ME.all.map ME.expected := by decide

theorem ME.mem_all (e : ME) : e ∈ ME.all := by cases e <;> decide

/-- the entries listing `e` as a prerequisite -/
def ME.directDependents (e : ME) : List ME := ME.all.filter (fun d => d.pre.contains e)
def ME.closure : Nat → List ME → List ME
  | 0, l => l
  | n + 1, l => ME.closure n (l ++ (l.flatMap ME.directDependents).filter (fun d => !l.contains d))

/-- the invalidation sets used by the model are the transitive closures of the declared prerequisites -/
theorem dependents_is_closure :
    ∀ e ∈ ME.all, ∀ d ∈ ME.all, (e.dependents.contains d = (ME.closure 5 [e]).contains d) := by decide
theorem qDependents_is_closure :
    ∀ d ∈ ME.all, ME.qDependents.contains d = ME.all.any (fun e => e.q && e.dependents.contains d) := by decide
theorem uDependents_is_closure :
    ∀ d ∈ ME.all, ME.uDependents.contains d = ME.all.any (fun e => e.u && e.dependents.contains d) := by decide
theorem readsU_is_closure : ∀ d ∈ ME.all, d.readsU = ME.uDependents.contains d := by decide
/-- every entry depends (through position kinematics) on the q version -/
theorem every_entry_depends_on_q : ∀ d ∈ ME.all, ME.qDependents.contains d = true := by decide

/-- whatever reads valid was computed from the current values -/
structure MInv (st : St) : Prop where
  low : st.stage < 3 → ∀ e, st.m.flag e = false
  cur : st.m.Cur st.vars
  byStage : ∀ e, e.comp ≤ st.stage → st.m.snap e = minputs st.vars e

theorem MInv.of_eq {a b : St} (h : MInv a) (hs : b.stage = a.stage) (hv : b.vars = a.vars) (hm : b.m = a.m) : MInv b :=
  ⟨by rw [hs, hm]; exact h.low, by rw [hv, hm]; exact h.cur, by rw [hs, hv, hm]; exact h.byStage⟩

theorem comp_ge_5 (e : ME) : 5 ≤ e.comp := by cases e <;> decide

/-- a variable change invalidating stage `g`, followed by the invalidation of the entries `es` -/
theorem MInv.change {st : St} (h : MInv st) (g : Nat) (v' : Vars) (es : List ME)
    (hin : ∀ e, e ∉ es → 3 < g → minputs v' e = minputs st.vars e)
    (hby : ∀ e, e.comp < g → minputs v' e = minputs st.vars e) :
    MInv { (st.inval g) with vars := v', m := (st.inval g).m.clear es } := by
  have hflag : ∀ e, ((st.inval g).m.clear es).flag e = true → st.m.flag e = true ∧ e ∉ es ∧ ¬(g ≤ 3 ∧ 3 ≤ st.stage) := by
    intro e hf
    rw [MC.flag_clear] at hf
    simp only [Bool.and_eq_true, Bool.not_eq_true', List.contains_eq_mem, decide_eq_false_iff_not] at hf
    obtain ⟨h1, h2⟩ := hf
    unfold St.inval at h1
    simp only at h1
    by_cases hc : g ≤ 3 ∧ 3 ≤ st.stage
    · rw [if_pos hc, MC.flag_clear] at h1
      simp only [Bool.and_eq_true, Bool.not_eq_true', List.contains_eq_mem, decide_eq_false_iff_not] at h1
      exact absurd (ME.mem_all e) h1.2
    · rw [if_neg hc] at h1; exact ⟨h1, h2, hc⟩
  have hsnap : ∀ e, ((st.inval g).m.clear es).snap e = st.m.snap e := by
    intro e
    rw [MC.snap_clear]
    unfold St.inval; simp only
    split
    · exact MC.snap_clear _ _ _
    · rfl
  refine ⟨?_, ?_, ?_⟩
  · intro hlt e
    have hlt' : min st.stage (g - 1) < 3 := hlt
    cases hf : ((st.inval g).m.clear es).flag e with
    | false => rfl
    | true =>
      obtain ⟨h1, _, h3⟩ := hflag e hf
      by_cases hs : st.stage < 3
      · rw [h.low hs e] at h1; cases h1
      · exact absurd ⟨by omega, by omega⟩ h3
  · intro e hf
    obtain ⟨h1, h2, h3⟩ := hflag e hf
    show ((st.inval g).m.clear es).snap e = minputs v' e
    rw [hsnap, h.cur e h1]
    by_cases hs : st.stage < 3
    · rw [h.low hs e] at h1; cases h1
    · exact (hin e h2 (by omega)).symm
  · intro e hc
    have hc' : e.comp ≤ min st.stage (g - 1) := hc
    show ((st.inval g).m.clear es).snap e = minputs v' e
    have hcg : e.comp < g := by have := comp_ge_5 e; omega
    rw [hsnap, h.byStage e (by omega)]
    exact (hby e hcg).symm

theorem minputs_congr (v w : Vars) (e : ME) (ho : w.opt = v.opt) (hi : w.inst = v.inst) (hq : w.q = v.q)
    (hu : e.readsU = true → w.u = v.u) : minputs w e = minputs v e := by
  unfold minputs
  by_cases hr : e.readsU = true
  · rw [if_pos hr, if_pos hr, ho, hi, hq, hu hr]
  · rw [if_neg hr, if_neg hr, ho, hi, hq]

theorem realize_m (fs : List Force) (st : St) (g : Nat) :
    (st.realize fs g).m = st.m.advance st.stage g st.vars ∧ (st.realize fs g).stage = max st.stage g := by
  unfold St.realize
  refine ⟨?_, rfl⟩
  simp only
  have e1 : (if st.stage < 5 ∧ 5 ≤ g ∧ anyPosOnly fs = true then { st with cachedValid := false } else st).m = st.m := by
    split <;> rfl
  split
  · rw [dynamics_m]; show MC.advance _ _ _ _ = _; rw [e1]
  · rw [e1]

theorem MInv.realize (fs : List Force) {st : St} (h : MInv st) (g : Nat) (hg : g ≤ 9)
    (hv : (st.realize fs g).vars = st.vars) :
    MInv (st.realize fs g) := by
  obtain ⟨hm, hs⟩ := realize_m fs st g
  refine ⟨?_, ?_, ?_⟩
  · intro hlt e
    rw [hs] at hlt
    rw [hm, MC.advance_eq]
    cases hf : (st.m.ensureAll st.vars (MC.toEnsure st.stage g)).flag e with
    | false => rfl
    | true =>
      rcases MC.flag_ensureAll_of _ _ _ _ hf with h1 | h1
      · rw [h.low (by omega) e] at h1; cases h1
      · have := (mem_toEnsure _ _ _).mp h1
        have := comp_ge_5 e
        omega
  · rw [hm, hv, MC.advance_eq]; exact h.cur.ensureAll _
  · intro e hc
    rw [hs] at hc
    rw [hm, hv, MC.advance_eq]
    by_cases hmem : e ∈ MC.toEnsure st.stage g
    · exact (h.cur.ensureAll (MC.toEnsure st.stage g)) e (MC.flag_ensureAll_mem _ _ _ _ hmem)
    · rw [MC.snap_ensureAll_notMem _ _ _ _ hmem]
      have hn := fun hx => hmem ((mem_toEnsure st.stage g e).mpr hx)
      by_cases hcs : e.comp ≤ st.stage
      · exact h.byStage e hcs
      · -- then comp ≤ g, so e is the composite-body entry, whose computed-by stage is Infinity (never reached)
        exfalso
        apply hn
        refine ⟨?_, by omega, by omega⟩
        intro hcbi
        rw [hcbi] at hc hcs
        simp only [ME.comp] at hc hcs
        omega

theorem calcAll_vars (fs : List Force) (is : List Nat) (s : St) : (s.calcAll fs is).1.vars = s.vars := by
  induction is generalizing s with
  | nil => rfl
  | cons i is ih =>
    simp only [St.calcAll]
    rw [ih]
    unfold St.calc; simp only; split
    · exact ensure_vars fs _ i
    · rfl

theorem dynamics_vars (fs : List Force) (s : St) : (s.dynamics fs).vars = s.vars := by
  unfold St.dynamics
  split
  · exact calcAll_vars fs _ s
  · split
    · exact calcAll_vars fs _ s
    · exact calcAll_vars fs _ s

theorem realize_vars (fs : List Force) (st : St) (g : Nat) : (st.realize fs g).vars = st.vars := by
  unfold St.realize
  generalize hst1 : (if st.stage < 5 ∧ 5 ≤ g ∧ anyPosOnly fs = true then { st with cachedValid := false } else st) = st1
  have e1 : st1.vars = st.vars := by rw [← hst1]; split <;> rfl
  simp only
  by_cases hd : st.stage < 7 ∧ 7 ≤ g
  · rw [if_pos hd]; exact (dynamics_vars fs _).trans e1
  · rw [if_neg hd]; exact e1

theorem MInv.step (fs : List Force) {st : St} (h : MInv st) (op : Op) : MInv (C16.step fs st op) := by
  cases op with
  | setT v =>
    exact (h.change 4 { st.vars with t := v } [] (fun _ _ _ => rfl) (fun _ _ => rfl)).of_eq rfl rfl rfl
  | setQ v =>
    refine h.change 5 { st.vars with q := v } ME.qDependents (fun e he _ => absurd (ME.mem_all e) he) ?_
    intro e hc; have := comp_ge_5 e; omega
  | setU v =>
    refine h.change 6 { st.vars with u := v } ME.uDependents ?_ ?_
    · intro e he _
      refine minputs_congr _ _ e rfl rfl rfl ?_
      intro hr; exfalso; apply he; cases e <;> simp_all [ME.readsU, ME.uDependents]
    · intro e hc
      refine minputs_congr _ _ e rfl rfl rfl ?_
      intro hr; exfalso; cases e <;> simp_all [ME.readsU, ME.comp]
  | setZ v =>
    exact (h.change 7 { st.vars with z := v } [] (fun _ _ _ => rfl) (fun _ _ => rfl)).of_eq rfl rfl rfl
  | setInst v =>
    exact (h.change 3 { st.vars with inst := v } [] (fun _ _ h3 => absurd h3 (by omega))
      (fun e hc => by have := comp_ge_5 e; omega)).of_eq rfl rfl rfl
  | setOpt v =>
    exact (h.change 2 { st.vars with opt := v } [] (fun _ _ h3 => absurd h3 (by omega))
      (fun e hc => by have := comp_ge_5 e; omega)).of_eq rfl rfl rfl
  | setParam i j v =>
    simp only [C16.step]
    cases hj : ((fs.getD i default).paramStages)[j]? with
    | none => exact h
    | some g =>
      simp only
      split
      · exact h
      · exact (h.change g { st.vars with params := setParamVal st.vars.params i j v } [] (fun _ _ _ => rfl)
          (fun _ _ => rfl)).of_eq rfl rfl rfl
  | setEnabled i b =>
    simp only [C16.step]
    split
    · exact (h.change 3 { st.vars with enabled := setAt st.vars.enabled i b } [] (fun _ _ _ => rfl)
        (fun _ _ => rfl)).of_eq rfl rfl rfl
    · exact (h.change 3 st.vars [] (fun _ _ _ => rfl) (fun _ _ => rfl)).of_eq rfl rfl rfl
  | gravSet i j v zero k =>
    simp only [C16.step]
    split
    · refine (h.change 7 (gravVars st.vars i j v zero) [] (fun _ _ _ => rfl) (fun _ _ => rfl)).of_eq ?_ ?_ ?_
      · split <;> rfl
      · split <;> rfl
      · split <;> rfl
    · exact h
  | realize g => exact h.realize fs (min g 9) (Nat.min_le_right _ _) (realize_vars fs st _)
  | gravQuery i =>
    simp only [C16.step]
    split
    · exact h.of_eq (ensure_stage fs st i) (ensure_vars fs st i) (ensure_m fs st i)
    · exact h
  | peQuery =>
    simp only [C16.step]
    split
    · obtain ⟨a, b, c⟩ := foldl_ensure_frame fs (enabledIdx fs st.vars (fun f => f.gravity)) st
      exact h.of_eq c b a
    · exact h
  | mRealize e =>
    simp only [C16.step]
    split
    · rename_i hc
      split
      · exact h
      · refine ⟨fun hlt => absurd hc.1 (by simp only at hlt; omega), h.cur.mark e, ?_⟩
        intro e' hc'
        show (st.m.mark e (minputs st.vars e)).snap e' = minputs st.vars e'
        rw [MC.snap_mark]
        by_cases he : e' = e
        · rw [if_pos he, he]
        · rw [if_neg he]; exact h.byStage e' hc'
    · exact h
  | invalAll g =>
    exact (h.change g st.vars [] (fun _ _ _ => rfl) (fun _ _ => rfl)).of_eq rfl rfl rfl
  | mInvalidate e =>
    simp only [C16.step]
    split
    · exact (h.change e.comp st.vars e.dependents (fun _ _ _ => rfl) (fun _ _ => rfl)).of_eq rfl rfl rfl
    · refine ⟨?_, ?_, ?_⟩
      · intro hlt e'
        show (st.m.clear e.dependents).flag e' = false
        rw [MC.flag_clear, h.low hlt e']; rfl
      · intro e' hf
        have hf' : (st.m.clear e.dependents).flag e' = true := hf
        rw [MC.flag_clear] at hf'
        simp only [Bool.and_eq_true] at hf'
        show (st.m.clear e.dependents).snap e' = minputs st.vars e'
        rw [MC.snap_clear]; exact h.cur e' hf'.1
      · intro e' hc
        show (st.m.clear e.dependents).snap e' = minputs st.vars e'
        rw [MC.snap_clear]; exact h.byStage e' hc

theorem MInv.fresh (fs : List Force) (v : Vars) : MInv (fresh fs v) := by
  refine ⟨fun _ e => by cases e <;> rfl, ?_, ?_⟩
  · intro e hf; cases e <;> simp [C16.fresh, MC.flag] at hf
  intro e hc
  have := comp_ge_5 e
  have : e.comp ≤ 2 := hc
  omega

theorem MInv.run (fs : List Force) (ops : List Op) {st : St} (h : MInv st) : MInv (C16.run fs st ops) := by
  induction ops generalizing st with
  | nil => exact h
  | cons op ops ih => simp only [C16.run, List.foldl_cons]; exact ih (h.step fs op)

/-- **lazy_entries_depend_on_position_version.**  After *any* history, a matter-subsystem lazy entry (position /
velocity kinematics, composite-body, articulated-body inertias, articulated-body velocity) that reads valid
(`isCacheValueRealized`: stage ≥ computed-by, or stage ≥ Instance and marked valid since the Instance stage version,
the q / u versions and its prerequisite entries last changed) holds what a computation from the current values gives
— the same as in a fresh State.  No hypothesis on the force table: this is a property of the entries' declared
prerequisites (`matter_table_ok`, `dependents_is_closure`, `every_entry_depends_on_q`). -/
theorem lazy_entries_depend_on_position_version (fs : List Force) (v0 : Vars) (ops : List Op) (e : ME) :
    (run fs (fresh fs v0) ops).mvalid e = true →
    (run fs (fresh fs v0) ops).m.snap e = minputs (run fs (fresh fs v0) ops).vars e := by
  intro hv
  have h := (MInv.fresh fs v0).run fs ops
  unfold St.mvalid at hv
  simp only [Bool.or_eq_true, Bool.and_eq_true, decide_eq_true_eq] at hv
  rcases hv with hv | hv
  · exact h.byStage e hv
  · exact h.cur e hv.2

/-- a change of any q invalidates all five entries, whatever the stage was -/
theorem q_change_invalidates_matter_entries (fs : List Force) (st : St) (v : Nat) (e : ME) :
    (step fs st (.setQ v)).mvalid e = false := by
  unfold St.mvalid
  have hs : (step fs st (.setQ v)).stage = min st.stage 4 := rfl
  have hf : (step fs st (.setQ v)).m.flag e = false := by
    show ((st.inval 5).m.clear ME.qDependents).flag e = false
    rw [MC.flag_clear]
    have : ME.qDependents.contains e = true := every_entry_depends_on_q e (ME.mem_all e)
    rw [this]; simp
  rw [hs, hf]
  have := comp_ge_5 e
  simp only [Bool.and_false, Bool.or_false, decide_eq_false_iff_not]
  omega

/-- a change of u invalidates the two velocity entries and leaves the marks of the three position entries alone -/
theorem u_change_invalidates_velocity_entries (fs : List Force) (st : St) (v : Nat) (e : ME) :
    (step fs st (.setU v)).m.flag e = (st.m.flag e && !e.readsU) := by
  show ((st.inval 6).m.clear ME.uDependents).flag e = _
  rw [MC.flag_clear]
  have h1 : (st.inval 6).m = st.m := by
    unfold St.inval; simp only
    have : ¬ (6 ≤ 3 ∧ 3 ≤ st.stage) := by omega
    rw [if_neg this]
  rw [h1, readsU_is_closure e (ME.mem_all e)]

/-- an explicit request (`realizePositionKinematics`, `realizeCompositeBodyInertias`, …) that is legal makes the entry
valid, and what it then holds is computed from the current values -/
theorem matter_request_delivers_current_values (fs : List Force) (v0 : Vars) (ops : List Op) (e : ME) :
    let st := run fs (fresh fs v0) ops
    legal fs st (.mRealize e) = true →
    (step fs st (.mRealize e)).mvalid e = true ∧
    (step fs st (.mRealize e)).m.snap e = minputs (step fs st (.mRealize e)).vars e := by
  intro st hl
  have hI : MInv (step fs st (.mRealize e)) := ((MInv.fresh fs v0).run fs ops).step fs _
  have hv : (step fs st (.mRealize e)).mvalid e = true := by
    simp only [legal, Bool.and_eq_true, decide_eq_true_eq] at hl
    simp only [C16.step]
    rw [if_pos ⟨hl.1, hl.2⟩]
    split
    · assumption
    · unfold St.mvalid
      simp only [Bool.or_eq_true, Bool.and_eq_true, decide_eq_true_eq]
      exact Or.inr ⟨hl.1, by rw [MC.flag_mark, if_pos rfl]⟩
  refine ⟨hv, ?_⟩
  unfold St.mvalid at hv
  simp only [Bool.or_eq_true, Bool.and_eq_true, decide_eq_true_eq] at hv
  rcases hv with hv | hv
  · exact hI.byStage e hv
  · exact hI.cur e hv.2

end C16
