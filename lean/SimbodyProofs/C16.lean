import SimbodyProofs.C16_lemmas
/-!
# C16 — realization results depend only on the current state values  (property theorems)

Model: `SimbodyModel/C16.lean` (cache protocol of GeneralForceSubsystem.cpp and Force_Gravity.cpp on top of the
C18 stage model); table `SimbodyModel/Gen/ForceParams.lean` is regenerated from /repo's source on every run.
Core Lean only.
-/
namespace C16
open Gen

/-! ## the obligation on the code (translator) -/

/-- every force class flagged position-only has all its state parameters invalidating a stage ≤ Position, and
no force class has a parameter that invalidates only a stage after Dynamics -/
def TableOK (tbl : List FClass) : Bool :=
  tbl.all (fun c => (c.posOnly != some true || c.paramStages.all (· ≤ 5)) && c.paramStages.all (· ≤ 7))

/-- every Force::Gravity setter that writes the parameter variable invalidates the lazy force cache first -/
def GravitySettersOK (l : List (String × Bool × Bool)) : Bool := l.all (fun s => !s.2.1 || s.2.2)

/-- the extraction's structural self-checks passed -/
theorem extraction_ok : Gen.extractionOK = true := by decide

/-- **the obligation, discharged on the table regenerated from the current source** -/
theorem table_ok : TableOK Gen.table = true := by decide

theorem gravity_setters_ok : GravitySettersOK Gen.gravitySetters = true ∧ Gen.gravitySetters.length ≥ 4 := by decide

/-- a class that keeps *lazy* cache entries of its own (computed-by = Infinity: valid until their depends-on stage is
invalidated) must not have a parameter variable that invalidates only a later stage than such an entry depends on
— otherwise a parameter change leaves the entry valid with stale contents.  Force::Gravity is exempt: its setters
invalidate the entry explicitly (`gravity_setters_ok`).  This is what lets the model treat such elements
(LinearBushing, CableSpring) as recomputed at every realization. -/
def LazyOK (tbl : List FClass) : Bool :=
  tbl.all (fun c => c.name == "Force::GravityImpl" ||
    c.cacheStages.all (fun dc => dc.2 != 10 || c.paramStages.all (· ≤ dc.1)))

/-- **obligation on the current source**: parameter stage ≤ depends-on stage of every lazy cache entry of the class -/
theorem lazy_ok : LazyOK Gen.table = true := by decide

/-- well-formed force list (what `TableOK` gives for forces that are instances of table rows) -/
structure WF (fs : List Force) : Prop where
  grav : ∀ f ∈ fs, f.gravity = true → f.posOnly = false
  pos : ∀ f ∈ fs, f.posOnly = true → ∀ s ∈ f.paramStages, s ≤ 5
  dyn : ∀ f ∈ fs, ∀ s ∈ f.paramStages, s ≤ 7

/-- forces that are instances of rows of a table satisfying `TableOK` are well formed (for `Force::Custom` the
user's flag must respect the same rule: its row has no parameters) -/
theorem wf_of_table (tbl : List FClass) (h : TableOK tbl = true) (cs : List (FClass × Bool))
    (hm : ∀ c ∈ cs, c.1 ∈ tbl) (hc : ∀ c ∈ cs, c.1.posOnly = none → c.1.paramStages = [])
    (hg : ∀ c ∈ cs, c.1.name = "Force::GravityImpl" → c.1.posOnly = some false) :
    WF (cs.map (fun c => Force.ofClass c.1 c.2)) := by
  unfold TableOK at h
  simp only [List.all_eq_true, Bool.and_eq_true, Bool.or_eq_true, bne_iff_ne, ne_eq, decide_eq_true_eq] at h
  refine ⟨?_, ?_, ?_⟩
  · intro f hf hgr
    obtain ⟨c, hcm, rfl⟩ := List.mem_map.mp hf
    simp only [Force.ofClass, beq_iff_eq] at hgr ⊢
    rw [hg c hcm hgr]; rfl
  · intro f hf hp s hs
    obtain ⟨c, hcm, rfl⟩ := List.mem_map.mp hf
    simp only [Force.ofClass] at hp hs
    have := h c.1 (hm c hcm)
    cases hpo : c.1.posOnly with
    | none => rw [hc c hcm hpo] at hs; cases hs
    | some b =>
      rw [hpo] at hp
      simp only [Option.getD_some] at hp
      subst hp
      rcases this.1 with h1 | h1
      · exact absurd hpo h1
      · exact h1 s hs
  · intro f hf s hs
    obtain ⟨c, hcm, rfl⟩ := List.mem_map.mp hf
    exact (h c.1 (hm c hcm)).2 s hs

/-! ## the invariant: whatever is cached was computed from the current values -/

structure Inv (fs : List Force) (st : St) : Prop where
  l : LInv fs st
  cache : st.cachedValid = true → 5 ≤ st.stage → st.cacheTotal = posContribs fs st.vars
  nopos : anyPosOnly fs = false → st.cachedValid = false
  tot : 7 ≤ st.stage → st.total = canonical fs st.vars

theorem dynamics_spec (fs : List Force) (st : St) (hl : LInv fs st) (hs : 5 ≤ st.stage)
    (hc : st.cachedValid = true → st.cacheTotal = posContribs fs st.vars) :
    LInv fs (st.dynamics fs) ∧ (st.dynamics fs).vars = st.vars ∧ (st.dynamics fs).stage = st.stage ∧
    (st.dynamics fs).total = canonical fs st.vars ∧
    ((st.dynamics fs).cachedValid = true → (st.dynamics fs).cacheTotal = posContribs fs st.vars) ∧
    (anyPosOnly fs = false → (st.dynamics fs).cachedValid = st.cachedValid) := by
  unfold St.dynamics
  by_cases h1 : (!anyPosOnly fs) = true
  · rw [if_pos h1]
    obtain ⟨a, b, c⟩ := calcAll_spec fs (enabledIdx fs st.vars (fun _ => true)) st hl hs
    refine ⟨⟨a.lenF, a.lenS, a.lazy, a.low, a.zero⟩, b.vars, b.stage, ?_, ?_, fun _ => b.cv⟩
    · simp only [c, canonical, h1, if_true]
    · intro hv; simp only at hv ⊢; rw [b.ct]; exact hc (by rw [← b.cv]; exact hv)
  · rw [if_neg h1]
    by_cases h2 : (!st.cachedValid) = true
    · rw [if_pos h2]
      obtain ⟨a, b, c⟩ := calcAll_spec fs (enabledIdx fs st.vars (fun _ => true)) st hl hs
      have hpos : ((st.calcAll fs (enabledIdx fs st.vars (fun _ => true))).2.filter
            (fun c => (fs.getD c.1 default).posOnly)) = posContribs fs st.vars := by
        rw [c]; unfold enabledIdx posContribs enabledIdx
        rw [filter_map_contrib fs st.vars _ _ (fun i => (fs.getD i default).posOnly)]
        congr 1
        apply List.filter_congr
        intro i _; simp
      have hneg : ((st.calcAll fs (enabledIdx fs st.vars (fun _ => true))).2.filter
            (fun c => !(fs.getD c.1 default).posOnly)) =
            (enabledIdx fs st.vars (fun f => !f.posOnly)).map (contrib fs st.vars) := by
        rw [c]; unfold enabledIdx
        rw [filter_map_contrib fs st.vars _ _ (fun i => !(fs.getD i default).posOnly)]
        congr 1
        apply List.filter_congr
        intro i _; simp
      refine ⟨⟨a.lenF, a.lenS, a.lazy, a.low, a.zero⟩, b.vars, b.stage, ?_, ?_, ?_⟩
      · simp only [hpos, hneg, canonical, h1]; rfl
      · intro _; exact hpos
      · intro hn; rw [hn] at h1; simp at h1
    · rw [if_neg h2]
      have hv : st.cachedValid = true := by simpa using h2
      obtain ⟨a, b, c⟩ := calcAll_spec fs (enabledIdx fs st.vars (fun f => !f.posOnly)) st hl hs
      refine ⟨⟨a.lenF, a.lenS, a.lazy, a.low, a.zero⟩, b.vars, b.stage, ?_, ?_, fun _ => b.cv⟩
      · simp only [c, b.ct, hc hv, canonical, h1]; rfl
      · intro _; simp only; rw [b.ct]; exact hc hv


theorem realize_spec (fs : List Force) (st : St) (g : Nat) (h : Inv fs st) :
    Inv fs (st.realize fs g) ∧ (st.realize fs g).vars = st.vars ∧
    (7 ≤ g → (st.realize fs g).total = canonical fs st.vars) := by
  unfold St.realize
  -- the Position step
  generalize hst1 : (if st.stage < 5 ∧ 5 ≤ g ∧ anyPosOnly fs = true then { st with cachedValid := false } else st) = st1
  have e1 : st1.vars = st.vars ∧ st1.stage = st.stage ∧ st1.lazyFresh = st.lazyFresh ∧ st1.lazySnap = st.lazySnap ∧
      st1.cacheTotal = st.cacheTotal ∧ st1.total = st.total := by
    rw [← hst1]; split <;> exact ⟨rfl, rfl, rfl, rfl, rfl, rfl⟩
  have ecv : st1.cachedValid = true → st.cachedValid = true ∧ ¬(st.stage < 5 ∧ 5 ≤ g ∧ anyPosOnly fs = true) := by
    rw [← hst1]; split
    · intro hx; cases hx
    · rename_i hn; intro hx; exact ⟨hx, hn⟩
  have ecv' : st.cachedValid = false → st1.cachedValid = false := by
    rw [← hst1]; split
    · intro _; rfl
    · exact id
  obtain ⟨ev, es, ef, esn, ect, etot⟩ := e1
  have hl1 : LInv fs st1 := ⟨by rw [ef]; exact h.l.lenF, by rw [esn]; exact h.l.lenS,
    by intro i hg hf; rw [esn, ev]; rw [ef] at hf; exact h.l.lazy i hg hf,
    by intro hlt; rw [ef]; rw [es] at hlt; exact h.l.low hlt,
    by intro i hg hz; rw [esn, ev]; rw [ev] at hz; exact h.l.zero i hg hz⟩
  simp only
  by_cases hd : st.stage < 7 ∧ 7 ≤ g
  · rw [if_pos hd]
    have hl6 : LInv fs { st1 with stage := 6 } :=
      ⟨hl1.lenF, hl1.lenS, hl1.lazy, fun hlt => absurd hlt (by simp), hl1.zero⟩
    have hc6 : ({ st1 with stage := 6 } : St).cachedValid = true →
        ({ st1 with stage := 6 } : St).cacheTotal = posContribs fs ({ st1 with stage := 6 } : St).vars := by
      intro hv
      obtain ⟨hv0, hn⟩ := ecv hv
      show st1.cacheTotal = posContribs fs st1.vars
      rw [ect, ev]
      by_cases h5 : 5 ≤ st.stage
      · exact h.cache hv0 h5
      · have hno : anyPosOnly fs = false := by
          cases hp : anyPosOnly fs with
          | false => rfl
          | true => exact absurd ⟨by omega, by omega, hp⟩ hn
        rw [h.nopos hno] at hv0; cases hv0
    obtain ⟨a, b, c, d, e, f⟩ := dynamics_spec fs { st1 with stage := 6 } hl6 (by simp) hc6
    have hv' : (St.dynamics fs { st1 with stage := 6 }).vars = st.vars := by rw [b]; exact ev
    refine ⟨⟨⟨a.lenF, a.lenS, a.lazy, fun hlt => absurd hlt (by simp only; omega), a.zero⟩, ?_, ?_, ?_⟩, hv', ?_⟩
    · intro hv _
      show (St.dynamics fs { st1 with stage := 6 }).cacheTotal = posContribs fs (St.dynamics fs { st1 with stage := 6 }).vars
      rw [hv']
      exact (e hv).trans (by show posContribs fs st1.vars = _; rw [ev])
    · intro hno; simp only; rw [f hno]; exact ecv' (h.nopos hno)
    · intro _
      show (St.dynamics fs { st1 with stage := 6 }).total = canonical fs (St.dynamics fs { st1 with stage := 6 }).vars
      rw [hv']
      exact d.trans (by show canonical fs st1.vars = _; rw [ev])
    · intro _
      exact d.trans (by show canonical fs st1.vars = _; rw [ev])
  · rw [if_neg hd]
    refine ⟨⟨⟨hl1.lenF, hl1.lenS, hl1.lazy, ?_, hl1.zero⟩, ?_, ?_, ?_⟩, ev, ?_⟩
    · intro hlt; simp only at hlt; exact hl1.low (by rw [es]; omega)
    · intro hv h5
      simp only at hv h5 ⊢
      obtain ⟨hv0, hn⟩ := ecv hv
      rw [ect, ev]
      by_cases h5' : 5 ≤ st.stage
      · exact h.cache hv0 h5'
      · have hno : anyPosOnly fs = false := by
          cases hp : anyPosOnly fs with
          | false => rfl
          | true => exact absurd ⟨by omega, by omega, hp⟩ hn
        rw [h.nopos hno] at hv0; cases hv0
    · intro hno; exact ecv' (h.nopos hno)
    · intro h7
      have h7' : 7 ≤ max st.stage g := h7
      show st1.total = canonical fs st1.vars
      rw [etot, ev]; exact h.tot (by omega)
    · intro h7; show st1.total = _; rw [etot]; exact h.tot (by omega)

/-- the totals a realization to Dynamics delivers are the canonical totals of the current values -/
theorem result_eq_canonical (fs : List Force) (st : St) (h : Inv fs st) : result fs st = canonical fs st.vars :=
  (realize_spec fs st 7 h).2.2 (Nat.le_refl 7)


/-! ## every operation preserves the invariant -/

theorem getD_mem {fs : List Force} {i : Nat} (h : i < fs.length) : fs.getD i default ∈ fs := by
  have : fs.getD i default = fs[i] := by simp [List.getD_eq_getElem?_getD, List.getElem?_eq_getElem h]
  rw [this]; exact List.getElem_mem h

theorem posContribs_congr (fs : List Force) (hw : WF fs) (v w : Vars) (he : w.enabled = v.enabled)
    (ht : w.t = v.t) (hq : w.q = v.q)
    (hp : ∀ i, (fs.getD i default).posOnly = true → w.params.getD i [] = v.params.getD i []) :
    posContribs fs w = posContribs fs v := by
  unfold posContribs enabledIdx
  rw [he]
  apply List.map_congr_left
  intro i hi
  have hf := (List.mem_filter.mp hi)
  have hlt : i < fs.length := List.mem_range.mp hf.1
  have hpo : (fs.getD i default).posOnly = true := by
    have := hf.2; simp only [Bool.and_eq_true] at this; exact this.2
  have hng : (fs.getD i default).gravity = false := by
    cases hg : (fs.getD i default).gravity with
    | false => rfl
    | true => have := hw.grav _ (getD_mem hlt) hg; rw [this] at hpo; cases hpo
  unfold contrib
  rw [inputs_congr fs v w i (hp i hpo) (fun hg => by rw [hng] at hg; cases hg) ht hq
        (fun _ hx => by rw [hpo] at hx; cases hx)]

/-- a variable change that invalidates stage `g ≤ Dynamics` -/
theorem Inv.change {fs : List Force} (hw : WF fs) {st : St} (h : Inv fs st) (g : Nat) (hg7 : g ≤ 7) (v' : Vars)
    (hz : ∀ i, (fs.getD i default).gravity = true →
        v'.zeroMag.getD i false = st.vars.zeroMag.getD i false ∧ v'.params.getD i [] = st.vars.params.getD i [])
    (htq : 6 ≤ g → v'.t = st.vars.t ∧ v'.q = st.vars.q ∧ v'.enabled = st.vars.enabled ∧
        ∀ i, (fs.getD i default).posOnly = true → v'.params.getD i [] = st.vars.params.getD i []) :
    Inv fs { (st.inval g) with vars := v' } := by
  have hfresh : ∀ i, (st.inval g).lazyFresh.getD i false = true →
      st.lazyFresh.getD i false = true ∧ ¬(g ≤ 5 ∧ 5 ≤ st.stage) := by
    intro i hf
    unfold St.inval at hf
    simp only at hf
    by_cases hc : g ≤ 5 ∧ 5 ≤ st.stage
    · rw [if_pos hc, getD_map_const_false] at hf; cases hf
    · rw [if_neg hc] at hf; exact ⟨hf, hc⟩
  refine ⟨⟨?_, h.l.lenS, ?_, ?_, ?_⟩, ?_, h.nopos, ?_⟩
  · show (st.inval g).lazyFresh.length = fs.length
    unfold St.inval; simp only; split <;> simp [h.l.lenF]
  · intro i hgr hf
    obtain ⟨hf0, hnc⟩ := hfresh i hf
    have h5 : 5 ≤ st.stage := by
      by_cases hlt : st.stage < 5
      · rw [h.l.low hlt i] at hf0; cases hf0
      · omega
    have hg6 : 6 ≤ g := by omega
    obtain ⟨ht, hq, _, _⟩ := htq hg6
    show st.lazySnap.getD i [] = inputs fs v' i
    rw [h.l.lazy i hgr hf0]
    exact (inputs_congr fs st.vars v' i (hz i hgr).2 (fun _ => (hz i hgr).1) ht hq
      (fun hx => by rw [hgr] at hx; cases hx)).symm
  · intro hlt i
    show (st.inval g).lazyFresh.getD i false = false
    have hlt' : min st.stage (g - 1) < 5 := hlt
    unfold St.inval; simp only
    by_cases hc : g ≤ 5 ∧ 5 ≤ st.stage
    · rw [if_pos hc]; exact getD_map_const_false _ _
    · rw [if_neg hc]; exact h.l.low (by omega) i
  · intro i hgr hzm
    show st.lazySnap.getD i [] = inputs fs v' i
    have hzm' : st.vars.zeroMag.getD i false = true := by rw [← (hz i hgr).1]; exact hzm
    rw [h.l.zero i hgr hzm']
    exact (inputs_zero fs st.vars v' i hgr (hz i hgr).2 hzm hzm').symm
  · intro hv h5
    have h5' : 5 ≤ min st.stage (g - 1) := h5
    obtain ⟨ht, hq, he, hp⟩ := htq (by omega)
    show st.cacheTotal = posContribs fs v'
    rw [h.cache hv (by omega)]
    exact (posContribs_congr fs hw st.vars v' he ht hq hp).symm
  · intro h7
    have h7' : 7 ≤ min st.stage (g - 1) := h7
    omega

theorem getD_setParamVal_ne (ps : List (List Nat)) (i j v k : Nat) (h : k ≠ i) :
    (setParamVal ps i j v).getD k [] = ps.getD k [] := by
  unfold setParamVal; exact getD_setAt_ne _ _ _ _ _ h

theorem Inv.ensure {fs : List Force} {st : St} (h : Inv fs st) (i : Nat) (hs : 5 ≤ st.stage)
    (hg : (fs.getD i default).gravity = true) : Inv fs (st.ensure fs i) ∧ (st.ensure fs i).vars = st.vars ∧
      (st.ensure fs i).stage = st.stage := by
  obtain ⟨a, b, _⟩ := ensure_spec fs st i h.l hs hg
  refine ⟨⟨a, ?_, ?_, ?_⟩, b.vars, b.stage⟩
  · intro hv h5; rw [b.ct, b.vars]; exact h.cache (by rw [← b.cv]; exact hv) (by rw [← b.stage]; exact h5)
  · intro hno; rw [b.cv]; exact h.nopos hno
  · intro h7; rw [b.tot, b.vars]; exact h.tot (by rw [← b.stage]; exact h7)

/-- the variables after a Force::Gravity setter -/
def gravVars (v : Vars) (i j x : Nat) (zero : Bool) : Vars :=
  { v with params := setParamVal v.params i j x, zeroMag := setAt v.zeroMag i zero }

theorem step_gravSet_eq (fs : List Force) (st : St) (i j v : Nat) (zero : Bool)
    (hgr : (fs.getD i default).gravity = true) :
    C16.step fs st (.gravSet i j v zero) =
      { st with stage := min st.stage 6, lazyFresh := setAt st.lazyFresh i false,
                vars := gravVars st.vars i j v zero,
                lazySnap := if zero = true then setAt st.lazySnap i (inputs fs (gravVars st.vars i j v zero) i)
                            else st.lazySnap } := by
  simp only [C16.step, if_pos hgr, St.inval, gravVars]
  have : ¬ (7 ≤ 5 ∧ 5 ≤ st.stage) := by omega
  simp only [if_neg this]

theorem Inv.step {fs : List Force} (hw : WF fs) {st : St} (h : Inv fs st) (op : Op) : Inv fs (C16.step fs st op) := by
  cases op with
  | setT v => exact h.change hw 4 (by omega) _ (fun _ _ => ⟨rfl, rfl⟩) (fun h6 => absurd h6 (by omega))
  | setQ v => exact h.change hw 5 (by omega) _ (fun _ _ => ⟨rfl, rfl⟩) (fun h6 => absurd h6 (by omega))
  | setU v => exact h.change hw 6 (by omega) _ (fun _ _ => ⟨rfl, rfl⟩) (fun _ => ⟨rfl, rfl, rfl, fun _ _ => rfl⟩)
  | setZ v => exact h.change hw 7 (by omega) _ (fun _ _ => ⟨rfl, rfl⟩) (fun _ => ⟨rfl, rfl, rfl, fun _ _ => rfl⟩)
  | setParam i j v =>
    simp only [C16.step]
    cases hj : ((fs.getD i default).paramStages)[j]? with
    | none => exact h
    | some g =>
      simp only
      by_cases hgr : (fs.getD i default).gravity = true
      · rw [if_pos hgr]; exact h
      · rw [if_neg hgr]
        have hgm : g ∈ (fs.getD i default).paramStages := List.mem_of_getElem? hj
        have hlt : i < fs.length := by
          by_cases hi : i < fs.length
          · exact hi
          · have : fs.getD i default = default := by
              simp [List.getD_eq_getElem?_getD, List.getElem?_eq_none (Nat.le_of_not_lt hi)]
            rw [this] at hgm; cases hgm
        refine h.change hw g (hw.dyn _ (getD_mem hlt) g hgm) _ ?_ ?_
        · intro k hk
          have : k ≠ i := fun hki => by subst hki; exact hgr hk
          exact ⟨rfl, getD_setParamVal_ne _ _ _ _ _ this⟩
        · intro h6
          refine ⟨rfl, rfl, rfl, ?_⟩
          intro k hk
          have : k ≠ i := fun hki => by
            subst hki
            have := hw.pos _ (getD_mem hlt) hk g hgm
            omega
          exact getD_setParamVal_ne _ _ _ _ _ this
  | setEnabled i b =>
    simp only [C16.step]
    have h3 : Inv fs (st.inval 3) := by
      have := h.change hw 3 (by omega) st.vars (fun _ _ => ⟨rfl, rfl⟩) (fun h6 => absurd h6 (by omega))
      exact this
    split
    · have h3' := h.change hw 3 (by omega) { st.vars with enabled := setAt st.vars.enabled i b }
        (fun _ _ => ⟨rfl, rfl⟩) (fun h6 => absurd h6 (by omega))
      refine ⟨⟨h3'.l.lenF, h3'.l.lenS, h3'.l.lazy, h3'.l.low, h3'.l.zero⟩, ?_, ?_, ?_⟩
      · intro hv h5
        have : (5 : Nat) ≤ min st.stage (3 - 1) := h5
        omega
      · intro hno; show (if anyPosOnly fs = true then false else (st.inval 3).cachedValid) = false
        rw [hno]; exact h.nopos hno
      · intro h7
        have : (7 : Nat) ≤ min st.stage (3 - 1) := h7
        omega
    · exact h3
  | gravSet i j v zero =>
    by_cases hgr : (fs.getD i default).gravity = true
    · rw [step_gravSet_eq fs st i j v zero hgr]
      have hi := gravity_lt hgr
      generalize hv' : gravVars st.vars i j v zero = v'
      have hvp : ∀ k, k ≠ i → v'.params.getD k [] = st.vars.params.getD k [] := by
        intro k hk; rw [← hv']; exact getD_setParamVal_ne _ _ _ _ _ hk
      have hvz : ∀ k, k ≠ i → v'.zeroMag.getD k false = st.vars.zeroMag.getD k false := by
        intro k hk; rw [← hv']; exact getD_setAt_ne _ _ _ _ _ hk
      have hvt : v'.t = st.vars.t ∧ v'.q = st.vars.q ∧ v'.enabled = st.vars.enabled := by
        rw [← hv']; exact ⟨rfl, rfl, rfl⟩
      have hvzi : v'.zeroMag.getD i false = true → zero = true := by
        rw [← hv']
        intro hx
        have hx' : (setAt st.vars.zeroMag i zero).getD i false = true := hx
        rw [getD_setAt] at hx'
        by_cases hc : i = i ∧ i < st.vars.zeroMag.length
        · rwa [if_pos hc] at hx'
        · rw [if_neg hc] at hx'
          have hlen : ¬ i < st.vars.zeroMag.length := fun hl => hc ⟨rfl, hl⟩
          have : st.vars.zeroMag.getD i false = false := by
            simp [List.getD_eq_getElem?_getD, List.getElem?_eq_none (Nat.le_of_not_lt hlen)]
          rw [this] at hx'; cases hx'
      have hsn : ∀ k, k ≠ i → (if zero = true then setAt st.lazySnap i (inputs fs v' i) else st.lazySnap).getD k []
          = st.lazySnap.getD k [] := by
        intro k hk; split
        · exact getD_setAt_ne _ _ _ _ _ hk
        · rfl
      refine ⟨⟨?_, ?_, ?_, ?_, ?_⟩, ?_, h.nopos, ?_⟩
      · show (setAt st.lazyFresh i false).length = fs.length
        simp [h.l.lenF]
      · show (if zero = true then setAt st.lazySnap i (inputs fs v' i) else st.lazySnap).length = fs.length
        split <;> simp [h.l.lenS]
      · intro k hk hf
        have hf' : (setAt st.lazyFresh i false).getD k false = true := hf
        have hki : k ≠ i := by
          intro hki; subst hki
          rw [getD_setAt_self _ _ _ _ (by rw [h.l.lenF]; exact hi)] at hf'; cases hf'
        rw [getD_setAt_ne _ _ _ _ _ hki] at hf'
        show (if zero = true then setAt st.lazySnap i (inputs fs v' i) else st.lazySnap).getD k [] = inputs fs v' k
        rw [hsn k hki, h.l.lazy k hk hf']
        exact (inputs_congr fs st.vars v' k (hvp k hki) (fun _ => hvz k hki) hvt.1 hvt.2.1
          (fun hx => by rw [hk] at hx; cases hx)).symm
      · intro hlt k
        have hlt' : min st.stage 6 < 5 := hlt
        show (setAt st.lazyFresh i false).getD k false = false
        by_cases hki : k = i
        · subst hki
          rw [getD_setAt]; split
          · rfl
          · exact h.l.low (by omega) k
        · rw [getD_setAt_ne _ _ _ _ _ hki]; exact h.l.low (by omega) k
      · intro k hk hzm
        have hzm' : v'.zeroMag.getD k false = true := hzm
        show (if zero = true then setAt st.lazySnap i (inputs fs v' i) else st.lazySnap).getD k [] = inputs fs v' k
        by_cases hki : k = i
        · subst hki
          rw [if_pos (hvzi hzm')]
          exact getD_setAt_self _ _ _ _ (by rw [h.l.lenS]; exact hi)
        · have hz0 : st.vars.zeroMag.getD k false = true := by rw [← hvz k hki]; exact hzm'
          rw [hsn k hki, h.l.zero k hk hz0]
          exact (inputs_zero fs st.vars v' k hk (hvp k hki) hzm' hz0).symm
      · intro hv h5
        have h5' : 5 ≤ min st.stage 6 := h5
        show st.cacheTotal = posContribs fs v'
        rw [h.cache hv (by omega)]
        refine (posContribs_congr fs hw st.vars v' hvt.2.2 hvt.1 hvt.2.1 ?_).symm
        intro k hk
        have hki : k ≠ i := by
          intro hki; subst hki
          have := hw.grav _ (getD_mem hi) hgr
          rw [this] at hk; cases hk
        exact hvp k hki
      · intro h7
        have : 7 ≤ min st.stage 6 := h7
        omega
    · simp only [C16.step, if_neg hgr]; exact h
  | realize g => exact (realize_spec fs st g h).1
  | gravQuery i =>
    simp only [C16.step]
    split
    · rename_i hc; exact (h.ensure i hc.1 hc.2).1
    · exact h
  | peQuery =>
    simp only [C16.step]
    split
    · rename_i hs
      have key : ∀ (l : List Nat) (s : St), Inv fs s → 5 ≤ s.stage →
          (∀ i ∈ l, (fs.getD i default).gravity = true) → Inv fs (l.foldl (fun acc i => acc.ensure fs i) s) := by
        intro l
        induction l with
        | nil => intro s hs' _ _; exact hs'
        | cons a as ih =>
          intro s hs' h5 hall
          simp only [List.foldl_cons]
          obtain ⟨a1, _, a3⟩ := hs'.ensure a h5 (hall a (by simp))
          exact ih _ a1 (by rw [a3]; exact h5) (fun i hi => hall i (by simp [hi]))
      apply key _ _ h hs
      intro i hi
      have := (List.mem_filter.mp hi).2
      simp only [Bool.and_eq_true] at this
      exact this.2
    · exact h


/-! ## history independence -/

theorem Inv.fresh (fs : List Force) (v : Vars) : Inv fs (fresh fs v) := by
  refine ⟨⟨by simp [C16.fresh], by simp [C16.fresh], ?_, ?_, ?_⟩, ?_, fun _ => rfl, ?_⟩
  · intro i _ hf
    have : ((fs.map (fun _ => false)).getD i false) = false := by
      simp only [List.getD_eq_getElem?_getD, List.getElem?_map]
      cases fs[i]? <;> rfl
    simp only [C16.fresh] at hf
    rw [this] at hf; cases hf
  · intro _ i
    simp only [C16.fresh, List.getD_eq_getElem?_getD, List.getElem?_map]
    cases fs[i]? <;> rfl
  · intro i hg hz
    have hi := gravity_lt hg
    simp only [C16.fresh, List.getD_eq_getElem?_getD, List.getElem?_map, List.getElem?_range hi, Option.map_some,
      Option.getD_some]
    simp only [List.getD_eq_getElem?_getD] at hz
    have hz' : v.zeroMag[i]?.getD false = true := hz
    rw [if_pos hz']
  · intro hv; cases hv
  · intro h7
    have : (7 : Nat) ≤ 2 := h7
    omega

theorem Inv.run {fs : List Force} (hw : WF fs) (ops : List Op) {st : St} (h : Inv fs st) :
    Inv fs (C16.run fs st ops) := by
  induction ops generalizing st with
  | nil => exact h
  | cons op ops ih => simp only [C16.run, List.foldl_cons]; exact ih (h.step hw op)

theorem fresh_vars (fs : List Force) (v : Vars) : (fresh fs v).vars = v := rfl

/-- **history_independent.**  For a system whose force elements respect the table obligation (`WF`, which
`wf_of_table` derives from `TableOK`), after *any* sequence of variable modifications (time, q, u, z, force
parameters, enable flags, gravity setters), realizations to arbitrary stages and intermediate queries, the force
totals delivered by a realization to Dynamics are the same as in a freshly created State given the same values. -/
theorem history_independent (fs : List Force) (hw : WF fs) (v0 : Vars) (ops : List Op) :
    result fs (run fs (fresh fs v0) ops) = result fs (fresh fs (run fs (fresh fs v0) ops).vars) := by
  rw [result_eq_canonical fs _ ((Inv.fresh fs v0).run hw ops),
      result_eq_canonical fs _ (Inv.fresh fs _), fresh_vars]

/-- the same starting from any state satisfying the invariant (e.g. in the middle of a simulation) -/
theorem history_independent_from (fs : List Force) (hw : WF fs) (st : St) (h : Inv fs st) (ops : List Op) :
    result fs (run fs st ops) = result fs (fresh fs (run fs st ops).vars) := by
  rw [result_eq_canonical fs _ (h.run hw ops), result_eq_canonical fs _ (Inv.fresh fs _), fresh_vars]

/-- …instantiated with the table regenerated from the source: any system built from the library's force classes
(each row, `Force::Custom` with either answer as long as it has no late parameter) -/
theorem history_independent_table (cs : List (FClass × Bool)) (hm : ∀ c ∈ cs, c.1 ∈ Gen.table)
    (v0 : Vars) (ops : List Op) :
    let fs := cs.map (fun c => Force.ofClass c.1 c.2)
    result fs (run fs (fresh fs v0) ops) = result fs (fresh fs (run fs (fresh fs v0) ops).vars) := by
  intro fs
  refine history_independent fs (wf_of_table Gen.table table_ok cs hm ?_ ?_) v0 ops
  · intro c hc hp
    have : ∀ r ∈ Gen.table, r.posOnly = none → r.paramStages = [] := by decide
    exact this c.1 (hm c hc) hp
  · intro c hc hn
    have : ∀ r ∈ Gen.table, r.name = "Force::GravityImpl" → r.posOnly = some false := by decide
    exact this c.1 (hm c hc) hn

/-- **gravity_cache_invalidated_by_setters.**  After a Force::Gravity setter the element's lazy force cache is not
marked valid (so the next use recomputes it from the new parameters), whatever the stage. -/
theorem gravity_cache_invalidated_by_setters (fs : List Force) (st : St) (i j v : Nat) (zero : Bool)
    (hg : (fs.getD i default).gravity = true) (hl : st.lazyFresh.length = fs.length) :
    (step fs st (.gravSet i j v zero)).lazyFresh.getD i false = false := by
  rw [step_gravSet_eq fs st i j v zero hg]
  exact getD_setAt_self _ _ _ _ (by rw [hl]; exact gravity_lt hg)

/-- **the hypothesis is needed** (the mechanism of finding F4): with a position-only element whose parameter
invalidates only Dynamics, changing the parameter after a realization gives totals that differ from a fresh
State's. -/
theorem history_dependent_without_TableOK :
    let fs : List Force := [{ posOnly := true, paramStages := [7] }]
    let v0 : Vars := { params := [[5]], enabled := [true], zeroMag := [false] }
    let ops : List Op := [.realize 8, .setParam 0 0 50, .realize 8]
    result fs (run fs (fresh fs v0) ops) ≠ result fs (fresh fs (run fs (fresh fs v0) ops).vars) := by
  decide

/-- non-vacuity of `history_independent`: a mixed system (position-only spring with an Instance-stage parameter,
damper with a Dynamics-stage parameter, gravity) is well formed -/
example : WF [{ posOnly := true, paramStages := [3] }, { posOnly := false, paramStages := [7] },
              { posOnly := false, gravity := true, paramStages := [7] }] := by
  refine ⟨?_, ?_, ?_⟩ <;> intro f hf <;> simp only [List.mem_cons, List.not_mem_nil, or_false] at hf <;>
    rcases hf with rfl | rfl | rfl <;> simp

end C16
