import SimbodyProofs.C16_lemmas
/-!
# C16 — realization results depend only on the current state values  (property theorems)

Model: `SimbodyModel/C16.lean` (cache protocol of GeneralForceSubsystem.cpp and Force_Gravity.cpp on top of the
C18 stage model); table `SimbodyModel/Gen/ForceParams.lean` is regenerated from /repo's source on every run.
Core Lean only.
-/
namespace C16
open Gen

/-! ## the obligation on the code (translator) -/

/-- every force class flagged position-only has all its state parameters invalidating a stage ≤ Position, and
no force class has a parameter that invalidates only a stage after Dynamics -/
def TableOK (tbl : List FClass) : Bool :=
  tbl.all (fun c => (c.posOnly != some true || c.paramStages.all (· ≤ 5)) && c.paramStages.all (· ≤ 7))

/-- every Force::Gravity setter that writes the parameter variable invalidates the lazy force cache first -/
def GravitySettersOK (l : List (String × Bool × Bool)) : Bool := l.all (fun s => !s.2.1 || s.2.2)

/-- the extraction's structural self-checks passed -/
theorem extraction_ok : Gen.extractionOK = true := by decide

/-- **the obligation, discharged on the table regenerated from the current source** -/
theorem table_ok : TableOK Gen.table = true := by decide

theorem gravity_setters_ok : GravitySettersOK Gen.gravitySetters = true ∧ Gen.gravitySetters.length ≥ 4 := by decide

/-- well-formed force list (what `TableOK` gives for forces that are instances of table rows) -/
structure WF (fs : List Force) : Prop where
  grav : ∀ f ∈ fs, f.gravity = true → f.posOnly = false
  pos : ∀ f ∈ fs, f.posOnly = true → ∀ s ∈ f.paramStages, s ≤ 5
  dyn : ∀ f ∈ fs, ∀ s ∈ f.paramStages, s ≤ 7

/-- forces that are instances of rows of a table satisfying `TableOK` are well formed (for `Force::Custom` the
user's flag must respect the same rule: its row has no parameters) -/
theorem wf_of_table (tbl : List FClass) (h : TableOK tbl = true) (cs : List (FClass × Bool))
    (hm : ∀ c ∈ cs, c.1 ∈ tbl) (hc : ∀ c ∈ cs, c.1.posOnly = none → c.1.paramStages = [])
    (hg : ∀ c ∈ cs, c.1.name = "Force::GravityImpl" → c.1.posOnly = some false) :
    WF (cs.map (fun c => Force.ofClass c.1 c.2)) := by
  unfold TableOK at h
  simp only [List.all_eq_true, Bool.and_eq_true, Bool.or_eq_true, bne_iff_ne, ne_eq, decide_eq_true_eq] at h
  refine ⟨?_, ?_, ?_⟩
  · intro f hf hgr
    obtain ⟨c, hcm, rfl⟩ := List.mem_map.mp hf
    simp only [Force.ofClass, beq_iff_eq] at hgr ⊢
    rw [hg c hcm hgr]; rfl
  · intro f hf hp s hs
    obtain ⟨c, hcm, rfl⟩ := List.mem_map.mp hf
    simp only [Force.ofClass] at hp hs
    have := h c.1 (hm c hcm)
    cases hpo : c.1.posOnly with
    | none => rw [hc c hcm hpo] at hs; cases hs
    | some b =>
      rw [hpo] at hp
      simp only [Option.getD_some] at hp
      subst hp
      rcases this.1 with h1 | h1
      · exact absurd hpo h1
      · exact h1 s hs
  · intro f hf s hs
    obtain ⟨c, hcm, rfl⟩ := List.mem_map.mp hf
    exact (h c.1 (hm c hcm)).2 s hs

/-! ## the invariant: whatever is cached was computed from the current values -/

structure Inv (fs : List Force) (st : St) : Prop where
  l : LInv fs st
  cache : st.cachedValid = true → 5 ≤ st.stage → st.cacheTotal = posContribs fs st.vars
  nopos : anyPosOnly fs = false → st.cachedValid = false
  tot : 7 ≤ st.stage → st.total = canonical fs st.vars

theorem dynamics_spec (fs : List Force) (st : St) (hl : LInv fs st) (hs : 5 ≤ st.stage)
    (hc : st.cachedValid = true → st.cacheTotal = posContribs fs st.vars) :
    LInv fs (st.dynamics fs) ∧ (st.dynamics fs).vars = st.vars ∧ (st.dynamics fs).stage = st.stage ∧
    (st.dynamics fs).total = canonical fs st.vars ∧
    ((st.dynamics fs).cachedValid = true → (st.dynamics fs).cacheTotal = posContribs fs st.vars) ∧
    (anyPosOnly fs = false → (st.dynamics fs).cachedValid = st.cachedValid) := by
  unfold St.dynamics
  by_cases h1 : (!anyPosOnly fs) = true
  · rw [if_pos h1]
    obtain ⟨a, b, c⟩ := calcAll_spec fs (enabledIdx fs st.vars (fun _ => true)) st hl hs
    refine ⟨⟨a.lenF, a.lenS, a.lazy, a.low, a.zero⟩, b.vars, b.stage, ?_, ?_, fun _ => b.cv⟩
    · simp only [c, canonical, h1, if_true]
    · intro hv; simp only at hv ⊢; rw [b.ct]; exact hc (by rw [← b.cv]; exact hv)
  · rw [if_neg h1]
    by_cases h2 : (!st.cachedValid) = true
    · rw [if_pos h2]
      obtain ⟨a, b, c⟩ := calcAll_spec fs (enabledIdx fs st.vars (fun _ => true)) st hl hs
      have hpos : ((st.calcAll fs (enabledIdx fs st.vars (fun _ => true))).2.filter
            (fun c => (fs.getD c.1 default).posOnly)) = posContribs fs st.vars := by
        rw [c]; unfold enabledIdx posContribs enabledIdx
        rw [filter_map_contrib fs st.vars _ _ (fun i => (fs.getD i default).posOnly)]
        congr 1
        apply List.filter_congr
        intro i _; simp
      have hneg : ((st.calcAll fs (enabledIdx fs st.vars (fun _ => true))).2.filter
            (fun c => !(fs.getD c.1 default).posOnly)) =
            (enabledIdx fs st.vars (fun f => !f.posOnly)).map (contrib fs st.vars) := by
        rw [c]; unfold enabledIdx
        rw [filter_map_contrib fs st.vars _ _ (fun i => !(fs.getD i default).posOnly)]
        congr 1
        apply List.filter_congr
        intro i _; simp
      refine ⟨⟨a.lenF, a.lenS, a.lazy, a.low, a.zero⟩, b.vars, b.stage, ?_, ?_, ?_⟩
      · simp only [hpos, hneg, canonical, h1]; rfl
      · intro _; exact hpos
      · intro hn; rw [hn] at h1; simp at h1
    · rw [if_neg h2]
      have hv : st.cachedValid = true := by simpa using h2
      obtain ⟨a, b, c⟩ := calcAll_spec fs (enabledIdx fs st.vars (fun f => !f.posOnly)) st hl hs
      refine ⟨⟨a.lenF, a.lenS, a.lazy, a.low, a.zero⟩, b.vars, b.stage, ?_, ?_, fun _ => b.cv⟩
      · simp only [c, b.ct, hc hv, canonical, h1]; rfl
      · intro _; simp only; rw [b.ct]; exact hc hv


theorem realize_spec (fs : List Force) (st : St) (g : Nat) (h : Inv fs st) :
    Inv fs (st.realize fs g) ∧ (st.realize fs g).vars = st.vars ∧
    (7 ≤ g → (st.realize fs g).total = canonical fs st.vars) := by
  unfold St.realize
  -- the Position step
  generalize hst1 : (if st.stage < 5 ∧ 5 ≤ g ∧ anyPosOnly fs = true then { st with cachedValid := false } else st) = st1
  have e1 : st1.vars = st.vars ∧ st1.stage = st.stage ∧ st1.lazyFresh = st.lazyFresh ∧ st1.lazySnap = st.lazySnap ∧
      st1.cacheTotal = st.cacheTotal ∧ st1.total = st.total := by
    rw [← hst1]; split <;> exact ⟨rfl, rfl, rfl, rfl, rfl, rfl⟩
  have ecv : st1.cachedValid = true → st.cachedValid = true ∧ ¬(st.stage < 5 ∧ 5 ≤ g ∧ anyPosOnly fs = true) := by
    rw [← hst1]; split
    · intro hx; cases hx
    · rename_i hn; intro hx; exact ⟨hx, hn⟩
  have ecv' : st.cachedValid = false → st1.cachedValid = false := by
    rw [← hst1]; split
    · intro _; rfl
    · exact id
  obtain ⟨ev, es, ef, esn, ect, etot⟩ := e1
  have hl1 : LInv fs st1 := ⟨by rw [ef]; exact h.l.lenF, by rw [esn]; exact h.l.lenS,
    by intro i hg hf; rw [esn, ev]; rw [ef] at hf; exact h.l.lazy i hg hf,
    by intro hlt; rw [ef]; rw [es] at hlt; exact h.l.low hlt,
    by intro i hg hz; rw [esn, ev]; rw [ev] at hz; exact h.l.zero i hg hz⟩
  simp only
  by_cases hd : st.stage < 7 ∧ 7 ≤ g
  · rw [if_pos hd]
    have hl6 : LInv fs { st1 with stage := 6 } :=
      ⟨hl1.lenF, hl1.lenS, hl1.lazy, fun hlt => absurd hlt (by simp), hl1.zero⟩
    have hc6 : ({ st1 with stage := 6 } : St).cachedValid = true →
        ({ st1 with stage := 6 } : St).cacheTotal = posContribs fs ({ st1 with stage := 6 } : St).vars := by
      intro hv
      obtain ⟨hv0, hn⟩ := ecv hv
      show st1.cacheTotal = posContribs fs st1.vars
      rw [ect, ev]
      by_cases h5 : 5 ≤ st.stage
      · exact h.cache hv0 h5
      · have hno : anyPosOnly fs = false := by
          cases hp : anyPosOnly fs with
          | false => rfl
          | true => exact absurd ⟨by omega, by omega, hp⟩ hn
        rw [h.nopos hno] at hv0; cases hv0
    obtain ⟨a, b, c, d, e, f⟩ := dynamics_spec fs { st1 with stage := 6 } hl6 (by simp) hc6
    have hv' : (St.dynamics fs { st1 with stage := 6 }).vars = st.vars := by rw [b]; exact ev
    refine ⟨⟨⟨a.lenF, a.lenS, a.lazy, fun hlt => absurd hlt (by simp only; omega), a.zero⟩, ?_, ?_, ?_⟩, hv', ?_⟩
    · intro hv _
      show (St.dynamics fs { st1 with stage := 6 }).cacheTotal = posContribs fs (St.dynamics fs { st1 with stage := 6 }).vars
      rw [hv']
      exact (e hv).trans (by show posContribs fs st1.vars = _; rw [ev])
    · intro hno; simp only; rw [f hno]; exact ecv' (h.nopos hno)
    · intro _
      show (St.dynamics fs { st1 with stage := 6 }).total = canonical fs (St.dynamics fs { st1 with stage := 6 }).vars
      rw [hv']
      exact d.trans (by show canonical fs st1.vars = _; rw [ev])
    · intro _
      exact d.trans (by show canonical fs st1.vars = _; rw [ev])
  · rw [if_neg hd]
    refine ⟨⟨⟨hl1.lenF, hl1.lenS, hl1.lazy, ?_, hl1.zero⟩, ?_, ?_, ?_⟩, ev, ?_⟩
    · intro hlt; simp only at hlt; exact hl1.low (by rw [es]; omega)
    · intro hv h5
      simp only at hv h5 ⊢
      obtain ⟨hv0, hn⟩ := ecv hv
      rw [ect, ev]
      by_cases h5' : 5 ≤ st.stage
      · exact h.cache hv0 h5'
      · have hno : anyPosOnly fs = false := by
          cases hp : anyPosOnly fs with
          | false => rfl
          | true => exact absurd ⟨by omega, by omega, hp⟩ hn
        rw [h.nopos hno] at hv0; cases hv0
    · intro hno; exact ecv' (h.nopos hno)
    · intro h7; simp only at h7 ⊢; rw [etot, ev]; exact h.tot (by omega)
    · intro h7; simp only; rw [etot]; exact h.tot (by omega)

/-- the totals a realization to Dynamics delivers are the canonical totals of the current values -/
theorem result_eq_canonical (fs : List Force) (st : St) (h : Inv fs st) : result fs st = canonical fs st.vars :=
  (realize_spec fs st 7 h).2.2 (Nat.le_refl 7)

end C16
