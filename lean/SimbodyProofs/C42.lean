import SimbodyProofs.C42_base

/-!
# C42 — MultibodyGraphMaker always produces a valid spanning tree (property theorems)

Model: `SimbodyModel/C42.lean` (`generate` = `MultibodyGraphMaker::generateGraph`).
Specification: `SimbodyProofs/C42_defs.lean` (`Valid`, `WF`).  Helper files: `C42_lemmas`, `C42_inv` (structural
invariant, `addMobilizerForJoint`), `C42_grow`/`C42_grow2` (`growTree`), `C42_outer` (`chooseNewBaseBody`,
`connectBodyToGround`, outer loop, first loop), `C42_break` (`breakLoops`), `C42_term` (fuel is never exhausted), `C42_base` (must-be-base bodies).
-/
namespace C42

theorem valid_of_InvC {g : Input} {s : St} (hC : InvC g s.joints s.joints.length s) (hJ : JExt g s) : Valid g s := by
  have hI := hC.inv
  have hbody_mem : ∀ b, 0 < b → b < s.nb → b ∈ outbs s := by
    intro b hb0 hbn
    by_cases hb : b < g.bodies.length
    · rcases hC.allin b hb with h | h
      · omega
      · exact h
    · obtain ⟨m, hm, ho, _⟩ := hC.slaves_welded b (Nat.le_of_not_lt hb) hbn
      exact mem_outbs.mpr ⟨m, hm, ho⟩
  refine
    { joints_ext := hJ, nb_ge := hI.nb_ge, ground_fixed := hI.outb_pos, bodies_once := ?_, outb_lt := hI.outb_lt,
      bmob_index := hI.bmob_idx, inboard_first := hI.ordered, joints_once := ?_, jmob_index := hI.jmob_idx,
      jloop_index := hC.jloop_idx, mob_kind := hI.mob_kind, slaves_welded := hC.slaves_welded, masters := hI.masters,
      loop_flag := ?_, cons_kind := hC.cons_kind, levels := hI.levels, massless_master := hC.m7 }
  · intro b hb0 hbn
    exact List.count_eq_one_of_mem hI.outb_nodup (hbody_mem b hb0 hbn)
  · intro j hj
    rcases hC.done j hj with h | h
    · have h1 := List.count_eq_one_of_mem hI.joint_nodup h
      have h2 : (cjoints s).count j = 0 := by
        apply List.count_eq_zero_of_not_mem
        intro hmem
        simp only [cjoints, List.mem_map] at hmem
        obtain ⟨c, hc, hcj⟩ := hmem
        have := (hC.cons_lt c hc).2
        rw [hcj] at this; exact this h
      omega
    · have h1 := List.count_eq_one_of_mem hC.cons_nodup h
      have h2 : (mjoints s).count j = 0 := by
        apply List.count_eq_zero_of_not_mem
        intro hmem
        simp only [cjoints, List.mem_map] at h
        obtain ⟨c, hc, hcj⟩ := h
        have := (hC.cons_lt c hc).2
        rw [hcj] at this; exact this hmem
      omega
  · intro m hm hml
    rcases (hI.mob_kind m hm).2 with h | h
    · rw [h.2.1] at hml; cases hml
    · exact h

/-- **Main theorem.**  Whenever `generateGraph` returns normally on a legal input, the result is a valid spanning
tree in the sense of `Valid`: every input body and every slave body mobilized exactly once, Ground never,
mobilizers ordered inboard-first from Ground, every (input or added) joint used exactly once as a mobilizer or as a
loop constraint, every slave body welded to its (input-body) master, must-be-loop joints never tree joints, the
stored indices consistent, levels consistent, and no massless *input* body with mobilities ending a branch. -/
theorem ok_implies_valid {g : Input} {s : St} (hW : WF g) (h : generate g = .ok s) : Valid g s := by
  unfold generate at h
  cases h1 : step1 g with
  | error e => simp [h1] at h
  | ok s1 =>
    simp only [h1] at h
    cases h2 : outer g (g.bodies.length + 1) s1 with
    | error e => simp [h2] at h
    | ok s2 =>
      simp only [h2, Except.ok.injEq] at h
      obtain ⟨hI1, hM1, hB1, hJ1⟩ := step1_spec hW h1
      obtain ⟨hI2, hM2, hB2, hJ2, hA2⟩ := outer_spec _ _ _ hI1 hM1 hB1 hJ1 h2
      have hC0 : InvC g s2.joints 0 s2 :=
        { inv := hI2, m7 := hM2, joints := rfl,
          allin := by
            intro b hb
            by_cases hb0 : b = 0
            · left; exact hb0
            · exact (hI2.tree b).mp (hA2 b (Nat.pos_of_ne_zero hb0) (by rw [hB2.nb]; exact hb)),
          cons_nodup := by simp [cjoints, hB2.cons],
          cons_lt := by simp [hB2.cons],
          done := by intro j hj; omega,
          jloop_idx := by intro j i hji; simp [hB2.jloop] at hji,
          cons_kind := by simp [hB2.cons],
          slaves_welded := by intro b hb1 hb2; rw [hB2.nb] at hb2; omega }
      have hC := bl_spec hC0 s2.joints.length (Nat.le_refl _)
      have hbl : breakLoops g s2 = bl g s2 s2.joints.length := rfl
      rw [hbl] at h
      subst h
      have hj : (bl g s2 s2.joints.length).joints = s2.joints := hC.joints
      refine valid_of_InvC (by rw [hj]; exact hC) ?_
      obtain ⟨e, he, hp⟩ := hJ2
      exact ⟨e, by rw [hj]; exact he, hp⟩

/-- **Termination.**  The fuel that replaces the C++ `while(true)` / `for(;;)` loops in the model is never
exhausted on a legal input: fuel exhaustion is unreachable, so `generate` returns exactly what the fuel-free
loops compute (a graph, or one of the three errors the C++ throws). -/
theorem terminates {g : Input} (hW : WF g) : generate g ≠ .error .fuel := generate_nofuel hW

/-- **The property in one statement**: on any legal input the graph maker either reports one of its three errors
or produces a valid spanning tree. -/
theorem error_or_valid {g : Input} (hW : WF g) :
    generate g = .error .masslessFree ∨ generate g = .error .masslessNotInternal ∨
    generate g = .error .terminalMassless ∨ ∃ s, generate g = .ok s ∧ Valid g s := by
  cases h : generate g with
  | ok s => exact Or.inr (Or.inr (Or.inr ⟨s, rfl, ok_implies_valid hW h⟩))
  | error e =>
    cases e with
    | masslessFree => exact Or.inl rfl
    | masslessNotInternal => exact Or.inr (Or.inl rfl)
    | terminalMassless => exact Or.inr (Or.inr (Or.inl rfl))
    | fuel => exact absurd h (terminates hW)

/-! ### the clauses of the property as corollaries -/

/-- every input body (and every slave body) is mobilized exactly once; Ground is not mobilized -/
theorem each_body_mobilized_once {g : Input} {s : St} (hW : WF g) (h : generate g = .ok s) :
    0 ∉ outbs s ∧ ∀ b, 0 < b → b < s.nb → (outbs s).count b = 1 :=
  ⟨(ok_implies_valid hW h).ground_fixed, (ok_implies_valid hW h).bodies_once⟩

/-- mobilizers are ordered inboard-first from Ground -/
theorem mobilizers_inboard_first {g : Input} {s : St} (hW : WF g) (h : generate g = .ok s) :
    OrderedFrom [0] s.mobs := (ok_implies_valid hW h).inboard_first

/-- every joint appears exactly once, as a mobilizer or as a loop constraint -/
theorem each_joint_once {g : Input} {s : St} (hW : WF g) (h : generate g = .ok s) :
    ∀ j, j < s.joints.length → (mjoints s).count j + (cjoints s).count j = 1 :=
  (ok_implies_valid hW h).joints_once

/-- each slave body is welded to its master (an input body, the child of the loop-forming joint) -/
theorem slaves_welded_to_master {g : Input} {s : St} (hW : WF g) (h : generate g = .ok s) :
    ∀ b, g.bodies.length ≤ b → b < s.nb → ∃ m ∈ s.mobs, m.outb = b ∧ SlaveMob g s m :=
  (ok_implies_valid hW h).slaves_welded

/-- joints marked must-be-loop never become tree joints -/
theorem must_be_loop_honoured {g : Input} {s : St} (hW : WF g) (h : generate g = .ok s) :
    ∀ m ∈ s.mobs, (jointAt s m.joint).mustLoop = true → SlaveMob g s m :=
  (ok_implies_valid hW h).loop_flag

/-- no massless input body with mobilities ends a branch -/
theorem no_massless_terminal_master {g : Input} {s : St} (hW : WF g) (h : generate g = .ok s) :
    ∀ i m, s.mobs[i]? = some m → m.outb < g.bodies.length → NeedsNext g s m →
      ∃ m', s.mobs[i + 1]? = some m' ∧ m'.inb = m.outb :=
  (ok_implies_valid hW h).massless_master

/-- **Must-be-base bodies are honoured — partial.**  Proved under the explicit hypothesis that no input body is
massless (`NoMassless`) and for bodies that have no input joint to Ground (the documented way to use the flag):
such a body is mobilized directly off Ground, at level 1.
What is missing for the full clause: with massless bodies the clause is FALSE in the implementation
(`base_flag_ignored_witness`, known finding `graph.viaMassless.base_flag`); a proof under the weaker hypothesis
"no massless body is adjacent to the flagged body" has not been attempted; the remaining cases are carried by the
implementation-side predicate `base_flag` of the exhaustive/random correspondence. -/
theorem base_honoured_partial {g : Input} {s : St} (hW : WF g) (hN : NoMassless g) (h : generate g = .ok s)
    {b : Nat} (hb0 : 0 < b) (hbn : b < g.bodies.length) (hbase : mustBaseOf g b = true)
    (hnogj : ∀ jt ∈ g.joints, ¬ (jt.parent = b ∧ jt.child = 0) ∧ ¬ (jt.parent = 0 ∧ jt.child = b)) :
    ∃ m ∈ s.mobs, m.outb = b ∧ m.inb = 0 ∧ m.level = 1 := by
  have hV := ok_implies_valid hW h
  have hl1 := base_level_one hW hN h hb0 hbn hbase hnogj
  have hcount := hV.bodies_once b hb0 (Nat.lt_of_lt_of_le hbn hV.nb_ge)
  have hmem : b ∈ outbs s := by
    by_contra hc
    rw [List.count_eq_zero_of_not_mem hc] at hcount; cases hcount
  obtain ⟨m, hm, ho⟩ := mem_outbs.mp hmem
  obtain ⟨hlo, l, hli, hml⟩ := hV.levels m hm
  rw [ho, hl1] at hlo
  have hm1 : m.level = 1 := (Option.some.inj hlo).symm
  refine ⟨m, hm, ho, ?_, hm1⟩
  -- the inboard body has level 0, hence is Ground: every mobilized body has level ≥ 1
  have hl0 : l = 0 := by omega
  subst hl0
  by_contra hne
  -- m.inb is in the tree and not Ground, so it is the outboard body of an earlier mobilizer with level ≥ 1
  have hord := hV.inboard_first
  have : m.inb ∈ outbs s := by
    have hall : ∀ (seen : List Nat) (ms : List Mob), OrderedFrom seen ms → ∀ x ∈ ms, x.inb ∈ seen ∨ x.inb ∈ ms.map (·.outb) := by
      intro seen ms
      induction ms generalizing seen with
      | nil => intro _ x hx; cases hx
      | cons a t ih =>
        intro ⟨h1, h2⟩ x hx
        rcases List.mem_cons.mp hx with rfl | hx
        · left; exact h1
        · rcases ih _ h2 x hx with h3 | h3
          · rcases List.mem_cons.mp h3 with h4 | h4
            · right; simp [h4]
            · left; exact h4
          · right; simp only [List.map_cons, List.mem_cons]; right; exact h3
    rcases hall [0] s.mobs hord m hm with h0 | h0
    · simp at h0; exact absurd h0 hne
    · exact h0
  obtain ⟨m2, hm2, ho2⟩ := mem_outbs.mp this
  obtain ⟨hlo2, l2, _, hml2⟩ := hV.levels m2 hm2
  rw [ho2, hli] at hlo2
  have := Option.some.inj hlo2
  omega

/-- non-vacuity of `base_honoured_partial`: two massful bodies in a chain, the outer one flagged must-be-base -/
def exBaseOk : Input :=
  { userTypes := [⟨1, false⟩], bodies := [⟨0, false⟩, ⟨1, false⟩, ⟨1, true⟩],
    joints := [⟨2, 0, 1, false, false⟩, ⟨2, 1, 2, false, false⟩] }

/-! ### non-vacuity and negative witnesses (concrete graphs, evaluated by the kernel)

User joint types used below: type 2 = "pin" (1 mobility, no good loop joint). -/

/-- does `generate` return normally? -/
def succeeds (g : Input) : Bool := match generate g with | .ok _ => true | .error _ => false

/-- number of mobilizers / loop constraints / bodies of the result (0 on error) -/
def resultSizes (g : Input) : Nat × Nat × Nat :=
  match generate g with | .ok s => (s.mobs.length, s.cons.length, s.nb) | .error _ => (0, 0, 0)

/-- the result contains a slave mobilizer with mobilities whose master body is massless
(the known finding `graph.slave.massless_terminal`) -/
def hasMasslessSlaveTerminal (g : Input) : Bool :=
  match generate g with
  | .ok s => s.mobs.any (fun m => match s.master m.outb with
      | some ms => massOf g ms == 0 && decide (0 < (typeOf g (jointAt s m.joint).type).nmob)
      | none => false)
  | .error _ => false

/-- the result contains a must-be-base body (without input joint to Ground) that is not a base body
(the known finding `graph.viaMassless.base_flag`) -/
def hasBaseFlagIgnored (g : Input) : Bool :=
  match generate g with
  | .ok s => s.mobs.any (fun m => mustBaseOf g m.outb && decide (m.outb < g.bodies.length) && m.inb != 0)
  | .error _ => false

/-- a four-bar-like loop: Ground -pin-> b1 -pin-> b2 -pin-> b3 -pin-> Ground(child); all massful -/
def exLoop : Input :=
  { userTypes := [⟨1, false⟩], bodies := [⟨0, false⟩, ⟨1, false⟩, ⟨1, false⟩, ⟨1, false⟩],
    joints := [⟨2, 0, 1, false, false⟩, ⟨2, 1, 2, false, false⟩, ⟨2, 2, 3, false, false⟩, ⟨2, 3, 0, false, false⟩] }

/-- minimal input of finding 1: b1 (mass 0), b2 (mass 1); pin b1→b2, pin b2→b1 -/
def exSlaveMassless : Input :=
  { userTypes := [⟨1, false⟩], bodies := [⟨0, false⟩, ⟨0, false⟩, ⟨1, false⟩],
    joints := [⟨2, 1, 2, false, false⟩, ⟨2, 2, 1, false, false⟩] }

/-- minimal input of finding 2: b1 (mass 0), b2 (mass 1, must be base); pin b1→b2, pin Ground→b1 -/
def exBaseIgnored : Input :=
  { userTypes := [⟨1, false⟩], bodies := [⟨0, false⟩, ⟨0, false⟩, ⟨1, true⟩],
    joints := [⟨2, 1, 2, false, false⟩, ⟨2, 0, 1, false, false⟩] }

theorem exLoop_wf : WF exLoop := by
  refine ⟨by decide, ?_⟩
  intro j hj
  simp [exLoop] at hj
  rcases hj with rfl | rfl | rfl | rfl <;> decide

/-- non-vacuity of `ok_implies_valid`: a legal input on which `generate` succeeds, with a loop broken by a slave
body (4 mobilizers incl. one slave mobilizer, 5 bodies) -/
theorem nonvacuous_loop : succeeds exLoop = true ∧ resultSizes exLoop = (4, 0, 5) := by decide

/-- non-vacuity of `base_honoured_partial`: `exBaseOk` has no massless body and succeeds: b1 and b2 both hang off
Ground (b2 by its added free joint), the pin b1→b2 closes a loop and gets a slave of b2 (3 mobilizers, 4 bodies) -/
theorem nonvacuous_base : succeeds exBaseOk = true ∧ resultSizes exBaseOk = (3, 0, 4) := by decide

/-- **Negative witness (known finding `graph.slave.massless_terminal`).**  The clause "no massless body with
mobilities ends a branch" is false for slave fragments: `breakLoops` splits the massless body b1 and mobilizes
the zero-mass fragment by a pin, no error.  (`massless_master` is therefore stated for input bodies only.) -/
theorem slave_massless_terminal_witness :
    succeeds exSlaveMassless = true ∧ hasMasslessSlaveTerminal exSlaveMassless = true := by decide

/-- **Negative witness (known finding `graph.viaMassless.base_flag`).**  A must-be-base body reached first through
the extend-past-massless loop is mobilized at level 2 off the massless body, no error.  (Hence there is no
unconditional `base_flag` clause in `Valid`; see `base_honoured_partial`.) -/
theorem base_flag_ignored_witness :
    succeeds exBaseIgnored = true ∧ hasBaseFlagIgnored exBaseIgnored = true := by decide

end C42
