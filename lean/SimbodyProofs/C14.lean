import SimbodyProofs.TreeDynAbs
import SimbodyProofs.TreeDynRefine
import SimbodyProofs.TreeDynSim
import SimbodyProofs.TreeDynSimAbi
import SimbodyProofs.TreeDynSimFwd

/-!
# C14 — mobilizer reaction forces satisfy Newton–Euler for every body

`calcMobilizerReactionForces` reports, for body `B` with inboard-shifted parent acceleration `A⁺`, the spatial force
`R_B = P⁺ A⁺ + z⁺` at the body origin (then shifts it to the `M` frame).  In the abstract twin (`TreeDynAbs`):

* `reaction t A⁺ = PP t *ᵥ A⁺ + zP t`
* the free-body (Newton–Euler) force through the joint is `FrP` run with forward dynamics' accelerations:
  `F_B = M_B A_B + (b_B − F_applied,B) + Σ_children φ_c F_c`   (`calcMobilizerReactionForcesUsingFreebodyMethod`).

Applied body forces, constraint forces (entering like applied forces) and gyroscopic forces are the per-body datum
`fb n = b − F`; applied mobility forces are `fm`.
-/

open Matrix

namespace C14
open TreeDynAbs TreeDynAbs.MBT

variable {K : Type} [Field K] {ι : Type} [Fintype ι] [DecidableEq ι]
variable (ab fb : Bd K ι → ι → K) (fm : MobF K ι)

/-- what `calcMobilizerReactionForces` computes at the body origin -/
def reaction (t : MBT K ι) (Ap : ι → K) : ι → K := PP t *ᵥ Ap + zP ab fb fm t

/-- the children's reactions, each shifted to this body's origin and summed -/
def reactionKids : List (MBT K ι) → (ι → K) → ι → K
  | [], _ => 0
  | c :: cs, A => (bd c).phi *ᵥ reaction ab fb fm c ((bd c).phiᵀ *ᵥ A) + reactionKids cs A

theorem reactionKids_eq (cs : List (MBT K ι)) (A : ι → K) :
    reactionKids ab fb fm cs A = Pkids cs *ᵥ A + zkids ab fb fm cs := by
  induction cs with
  | nil => simp [reactionKids, Pkids, zkids]
  | cons c cs ih =>
    simp only [reactionKids, ih, reaction, Pkids, zkids, PP, zP, eps, mulVec_add, add_mulVec, mulVec_mulVec,
      Matrix.mul_assoc]
    abel

/-- **the reported reaction is the free-body force — at every body** -/
theorem reaction_is_freebody (t : MBT K ι) (Ap : ι → K) (h : WF t) :
    AllN ab (udotA ab fb fm)
      (fun t Ap => reaction ab fb fm t Ap = FrP ab fb (udotA ab fb fm) t Ap) t Ap :=
  allN_of_forall ab (udotA ab fb fm) _ (fun t Ap h => (Fr_eq ab fb fm t Ap h).symm) t Ap h

/-- **Newton–Euler per body**: with `A` the body's acceleration under forward dynamics,
`M A + b − F_applied = R_self − Σ_children (R_child shifted to this body)` — at every body -/
theorem newton_euler_per_body (t : MBT K ι) (Ap : ι → K) (h : WF t) :
    AllN ab (udotA ab fb fm)
      (fun t Ap => (bd t).M *ᵥ accP ab (udotA ab fb fm) t Ap + fb (bd t)
          = reaction ab fb fm t Ap - reactionKids ab fb fm (kids t) (accP ab (udotA ab fb fm) t Ap)) t Ap :=
  allN_of_forall ab (udotA ab fb fm) _ (fun t Ap h => by
    cases t with
    | mk n cs =>
      have h1 := Fr_eq ab fb fm (MBT.mk n cs) Ap h
      have h2 := Frkids_eq ab fb fm cs (accP ab (udotA ab fb fm) (MBT.mk n cs) Ap) (WF.kids h)
      simp only [FrP] at h1
      simp only [reaction, reactionKids_eq, kids, bd, ← h1, h2]
      abel) t Ap h

/-- the reaction projected on the joint axes is the applied mobility force (mobility forces are part of the reaction) -/
theorem reaction_projects_to_mobility_force (t : MBT K ι) (Ap : ι → K) (h : WF t) :
    AllN ab (udotA ab fb fm) (fun t Ap => (bd t).Hᵀ *ᵥ reaction ab fb fm t Ap = fm t) t Ap :=
  allN_of_forall ab (udotA ab fb fm) _ (fun t Ap h => by
    have := residual_root ab fb fm t Ap h
    rw [Fr_eq ab fb fm t Ap h] at this
    exact this) t Ap h

/-- forest forms (bodies hanging off Ground) -/
theorem forest_reaction_is_freebody (cs : List (MBT K ι)) (h : ∀ c ∈ cs, WF c) :
    AllNk ab (udotA ab fb fm)
      (fun t Ap => reaction ab fb fm t Ap = FrP ab fb (udotA ab fb fm) t Ap) cs 0 :=
  allNk_of_forall ab (udotA ab fb fm) _ (fun t Ap h => (Fr_eq ab fb fm t Ap h).symm) cs 0 h

/-! ## the reaction on the parent (structured 6-D operations of the executable model) -/
section parent
open TreeDyn
variable {F : Type} [Field F]

theorem neg_toVec (f : SV F) : (SV.neg f).toVec = -f.toVec := by
  funext i
  rcases i with i | i <;> fin_cases i <;> simp [SV.neg, V3.neg, SV.toVec, V3.toFun]

/-- `findMobilizerReactionOnParentAtOriginInGround`: `shiftForceBy(−F_B, p_BP)` with `p_BP = −l` is exactly minus
the child's reaction shifted by the child-to-parent operator `Φ(l)` — the term that appears in the parent's
Newton–Euler balance; so the reaction on the parent is equal and opposite to the (shifted) reaction on the child -/
theorem parent_reaction_opposite (l : V3 F) (f : SV F) :
    (shiftForceBy (SV.neg f) (V3.neg l)).toVec + phiMat l *ᵥ f.toVec = 0 := by
  have hl : V3.neg (V3.neg l) = l := by
    cases l; simp [V3.neg]
  rw [shiftForceBy_toVec, hl, neg_toVec, mulVec_neg]
  abel

/-- shifting the application point there and back is the identity (`…AtMInGround` vs `…AtOriginInGround`) -/
theorem shift_roundtrip (r : V3 F) (f : SV F) :
    (shiftForceBy (shiftForceBy f r) (V3.neg r)).toVec = f.toVec := by
  funext i
  rcases i with i | i <;> fin_cases i <;>
    simp [shiftForceBy, V3.neg, V3.sub, V3.cross, SV.toVec, V3.toFun] <;> ring
end parent

/-! ## non-vacuity -/
section example_tree
abbrev b1 : Bd ℚ (Fin 1) :=
  { d := 1, H := 1, phi := 1, M := 1, DI := 1, f := fun _ => 3, ud := fun _ => 2,
    a := fun _ => 5, b := fun _ => 7, Fa := fun _ => 1 }
theorem leaf_WF : WF (MBT.mk b1 []) := by
  refine WF.mk b1 [] (by simp) (by simp) ?_ ?_
  · simp [P, Pkids]
  · simp [P, Pkids]
example : AllN (fun n => n.a) (udotA (fun n => n.a) (fun n => n.b - n.Fa) fieldF)
    (fun t Ap => (bd t).Hᵀ *ᵥ reaction (fun n => n.a) (fun n => n.b - n.Fa) fieldF t Ap = fieldF t)
    (MBT.mk b1 []) 0 :=
  reaction_projects_to_mobility_force _ _ _ _ _ leaf_WF
end example_tree


/-! ## simulation: the EXECUTED reaction `z⁺ + P⁺A⁺` (`TreeDyn.reactionAtOrigin` on the executed forward-dynamics result)
is the twin's `reaction` at every node (free mobilizers; `WF` = every executed `D·DI = 1`, validated per case by `O wf`) -/
section simulation
open TreeDyn
variable {F : Type} [Field F]

theorem exec_reaction (f udotP : Array F) (tab : Array (Bias F)) (ta : Tr (Body F × Abi F)) (AP : SV F)
    (hok : AbiOK (exF f tab) ta) (hwf : WF (absT (decA (exF f tab)) ta)) :
    (reactionAtOrigin (fwdDown f udotP tab ta AP)).toVec
      = reaction abF fbF fieldF (absT (decA (exF f tab)) ta) ((phiMat ta.val.1.l)ᵀ *ᵥ AP.toVec) :=
  (sim_fwd_down f udotP tab ta AP hok hwf).2.2

/-- hence (with `reaction_projects_to_mobility_force` at the root of every subtree) the executed reaction projected on the
executed hinge columns is the applied mobility-force block -/
theorem exec_reaction_projects (f udotP : Array F) (tab : Array (Bias F)) (ta : Tr (Body F × Abi F)) (AP : SV F)
    (hok : AbiOK (exF f tab) ta) (hwf : WF (absT (decA (exF f tab)) ta)) :
    (bd (absT (decA (exF f tab)) ta)).Hᵀ *ᵥ (reactionAtOrigin (fwdDown f udotP tab ta AP)).toVec
      = fieldF (absT (decA (exF f tab)) ta) := by
  rw [exec_reaction f udotP tab ta AP hok hwf]
  have := residual_root abF fbF fieldF (absT (decA (exF f tab)) ta) ((phiMat ta.val.1.l)ᵀ *ᵥ AP.toVec) hwf
  rw [Fr_eq abF fbF fieldF _ _ hwf] at this
  exact this
end simulation

end C14
