import SimbodyModel.C44
import Mathlib.Tactic.Ring
import Mathlib.Tactic.FieldSimp
import Mathlib.Tactic.Linarith
import Mathlib.Tactic.Positivity
import Mathlib.Tactic.NormNum
import Mathlib.Algebra.Order.Field.Basic

/-! # C44 — helper lemmas: array frame facts, gather/scatter, norms, generic stage-fold invariants -/
set_option linter.unusedSectionVars false
namespace C44

section Arr
variable {K : Type} [OfNat K 0]

theorem vset_size (v : Array K) (i : Nat) (x : K) : (vset v i x).size = v.size := by simp [vset]

theorem vget_vset (v : Array K) (i j : Nat) (x : K) :
    vget (vset v i x) j = if i = j ∧ i < v.size then x else vget v j := by
  unfold vget vset
  by_cases hij : i = j
  · subst hij
    by_cases hi : i < v.size
    · simp [hi, Array.getD_eq_getD_getElem?]
    · simp [hi, Array.getD_eq_getD_getElem?]
  · simp [hij, Array.getD_eq_getD_getElem?, Array.getElem?_setIfInBounds_ne hij]

theorem vget_vset_ne (v : Array K) (i j : Nat) (x : K) (h : i ≠ j) : vget (vset v i x) j = vget v j := by
  rw [vget_vset]; simp [h]

theorem vget_vset_self (v : Array K) (i : Nat) (x : K) (h : i < v.size) : vget (vset v i x) i = x := by
  rw [vget_vset]; simp [h]

theorem scatter_size (pi : Array K) (ix : List Nat) (vs : List K) : (scatter pi ix vs).size = pi.size := by
  induction ix generalizing pi vs with
  | nil => cases vs <;> simp [scatter]
  | cons i ix ih => cases vs with
    | nil => simp [scatter]
    | cons v vs => simp [scatter, ih, vset_size]

theorem scatter_frame (pi : Array K) (ix : List Nat) (vs : List K) (j : Nat) (hj : j ∉ ix) :
    vget (scatter pi ix vs) j = vget pi j := by
  induction ix generalizing pi vs with
  | nil => cases vs <;> simp [scatter]
  | cons i ix ih => cases vs with
    | nil => simp [scatter]
    | cons v vs =>
      simp only [scatter]
      rw [ih _ _ (fun h => hj (List.mem_cons_of_mem _ h)), vget_vset_ne]
      intro h; exact hj (h ▸ List.mem_cons_self)

theorem gather_congr (pi pi' : Array K) (ix : List Nat) (h : ∀ j ∈ ix, vget pi' j = vget pi j) :
    gather pi' ix = gather pi ix := by
  unfold gather; exact List.map_congr_left h

theorem gather_scatter (pi : Array K) (ix : List Nat) (vs : List K) (hnd : ix.Nodup) (hlt : ∀ i ∈ ix, i < pi.size)
    (hlen : ix.length = vs.length) : gather (scatter pi ix vs) ix = vs := by
  induction ix generalizing pi vs with
  | nil => cases vs with
    | nil => simp [gather]
    | cons v vs => simp at hlen
  | cons i ix ih => cases vs with
    | nil => simp at hlen
    | cons v vs =>
      have hnd' := List.nodup_cons.mp hnd
      simp only [scatter, gather, List.map_cons]
      congr 1
      · rw [scatter_frame _ _ _ _ hnd'.1, vget_vset_self _ _ _ (hlt i List.mem_cons_self)]
      · apply ih _ _ hnd'.2
        · intro k hk; rw [vset_size]; exact hlt k (List.mem_cons_of_mem _ hk)
        · simpa using hlen
end Arr

section Alg
variable {K : Type} [Field K] [LinearOrder K] [IsStrictOrderedRing K]

omit [LinearOrder K] [IsStrictOrderedRing K] in
theorem normSq_foldl (vs : List K) (a : K) :
    vs.foldl (fun s v => s + square v) a = a + normSq vs := by
  induction vs generalizing a with
  | nil => simp [normSq]
  | cons v vs ih => simp only [normSq, List.foldl_cons]; rw [ih, ih (0 + square v)]; ring

omit [LinearOrder K] [IsStrictOrderedRing K] in
theorem normSq_cons (v : K) (vs : List K) : normSq (v :: vs) = v * v + normSq vs := by
  simp only [normSq, List.foldl_cons]; rw [normSq_foldl]; simp [square, normSq]

omit [LinearOrder K] [IsStrictOrderedRing K] in
theorem normSq_map_mul (vs : List K) (s : K) : normSq (vs.map (fun v => v * s)) = s * s * normSq vs := by
  induction vs with
  | nil => simp [normSq]
  | cons v vs ih => rw [List.map_cons, normSq_cons, normSq_cons, ih]; ring

theorem normSq_nonneg (vs : List K) : 0 ≤ normSq vs := by
  induction vs with
  | nil => simp [normSq]
  | cons v vs ih => rw [normSq_cons]; nlinarith [mul_self_nonneg v]

theorem mem_le_normSq (vs : List K) (v : K) (h : v ∈ vs) : v * v ≤ normSq vs := by
  induction vs with
  | nil => simp at h
  | cons w ws ih =>
    rw [normSq_cons]
    rcases List.mem_cons.mp h with rfl | h'
    · linarith [normSq_nonneg ws]
    · linarith [ih h', mul_self_nonneg w]

omit [LinearOrder K] [IsStrictOrderedRing K] in
theorem scaleToLimit_length [LE K] [DecidableLE K] (sqrt : K → K) (l : K) (vs : List K) :
    (scaleToLimit sqrt l vs).1.length = vs.length := by
  unfold scaleToLimit; simp only; split_ifs <;> simp
end Alg

/-! ### updates touch only their own rows -/
section Frame
variable {K : Type} [Add K] [Sub K] [Mul K] [Neg K] [Div K] [OfNat K 0] [OfNat K 1]
variable [LT K] [DecidableLT K] [LE K] [DecidableLE K]

theorem doUpdate_size (row : Nat) (A : Array (Array K)) (D rhs : Array K) (sor s : K) (pi : Array K) :
    (doUpdate row A D rhs sor s pi).1.size = pi.size := by
  unfold doUpdate; simp only; split_ifs <;> simp [vset_size]

theorem doUpdate_frame (row : Nat) (A : Array (Array K)) (D rhs : Array K) (sor s : K) (pi : Array K) (j : Nat)
    (h : j ≠ row) : vget (doUpdate row A D rhs sor s pi).1 j = vget pi j := by
  unfold doUpdate; simp only; split_ifs
  · exact vget_vset_ne _ _ _ _ (Ne.symm h)
  · rfl

theorem doUpdates_size (A : Array (Array K)) (D rhs : Array K) (sor : K) (rows : List Nat) (sums : List K)
    (pi : Array K) (e : K) : (doUpdates A D rhs sor rows sums pi e).1.size = pi.size := by
  induction rows generalizing sums pi e with
  | nil => simp [doUpdates]
  | cons r rows ih => cases sums with
    | nil => simp [doUpdates]
    | cons s sums => simp only [doUpdates]; rw [ih, doUpdate_size]

theorem doUpdates_frame (A : Array (Array K)) (D rhs : Array K) (sor : K) (rows : List Nat) (sums : List K)
    (pi : Array K) (e : K) (j : Nat) (h : j ∉ rows) :
    vget (doUpdates A D rhs sor rows sums pi e).1 j = vget pi j := by
  induction rows generalizing sums pi e with
  | nil => simp [doUpdates]
  | cons r rows ih => cases sums with
    | nil => simp [doUpdates]
    | cons s sums =>
      simp only [doUpdates]
      rw [ih _ _ _ (fun hh => h (List.mem_cons_of_mem _ hh)), doUpdate_frame]
      intro hh; exact h (hh ▸ List.mem_cons_self)

theorem updateGroup_size (cols rows : List Nat) (A : Array (Array K)) (D rhs : Array K) (sor : K) (pi : Array K) :
    (updateGroup cols rows A D rhs sor pi).1.size = pi.size := doUpdates_size ..

theorem updateGroup_frame (cols rows : List Nat) (A : Array (Array K)) (D rhs : Array K) (sor : K) (pi : Array K)
    (j : Nat) (h : j ∉ rows) : vget (updateGroup cols rows A D rhs sor pi).1 j = vget pi j :=
  doUpdates_frame _ _ _ _ _ _ _ _ _ h

theorem boundVector_size (sqrt : K → K) (l : K) (IV : List Nat) (pi : Array K) :
    (boundVector sqrt l IV pi).1.size = pi.size := by
  unfold boundVector; simp only; split_ifs <;> simp [scatter_size]

theorem boundVector_frame (sqrt : K → K) (l : K) (IV : List Nat) (pi : Array K) (j : Nat) (h : j ∉ IV) :
    vget (boundVector sqrt l IV pi).1 j = vget pi j := by
  unfold boundVector; simp only; split_ifs
  · rfl
  · exact scatter_frame _ _ _ _ h

theorem boundFriction_size (sqrt : K → K) (mu : K) (IN IF : List Nat) (pi : Array K) :
    (boundFriction sqrt mu IN IF pi).1.size = pi.size := by
  unfold boundFriction; simp only; split_ifs <;> simp [scatter_size]

theorem boundFriction_frame (sqrt : K → K) (mu : K) (IN IF : List Nat) (pi : Array K) (j : Nat) (h : j ∉ IF) :
    vget (boundFriction sqrt mu IN IF pi).1 j = vget pi j := by
  unfold boundFriction; simp only; split_ifs
  · rfl
  · exact scatter_frame _ _ _ _ h

/-! ### generic facts about a stage fold -/
variable {α : Type}

theorem foldStage_size (f : St K → α → St K × Nat) (hsz : ∀ st x, (f st x).1.pi.size = st.pi.size)
    (xs : List α) (st : St K) : (foldStage f xs st).1.pi.size = st.pi.size := by
  induction xs generalizing st with
  | nil => rfl
  | cons x xs ih => simp only [foldStage]; rw [ih, hsz]

theorem foldStage_frame (f : St K → α → St K × Nat) (rows : α → List Nat)
    (hf : ∀ st x j, j ∉ rows x → vget (f st x).1.pi j = vget st.pi j)
    (xs : List α) (st : St K) (j : Nat) (hj : ∀ x ∈ xs, j ∉ rows x) :
    vget (foldStage f xs st).1.pi j = vget st.pi j := by
  induction xs generalizing st with
  | nil => rfl
  | cons x xs ih =>
    simp only [foldStage]
    rw [ih _ (fun y hy => hj y (List.mem_cons_of_mem _ hy)), hf _ _ _ (hj x List.mem_cons_self)]

/-- if every step establishes its own postcondition `Q x`, `Q x` only reads the rows `reads x`, and later steps do
not write those rows, then after the whole stage every `Q x` holds -/
theorem foldStage_inv (f : St K → α → St K × Nat) (rows reads : α → List Nat) (Q : α → Array K → Prop) (n : Nat)
    (WF : α → Prop)
    (hsz : ∀ st x, (f st x).1.pi.size = st.pi.size)
    (hf : ∀ st x j, j ∉ rows x → vget (f st x).1.pi j = vget st.pi j)
    (hpost : ∀ st x, st.pi.size = n → WF x → Q x (f st x).1.pi)
    (hstable : ∀ x pi pi', (∀ j ∈ reads x, vget pi' j = vget pi j) → Q x pi → Q x pi')
    (xs : List α) (hwf : ∀ x ∈ xs, WF x)
    (hdisj : xs.Pairwise (fun x y => ∀ j ∈ reads x, j ∉ rows y))
    (st : St K) (hn : st.pi.size = n) :
    ∀ x ∈ xs, Q x (foldStage f xs st).1.pi := by
  induction xs generalizing st with
  | nil => intro x hx; simp at hx
  | cons y ys ih =>
    intro x hx
    have hp := List.pairwise_cons.mp hdisj
    simp only [foldStage]
    rcases List.mem_cons.mp hx with rfl | hx'
    · apply hstable x (f st x).1.pi
      · intro j hj
        exact foldStage_frame f rows hf ys _ j (fun z hz => hp.1 z hz j hj)
      · exact hpost st x hn (hwf x List.mem_cons_self)
    · exact ih (fun z hz => hwf z (List.mem_cons_of_mem _ hz)) hp.2 _ (by rw [hsz]; exact hn) x hx'
end Frame

end C44
