import SimbodyModel.C10
import Mathlib.Tactic.Ring
import Mathlib.Tactic.FieldSimp
import Mathlib.Tactic.LinearCombination
import Mathlib.Algebra.Field.Basic
import Mathlib.Data.List.Basic

/-!
# C10 — helper lemmas: scatter, index allocation, dual numbers, dense dot products, Gaussian elimination
-/
namespace C10

/-! ## scatter -/
section scatter
variable {K : Type}

@[simp] theorem scatter_nil_idx (xs vs : List K) : scatter xs [] vs = xs := by
  unfold scatter; rfl
@[simp] theorem scatter_nil_val (xs : List K) (is : List Nat) : scatter xs is [] = xs := by
  cases is <;> rfl
@[simp] theorem scatter_cons (xs : List K) (i : Nat) (is : List Nat) (v : K) (vs : List K) :
    scatter xs (i :: is) (v :: vs) = scatter (xs.set i v) is vs := rfl

@[simp] theorem scatter_length (xs : List K) (is : List Nat) (vs : List K) : (scatter xs is vs).length = xs.length := by
  induction is generalizing xs vs with
  | nil => simp
  | cons i is ih => cases vs with
    | nil => simp
    | cons v vs => simp [ih]

/-- slots that are not addressed keep their value -/
theorem scatter_getElem?_of_not_mem (xs : List K) (is : List Nat) (vs : List K) (j : Nat) (h : j ∉ is) :
    (scatter xs is vs)[j]? = xs[j]? := by
  induction is generalizing xs vs with
  | nil => simp
  | cons i is ih => cases vs with
    | nil => simp
    | cons v vs =>
      simp only [List.mem_cons, not_or] at h
      rw [scatter_cons, ih _ _ h.2, List.getElem?_set_ne (Ne.symm h.1)]

/-- an addressed slot holds the pool value of its position (distinct indices) -/
theorem scatter_getElem?_of_mem (xs : List K) (is : List Nat) (vs : List K) (hnd : is.Nodup)
    (hlen : is.length = vs.length) (k : Nat) (hk : k < is.length) (hb : is[k] < xs.length) :
    (scatter xs is vs)[is[k]]? = some (vs[k]'(hlen ▸ hk)) := by
  induction is generalizing xs vs k with
  | nil => simp at hk
  | cons i is ih => cases vs with
    | nil => simp at hlen
    | cons v vs =>
      rw [List.nodup_cons] at hnd
      cases k with
      | zero =>
        simp only [List.getElem_cons_zero] at hb ⊢
        rw [scatter_cons, scatter_getElem?_of_not_mem _ _ _ _ hnd.1]
        simp [hb]
      | succ k =>
        simp only [List.getElem_cons_succ] at hb ⊢
        rw [scatter_cons]
        exact ih (xs.set i v) vs hnd.2 (by simpa using hlen) k (by simpa using hk) (by simpa using hb)


theorem scatter_append (xs : List K) (is1 is2 : List Nat) (vs1 vs2 : List K) (h : is1.length = vs1.length) :
    scatter xs (is1 ++ is2) (vs1 ++ vs2) = scatter (scatter xs is1 vs1) is2 vs2 := by
  induction is1 generalizing xs vs1 with
  | nil =>
    have : vs1 = [] := List.eq_nil_of_length_eq_zero (by simpa using h.symm)
    subst this; simp
  | cons i is ih => cases vs1 with
    | nil => simp at h
    | cons v vs => simp only [List.cons_append, scatter_cons]; exact ih _ _ (by simpa using h)

variable [OfNat K 0]

@[simp] theorem scatterZero_nil (xs : List K) : scatterZero xs [] = xs := rfl
@[simp] theorem scatterZero_cons (xs : List K) (i : Nat) (is : List Nat) :
    scatterZero xs (i :: is) = scatterZero (xs.set i 0) is := rfl

@[simp] theorem scatterZero_length (xs : List K) (is : List Nat) : (scatterZero xs is).length = xs.length := by
  induction is generalizing xs with
  | nil => simp
  | cons i is ih => simp [ih]

theorem scatterZero_getElem?_of_not_mem (xs : List K) (is : List Nat) (j : Nat) (h : j ∉ is) :
    (scatterZero xs is)[j]? = xs[j]? := by
  induction is generalizing xs with
  | nil => simp
  | cons i is ih =>
    simp only [List.mem_cons, not_or] at h
    rw [scatterZero_cons, ih _ h.2, List.getElem?_set_ne (Ne.symm h.1)]

theorem scatterZero_getElem?_of_mem (xs : List K) (is : List Nat) (j : Nat) (h : j ∈ is) (hb : j < xs.length) :
    (scatterZero xs is)[j]? = some 0 := by
  induction is generalizing xs with
  | nil => simp at h
  | cons i is ih =>
    rw [scatterZero_cons]
    by_cases hj : j ∈ is
    · exact ih _ hj (by simpa using hb)
    · have : j = i := by simpa [hj] using h
      subst this
      rw [scatterZero_getElem?_of_not_mem _ _ _ hj]; simp [hb]
end scatter

/-! ## the index lists pushed by `realizeSubsystemInstanceImpl` are distinct and mutually disjoint -/
section alloc

/-- slots are handed out in increasing order without overlap: `start_i + n_i ≤ start_j` for `i` before `j`
(`nxtQ += maxNQ`, `nxtU += dof` in `realizeTopology`; the count in use never exceeds the allocation) -/
def Alloc (es : List (Nat × Nat × Method)) : Prop := es.Pairwise (fun a b => a.1 + a.2.1 ≤ b.1)

theorem mem_slotsIf {sel : Bool} {start n x : Nat} : x ∈ slotsIf sel start n ↔ sel = true ∧ start ≤ x ∧ x < start + n := by
  unfold slotsIf
  cases sel <;> simp [List.mem_range'_1]

theorem mem_collect {sel : Method → Bool} {es : List (Nat × Nat × Method)} {x : Nat} (h : x ∈ collect sel es) :
    ∃ e ∈ es, sel e.2.2 = true ∧ e.1 ≤ x ∧ x < e.1 + e.2.1 := by
  induction es with
  | nil => simp [collect] at h
  | cons e es ih =>
    obtain ⟨start, n, m⟩ := e
    simp only [collect, List.mem_append] at h
    rcases h with h | h
    · exact ⟨(start, n, m), by simp, mem_slotsIf.mp h⟩
    · obtain ⟨e, he, hs⟩ := ih h
      exact ⟨e, List.mem_cons_of_mem _ he, hs⟩

theorem slotsIf_nodup (sel : Bool) (start n : Nat) : (slotsIf sel start n).Nodup := by
  unfold slotsIf; cases sel <;> simp [List.nodup_range']

theorem collect_nodup (sel : Method → Bool) (es : List (Nat × Nat × Method)) (h : Alloc es) : (collect sel es).Nodup := by
  induction es with
  | nil => simp [collect]
  | cons e es ih =>
    obtain ⟨start, n, m⟩ := e
    unfold Alloc at h
    rw [List.pairwise_cons] at h
    simp only [collect]
    rw [List.nodup_append]
    refine ⟨slotsIf_nodup _ _ _, ih h.2, ?_⟩
    intro a ha b hb hab
    subst hab
    obtain ⟨e, he, _, hlo, _⟩ := mem_collect hb
    have := h.1 e he
    have := (mem_slotsIf.mp ha).2.2
    simp only at *
    omega

theorem collect_disjoint (s1 s2 : Method → Bool) (hsel : ∀ m, ¬ (s1 m = true ∧ s2 m = true))
    (es : List (Nat × Nat × Method)) (h : Alloc es) : ∀ x ∈ collect s1 es, x ∉ collect s2 es := by
  induction es with
  | nil => simp [collect]
  | cons e es ih =>
    obtain ⟨start, n, m⟩ := e
    unfold Alloc at h
    rw [List.pairwise_cons] at h
    intro x hx1 hx2
    simp only [collect, List.mem_append] at hx1 hx2
    rcases hx1 with h1 | h1 <;> rcases hx2 with h2 | h2
    · exact hsel m ⟨(mem_slotsIf.mp h1).1, (mem_slotsIf.mp h2).1⟩
    · obtain ⟨e, he, _, hlo, _⟩ := mem_collect h2
      have := h.1 e he; have := (mem_slotsIf.mp h1).2.2; simp only at *; omega
    · obtain ⟨e, he, _, hlo, _⟩ := mem_collect h1
      have := h.1 e he; have := (mem_slotsIf.mp h2).2.2; simp only at *; omega
    · exact ih h.2 x h1 h2

theorem collect_lt (sel : Method → Bool) (es : List (Nat × Nat × Method)) (N : Nat)
    (hN : ∀ e ∈ es, e.1 + e.2.1 ≤ N) : ∀ x ∈ collect sel es, x < N := by
  intro x hx
  obtain ⟨e, he, _, _, hhi⟩ := mem_collect hx
  have := hN e he; omega

theorem length_slotsIf (sel : Bool) (start n : Nat) : (slotsIf sel start n).length = if sel then n else 0 := by
  unfold slotsIf; cases sel <;> simp


theorem collect_eq_nil (sel : Method → Bool) (es : List (Nat × Nat × Method)) (h : ∀ e ∈ es, sel e.2.2 = false) :
    collect sel es = [] := by
  induction es with
  | nil => rfl
  | cons e es ih =>
    obtain ⟨start, n, m⟩ := e
    have h0 : sel m = false := h (start, n, m) (by simp)
    simp only [collect, slotsIf, h0, Bool.false_eq_true, if_false, List.nil_append]
    exact ih (fun e he => h e (List.mem_cons_of_mem _ he))

theorem mem_collect_of_mem {sel : Method → Bool} {es : List (Nat × Nat × Method)} {e : Nat × Nat × Method}
    (he : e ∈ es) (hs : sel e.2.2 = true) {x : Nat} (h1 : e.1 ≤ x) (h2 : x < e.1 + e.2.1) : x ∈ collect sel es := by
  induction es with
  | nil => simp at he
  | cons e0 es ih =>
    obtain ⟨start, n, m⟩ := e0
    simp only [collect, List.mem_append]
    rcases List.mem_cons.mp he with rfl | he'
    · exact Or.inl (mem_slotsIf.mpr ⟨hs, h1, h2⟩)
    · exact Or.inr (ih he')

/-- **the scatter of the walk's pool into the walk's index list puts every mobilizer's values on that mobilizer's own
slots**: `L` is the list of mobilizers, `fe` gives (first slot, slot count, method), `fv` the values it delivers. -/
theorem scatter_collect_map {K α : Type} (L : List α) (fe : α → Nat × Nat × Method) (fv : α → List K)
    (sel : Method → Bool) (xs : List K) (hA : Alloc (L.map fe))
    (hlen : ∀ a ∈ L, (fv a).length = (fe a).2.1) (hb : ∀ a ∈ L, (fe a).1 + (fe a).2.1 ≤ xs.length) :
    ∀ a ∈ L, sel (fe a).2.2 = true → ∀ j, j < (fe a).2.1 →
      (scatter xs (collect sel (L.map fe)) (collectVals sel (L.map (fun a => ((fe a).2.2, fv a)))))[(fe a).1 + j]?
        = (fv a)[j]? := by
  induction L generalizing xs with
  | nil => intro a ha; simp at ha
  | cons a0 L ih =>
    intro a ha hsel j hj
    unfold Alloc at hA
    simp only [List.map_cons, List.pairwise_cons] at hA
    have hA' : Alloc (L.map fe) := hA.2
    have hlen' : ∀ a ∈ L, (fv a).length = (fe a).2.1 := fun a h => hlen a (List.mem_cons_of_mem _ h)
    simp only [List.map_cons, collect, collectVals]
    by_cases h0 : sel (fe a0).2.2 = true
    · have hl : (slotsIf (sel (fe a0).2.2) (fe a0).1 (fe a0).2.1).length = (if sel (fe a0).2.2 = true then fv a0 else []).length := by
        simp [h0, length_slotsIf, hlen a0 (by simp)]
      rw [scatter_append _ _ _ _ _ hl]
      have hb' : ∀ a ∈ L, (fe a).1 + (fe a).2.1 ≤ (scatter xs (slotsIf (sel (fe a0).2.2) (fe a0).1 (fe a0).2.1)
          (if sel (fe a0).2.2 = true then fv a0 else [])).length := by
        intro a h; rw [scatter_length]; exact hb a (List.mem_cons_of_mem _ h)
      rcases List.mem_cons.mp ha with rfl | ha'
      · -- the head's own slots are not touched by the rest of the walk
        have hnot : (fe a).1 + j ∉ collect sel (L.map fe) := by
          intro hmem
          obtain ⟨e, he, _, hlo, _⟩ := mem_collect hmem
          have := hA.1 e he
          omega
        rw [scatter_getElem?_of_not_mem _ _ _ _ hnot]
        simp only [h0, if_true, slotsIf]
        have hk : j < (List.range' (fe a).1 (fe a).2.1).length := by simpa using hj
        have hlen0 : (List.range' (fe a).1 (fe a).2.1).length = (fv a).length := by
          simp [hlen a (by simp)]
        have hidx : (List.range' (fe a).1 (fe a).2.1)[j] = (fe a).1 + j := by simp
        have hbb : (List.range' (fe a).1 (fe a).2.1)[j] < xs.length := by
          rw [hidx]; have := hb a (by simp); omega
        have := scatter_getElem?_of_mem xs (List.range' (fe a).1 (fe a).2.1) (fv a) (by simp [List.nodup_range']) hlen0 j hk hbb
        rw [hidx] at this
        rw [this]
        have hj' : j < (fv a).length := by rw [hlen a (by simp)]; exact hj
        simp [hj']
      · exact ih _ hA' hlen' hb' a ha' hsel j hj
    · have h0f : sel (fe a0).2.2 = false := by simpa using h0
      simp only [h0f, slotsIf, Bool.false_eq_true, if_false, List.nil_append]
      rcases List.mem_cons.mp ha with rfl | ha'
      · rw [h0f] at hsel; simp at hsel
      · exact ih xs hA' hlen' (fun a h => hb a (List.mem_cons_of_mem _ h)) a ha' hsel j hj
theorem sel_pres_zero (m : Method) : ¬ (isPres m = true ∧ isZero m = true) := by cases m <;> simp [isPres, isZero]
theorem sel_pres_free (m : Method) : ¬ (isPres m = true ∧ isFree m = true) := by cases m <;> simp [isPres, isFree]
theorem sel_zero_free (m : Method) : ¬ (isZero m = true ∧ isFree m = true) := by cases m <;> simp [isZero, isFree]
theorem sel_free_known (m : Method) : ¬ (isFree m = true ∧ notFree m = true) := by cases m <;> simp [isFree, notFree]


/-- pools and index lists have the same length when every mobilizer delivers one value per slot -/
theorem collect_length_eq_vals {K : Type} (sel : Method → Bool) (es : List (Nat × Nat × Method)) (vs : List (Method × List K))
    (h : List.Forall₂ (fun e v => e.2.2 = v.1 ∧ v.2.length = e.2.1) es vs) :
    (collect sel es).length = (collectVals sel vs).length := by
  induction h with
  | nil => simp [collect, collectVals]
  | @cons e v es vs hab _ ih =>
    obtain ⟨start, n, m⟩ := e
    obtain ⟨m', l⟩ := v
    simp only at hab
    obtain ⟨rfl, hl⟩ := hab
    simp only [collect, collectVals, List.length_append, ih, length_slotsIf]
    cases sel m <;> simp [hl]

end alloc

/-! ## the common body of `prescribeQ`, `prescribeU` and the known-udot scatter, over a walk of mobilizers -/
section walk
variable {K α : Type} [OfNat K 0]

/-- scatter the walk's prescribed pool, then zero the walk's known-zero slots -/
def walkScatter (xs : List K) (L : List α) (fe : α → Nat × Nat × Method) (fv : α → List K) : List K :=
  scatterZero (scatter xs (collect isPres (L.map fe)) (collectVals isPres (L.map (fun a => ((fe a).2.2, fv a)))))
    (collect isZero (L.map fe))

theorem isPres_iff (m : Method) : isPres m = true ↔ m = .prescribed := by cases m <;> simp [isPres]
theorem isZero_iff (m : Method) : isZero m = true ↔ m = .zero := by cases m <;> simp [isZero]
theorem not_pres_and_zero (m : Method) : ¬ (isPres m = true ∧ isZero m = true) := by cases m <;> simp [isPres, isZero]

theorem walk_length (xs : List K) (L : List α) (fe : α → Nat × Nat × Method) (fv : α → List K) :
    (walkScatter xs L fe fv).length = xs.length := by simp [walkScatter]

/-- a mobilizer whose method is Prescribed finds exactly its own values on its own slots -/
theorem walk_pres (xs : List K) (L : List α) (fe : α → Nat × Nat × Method) (fv : α → List K)
    (hA : Alloc (L.map fe)) (hlen : ∀ a ∈ L, (fv a).length = (fe a).2.1)
    (hb : ∀ a ∈ L, (fe a).1 + (fe a).2.1 ≤ xs.length)
    (a : α) (ha : a ∈ L) (hm : (fe a).2.2 = .prescribed) (j : Nat) (hj : j < (fe a).2.1) :
    (walkScatter xs L fe fv)[(fe a).1 + j]? = (fv a)[j]? := by
  have hp : isPres (fe a).2.2 = true := (isPres_iff _).mpr hm
  have hin : (fe a).1 + j ∈ collect isPres (L.map fe) :=
    mem_collect_of_mem (List.mem_map_of_mem ha) hp (Nat.le_add_right _ _) (by omega)
  have hnz := collect_disjoint isPres isZero not_pres_and_zero (L.map fe) hA _ hin
  unfold walkScatter
  rw [scatterZero_getElem?_of_not_mem _ _ _ hnz]
  exact scatter_collect_map L fe fv isPres xs hA hlen hb a ha hp j hj

/-- a mobilizer whose method is Zero finds 0 on its slots -/
theorem walk_zero (xs : List K) (L : List α) (fe : α → Nat × Nat × Method) (fv : α → List K)
    (hb : ∀ a ∈ L, (fe a).1 + (fe a).2.1 ≤ xs.length)
    (a : α) (ha : a ∈ L) (hm : (fe a).2.2 = .zero) (j : Nat) (hj : j < (fe a).2.1) :
    (walkScatter xs L fe fv)[(fe a).1 + j]? = some 0 := by
  have hz : isZero (fe a).2.2 = true := (isZero_iff _).mpr hm
  have hin : (fe a).1 + j ∈ collect isZero (L.map fe) :=
    mem_collect_of_mem (List.mem_map_of_mem ha) hz (Nat.le_add_right _ _) (by omega)
  unfold walkScatter
  exact scatterZero_getElem?_of_mem _ _ _ hin (by rw [scatter_length]; have := hb a ha; omega)

/-- every slot that does not belong to a Prescribed or Zero mobilizer is left untouched -/
theorem walk_other (xs : List K) (L : List α) (fe : α → Nat × Nat × Method) (fv : α → List K) (x : Nat)
    (hx : ∀ a ∈ L, ((fe a).2.2 = .prescribed ∨ (fe a).2.2 = .zero) → ¬ ((fe a).1 ≤ x ∧ x < (fe a).1 + (fe a).2.1)) :
    (walkScatter xs L fe fv)[x]? = xs[x]? := by
  have h1 : x ∉ collect isPres (L.map fe) := by
    intro h
    obtain ⟨e, he, hs, hlo, hhi⟩ := mem_collect h
    obtain ⟨a, ha, rfl⟩ := List.mem_map.mp he
    exact hx a ha (Or.inl ((isPres_iff _).mp hs)) ⟨hlo, hhi⟩
  have h2 : x ∉ collect isZero (L.map fe) := by
    intro h
    obtain ⟨e, he, hs, hlo, hhi⟩ := mem_collect h
    obtain ⟨a, ha, rfl⟩ := List.mem_map.mp he
    exact hx a ha (Or.inr ((isZero_iff _).mp hs)) ⟨hlo, hhi⟩
  unfold walkScatter
  rw [scatterZero_getElem?_of_not_mem _ _ _ h2, scatter_getElem?_of_not_mem _ _ _ _ h1]
end walk

/-! ## dual numbers -/
section jets
variable {K : Type} [CommRing K]
@[simp] theorem Jet1.add_val (a b : Jet1 K) : (a + b).val = a.val + b.val := rfl
@[simp] theorem Jet1.add_eps (a b : Jet1 K) : (a + b).eps = a.eps + b.eps := rfl
@[simp] theorem Jet1.sub_val (a b : Jet1 K) : (a - b).val = a.val - b.val := rfl
@[simp] theorem Jet1.sub_eps (a b : Jet1 K) : (a - b).eps = a.eps - b.eps := rfl
@[simp] theorem Jet1.mul_val (a b : Jet1 K) : (a * b).val = a.val * b.val := rfl
@[simp] theorem Jet1.mul_eps (a b : Jet1 K) : (a * b).eps = a.val * b.eps + a.eps * b.val := rfl
@[simp] theorem Jet1.neg_val (a : Jet1 K) : (-a).val = -a.val := rfl
@[simp] theorem Jet1.neg_eps (a : Jet1 K) : (-a).eps = -a.eps := rfl
@[simp] theorem Jet1.zero_val : (0 : Jet1 K).val = 0 := rfl
@[simp] theorem Jet1.zero_eps : (0 : Jet1 K).eps = 0 := rfl
@[simp] theorem Jet1.one_val : (1 : Jet1 K).val = 1 := rfl
@[simp] theorem Jet1.one_eps : (1 : Jet1 K).eps = 0 := rfl
@[simp] theorem Jet1.const_val (x : K) : (Jet1.const x).val = x := rfl
@[simp] theorem Jet1.const_eps (x : K) : (Jet1.const x).eps = 0 := rfl
@[simp] theorem Jet1.time_val (t : K) : (Jet1.time t).val = t := rfl
@[simp] theorem Jet1.time_eps (t : K) : (Jet1.time t).eps = 1 := rfl

omit [CommRing K] in
theorem Jet1.ext' {a b : Jet1 K} (h1 : a.val = b.val) (h2 : a.eps = b.eps) : a = b := by
  cases a; cases b; simp_all

/-- the parameters of a `Motion::Sinusoid` are constants in time -/
def Sinusoid.constJ (m : Sinusoid K) : Sinusoid (Jet1 K) := ⟨Jet1.const m.a, Jet1.const m.w, Jet1.const m.p⟩

/-- the lift of a trig pair `(c, s) = (cos θ, sin θ)` along `θ̇`:  `ċ = −s θ̇`, `ṡ = c θ̇` (DESIGN §3 item 6) -/
def cosLift (c s thetaDot : K) : Jet1 K := ⟨c, -s * thetaDot⟩
def sinLift (c s thetaDot : K) : Jet1 K := ⟨s, c * thetaDot⟩
end jets

/-! ## dense dot products over lists -/
section dense
variable {K : Type} [CommRing K]

@[simp] theorem dot_nil_left (b : List K) : dot ([] : List K) b = 0 := by unfold dot; rfl
@[simp] theorem dot_nil_right (a : List K) : dot a ([] : List K) = 0 := by cases a <;> rfl
@[simp] theorem dot_cons (a : K) (as : List K) (b : K) (bs : List K) : dot (a :: as) (b :: bs) = a * b + dot as bs := rfl

theorem dot_replicate_zero (row : List K) (n : Nat) : dot row (List.replicate n (0 : K)) = 0 := by
  induction row generalizing n with
  | nil => simp
  | cons a as ih => cases n with
    | zero => simp
    | succ n => simp [List.replicate_succ, ih]

/-- changing one entry of the vector changes the dot product by `row[i] * (v − x[i])` -/
theorem dot_set (row xs : List K) (i : Nat) (v : K) (hi : i < xs.length) :
    dot row (xs.set i v) = dot row xs + row.getD i 0 * (v - xs.getD i 0) := by
  induction row generalizing xs i with
  | nil => simp
  | cons a as ih => cases xs with
    | nil => simp at hi
    | cons x xs => cases i with
      | zero => simp; ring
      | succ i =>
        simp only [List.set_cons_succ, dot_cons, List.getD_cons_succ]
        rw [ih xs i (by simpa using hi)]; ring

omit [CommRing K] in
theorem getD_set_ne (xs : List K) (i j : Nat) (v d : K) (h : i ≠ j) : (xs.set i v).getD j d = xs.getD j d := by
  simp [List.getD_eq_getElem?_getD, List.getElem?_set_ne h]

theorem pick_set_of_not_mem (xs : List K) (i : Nat) (v : K) (is : List Nat) (h : i ∉ is) :
    pick (xs.set i v) is = pick xs is := by
  unfold pick
  apply List.map_congr_left
  intro j hj
  exact getD_set_ne xs i j v 0 (fun e => h (e ▸ hj))

omit [CommRing K] in
theorem scatter_getD_of_not_mem (xs : List K) (is : List Nat) (vs : List K) (j : Nat) (h : j ∉ is) (d : K) :
    (scatter xs is vs).getD j d = xs.getD j d := by
  simp [List.getD_eq_getElem?_getD, scatter_getElem?_of_not_mem xs is vs j h]

/-- scattering `vs` into `xs` at distinct in-range slots changes `row · x` by `Σ row[i_k] (v_k − x[i_k])` -/
theorem dot_scatter (row xs : List K) (is : List Nat) (vs : List K) (hnd : is.Nodup) (hlen : is.length = vs.length)
    (hb : ∀ i ∈ is, i < xs.length) :
    dot row (scatter xs is vs) = dot row xs + dot (pick row is) (vsub vs (pick xs is)) := by
  induction is generalizing xs vs with
  | nil => simp [pick]
  | cons i is ih => cases vs with
    | nil => simp at hlen
    | cons v vs =>
      rw [List.nodup_cons] at hnd
      rw [scatter_cons, ih (xs.set i v) vs hnd.2 (by simpa using hlen) (by intro j hj; simpa using hb j (List.mem_cons_of_mem _ hj)),
        dot_set row xs i v (hb i (by simp)), pick_set_of_not_mem xs i v is hnd.1]
      simp only [pick, vsub, List.map_cons, List.zipWith_cons_cons, dot_cons]
      ring

theorem vsub_replicate_zero (vs : List K) (n : Nat) (h : vs.length = n) : vsub vs (List.replicate n (0 : K)) = vs := by
  subst h
  induction vs with
  | nil => simp [vsub]
  | cons v vs ih => simp only [vsub] at ih ⊢; simp [List.replicate_succ, ih]

theorem pick_replicate_zero (n : Nat) (is : List Nat) : pick (List.replicate n (0 : K)) is = List.replicate is.length 0 := by
  unfold pick
  induction is with
  | nil => simp
  | cons i is ih =>
    simp only [List.map_cons, List.length_cons, List.replicate_succ, ih, List.cons.injEq, and_true]
    simp [List.getD_eq_getElem?_getD, List.getElem?_replicate]
    split <;> rfl

theorem pick_eq_replicate_zero_of_all (xs : List K) (is : List Nat) (h : ∀ i ∈ is, xs.getD i 0 = 0) :
    pick xs is = List.replicate is.length 0 := by
  unfold pick
  induction is with
  | nil => simp
  | cons i is ih =>
    simp only [List.map_cons, List.length_cons, List.replicate_succ]
    rw [h i (by simp), ih (fun j hj => h j (List.mem_cons_of_mem _ hj))]

/-- `row · assemble(udr, udp) = row_r · udr + row_p · udp` : the full dot product splits over the partition -/
theorem dot_assemble (row : List K) (n : Nat) (r p : List Nat) (udr udp : List K)
    (hr : r.Nodup) (hp : p.Nodup) (hdisj : ∀ i ∈ p, i ∉ r) (hrb : ∀ i ∈ r, i < n) (hpb : ∀ i ∈ p, i < n)
    (hlr : r.length = udr.length) (hlp : p.length = udp.length) :
    dot row (assemble n r p udr udp) = dot (pick row r) udr + dot (pick row p) udp := by
  unfold assemble
  rw [dot_scatter row _ p udp hp hlp (by intro i hi; simpa using hpb i hi),
      dot_scatter row _ r udr hr hlr (by intro i hi; simpa using hrb i hi),
      dot_replicate_zero, pick_replicate_zero, vsub_replicate_zero udr _ hlr.symm]
  have hz : pick (scatter (List.replicate n (0 : K)) r udr) p = List.replicate p.length 0 := by
    apply pick_eq_replicate_zero_of_all
    intro i hi
    rw [scatter_getD_of_not_mem _ _ _ _ (hdisj i hi)]
    simp [List.getD_eq_getElem?_getD, List.getElem?_replicate]
    split <;> rfl
  rw [hz, vsub_replicate_zero udp _ hlp.symm]; ring

theorem dot_zipWith_sub_mul (l : K) (rt row1 xs : List K) (h : rt.length = row1.length) :
    dot (List.zipWith (fun x y => x - l * y) rt row1) xs = dot rt xs - l * dot row1 xs := by
  induction rt generalizing row1 xs with
  | nil => cases row1 with
    | nil => simp
    | cons _ _ => simp at h
  | cons a as ih => cases row1 with
    | nil => simp at h
    | cons b bs => cases xs with
      | nil => simp
      | cons x xs =>
        simp only [List.zipWith_cons_cons, dot_cons]
        rw [ih bs xs (by simpa using h)]; ring
end dense

/-! ## Gaussian elimination without pivoting solves the system when no pivot vanishes -/
section gauss
variable {K : Type} [Field K]

/-- `A` is `n × n`, `b` has `n` entries -/
def Shape (n : Nat) (A : List (List K)) (b : List K) : Prop :=
  A.length = n ∧ b.length = n ∧ ∀ row ∈ A, row.length = n

/-- every pivot met by `gaussSolve` is nonzero (true for SPD matrices, where all pivots are positive) -/
def PivotsOK : Nat → List (List K) → List K → Prop
  | 0, _, _ => True
  | n + 1, (a11 :: row1) :: rows, b1 :: bs =>
      a11 ≠ 0 ∧ PivotsOK n ((elimStep a11 row1 b1 rows bs).map (fun p => p.1)) ((elimStep a11 row1 b1 rows bs).map (fun p => p.2))
  | _ + 1, _, _ => False

theorem elimStep_length (a11 : K) (row1 : List K) (b1 : K) (rows : List (List K)) (bs : List K) :
    (elimStep a11 row1 b1 rows bs).length = min rows.length bs.length := by
  simp [elimStep]

theorem elimStep_rows_length (a11 : K) (row1 : List K) (b1 : K) (rows : List (List K)) (bs : List K) (n : Nat)
    (h1 : row1.length = n) (hr : ∀ row ∈ rows, row.length = n + 1) :
    ∀ row ∈ (elimStep a11 row1 b1 rows bs).map (fun p => p.1), row.length = n := by
  intro row hrow
  simp only [elimStep, List.map_map, List.mem_map, Function.comp] at hrow
  obtain ⟨rb, hrb, rfl⟩ := hrow
  have hmem : rb.1 ∈ rows := (List.of_mem_zip hrb).1
  have hl := hr rb.1 hmem
  cases hrb1 : rb.1 with
  | nil => rw [hrb1] at hl; simp at hl
  | cons a rt =>
    rw [hrb1] at hl
    simp only [List.length_zipWith]
    simp only [List.length_cons] at hl
    omega

/-- back-substitution step: if the eliminated system holds for `xs` and the pivot row holds for `x1 :: xs`,
every original row below the pivot row holds for `x1 :: xs` -/
theorem elimStep_rows_hold (a11 : K) (row1 : List K) (b1 : K) (x1 : K) (xs : List K) (n : Nat) (ha : a11 ≠ 0)
    (h1 : row1.length = n) (hpiv : a11 * x1 + dot row1 xs = b1) :
    ∀ (rows : List (List K)) (bs : List K), rows.length = bs.length → (∀ row ∈ rows, row.length = n + 1) →
      ((elimStep a11 row1 b1 rows bs).map (fun p => dot p.1 xs) = (elimStep a11 row1 b1 rows bs).map (fun p => p.2)) →
      rows.map (fun row => dot row (x1 :: xs)) = bs := by
  intro rows
  induction rows with
  | nil => intro bs hl _ _; cases bs with
    | nil => rfl
    | cons _ _ => simp at hl
  | cons row rows ih =>
    intro bs hl hr hsub
    cases bs with
    | nil => simp at hl
    | cons bi bs =>
      have hrl := hr row (by simp)
      cases row with
      | nil => simp at hrl
      | cons ai1 rt =>
        simp only [elimStep, List.zip_cons_cons, List.map_cons, List.cons.injEq] at hsub
        obtain ⟨hhead, htail⟩ := hsub
        have hrt : rt.length = row1.length := by simp only [List.length_cons] at hrl; omega
        rw [dot_zipWith_sub_mul _ rt row1 xs hrt] at hhead
        simp only [List.map_cons, dot_cons, List.cons.injEq]
        refine ⟨?_, ih bs (by simpa using hl) (fun r hr' => hr r (List.mem_cons_of_mem _ hr')) htail⟩
        have hx : dot row1 xs = b1 - a11 * x1 := by rw [← hpiv]; ring
        rw [hx] at hhead
        field_simp at hhead
        apply mul_left_cancel₀ ha
        linear_combination hhead

theorem gaussSolve_correct (n : Nat) (A : List (List K)) (b : List K) (hs : Shape n A b) (hp : PivotsOK n A b) :
    matVec A (gaussSolve n A b) = b := by
  induction n generalizing A b with
  | zero =>
    obtain ⟨hA, hb, _⟩ := hs
    have : A = [] := List.eq_nil_of_length_eq_zero hA
    have : b = [] := List.eq_nil_of_length_eq_zero hb
    subst_vars; simp [matVec]
  | succ n ih =>
    obtain ⟨hA, hb, hrows⟩ := hs
    cases A with
    | nil => simp at hA
    | cons row0 rows =>
      cases b with
      | nil => simp at hb
      | cons b1 bs =>
        have h0 := hrows row0 (by simp)
        cases row0 with
        | nil => simp at h0
        | cons a11 row1 =>
          simp only [PivotsOK] at hp
          obtain ⟨ha, hp'⟩ := hp
          have h1 : row1.length = n := by simpa using h0
          have hrows' : ∀ row ∈ rows, row.length = n + 1 := fun r hr => hrows r (List.mem_cons_of_mem _ hr)
          have hlen : rows.length = bs.length := by simp at hA hb; omega
          set sub := elimStep a11 row1 b1 rows bs with hsub
          have hshape : Shape n (sub.map (fun p => p.1)) (sub.map (fun p => p.2)) := by
            refine ⟨?_, ?_, elimStep_rows_length a11 row1 b1 rows bs n h1 hrows'⟩
            · simp [hsub, elimStep_length]; simp at hA hb; omega
            · simp [hsub, elimStep_length]; simp at hA hb; omega
          have hih := ih _ _ hshape hp'
          simp only [gaussSolve]
          rw [← hsub]
          set xs := gaussSolve n (sub.map (fun p => p.1)) (sub.map (fun p => p.2)) with hxs
          have hpiv : a11 * ((b1 - dot row1 xs) / a11) + dot row1 xs = b1 := by field_simp; ring
          simp only [matVec, List.map_cons, dot_cons, List.cons.injEq]
          refine ⟨hpiv, ?_⟩
          apply elimStep_rows_hold a11 row1 b1 _ xs n ha h1 hpiv rows bs hlen hrows'
          rw [← hsub]
          simpa [matVec, List.map_map, Function.comp] using hih

theorem gaussSolve_length (n : Nat) (A : List (List K)) (b : List K) (hs : Shape n A b) :
    (gaussSolve n A b).length = n := by
  induction n generalizing A b with
  | zero => simp [gaussSolve]
  | succ n ih =>
    obtain ⟨hA, hb, hrows⟩ := hs
    cases A with
    | nil => simp at hA
    | cons row0 rows =>
      cases b with
      | nil => simp at hb
      | cons b1 bs =>
        have h0 := hrows row0 (by simp)
        cases row0 with
        | nil => simp at h0
        | cons a11 row1 =>
          have h1 : row1.length = n := by simpa using h0
          have hrows' : ∀ row ∈ rows, row.length = n + 1 := fun r hr => hrows r (List.mem_cons_of_mem _ hr)
          have hshape : Shape n ((elimStep a11 row1 b1 rows bs).map (fun p => p.1)) ((elimStep a11 row1 b1 rows bs).map (fun p => p.2)) := by
            refine ⟨?_, ?_, elimStep_rows_length a11 row1 b1 rows bs n h1 hrows'⟩
            · simp [elimStep_length]; simp at hA hb; omega
            · simp [elimStep_length]; simp at hA hb; omega
          simp only [gaussSolve, List.length_cons, ih _ _ hshape]

/-- `calcMotionPower`: the fold is `−Σ tau_i u_{p_i}` -/
theorem motionPower_eq (tau : List K) (p : List Nat) (u : List K) :
    motionPower tau p u = - dot tau (pick u p) := by
  have key : ∀ (l1 l2 : List K) (acc : K),
      (l1.zip l2).foldl (fun acc tu => acc - tu.1 * tu.2) acc = acc - dot l1 l2 := by
    intro l1
    induction l1 with
    | nil => intro l2 acc; simp
    | cons a as ih =>
      intro l2 acc
      cases l2 with
      | nil => simp
      | cons b bs => simp only [List.zip_cons_cons, List.foldl_cons, dot_cons]; rw [ih]; ring
  unfold motionPower
  rw [key]; ring
end gauss

/-! ## reading single equations off the list model -/
section modelRows
variable {K : Type} [Field K]

theorem matVec_getElem (A : List (List K)) (x : List K) (k : Nat) (hk : k < A.length) :
    (matVec A x)[k]'(by simpa [matVec] using hk) = dot A[k] x := by
  simp [matVec]

theorem subMat_getElem (M : List (List K)) (ri ci : List Nat) (k : Nat) (hk : k < ri.length) :
    (subMat M ri ci)[k]'(by simpa [subMat] using hk) = pick (M.getD ri[k] []) ci := by
  simp [subMat]

theorem pick_getElem (xs : List K) (idx : List Nat) (k : Nat) (hk : k < idx.length) :
    (pick xs idx)[k]'(by simpa [pick] using hk) = xs.getD idx[k] 0 := by
  simp [pick]

/-- the k-th equation of the reduced system, read off the list equation -/
theorem reduced_row (M : List (List K)) (f : List K) (r p : List Nat) (udr udp : List K)
    (hsolve : matVec (subMat M r r) udr = reducedRhs M f r p udp) (k : Nat) (hk : k < r.length) :
    dot (pick (M.getD r[k] []) r) udr = f.getD r[k] 0 - dot (pick (M.getD r[k] []) p) udp := by
  have h1 : k < (matVec (subMat M r r) udr).length := by simp [matVec, subMat, hk]
  have h2 : k < (reducedRhs M f r p udp).length := by rw [← hsolve]; exact h1
  have := List.getElem_of_eq hsolve h1
  rw [matVec_getElem _ _ _ (by simpa [subMat] using hk), subMat_getElem _ _ _ _ hk] at this
  rw [this]
  simp only [reducedRhs, vsub, List.getElem_zipWith]
  rw [pick_getElem _ _ _ hk, matVec_getElem _ _ _ (by simpa [subMat] using hk), subMat_getElem _ _ _ _ hk]

/-- the k-th reported motion force -/
theorem tauOf_getElem (M : List (List K)) (f : List K) (r p : List Nat) (udr udp : List K) (k : Nat) (hk : k < p.length) :
    (tauOf M f r p udr udp)[k]'(by simp [tauOf, vsub, pick, matVec, subMat, hk]) =
      f.getD p[k] 0 - dot (pick (M.getD p[k] []) r) udr - dot (pick (M.getD p[k] []) p) udp := by
  simp only [tauOf, vsub, List.getElem_zipWith]
  rw [pick_getElem _ _ _ hk, matVec_getElem _ _ _ (by simpa [subMat] using hk), subMat_getElem _ _ _ _ hk,
      matVec_getElem _ _ _ (by simpa [subMat] using hk), subMat_getElem _ _ _ _ hk]

theorem tauOf_length (M : List (List K)) (f : List K) (r p : List Nat) (udr udp : List K) :
    (tauOf M f r p udr udp).length = p.length := by
  simp [tauOf, vsub, pick, matVec, subMat]

end modelRows

end C10
