import SimbodyModel.C17
import Mathlib.Tactic.Abel
import Mathlib.Tactic.Linarith
import Mathlib.Algebra.Group.Defs
/-!
# C17 — helper lemmas: the accounting invariant of the force-accumulation transition system

`Inv` (mutex discipline, "a loaded register still equals the shared array", what every worker still owes) is
inductive over every step taken from a state without a race; `race_witness` constructs a racy interleaving whenever
worker 0 increments the shared arrays without the mutex and a second worker exists.
-/
set_option linter.unusedSimpArgs false
set_option linter.unusedVariables false
set_option linter.unusedSectionVars false
set_option linter.unnecessarySeqFocus false
namespace C17

@[simp] theorem upd_same {α : Type} (f : Nat → α) (i : Nat) (v : α) : upd f i v i = v := by simp [upd]
theorem upd_other {α : Type} (f : Nat → α) {i j : Nat} (v : α) (h : j ≠ i) : upd f i v j = f j := by simp [upd, h]

variable {M : Type} [AddCommMonoid M]

/-- sum of `h 0 … h (k-1)` -/
def sumW (h : Nat → M) : Nat → M
  | 0 => 0
  | k + 1 => sumW h k + h k

theorem sumW_congr {h g : Nat → M} : ∀ k, (∀ v, v < k → h v = g v) → sumW h k = sumW g k := by
  intro k; induction k with
  | zero => intro _; rfl
  | succ k ih => intro hh; simp only [sumW]; rw [ih (fun v hv => hh v (by omega)), hh k (by omega)]

/-- the sum splits into the `w`-th term and a remainder that does not depend on it -/
theorem sumW_split (h : Nat → M) (w : Nat) : ∀ k, w < k → ∃ r : M, ∀ y, sumW (upd h w y) k = r + y := by
  intro k; induction k with
  | zero => intro hk; omega
  | succ k ih =>
    intro hk
    by_cases hw : w = k
    · subst hw
      refine ⟨sumW h w, fun y => ?_⟩
      simp only [sumW, upd_same]
      rw [sumW_congr w (fun v hv => upd_other h y (by omega))]
    · obtain ⟨r, hr⟩ := ih (by omega)
      refine ⟨r + h k, fun y => ?_⟩
      simp only [sumW]
      rw [hr y, upd_other h y (fun e => hw e.symm)]
      abel

theorem sumW_self (h : Nat → M) (w k : Nat) : sumW (upd h w (h w)) k = sumW h k :=
  sumW_congr k (fun v _ => by by_cases e : v = w <;> simp [upd, e])

theorem sumList_append (a b : List M) : sumList (a ++ b) = sumList a + sumList b := by
  induction a with
  | nil => simp [sumList]
  | cons x a ih => simp only [List.cons_append, sumList, ih]; abel

theorem sumList_drop {l : List M} {k : Nat} {d : M} (h : l[k]? = some d) : sumList (l.drop k) = d + sumList (l.drop (k + 1)) := by
  rw [List.drop_eq_getElem_cons (List.getElem?_eq_some_iff.mp h).1]
  simp only [sumList]
  rw [(List.getElem?_eq_some_iff.mp h).2]

theorem sumList_drop_none {l : List M} {k : Nat} (h : l[k]? = none) : sumList (l.drop k) = 0 := by
  rw [List.drop_eq_nil_of_le (List.getElem?_eq_none_iff.mp h)]; rfl

theorem sumW_range (f : Nat → M) : ∀ n, sumList ((List.range n).map f) = sumW f n := by
  intro n; induction n with
  | zero => rfl
  | succ n ih => rw [List.range_succ, List.map_append, sumList_append, ih]; simp [sumW, sumList]

/-- what worker `w` still owes to the shared arrays -/
def owed (c : Config M) (w : Nat) (x : Worker M) : M :=
  match x.pc with
  | .init => sumList (c.direct w) + sumList (c.contribs w)
  | .direct k => sumList ((c.direct w).drop k) + sumList (c.contribs w)
  | .directSt k => sumList ((c.direct w).drop k) + sumList (c.contribs w)
  | .exec k => x.loc + sumList ((c.contribs w).drop k)
  | .finLock => x.loc
  | .finLoad => x.loc
  | .finStore => x.loc
  | .finUnlock => 0
  | .done => 0

def holds : Pc → Bool
  | .finLoad | .finStore | .finUnlock => true
  | _ => false

def isDirect : Pc → Bool
  | .direct _ | .directSt _ => true
  | _ => false

structure Inv (c : Config M) (shared0 : M) (s : State M) : Prop where
  lock : ∀ w, w < c.n → holds (s.wk w).pc = true → s.mutex = some w
  regF : ∀ w, w < c.n → (s.wk w).pc = .finStore → (s.wk w).reg = s.shared
  regD : ∀ w k, w < c.n → (s.wk w).pc = .directSt k → (s.wk w).reg = s.shared
  dir0 : ∀ w, w < c.n → isDirect (s.wk w).pc = true → (s.wk w).loc = 0
  dirK : ∀ w k, w < c.n → (s.wk w).pc = .direct k ∨ (s.wk w).pc = .directSt k → k < (c.direct w).length
  acct : s.shared + sumW (fun v => owed c v (s.wk v)) c.n = shared0 + totalOf c

theorem sumW_owed_init (c : Config M) :
    sumW (fun v => owed c v (⟨.init, 0, 0⟩ : Worker M)) c.n = totalOf c := by
  rw [totalOf, sumW_range]; rfl

theorem inv_init (c : Config M) (shared0 : M) : Inv c shared0 (init shared0) := by
  constructor
  · intro w _ h; simp [init, holds] at h
  · intro w _ h; simp [init] at h
  · intro w k _ h; simp [init] at h
  · intro w _ h; simp [init, isDirect] at h
  · intro w k _ h; simp [init] at h
  · simp only [init]; rw [sumW_owed_init c]

/-- bookkeeping for a step of worker `w` that replaces its record by `x'` and the shared value by `sh'` -/
theorem acct_step {c : Config M} {shared0 : M} {s : State M} {w : Nat} {x' : Worker M} {sh' : M}
    (hi : Inv c shared0 s) (hw : w < c.n)
    (h : ∀ r : M, sh' + (r + owed c w x') = s.shared + (r + owed c w (s.wk w))) :
    sh' + sumW (fun v => owed c v (upd s.wk w x' v)) c.n = shared0 + totalOf c := by
  obtain ⟨r, hr⟩ := sumW_split (fun v => owed c v (s.wk v)) w c.n hw
  have e1 : sumW (fun v => owed c v (upd s.wk w x' v)) c.n = r + owed c w x' := by
    rw [← hr (owed c w x')]
    apply sumW_congr
    intro v _
    by_cases e : v = w
    · subst e; simp
    · simp [upd, e]
  have e2 : sumW (fun v => owed c v (s.wk v)) c.n = r + owed c w (s.wk w) := by
    rw [← hr (owed c w (s.wk w))]; exact (sumW_self _ w c.n).symm
  rw [e1, h r, ← e2]; exact hi.acct

section step
variable {c : Config M} {shared0 : M} {s s' : State M} {w : Nat} {x' : Worker M}

/-- if `w` is about to write the shared arrays and there is no race, nobody else is about to touch them -/
theorem no_other_pending (hnr : ¬ Race c s) (hw : w < c.n) (hp : pendingShared (s.wk w).pc = some true)
    (v : Nat) (hv : v < c.n) (hvw : v ≠ w) : pendingShared (s.wk v).pc = none := by
  cases h : pendingShared (s.wk v).pc with
  | none => rfl
  | some rb => exact absurd ⟨w, v, hw, hv, fun e => hvw e.symm, true, rb, hp, h, Or.inl rfl⟩ hnr

inductive LockOp | keep | acq | rel

theorem inv_frame (hi : Inv c shared0 s) (hw : w < c.n) (hwk : s'.wk = upd s.wk w x')
    (op : LockOp)
    (hlock : match op with
      | .keep => s'.mutex = s.mutex ∧ holds x'.pc = holds (s.wk w).pc
      | .acq => s.mutex = none ∧ s'.mutex = some w
      | .rel => holds (s.wk w).pc = true ∧ s'.mutex = none ∧ holds x'.pc = false)
    (hsh : s'.shared = s.shared ∨
      (∀ v, v < c.n → v ≠ w → (s.wk v).pc ≠ .finStore ∧ ∀ k, (s.wk v).pc ≠ .directSt k))
    (hregF : x'.pc = .finStore → x'.reg = s'.shared) (hregD : ∀ k, x'.pc = .directSt k → x'.reg = s'.shared)
    (hd0 : isDirect x'.pc = true → x'.loc = 0)
    (hdk : ∀ k, x'.pc = .direct k ∨ x'.pc = .directSt k → k < (c.direct w).length)
    (hacct : ∀ r : M, s'.shared + (r + owed c w x') = s.shared + (r + owed c w (s.wk w))) :
    Inv c shared0 s' := by
  constructor
  · intro v hv hh
    by_cases hvw : v = w
    · subst hvw
      rw [hwk, upd_same] at hh
      cases op with
      | keep => rw [hlock.1]; rw [hlock.2] at hh; exact hi.lock v hv hh
      | acq => exact hlock.2
      | rel => rw [hlock.2.2] at hh; cases hh
    · rw [hwk, upd_other _ _ hvw] at hh
      have hm := hi.lock v hv hh
      cases op with
      | keep => rw [hlock.1]; exact hm
      | acq => rw [hlock.1] at hm; cases hm
      | rel =>
        have := hi.lock w hw hlock.1
        rw [hm] at this; injection this with this; exact absurd this hvw
  · intro v hv hp
    by_cases hvw : v = w
    · subst hvw; rw [hwk, upd_same] at hp ⊢; exact hregF hp
    · rw [hwk, upd_other _ _ hvw] at hp ⊢
      rcases hsh with e | e
      · rw [e]; exact hi.regF v hv hp
      · exact absurd hp (e v hv hvw).1
  · intro v k hv hp
    by_cases hvw : v = w
    · subst hvw; rw [hwk, upd_same] at hp ⊢; exact hregD k hp
    · rw [hwk, upd_other _ _ hvw] at hp ⊢
      rcases hsh with e | e
      · rw [e]; exact hi.regD v k hv hp
      · exact absurd hp ((e v hv hvw).2 k)
  · intro v hv hp
    by_cases hvw : v = w
    · subst hvw; rw [hwk, upd_same] at hp ⊢; exact hd0 hp
    · rw [hwk, upd_other _ _ hvw] at hp ⊢; exact hi.dir0 v hv hp
  · intro v k hv hp
    by_cases hvw : v = w
    · subst hvw; rw [hwk, upd_same] at hp; exact hdk k hp
    · rw [hwk, upd_other _ _ hvw] at hp; exact hi.dirK v k hv hp
  · rw [hwk]; exact acct_step hi hw hacct

theorem afterDirect_cases (c : Config M) (w k : Nat) :
    (k < (c.direct w).length ∧ afterDirect c w k = .direct k) ∨
    ((c.direct w).length ≤ k ∧ afterDirect c w k = .exec 0) := by
  unfold afterDirect
  by_cases h : k < (c.direct w).length
  · left; exact ⟨h, by simp [h]⟩
  · right; exact ⟨by omega, by simp [h]⟩

theorem inv_step (hi : Inv c shared0 s) (hnr : ¬ Race c s) (h : step c s w = some s') : Inv c shared0 s' := by
  simp only [step] at h
  split at h
  · rename_i hw
    cases hpc : (s.wk w).pc <;> simp only [hpc] at h
    case init =>
      injection h with h; subst h
      rcases afterDirect_cases c w 0 with ⟨hk, e⟩ | ⟨hk, e⟩
      · refine inv_frame hi hw rfl .keep ⟨rfl, by simp [e, hpc, holds]⟩ (Or.inl rfl) (by simp [e])
          (by simp [e]) (by intro _; rfl) (by simp [e]; omega) ?_
        intro r; simp [owed, hpc, e]
      · refine inv_frame hi hw rfl .keep ⟨rfl, by simp [e, hpc, holds]⟩ (Or.inl rfl) (by simp [e])
          (by simp [e]) (by simp [e, isDirect]) (by simp [e]) ?_
        intro r
        have : c.direct w = [] := List.eq_nil_of_length_eq_zero (by omega)
        simp [owed, hpc, e, this, sumList]
    case direct k =>
      injection h with h; subst h
      refine inv_frame hi hw rfl .keep ⟨rfl, by simp [hpc, holds]⟩ (Or.inl rfl) (by simp) (by simp)
        (by intro _; exact hi.dir0 w hw (by simp [hpc, isDirect])) ?_ ?_
      · intro k' hk'; simp at hk'; subst hk'; exact hi.dirK w k hw (Or.inl hpc)
      · intro r; simp [owed, hpc]
    case directSt k =>
      have hk := hi.dirK w k hw (Or.inr hpc)
      have hreg := hi.regD w k hw hpc
      have hloc := hi.dir0 w hw (by simp [hpc, isDirect])
      have hget : (c.direct w)[k]? = some (c.direct w)[k] := List.getElem?_eq_getElem hk
      rw [hget] at h
      simp only at h
      injection h with h; subst h
      have hothers := no_other_pending hnr hw (by simp [hpc, pendingShared])
      have hsh : ∀ v, v < c.n → v ≠ w → (s.wk v).pc ≠ .finStore ∧ ∀ k, (s.wk v).pc ≠ .directSt k := by
        intro v hv hvw
        have := hothers v hv hvw
        constructor
        · intro e; rw [e] at this; simp [pendingShared] at this
        · intro k' e; rw [e] at this; simp [pendingShared] at this
      rcases afterDirect_cases c w (k + 1) with ⟨hk1, e⟩ | ⟨hk1, e⟩
      · refine inv_frame hi hw rfl .keep ⟨rfl, by simp [e, hpc, holds]⟩ (Or.inr hsh) (by simp [e]) (by simp [e])
          (by intro _; exact hloc) (by simp [e]; omega) ?_
        intro r
        simp only [owed, hpc, e, hreg]
        rw [sumList_drop hget]; abel
      · refine inv_frame hi hw rfl .keep ⟨rfl, by simp [e, hpc, holds]⟩ (Or.inr hsh) (by simp [e]) (by simp [e])
          (by simp [e, isDirect]) (by simp [e]) ?_
        intro r
        simp only [owed, hpc, e, hreg, hloc, List.drop_zero]
        rw [sumList_drop hget, List.drop_eq_nil_of_le (by omega : (c.direct w).length ≤ k + 1)]
        simp only [sumList]; abel
    case exec k =>
      split at h
      · rename_i v hv
        injection h with h; subst h
        refine inv_frame hi hw rfl .keep ⟨rfl, by simp [hpc, holds]⟩ (Or.inl rfl) (by simp) (by simp)
          (by simp [isDirect]) (by simp) ?_
        intro r
        simp only [owed, hpc]
        rw [sumList_drop hv]; abel
      · rename_i hv
        injection h with h; subst h
        refine inv_frame hi hw rfl .keep ⟨rfl, by simp [hpc, holds]⟩ (Or.inl rfl) (by simp) (by simp)
          (by simp [isDirect]) (by simp) ?_
        intro r
        simp only [owed, hpc]
        rw [sumList_drop_none hv]; abel
    case finLock =>
      split at h
      · rename_i hf
        injection h with h; subst h
        refine inv_frame hi hw rfl .acq ⟨hf, rfl⟩ (Or.inl rfl) (by simp) (by simp) (by simp [isDirect]) (by simp) ?_
        intro r; simp [owed, hpc]
      · cases h
    case finLoad =>
      injection h with h; subst h
      refine inv_frame hi hw rfl .keep ⟨rfl, by simp [hpc, holds]⟩ (Or.inl rfl) (by simp) (by simp) (by simp [isDirect])
        (by simp) ?_
      intro r; simp [owed, hpc]
    case finStore =>
      have hreg := hi.regF w hw hpc
      injection h with h; subst h
      have hothers := no_other_pending hnr hw (by simp [hpc, pendingShared])
      have hsh : ∀ v, v < c.n → v ≠ w → (s.wk v).pc ≠ .finStore ∧ ∀ k, (s.wk v).pc ≠ .directSt k := by
        intro v hv hvw
        have := hothers v hv hvw
        constructor
        · intro e; rw [e] at this; simp [pendingShared] at this
        · intro k' e; rw [e] at this; simp [pendingShared] at this
      refine inv_frame hi hw rfl .keep ⟨rfl, by simp [hpc, holds]⟩ (Or.inr hsh) (by simp) (by simp) (by simp [isDirect])
        (by simp) ?_
      intro r
      simp only [owed, hpc, hreg]; abel
    case finUnlock =>
      injection h with h; subst h
      refine inv_frame hi hw rfl .rel ⟨by simp [hpc, holds], rfl, by simp [holds]⟩ (Or.inl rfl) (by simp) (by simp)
        (by simp [isDirect]) (by simp) ?_
      intro r; simp [owed, hpc]
    case done => cases h
  · cases h
end step

/-! ### runs -/
section runs
variable {c : Config M} {shared0 : M}

omit [AddCommMonoid M] in
theorem run_append [Add M] [OfNat M 0] (c : Config M) (s : State M) (a b : List Nat) :
    run c s (a ++ b) = run c (run c s a) b := by
  induction a generalizing s with
  | nil => rfl
  | cons w a ih => simp only [List.cons_append, run]; exact ih _

theorem run_take_succ (c : Config M) (s : State M) (sched : List Nat) (k : Nat) (hk : k < sched.length) :
    run c s (sched.take (k + 1)) = (step c (run c s (sched.take k)) sched[k]).getD (run c s (sched.take k)) := by
  rw [List.take_succ_eq_append_getElem hk, run_append]; rfl

/-- along a race-free schedule the invariant holds after every prefix -/
theorem inv_prefix (sched : List Nat)
    (hrf : ∀ k, ¬ Race c (run c (init shared0) (sched.take k))) :
    ∀ k, Inv c shared0 (run c (init shared0) (sched.take k)) := by
  intro k
  induction k with
  | zero => simp only [List.take_zero, run]; exact inv_init c shared0
  | succ k ih =>
    by_cases hk : k < sched.length
    · rw [run_take_succ c _ sched k hk]
      cases hs : step c (run c (init shared0) (sched.take k)) sched[k] with
      | none => simpa using ih
      | some s' => simpa using inv_step ih (hrf k) hs
    · rw [List.take_of_length_le (by omega)]
      rw [List.take_of_length_le (by omega)] at ih
      exact ih

theorem sumW_zero (h : Nat → M) : ∀ k, (∀ v, v < k → h v = 0) → sumW h k = 0 := by
  intro k; induction k with
  | zero => intro _; rfl
  | succ k ih => intro hh; simp only [sumW]; rw [ih (fun v hv => hh v (by omega)), hh k (by omega)]; simp

/-- **`total_order_independent`**: in any commutative monoid, for every worker count, every assignment of
increments and every interleaving: if the schedule is race free and runs all workers to completion, the shared
arrays end up holding the initial value plus the sum of all increments — whatever the order. -/
theorem total_order_independent_aux (sched : List Nat) (hrf : RaceFree c shared0 sched)
    (hc : Complete c (run c (init shared0) sched)) :
    (run c (init shared0) sched).shared = shared0 + totalOf c := by
  have hi := inv_prefix sched hrf sched.length
  rw [List.take_length] at hi
  have := hi.acct
  rw [sumW_zero _ c.n (fun v hv => by simp only [owed, hc v hv])] at this
  simpa using this

/-- with the mutex discipline in force (no direct increments) no reachable state has a race -/
theorem no_race_of_inv {s : State M} (hi : Inv c shared0 s) (hd : ∀ w, w < c.n → c.direct w = []) : ¬ Race c s := by
  rintro ⟨a, b, ha, hb, hab, ra, rb, pa, pb, _⟩
  have key : ∀ v, v < c.n → ∀ r, pendingShared (s.wk v).pc = some r → holds (s.wk v).pc = true := by
    intro v hv r hp
    cases hpc : (s.wk v).pc <;> rw [hpc] at hp <;> simp [pendingShared] at hp <;> simp [holds]
    · have := hi.dirK v _ hv (Or.inl hpc); rw [hd v hv] at this; simp at this
    · have := hi.dirK v _ hv (Or.inr hpc); rw [hd v hv] at this; simp at this
  have h1 := hi.lock a ha (key a ha ra pa)
  have h2 := hi.lock b hb (key b hb rb pb)
  rw [h1] at h2; injection h2 with h2; exact hab h2

theorem raceFree_of_locals_only_aux (hd : ∀ w, w < c.n → c.direct w = []) (sched : List Nat) :
    RaceFree c shared0 sched := by
  have both : ∀ k, Inv c shared0 (run c (init shared0) (sched.take k)) := by
    intro k
    induction k with
    | zero => simp only [List.take_zero, run]; exact inv_init c shared0
    | succ k ih =>
      by_cases hk : k < sched.length
      · rw [run_take_succ c _ sched k hk]
        cases hs : step c (run c (init shared0) (sched.take k)) sched[k] with
        | none => simpa using ih
        | some s' => simpa using inv_step ih (no_race_of_inv ih hd) hs
      · rw [List.take_of_length_le (by omega)]
        rw [List.take_of_length_le (by omega)] at ih
        exact ih
  intro k
  exact no_race_of_inv (both k) hd
end runs

/-! ### the witness: with direct (unlocked) increments and a second worker there is a racy schedule -/
section witness
variable {c : Config M}

theorem step_other {s s' : State M} {w v : Nat} (h : step c s w = some s') (hv : v ≠ w) : s'.wk v = s.wk v := by
  simp only [step] at h
  split at h
  · cases hpc : (s.wk w).pc <;> simp only [hpc] at h <;> (try split at h) <;>
      first
      | (injection h with h; subst h; exact upd_other _ _ hv)
      | cases h
  · cases h

/-- worker `w` can run through its thread-local increments up to `finLock` without anybody else moving -/
theorem exec_chain (w : Nat) (hw : w < c.n) : ∀ j k (s : State M), (s.wk w).pc = .exec k → k + j = (c.contribs w).length →
    ∃ sched, ((run c s sched).wk w).pc = .finLock ∧ (∀ v, v ≠ w → (run c s sched).wk v = s.wk v) ∧
      (run c s sched).mutex = s.mutex := by
  intro j
  induction j with
  | zero =>
    intro k s hpc hk
    refine ⟨[w], ?_⟩
    have hnone : (c.contribs w)[k]? = none := List.getElem?_eq_none_iff.mpr (by omega)
    have hs : step c s w = some { s with wk := upd s.wk w { s.wk w with pc := .finLock } } := by
      simp only [step, hw, if_true, hpc, hnone]
    simp only [run, hs, Option.getD_some]
    refine ⟨by simp, fun v hv => upd_other _ _ hv, ?_⟩
    trivial
  | succ j ih =>
    intro k s hpc hk
    have hlt : k < (c.contribs w).length := by omega
    have hsome : (c.contribs w)[k]? = some (c.contribs w)[k] := List.getElem?_eq_getElem hlt
    have hs : step c s w = some { s with wk := upd s.wk w { s.wk w with loc := (s.wk w).loc + (c.contribs w)[k], pc := .exec (k + 1) } } := by
      simp only [step, hw, if_true, hpc, hsome]
    obtain ⟨sched, h1, h2, h3⟩ := ih (k + 1)
      { s with wk := upd s.wk w { s.wk w with loc := (s.wk w).loc + (c.contribs w)[k], pc := .exec (k + 1) } }
      (by simp) (by omega)
    refine ⟨w :: sched, ?_⟩
    simp only [run, hs, Option.getD_some]
    exact ⟨h1, fun v hv => by rw [h2 v hv]; exact upd_other _ _ hv, h3⟩

/-- **a direct (unlocked) increment by any worker is a race**: whenever some worker adds anything directly into
the shared arrays (`direct a ≠ []`) and a second worker exists, some interleaving has two workers about to access
the shared arrays, one of them writing. -/
theorem race_witness (a : Nat) (ha : a < c.n) (hn : 2 ≤ c.n) (hd : c.direct a ≠ []) (shared0 : M) :
    ∃ sched, Race c (run c (init shared0) sched) := by
  have hlen : 0 < (c.direct a).length := List.length_pos_iff.mpr hd
  -- a second worker
  obtain ⟨b, hb, hab⟩ : ∃ b, b < c.n ∧ b ≠ a := by
    by_cases h0 : a = 0
    · exact ⟨1, by omega, by omega⟩
    · exact ⟨0, by omega, fun e => h0 e.symm⟩
  have hne : a ≠ b := fun e => hab e.symm
  -- worker a: initialize, load the shared array: now about to store into it
  have hs1 : step c (init shared0) a = some { (init shared0) with wk := upd (init shared0).wk a ⟨.direct 0, 0, 0⟩ } := by
    simp [step, init, afterDirect, hlen, ha]
  set s1 : State M := { (init shared0) with wk := upd (init shared0).wk a ⟨.direct 0, 0, 0⟩ } with hs1def
  have hs1a : step c s1 a = some { s1 with wk := upd s1.wk a ⟨.directSt 0, shared0, 0⟩ } := by
    simp [step, ha, s1, init]
  set s1' : State M := { s1 with wk := upd s1.wk a ⟨.directSt 0, shared0, 0⟩ } with hs1'def
  have hwb : (s1'.wk b) = ⟨.init, 0, 0⟩ := by simp [s1', s1, upd, init, hab]
  have hwa : (s1'.wk a) = ⟨.directSt 0, shared0, 0⟩ := by simp [s1', upd]
  by_cases hdb : c.direct b = []
  · -- worker b has only thread-local work: run it up to the store of its finish()
    have hs2 : step c s1' b = some { s1' with wk := upd s1'.wk b ⟨.exec 0, 0, 0⟩ } := by
      simp [step, hb, hwb, afterDirect, hdb]
    set s2 : State M := { s1' with wk := upd s1'.wk b ⟨.exec 0, 0, 0⟩ } with hs2def
    obtain ⟨sched, h1, h2, h3⟩ := exec_chain (c := c) b hb (c.contribs b).length 0 s2 (by simp [s2]) (by omega)
    set s3 := run c s2 sched with hs3def
    have hm3 : s3.mutex = none := by rw [h3]; rfl
    have hs4 : step c s3 b = some { s3 with mutex := some b, wk := upd s3.wk b { s3.wk b with pc := .finLoad } } := by
      simp only [step, hb, if_true, h1, hm3]
    set s4 : State M := { s3 with mutex := some b, wk := upd s3.wk b { s3.wk b with pc := .finLoad } } with hs4def
    have hs5 : step c s4 b = some { s4 with wk := upd s4.wk b { s4.wk b with reg := s4.shared, pc := .finStore } } := by
      simp [step, hb, s4]
    refine ⟨[a, a, b] ++ sched ++ [b, b], ?_⟩
    rw [run_append, run_append]
    have e1 : run c (init shared0) [a, a, b] = s2 := by
      simp only [run, hs1, Option.getD_some, hs1a, hs2]
    rw [e1, ← hs3def]
    simp only [run, hs4, Option.getD_some, hs5]
    refine ⟨a, b, ha, hb, fun e => hab e.symm, true, true, ?_, ?_, Or.inl rfl⟩
    · have : s3.wk a = s2.wk a := h2 a (fun e => hab e.symm)
      simp [upd, s4, this, s2, hwa, pendingShared, hne]
    · simp [pendingShared]
  · -- worker b also increments the shared arrays directly: its first load races with a's store
    have hlenb : 0 < (c.direct b).length := List.length_pos_iff.mpr hdb
    have hs2 : step c s1' b = some { s1' with wk := upd s1'.wk b ⟨.direct 0, 0, 0⟩ } := by
      simp [step, hb, hwb, afterDirect, hlenb]
    refine ⟨[a, a, b], ?_⟩
    simp only [run, hs1, Option.getD_some, hs1a, hs2]
    refine ⟨a, b, ha, hb, fun e => hab e.symm, true, false, ?_, ?_, Or.inl rfl⟩
    · simp [upd, hwa, pendingShared, hne]
    · simp [pendingShared]
end witness
end C17
