import SimbodyModel.C42
/-!
# C42 — specification predicates (what "a valid spanning tree" means)

`Valid g s` is the property of `properties.jsonl` written out on the model's final state `s`
(= the content of the C++ object after `generateGraph()` returned normally).
-/
namespace C42

/-- outboard bodies of the mobilizers, in mobilizer order -/
def outbs (s : St) : List Nat := s.mobs.map (·.outb)
/-- joints used by the mobilizers, in mobilizer order -/
def mjoints (s : St) : List Nat := s.mobs.map (·.joint)
/-- joints used by the loop constraints -/
def cjoints (s : St) : List Nat := s.cons.map (·.joint)

/-- mobilizers are ordered inboard-first starting from the bodies in `seen`:
each mobilizer's inboard body is in `seen` or is the outboard body of an earlier mobilizer -/
def OrderedFrom : List Nat → List Mob → Prop
  | _, [] => True
  | seen, m :: ms => m.inb ∈ seen ∧ OrderedFrom (m.outb :: seen) ms

/-- the mobilized body `m.outb` has zero mass and its mobilizer has mobilities: it must not end a branch -/
def NeedsNext (g : Input) (s : St) (m : Mob) : Prop :=
  massOf g m.outb = 0 ∧ 0 < (typeOf g (jointAt s m.joint).type).nmob

/-- mobilizer `m` is a tree joint made from an input (or added base) joint, forward or reversed -/
def TreeMob (g : Input) (s : St) (m : Mob) : Prop :=
  m.outb < g.bodies.length ∧ (jointAt s m.joint).mustLoop = false ∧
  ((m.rev = false ∧ m.inb = (jointAt s m.joint).parent ∧ m.outb = (jointAt s m.joint).child) ∨
   (m.rev = true ∧ m.inb = (jointAt s m.joint).child ∧ m.outb = (jointAt s m.joint).parent))

/-- mobilizer `m` mobilizes a slave body: the joint's parent is the inboard body, the outboard body is a new
body whose master is the joint's child, and the master lists it (the master/slave weld of the documentation) -/
def SlaveMob (g : Input) (s : St) (m : Mob) : Prop :=
  g.bodies.length ≤ m.outb ∧ m.rev = false ∧ m.inb = (jointAt s m.joint).parent ∧
  s.master m.outb = some (jointAt s m.joint).child ∧ (jointAt s m.joint).child < g.bodies.length ∧
  m.outb ∈ s.slaves (jointAt s m.joint).child ∧ (typeOf g (jointAt s m.joint).type).good = false

/-- legal input: there is a Ground body and every joint connects existing bodies
(parent ≠ child is *not* needed by any theorem) -/
def WF (g : Input) : Prop :=
  0 < g.bodies.length ∧ ∀ j ∈ g.joints, j.parent < g.bodies.length ∧ j.child < g.bodies.length

/-- The property, clause by clause (bodies `< g.bodies.length` are Ground and the input bodies, bodies above are slaves). -/
structure Valid (g : Input) (s : St) : Prop where
  /-- the joint list is the input joints followed by added free joints Ground → input body -/
  joints_ext : ∃ extra, s.joints = g.joints ++ extra ∧
      ∀ e ∈ extra, e.type = 1 ∧ e.parent = 0 ∧ 0 < e.child ∧ e.child < g.bodies.length ∧ e.mustLoop = false ∧ e.addedBase = true
  nb_ge : g.bodies.length ≤ s.nb
  /-- Ground is never mobilized -/
  ground_fixed : 0 ∉ outbs s
  /-- every input body and every slave body is mobilized exactly once -/
  bodies_once : ∀ b, 0 < b → b < s.nb → (outbs s).count b = 1
  /-- no mobilizer mobilizes a non-existing body -/
  outb_lt : ∀ m ∈ s.mobs, m.outb < s.nb
  /-- `Body::mobilizer` is the index of that mobilizer -/
  bmob_index : ∀ b i, s.bmob b = some i → (s.mobs[i]?).map (·.outb) = some b
  /-- mobilizers are ordered inboard-first from Ground -/
  inboard_first : OrderedFrom [0] s.mobs
  /-- every joint (input or added) appears exactly once, as a mobilizer or as a loop constraint -/
  joints_once : ∀ j, j < s.joints.length → (mjoints s).count j + (cjoints s).count j = 1
  /-- `Joint::mobilizer` / `Joint::loopConstraint` are the indices of that mobilizer / constraint -/
  jmob_index : ∀ j i, s.jmob j = some i → (s.mobs[i]?).map (·.joint) = some j
  jloop_index : ∀ j i, s.jloop j = some i → (s.cons[i]?).map (·.joint) = some j
  /-- every mobilizer is a tree joint between the joint's two bodies, or a slave mobilizer welded to its master -/
  mob_kind : ∀ m ∈ s.mobs, m.joint < s.joints.length ∧ (TreeMob g s m ∨ SlaveMob g s m)
  /-- every slave body is the outboard body of a slave mobilizer (hence welded to its master, an input body) -/
  slaves_welded : ∀ b, g.bodies.length ≤ b → b < s.nb → ∃ m ∈ s.mobs, m.outb = b ∧ SlaveMob g s m
  /-- input bodies are not slaves -/
  masters : ∀ b, b < g.bodies.length → s.master b = none
  /-- joints marked must-be-loop are never tree joints -/
  loop_flag : ∀ m ∈ s.mobs, (jointAt s m.joint).mustLoop = true → SlaveMob g s m
  /-- loop constraints exist only for joint types with a good loop joint, between the joint's bodies -/
  cons_kind : ∀ c ∈ s.cons, c.joint < s.joints.length ∧ (typeOf g c.type).good = true ∧
      c.type = (jointAt s c.joint).type ∧ c.parent = (jointAt s c.joint).parent ∧ c.child = (jointAt s c.joint).child
  /-- levels: the outboard body is one level above the inboard body -/
  levels : ∀ m ∈ s.mobs, s.level m.outb = some m.level ∧ ∃ l, s.level m.inb = some l ∧ m.level = l + 1
  /-- no massless *input* body with mobilities ends a branch: the very next mobilizer hangs off it.
  (For slave fragments of massless bodies this is FALSE in the implementation: known finding
  `graph.slave.massless_terminal`, see `slave_massless_terminal_witness`.) -/
  massless_master : ∀ i m, s.mobs[i]? = some m → m.outb < g.bodies.length → NeedsNext g s m →
      ∃ m', s.mobs[i + 1]? = some m' ∧ m'.inb = m.outb

end C42
