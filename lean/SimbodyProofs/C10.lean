import SimbodyProofs.C10_lemmas
import SimbodyProofs.C10_compose
import SimbodyProofs.C10_aba
import Mathlib.Data.Matrix.Block
import Mathlib.LinearAlgebra.Matrix.NonsingularInverse
import Mathlib.Tactic.NormNum
import Mathlib.Algebra.Order.Field.Rat

/-!
# C10 — prescribed motion and locks are honoured exactly

Theorems about `SimbodyModel/C10.lean` (the executable mirror of `prescribeQ/prescribeU`, `Motion.cpp`/`MotionImpl.h`,
`MobilizedBodyImpl::lock/lockAt/unlock`, the instance-stage partition of `realizeSubsystemInstanceImpl` and the
prescribed branches of `calcUDotPass1Inward/Pass2Outward` seen as block elimination on the dense mass matrix).

* `prescribe_exact`, `prescribeU_exact`, `knownUDot_exact` — after the scatter the prescribed slots hold exactly the
  pool values, the known-zero slots hold 0, all other slots are unchanged (distinct indices needed);
  `partition_distinct` proves that need from the slot allocation; `prescribe_exact_of_partition` combines both for the
  index lists the model of `realizeSubsystemInstanceImpl` produces.
* `motion_derivs` — `Motion::Sinusoid`: the `…Dot` formula is the time derivative of the value formula and the
  `…DotDot` formula the derivative of the `…Dot` formula (dual numbers; trig pair lifted by `ċ = −sθ̇`, `ṡ = cθ̇`, with
  `θ̇` the ε-part of the code's own angle expression `w·t + p`); the lifted pair stays on the unit circle;
  `Motion::Steady`: the derivative of the constant rates is the reported zero.
* `tau_as_applied_force` (+ `_unique`, `_model`, `elim_sound`) — with `tau_p = f_p − M_pr u̇_r − M_pp u̇_p` (the code's
  LHS convention `M u̇ + tau = f`) and `u̇_r` solving `M_rr u̇_r = f_r − M_rp u̇_p`, the *unprescribed* system driven by
  `f − E_p tau` has the solution `(u̇_r, u̇_p)`, and it is the only one when `M` is invertible.
* `unlock_restores`, `lockAt_value`, `lock_value`, `lock_overrides_motion`, `unlock_resumes_motion`,
  `disabled_motion_is_free` — lock bookkeeping.
-/
set_option linter.unusedSimpArgs false
set_option linter.unusedVariables false

namespace C10

/-! ## (a) prescribe: exactness of the scatter -/
section prescribe
variable {K : Type} [OfNat K 0]

/-- **prescribeQ is exact.**  With distinct prescribed indices inside the vector and pool of matching length:
every prescribed slot holds exactly its pool value, every known-zero slot holds 0, every other slot is unchanged,
and the length is unchanged. -/
theorem prescribe_exact (q : List K) (presQ : List Nat) (pool : List K) (zeroQ : List Nat)
    (hnd : presQ.Nodup) (hlen : presQ.length = pool.length) (hb : ∀ i ∈ presQ, i < q.length)
    (hdis : ∀ i ∈ presQ, i ∉ zeroQ) :
    (∀ (k : Nat) (hk : k < presQ.length), (prescribeQ q presQ pool zeroQ)[presQ[k]]? = some (pool[k]'(hlen ▸ hk))) ∧
    (∀ j ∈ zeroQ, j < q.length → (prescribeQ q presQ pool zeroQ)[j]? = some 0) ∧
    (∀ j, j ∉ presQ → j ∉ zeroQ → (prescribeQ q presQ pool zeroQ)[j]? = q[j]?) ∧
    (prescribeQ q presQ pool zeroQ).length = q.length := by
  refine ⟨?_, ?_, ?_, by simp [prescribeQ]⟩
  · intro k hk
    have hmem : presQ[k] ∈ presQ := List.getElem_mem hk
    unfold prescribeQ
    rw [scatterZero_getElem?_of_not_mem _ _ _ (hdis _ hmem)]
    exact scatter_getElem?_of_mem q presQ pool hnd hlen k hk (hb _ hmem)
  · intro j hj hjb
    unfold prescribeQ
    exact scatterZero_getElem?_of_mem _ _ _ hj (by simpa using hjb)
  · intro j h1 h2
    unfold prescribeQ
    rw [scatterZero_getElem?_of_not_mem _ _ _ h2, scatter_getElem?_of_not_mem _ _ _ _ h1]

/-- the same for `prescribeU` (identical loop over the u pool) -/
theorem prescribeU_exact (u : List K) (presU : List Nat) (pool : List K) (zeroU : List Nat)
    (hnd : presU.Nodup) (hlen : presU.length = pool.length) (hb : ∀ i ∈ presU, i < u.length)
    (hdis : ∀ i ∈ presU, i ∉ zeroU) :
    (∀ (k : Nat) (hk : k < presU.length), (prescribeU u presU pool zeroU)[presU[k]]? = some (pool[k]'(hlen ▸ hk))) ∧
    (∀ j ∈ zeroU, j < u.length → (prescribeU u presU pool zeroU)[j]? = some 0) ∧
    (∀ j, j ∉ presU → j ∉ zeroU → (prescribeU u presU pool zeroU)[j]? = u[j]?) ∧
    (prescribeU u presU pool zeroU).length = u.length :=
  prescribe_exact u presU pool zeroU hnd hlen hb hdis

/-- and for the known-udot scatter at the top of `calcTreeAccelerations` -/
theorem knownUDot_exact (udot : List K) (pres : List Nat) (pool : List K) (zero : List Nat)
    (hnd : pres.Nodup) (hlen : pres.length = pool.length) (hb : ∀ i ∈ pres, i < udot.length)
    (hdis : ∀ i ∈ pres, i ∉ zero) :
    (∀ (k : Nat) (hk : k < pres.length), (scatterKnownUDot udot pres pool zero)[pres[k]]? = some (pool[k]'(hlen ▸ hk))) ∧
    (∀ j ∈ zero, j < udot.length → (scatterKnownUDot udot pres pool zero)[j]? = some 0) ∧
    (∀ j, j ∉ pres → j ∉ zero → (scatterKnownUDot udot pres pool zero)[j]? = udot[j]?) ∧
    (scatterKnownUDot udot pres pool zero).length = udot.length :=
  prescribe_exact udot pres pool zero hnd hlen hb hdis

/-- non-vacuity / concrete instance: slots 3 and 1 prescribed, slot 0 known zero -/
example : prescribeQ [(10 : Int), 11, 12, 13] [3, 1] [7, 8] [0] = [0, 8, 12, 7] := by decide
/-- distinctness is needed: with a repeated index the first pool value is overwritten -/
example : prescribeQ [(10 : Int), 11] [1, 1] [7, 8] [] = [10, 8] := by decide
end prescribe

/-! ### distinctness and disjointness follow from the slot allocation -/
section partitionDistinct

/-- **The index arrays of `realizeSubsystemInstanceImpl` have distinct entries, are mutually disjoint and in range**,
for every per-mobilizer method assignment, given only that slots were allocated consecutively (`Alloc`). -/
theorem partition_distinct (es : List (Nat × Nat × Method)) (h : Alloc es) (N : Nat) (hN : ∀ e ∈ es, e.1 + e.2.1 ≤ N) :
    (collect isPres es).Nodup ∧ (collect isZero es).Nodup ∧ (collect isFree es).Nodup ∧ (collect notFree es).Nodup ∧
    (∀ x ∈ collect isPres es, x ∉ collect isZero es) ∧ (∀ x ∈ collect isPres es, x ∉ collect isFree es) ∧
    (∀ x ∈ collect isZero es, x ∉ collect isFree es) ∧ (∀ x ∈ collect isFree es, x ∉ collect notFree es) ∧
    (∀ x ∈ collect isPres es, x < N) ∧ (∀ x ∈ collect isZero es, x < N) :=
  ⟨collect_nodup _ _ h, collect_nodup _ _ h, collect_nodup _ _ h, collect_nodup _ _ h,
   collect_disjoint _ _ sel_pres_zero _ h, collect_disjoint _ _ sel_pres_free _ h,
   collect_disjoint _ _ sel_zero_free _ h, collect_disjoint _ _ sel_free_known _ h,
   collect_lt _ _ N hN, collect_lt _ _ N hN⟩

/-- non-vacuity: a Ball (4 slots allocated, 3 in use, prescribed), a free Pin, a zeroed Slider -/
example : Alloc [(0, 3, Method.prescribed), (4, 1, Method.free), (5, 1, Method.zero)] := by
  unfold Alloc; simp
example : collect isPres [(0, 3, Method.prescribed), (4, 1, Method.free), (5, 1, Method.zero)] = [0, 1, 2] ∧
          collect isZero [(0, 3, Method.prescribed), (4, 1, Method.free), (5, 1, Method.zero)] = [5] ∧
          collect isFree [(0, 3, Method.prescribed), (4, 1, Method.free), (5, 1, Method.zero)] = [4] := by decide
end partitionDistinct

/-! ### the executed `partition` / `prescribe` / `knownUDot` honour locks and Motions -/
section composed
variable {K : Type} [Field K] [DecidableEq K]
variable {mobs : List (MobIn K)} {q u udot : List K}

/-- **A lock is honoured by the executed model.**  For a mobilizer `m` of the list (owning slots), after
`prescribe mobs q u` (= `System::prescribe`) and the known-udot scatter of `realize(Acceleration)`:
* Position lock: its q slots hold exactly the locked q, its u slots and udot slots hold 0;
* Velocity lock: its q slots are untouched, its u slots hold exactly the locked u, its udot slots hold 0;
* Acceleration lock: its q and u slots are untouched, its udot slots hold exactly the locked value;
whatever Motion the mobilizer carries and whatever the other mobilizers do. -/
theorem prescribe_honours_lock (hw : WellFormed mobs q.length u.length) (hud : udot.length = u.length)
    {m : MobIn K} (hm : m ∈ mobs) (hnq : m.nq ≠ 0) :
    (m.lockLevel = .position →
      (∀ j, j < m.nq → (prescribe mobs q u).1[m.qx + j]? = m.lockedQ[j]?) ∧
      (∀ j, j < m.nu → (prescribe mobs q u).2[m.ux + j]? = some 0) ∧
      (∀ j, j < m.nu → (knownUDot mobs udot)[m.ux + j]? = some 0)) ∧
    (m.lockLevel = .velocity →
      (∀ j, j < m.nq → (prescribe mobs q u).1[m.qx + j]? = q[m.qx + j]?) ∧
      (∀ j, j < m.nu → (prescribe mobs q u).2[m.ux + j]? = m.lockedU[j]?) ∧
      (∀ j, j < m.nu → (knownUDot mobs udot)[m.ux + j]? = some 0)) ∧
    (m.lockLevel = .acceleration →
      (∀ j, j < m.nq → (prescribe mobs q u).1[m.qx + j]? = q[m.qx + j]?) ∧
      (∀ j, j < m.nu → (prescribe mobs q u).2[m.ux + j]? = u[m.ux + j]?) ∧
      (∀ j, j < m.nu → (knownUDot mobs udot)[m.ux + j]? = m.lockedU[j]?)) := by
  refine ⟨?_, ?_, ?_⟩
  · intro hl
    have hq : m.methods.q = .prescribed := by simp [MobIn.methods, instanceMethods, hnq, hl]
    have hu : m.methods.u = .zero := by simp [MobIn.methods, instanceMethods, hnq, hl]
    have hd : m.methods.udot = .zero := by simp [MobIn.methods, instanceMethods, hnq, hl]
    refine ⟨fun j hj => ?_, fun j hj => u_slot_zero hw hm hnq hu j hj, fun j hj => udot_slot_zero hw hud hm hnq hd j hj⟩
    rw [q_slot_pres hw hm hnq hq j hj]; simp [MobIn.qPoolVals, MobIn.locked, hl]
  · intro hl
    have hq1 : m.methods.q ≠ .prescribed := by simp [MobIn.methods, instanceMethods, hnq, hl]
    have hq2 : m.methods.q ≠ .zero := by simp [MobIn.methods, instanceMethods, hnq, hl]
    have hd : m.methods.udot = .zero := by simp [MobIn.methods, instanceMethods, hnq, hl]
    refine ⟨fun j hj => q_slot_untouched hw hm hnq hq1 hq2 j hj, fun j hj => ?_,
      fun j hj => udot_slot_zero hw hud hm hnq hd j hj⟩
    by_cases hnz : anyNonzero m.lockedU = true
    · have hu : m.methods.u = .prescribed := by simp [MobIn.methods, instanceMethods, hnq, hl, hnz]
      rw [u_slot_pres hw hm hnq hu j hj]; simp [MobIn.uPoolVals, MobIn.locked, hl]
    · have hnz' : anyNonzero m.lockedU = false := by simpa using hnz
      have hu : m.methods.u = .zero := by simp [MobIn.methods, instanceMethods, hnq, hl, hnz']
      rw [u_slot_zero hw hm hnq hu j hj, getElem?_of_not_anyNonzero _ hnz' j (by rw [hw.lenLockedU m hm]; exact hj)]
  · intro hl
    have hq1 : m.methods.q ≠ .prescribed := by simp [MobIn.methods, instanceMethods, hnq, hl]
    have hq2 : m.methods.q ≠ .zero := by simp [MobIn.methods, instanceMethods, hnq, hl]
    have hu1 : m.methods.u ≠ .prescribed := by simp [MobIn.methods, instanceMethods, hnq, hl]
    have hu2 : m.methods.u ≠ .zero := by simp [MobIn.methods, instanceMethods, hnq, hl]
    refine ⟨fun j hj => q_slot_untouched hw hm hnq hq1 hq2 j hj, fun j hj => u_slot_untouched hw hm hnq hu1 hu2 j hj,
      fun j hj => ?_⟩
    by_cases hnz : anyNonzero m.lockedU = true
    · have hd : m.methods.udot = .prescribed := by simp [MobIn.methods, instanceMethods, hnq, hl, hnz]
      rw [udot_slot_pres hw hud hm hnq hd j hj]; simp [MobIn.udotPoolVals, MobIn.locked, hl]
    · have hnz' : anyNonzero m.lockedU = false := by simpa using hnz
      have hd : m.methods.udot = .zero := by simp [MobIn.methods, instanceMethods, hnq, hl, hnz']
      rw [udot_slot_zero hw hud hm hnq hd j hj, getElem?_of_not_anyNonzero _ hnz' j (by rw [hw.lenLockedU m hm]; exact hj)]

/-- the instance-stage view of a mobilizer whose bookkeeping is `mb` (slots at `qx`, `ux`) -/
def MobIn.ofMob (qx ux : Nat) (mb : Mob K) (motion : Option MotionDesc) (cb : MobIn K) : MobIn K :=
  { cb with qx := qx, ux := ux, nq := mb.q.length, nu := mb.u.length, lockLevel := mb.lockLevel,
            lockedQ := mb.lockedQ, lockedU := mb.lockedU, motion := motion }

/-- **`lockAt(state, v, Position)` ; realize(Instance) ; `System::prescribe` ; realize(Acceleration)**, all on the
executed definitions: the mobilizer's q slots hold exactly `v`, its u slots and its udot slots hold exactly 0. -/
theorem prescribe_honours_lockAt_position (hw : WellFormed mobs q.length u.length) (hud : udot.length = u.length)
    (mb : Mob K) (v : List K) (hv : v ≠ []) (qx ux : Nat) (motion : Option MotionDesc) (cb : MobIn K)
    (hm : MobIn.ofMob qx ux (mb.lockAt .position v) motion cb ∈ mobs) :
    (∀ j, j < v.length → (prescribe mobs q u).1[qx + j]? = v[j]?) ∧
    (∀ j, j < mb.u.length → (prescribe mobs q u).2[ux + j]? = some 0) ∧
    (∀ j, j < mb.u.length → (knownUDot mobs udot)[ux + j]? = some 0) := by
  have hnq : (MobIn.ofMob qx ux (mb.lockAt .position v) motion cb).nq ≠ 0 := by
    simp [MobIn.ofMob, Mob.lockAt, hv]
  obtain ⟨h, _, _⟩ := prescribe_honours_lock hw hud hm hnq
  have := h (by simp [MobIn.ofMob, Mob.lockAt])
  simpa [MobIn.ofMob, Mob.lockAt, Mob.zeros] using this

/-- `lockAt(state, v, Velocity)` resp. `(…, Acceleration)`: u resp. udot slots hold exactly `v` -/
theorem prescribe_honours_lockAt_velocity (hw : WellFormed mobs q.length u.length) (hud : udot.length = u.length)
    (mb : Mob K) (v : List K) (hq : mb.q ≠ []) (qx ux : Nat) (motion : Option MotionDesc) (cb : MobIn K)
    (hm : MobIn.ofMob qx ux (mb.lockAt .velocity v) motion cb ∈ mobs) :
    (∀ j, j < mb.u.length → (prescribe mobs q u).2[ux + j]? = v[j]?) ∧
    (∀ j, j < mb.u.length → (knownUDot mobs udot)[ux + j]? = some 0) := by
  have hnq : (MobIn.ofMob qx ux (mb.lockAt .velocity v) motion cb).nq ≠ 0 := by
    simp [MobIn.ofMob, Mob.lockAt, hq]
  obtain ⟨_, h, _⟩ := prescribe_honours_lock hw hud hm hnq
  have := h (by simp [MobIn.ofMob, Mob.lockAt])
  simpa [MobIn.ofMob, Mob.lockAt] using this.2

theorem prescribe_honours_lockAt_acceleration (hw : WellFormed mobs q.length u.length) (hud : udot.length = u.length)
    (mb : Mob K) (v : List K) (hq : mb.q ≠ []) (qx ux : Nat) (motion : Option MotionDesc) (cb : MobIn K)
    (hm : MobIn.ofMob qx ux (mb.lockAt .acceleration v) motion cb ∈ mobs) :
    ∀ j, j < mb.u.length → (knownUDot mobs udot)[ux + j]? = v[j]? := by
  have hnq : (MobIn.ofMob qx ux (mb.lockAt .acceleration v) motion cb).nq ≠ 0 := by
    simp [MobIn.ofMob, Mob.lockAt, hq]
  obtain ⟨_, _, h⟩ := prescribe_honours_lock hw hud hm hnq
  have := h (by simp [MobIn.ofMob, Mob.lockAt])
  simpa [MobIn.ofMob, Mob.lockAt] using this.2.2

/-- **An enabled Prescribed Motion on an unlocked mobilizer is honoured by the executed model.**
* Position level: q slots hold `calcPrescribedPosition`, u slots `N⁻¹·calcPrescribedPositionDot`, udot slots
  `N⁻¹·(calcPrescribedPositionDotDot − Ṅu)`;
* Velocity level: q untouched, u slots hold `calcPrescribedVelocity`, udot slots `calcPrescribedVelocityDot`;
* Acceleration level: q and u untouched, udot slots hold `calcPrescribedAcceleration`. -/
theorem prescribe_honours_motion (hw : WellFormed mobs q.length u.length) (hud : udot.length = u.length)
    {m : MobIn K} (hm : m ∈ mobs) (hnq : m.nq ≠ 0) (hl : m.lockLevel = .noLevel)
    (md : MotionDesc) (hmo : m.motion = some md) (hen : md.disabled = false) (hpm : md.method = .prescribed) :
    (md.level = .position →
      (∀ j, j < m.nq → (prescribe mobs q u).1[m.qx + j]? = m.cbPos[j]?) ∧
      (∀ j, j < m.nu → (prescribe mobs q u).2[m.ux + j]? = (matVec m.nInv m.cbPosDot)[j]?) ∧
      (∀ j, j < m.nu → (knownUDot mobs udot)[m.ux + j]? = (matVec m.nInv (vsub m.cbPosDotDot m.nDotU))[j]?)) ∧
    (md.level = .velocity →
      (∀ j, j < m.nq → (prescribe mobs q u).1[m.qx + j]? = q[m.qx + j]?) ∧
      (∀ j, j < m.nu → (prescribe mobs q u).2[m.ux + j]? = m.cbVel[j]?) ∧
      (∀ j, j < m.nu → (knownUDot mobs udot)[m.ux + j]? = m.cbVelDot[j]?)) ∧
    (md.level = .acceleration →
      (∀ j, j < m.nq → (prescribe mobs q u).1[m.qx + j]? = q[m.qx + j]?) ∧
      (∀ j, j < m.nu → (prescribe mobs q u).2[m.ux + j]? = u[m.ux + j]?) ∧
      (∀ j, j < m.nu → (knownUDot mobs udot)[m.ux + j]? = m.cbAcc[j]?)) := by
  have hmeth : m.methods = calcAllMethods md.level md.method := by
    simp [MobIn.methods, instanceMethods, hnq, hl, hmo, hen]
  refine ⟨?_, ?_, ?_⟩
  · intro hlv
    have hq : m.methods.q = .prescribed := by rw [hmeth]; simp [calcAllMethods, hlv, hpm]
    have hu : m.methods.u = .prescribed := by rw [hmeth]; simp [calcAllMethods, hlv, hpm]
    have hd : m.methods.udot = .prescribed := by rw [hmeth]; simp [calcAllMethods, hlv, hpm]
    refine ⟨fun j hj => ?_, fun j hj => ?_, fun j hj => ?_⟩
    · rw [q_slot_pres hw hm hnq hq j hj]; simp [MobIn.qPoolVals, MobIn.locked, hl]
    · rw [u_slot_pres hw hm hnq hu j hj]; simp [MobIn.uPoolVals, MobIn.locked, hl, hq]
    · rw [udot_slot_pres hw hud hm hnq hd j hj]; simp [MobIn.udotPoolVals, MobIn.locked, hl, hq]
  · intro hlv
    have hq : m.methods.q = .free := by rw [hmeth]; simp [calcAllMethods, hlv, hpm]
    have hu : m.methods.u = .prescribed := by rw [hmeth]; simp [calcAllMethods, hlv, hpm]
    have hd : m.methods.udot = .prescribed := by rw [hmeth]; simp [calcAllMethods, hlv, hpm]
    refine ⟨fun j hj => q_slot_untouched hw hm hnq (by simp [hq]) (by simp [hq]) j hj, fun j hj => ?_, fun j hj => ?_⟩
    · rw [u_slot_pres hw hm hnq hu j hj]; simp [MobIn.uPoolVals, MobIn.locked, hl, hq]
    · rw [udot_slot_pres hw hud hm hnq hd j hj]; simp [MobIn.udotPoolVals, MobIn.locked, hl, hq, hu]
  · intro hlv
    have hq : m.methods.q = .free := by rw [hmeth]; simp [calcAllMethods, hlv, hpm]
    have hu : m.methods.u = .free := by rw [hmeth]; simp [calcAllMethods, hlv, hpm]
    have hd : m.methods.udot = .prescribed := by rw [hmeth]; simp [calcAllMethods, hlv, hpm]
    refine ⟨fun j hj => q_slot_untouched hw hm hnq (by simp [hq]) (by simp [hq]) j hj,
      fun j hj => u_slot_untouched hw hm hnq (by simp [hu]) (by simp [hu]) j hj, fun j hj => ?_⟩
    rw [udot_slot_pres hw hud hm hnq hd j hj]; simp [MobIn.udotPoolVals, MobIn.locked, hl, hq, hu]


/-- **An enabled Motion with method Zero** ("motion at this level and below is always zero"): Position level: q, u, udot
slots all hold 0; Velocity level: u and udot slots hold 0; Acceleration level: udot slots hold 0. -/
theorem prescribe_honours_zero_motion (hw : WellFormed mobs q.length u.length) (hud : udot.length = u.length)
    {m : MobIn K} (hm : m ∈ mobs) (hnq : m.nq ≠ 0) (hl : m.lockLevel = .noLevel)
    (md : MotionDesc) (hmo : m.motion = some md) (hen : md.disabled = false) (hz : md.method = .zero) :
    (md.level = .position →
      (∀ j, j < m.nq → (prescribe mobs q u).1[m.qx + j]? = some 0) ∧
      (∀ j, j < m.nu → (prescribe mobs q u).2[m.ux + j]? = some 0) ∧
      (∀ j, j < m.nu → (knownUDot mobs udot)[m.ux + j]? = some 0)) ∧
    (md.level = .velocity →
      (∀ j, j < m.nu → (prescribe mobs q u).2[m.ux + j]? = some 0) ∧
      (∀ j, j < m.nu → (knownUDot mobs udot)[m.ux + j]? = some 0)) ∧
    (md.level = .acceleration → ∀ j, j < m.nu → (knownUDot mobs udot)[m.ux + j]? = some 0) := by
  have hmeth : m.methods = calcAllMethods md.level md.method := by
    simp [MobIn.methods, instanceMethods, hnq, hl, hmo, hen]
  refine ⟨?_, ?_, ?_⟩
  · intro hlv
    have hq : m.methods.q = .zero := by rw [hmeth]; simp [calcAllMethods, hlv, hz]
    have hu : m.methods.u = .zero := by rw [hmeth]; simp [calcAllMethods, hlv, hz]
    have hd : m.methods.udot = .zero := by rw [hmeth]; simp [calcAllMethods, hlv, hz]
    exact ⟨fun j hj => q_slot_zero hw hm hnq hq j hj, fun j hj => u_slot_zero hw hm hnq hu j hj,
      fun j hj => udot_slot_zero hw hud hm hnq hd j hj⟩
  · intro hlv
    have hu : m.methods.u = .zero := by rw [hmeth]; simp [calcAllMethods, hlv, hz]
    have hd : m.methods.udot = .zero := by rw [hmeth]; simp [calcAllMethods, hlv, hz]
    exact ⟨fun j hj => u_slot_zero hw hm hnq hu j hj, fun j hj => udot_slot_zero hw hud hm hnq hd j hj⟩
  · intro hlv
    have hd : m.methods.udot = .zero := by rw [hmeth]; simp [calcAllMethods, hlv, hz]
    exact fun j hj => udot_slot_zero hw hud hm hnq hd j hj

/-- **an unlocked mobilizer without an enabled Motion is left alone** by `prescribe` (its q and u slots keep their
values): "all other q/u untouched" -/
theorem prescribe_leaves_free_alone (hw : WellFormed mobs q.length u.length)
    {m : MobIn K} (hm : m ∈ mobs) (hnq : m.nq ≠ 0) (hl : m.lockLevel = .noLevel)
    (hmo : m.motion = none ∨ ∃ md, m.motion = some md ∧ md.disabled = true) :
    (∀ j, j < m.nq → (prescribe mobs q u).1[m.qx + j]? = q[m.qx + j]?) ∧
    (∀ j, j < m.nu → (prescribe mobs q u).2[m.ux + j]? = u[m.ux + j]?) := by
  have hmeth : m.methods = Methods.allFree := by
    rcases hmo with h | ⟨md, h, hd⟩ <;> simp [MobIn.methods, instanceMethods, hnq, hl, h, *]
  exact ⟨fun j hj => q_slot_untouched hw hm hnq (by simp [hmeth, Methods.allFree]) (by simp [hmeth, Methods.allFree]) j hj,
         fun j hj => u_slot_untouched hw hm hnq (by simp [hmeth, Methods.allFree]) (by simp [hmeth, Methods.allFree]) j hj⟩

/-- and the vectors keep their lengths -/
theorem prescribe_length (mobs : List (MobIn K)) (q u : List K) :
    (prescribe mobs q u).1.length = q.length ∧ (prescribe mobs q u).2.length = u.length := by
  rw [prescribe_fst, prescribe_snd]; exact ⟨walk_length _ _ _ _, walk_length _ _ _ _⟩

/-- non-vacuity of `WellFormed` and a concrete run of the executed definitions: a Position-locked mobilizer (locked at 5)
next to a free one -/
def exLocked : MobIn ℚ := ⟨0, 0, 1, 1, .position, [5], [0], none, [0], [0], [0], [0], [0], [0], [[1]], [0]⟩
def exFree : MobIn ℚ := ⟨1, 1, 1, 1, .noLevel, [0], [0], none, [0], [0], [0], [0], [0], [0], [[1]], [0]⟩
example : WellFormed [exLocked, exFree] 2 2 := by
  constructor <;> simp [liveMobs, exLocked, exFree]
example : prescribe [exLocked, exFree] [1, 2] [3, 4] = ([5, 2], [0, 4]) := by
  simp [prescribe, partition, liveMobs, qEntries, uEntries, udotEntries, exLocked, exFree, MobIn.methods, instanceMethods,
    collect, collectVals, slotsIf, isPres, isZero, MobIn.qPoolVals, MobIn.uPoolVals, MobIn.locked, prescribeQ, prescribeU,
    scatter, scatterZero, anyNonzero, Methods.allFree]
end composed

/-! ## (b) Motion::Sinusoid / Motion::Steady : the reported derivatives are the derivatives -/
section motions
variable {K : Type} [CommRing K]

/-- the rate of the angle the code evaluates (`defRate*t + defPhase`) is `defRate` -/
theorem Sinusoid.angle_rate (m : Sinusoid K) (t : K) :
    (m.constJ.angle (Jet1.time t)).val = m.angle t ∧ (m.constJ.angle (Jet1.time t)).eps = m.w := by
  constructor <;> simp [Sinusoid.angle, Sinusoid.constJ]

/-- the lifted trig pair stays on the unit circle (the lift is consistent) -/
theorem trigLift_unit (c s thetaDot : K) (h : c * c + s * s = 1) :
    cosLift c s thetaDot * cosLift c s thetaDot + sinLift c s thetaDot * sinLift c s thetaDot = 1 := by
  apply Jet1.ext'
  · simp [cosLift, sinLift]; exact h
  · simp [cosLift, sinLift]; ring

/-- **Motion::Sinusoid.**  Let `θ(t) = w·t + p` be the code's angle expression, `(c, s)` its trig pair, lifted along
`θ̇`.  Then, over the dual numbers,
* the value formula `a·sin θ` evaluates to the reported value, and its time derivative is the reported
  `calcPrescribedPositionDot` / `calcPrescribedVelocityDot` formula `a·w·cos θ`;
* the time derivative of that formula is the reported `calcPrescribedPositionDotDot` formula `−a·w·w·sin θ`.
So at Position level (q, q̇, q̈) and at Velocity level (u, u̇) each reported derivative is the derivative of the level
above it; the Acceleration level reports only the value. -/
theorem motion_derivs (m : Sinusoid K) (t c s : K) :
    let thetaDot := (m.constJ.angle (Jet1.time t)).eps
    let cJ := cosLift c s thetaDot
    let sJ := sinLift c s thetaDot
    (m.constJ.value sJ).val = m.value s ∧ (m.constJ.value sJ).eps = m.dot c ∧
    (m.constJ.dot cJ).val = m.dot c ∧ (m.constJ.dot cJ).eps = m.dotdot s := by
  simp only [(Sinusoid.angle_rate m t).2]
  refine ⟨?_, ?_, ?_, ?_⟩ <;>
    simp [Sinusoid.value, Sinusoid.dot, Sinusoid.dotdot, Sinusoid.constJ, cosLift, sinLift] <;> ring

/-- **Motion::Steady.**  The rates are constants: the time derivative of every prescribed `u` is the `0` that
`calcPrescribedVelocityDot` reports, and `calcPrescribedVelocity` returns the first `nu` stored rates. -/
theorem steady_derivs (m : Steady K) (nu : Nat) (h6 : m.rates.length = 6) (hnu : nu ≤ 6) :
    ((m.velocity nu).map (fun r => (Jet1.const r).eps)) = m.velocityDot nu ∧
    (m.velocity nu).length = nu ∧ ∀ (i : Nat), i < nu → (m.velocity nu)[i]? = m.rates[i]? := by
  refine ⟨?_, by simp [Steady.velocity, h6, hnu], ?_⟩
  · simp only [Steady.velocity, Steady.velocityDot, Jet1.const_eps]
    rw [List.map_const', List.length_take, h6, min_eq_left hnu]
  · intro i hi; simp [Steady.velocity, List.getElem?_take, hi]

omit [CommRing K] in
/-- `setOneRate` changes exactly one rate -/
theorem steady_setOne (m : Steady K) (ux : Nat) (r : K) (h : ux < m.rates.length) :
    (m.setOne ux r).rates[ux]? = some r ∧ ∀ j, j ≠ ux → (m.setOne ux r).rates[j]? = m.rates[j]? := by
  constructor
  · simp [Steady.setOne, h]
  · intro j hj; simp [Steady.setOne, List.getElem?_set_ne (Ne.symm hj)]

/-- non-vacuity: the pair (c, s) = (3/5, 4/5) is on the unit circle -/
example : ((3 : ℚ) / 5) * (3 / 5) + (4 / 5) * (4 / 5) = 1 := by norm_num
end motions

/-! ## (c) lock bookkeeping -/
section locks
variable {K : Type} [OfNat K 0]

/-- **lock then unlock returns the bookkeeping to "free"**: level `NoLevel`, not locked, no lock value; the
coordinates are untouched and the speeds are untouched unless the lock was at Position level (which by
specification sets them to zero); and the instance-stage methods are exactly those of a mobilizer that was never
locked (the Motion, if any, decides again). -/
theorem unlock_restores [BEq K] (m : Mob K) (level : Level) (nq : Nat) (motion : Option MotionDesc) :
    ((m.lock level).unlock).lockLevel = .noLevel ∧
    ((m.lock level).unlock).isLocked = false ∧
    ((m.lock level).unlock).lockValue = [] ∧
    ((m.lock level).unlock).q = m.q ∧
    (level ≠ .position → ((m.lock level).unlock).u = m.u) ∧
    instanceMethods nq ((m.lock level).unlock).lockLevel ((m.lock level).unlock).lockedU motion
      = instanceMethods nq .noLevel m.lockedU motion := by
  cases level <;> simp [Mob.lock, Mob.unlock, Mob.isLocked, Mob.lockValue, instanceMethods]

/-- the same after `lockAt` -/
theorem unlock_restores_lockAt [BEq K] (m : Mob K) (level : Level) (v : List K) (nq : Nat) (motion : Option MotionDesc) :
    ((m.lockAt level v).unlock).lockLevel = .noLevel ∧
    ((m.lockAt level v).unlock).lockValue = [] ∧
    instanceMethods nq ((m.lockAt level v).unlock).lockLevel ((m.lockAt level v).unlock).lockedU motion
      = instanceMethods nq .noLevel m.lockedU motion := by
  cases level <;> simp [Mob.lockAt, Mob.unlock, Mob.lockValue, instanceMethods]

/-- **`lockAt` value retrieval**: at any real level `getLockValueAsVector` returns the supplied value, the level is the
requested one; at Position level `q` is set to the value and `u` to zero. -/
theorem lockAt_value (m : Mob K) (level : Level) (v : List K) (h : level ≠ .noLevel) :
    (m.lockAt level v).lockValue = v ∧ (m.lockAt level v).lockLevel = level ∧
    (level = .position → (m.lockAt level v).q = v ∧ (m.lockAt level v).u = Mob.zeros m.u) ∧
    (level ≠ .position → (m.lockAt level v).q = m.q ∧ (m.lockAt level v).u = m.u) := by
  cases level <;> simp_all [Mob.lockAt, Mob.lockValue]

/-- `lock` records the current q (Position), the current u (Velocity) or zero (Acceleration) -/
theorem lock_value (m : Mob K) :
    (m.lock .position).lockValue = m.q ∧ (m.lock .velocity).lockValue = m.u ∧
    (m.lock .acceleration).lockValue = Mob.zeros m.u ∧ (m.lock .position).u = Mob.zeros m.u ∧
    (m.lock .position).q = m.q := by
  simp [Mob.lock, Mob.lockValue]

omit [OfNat K 0] in
/-- user writes to q / u never disturb a recorded lock value -/
theorem lockValue_setQ_setU (m : Mob K) (q u : List K) :
    (m.setQ q).lockValue = m.lockValue ∧ (m.setU u).lockValue = m.lockValue := by
  cases h : m.lockLevel <;> simp [Mob.setQ, Mob.setU, Mob.lockValue, h]

/-- **a lock wins over a Motion**: the methods of a locked mobilizer do not depend on the Motion at all;
Position lock: q prescribed, u and udot zero; Velocity lock: q free, udot zero; Acceleration lock: q and u free -/
theorem lock_overrides_motion [BEq K] (nq : Nat) (hnq : nq ≠ 0) (level : Level) (h : level ≠ .noLevel) (lockedU : List K)
    (m1 m2 : Option MotionDesc) :
    instanceMethods nq level lockedU m1 = instanceMethods nq level lockedU m2 ∧
    (level = .position → instanceMethods nq level lockedU m1 = ⟨.prescribed, .zero, .zero⟩) ∧
    (level = .velocity → (instanceMethods nq level lockedU m1).q = .free ∧ (instanceMethods nq level lockedU m1).udot = .zero) ∧
    (level = .acceleration → (instanceMethods nq level lockedU m1).q = .free ∧ (instanceMethods nq level lockedU m1).u = .free) := by
  cases level <;> simp_all [instanceMethods]

/-- **unlocking hands control back to the Motion** (if enabled), and a disabled or absent Motion leaves everything free -/
theorem unlock_resumes_motion [BEq K] (nq : Nat) (hnq : nq ≠ 0) (m : Mob K) (md : MotionDesc) :
    instanceMethods nq m.unlock.lockLevel m.unlock.lockedU (some md) =
      (if md.disabled then Methods.allFree else calcAllMethods md.level md.method) := by
  simp [Mob.unlock, instanceMethods, hnq]

theorem disabled_motion_is_free [BEq K] (nq : Nat) (hnq : nq ≠ 0) (lockedU : List K) (md : MotionDesc) (h : md.disabled = true) :
    instanceMethods nq .noLevel lockedU (some md) = Methods.allFree ∧
    instanceMethods nq .noLevel lockedU none = Methods.allFree := by
  simp [instanceMethods, hnq, h]

/-- the table of `Motion.h`: a Prescribed level prescribes all lower levels, leaves higher levels free -/
theorem calcAllMethods_prescribed :
    calcAllMethods .position .prescribed = ⟨.prescribed, .prescribed, .prescribed⟩ ∧
    calcAllMethods .velocity .prescribed = ⟨.free, .prescribed, .prescribed⟩ ∧
    calcAllMethods .acceleration .prescribed = ⟨.free, .free, .prescribed⟩ ∧
    calcAllMethods .position .zero = ⟨.zero, .zero, .zero⟩ ∧
    calcAllMethods .velocity .zero = ⟨.discrete, .zero, .zero⟩ ∧
    calcAllMethods .acceleration .zero = ⟨.free, .discrete, .zero⟩ := by
  simp [calcAllMethods]

/-- lock-by-default: after `realizeModel` the recorded values are the defaults (q) resp. zero (u, udot) -/
theorem init_lockValue (defQ : List K) (nu : Nat) :
    (Mob.init defQ nu .position).lockValue = defQ ∧
    (Mob.init defQ nu .velocity).lockValue = List.replicate nu 0 ∧
    (Mob.init defQ nu .acceleration).lockValue = List.replicate nu 0 ∧
    (Mob.init defQ nu .noLevel).isLocked = false := by
  simp [Mob.init, Mob.lockValue, Mob.isLocked]
end locks

/-! ## (d) forward dynamics with prescribed joints: the code's two passes satisfy both block rows -/
section aba
open Matrix TreeDynAbs TreeDynAbs.MBT C10.Aba
variable {K : Type} [Field K] {ι : Type} [Fintype ι] [DecidableEq ι]
variable (pr : Flag K ι) (di : DInv K ι) (ab fb : Bd K ι → ι → K) (fm : MobF K ι)

/-- **ABA with prescribed joints (`calcUDotPass1Inward` / `calcUDotPass2Outward`), any rose tree, any joint
dimensions, hinge matrices, shift operators, inertias, biases, applied forces.**  Run inverse dynamics (RNEA,
`FrP`: `F = M A + b − F_applied + Σ φ_c F_c`, the operator whose linear part is the mass matrix) on the accelerations the
two passes deliver (`udotP`: prescribed value at prescribed joints, `DI eps − Gᵀ A⁺` at free joints).  Then at EVERY
joint of the tree
* free joint:        `Hᵀ F = f`            — row r: the free accelerations solve the equations of motion with the
                                              prescribed ones entering as given inputs (`M_rr u̇_r + M_rp u̇_p + bias_r = f_r`);
* prescribed joint:  `Hᵀ F = f − tau`      — row p: the reported `tau = eps − Hᵀ(P A⁺)` is exactly
                                              `f_p − (M_pr u̇_r + M_pp u̇_p + bias_p)`  (`M u̇ + tau = f`, tau on the LHS);
and every prescribed joint does move with its prescribed acceleration. -/
theorem aba_prescribed (t : MBT K ι) (Ap : ι → K) (h : WFp pr di t) :
    AllN ab (udotP pr di ab fb fm)
      (fun t Ap => (bd t).Hᵀ *ᵥ FrP ab fb (udotP pr di ab fb fm) t Ap = fm t - tauFull pr di ab fb fm t Ap) t Ap ∧
    AllN ab (udotP pr di ab fb fm) (fun t Ap => pr t = true → udotP pr di ab fb fm t Ap = (bd t).ud) t Ap := by
  constructor
  · exact allN_of_forall_p pr di ab _ _ (fun t Ap ht => aba_prescribed_row pr di ab fb fm t Ap ht) t Ap h
  · exact allN_of_forall_p pr di ab _ _ (fun t Ap _ hp => by simp [udotP, hp]) t Ap h

/-- **The reported motion forces, applied as ordinary forces to the same system WITHOUT the prescription, reproduce
the same accelerations.**  `t` carries two sets of joint inverses: `di` for the prescribed system (`WFp`) and the
stored `DI` for the fully free system (`WF`).  Let `fm'` be any assignment of mobility forces that at every joint
equals the applied force minus the reported motion force (`findMotionForces`: tau at prescribed joints, 0 at free
ones).  Then ordinary (un-prescribed) forward dynamics `udotA` driven by `fm'` yields, at every joint, exactly the
acceleration of the prescribed run — in particular the prescribed accelerations themselves. -/
theorem tau_as_applied_force (t : MBT K ι) (Ap : ι → K) (hp : WFp pr di t) (hfree : WF t) (fm' : MobF K ι)
    (hfm : AllN ab (udotP pr di ab fb fm) (fun t Ap => fm' t = fm t - tauFull pr di ab fb fm t Ap) t Ap) :
    AllN ab (udotP pr di ab fb fm) (fun t Ap => udotA ab fb fm' t Ap = udotP pr di ab fb fm t Ap) t Ap := by
  have h1 := (aba_prescribed pr di ab fb fm t Ap hp).1
  have h2 := allN_mp2 ab (udotP pr di ab fb fm) _ _
    (fun t Ap => (bd t).Hᵀ *ᵥ FrP ab fb (udotP pr di ab fb fm) t Ap = fm' t)
    (fun t Ap a b => by rw [a, b]) t Ap h1 hfm
  exact (inverse_core ab fb fm' (udotP pr di ab fb fm) t Ap hfree h2).2

/-- non-vacuity of `WFp`: a prescribed joint needs no inverse at all; a free leaf joint needs `Hᵀ M H` invertible -/
example (n : Bd K ι) (hM : n.Mᵀ = n.M) (c : MBT K ι) (hc : WFp (fun t => t.kids.isEmpty == false) di c) :
    WFp (fun t => t.kids.isEmpty == false) di (MBT.mk n [c]) :=
  WFp.mk n [c] hM (by intro c' hc'; simp at hc'; subst hc'; exact hc) (by intro h; simp [MBT.kids] at h)
example (n : Bd K ι) (hM : n.Mᵀ = n.M) (hdet : IsUnit (n.Hᵀ * n.M * n.H).det) :
    WFp (fun _ => false) (fun t => ((bd t).Hᵀ * (bd t).M * (bd t).H)⁻¹) (MBT.mk n []) := by
  refine WFp.mk n [] hM (by simp) (fun _ => ?_)
  simp only [Dp, Pp, Ppkids, add_zero, bd]
  exact ⟨Matrix.mul_nonsing_inv _ hdet, Matrix.nonsing_inv_mul _ hdet⟩
end aba

/-! ### block algebra and the dense reference solver (used by the `elim` records) -/
section blocks
open Matrix
variable {K : Type} [Field K] {r p : Type} [Fintype r] [Fintype p] [DecidableEq r] [DecidableEq p]

omit [DecidableEq r] [DecidableEq p] in
/-- (block algebra only — the two hypotheses ARE the two block rows; the content about the code's recursion is
`aba_prescribed` / `tau_as_applied_force` below.)  If `u̇_r` satisfies the r-row `M_rr u̇_r = f_r − M_rp u̇_p` and `tau_p` the
p-row `tau_p = f_p − M_pr u̇_r − M_pp u̇_p`, then the stacked vector satisfies the stacked system `M u̇ = f − E_p tau`. -/
theorem block_rows_give_full_system (Mrr : Matrix r r K) (Mrp : Matrix r p K) (Mpr : Matrix p r K) (Mpp : Matrix p p K)
    (fr udr : r → K) (fp udp tau : p → K)
    (hsolve : Mrr *ᵥ udr = fr - Mrp *ᵥ udp)
    (htau : tau = fp - Mpr *ᵥ udr - Mpp *ᵥ udp) :
    fromBlocks Mrr Mrp Mpr Mpp *ᵥ Sum.elim udr udp = Sum.elim fr fp - Sum.elim (0 : r → K) tau := by
  rw [fromBlocks_mulVec]
  funext i
  cases i with
  | inl i => simp [hsolve]
  | inr i => simp [htau]; ring

/-- (block algebra) when `M` is invertible the stacked system has no other solution -/
theorem block_full_system_unique (Mrr : Matrix r r K) (Mrp : Matrix r p K) (Mpr : Matrix p r K) (Mpp : Matrix p p K)
    (fr udr : r → K) (fp udp tau : p → K)
    (hsolve : Mrr *ᵥ udr = fr - Mrp *ᵥ udp)
    (htau : tau = fp - Mpr *ᵥ udr - Mpp *ᵥ udp)
    (hM : IsUnit (fromBlocks Mrr Mrp Mpr Mpp).det)
    (x : r ⊕ p → K) (hx : fromBlocks Mrr Mrp Mpr Mpp *ᵥ x = Sum.elim fr fp - Sum.elim (0 : r → K) tau) :
    x = Sum.elim udr udp := by
  have h := block_rows_give_full_system Mrr Mrp Mpr Mpp fr udr fp udp tau hsolve htau
  have hinj := Matrix.mulVec_injective_of_isUnit ((Matrix.isUnit_iff_isUnit_det _).mpr hM)
  exact hinj (hx.trans h.symm)

/-- non-vacuity: `M = [[2,1],[1,3]]` (SPD), first mobility free, second prescribed to `u̇_p = 1`, `f = (4, 5)`:
`u̇_r = 3/2`, `tau = 1/2` -/
example : (!![(2 : ℚ)] : Matrix (Fin 1) (Fin 1) ℚ) *ᵥ ![3 / 2] = ![4] - (!![(1 : ℚ)] : Matrix (Fin 1) (Fin 1) ℚ) *ᵥ ![1] := by
  funext i; fin_cases i; simp [Matrix.mulVec, dotProduct]; norm_num
end blocks

section modelLevel
variable {K : Type} [Field K]

/-- **tau as applied force, on the executable list model.**  Free indices `r`, prescribed indices `p` (distinct,
disjoint, `< n`), `udr` solving the reduced system the model sets up, `tau` the model's reported forces.  Then every
row `i ∈ r ∪ p` of the *full* system holds for the assembled `u̇`:   `M[i] · u̇ + (findMotionForces)[i] = f[i]`,
i.e. `M u̇ = f − E_p tau`: the unprescribed system with `−tau` as applied mobility force has the same accelerations. -/
theorem block_rows_model (n : Nat) (M : List (List K)) (f : List K) (r p : List Nat) (udr udp : List K)
    (hr : r.Nodup) (hp : p.Nodup) (hdisj : ∀ i ∈ p, i ∉ r) (hrb : ∀ i ∈ r, i < n) (hpb : ∀ i ∈ p, i < n)
    (hlr : r.length = udr.length) (hlp : p.length = udp.length)
    (hsolve : matVec (subMat M r r) udr = reducedRhs M f r p udp) :
    let udot := assemble n r p udr udp
    let forces := unpackTau n p (tauOf M f r p udr udp)
    (∀ i ∈ r, dot (M.getD i []) udot + forces.getD i 0 = f.getD i 0) ∧
    (∀ i ∈ p, dot (M.getD i []) udot + forces.getD i 0 = f.getD i 0) ∧
    (∀ (k : Nat) (hk : k < p.length), udot[p[k]]? = some (udp[k]'(hlp ▸ hk))) := by
  intro udot forces
  refine ⟨?_, ?_, ?_⟩
  · intro i hi
    obtain ⟨k, hk, rfl⟩ := List.getElem_of_mem hi
    have hnp : r[k] ∉ p := fun h => hdisj _ h hi
    have hf : forces.getD r[k] 0 = 0 := by
      simp only [forces, unpackTau]
      rw [scatter_getD_of_not_mem _ _ _ _ hnp]
      simp [List.getD_eq_getElem?_getD, List.getElem?_replicate]; split <;> rfl
    rw [hf, dot_assemble _ n r p udr udp hr hp hdisj hrb hpb hlr hlp, reduced_row M f r p udr udp hsolve k hk]
    ring
  · intro i hi
    obtain ⟨k, hk, rfl⟩ := List.getElem_of_mem hi
    have hlen : p.length = (tauOf M f r p udr udp).length := (tauOf_length M f r p udr udp).symm
    have hf : forces.getD p[k] 0 = (tauOf M f r p udr udp)[k]'(hlen ▸ hk) := by
      simp only [forces, unpackTau, List.getD_eq_getElem?_getD]
      rw [scatter_getElem?_of_mem _ p _ hp hlen k hk (by simpa using hpb _ hi)]
      rfl
    rw [hf, tauOf_getElem M f r p udr udp k hk, dot_assemble _ n r p udr udp hr hp hdisj hrb hpb hlr hlp]
    ring
  · intro k hk
    simp only [udot, assemble]
    exact scatter_getElem?_of_mem _ p udp hp hlp k hk (by simpa using hpb _ (List.getElem_mem hk))

/-- the dense reference solver of the `elim` records does solve the block system it sets up: when no pivot of the
elimination on `M_rr` vanishes, `gaussSolve`'s result satisfies the reduced system (`gaussSolve_correct`), hence the
pair `(u̇, tau)` the driver prints satisfies every free and every prescribed row of `M u̇ + E_p tau = f`.  (That the
CODE's recursion satisfies the same rows is `aba_prescribed`.) -/
theorem elim_solves_block_system (n : Nat) (M : List (List K)) (f : List K) (r p : List Nat) (udp : List K)
    (hr : r.Nodup) (hp : p.Nodup) (hdisj : ∀ i ∈ p, i ∉ r) (hrb : ∀ i ∈ r, i < n) (hpb : ∀ i ∈ p, i < n)
    (hlp : p.length = udp.length)
    (hshape : Shape r.length (subMat M r r) (reducedRhs M f r p udp))
    (hpiv : PivotsOK r.length (subMat M r r) (reducedRhs M f r p udp)) :
    let udot := assemble n r p (elim M f r p udp).1 udp
    let forces := unpackTau n p (elim M f r p udp).2
    (∀ i, i ∈ r ∨ i ∈ p → dot (M.getD i []) udot + forces.getD i 0 = f.getD i 0) ∧
    (∀ (k : Nat) (hk : k < p.length), udot[p[k]]? = some (udp[k]'(hlp ▸ hk))) := by
  intro udot forces
  have hsolve := gaussSolve_correct r.length _ _ hshape hpiv
  have hlen : (elim M f r p udp).1.length = r.length := gaussSolve_length r.length _ _ hshape
  obtain ⟨h1, h2, h3⟩ := block_rows_model n M f r p (elim M f r p udp).1 udp hr hp hdisj hrb hpb hlen.symm hlp hsolve
  exact ⟨fun i hi => hi.elim (h1 i) (h2 i), h3⟩


/-- **unlocking / disabling restores free behaviour of the executed model**: when no mobilizer is locked and none has
an enabled Motion, the partition has no prescribed, no known-zero and no known-udot slot at all, `prescribe` is the
identity and the known-udot scatter changes nothing. -/
theorem partition_all_free [DecidableEq K] (mobs : List (MobIn K)) (q u udot : List K)
    (h : ∀ m ∈ mobs, m.lockLevel = .noLevel ∧ (m.motion = none ∨ ∃ md, m.motion = some md ∧ md.disabled = true)) :
    (partition mobs).presForce = [] ∧ (partition mobs).presQ = [] ∧ (partition mobs).zeroQ = [] ∧
    (partition mobs).presU = [] ∧ (partition mobs).zeroU = [] ∧
    (partition mobs).presUDot = [] ∧ (partition mobs).zeroUDot = [] ∧
    prescribe mobs q u = (q, u) ∧ knownUDot mobs udot = udot := by
  have hmeth : ∀ m ∈ liveMobs mobs, m.methods = Methods.allFree := by
    intro m hm
    obtain ⟨hm', hnq⟩ := mem_liveMobs.mp hm
    obtain ⟨hl, hmo⟩ := h m hm'
    rcases hmo with h0 | ⟨md, h0, hd⟩ <;> simp [MobIn.methods, instanceMethods, hnq, hl, h0, *]
  have nil : ∀ (sel : Method → Bool) (fe : MobIn K → Nat × Nat × Method),
      (∀ m ∈ liveMobs mobs, sel (fe m).2.2 = false) → collect sel ((liveMobs mobs).map fe) = [] := by
    intro sel fe hs
    apply collect_eq_nil
    intro e he
    obtain ⟨m, hm, rfl⟩ := List.mem_map.mp he
    exact hs m hm
  have e1 : (partition mobs).presForce = [] := nil notFree _ (fun m hm => by simp [hmeth m hm, Methods.allFree, notFree])
  have e2 : (partition mobs).presQ = [] := nil isPres _ (fun m hm => by simp [hmeth m hm, Methods.allFree, isPres])
  have e3 : (partition mobs).zeroQ = [] := nil isZero _ (fun m hm => by simp [hmeth m hm, Methods.allFree, isZero])
  have e4 : (partition mobs).presU = [] := nil isPres _ (fun m hm => by simp [hmeth m hm, Methods.allFree, isPres])
  have e5 : (partition mobs).zeroU = [] := nil isZero _ (fun m hm => by simp [hmeth m hm, Methods.allFree, isZero])
  have e6 : (partition mobs).presUDot = [] := nil isPres _ (fun m hm => by simp [hmeth m hm, Methods.allFree, isPres])
  have e7 : (partition mobs).zeroUDot = [] := nil isZero _ (fun m hm => by simp [hmeth m hm, Methods.allFree, isZero])
  refine ⟨e1, e2, e3, e4, e5, e6, e7, ?_, ?_⟩
  · simp only [prescribe, prescribeQ, prescribeU, e2, e3, e4, e5]; simp
  · simp only [knownUDot, scatterKnownUDot, e6, e7]; simp

/-- with nothing prescribed the dense reference reduces to the plain solve `M u̇ = f` and reports no motion force -/
theorem elim_all_free (M : List (List K)) (f : List K) (r : List Nat) :
    elim M f r [] [] = (gaussSolve r.length (subMat M r r) (pick f r), []) := by
  have h0 : matVec (subMat M r []) ([] : List K) = List.replicate r.length 0 := by
    simp [matVec, subMat, pick, List.map_const']
  have h1 : reducedRhs M f r [] [] = pick f r := by
    unfold reducedRhs
    rw [h0]
    exact vsub_replicate_zero _ _ (by simp [pick])
  simp [elim, h1, tauOf, vsub, pick, subMat, matVec]

/-- `calcMotionPower` of the model is `−tau · u_p` -/
theorem motionPower_is_neg_dot (tau : List K) (p : List Nat) (u : List K) :
    motionPower tau p u = - dot tau (pick u p) := motionPower_eq tau p u

/-- non-vacuity / concrete instance of `elim_solves_block_system`'s hypotheses and conclusion:
`M = [[2,1],[1,3]]`, slot 0 free, slot 1 prescribed to 1, `f = (4,5)` ⇒ `u̇ = (3/2, 1)`, `tau = 1/2`, power with
`u = (0, 2)` is `−1` -/
example : elim [[(2 : ℚ), 1], [1, 3]] [4, 5] [0] [1] [1] = ([3 / 2], [1 / 2]) ∧
    assemble 2 [0] [1] [(3 : ℚ) / 2] [1] = [3 / 2, 1] ∧ unpackTau 2 [1] [(1 : ℚ) / 2] = [0, 1 / 2] ∧
    motionPower [(1 : ℚ) / 2] [1] [0, 2] = -1 ∧
    PivotsOK 1 (subMat [[(2 : ℚ), 1], [1, 3]] [0] [0]) (reducedRhs [[(2 : ℚ), 1], [1, 3]] [4, 5] [0] [1] [1]) := by
  refine ⟨?_, ?_, ?_, ?_, ?_⟩
  · norm_num [elim, gaussSolve, subMat, pick, reducedRhs, vsub, matVec, dot, tauOf, elimStep]
  · norm_num [assemble, scatter, List.replicate, List.set]
  · norm_num [unpackTau, scatter, List.replicate, List.set]
  · norm_num [motionPower, pick]
  · norm_num [PivotsOK, subMat, pick, reducedRhs, vsub, matVec, dot, elimStep]
end modelLevel

end C10
