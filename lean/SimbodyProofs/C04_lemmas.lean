import SimbodyModel.C04
import Mathlib.Tactic.Ring
import Mathlib.Algebra.Ring.Defs

/-! Helper lemmas for C04: pointwise algebra of `V3`/`SV`, list pairings, flat-vector scatter. -/
set_option linter.unusedSectionVars false
set_option linter.unusedVariables false
namespace C04
variable {K : Type} [CommRing K]

theorem V3.ext' {a b : V3 K} (hx : a.x = b.x) (hy : a.y = b.y) (hz : a.z = b.z) : a = b := by
  cases a; cases b; simp_all

theorem SV.ext' {a b : SV K} (hw : a.w = b.w) (hv : a.v = b.v) : a = b := by
  cases a; cases b; simp_all

/-! ### pointwise algebra -/
theorem SV.dot_zero_right (a : SV K) : SV.dot a SV.zero = 0 := by
  simp [SV.dot, SV.zero, V3.dot, V3.zero]

theorem SV.dot_zero_left (a : SV K) : SV.dot SV.zero a = 0 := by
  simp [SV.dot, SV.zero, V3.dot, V3.zero]

theorem SV.dot_add_right (a b c : SV K) : SV.dot a (SV.add b c) = SV.dot a b + SV.dot a c := by
  simp only [SV.dot, SV.add, V3.dot, V3.add]; ring

theorem SV.dot_add_left (a b c : SV K) : SV.dot (SV.add a b) c = SV.dot a c + SV.dot b c := by
  simp only [SV.dot, SV.add, V3.dot, V3.add]; ring

theorem SV.dot_smul_right (a b : SV K) (s : K) : SV.dot a (SV.smul s b) = SV.dot b a * s := by
  simp only [SV.dot, SV.smul, V3.dot, V3.smul]; ring

theorem SV.dot_comm (a b : SV K) : SV.dot a b = SV.dot b a := by
  simp only [SV.dot, V3.dot]; ring

theorem SV.add_zero (a : SV K) : SV.add a SV.zero = a := by
  cases a with | mk w v => cases w; cases v; simp [SV.add, SV.zero, V3.add, V3.zero]

theorem SV.zero_add (a : SV K) : SV.add SV.zero a = a := by
  cases a with | mk w v => cases w; cases v; simp [SV.add, SV.zero, V3.add, V3.zero]

theorem SV.add_comm (a b : SV K) : SV.add a b = SV.add b a := by
  apply SV.ext' <;> apply V3.ext' <;> simp only [SV.add, V3.add] <;> ring

theorem SV.add_assoc (a b c : SV K) : SV.add (SV.add a b) c = SV.add a (SV.add b c) := by
  apply SV.ext' <;> apply V3.ext' <;> simp only [SV.add, V3.add] <;> ring

/-- the shift operators are mutually adjoint: `~(Phi F) V = ~F (~Phi V)` -/
theorem dot_phi (l : V3 K) (F V : SV K) : SV.dot (phi l F) V = SV.dot F (phiT l V) := by
  simp only [SV.dot, phi, phiT, V3.dot, V3.add, V3.cross]; ring

theorem phiT_add (l : V3 K) (a b : SV K) : phiT l (SV.add a b) = SV.add (phiT l a) (phiT l b) := by
  apply SV.ext' <;> apply V3.ext' <;> simp only [phiT, SV.add, V3.add, V3.cross] <;> ring

theorem phiT_zero (l : V3 K) : phiT l (SV.zero : SV K) = SV.zero := by
  apply SV.ext' <;> apply V3.ext' <;> simp [phiT, SV.zero, V3.add, V3.cross, V3.zero]

theorem phi_add (l : V3 K) (a b : SV K) : phi l (SV.add a b) = SV.add (phi l a) (phi l b) := by
  apply SV.ext' <;> apply V3.ext' <;> simp only [phi, SV.add, V3.add, V3.cross] <;> ring

theorem phi_zero (l : V3 K) : phi l (SV.zero : SV K) = SV.zero := by
  apply SV.ext' <;> apply V3.ext' <;> simp [phi, SV.zero, V3.add, V3.cross, V3.zero]

/-- `shiftAccelerationBy` is affine in the acceleration with linear part `shiftVelocityBy` -/
theorem shiftAcc_add (X Y : SV K) (w r : V3 K) :
    shiftAcc (SV.add X Y) w r = SV.add (phiT r X) (shiftAcc Y w r) := by
  apply SV.ext' <;> apply V3.ext' <;> simp only [shiftAcc, phiT, SV.add, V3.add, V3.cross] <;> ring

/-! ### hinge products -/
theorem mulH_nil_right (H : List (SV K)) : mulH H ([] : List K) = SV.zero := by
  cases H <;> rfl

theorem dot_mulH (z : SV K) : ∀ (H : List (SV K)) (u : List K),
    SV.dot z (mulH H u) = dotL (mulHt H z) u
  | [], u => by simp [mulH, mulHt, dotL, SV.dot_zero_right]
  | h :: H, [] => by simp [mulH, mulHt, dotL, SV.dot_zero_right]
  | h :: H, x :: u => by
      have ih := dot_mulH z H u
      simp only [mulH, mulHt, List.map_cons, dotL, SV.dot_add_right, SV.dot_smul_right] at ih ⊢
      rw [ih]

theorem mulH_add : ∀ (H : List (SV K)) (u v : List K), u.length = v.length →
    mulH H (List.zipWith (· + ·) u v) = SV.add (mulH H u) (mulH H v)
  | [], u, v, _ => by simp [mulH, SV.add_zero]
  | h :: H, [], [], _ => by simp [mulH, SV.add_zero]
  | h :: H, [], _ :: _, hl => by simp at hl
  | h :: H, _ :: _, [], hl => by simp at hl
  | h :: H, x :: u, y :: v, hl => by
      have ih := mulH_add H u v (by simpa using hl)
      simp only [List.zipWith_cons_cons, mulH, ih]
      apply SV.ext' <;> apply V3.ext' <;> simp only [SV.add, SV.smul, V3.add, V3.smul] <;> ring

/-! ### pairings along lists -/
theorem pairV_append (F : Nat → SV K) : ∀ (a b : BodyVals K), pairV F (a ++ b) = pairV F a + pairV F b
  | [], b => by simp [pairV]
  | (i, V) :: a, b => by simp [pairV, pairV_append F a b, add_assoc]

theorem pairU_append (u : List K) : ∀ (a b : MobVals K), pairU u (a ++ b) = pairU u a + pairU u b
  | [], b => by simp [pairU]
  | (i, o) :: a, b => by simp [pairU, pairU_append u a b, add_assoc]

/-! ### flat vectors -/
theorem dotL_nil_left (u : List K) : dotL ([] : List K) u = 0 := by cases u <;> rfl
theorem dotL_nil_right (u : List K) : dotL u ([] : List K) = 0 := by cases u <;> rfl

theorem dotL_replicate_zero : ∀ (n : Nat) (u : List K), dotL (List.replicate n (0 : K)) u = 0
  | 0, u => by simp [dotL_nil_left]
  | n + 1, [] => by simp [dotL_nil_right]
  | n + 1, x :: u => by simp [List.replicate_succ, dotL, dotL_replicate_zero n u]

theorem addAt_length : ∀ (k : Nat) (xs acc : List K), (addAt k xs acc).length = acc.length
  | _, _, [] => by simp [addAt]
  | 0, [], a :: acc => by simp [addAt]
  | 0, x :: xs, a :: acc => by simp [addAt, addAt_length 0 xs acc]
  | k + 1, xs, a :: acc => by simp [addAt, addAt_length k xs acc]

/-- adding a block into a flat vector adds the block's pairing with the corresponding slice,
provided the block fits -/
theorem dotL_addAt : ∀ (k : Nat) (xs acc u : List K), k + xs.length ≤ acc.length →
    dotL (addAt k xs acc) u = dotL acc u + dotL xs (u.drop k)
  | 0, [], [], u, _ => by simp [addAt, dotL_nil_left]
  | 0, [], a :: acc, u, _ => by simp [addAt, dotL_nil_left]
  | 0, x :: xs, [], u, h => by simp at h
  | 0, x :: xs, a :: acc, [], _ => by simp [addAt, dotL_nil_right]
  | 0, x :: xs, a :: acc, y :: u, h => by
      have ih := dotL_addAt 0 xs acc u (by simpa using h)
      simp only [List.drop_zero] at ih
      simp only [addAt, dotL, List.drop_zero, ih]; ring
  | k + 1, xs, [], u, h => by
      have : xs = [] := by
        cases xs with
        | nil => rfl
        | cons x xs => simp at h
      subst this; simp [addAt, dotL_nil_left]
  | k + 1, xs, a :: acc, [], _ => by simp [addAt, dotL_nil_right]
  | k + 1, xs, a :: acc, y :: u, h => by
      have ih := dotL_addAt k xs acc u (by simp at h; omega)
      simp only [addAt, dotL, List.drop_succ_cons, ih]; ring

theorem scatter_length (n : Nat) : ∀ (m : MobVals K), (scatter n m).length = n
  | [] => by simp [scatter]
  | (u0, o) :: r => by simp [scatter, addAt_length, scatter_length n r]

/-- every output block of a mobility-space result lies inside `[0, n)` -/
def FitsM (n : Nat) : MobVals K → Prop
  | [] => True
  | (u0, o) :: r => u0 + o.length ≤ n ∧ FitsM n r

theorem FitsM_append (n : Nat) : ∀ (a b : MobVals K), FitsM n a → FitsM n b → FitsM n (a ++ b)
  | [], _, _, hb => hb
  | (u0, o) :: r, b, ha, hb => ⟨ha.1, FitsM_append n r b ha.2 hb⟩

/-- the flat vector produced by `scatter` pairs with `u` exactly like the per-body blocks -/
theorem dotL_scatter (n : Nat) (u : List K) : ∀ (m : MobVals K), FitsM n m →
    dotL (scatter n m) u = pairU u m
  | [], _ => by simp [scatter, pairU, dotL_replicate_zero]
  | (u0, o) :: r, h => by
      have ih := dotL_scatter n u r h.2
      have hl : u0 + o.length ≤ (scatter n r).length := by rw [scatter_length]; exact h.1
      simp only [scatter, pairU, dotL_addAt u0 o (scatter n r) u hl, ih]; ring

theorem dotL_unitL : ∀ (n j : Nat) (x : List K), dotL x (unitL n j) = if j < n then x.getD j 0 else 0
  | 0, j, x => by simp [unitL, dotL_nil_right]
  | n + 1, 0, [] => by simp [dotL_nil_left]
  | n + 1, 0, a :: x => by
      have h0 : ∀ (m : Nat) (y : List K), dotL y (List.replicate m (0 : K)) = 0 := by
        intro m
        induction m with
        | zero => intro y; simp [dotL_nil_right]
        | succ m ih => intro y; cases y with
          | nil => simp [dotL_nil_left]
          | cons b y => simp [List.replicate_succ, dotL, ih y]
      simp [unitL, dotL, h0]
  | n + 1, j + 1, [] => by simp [dotL_nil_left]
  | n + 1, j + 1, a :: x => by
      have ih := dotL_unitL n j x
      simp only [unitL, dotL, ih]
      simp

/-! ### unfolding lemmas (restatements of definitions; not property statements) and jet projections -/
theorem mulFrameJ_def (ts : List (Tr K)) (tasks : List (Task K)) (u : List K) :
    mulFrameJ ts tasks u = tasks.map (fun t => phiT t.r (lookup t.body (sysJ ts u))) := rfl

/-- the rows `calcFrameJ` returns are exactly those vectors -/
theorem calcFrameJ_def (ts : List (Tr K)) (n : Nat) (tasks : List (Task K)) :
    calcFrameJ ts n tasks = tasks.map (fun t => (List.range 6).map
      (fun i => sysJTflat ts n (single t.body (phi t.r (SV.unit i))))) := rfl

/-- `calcSystemJacobian`: column `j` is the operator applied to the unit vector `e_j` -/
theorem calcSysJ_col (ts : List (Tr K)) (n j : Nat) (hj : j < n) :
    (calcSysJ ts n)[j]? = some (sysJ ts (unitL n j)) := by
  simp [calcSysJ, hj]

theorem Jet.add_re (a b : Jet K) : (a + b).re = a.re + b.re := rfl
theorem Jet.add_ep (a b : Jet K) : (a + b).ep = a.ep + b.ep := rfl
theorem Jet.sub_re (a b : Jet K) : (a - b).re = a.re - b.re := rfl
theorem Jet.sub_ep (a b : Jet K) : (a - b).ep = a.ep - b.ep := rfl
theorem Jet.mul_re (a b : Jet K) : (a * b).re = a.re * b.re := rfl
theorem Jet.mul_ep (a b : Jet K) : (a * b).ep = a.re * b.ep + a.ep * b.re := rfl

end C04
