import SimbodyModel.C41
import Mathlib.Tactic.Ring
import Mathlib.Tactic.Linarith
import Mathlib.Tactic.NormNum
import Mathlib.Tactic.LinearCombination
import Mathlib.Algebra.Polynomial.Derivative

/-! # C41 — helper lemmas (polynomial denotation of coefficient lists, Horner, linear accumulation, `npow`) -/
namespace C41
open Polynomial

open Polynomial
section P
variable {K : Type} [CommRing K]

/-- the polynomial denoted by a coefficient list in order of decreasing powers -/
noncomputable def ofCoeffs (cs : List K) : K[X] := cs.foldl (fun p a => p * X + C a) 0

theorem ofCoeffs_append (cs : List K) (a : K) : ofCoeffs (cs ++ [a]) = ofCoeffs cs * X + C a := by
  simp [ofCoeffs, List.foldl_append]

theorem horner_append (cs : List K) (a x : K) : horner (cs ++ [a]) x = horner cs x * x + a := by
  simp [horner, List.foldl_append]

theorem horner_eq_eval (cs : List K) (x : K) : horner cs x = eval x (ofCoeffs cs) := by
  induction cs using List.reverseRecOn with
  | nil => simp [horner, ofCoeffs]
  | append_singleton cs a ih => rw [horner_append, ofCoeffs_append, ih]; simp

theorem coeff_ofCoeffs (cs : List K) (m : Nat) :
    (ofCoeffs cs).coeff m = if m < cs.length then cs.getD (cs.length - 1 - m) 0 else 0 := by
  induction cs using List.reverseRecOn generalizing m with
  | nil => simp [ofCoeffs]
  | append_singleton cs a ih =>
    rw [ofCoeffs_append]
    cases m with
    | zero => simp [List.getD_eq_getElem?_getD]
    | succ m =>
      simp only [coeff_add, coeff_mul_X, coeff_C_succ, add_zero, ih, List.length_append, List.length_singleton]
      by_cases h : m < cs.length
      · have h' : m + 1 < cs.length + 1 := by omega
        rw [if_pos h, if_pos h']
        have e : cs.length + 1 - 1 - (m + 1) = cs.length - 1 - m := by omega
        rw [e]; simp only [List.getD_eq_getElem?_getD]; rw [List.getElem?_append_left (by omega)]
      · have h' : ¬ m + 1 < cs.length + 1 := by omega
        rw [if_neg h, if_neg h']

theorem polyDerivCoeff_eq (n i k : Nat) (c : K) :
    polyDerivCoeff (Nat.cast : Nat → K) n i k c = c * ((n - i).descFactorial k : K) := by
  unfold polyDerivCoeff
  induction k with
  | zero => simp
  | succ k ih =>
    rw [List.range_succ, List.foldl_append, ih]
    simp only [List.foldl_cons, List.foldl_nil, Nat.descFactorial_succ, Nat.cast_mul]
    ring

/-- the coefficient list the C++ loop builds denotes the `k`-th formal derivative -/
theorem ofCoeffs_polyDerivCoeffs (cs : List K) (k : Nat) :
    ofCoeffs (polyDerivCoeffs (Nat.cast : Nat → K) cs k) = derivative^[k] (ofCoeffs cs) := by
  ext m
  rw [coeff_iterate_derivative, coeff_ofCoeffs, coeff_ofCoeffs]
  unfold polyDerivCoeffs
  by_cases hlen : cs.length < k + 1
  · simp only [if_pos hlen, List.length_nil, Nat.not_lt_zero, if_false]
    rw [if_neg (by omega)]; simp
  · simp only [if_neg hlen, List.length_map, List.length_range]
    by_cases hm : m < cs.length - 1 - k + 1
    · rw [if_pos hm, if_pos (by omega)]
      simp only [List.getD_eq_getElem?_getD]
      rw [List.getElem?_map, List.getElem?_range (by omega)]
      simp only [Option.map_some, Option.getD_some, polyDerivCoeff_eq]
      have e1 : cs.length - 1 - k + 1 - 1 - m = cs.length - 1 - (m + k) := by omega
      have e2 : cs.length - 1 - (cs.length - 1 - (m + k)) = m + k := by omega
      rw [e1, e2, nsmul_eq_mul]; ring
    · rw [if_neg hm, if_neg (by omega)]; simp

end P

section L
variable {K : Type} [CommRing K]

/-- directional derivative of the linear function: `Σ dᵢ·cᵢ` over the argument slots -/
def dirDeriv : List K → List K → K
  | c :: cs, d :: ds => d * c + dirDeriv cs ds
  | _, _ => 0

theorem linAcc_shift (acc t : K) (cs xs ds : List K) (h : ds.length = xs.length) (hc : xs.length < cs.length) :
    linAcc acc cs (List.zipWith (fun x d => x + t * d) xs ds) = linAcc acc cs xs + t * dirDeriv cs ds := by
  induction xs generalizing acc cs ds with
  | nil =>
    cases ds with
    | nil => cases cs with
      | nil => simp at hc
      | cons c cs => simp [linAcc, dirDeriv]
    | cons d ds => simp at h
  | cons x xs ih =>
    cases ds with
    | nil => simp at h
    | cons d ds =>
      cases cs with
      | nil => simp at hc
      | cons c cs =>
        simp only [List.zipWith_cons_cons, linAcc, dirDeriv]
        rw [ih _ cs ds (by simpa using h) (by simpa using hc)]
        have : ∀ a b : K, linAcc a cs xs - linAcc b cs xs = a - b := by
          intro a b
          clear ih h hc
          induction xs generalizing a b cs with
          | nil => cases cs <;> simp [linAcc]
          | cons x xs ih2 => cases cs with
            | nil => simp [linAcc]
            | cons c cs => simp only [linAcc]; rw [ih2]; ring
        have e := this (acc + (x + t * d) * c) (acc + x * c)
        linear_combination e

/-! Sinusoid -/
theorem npow_eq (w : K) (n : Nat) : npow w n = w ^ n := by
  induction n with
  | zero => simp [npow]
  | succ n ih => rw [npow, ih, pow_succ]

/-- closed form of the coefficient pair for every order (the four explicit `case`s agree with the `default:` formula) -/
theorem sinusoidCoefs_general (n : Nat) (a w : K) :
    sinusoidCoefs n a w =
      if n % 2 = 1 then (0, (if (n / 2) % 2 = 1 then -1 else 1) * a * w ^ n)
      else ((if (n / 2) % 2 = 1 then -1 else 1) * a * w ^ n, 0) := by
  match n with
  | 0 => simp [sinusoidCoefs]
  | 1 => simp [sinusoidCoefs]
  | 2 => simp [sinusoidCoefs]; ring
  | 3 => simp [sinusoidCoefs]; ring
  | n + 4 => simp only [sinusoidCoefs, npow_eq]

end L
end C41
