import SimbodyProofs.C26_world

/-!
# C26 — property theorems: `Array_` and the pointer wrappers have value semantics

Model: `SimbodyModel/C26.lean` (slot machine transcribed from `Array.h`; `ClonePtr`,
`CloneOnWritePtr`, `ReferencePtr`, `ResetOnCopy`, `ReinitOnCopy`).

* CURRENT code (`stepFixed2`, `wstepCurrent` — what the driver executes):
  `fixed2_step_disciplined`, `run_current_disciplined`, `run_current_refines`, `wstep_current_ok`,
  `world_current_disciplined`, `world_current_refines` — no aliasing hypothesis at all
* ORIGINAL algorithm (`step`, value arguments modelled as references): `refines_list`, `slots_disciplined`,
  `run_disciplined`, `world_disciplined`, … under the hypothesis `refOK`; the hypothesis is necessary:
  `push_back_alias_breaks_discipline`, `insert_alias_breaks_refinement`, … (finding F3, fixed by 06f34988),
  `emplace_alias_broke_fix1_code` (F3b, fixed by f70ab3a8); `hist_fix1_step_disciplined` is historical
* `capacity_growth`, `view_write_exact`
* pointer wrappers: `cow_shares_until_write`, `cow_independent`, `cow_reset`, `clone_ptr_deep` (single copy +
  write steps); `reset_on_copy`, `reinit_on_copy`, `reference_ptr_shallow` are definitional unfoldings
-/
namespace C26

/-- the array is well formed: it represents some list -/
def WF (a : Arr) : Prop := ∃ vs, Rep a vs

theorem wf_abs {a : Arr} (h : WF a) : Rep a (abs a) := by
  obtain ⟨vs, hv⟩ := h
  rw [abs_of_rep hv]; exact hv

/-! ## one step -/

theorem step_ok (mx : Nat) (a : Arr) (L : Log) (vs : List Elt) (op : Op) (h : Rep a vs)
    (hl : legal mx a op = true) (hr : refOK a op = true) :
    StepOK a L (step mx a L op) (spec vs op) ∨ Unchanged a L (step mx a L op) := by
  have hs := h.size
  cases op with
  | pushBack r => exact pushBack_ok L r h hl hr
  | pushBackMove r =>
    cases r with
    | ext v =>
      show StepOK a L (pushBackMove mx a L (.ext v)) (vs ++ [v]) ∨ Unchanged a L (pushBackMove mx a L (.ext v))
      rw [pushBackMove_ext]
      exact pushBack_ok (mx := mx) L (.ext v) h rfl rfl
    | slot i =>
      left
      have hi : i < vs.length := by simpa [legal, hs] using hl
      have hroom : a.cap ≠ a.size := by simpa [refOK] using hr
      exact pushBackMove_slot_ok L i h hi hroom
  | emplaceBack r =>
    cases r with
    | ext v => exact pushBack_ok (mx := mx) L (.ext v) h rfl rfl
    | slot i =>
      have hi : i < vs.length := by simpa [legal, hs] using hl
      exact pushBack_ok (mx := mx) L (.slot i) h (by simpa [legal, hs] using hi) (by simpa [refOK] using hr)
  | pushBackDefault => exact pushBack_ok (mx := mx) L (.ext defaultVal) h rfl rfl
  | popBack =>
    left
    have : 0 < vs.length := by simpa [legal, hs] using hl
    exact popBack_ok L h this
  | insert p r =>
    cases r with
    | ext v =>
      have hp : p ≤ vs.length := by simpa [legal, hs] using hl
      exact insert_ok L (.ext v) h hp (by intro i hi; cases hi) hr
    | slot i =>
      have hp : p ≤ vs.length ∧ i < vs.length := by simpa [legal, hs] using hl
      exact insert_ok L (.slot i) h hp.1 (by intro k hk; cases hk; exact hp.2) hr
  | emplace p r =>
    cases r with
    | ext v =>
      have hp : p ≤ vs.length := by simpa [legal, hs] using hl
      exact insert_ok L (.ext v) h hp (by intro i hi; cases hi) rfl
    | slot i =>
      have hp : p ≤ vs.length ∧ i < vs.length := by simpa [legal, hs] using hl
      exact insert_ok L (.slot i) h hp.1 (by intro k hk; cases hk; exact hp.2) (by simpa [refOK] using hr)
  | insertN p n r =>
    cases r with
    | ext v =>
      have hp : p ≤ vs.length ∧ vs.length + n ≤ mx := by simpa [legal, hs] using hl
      exact insertN_ok L (.ext v) h hp.1 (by intro i hi; cases hi) hr
    | slot i =>
      have hp : p ≤ vs.length ∧ i < vs.length ∧ vs.length + n ≤ mx := by simpa [legal, hs] using hl
      exact insertN_ok L (.slot i) h hp.1 (by intro k hk; cases hk; exact hp.2.1) hr
  | insertRange p ws =>
    have hp : p ≤ vs.length ∧ vs.length + ws.length ≤ mx := by simpa [legal, hs] using hl
    exact insertRange_ok L ws h hp.1
  | erase f l =>
    left
    have hp : f ≤ l ∧ l ≤ vs.length := by simpa [legal, hs] using hl
    exact erase_ok L h hp.1 hp.2
  | eraseOne p =>
    left
    have hp : p < vs.length := by simpa [legal, hs] using hl
    show StepOK a L (eraseOne a L p) _
    rw [eraseOne_eq]
    exact erase_ok L h (by omega) (by omega)
  | eraseFast p =>
    left
    have hp : p < vs.length := by simpa [legal, hs] using hl
    exact eraseFast_ok L h hp
  | clear => left; exact (clear_ok L h).1
  | resize n => left; exact resize_ok L n h
  | resizeFill n r =>
    left
    cases r with
    | ext v => exact resizeFill_ok L n (.ext v) h (by intro i hi; cases hi) hr
    | slot i =>
      have hp : n ≤ mx ∧ i < vs.length := by simpa [legal, hs] using hl
      exact resizeFill_ok L n (.slot i) h (by intro k hk; cases hk; exact hp.2) hr
  | reserve n => left; exact (reserve_ok L n h).1
  | shrinkToFit => left; exact shrinkToFit_ok L h
  | assignN n v =>
    left
    show StepOK a L (assignN mx a L n v) _
    rw [assignN_eq]
    exact assignRange_ok L _ h
  | assignRange ws => left; exact assignRange_ok L ws h
  | fill r =>
    left
    cases r with
    | ext v => exact fill_ok L (.ext v) h (by intro i hi; cases hi)
    | slot i =>
      have hp : i < vs.length := by simpa [legal, hs] using hl
      exact fill_ok L (.slot i) h (by intro k hk; cases hk; exact hp)
  | deallocate => left; exact deallocate_ok L h
  | setElt i v =>
    left
    have hp : i < vs.length := by simpa [legal, hs] using hl
    exact setElt_ok L i v h hp
  | viewFill off len off2 len2 r =>
    left
    cases r with
    | ext v =>
      have hp : off + len ≤ vs.length ∧ off2 + len2 ≤ len := by simpa [legal, hs] using hl
      exact viewFill_ok L off off2 len2 (.ext v) h (by intro i hi; cases hi) (by omega)
    | slot i =>
      have hp : off + len ≤ vs.length ∧ off2 + len2 ≤ len ∧ i < vs.length := by simpa [legal, hs] using hl
      exact viewFill_ok L off off2 len2 (.slot i) h (by intro k hk; cases hk; exact hp.2.2) (by omega)
  | viewAssign off ws =>
    left
    have hp : off + ws.length ≤ vs.length := by simpa [legal, hs] using hl
    exact viewAssign_ok L off ws h hp

/-- **refines_list.**  Under the abstraction `abs` (the values of the live prefix) every operation
of `Array_` is the corresponding `std::vector` operation `spec` on lists — unless it throws the
documented max_size exception, in which case nothing changed. -/
theorem refines_list (mx : Nat) (a : Arr) (L : Log) (op : Op) (hwf : WF a)
    (hl : legal mx a op = true) (hr : refOK a op = true) :
    ((step mx a L op).thrown = false → abs (step mx a L op).arr = spec (abs a) op) ∧
    ((step mx a L op).thrown = true → (step mx a L op).arr = a ∧ (step mx a L op).log = L) := by
  rcases step_ok mx a L (abs a) op (wf_abs hwf) hl hr with h | h
  · exact ⟨fun _ => abs_of_rep h.rep, fun ht => (by rw [h.nothrow] at ht; cases ht)⟩
  · exact ⟨fun ht => (by rw [h.2.2] at ht; cases ht), fun _ => ⟨h.1, h.2.1⟩⟩

/-- **slots_disciplined.**  No operation constructs on a live slot or destructs / reads / assigns
a dead one (`viol` unchanged); the result is well formed (exactly the first `size` slots live);
and #constructions − #destructions = growth of `size`: each element is constructed exactly once
and destroyed exactly once.  Hypothesis `refOK`: the value argument does not alias an element that
the operation reallocates or shifts. -/
theorem slots_disciplined (mx : Nat) (a : Arr) (L : Log) (op : Op) (hwf : WF a)
    (hl : legal mx a op = true) (hr : refOK a op = true) :
    (step mx a L op).log.viol = L.viol ∧ WF (step mx a L op).arr ∧
    (step mx a L op).log.ctor + a.size + L.dtor = (step mx a L op).log.dtor + (step mx a L op).arr.size + L.ctor := by
  rcases step_ok mx a L (abs a) op (wf_abs hwf) hl hr with h | h
  · exact ⟨h.viol, ⟨_, h.rep⟩, h.bal⟩
  · rw [h.1, h.2.1]; exact ⟨rfl, hwf, by omega⟩

/-! ## operation sequences on one array -/

/-- every operation of the sequence is legal and has an undisturbed value argument in the state it meets -/
def okRun (mx : Nat) (a : Arr) (L : Log) : List Op → Prop
  | [] => True
  | op :: ops => legal mx a op = true ∧ refOK a op = true ∧ okRun mx (step mx a L op).arr (step mx a L op).log ops

/-- **run_disciplined.** Over an arbitrary operation sequence starting from a well-formed array:
no violation ever, the array stays well formed, live objects = size. -/
theorem run_disciplined (mx : Nat) : ∀ (ops : List Op) (a : Arr) (L : Log), WF a → okRun mx a L ops →
    (run mx a L ops).2.viol = L.viol ∧ WF (run mx a L ops).1 ∧
    (run mx a L ops).2.ctor + a.size + L.dtor = (run mx a L ops).2.dtor + (run mx a L ops).1.size + L.ctor := by
  intro ops
  induction ops with
  | nil => intro a L hwf _; exact ⟨rfl, hwf, by simp [run]; omega⟩
  | cons op ops ih =>
    intro a L hwf hok
    obtain ⟨hl, hr, hrest⟩ := hok
    obtain ⟨s1, s2, s3⟩ := slots_disciplined mx a L op hwf hl hr
    obtain ⟨i1, i2, i3⟩ := ih (step mx a L op).arr (step mx a L op).log s2 hrest
    show (run mx (step mx a L op).arr (step mx a L op).log ops).2.viol = _ ∧ WF (run mx (step mx a L op).arr (step mx a L op).log ops).1 ∧ _
    refine ⟨by rw [i1, s1], i2, ?_⟩
    show (run mx (step mx a L op).arr (step mx a L op).log ops).2.ctor + a.size + L.dtor
      = (run mx (step mx a L op).arr (step mx a L op).log ops).2.dtor + (run mx (step mx a L op).arr (step mx a L op).log ops).1.size + L.ctor
    omega

/-- from the empty array with a fresh log: zero violations, and exactly `size` objects are alive -/
theorem run_from_empty (mx : Nat) (ops : List Op) (hok : okRun mx {} {} ops) :
    (run mx {} {} ops).2.viol = 0 ∧ (run mx {} {} ops).2.ctor = (run mx {} {} ops).2.dtor + (run mx {} {} ops).1.size := by
  obtain ⟨h1, _, h3⟩ := run_disciplined mx ops {} {} ⟨[], rep_empty⟩ hok
  exact ⟨h1, by simpa using h3⟩

/-- the sequence refines the fold of the list operations (a throwing operation leaves the list as it was) -/
def specRun (mx : Nat) (a : Arr) (L : Log) (vs : List Elt) : List Op → List Elt
  | [] => vs
  | op :: ops =>
    specRun mx (step mx a L op).arr (step mx a L op).log (if (step mx a L op).thrown then vs else spec vs op) ops

theorem run_refines (mx : Nat) : ∀ (ops : List Op) (a : Arr) (L : Log) (vs : List Elt), Rep a vs → okRun mx a L ops →
    abs (run mx a L ops).1 = specRun mx a L vs ops := by
  intro ops
  induction ops with
  | nil => intro a L vs h _; exact abs_of_rep h
  | cons op ops ih =>
    intro a L vs h hok
    obtain ⟨hl, hr, hrest⟩ := hok
    show abs (run mx (step mx a L op).arr (step mx a L op).log ops).1 = specRun mx (step mx a L op).arr (step mx a L op).log _ ops
    rcases step_ok mx a L vs op h hl hr with hs | hs
    · rw [hs.nothrow]; exact ih _ _ _ hs.rep hrest
    · rw [hs.2.2]; exact ih _ _ _ (by rw [hs.1]; exact h) hrest

/-- **view_write_exact.** Filling through a sub-range view of a sub-range view (view composition =
adding the offsets) changes exactly the viewed elements, every other element keeps its value. -/
theorem view_write_exact (vs : List Elt) (off len off2 len2 : Nat) (r : Ref)
    (h1 : off + len ≤ vs.length) (h2 : off2 + len2 ≤ len) (j : Nat) :
    (spec vs (.viewFill off len off2 len2 r))[j]? =
      if off + off2 ≤ j ∧ j < off + off2 + len2 then some (r.value vs) else vs[j]? := by
  show (splice vs (off + off2) (off + off2 + len2) (List.replicate len2 (r.value vs)))[j]? = _
  rw [getElem?_splice (by omega), List.length_replicate, List.getElem?_replicate]
  by_cases ha : j < off + off2
  · rw [if_pos ha, if_neg (by omega)]
  · rw [if_neg ha]
    by_cases hb : j < off + off2 + len2
    · rw [if_pos hb, if_pos (by omega), if_pos (by omega)]
    · rw [if_neg hb, if_neg (by omega)]; congr 1; omega

/-! ## several arrays -/

/-- outcome of one world operation: disciplined, refines `wspec` (or threw and changed nothing), balanced -/
structure WStepOK (mx : Nat) (w : World) (vss : List (List Elt)) (op : WOp) : Prop where
  viol : (wstep mx w op).log.viol = w.log.viol
  rep : ∃ vss', WRep (wstep mx w op) vss' ∧ ((wstep mx w op).thrown = false → vss' = wspec vss op) ∧
    ((wstep mx w op).thrown = true → vss' = vss)
  bal : (wstep mx w op).log.ctor + total w + w.log.dtor = (wstep mx w op).log.dtor + total (wstep mx w op) + w.log.ctor

theorem WStepOK.of_eq {mx : Nat} {w : World} {vss : List (List Elt)} {op : WOp} (w' : World)
    (e : wstep mx w op = w') (hv : w'.log.viol = w.log.viol)
    (hrep : ∃ vss', WRep w' vss' ∧ (w'.thrown = false → vss' = wspec vss op) ∧ (w'.thrown = true → vss' = vss))
    (hb : w'.log.ctor + total w + w.log.dtor = w'.log.dtor + total w' + w.log.ctor) : WStepOK mx w vss op := by
  subst e; exact ⟨hv, hrep, hb⟩

theorem wstep_ok (mx : Nat) (w : World) (vss : List (List Elt)) (op : WOp) (h : WRep w vss)
    (hl : wlegal mx w op = true) (hr : wrefOK w op = true) : WStepOK mx w vss op := by
  obtain ⟨arrs, L, t⟩ := w
  have hlen : arrs.length = vss.length := h.1
  cases op with
  | on k op =>
    have hk : k < arrs.length ∧ legal mx (arrs.getD k {}) op = true := by simpa [wlegal, World.get] using hl
    have hr' : refOK (arrs.getD k {}) op = true := hr
    have hrep : Rep (arrs.getD k {}) (vss.getD k []) := h.2 k
    have hsum := sum_set arrs k (step mx (arrs.getD k {}) L op).arr hk.1
    rcases step_ok mx (arrs.getD k {}) L (vss.getD k []) op hrep hk.2 hr' with hs | hs
    · refine ⟨hs.viol, ⟨vss.set k (spec (vss.getD k []) op), wrep_set k _ _ h hs.rep, fun _ => rfl, ?_⟩, ?_⟩
      · intro ht
        have : (step mx (arrs.getD k {}) L op).thrown = true := ht
        rw [hs.nothrow] at this; cases this
      · have := hs.bal
        show (step mx (arrs.getD k {}) L op).log.ctor + (arrs.map Arr.size).sum + L.dtor
          = (step mx (arrs.getD k {}) L op).log.dtor + ((arrs.set k (step mx (arrs.getD k {}) L op).arr).map Arr.size).sum + L.ctor
        omega
    · obtain ⟨u1, u2, u3⟩ := hs
      refine ⟨by show (step mx (arrs.getD k {}) L op).log.viol = _; rw [u2], ⟨vss, ?_, ?_, fun _ => rfl⟩, ?_⟩
      · have := wrep_set (L' := (step mx (arrs.getD k {}) L op).log) (t' := (step mx (arrs.getD k {}) L op).thrown)
          k (step mx (arrs.getD k {}) L op).arr (vss.getD k []) h (by rw [u1]; exact hrep)
        rw [set_getD_self] at this; exact this
      · intro ht
        have : (step mx (arrs.getD k {}) L op).thrown = false := ht
        rw [u3] at this; cases this
      · show (step mx (arrs.getD k {}) L op).log.ctor + (arrs.map Arr.size).sum + L.dtor
          = (step mx (arrs.getD k {}) L op).log.dtor + ((arrs.set k (step mx (arrs.getD k {}) L op).arr).map Arr.size).sum + L.ctor
        rw [u1] at hsum ⊢; rw [u2]; omega
  | swap i j =>
    have hij : i < arrs.length ∧ j < arrs.length := by simpa [wlegal] using hl
    have s1 := sum_set arrs i (arrs.getD j {}) hij.1
    have s2 := sum_set (arrs.set i (arrs.getD j {})) j (arrs.getD i {}) (by simp [hij.2])
    rw [getD_set] at s2
    refine ⟨rfl, ⟨_, wrep_set (L' := L) (t' := false) j _ _ (wrep_set (L' := L) (t' := t) i _ _ h (h.2 j)) (h.2 i), fun _ => rfl, fun ht => by cases ht⟩, ?_⟩
    show L.ctor + (arrs.map Arr.size).sum + L.dtor = L.dtor + (((arrs.set i (arrs.getD j {})).set j (arrs.getD i {})).map Arr.size).sum + L.ctor
    by_cases e : j = i ∧ i < arrs.length
    · rw [if_pos e] at s2; obtain ⟨e1, _⟩ := e; subst e1; omega
    · rw [if_neg e] at s2; omega
  | moveAssign i j =>
    have hij : i < arrs.length ∧ j < arrs.length := by simpa [wlegal] using hl
    have s1 := sum_set arrs i (arrs.getD j {}) hij.1
    have s2 := sum_set (arrs.set i (arrs.getD j {})) j (arrs.getD i {}) (by simp [hij.2])
    rw [getD_set] at s2
    refine ⟨rfl, ⟨_, wrep_set (L' := L) (t' := false) j _ _ (wrep_set (L' := L) (t' := t) i _ _ h (h.2 j)) (h.2 i), fun _ => rfl, fun ht => by cases ht⟩, ?_⟩
    show L.ctor + (arrs.map Arr.size).sum + L.dtor = L.dtor + (((arrs.set i (arrs.getD j {})).set j (arrs.getD i {})).map Arr.size).sum + L.ctor
    by_cases e : j = i ∧ i < arrs.length
    · rw [if_pos e] at s2; obtain ⟨e1, _⟩ := e; subst e1; omega
    · rw [if_neg e] at s2; omega
  | copyAssign i j =>
    have hij : i < arrs.length ∧ j < arrs.length := by simpa [wlegal] using hl
    by_cases e : i = j
    · subst e
      refine WStepOK.of_eq (mx := mx) (w := ⟨arrs, L, t⟩) (vss := vss) (op := .copyAssign i i) ⟨arrs, L, false⟩ (by simp only [wstep, ↓reduceIte]) rfl ?_ ?_
      · exact ⟨vss, ⟨hlen, h.2⟩, fun _ => (set_getD_self vss i []).symm, fun ht => by cases ht⟩
      · show L.ctor + (arrs.map Arr.size).sum + L.dtor = L.dtor + (arrs.map Arr.size).sum + L.ctor; omega
    · have ha : StepOK (arrs.getD i {}) L (assignRange mx (arrs.getD i {}) L (vss.getD j [])) (vss.getD j []) :=
        assignRange_ok L _ (h.2 i)
      have hsum := sum_set arrs i (assignRange mx (arrs.getD i {}) L (vss.getD j [])).arr hij.1
      have hj : abs (arrs.getD j {}) = vss.getD j [] := abs_of_rep (h.2 j)
      refine WStepOK.of_eq (mx := mx) (w := ⟨arrs, L, t⟩) (vss := vss) (op := .copyAssign i j) ⟨arrs.set i (assignRange mx (arrs.getD i {}) L (vss.getD j [])).arr,
        (assignRange mx (arrs.getD i {}) L (vss.getD j [])).log, false⟩
        (by simp only [wstep, World.get, e, ↓reduceIte, hj]) ha.viol ?_ ?_
      · exact ⟨_, wrep_set i _ _ h ha.rep, fun _ => rfl, fun ht => by cases ht⟩
      · have := ha.bal
        show (assignRange mx (arrs.getD i {}) L (vss.getD j [])).log.ctor + (arrs.map Arr.size).sum + L.dtor
          = (assignRange mx (arrs.getD i {}) L (vss.getD j [])).log.dtor + ((arrs.set i (assignRange mx (arrs.getD i {}) L (vss.getD j [])).arr).map Arr.size).sum + L.ctor
        omega
  | copyCtor i j =>
    have hij : i < arrs.length ∧ j < arrs.length := by simpa [wlegal] using hl
    by_cases e : i = j
    · subst e
      refine WStepOK.of_eq (mx := mx) (w := ⟨arrs, L, t⟩) (vss := vss) (op := .copyCtor i i) ⟨arrs, L, false⟩ (by simp only [wstep, ↓reduceIte]) rfl ?_ ?_
      · exact ⟨vss, ⟨hlen, h.2⟩, fun _ => (set_getD_self vss i []).symm, fun ht => by cases ht⟩
      · show L.ctor + (arrs.map Arr.size).sum + L.dtor = L.dtor + (arrs.map Arr.size).sum + L.ctor; omega
    · have hd : StepOK (arrs.getD i {}) L (deallocate (arrs.getD i {}) L) [] := deallocate_ok L (h.2 i)
      obtain ⟨c1, c2⟩ := constructFrom_ok (deallocate (arrs.getD i {}) L).log (vss.getD j [])
      have hsum := sum_set arrs i (constructFrom (deallocate (arrs.getD i {}) L).log (vss.getD j [])).arr hij.1
      have hj : abs (arrs.getD j {}) = vss.getD j [] := abs_of_rep (h.2 j)
      refine WStepOK.of_eq (mx := mx) (w := ⟨arrs, L, t⟩) (vss := vss) (op := .copyCtor i j) ⟨arrs.set i (constructFrom (deallocate (arrs.getD i {}) L).log (vss.getD j [])).arr,
        (constructFrom (deallocate (arrs.getD i {}) L).log (vss.getD j [])).log, false⟩
        (by simp only [wstep, World.get, e, ↓reduceIte, hj]) (by show (constructFrom _ _).log.viol = _; rw [c2]; exact hd.viol) ?_ ?_
      · exact ⟨_, wrep_set i _ _ h c1, fun _ => rfl, fun ht => by cases ht⟩
      · have hb := hd.bal
        have hz : (deallocate (arrs.getD i {}) L).arr.size = 0 := hd.rep.size
        have hsz := c1.size
        show (constructFrom (deallocate (arrs.getD i {}) L).log (vss.getD j [])).log.ctor + (arrs.map Arr.size).sum + L.dtor
          = (constructFrom (deallocate (arrs.getD i {}) L).log (vss.getD j [])).log.dtor + ((arrs.set i (constructFrom (deallocate (arrs.getD i {}) L).log (vss.getD j [])).arr).map Arr.size).sum + L.ctor
        rw [c2]; simp only [Log.adv_ctor, Log.adv_dtor]; omega
  | moveCtor i j =>
    have hij : i < arrs.length ∧ j < arrs.length := by simpa [wlegal] using hl
    by_cases e : i = j
    · subst e
      refine WStepOK.of_eq (mx := mx) (w := ⟨arrs, L, t⟩) (vss := vss) (op := .moveCtor i i) ⟨arrs, L, false⟩ (by simp only [wstep, ↓reduceIte]) rfl ?_ ?_
      · exact ⟨vss, ⟨hlen, h.2⟩, fun _ => by simp [wspec], fun ht => by cases ht⟩
      · show L.ctor + (arrs.map Arr.size).sum + L.dtor = L.dtor + (arrs.map Arr.size).sum + L.ctor; omega
    · have hd : StepOK (arrs.getD i {}) L (deallocate (arrs.getD i {}) L) [] := deallocate_ok L (h.2 i)
      have hz : (deallocate (arrs.getD i {}) L).arr.size = 0 := hd.rep.size
      have s1 := sum_set arrs i (arrs.getD j {}) hij.1
      have s2 := sum_set (arrs.set i (arrs.getD j {})) j (deallocate (arrs.getD i {}) L).arr (by simp [hij.2])
      rw [getD_set, if_neg (by intro hh; exact e hh.1.symm)] at s2
      refine WStepOK.of_eq (mx := mx) (w := ⟨arrs, L, t⟩) (vss := vss) (op := .moveCtor i j) ⟨(arrs.set i (arrs.getD j {})).set j (deallocate (arrs.getD i {}) L).arr,
        (deallocate (arrs.getD i {}) L).log, false⟩ (by simp only [wstep, World.get, e, ↓reduceIte]) hd.viol ?_ ?_
      · exact ⟨_, wrep_set (t' := false) j _ _ (wrep_set (L' := L) (t' := t) i _ _ h (h.2 j)) hd.rep, fun _ => by simp [wspec, e], fun ht => by cases ht⟩
      · have hb := hd.bal
        show (deallocate (arrs.getD i {}) L).log.ctor + (arrs.map Arr.size).sum + L.dtor
          = (deallocate (arrs.getD i {}) L).log.dtor + (((arrs.set i (arrs.getD j {})).set j (deallocate (arrs.getD i {}) L).arr).map Arr.size).sum + L.ctor
        omega
  | viewCopy i off j off2 len =>
    have hij : i < arrs.length ∧ j < arrs.length ∧ i ≠ j ∧ off + len ≤ (arrs.getD i {}).size ∧ off2 + len ≤ (arrs.getD j {}).size := by
      simpa [wlegal, World.get] using hl
    have hsi : (arrs.getD i {}).size = (vss.getD i []).length := (h.2 i).size
    have hsj : (arrs.getD j {}).size = (vss.getD j []).length := (h.2 j).size
    have hlen' : (((vss.getD j []).drop off2).take len).length = len := by
      simp only [List.length_take, List.length_drop]; omega
    have hv : StepOK (arrs.getD i {}) L (viewAssign (arrs.getD i {}) L off (((vss.getD j []).drop off2).take len))
        (splice (vss.getD i []) off (off + len) (((vss.getD j []).drop off2).take len)) := by
      have := viewAssign_ok L off (((vss.getD j []).drop off2).take len) (h.2 i) (by rw [hlen']; omega)
      rw [hlen'] at this; exact this
    have hsum := sum_set arrs i (viewAssign (arrs.getD i {}) L off (((vss.getD j []).drop off2).take len)).arr hij.1
    have hj : abs (arrs.getD j {}) = vss.getD j [] := abs_of_rep (h.2 j)
    refine WStepOK.of_eq (mx := mx) (w := ⟨arrs, L, t⟩) (vss := vss) (op := .viewCopy i off j off2 len) ⟨arrs.set i (viewAssign (arrs.getD i {}) L off (((vss.getD j []).drop off2).take len)).arr,
      (viewAssign (arrs.getD i {}) L off (((vss.getD j []).drop off2).take len)).log, false⟩
      (by simp only [wstep, World.get, hj]) hv.viol ?_ ?_
    · exact ⟨_, wrep_set i _ _ h hv.rep, fun _ => rfl, fun ht => by cases ht⟩
    · have := hv.bal
      show (viewAssign (arrs.getD i {}) L off (((vss.getD j []).drop off2).take len)).log.ctor + (arrs.map Arr.size).sum + L.dtor
        = (viewAssign (arrs.getD i {}) L off (((vss.getD j []).drop off2).take len)).log.dtor + ((arrs.set i (viewAssign (arrs.getD i {}) L off (((vss.getD j []).drop off2).take len)).arr).map Arr.size).sum + L.ctor
      omega

/-- legality / undisturbed references along a world run -/
def okWRun (mx : Nat) (w : World) : List WOp → Prop
  | [] => True
  | op :: ops => wlegal mx w op = true ∧ wrefOK w op = true ∧ okWRun mx (wstep mx w op) ops

/-- **world_disciplined.**  For every sequence of operations over several arrays — including swap,
copy/move assignment, copy/move construction and view-to-view assignment — no lifetime violation
occurs, every array stays well formed, and the number of live elements equals the sum of the sizes
(each element constructed and destroyed exactly once). -/
theorem world_disciplined (mx : Nat) : ∀ (ops : List WOp) (w : World) (vss : List (List Elt)),
    WRep w vss → okWRun mx w ops →
    (wrun mx w ops).log.viol = w.log.viol ∧ (∃ vss', WRep (wrun mx w ops) vss') ∧
    (wrun mx w ops).log.ctor + total w + w.log.dtor = (wrun mx w ops).log.dtor + total (wrun mx w ops) + w.log.ctor := by
  intro ops
  induction ops with
  | nil => intro w vss h _; exact ⟨rfl, ⟨vss, h⟩, by simp [wrun]; omega⟩
  | cons op ops ih =>
    intro w vss h hok
    obtain ⟨hl, hr, hrest⟩ := hok
    obtain ⟨s1, ⟨vss', s2, _, _⟩, s3⟩ := wstep_ok mx w vss op h hl hr
    obtain ⟨i1, i2, i3⟩ := ih (wstep mx w op) vss' s2 hrest
    refine ⟨by show (wrun mx (wstep mx w op) ops).log.viol = _; rw [i1, s1], i2, ?_⟩
    show (wrun mx (wstep mx w op) ops).log.ctor + total w + w.log.dtor
      = (wrun mx (wstep mx w op) ops).log.dtor + total (wrun mx (wstep mx w op) ops) + w.log.ctor
    omega

/-- **world_refines.** each world operation is the corresponding operation on a family of `std::vector`s -/
theorem world_refines (mx : Nat) (w : World) (vss : List (List Elt)) (op : WOp) (h : WRep w vss)
    (hl : wlegal mx w op = true) (hr : wrefOK w op = true) (hnt : (wstep mx w op).thrown = false) (k : Nat) :
    abs ((wstep mx w op).get k) = (wspec vss op).getD k [] := by
  obtain ⟨vss', h1, h2, _⟩ := (wstep_ok mx w vss op h hl hr).rep
  rw [← h2 hnt]; exact abs_of_rep (h1.2 k)

/-! ## capacity -/

/-- **capacity_growth** (growth formula): the new capacity holds the request, is at least the
minimum allocation, never exceeds max_size, and at least doubles unless max_size is reached. -/
theorem capacity_growth {mx cap n nc : Nat} (h : calcNewCapacityForGrowthBy mx cap n = some nc) :
    cap + n ≤ nc ∧ nc ≤ mx ∧ minAlloc mx ≤ nc ∧ (2 * cap ≤ nc ∨ nc = mx) := by
  unfold calcNewCapacityForGrowthBy at h
  by_cases h1 : cap + n ≤ mx
  · rw [if_pos h1] at h
    dsimp only at h
    simp only [Option.some.injEq] at h
    unfold minAlloc at h ⊢
    by_cases h2 : cap ≤ mx / 2
    · rw [if_pos h2] at h; omega
    · rw [if_neg h2] at h; omega
  · rw [if_neg h1] at h; simp at h

/-- growth fails exactly when `capacity + n` would exceed max_size -/
theorem capacity_growth_fails_iff (mx cap n : Nat) :
    calcNewCapacityForGrowthBy mx cap n = none ↔ mx < cap + n := by
  unfold calcNewCapacityForGrowthBy
  by_cases h1 : cap + n ≤ mx
  · rw [if_pos h1]; simp; omega
  · rw [if_neg h1]; simp; omega

/-- after every legal operation `size ≤ capacity` (part of well-formedness, stated on its own) -/
theorem size_le_capacity (mx : Nat) (a : Arr) (L : Log) (op : Op) (hwf : WF a)
    (hl : legal mx a op = true) (hr : refOK a op = true) :
    (step mx a L op).arr.size ≤ (step mx a L op).arr.cap := by
  obtain ⟨_, ⟨vs, hv⟩, _⟩ := slots_disciplined mx a L op hwf hl hr
  rw [hv.size]; exact hv.le

/-- `push_back` at full capacity: the capacity at least doubles or becomes max_size; otherwise unchanged -/
theorem push_back_capacity (mx : Nat) (a : Arr) (L : Log) (v : Elt) (hwf : WF a)
    (hnt : (pushBack mx a L (.ext v)).thrown = false) :
    (a.cap ≠ a.size → (pushBack mx a L (.ext v)).arr.cap = a.cap) ∧
    (a.cap = a.size → (2 * a.cap ≤ (pushBack mx a L (.ext v)).arr.cap ∨ (pushBack mx a L (.ext v)).arr.cap = mx) ∧
        a.cap + 1 ≤ (pushBack mx a L (.ext v)).arr.cap) := by
  obtain ⟨vs, h⟩ := hwf
  constructor
  · intro hne
    unfold pushBack
    rw [if_neg hne]
    simp [readRef, Ref.inPlace, construct, Arr.cap]
  · intro hfull
    cases hc : calcNewCapacityForGrowthBy mx a.cap 1 with
    | none =>
      have : (pushBack mx a L (.ext v)).thrown = true := by
        unfold pushBack growAtEnd; rw [if_pos hfull, hc]
      rw [this] at hnt; cases hnt
    | some nc =>
      obtain ⟨c1, c2, c3, c4⟩ := capacity_growth hc
      obtain ⟨m1, m2, m3⟩ := moveAll_spec L nc h (by have := h.le; unfold Arr.cap at c1; omega)
      have hcap : (pushBack mx a L (.ext v)).arr.cap = nc := by
        unfold pushBack growAtEnd
        rw [if_pos hfull, hc]
        simp [Arr.cap, construct, readRef, Ref.afterRealloc, m2]
      rw [hcap]; exact ⟨c4, c1⟩

/-! ## the hypothesis is necessary (finding F3) -/

/-- a full array `[10,20,30,40]` (size = capacity = 4) -/
def full4 : Arr := ⟨[some 10, some 20, some 30, some 40], 4⟩
/-- `[10,20,30,40]` with room for more (capacity 8) -/
def roomy4 : Arr := ⟨[some 10, some 20, some 30, some 40, none, none, none, none], 4⟩

theorem full4_wf : Rep full4 [10, 20, 30, 40] := ⟨rfl, by decide, by
  intro j
  match j with
  | 0 | 1 | 2 | 3 => rfl
  | j + 4 => have h1 : ¬ (j + 4 < 4) := by omega
             simp [full4, cellAt, h1]⟩

theorem roomy4_wf : Rep roomy4 [10, 20, 30, 40] := ⟨rfl, by decide, by
  intro j
  match j with
  | 0 | 1 | 2 | 3 | 4 | 5 | 6 | 7 => rfl
  | j + 8 => have h1 : ¬ (j + 8 < 4) := by omega
             have h2 : ¬ (j + 8 < 8) := by omega
             simp [roomy4, cellAt, h1, h2]⟩

/-- `a.push_back(a[0])` at full capacity reads an element of the freed block: a discipline violation,
and the array does not end up as `std::vector` would (`[10,20,30,40,10]`). -/
theorem push_back_alias_breaks_discipline :
    (step 1000 full4 {} (.pushBack (.slot 0))).log.viol = 1 ∧
    abs (step 1000 full4 {} (.pushBack (.slot 0))).arr ≠ spec [10, 20, 30, 40] (.pushBack (.slot 0)) := by
  decide

/-- `a.insert(a.begin(), a[2])` with spare capacity: no reallocation, but the shift has moved the
element the reference points to — the wrong value (`20`, not `30`) is inserted without any violation. -/
theorem insert_alias_breaks_refinement :
    (step 1000 roomy4 {} (.insert 0 (.slot 2))).log.viol = 0 ∧
    abs (step 1000 roomy4 {} (.insert 0 (.slot 2))).arr = [20, 10, 20, 30, 40] ∧
    spec [10, 20, 30, 40] (.insert 0 (.slot 2)) = [30, 10, 20, 30, 40] := by
  decide

/-- `a.insert(a.begin()+1, a[1])` with spare capacity copies from the moved-from, destructed slot -/
theorem insert_alias_reads_dead :
    (step 1000 roomy4 {} (.insert 1 (.slot 1))).log.viol = 1 := by
  decide

/-- `a.insert(p, n, a[i])` and `a.resize(n, a[i])` under reallocation read freed elements, `n` times -/
theorem insertN_resize_alias_break_discipline :
    (step 1000 full4 {} (.insertN 1 2 (.slot 3))).log.viol = 2 ∧
    (step 1000 full4 {} (.resizeFill 6 (.slot 1))).log.viol = 2 := by
  decide

/-! ### the proposed repair needs no aliasing hypothesis -/

theorem refOK_of_copySlot_none (a : Arr) (op : Op) (h : copySlot a op = none) (hu : unguardedOK a op = true) :
    refOK a op = true := by
  cases op with
  | pushBackMove r => exact hu
  | emplaceBack r => exact hu
  | emplace p r => exact hu
  | pushBack r => cases r with
    | ext v => rfl
    | slot i =>
      by_cases hc : a.cap = a.size
      · simp [copySlot, hc] at h
      · simp [refOK, hc]
  | insert p r => cases r with
    | ext v => rfl
    | slot i => simp [copySlot] at h
  | insertN p n r => cases r with
    | ext v => rfl
    | slot i =>
      by_cases hn : n = 0
      · simp [refOK, hn]
      · simp [copySlot, hn] at h
  | resizeFill n r => cases r with
    | ext v => rfl
    | slot i =>
      by_cases hc : n > a.cap
      · simp [copySlot, hc] at h
      · simp [refOK]; omega
  | _ => rfl

/-- **hist_fix1_step_disciplined** (historical: the code between the two fix commits).  With the repair
of commit 06f34988 alone (`stepFixed`: `push_back(const T&)`,
`insert(p,v)`, `insert(p,n,v)`, `resize(n,v)` take a private copy of an element argument before
reallocating/shifting) these four operations need no aliasing hypothesis any more.  The three
operations the commit did NOT guard — `push_back(T&&)`, `emplace_back`, `emplace` — still need it
(`unguardedOK`; see `emplace_alias_broke_fix1_code`); commit f70ab3a8 closed that gap, see
`fixed2_step_disciplined` for the code as it is now. -/
theorem hist_fix1_step_disciplined (mx : Nat) (a : Arr) (L : Log) (vs : List Elt) (op : Op) (h : Rep a vs)
    (hl : legal mx a op = true) (hu : unguardedOK a op = true) :
    (stepFixed mx a L op).log.viol = L.viol ∧
    ((stepFixed mx a L op).thrown = false → Rep (stepFixed mx a L op).arr (spec vs op)) ∧
    ((stepFixed mx a L op).thrown = true → (stepFixed mx a L op).arr = a) ∧
    (stepFixed mx a L op).log.ctor + a.size + L.dtor
      = (stepFixed mx a L op).log.dtor + (stepFixed mx a L op).arr.size + L.ctor := by
  have hs := h.size
  cases hcs : copySlot a op with
  | none =>
    have e : stepFixed mx a L op = step mx a L op := by unfold stepFixed; rw [hcs]
    rw [e]
    rcases step_ok mx a L vs op h hl (refOK_of_copySlot_none a op hcs hu) with hk | hk
    · exact ⟨hk.viol, fun _ => hk.rep, fun ht => (by rw [hk.nothrow] at ht; cases ht), hk.bal⟩
    · rw [hk.1, hk.2.1]; exact ⟨rfl, fun ht => (by rw [hk.2.2] at ht; cases ht), fun _ => rfl, by omega⟩
  | some i =>
    -- the four operations with an element argument
    have key : ∀ (op' : Op), op.withValue vs[i]! = op' → legal mx a op' = true → refOK a op' = true →
        spec vs op' = spec vs op → i < vs.length →
        (stepFixed mx a L op).log.viol = L.viol ∧
        ((stepFixed mx a L op).thrown = false → Rep (stepFixed mx a L op).arr (spec vs op)) ∧
        ((stepFixed mx a L op).thrown = true → (stepFixed mx a L op).arr = a) ∧
        (stepFixed mx a L op).log.ctor + a.size + L.dtor
          = (stepFixed mx a L op).log.dtor + (stepFixed mx a L op).arr.size + L.ctor := by
      intro op' hop hl' hr' hspec hi
      have hv : vs[i]! = vs[i] := by simp [hi]
      have e : stepFixed mx a L op =
          { step mx a { L with ctor := L.ctor + 1 } op' with
            log := { (step mx a { L with ctor := L.ctor + 1 } op').log with
              dtor := (step mx a { L with ctor := L.ctor + 1 } op').log.dtor + 1 } } := by
        unfold stepFixed; rw [hcs]; simp only []
        rw [read_live L (h.live hi), ← hv, hop]
      rw [e, ← hspec]
      rcases step_ok mx a { L with ctor := L.ctor + 1 } vs op' h hl' hr' with hk | hk
      · exact ⟨hk.viol, fun _ => hk.rep, fun ht => (by have := hk.nothrow; simp only [] at ht; rw [this] at ht; cases ht),
          by have := hk.bal; simp only [] at this ⊢; omega⟩
      · refine ⟨by simp only []; rw [hk.2.1], fun ht => (by have := hk.2.2; simp only [] at ht; rw [this] at ht; cases ht),
          fun _ => hk.1, ?_⟩
        simp only []; rw [hk.1, hk.2.1]; simp only []; omega
    cases op with
    | pushBack r => cases r with
      | ext v => simp [copySlot] at hcs
      | slot j =>
        have hj : j < vs.length := by simpa [legal, hs] using hl
        have : i = j := by
          by_cases hc : a.cap = a.size <;> simp [copySlot, hc] at hcs; exact hcs.symm
        subst this
        exact key (.pushBack (.ext vs[i]!)) rfl rfl rfl (by simp [spec, Ref.value, List.getD_eq_getElem?_getD, hj]) hj
    | insert p r => cases r with
      | ext v => simp [copySlot] at hcs
      | slot j =>
        have hj : p ≤ vs.length ∧ j < vs.length := by simpa [legal, hs] using hl
        have : i = j := by simp [copySlot] at hcs; exact hcs.symm
        subst this
        exact key (.insert p (.ext vs[i]!)) rfl (by simpa [legal, hs] using hj.1) rfl
          (by simp [spec, Ref.value, List.getD_eq_getElem?_getD, hj.2]) hj.2
    | insertN p n r => cases r with
      | ext v => simp [copySlot] at hcs
      | slot j =>
        have hj : p ≤ vs.length ∧ j < vs.length ∧ vs.length + n ≤ mx := by simpa [legal, hs] using hl
        have : i = j := by
          by_cases hn : n = 0 <;> simp [copySlot, hn] at hcs; exact hcs.symm
        subst this
        exact key (.insertN p n (.ext vs[i]!)) rfl (by simpa [legal, hs] using ⟨hj.1, hj.2.2⟩) rfl
          (by simp [spec, Ref.value, List.getD_eq_getElem?_getD, hj.2.1]) hj.2.1
    | resizeFill n r => cases r with
      | ext v => simp [copySlot] at hcs
      | slot j =>
        have hj : n ≤ mx ∧ j < vs.length := by simpa [legal, hs] using hl
        have : i = j := by
          by_cases hc : n > a.cap <;> simp [copySlot, hc] at hcs; exact hcs.symm
        subst this
        exact key (.resizeFill n (.ext vs[i]!)) rfl (by simpa [legal] using hj.1) rfl
          (by simp [spec, Ref.value, List.getD_eq_getElem?_getD, hj.2]) hj.2
    | _ => simp [copySlot] at hcs

/-- the repaired algorithm handles the witnesses of F3 like `std::vector` -/
example : abs (stepFixed 1000 full4 {} (.pushBack (.slot 0))).arr = [10, 20, 30, 40, 10] ∧
    (stepFixed 1000 full4 {} (.pushBack (.slot 0))).log.viol = 0 ∧
    abs (stepFixed 1000 roomy4 {} (.insert 0 (.slot 2))).arr = [30, 10, 20, 30, 40] := by decide

/-- non-vacuity of `refOK`: the same calls with a non-disturbed element are fine -/
example : refOK roomy4 (.pushBack (.slot 0)) = true ∧ refOK roomy4 (.insert 3 (.slot 1)) = true ∧
    legal 1000 roomy4 (.insert 3 (.slot 1)) = true := by decide

end C26

namespace C26

/-! ## pointer wrappers -/

/-- heap object `x` is alive with value `u`, and `c ≥ 1` `CloneOnWritePtr`s share it -/
structure Heap.Owns (h : Heap) (x : Nat) (u : Elt) (c : Nat) : Prop where
  aligned : h.objs.length = h.cnts.length
  live : h.objs[x]? = some (some u)
  count : h.cnts[x]? = some c
  pos : 0 < c

theorem Heap.Owns.lt {h : Heap} {x : Nat} {u : Elt} {c : Nat} (ho : h.Owns x u c) : x < h.objs.length := by
  rcases Nat.lt_or_ge x h.objs.length with h' | h'
  · exact h'
  · have := ho.live; rw [List.getElem?_eq_none h'] at this; cases this

/-- **cow_shares_until_write.**  Copying a `CloneOnWritePtr` clones nothing (same object, use count
+1); the first write through the copy detaches it onto a fresh clone (count 1) carrying the new
value while the original keeps object, value and its previous count; a further write through the
now-unique copy clones nothing more. -/
theorem cow_shares_until_write (h : Heap) (x : Nat) (u : Elt) (c : Nat) (ho : h.Owns x u c) (v v' : Elt) :
    (Cow.copyCtor h (some x)).2 = some x ∧
    (Cow.copyCtor h (some x)).1.objs = h.objs ∧
    Cow.useCount (Cow.copyCtor h (some x)).1 (some x) = c + 1 ∧
    (Cow.write (Cow.copyCtor h (some x)).1 (some x) v).2 = some h.objs.length ∧
    Cow.get (Cow.write (Cow.copyCtor h (some x)).1 (some x) v).1 (some h.objs.length) = some v ∧
    Cow.get (Cow.write (Cow.copyCtor h (some x)).1 (some x) v).1 (some x) = some u ∧
    Cow.useCount (Cow.write (Cow.copyCtor h (some x)).1 (some x) v).1 (some x) = c ∧
    Cow.useCount (Cow.write (Cow.copyCtor h (some x)).1 (some x) v).1 (some h.objs.length) = 1 ∧
    (Cow.write (Cow.write (Cow.copyCtor h (some x)).1 (some x) v).1 (some h.objs.length) v').1.objs.length
      = h.objs.length + 1 := by
  have hx := ho.lt
  have hxc : x < h.cnts.length := by rw [← ho.aligned]; exact hx
  have hal := ho.aligned
  have hcnt : h.cnts[x] = c := by
    have := ho.count; rw [List.getElem?_eq_getElem hxc] at this; exact Option.some.inj this
  have hobj : h.objs[x] = some u := by
    have := ho.live; rw [List.getElem?_eq_getElem hx] at this; exact Option.some.inj this
  have hpos := ho.pos
  refine ⟨rfl, rfl, ?_, ?_⟩
  · simp [Cow.copyCtor, Cow.shareWith, Cow.useCount, Heap.incr, Heap.cnt, hcnt, hxc]
  · simp [Cow.copyCtor, Cow.shareWith, Cow.write, Cow.detach, Cow.get, Cow.useCount, Heap.incr, Heap.decr,
      Heap.cnt, Heap.val, Heap.alloc, Heap.write, hcnt, hobj, hxc, hal, hpos, List.getElem?_append]

/-- **cow_independent.**  After `q = p` (copy) a write through one of the two is invisible through
the other: the writer holds a different object with the new value, the other still sees `u`. -/
theorem cow_independent (h : Heap) (x : Nat) (u : Elt) (c : Nat) (ho : h.Owns x u c) (v : Elt) :
    (Cow.write (Cow.copyCtor h (some x)).1 (some x) v).2 ≠ some x ∧
    Cow.get (Cow.write (Cow.copyCtor h (some x)).1 (some x) v).1 (Cow.write (Cow.copyCtor h (some x)).1 (some x) v).2 = some v ∧
    Cow.get (Cow.write (Cow.copyCtor h (some x)).1 (some x) v).1 (some x) = some u := by
  obtain ⟨_, _, _, h4, h5, h6, _⟩ := cow_shares_until_write h x u c ho v v
  refine ⟨?_, by rw [h4]; exact h5, h6⟩
  rw [h4]; intro e; have := ho.lt; cases e; omega

/-- `reset()` of one of several sharers keeps the object alive; `reset()` of the last one deletes it -/
theorem cow_reset (h : Heap) (x : Nat) (u : Elt) (c : Nat) (ho : h.Owns x u c) :
    (Cow.reset h (some x)).2 = none ∧ (Cow.reset h (some x)).1.doubleFree = h.doubleFree ∧
    (1 < c → (Cow.reset h (some x)).1.val x = u ∧ (Cow.reset h (some x)).1.cnt x = c - 1) ∧
    (c = 1 → (Cow.reset h (some x)).1.objs[x]? = some none) := by
  have hx := ho.lt
  have hxc : x < h.cnts.length := by rw [← ho.aligned]; exact hx
  have hcnt : h.cnts[x] = c := by
    have := ho.count; rw [List.getElem?_eq_getElem hxc] at this; exact Option.some.inj this
  have hobj : h.objs[x] = some u := by
    have := ho.live; rw [List.getElem?_eq_getElem hx] at this; exact Option.some.inj this
  have hpos := ho.pos
  by_cases h1 : c = 1
  · subst h1
    simp [Cow.reset, Heap.decr, Heap.cnt, Heap.free, Heap.val, hcnt, hobj, hxc, hx]
  · have h2 : ¬ (c - 1 = 0) := by omega
    simp [Cow.reset, Heap.decr, Heap.cnt, Heap.val, hcnt, hobj, hxc, hx, h1, h2]

/-- **clone_ptr_deep.**  Copying a `ClonePtr` makes a new heap object with the same value; writes
through either pointer are invisible through the other. -/
theorem clone_ptr_deep (h : Heap) (x : Nat) (u v : Elt) (hl : h.objs[x]? = some (some u)) :
    (Clone.copyCtor h (some x)).2 = some h.objs.length ∧ (Clone.copyCtor h (some x)).2 ≠ some x ∧
    Clone.get (Clone.copyCtor h (some x)).1 (some h.objs.length) = some u ∧
    Clone.get (Clone.copyCtor h (some x)).1 (some x) = some u ∧
    Clone.get (Clone.write (Clone.copyCtor h (some x)).1 (some h.objs.length) v) (some x) = some u ∧
    Clone.get (Clone.write (Clone.copyCtor h (some x)).1 (some h.objs.length) v) (some h.objs.length) = some v ∧
    Clone.get (Clone.write (Clone.copyCtor h (some x)).1 (some x) v) (some h.objs.length) = some u ∧
    Clone.get (Clone.write (Clone.copyCtor h (some x)).1 (some x) v) (some x) = some v := by
  have hx : x < h.objs.length := by
    rcases Nat.lt_or_ge x h.objs.length with h' | h'
    · exact h'
    · rw [List.getElem?_eq_none h'] at hl; cases hl
  have hobj : h.objs[x] = some u := by
    rw [List.getElem?_eq_getElem hx] at hl; exact Option.some.inj hl
  refine ⟨rfl, ?_, ?_⟩
  · show some h.objs.length ≠ some x
    intro e; cases e; omega
  · simp [Clone.copyCtor, Clone.cloneOrNull, Clone.make, Clone.get, Clone.write, Heap.alloc, Heap.val, Heap.write,
      hobj, hx, List.getElem?_append]

/-- **reset_on_copy.**  `ResetOnCopy<T>` never carries its value through a copy (construction or
assignment give `T()` whatever the source holds); moves and plain assignment of a `T` do carry it. -/
theorem reset_on_copy (dst src src' v : Elt) :
    ResetOnCopy.copyCtor src = defaultVal ∧ ResetOnCopy.copyCtor src = ResetOnCopy.copyCtor src' ∧
    ResetOnCopy.copyAssign dst src = defaultVal ∧ ResetOnCopy.moveCtor src = src ∧
    ResetOnCopy.moveAssign dst src = src ∧ ResetOnCopy.assignValue dst v = v :=
  ⟨rfl, rfl, rfl, rfl, rfl, rfl⟩

/-- **reinit_on_copy.**  `ReinitOnCopy<T>`: a copy-constructed object holds the source's *reinit*
value (not its current value) and inherits that reinit value; copy assignment restores the
destination's own reinit value; neither depends on the source's current value. -/
theorem reinit_on_copy (dst src : Reinit) (v : Elt) :
    (Reinit.copyCtor src).value = src.reinit ∧ (Reinit.copyCtor src).reinit = src.reinit ∧
    Reinit.copyCtor { src with value := v } = Reinit.copyCtor src ∧
    (Reinit.copyAssign dst src).value = dst.reinit ∧ (Reinit.copyAssign dst src).reinit = dst.reinit ∧
    Reinit.copyAssign dst { src with value := v } = Reinit.copyAssign dst src ∧
    (Reinit.moveAssign dst src).value = src.value ∧ (Reinit.moveAssign dst src).reinit = dst.reinit ∧
    Reinit.moveCtor src = src :=
  ⟨rfl, rfl, rfl, rfl, rfl, rfl, rfl, rfl, rfl⟩

/-- **reference_ptr_shallow.**  `ReferencePtr<T>` is a bare (non-owning) pointer: copies are null
whatever the source points at, moves transfer the pointer and null the source. -/
theorem reference_ptr_shallow (dst src src' : Ptr) :
    RefPtr.copyCtor src = none ∧ RefPtr.copyCtor src = RefPtr.copyCtor src' ∧
    RefPtr.copyAssign dst src = none ∧
    RefPtr.moveCtor src = (src, none) ∧ RefPtr.moveAssign dst src = (src, none) :=
  ⟨rfl, rfl, rfl, rfl, rfl⟩

/-- non-vacuity of `Heap.Owns`: a heap built by `Cow.make` -/
example : (Cow.make {} 5).1.Owns 0 5 1 := ⟨rfl, rfl, rfl, by decide⟩

end C26

namespace C26

/-! ## round 2: rvalue / emplace arguments that are elements of the array

`push_back(T&&)`, `emplace_back(args…)`, `emplace(p, args…)` were not touched by 06f34988: they still
grew / shifted first and read their argument afterwards; f70ab3a8 repaired them (`stepFixed2`). -/

/-- **historical witness** (`stepFixed` = /repo after 06f34988, before f70ab3a8) — shown by this check
on that tree with keys `Array_.{emplaceBack,pushBackMove,emplace}.alias_realloc`, `Array_.emplace.alias_shift`:
`a.emplace_back(a[0])` and `a.push_back(std::move(a[1]))` at full capacity read a freed element;
`a.emplace(a.begin()+1, a[2])` at full capacity likewise; with spare capacity
`a.emplace(a.begin(), a[2])` inserts the wrong element (20 instead of 30) without any violation. -/
theorem emplace_alias_broke_fix1_code :
    (stepFixed 1000 full4 {} (.emplaceBack (.slot 0))).log.viol = 1 ∧
    (stepFixed 1000 full4 {} (.pushBackMove (.slot 1))).log.viol = 1 ∧
    (stepFixed 1000 full4 {} (.emplace 1 (.slot 2))).log.viol = 1 ∧
    (stepFixed 1000 roomy4 {} (.emplace 0 (.slot 2))).log.viol = 0 ∧
    abs (stepFixed 1000 roomy4 {} (.emplace 0 (.slot 2))).arr = [20, 10, 20, 30, 40] ∧
    spec [10, 20, 30, 40] (.emplace 0 (.slot 2)) = [30, 10, 20, 30, 40] := by
  decide

/-- where it is fine: `a.push_back(std::move(a[1]))` with spare capacity leaves `a[1]` moved-from, as std::vector -/
example : abs (stepFixed 1000 roomy4 {} (.pushBackMove (.slot 1))).arr = [10, movedVal, 30, 40, 20] ∧
    (stepFixed 1000 roomy4 {} (.pushBackMove (.slot 1))).log.viol = 0 := by decide

/-- the four-part outcome used for the current code: disciplined, refines `expect` (or threw and changed
nothing), balanced -/
def Outcome (a : Arr) (L : Log) (r : Res) (expect : List Elt) : Prop :=
  r.log.viol = L.viol ∧ (r.thrown = false → Rep r.arr expect) ∧ (r.thrown = true → r.arr = a) ∧
  r.log.ctor + a.size + L.dtor = r.log.dtor + r.arr.size + L.ctor

theorem Outcome.of_stepOK {a : Arr} {L : Log} {r : Res} {e : List Elt} (h : StepOK a L r e ∨ Unchanged a L r) :
    Outcome a L r e := by
  rcases h with hk | hk
  · exact ⟨hk.viol, fun _ => hk.rep, fun ht => (by rw [hk.nothrow] at ht; cases ht), hk.bal⟩
  · obtain ⟨h1, h2, h3⟩ := hk
    exact ⟨by rw [h2], fun ht => (by rw [h3] at ht; cases ht), fun _ => h1, by rw [h1, h2]; omega⟩

/-- `emplace_back` of the current code (ff598e36): when it reallocates, the new element is constructed in
the new block from the still-live arguments, then the old elements are moved — any element may be passed -/
theorem emplaceBack2_ok (mx : Nat) (a : Arr) (L : Log) (vs : List Elt) (r : Ref) (h : Rep a vs)
    (hi : ∀ i, r = .slot i → i < vs.length) :
    Outcome a L (emplaceBack2 mx a L r) (vs ++ [r.value vs]) := by
  have hs := h.size
  have hle := h.le
  have hread := readRef_inPlace L r h hi
  by_cases hfull : a.cap = a.size
  · unfold emplaceBack2
    rw [if_pos hfull]
    cases hc : calcNewCapacityForGrowthBy mx a.cap 1 with
    | none => exact ⟨rfl, fun ht => (by cases ht), fun _ => rfl, by show L.ctor + a.size + L.dtor = L.dtor + a.size + L.ctor; omega⟩
    | some nc =>
      have hge := calcNew_ge hc
      unfold Arr.cap at hge hfull
      obtain ⟨r1, r2, r3⟩ := realloc_with_new L nc a.size (r.value vs) h (by omega) (by omega)
      simp only [Nat.sub_self, moveRange] at r1 r2 r3
      have e : splice vs a.size a.size [r.value vs] = vs ++ [r.value vs] := by rw [hs]; simp [splice]
      rw [e] at r1
      simp only [hread]
      refine ⟨by show (moveRange _ _ _ 0 0 a.size).2.2.viol = _; rw [r3]; rfl, fun _ => r1, fun ht => (by cases ht), ?_⟩
      show (moveRange _ _ _ 0 0 a.size).2.2.ctor + a.size + L.dtor = (moveRange _ _ _ 0 0 a.size).2.2.dtor + (a.size + 1) + L.ctor
      rw [r3]; simp only [Log.adv_ctor, Log.adv_dtor]; omega
  · have e : emplaceBack2 mx a L r = pushBack mx a L r := by
      unfold emplaceBack2 pushBack; rw [if_neg hfull, if_neg hfull]
    rw [e]
    apply Outcome.of_stepOK
    cases r with
    | ext v => exact pushBack_ok (mx := mx) L (.ext v) h rfl rfl
    | slot i =>
      have := hi i rfl
      exact pushBack_ok (mx := mx) L (.slot i) h (by simpa [legal, hs] using this) (by simp [refOK, hfull])

/-- `emplace` of the current code (ff598e36) — any element may be passed -/
theorem emplace2_ok (mx : Nat) (a : Arr) (L : Log) (vs : List Elt) (p : Nat) (r : Ref) (h : Rep a vs)
    (hp : p ≤ vs.length) (hi : ∀ i, r = .slot i → i < vs.length) :
    Outcome a L (emplace2 mx a L p r) (splice vs p p [r.value vs]) := by
  have hs := h.size
  have hle := h.le
  have hread := readRef_inPlace L r h hi
  by_cases hfull : a.cap = a.size
  · unfold emplace2
    rw [if_neg (by simpa using hfull)]
    cases hc : calcNewCapacityForGrowthBy mx a.cap 1 with
    | none => exact ⟨rfl, fun ht => (by cases ht), fun _ => rfl, by show L.ctor + a.size + L.dtor = L.dtor + a.size + L.ctor; omega⟩
    | some nc =>
      have hge := calcNew_ge hc
      unfold Arr.cap at hge hfull
      obtain ⟨r1, r2, r3⟩ := realloc_with_new L nc p (r.value vs) h hp (by omega)
      simp only [hread]
      refine ⟨by show (moveRange _ _ _ (p + 1) p (a.size - p)).2.2.viol = _; rw [r3]; rfl, fun _ => r1, fun ht => (by cases ht), ?_⟩
      show (moveRange _ _ _ (p + 1) p (a.size - p)).2.2.ctor + a.size + L.dtor
        = (moveRange _ _ _ (p + 1) p (a.size - p)).2.2.dtor + (a.size + 1) + L.ctor
      rw [r3]; simp only [Log.adv_ctor, Log.adv_dtor]; omega
  · by_cases hend : p = a.size
    · have e : emplace2 mx a L p r = pushBack mx a L r := by
        unfold emplace2 pushBack; rw [if_pos hfull, if_pos hend, if_neg hfull]
      have e2 : splice vs p p [r.value vs] = vs ++ [r.value vs] := by rw [hend, hs]; simp [splice]
      rw [e, e2]
      apply Outcome.of_stepOK
      cases r with
      | ext v => exact pushBack_ok (mx := mx) L (.ext v) h rfl rfl
      | slot i =>
        have := hi i rfl
        exact pushBack_ok (mx := mx) L (.slot i) h (by simpa [legal, hs] using this) (by simp [refOK, hfull])
    · -- a temporary is built first, then the gap is made and the temporary moved in
      have e : emplace2 mx a L p r =
          { insert mx a { L with ctor := L.ctor + 1 } p (.ext (r.value vs)) with
            log := { (insert mx a { L with ctor := L.ctor + 1 } p (.ext (r.value vs))).log with
              dtor := (insert mx a { L with ctor := L.ctor + 1 } p (.ext (r.value vs))).log.dtor + 1 } } := by
        unfold emplace2; rw [if_pos hfull, if_neg hend]; simp only [hread]
      rw [e]
      rcases insert_ok (mx := mx) { L with ctor := L.ctor + 1 } (.ext (r.value vs)) h hp (by intro i hi'; cases hi') rfl with hk | hk
      · exact ⟨hk.viol, fun _ => hk.rep, fun ht => (by have := hk.nothrow; simp only [] at ht; rw [this] at ht; cases ht),
          by have := hk.bal; simp only [] at this ⊢; omega⟩
      · refine ⟨by simp only []; rw [hk.2.1], fun ht => (by have := hk.2.2; simp only [] at ht; rw [this] at ht; cases ht),
          fun _ => hk.1, ?_⟩
        simp only []; rw [hk.1, hk.2.1]; simp only []; omega

/-- the conclusion of `fixed2_step_disciplined`, named so that it can be used for intermediate steps -/
def Fixed2OK (mx : Nat) (a : Arr) (L : Log) (vs : List Elt) (op : Op) : Prop :=
    (stepFixed2 mx a L op).log.viol = L.viol ∧
    ((stepFixed2 mx a L op).thrown = false → Rep (stepFixed2 mx a L op).arr (spec vs op)) ∧
    ((stepFixed2 mx a L op).thrown = true → (stepFixed2 mx a L op).arr = a) ∧
    (stepFixed2 mx a L op).log.ctor + a.size + L.dtor
      = (stepFixed2 mx a L op).log.dtor + (stepFixed2 mx a L op).arr.size + L.ctor

/-- **fixed2_step_disciplined** — the statement about the CURRENT code (`stepFixed2` = /repo after
06f34988 + f70ab3a8, the step function the driver executes): *every* legal
operation — whatever element of the array is passed by `const T&`, `T&&` or as emplace argument —
is disciplined and refines `std::vector`; no aliasing hypothesis at all. -/
theorem fixed2_step_disciplined (mx : Nat) (a : Arr) (L : Log) (vs : List Elt) (op : Op) (h : Rep a vs)
    (hl : legal mx a op = true) :
    (stepFixed2 mx a L op).log.viol = L.viol ∧
    ((stepFixed2 mx a L op).thrown = false → Rep (stepFixed2 mx a L op).arr (spec vs op)) ∧
    ((stepFixed2 mx a L op).thrown = true → (stepFixed2 mx a L op).arr = a) ∧
    (stepFixed2 mx a L op).log.ctor + a.size + L.dtor
      = (stepFixed2 mx a L op).log.dtor + (stepFixed2 mx a L op).arr.size + L.ctor := by
  have hs := h.size
  show Fixed2OK mx a L vs op
  -- operations that `stepFixed2` hands to `stepFixed`
  have viaFixed : stepFixed2 mx a L op = stepFixed mx a L op → unguardedOK a op = true → Fixed2OK mx a L vs op := fun e hu => by
    unfold Fixed2OK
    rw [e]; exact hist_fix1_step_disciplined mx a L vs op h hl hu
  cases op with
  | pushBackMove r =>
    cases r with
    | ext v => exact viaFixed rfl rfl
    | slot i =>
      have hi : i < vs.length := by simpa [legal, hs] using hl
      unfold Fixed2OK
      by_cases hfull : a.cap = a.size
      · have e : stepFixed2 mx a L (.pushBackMove (.slot i)) =
            match growAtEnd mx a L 1 with
            | none => ⟨a, L, true⟩
            | some (a', L') => pushBackMove mx a' L' (.slot i) := by
          show (if a.cap = a.size then _ else _) = _
          rw [if_pos hfull]
          cases growAtEnd mx a L 1 with
          | none => rfl
          | some t => rfl
        rw [e]
        unfold growAtEnd
        cases hc : calcNewCapacityForGrowthBy mx a.cap 1 with
        | none =>
          show (⟨a, L, true⟩ : Res).log.viol = L.viol ∧ _
          exact ⟨rfl, fun ht => (by cases ht), fun _ => rfl, by show L.ctor + a.size + L.dtor = L.dtor + a.size + L.ctor; omega⟩
        | some nc =>
          have hge := calcNew_ge hc
          have hle := h.le
          obtain ⟨m1, m2, m3⟩ := moveAll_spec L nc h (by unfold Arr.cap at hge; omega)
          dsimp only
          generalize moveRange (allocN nc) a.cells L 0 0 a.size = mr at m1 m2 m3 ⊢
          obtain ⟨nw, old, L'⟩ := mr
          dsimp only at m1 m2 m3 ⊢
          subst m3
          have hroom : (⟨nw, a.size⟩ : Arr).cap ≠ (⟨nw, a.size⟩ : Arr).size := by
            show nw.length ≠ a.size
            rw [m2]; unfold Arr.cap at hge hfull; omega
          have hk := pushBackMove_slot_ok (mx := mx) (L.adv vs.length vs.length) i m1 hi hroom
          refine ⟨by rw [hk.viol]; rfl, fun _ => hk.rep, fun ht => (by rw [hk.nothrow] at ht; cases ht), ?_⟩
          have hb := hk.bal
          dsimp only at hb
          simp only [Log.adv_ctor, Log.adv_dtor] at hb
          omega
      · have e : stepFixed2 mx a L (.pushBackMove (.slot i)) = step mx a L (.pushBackMove (.slot i)) := by
          simp only [stepFixed2, if_neg hfull]
        rw [e]
        rcases step_ok mx a L vs (.pushBackMove (.slot i)) h hl (by simp [refOK, hfull]) with hk | hk
        · exact ⟨hk.viol, fun _ => hk.rep, fun ht => (by rw [hk.nothrow] at ht; cases ht), hk.bal⟩
        · rw [hk.1, hk.2.1]; exact ⟨rfl, fun ht => (by rw [hk.2.2] at ht; cases ht), fun _ => rfl, by omega⟩
  | emplaceBack r =>
    have hi : ∀ i, r = .slot i → i < vs.length := by
      intro i hr; subst hr; simpa [legal, hs] using hl
    exact emplaceBack2_ok mx a L vs r h hi
  | emplace p r =>
    have hp : p ≤ vs.length := by cases r <;> simp [legal, hs] at hl <;> omega
    have hi : ∀ i, r = .slot i → i < vs.length := by
      intro i hr; subst hr
      have : p ≤ vs.length ∧ i < vs.length := by simpa [legal, hs] using hl
      exact this.2
    exact emplace2_ok mx a L vs p r h hp hi
  | pushBack r => exact viaFixed rfl rfl
  | pushBackDefault => exact viaFixed rfl rfl
  | popBack => exact viaFixed rfl rfl
  | insert p r => exact viaFixed rfl rfl
  | insertN p n r => exact viaFixed rfl rfl
  | insertRange p ws => exact viaFixed rfl rfl
  | erase f l => exact viaFixed rfl rfl
  | eraseOne p => exact viaFixed rfl rfl
  | eraseFast p => exact viaFixed rfl rfl
  | clear => exact viaFixed rfl rfl
  | resize n => exact viaFixed rfl rfl
  | resizeFill n r => exact viaFixed rfl rfl
  | reserve n => exact viaFixed rfl rfl
  | shrinkToFit => exact viaFixed rfl rfl
  | assignN n v => exact viaFixed rfl rfl
  | assignRange ws => exact viaFixed rfl rfl
  | fill r => exact viaFixed rfl rfl
  | deallocate => exact viaFixed rfl rfl
  | setElt i v => exact viaFixed rfl rfl
  | viewFill off len off2 len2 r => exact viaFixed rfl rfl
  | viewAssign off ws => exact viaFixed rfl rfl

/-- the current code handles the witnesses like `std::vector` -/
example : abs (stepFixed2 1000 full4 {} (.emplaceBack (.slot 0))).arr = [10, 20, 30, 40, 10] ∧
    abs (stepFixed2 1000 full4 {} (.pushBackMove (.slot 1))).arr = [10, movedVal, 30, 40, 20] ∧
    abs (stepFixed2 1000 roomy4 {} (.emplace 0 (.slot 2))).arr = [30, 10, 20, 30, 40] ∧
    (stepFixed2 1000 full4 {} (.emplace 1 (.slot 2))).log.viol = 0 := by decide

end C26

namespace C26

/-! ## the executed step (`stepFixed2`, current code) over sequences and several arrays -/

/-- legality along a run of the current code (no condition at all on value arguments) -/
def okRunCurrent (mx : Nat) (a : Arr) (L : Log) : List Op → Prop
  | [] => True
  | op :: ops => legal mx a op = true ∧ okRunCurrent mx (stepFixed2 mx a L op).arr (stepFixed2 mx a L op).log ops

/-- **run_current_disciplined.** The current code over arbitrary *legal* operation sequences — any
element of the array may be passed by `const T&`, `T&&` or as emplace argument: no violation,
well-formedness, live objects = size. -/
theorem run_current_disciplined (mx : Nat) : ∀ (ops : List Op) (a : Arr) (L : Log), WF a → okRunCurrent mx a L ops →
    (runCurrent mx a L ops).2.viol = L.viol ∧ WF (runCurrent mx a L ops).1 ∧
    (runCurrent mx a L ops).2.ctor + a.size + L.dtor = (runCurrent mx a L ops).2.dtor + (runCurrent mx a L ops).1.size + L.ctor := by
  intro ops
  induction ops with
  | nil => intro a L hwf _; exact ⟨rfl, hwf, by simp [runCurrent]; omega⟩
  | cons op ops ih =>
    intro a L hwf hok
    obtain ⟨hl, hrest⟩ := hok
    obtain ⟨vs, hv⟩ := hwf
    obtain ⟨s1, s2, s3, s4⟩ := fixed2_step_disciplined mx a L vs op hv hl
    have hwf' : WF (stepFixed2 mx a L op).arr := by
      cases ht : (stepFixed2 mx a L op).thrown with
      | false => exact ⟨_, s2 ht⟩
      | true => rw [s3 ht]; exact ⟨vs, hv⟩
    obtain ⟨i1, i2, i3⟩ := ih (stepFixed2 mx a L op).arr (stepFixed2 mx a L op).log hwf' hrest
    show (runCurrent mx (stepFixed2 mx a L op).arr (stepFixed2 mx a L op).log ops).2.viol = _ ∧
      WF (runCurrent mx (stepFixed2 mx a L op).arr (stepFixed2 mx a L op).log ops).1 ∧ _
    refine ⟨by rw [i1, s1], i2, ?_⟩
    show (runCurrent mx (stepFixed2 mx a L op).arr (stepFixed2 mx a L op).log ops).2.ctor + a.size + L.dtor
      = (runCurrent mx (stepFixed2 mx a L op).arr (stepFixed2 mx a L op).log ops).2.dtor
        + (runCurrent mx (stepFixed2 mx a L op).arr (stepFixed2 mx a L op).log ops).1.size + L.ctor
    omega

/-- contents along a run of the current code (a throwing operation leaves the list unchanged) -/
def specRunCurrent (mx : Nat) (a : Arr) (L : Log) (vs : List Elt) : List Op → List Elt
  | [] => vs
  | op :: ops =>
    specRunCurrent mx (stepFixed2 mx a L op).arr (stepFixed2 mx a L op).log
      (if (stepFixed2 mx a L op).thrown then vs else spec vs op) ops

/-- **run_current_refines.** the sequences the driver executes refine the fold of the `std::vector` operations -/
theorem run_current_refines (mx : Nat) : ∀ (ops : List Op) (a : Arr) (L : Log) (vs : List Elt), Rep a vs →
    okRunCurrent mx a L ops → abs (runCurrent mx a L ops).1 = specRunCurrent mx a L vs ops := by
  intro ops
  induction ops with
  | nil => intro a L vs h _; exact abs_of_rep h
  | cons op ops ih =>
    intro a L vs h hok
    obtain ⟨hl, hrest⟩ := hok
    obtain ⟨_, s2, s3, _⟩ := fixed2_step_disciplined mx a L vs op h hl
    show abs (runCurrent mx (stepFixed2 mx a L op).arr (stepFixed2 mx a L op).log ops).1
      = specRunCurrent mx (stepFixed2 mx a L op).arr (stepFixed2 mx a L op).log _ ops
    cases ht : (stepFixed2 mx a L op).thrown with
    | false => exact ih _ _ _ (s2 ht) hrest
    | true => exact ih _ _ _ (by rw [s3 ht]; exact h) hrest

/-- outcome of one world operation, for an arbitrary result world `w'` -/
structure WOutcome (w w' : World) (vss : List (List Elt)) (op : WOp) : Prop where
  viol : w'.log.viol = w.log.viol
  rep : ∃ vss', WRep w' vss' ∧ (w'.thrown = false → vss' = wspec vss op) ∧ (w'.thrown = true → vss' = vss)
  bal : w'.log.ctor + total w + w.log.dtor = w'.log.dtor + total w' + w.log.ctor

/-- **wstep_current_ok.** the world step the driver executes (`wstepCurrent`) is disciplined and refines `wspec`;
only legality is required -/
theorem wstep_current_ok (mx : Nat) (w : World) (vss : List (List Elt)) (op : WOp) (h : WRep w vss)
    (hl : wlegal mx w op = true) : WOutcome w (wstepCurrent mx w op) vss op := by
  have other : wstepCurrent mx w op = wstep mx w op → wrefOK w op = true → WOutcome w (wstepCurrent mx w op) vss op := by
    intro e hr
    rw [e]
    obtain ⟨a, b, c⟩ := wstep_ok mx w vss op h hl hr
    exact ⟨a, b, c⟩
  cases op with
  | on k op =>
    obtain ⟨arrs, L, t⟩ := w
    have hk : k < arrs.length ∧ legal mx (arrs.getD k {}) op = true := by simpa [wlegal, World.get] using hl
    have hrep : Rep (arrs.getD k {}) (vss.getD k []) := h.2 k
    obtain ⟨s1, s2, s3, s4⟩ := fixed2_step_disciplined mx (arrs.getD k {}) L (vss.getD k []) op hrep hk.2
    have hsum := sum_set arrs k (stepFixed2 mx (arrs.getD k {}) L op).arr hk.1
    refine ⟨s1, ?_, ?_⟩
    · cases ht : (stepFixed2 mx (arrs.getD k {}) L op).thrown with
      | false =>
        exact ⟨vss.set k (spec (vss.getD k []) op), wrep_set k _ _ h (s2 ht), fun _ => rfl,
          fun ht' => (by have : (stepFixed2 mx (arrs.getD k {}) L op).thrown = true := ht'; rw [ht] at this; cases this)⟩
      | true =>
        refine ⟨vss, ?_, fun ht' => (by have : (stepFixed2 mx (arrs.getD k {}) L op).thrown = false := ht'; rw [ht] at this; cases this), fun _ => rfl⟩
        have := wrep_set (L' := (stepFixed2 mx (arrs.getD k {}) L op).log) (t' := (stepFixed2 mx (arrs.getD k {}) L op).thrown)
          k (stepFixed2 mx (arrs.getD k {}) L op).arr (vss.getD k []) h (by rw [s3 ht]; exact hrep)
        rw [set_getD_self] at this; exact this
    · show (stepFixed2 mx (arrs.getD k {}) L op).log.ctor + (arrs.map Arr.size).sum + L.dtor
        = (stepFixed2 mx (arrs.getD k {}) L op).log.dtor + ((arrs.set k (stepFixed2 mx (arrs.getD k {}) L op).arr).map Arr.size).sum + L.ctor
      omega
  | swap i j => exact other rfl rfl
  | copyAssign i j => exact other rfl rfl
  | moveAssign i j => exact other rfl rfl
  | copyCtor i j => exact other rfl rfl
  | moveCtor i j => exact other rfl rfl
  | viewCopy i off j off2 len => exact other rfl rfl

def wrunCurrent (mx : Nat) (w : World) : List WOp → World
  | [] => w
  | op :: ops => wrunCurrent mx (wstepCurrent mx w op) ops

def okWRunCurrent (mx : Nat) (w : World) : List WOp → Prop
  | [] => True
  | op :: ops => wlegal mx w op = true ∧ okWRunCurrent mx (wstepCurrent mx w op) ops

/-- **world_current_disciplined.** what the random streams of the driver execute: arbitrary legal
sequences over several arrays with the current code — no violation, all arrays well formed, live
elements = sum of sizes. -/
theorem world_current_disciplined (mx : Nat) : ∀ (ops : List WOp) (w : World) (vss : List (List Elt)),
    WRep w vss → okWRunCurrent mx w ops →
    (wrunCurrent mx w ops).log.viol = w.log.viol ∧ (∃ vss', WRep (wrunCurrent mx w ops) vss') ∧
    (wrunCurrent mx w ops).log.ctor + total w + w.log.dtor
      = (wrunCurrent mx w ops).log.dtor + total (wrunCurrent mx w ops) + w.log.ctor := by
  intro ops
  induction ops with
  | nil => intro w vss h _; exact ⟨rfl, ⟨vss, h⟩, by simp [wrunCurrent]; omega⟩
  | cons op ops ih =>
    intro w vss h hok
    obtain ⟨hl, hrest⟩ := hok
    obtain ⟨s1, ⟨vss', s2, _, _⟩, s3⟩ := wstep_current_ok mx w vss op h hl
    obtain ⟨i1, i2, i3⟩ := ih (wstepCurrent mx w op) vss' s2 hrest
    refine ⟨by show (wrunCurrent mx (wstepCurrent mx w op) ops).log.viol = _; rw [i1, s1], i2, ?_⟩
    show (wrunCurrent mx (wstepCurrent mx w op) ops).log.ctor + total w + w.log.dtor
      = (wrunCurrent mx (wstepCurrent mx w op) ops).log.dtor + total (wrunCurrent mx (wstepCurrent mx w op) ops) + w.log.ctor
    omega

/-- **world_current_refines.** each executed world operation is the corresponding operation on a family of `std::vector`s -/
theorem world_current_refines (mx : Nat) (w : World) (vss : List (List Elt)) (op : WOp) (h : WRep w vss)
    (hl : wlegal mx w op = true) (hnt : (wstepCurrent mx w op).thrown = false) (k : Nat) :
    abs ((wstepCurrent mx w op).get k) = (wspec vss op).getD k [] := by
  obtain ⟨vss', h1, h2, _⟩ := (wstep_current_ok mx w vss op h hl).rep
  rw [← h2 hnt]; exact abs_of_rep (h1.2 k)

end C26
