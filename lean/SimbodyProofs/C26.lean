import SimbodyProofs.C26_ops

/-!
# C26 — property theorems: `Array_` and the pointer wrappers have value semantics

Model: `SimbodyModel/C26.lean` (slot machine transcribed from `Array.h`; `ClonePtr`,
`CloneOnWritePtr`, `ReferencePtr`, `ResetOnCopy`, `ReinitOnCopy`).

* `refines_list`        every operation = the `std::vector` list operation under the abstraction `abs`
* `slots_disciplined`   no construct-on-live / destruct-or-read-of-dead, constructions − destructions = growth
* `run_disciplined`, `world_disciplined`   the same over arbitrary operation sequences (one / several arrays)
* `capacity_growth`     size ≤ capacity; growth at least doubles (or reaches max_size); shrinking ops keep capacity
* the hypothesis `refOK` ("the value argument is not an element that the operation reallocates or shifts")
  is necessary: `push_back_alias_breaks_discipline`, `insert_alias_breaks_refinement`, … (finding F3)
* `cow_independent`, `cow_shares_until_write`, `clone_ptr_deep`, `reset_on_copy`, `reinit_on_copy`,
  `reference_ptr_shallow`
-/
namespace C26

/-- the array is well formed: it represents some list -/
def WF (a : Arr) : Prop := ∃ vs, Rep a vs

theorem wf_abs {a : Arr} (h : WF a) : Rep a (abs a) := by
  obtain ⟨vs, hv⟩ := h
  rw [abs_of_rep hv]; exact hv

/-! ## one step -/

theorem step_ok (mx : Nat) (a : Arr) (L : Log) (vs : List Elt) (op : Op) (h : Rep a vs)
    (hl : legal mx a op = true) (hr : refOK a op = true) :
    StepOK a L (step mx a L op) (spec vs op) ∨ Unchanged a L (step mx a L op) := by
  have hs := h.size
  cases op with
  | pushBack r => exact pushBack_ok L r h hl hr
  | pushBackMove v => exact pushBack_ok (mx := mx) L (.ext v) h rfl rfl
  | emplaceBack v => exact pushBack_ok (mx := mx) L (.ext v) h rfl rfl
  | pushBackDefault => exact pushBack_ok (mx := mx) L (.ext defaultVal) h rfl rfl
  | popBack =>
    left
    have : 0 < vs.length := by simpa [legal, hs] using hl
    exact popBack_ok L h this
  | insert p r =>
    cases r with
    | ext v =>
      have hp : p ≤ vs.length := by simpa [legal, hs] using hl
      exact insert_ok L (.ext v) h hp (by intro i hi; cases hi) hr
    | slot i =>
      have hp : p ≤ vs.length ∧ i < vs.length := by simpa [legal, hs] using hl
      exact insert_ok L (.slot i) h hp.1 (by intro k hk; cases hk; exact hp.2) hr
  | emplace p v =>
    have hp : p ≤ vs.length := by simpa [legal, hs] using hl
    exact insert_ok L (.ext v) h hp (by intro i hi; cases hi) rfl
  | insertN p n r =>
    cases r with
    | ext v =>
      have hp : p ≤ vs.length ∧ vs.length + n ≤ mx := by simpa [legal, hs] using hl
      exact insertN_ok L (.ext v) h hp.1 (by intro i hi; cases hi) hr
    | slot i =>
      have hp : p ≤ vs.length ∧ i < vs.length ∧ vs.length + n ≤ mx := by simpa [legal, hs] using hl
      exact insertN_ok L (.slot i) h hp.1 (by intro k hk; cases hk; exact hp.2.1) hr
  | insertRange p ws =>
    have hp : p ≤ vs.length ∧ vs.length + ws.length ≤ mx := by simpa [legal, hs] using hl
    exact insertRange_ok L ws h hp.1
  | erase f l =>
    left
    have hp : f ≤ l ∧ l ≤ vs.length := by simpa [legal, hs] using hl
    exact erase_ok L h hp.1 hp.2
  | eraseOne p =>
    left
    have hp : p < vs.length := by simpa [legal, hs] using hl
    show StepOK a L (eraseOne a L p) _
    rw [eraseOne_eq]
    exact erase_ok L h (by omega) (by omega)
  | eraseFast p =>
    left
    have hp : p < vs.length := by simpa [legal, hs] using hl
    exact eraseFast_ok L h hp
  | clear => left; exact (clear_ok L h).1
  | resize n => left; exact resize_ok L n h
  | resizeFill n r =>
    left
    cases r with
    | ext v => exact resizeFill_ok L n (.ext v) h (by intro i hi; cases hi) hr
    | slot i =>
      have hp : n ≤ mx ∧ i < vs.length := by simpa [legal, hs] using hl
      exact resizeFill_ok L n (.slot i) h (by intro k hk; cases hk; exact hp.2) hr
  | reserve n => left; exact (reserve_ok L n h).1
  | shrinkToFit => left; exact shrinkToFit_ok L h
  | assignN n v =>
    left
    show StepOK a L (assignN mx a L n v) _
    rw [assignN_eq]
    exact assignRange_ok L _ h
  | assignRange ws => left; exact assignRange_ok L ws h
  | fill r =>
    left
    cases r with
    | ext v => exact fill_ok L (.ext v) h (by intro i hi; cases hi)
    | slot i =>
      have hp : i < vs.length := by simpa [legal, hs] using hl
      exact fill_ok L (.slot i) h (by intro k hk; cases hk; exact hp)
  | deallocate => left; exact deallocate_ok L h
  | setElt i v =>
    left
    have hp : i < vs.length := by simpa [legal, hs] using hl
    exact setElt_ok L i v h hp
  | viewFill off len off2 len2 r =>
    left
    cases r with
    | ext v =>
      have hp : off + len ≤ vs.length ∧ off2 + len2 ≤ len := by simpa [legal, hs] using hl
      exact viewFill_ok L off off2 len2 (.ext v) h (by intro i hi; cases hi) (by omega)
    | slot i =>
      have hp : off + len ≤ vs.length ∧ off2 + len2 ≤ len ∧ i < vs.length := by simpa [legal, hs] using hl
      exact viewFill_ok L off off2 len2 (.slot i) h (by intro k hk; cases hk; exact hp.2.2) (by omega)
  | viewAssign off ws =>
    left
    have hp : off + ws.length ≤ vs.length := by simpa [legal, hs] using hl
    exact viewAssign_ok L off ws h hp

/-- **refines_list.**  Under the abstraction `abs` (the values of the live prefix) every operation
of `Array_` is the corresponding `std::vector` operation `spec` on lists — unless it throws the
documented max_size exception, in which case nothing changed. -/
theorem refines_list (mx : Nat) (a : Arr) (L : Log) (op : Op) (hwf : WF a)
    (hl : legal mx a op = true) (hr : refOK a op = true) :
    ((step mx a L op).thrown = false → abs (step mx a L op).arr = spec (abs a) op) ∧
    ((step mx a L op).thrown = true → (step mx a L op).arr = a ∧ (step mx a L op).log = L) := by
  rcases step_ok mx a L (abs a) op (wf_abs hwf) hl hr with h | h
  · exact ⟨fun _ => abs_of_rep h.rep, fun ht => (by rw [h.nothrow] at ht; cases ht)⟩
  · exact ⟨fun ht => (by rw [h.2.2] at ht; cases ht), fun _ => ⟨h.1, h.2.1⟩⟩

/-- **slots_disciplined.**  No operation constructs on a live slot or destructs / reads / assigns
a dead one (`viol` unchanged); the result is well formed (exactly the first `size` slots live);
and #constructions − #destructions = growth of `size`: each element is constructed exactly once
and destroyed exactly once.  Hypothesis `refOK`: the value argument does not alias an element that
the operation reallocates or shifts. -/
theorem slots_disciplined (mx : Nat) (a : Arr) (L : Log) (op : Op) (hwf : WF a)
    (hl : legal mx a op = true) (hr : refOK a op = true) :
    (step mx a L op).log.viol = L.viol ∧ WF (step mx a L op).arr ∧
    (step mx a L op).log.ctor + a.size + L.dtor = (step mx a L op).log.dtor + (step mx a L op).arr.size + L.ctor := by
  rcases step_ok mx a L (abs a) op (wf_abs hwf) hl hr with h | h
  · exact ⟨h.viol, ⟨_, h.rep⟩, h.bal⟩
  · rw [h.1, h.2.1]; exact ⟨rfl, hwf, by omega⟩

/-! ## operation sequences on one array -/

/-- every operation of the sequence is legal and has an undisturbed value argument in the state it meets -/
def okRun (mx : Nat) (a : Arr) (L : Log) : List Op → Prop
  | [] => True
  | op :: ops => legal mx a op = true ∧ refOK a op = true ∧ okRun mx (step mx a L op).arr (step mx a L op).log ops

/-- **run_disciplined.** Over an arbitrary operation sequence starting from a well-formed array:
no violation ever, the array stays well formed, live objects = size. -/
theorem run_disciplined (mx : Nat) : ∀ (ops : List Op) (a : Arr) (L : Log), WF a → okRun mx a L ops →
    (run mx a L ops).2.viol = L.viol ∧ WF (run mx a L ops).1 ∧
    (run mx a L ops).2.ctor + a.size + L.dtor = (run mx a L ops).2.dtor + (run mx a L ops).1.size + L.ctor := by
  intro ops
  induction ops with
  | nil => intro a L hwf _; exact ⟨rfl, hwf, by simp [run]; omega⟩
  | cons op ops ih =>
    intro a L hwf hok
    obtain ⟨hl, hr, hrest⟩ := hok
    obtain ⟨s1, s2, s3⟩ := slots_disciplined mx a L op hwf hl hr
    obtain ⟨i1, i2, i3⟩ := ih (step mx a L op).arr (step mx a L op).log s2 hrest
    show (run mx (step mx a L op).arr (step mx a L op).log ops).2.viol = _ ∧ WF (run mx (step mx a L op).arr (step mx a L op).log ops).1 ∧ _
    refine ⟨by rw [i1, s1], i2, ?_⟩
    show (run mx (step mx a L op).arr (step mx a L op).log ops).2.ctor + a.size + L.dtor
      = (run mx (step mx a L op).arr (step mx a L op).log ops).2.dtor + (run mx (step mx a L op).arr (step mx a L op).log ops).1.size + L.ctor
    omega

/-- from the empty array with a fresh log: zero violations, and exactly `size` objects are alive -/
theorem run_from_empty (mx : Nat) (ops : List Op) (hok : okRun mx {} {} ops) :
    (run mx {} {} ops).2.viol = 0 ∧ (run mx {} {} ops).2.ctor = (run mx {} {} ops).2.dtor + (run mx {} {} ops).1.size := by
  obtain ⟨h1, _, h3⟩ := run_disciplined mx ops {} {} ⟨[], rep_empty⟩ hok
  exact ⟨h1, by simpa using h3⟩

/-- the sequence refines the fold of the list operations (a throwing operation leaves the list as it was) -/
def specRun (mx : Nat) (a : Arr) (L : Log) (vs : List Elt) : List Op → List Elt
  | [] => vs
  | op :: ops =>
    specRun mx (step mx a L op).arr (step mx a L op).log (if (step mx a L op).thrown then vs else spec vs op) ops

theorem run_refines (mx : Nat) : ∀ (ops : List Op) (a : Arr) (L : Log) (vs : List Elt), Rep a vs → okRun mx a L ops →
    abs (run mx a L ops).1 = specRun mx a L vs ops := by
  intro ops
  induction ops with
  | nil => intro a L vs h _; exact abs_of_rep h
  | cons op ops ih =>
    intro a L vs h hok
    obtain ⟨hl, hr, hrest⟩ := hok
    show abs (run mx (step mx a L op).arr (step mx a L op).log ops).1 = specRun mx (step mx a L op).arr (step mx a L op).log _ ops
    rcases step_ok mx a L vs op h hl hr with hs | hs
    · rw [hs.nothrow]; exact ih _ _ _ hs.rep hrest
    · rw [hs.2.2]; exact ih _ _ _ (by rw [hs.1]; exact h) hrest

/-! ## capacity -/

/-- **capacity_growth** (growth formula): the new capacity holds the request, is at least the
minimum allocation, never exceeds max_size, and at least doubles unless max_size is reached. -/
theorem capacity_growth {mx cap n nc : Nat} (h : calcNewCapacityForGrowthBy mx cap n = some nc) :
    cap + n ≤ nc ∧ nc ≤ mx ∧ minAlloc mx ≤ nc ∧ (2 * cap ≤ nc ∨ nc = mx) := by
  unfold calcNewCapacityForGrowthBy at h
  by_cases h1 : cap + n ≤ mx
  · rw [if_pos h1] at h
    dsimp only at h
    simp only [Option.some.injEq] at h
    unfold minAlloc at h ⊢
    by_cases h2 : cap ≤ mx / 2
    · rw [if_pos h2] at h; omega
    · rw [if_neg h2] at h; omega
  · rw [if_neg h1] at h; simp at h

/-- growth fails exactly when `capacity + n` would exceed max_size -/
theorem capacity_growth_fails_iff (mx cap n : Nat) :
    calcNewCapacityForGrowthBy mx cap n = none ↔ mx < cap + n := by
  unfold calcNewCapacityForGrowthBy
  by_cases h1 : cap + n ≤ mx
  · rw [if_pos h1]; simp; omega
  · rw [if_neg h1]; simp; omega

/-- after every legal operation `size ≤ capacity` (part of well-formedness, stated on its own) -/
theorem size_le_capacity (mx : Nat) (a : Arr) (L : Log) (op : Op) (hwf : WF a)
    (hl : legal mx a op = true) (hr : refOK a op = true) :
    (step mx a L op).arr.size ≤ (step mx a L op).arr.cap := by
  obtain ⟨_, ⟨vs, hv⟩, _⟩ := slots_disciplined mx a L op hwf hl hr
  rw [hv.size]; exact hv.le

/-- `push_back` at full capacity: the capacity at least doubles or becomes max_size; otherwise unchanged -/
theorem push_back_capacity (mx : Nat) (a : Arr) (L : Log) (v : Elt) (hwf : WF a)
    (hnt : (pushBack mx a L (.ext v)).thrown = false) :
    (a.cap ≠ a.size → (pushBack mx a L (.ext v)).arr.cap = a.cap) ∧
    (a.cap = a.size → (2 * a.cap ≤ (pushBack mx a L (.ext v)).arr.cap ∨ (pushBack mx a L (.ext v)).arr.cap = mx) ∧
        a.cap + 1 ≤ (pushBack mx a L (.ext v)).arr.cap) := by
  obtain ⟨vs, h⟩ := hwf
  constructor
  · intro hne
    unfold pushBack
    rw [if_neg hne]
    simp [readRef, Ref.inPlace, construct, Arr.cap]
  · intro hfull
    cases hc : calcNewCapacityForGrowthBy mx a.cap 1 with
    | none =>
      have : (pushBack mx a L (.ext v)).thrown = true := by
        unfold pushBack growAtEnd; rw [if_pos hfull, hc]
      rw [this] at hnt; cases hnt
    | some nc =>
      obtain ⟨c1, c2, c3, c4⟩ := capacity_growth hc
      obtain ⟨m1, m2, m3⟩ := moveAll_spec L nc h (by have := h.le; unfold Arr.cap at c1; omega)
      have hcap : (pushBack mx a L (.ext v)).arr.cap = nc := by
        unfold pushBack growAtEnd
        rw [if_pos hfull, hc]
        simp [Arr.cap, construct, readRef, Ref.afterRealloc, m2]
      rw [hcap]; exact ⟨c4, c1⟩

/-! ## the hypothesis is necessary (finding F3) -/

/-- a full array `[10,20,30,40]` (size = capacity = 4) -/
def full4 : Arr := ⟨[some 10, some 20, some 30, some 40], 4⟩
/-- `[10,20,30,40]` with room for more (capacity 8) -/
def roomy4 : Arr := ⟨[some 10, some 20, some 30, some 40, none, none, none, none], 4⟩

theorem full4_wf : Rep full4 [10, 20, 30, 40] := ⟨rfl, by decide, by
  intro j
  match j with
  | 0 | 1 | 2 | 3 => rfl
  | j + 4 => have h1 : ¬ (j + 4 < 4) := by omega
             simp [full4, cellAt, h1]⟩

theorem roomy4_wf : Rep roomy4 [10, 20, 30, 40] := ⟨rfl, by decide, by
  intro j
  match j with
  | 0 | 1 | 2 | 3 | 4 | 5 | 6 | 7 => rfl
  | j + 8 => have h1 : ¬ (j + 8 < 4) := by omega
             have h2 : ¬ (j + 8 < 8) := by omega
             simp [roomy4, cellAt, h1, h2]⟩

/-- `a.push_back(a[0])` at full capacity reads an element of the freed block: a discipline violation,
and the array does not end up as `std::vector` would (`[10,20,30,40,10]`). -/
theorem push_back_alias_breaks_discipline :
    (step 1000 full4 {} (.pushBack (.slot 0))).log.viol = 1 ∧
    abs (step 1000 full4 {} (.pushBack (.slot 0))).arr ≠ spec [10, 20, 30, 40] (.pushBack (.slot 0)) := by
  decide

/-- `a.insert(a.begin(), a[2])` with spare capacity: no reallocation, but the shift has moved the
element the reference points to — the wrong value (`20`, not `30`) is inserted without any violation. -/
theorem insert_alias_breaks_refinement :
    (step 1000 roomy4 {} (.insert 0 (.slot 2))).log.viol = 0 ∧
    abs (step 1000 roomy4 {} (.insert 0 (.slot 2))).arr = [20, 10, 20, 30, 40] ∧
    spec [10, 20, 30, 40] (.insert 0 (.slot 2)) = [30, 10, 20, 30, 40] := by
  decide

/-- `a.insert(a.begin()+1, a[1])` with spare capacity copies from the moved-from, destructed slot -/
theorem insert_alias_reads_dead :
    (step 1000 roomy4 {} (.insert 1 (.slot 1))).log.viol = 1 := by
  decide

/-- `a.insert(p, n, a[i])` and `a.resize(n, a[i])` under reallocation read freed elements, `n` times -/
theorem insertN_resize_alias_break_discipline :
    (step 1000 full4 {} (.insertN 1 2 (.slot 3))).log.viol = 2 ∧
    (step 1000 full4 {} (.resizeFill 6 (.slot 1))).log.viol = 2 := by
  decide

/-- non-vacuity of `refOK`: the same calls with a non-disturbed element are fine -/
example : refOK roomy4 (.pushBack (.slot 0)) = true ∧ refOK roomy4 (.insert 3 (.slot 1)) = true ∧
    legal 1000 roomy4 (.insert 3 (.slot 1)) = true := by decide

end C26
