import SimbodyModel.C27
import SimbodyProofs.Spatial

/-!
# C27 — Rotations and transforms are proper and conversions round-trip

All statements are about the executable model `SimbodyModel/Spatial.lean` (mirrors `Rotation.h/.cpp`,
`Quaternion.h/.cpp`, `Transform.h`, `UnitVec.h`) over an arbitrary field `K` (ordered where the code
compares).  Angles are trig pairs with `c*c + s*s = 1`; `sqrt` is any function satisfying `SqrtSpec`.
-/
namespace C27
open Spatial Spatial.Mat33 Spatial.Rotation

/-- a trig pair really is the cosine/sine of something -/
def TrigValid {K : Type} [Mul K] [Add K] [OfNat K 1] (t : Trig K) : Prop := t.c * t.c + t.s * t.s = 1

/-- closes componentwise goals that are polynomial identities, possibly modulo one `c²+s²=1` -/
macro "ext_ring" : tactic => `(tactic| ((try ext) <;> (try simp only []) <;> ring1))

section Field
variable {K : Type} [Field K]

/-! ## Constructors from angles -/

theorem trig_neg_valid (t : Trig K) (h : TrigValid t) : TrigValid t.neg := by
  unfold TrigValid Trig.neg at *; linear_combination h

theorem trig_add_valid (a b : Trig K) (ha : TrigValid a) (hb : TrigValid b) : TrigValid (Trig.add a b) := by
  unfold TrigValid Trig.add at *
  linear_combination (b.c * b.c + b.s * b.s) * ha + hb

/-- `setRotationFromAngleAboutX/Y/Z` produce proper rotations -/
theorem aboutAxis_proper (t : Trig K) (h : TrigValid t) (a : Axis) : IsProper (aboutAxis t a) := by
  unfold TrigValid at h
  cases a <;> refine ⟨?_, ?_, ?_⟩ <;> simp only [aboutAxis] <;> spatial_unfold <;> (try ext) <;>
    (try simp only []) <;> first | ring1 | linear_combination h

/-- **all 9 axis pairs, body- and space-fixed**: `setRotationFromTwoAnglesTwoAxes` is the product of the two
elementary rotations in the documented order (body-fixed: `R₁(θ₁) R₂(θ₂)`; space-fixed: `R₂(θ₂) R₁(θ₁)`),
including the same-axis shortcut and the reverse-cyclical sign flips -/
theorem fromTwoAngles_eq_product (space : Bool) (t1 t2 : Trig K) (a1 a2 : Axis) :
    fromTwoAngles space t1 a1 t2 a2 =
      if space then (aboutAxis t2 a2).mul (aboutAxis t1 a1) else (aboutAxis t1 a1).mul (aboutAxis t2 a2) := by
  cases space <;> cases a1 <;> cases a2 <;>
    simp [fromTwoAngles, twoAngleBodyFwd, aboutAxis, Mat33.place, Mat33.ofFn, Mat33.get, Axis.pos,
      Axis.isReverseCyclical, Axis.prev, Trig.neg, Trig.add, Mat33.mul, -Mat33.mk.injEq] <;> ext_ring

theorem fromTwoAngles_proper (space : Bool) (t1 t2 : Trig K) (h1 : TrigValid t1) (h2 : TrigValid t2)
    (a1 a2 : Axis) : IsProper (fromTwoAngles space t1 a1 t2 a2) := by
  rw [fromTwoAngles_eq_product]
  cases space
  · exact (aboutAxis_proper t1 h1 a1).mul (aboutAxis_proper t2 h2 a2)
  · exact (aboutAxis_proper t2 h2 a2).mul (aboutAxis_proper t1 h1 a1)

/-- **all 27 axis triples (12 proper Euler sequences + degenerate ones), body- and space-fixed**:
`setRotationFromThreeAnglesThreeAxes` is the product of the three elementary rotations -/
theorem fromThreeAngles_eq_product (space : Bool) (t1 t2 t3 : Trig K) (a1 a2 a3 : Axis) :
    fromThreeAngles space t1 a1 t2 a2 t3 a3 =
      if space then ((aboutAxis t3 a3).mul (aboutAxis t2 a2)).mul (aboutAxis t1 a1)
      else ((aboutAxis t1 a1).mul (aboutAxis t2 a2)).mul (aboutAxis t3 a3) := by
  cases space <;> cases a1 <;> cases a2 <;> cases a3 <;>
    simp [fromThreeAngles, fromTwoAngles, twoAngleBodyFwd, threeAngleTwoAxesBodyFwd, threeAngleThreeAxesBodyFwd,
      aboutAxis, Mat33.place, Mat33.ofFn, Mat33.get, Axis.pos, Axis.isReverseCyclical, Axis.prev, Trig.neg,
      Trig.add, Mat33.mul, -Mat33.mk.injEq] <;> ext_ring

theorem fromThreeAngles_proper (space : Bool) (t1 t2 t3 : Trig K) (h1 : TrigValid t1) (h2 : TrigValid t2)
    (h3 : TrigValid t3) (a1 a2 a3 : Axis) : IsProper (fromThreeAngles space t1 a1 t2 a2 t3 a3) := by
  rw [fromThreeAngles_eq_product]
  have p1 := aboutAxis_proper t1 h1 a1
  have p2 := aboutAxis_proper t2 h2 a2
  have p3 := aboutAxis_proper t3 h3 a3
  cases space
  · exact (p1.mul p2).mul p3
  · exact (p3.mul p2).mul p1

/-- the 18-flop special case `setRotationToBodyFixedXYZ(c,s)` agrees with the general routine -/
theorem bodyFixedXYZ_eq (t0 t1 t2 : Trig K) :
    bodyFixedXYZ t0 t1 t2 = fromThreeAngles false t0 .X t1 .Y t2 .Z := by
  simp [bodyFixedXYZ, fromThreeAngles, threeAngleThreeAxesBodyFwd, Mat33.place, Mat33.ofFn, Mat33.get, Axis.pos,
    Axis.isReverseCyclical, Axis.prev, -Mat33.mk.injEq]; ext_ring

theorem bodyFixedXYZ_proper (t0 t1 t2 : Trig K) (h0 : TrigValid t0) (h1 : TrigValid t1) (h2 : TrigValid t2) :
    IsProper (bodyFixedXYZ t0 t1 t2) := by
  rw [bodyFixedXYZ_eq]; exact fromThreeAngles_proper false t0 t1 t2 h0 h1 h2 .X .Y .Z

/-! ## Quaternion → rotation -/

/-- `R(q)ᵀ R(q) = |q|⁴ I`, `R(q) R(q)ᵀ = |q|⁴ I`, `det R(q) = |q|⁶` for *any* quaternion -/
theorem fromQuaternion_gram (q : Quaternion K) :
    (fromQuaternion q).transpose.mul (fromQuaternion q) = Mat33.smul (q.normSq * q.normSq) Mat33.one ∧
    (fromQuaternion q).mul (fromQuaternion q).transpose = Mat33.smul (q.normSq * q.normSq) Mat33.one ∧
    (fromQuaternion q).det = q.normSq * q.normSq * q.normSq := by
  refine ⟨?_, ?_, ?_⟩ <;> simp only [fromQuaternion] <;> spatial_unfold <;> ext_ring

/-- a unit quaternion gives a proper rotation -/
theorem fromQuaternion_proper (q : Quaternion K) (h : q.normSq = 1) : IsProper (fromQuaternion q) := by
  obtain ⟨h1, h2, h3⟩ := fromQuaternion_gram q
  refine ⟨?_, ?_, ?_⟩
  · rw [h1, h]; spatial_unfold; ext_ring
  · rw [h2, h]; spatial_unfold; ext_ring
  · rw [h3, h]; ring

/-- `q` and `-q` are the same rotation -/
theorem fromQuaternion_neg (q : Quaternion K) : fromQuaternion q.neg = fromQuaternion q := by
  simp only [fromQuaternion, Quaternion.neg]; ext_ring

/-- `R` is homogeneous of degree 2 -/
theorem fromQuaternion_smul (k : K) (q : Quaternion K) :
    fromQuaternion (Quaternion.smul k q) = Mat33.smul (k * k) (fromQuaternion q) := by
  simp only [fromQuaternion, Quaternion.smul, Mat33.smul]; ext_ring

/-- quaternion multiplication is composition of rotations: `R(a ⊗ b) = R(a) R(b)` -/
theorem fromQuaternion_hamilton (a b : Quaternion K) :
    fromQuaternion (Quaternion.hamilton a b) = (fromQuaternion a).mul (fromQuaternion b) := by
  simp only [fromQuaternion, Quaternion.hamilton, Mat33.mul]; ext_ring

theorem hamilton_normSq (a b : Quaternion K) : (Quaternion.hamilton a b).normSq = a.normSq * b.normSq := by
  spatial_unfold; ring


/-! ## Transform / InverseTransform -/

theorem compose_assoc (a b c : Transform K) : (a.compose b).compose c = a.compose (b.compose c) := by
  simp only [Transform.compose]
  rw [Mat33.mul_assoc]
  congr 1
  spatial_ring

/-- `(X∘Y)·s = X·(Y·s)` -/
theorem shift_compose (a b : Transform K) (s : Vec3 K) :
    (a.compose b).shiftFrameStationToBase s = a.shiftFrameStationToBase (b.shiftFrameStationToBase s) := by
  simp only [Transform.compose, Transform.shiftFrameStationToBase]; spatial_ring

/-- **Transform inverse composes to identity** (both sides) for a proper rotation part -/
theorem compose_invert (X : Transform K) (h : IsProper X.R) :
    X.compose X.invert = Transform.identity ∧ X.invert.compose X = Transform.identity := by
  have hp := h.mult
  have ht := h.tmul
  constructor
  · simp only [Transform.compose, Transform.invert, Transform.identity]
    rw [hp]
    congr 1
    rw [show X.R.mulVec (X.R.tmulVec X.p).neg = (X.R.mulVec (X.R.tmulVec X.p)).neg from Mat33.mulVec_neg _ _,
      h.mulVec_tmulVec]
    spatial_ring
  · simp only [Transform.compose, Transform.invert, Transform.identity, Mat33.tmulVec]
    rw [ht]; congr 1; spatial_ring

/-- the structured `InverseTransform_::compose` formulas are composition with the explicit inverse -/
theorem invCompose_eq (X Y : Transform K) : X.invCompose Y = X.invert.compose Y := by
  simp only [Transform.invCompose, Transform.compose, Transform.invert]; congr 1; spatial_ring

theorem composeInv_eq (X Y : Transform K) : X.composeInv Y = X.compose Y.invert := by
  simp only [Transform.composeInv, Transform.compose, Transform.invert]

/-- `InverseTransform_` station shifts are the shifts of the explicit inverse -/
theorem invShift_eq (X : Transform K) (h : IsProper X.R) (s : Vec3 K) :
    X.invShiftFrameStationToBase s = X.invert.shiftFrameStationToBase s ∧
    X.invShiftBaseStationToFrame s = X.invert.shiftBaseStationToFrame s := by
  constructor
  · simp only [Transform.invShiftFrameStationToBase, Transform.shiftFrameStationToBase, Transform.invert]; spatial_ring
  · simp only [Transform.invShiftBaseStationToFrame, Transform.shiftBaseStationToFrame, Transform.invert,
      Mat33.tmulVec, Mat33.transpose_transpose]
    have e : s.sub (X.R.transpose.mulVec X.p).neg = s.add (X.R.transpose.mulVec X.p) := by spatial_ring
    rw [e, Mat33.mulVec_add]
    have := h.mulVec_tmulVec X.p
    unfold Mat33.tmulVec at this
    rw [this]

/-- station round trip `~X·(X·s) = s` and `X·(~X·s) = s` -/
theorem shift_roundtrip (X : Transform K) (h : IsProper X.R) (s : Vec3 K) :
    X.shiftBaseStationToFrame (X.shiftFrameStationToBase s) = s ∧
    X.shiftFrameStationToBase (X.shiftBaseStationToFrame s) = s := by
  constructor
  · simp only [Transform.shiftBaseStationToFrame, Transform.shiftFrameStationToBase]
    rw [show (X.p.add (X.R.mulVec s)).sub X.p = X.R.mulVec s by spatial_ring, h.tmulVec_mulVec]
  · simp only [Transform.shiftBaseStationToFrame, Transform.shiftFrameStationToBase]
    rw [h.mulVec_tmulVec]; spatial_ring

theorem invert_invert (X : Transform K) (h : IsProper X.R) : X.invert.invert = X := by
  simp only [Transform.invert, Mat33.transpose_transpose]
  have := h.mulVec_tmulVec X.p
  ext1
  · rfl
  · simp only [Mat33.tmulVec, Mat33.transpose_transpose]
    rw [Mat33.mulVec_neg]; rw [show X.R.mulVec (X.R.transpose.mulVec X.p) = X.p from this]; spatial_ring

/-! ## Re-expression of a symmetric matrix -/

/-- **`reexpressSymMat33` (Featherstone's 57-flop trick) equals `R S Rᵀ`** for every proper rotation `R` and
symmetric `S` — all nine entries (proof: `Spatial.Rotation.reexpressSymMat33_eq'` in SimbodyProofs/Spatial.lean,
by explicit `linear_combination` certificates over the orthonormality and cofactor relations) -/
theorem reexpressSymMat33_eq (R : Mat33 K) (h : IsProper R) (S : SymMat33 K) :
    (reexpressSymMat33 R S).toMat33 = (R.mul S.toMat33).mul R.transpose :=
  Spatial.Rotation.reexpressSymMat33_eq' R h S

/-- `InverseRotation_::reexpressSymMat33`: the same routine on the transposed matrix gives `Rᵀ S R` -/
theorem reexpressSymMat33_inverse (R : Mat33 K) (h : IsProper R) (S : SymMat33 K) :
    (reexpressSymMat33 R.transpose S).toMat33 = (R.transpose.mul S.toMat33).mul R := by
  have := Spatial.Rotation.reexpressSymMat33_eq' R.transpose h.transpose S
  rwa [Mat33.transpose_transpose] at this

/-! ## Orthonormal triples -/

/-- orthonormal columns and determinant one already give a proper rotation -/
theorem isProper_of_tmul_det (R : Mat33 K) (h1 : R.transpose.mul R = Mat33.one) (h2 : R.det = 1) : IsProper R := by
  have hadj : R.adj = R.transpose := by
    have e : (R.transpose.mul R).mul R.adj = R.transpose.mul (Mat33.smul R.det Mat33.one) := by
      rw [Mat33.mul_assoc, Mat33.mul_adj]
    rw [h1, Mat33.one_mul, h2] at e
    rw [e]; spatial_ring
  refine ⟨h1, ?_, h2⟩
  have := Mat33.mul_adj R
  rw [hadj, h2] at this
  rw [this]; spatial_ring

/-- a right-handed orthonormal triple `(u, w, u×w)` written into the columns in any cyclic order is a proper rotation -/
theorem triple_proper (u w : Vec3 K) (huu : u.dot u = 1) (hww : w.dot w = 1) (huw : u.dot w = 0) (a : Axis) :
    IsProper (Mat33.ofAxisCols a u a.next w (u.cross w)) := by
  simp only [Vec3.dot] at huu hww huw
  cases a <;> apply isProper_of_tmul_det <;>
    simp [Mat33.ofAxisCols, Mat33.ofFn, Vec3.get, Axis.next, Vec3.cross, Mat33.transpose, Mat33.mul, Mat33.one,
      Mat33.diag, Mat33.det, -Mat33.mk.injEq] <;> (try ext) <;> (try simp only []) <;>
    first
    | ring1
    | linear_combination huu
    | linear_combination hww
    | linear_combination huw
    | linear_combination (w.x * w.x + w.y * w.y + w.z * w.z) * huu + hww - (u.x * w.x + u.y * w.y + u.z * w.z) * huw

/-- `R(q) u = |q|² u` for the vector part `u` of `q` -/
theorem fromQuaternion_axis (q : Quaternion K) :
    (fromQuaternion q).mulVec ⟨q.x, q.y, q.z⟩ = Vec3.smul q.normSq ⟨q.x, q.y, q.z⟩ := by
  simp only [fromQuaternion]; spatial_ring

end Field

/-! ## Rotation → quaternion (Spurrier's 4-branch extraction) and the round trips -/
section Ordered
variable {K : Type} [Field K] [LinearOrder K] [IsStrictOrderedRing K]

/-- the algebraic specification assumed of the square-root routine -/
structure SqrtSpec (sqrt : K → K) : Prop where
  sq : ∀ x, 0 ≤ x → sqrt x * sqrt x = x
  nonneg : ∀ x, 0 ≤ x → 0 ≤ sqrt x

omit [LinearOrder K] [IsStrictOrderedRing K] in
theorem quat_normSq_smul (k : K) (q : Quaternion K) : (Quaternion.smul k q).normSq = k * k * q.normSq := by
  spatial_unfold; ring

/-- **Spurrier extraction, every branch**: for a unit quaternion `q` the un-normalised 4-vector computed from
`R(q)` is `4 q_m · q` where `m` is the branch taken, and `q_m ≠ 0` in that branch -/
theorem quatPre_fromQuaternion (q : Quaternion K) (h : q.normSq = 1) :
    ∃ k : K, k ≠ 0 ∧ quatPre (fromQuaternion q) = Quaternion.smul k q := by
  have hn : q.w * q.w + q.x * q.x + q.y * q.y + q.z * q.z = 1 := h
  have hw := mul_self_nonneg q.w
  have hx := mul_self_nonneg q.x
  have hy := mul_self_nonneg q.y
  have hz := mul_self_nonneg q.z
  have e0 : (fromQuaternion q).trace - (fromQuaternion q).m00 = 2 * (q.w * q.w - q.x * q.x) := by
    simp only [fromQuaternion, Mat33.trace]; ring
  have e1 : (fromQuaternion q).trace - (fromQuaternion q).m11 = 2 * (q.w * q.w - q.y * q.y) := by
    simp only [fromQuaternion, Mat33.trace]; ring
  have e2 : (fromQuaternion q).trace - (fromQuaternion q).m22 = 2 * (q.w * q.w - q.z * q.z) := by
    simp only [fromQuaternion, Mat33.trace]; ring
  have e3 : (fromQuaternion q).m00 - (fromQuaternion q).m11 = 2 * (q.x * q.x - q.y * q.y) := by
    simp only [fromQuaternion]; ring
  have e4 : (fromQuaternion q).m00 - (fromQuaternion q).m22 = 2 * (q.x * q.x - q.z * q.z) := by
    simp only [fromQuaternion]; ring
  have e5 : (fromQuaternion q).m11 - (fromQuaternion q).m22 = 2 * (q.y * q.y - q.z * q.z) := by
    simp only [fromQuaternion]; ring
  unfold quatPre quatBranch
  simp only []
  split_ifs with c0 c1 c2
  · obtain ⟨a1, a2, a3⟩ := c0
    rw [not_lt] at a1 a2 a3
    refine ⟨4 * q.w, ?_, ?_⟩
    · intro hk
      have hw0 : q.w = 0 := by linarith
      rw [hw0] at e0 e1 e2
      nlinarith
    · simp only [fromQuaternion, Mat33.trace, Quaternion.smul]
      ext <;> simp only [] <;> first | ring1 | linear_combination (-1 : K) * hn
  · obtain ⟨a1, a2⟩ := c1
    rw [not_lt] at a1 a2
    refine ⟨4 * q.x, ?_, ?_⟩
    · intro hk
      have hx0 : q.x = 0 := by linarith
      rw [hx0] at e0 e3 e4
      apply c0
      refine ⟨?_, ?_, ?_⟩ <;> rw [not_lt] <;> nlinarith
    · simp only [fromQuaternion, Mat33.trace, Quaternion.smul]
      ext <;> simp only [] <;> first | ring1 | linear_combination (-1 : K) * hn
  · refine ⟨4 * q.z, ?_, ?_⟩
    · intro hk
      have hz0 : q.z = 0 := by linarith
      rw [hz0] at e5
      nlinarith
    · simp only [fromQuaternion, Mat33.trace, Quaternion.smul]
      ext <;> simp only [] <;> first | ring1 | linear_combination (-1 : K) * hn
  · rw [not_lt] at c2
    refine ⟨4 * q.y, ?_, ?_⟩
    · intro hk
      have hy0 : q.y = 0 := by linarith
      rw [hy0] at e3 e5
      apply c1
      have hz0 : q.z * q.z = 0 := by nlinarith
      refine ⟨?_, ?_⟩ <;> rw [not_lt] <;> nlinarith
    · simp only [fromQuaternion, Mat33.trace, Quaternion.smul]
      ext <;> simp only [] <;> first | ring1 | linear_combination (-1 : K) * hn

/-- normalising `k·q` (`k ≠ 0`, `|q| = 1`) with the sign rule of `convertRotationToQuaternion` returns `±q`
with a non-negative scalar part: the normalisation is homogeneous of degree 0 -/
theorem normalize_smul (sqrt : K → K) (hs : SqrtSpec sqrt) (k : K) (hk : k ≠ 0) (q : Quaternion K)
    (h : q.normSq = 1) :
    let p := Quaternion.smul k q
    let scale := sqrt p.normSq
    let r := Quaternion.divS p (if p.w < 0 then -scale else scale)
    (r = q ∨ r = q.neg) ∧ 0 ≤ r.w := by
  intro p scale r
  have hp : p.normSq = k * k := by
    show (Quaternion.smul k q).normSq = k * k
    rw [quat_normSq_smul, h, _root_.mul_one]
  have hkk : 0 < k * k := mul_self_pos.mpr hk
  have hsq : scale * scale = k * k := by
    show sqrt p.normSq * sqrt p.normSq = k * k
    rw [hs.sq _ (by rw [hp]; exact hkk.le), hp]
  have hnn : 0 ≤ scale := hs.nonneg _ (by rw [hp]; exact hkk.le)
  have hpos : 0 < scale := by
    rcases hnn.lt_or_eq with h1 | h1
    · exact h1
    · rw [← h1] at hsq; nlinarith
  have hcase : scale = k ∨ scale = -k := by
    have : (scale - k) * (scale + k) = 0 := by linear_combination hsq
    rcases mul_eq_zero.mp this with h1 | h1
    · left; linarith
    · right; linarith
  have hpw : p.w = k * q.w := rfl
  have key : ∀ d : K, d ≠ 0 → (d = k → Quaternion.divS p d = q) ∧ (d = -k → Quaternion.divS p d = q.neg) := by
    intro d hd
    refine ⟨?_, ?_⟩
    · intro e; subst e
      show Quaternion.divS (Quaternion.smul d q) d = q
      simp only [Quaternion.divS, Quaternion.smul]; ext <;> simp only [] <;> field_simp
    · intro e
      show Quaternion.divS (Quaternion.smul k q) d = q.neg
      rw [e]
      simp only [Quaternion.divS, Quaternion.smul, Quaternion.neg]; ext <;> simp only [] <;> field_simp
  by_cases hneg : p.w < 0
  · have hr : r = Quaternion.divS p (-scale) := by show Quaternion.divS p (if p.w < 0 then -scale else scale) = _; rw [if_pos hneg]
    have hrw : r.w = p.w / (-scale) := by rw [hr]; rfl
    refine ⟨?_, ?_⟩
    · rw [hr]
      rcases hcase with h1 | h1
      · right; exact (key (-scale) (neg_ne_zero.mpr hpos.ne')).2 (by rw [h1])
      · left; exact (key (-scale) (neg_ne_zero.mpr hpos.ne')).1 (by rw [h1]; ring)
    · rw [hrw]; exact le_of_lt (div_pos_of_neg_of_neg hneg (by linarith))
  · have hr : r = Quaternion.divS p scale := by show Quaternion.divS p (if p.w < 0 then -scale else scale) = _; rw [if_neg hneg]
    have hrw : r.w = p.w / scale := by rw [hr]; rfl
    refine ⟨?_, ?_⟩
    · rw [hr]
      rcases hcase with h1 | h1
      · left; exact (key scale hpos.ne').1 h1
      · right; exact (key scale hpos.ne').2 h1
    · rw [hrw]; exact div_nonneg (not_lt.mp hneg) hnn

/-- **quaternion → rotation → quaternion** (`convertRotationToQuaternion ∘ setRotationFromQuaternion`): for every
unit quaternion, in every branch of the trace test, the result is `q` or `-q`, canonical (`w ≥ 0`) -/
theorem toQuaternion_fromQuaternion (sqrt : K → K) (hs : SqrtSpec sqrt) (q : Quaternion K) (h : q.normSq = 1) :
    (toQuaternion sqrt (fromQuaternion q) = q ∨ toQuaternion sqrt (fromQuaternion q) = q.neg) ∧
    0 ≤ (toQuaternion sqrt (fromQuaternion q)).w := by
  obtain ⟨k, hk, hpre⟩ := quatPre_fromQuaternion q h
  unfold toQuaternion
  simp only [hpre]
  exact normalize_smul sqrt hs k hk q h

/-- **rotation → quaternion → rotation** on the image of the unit quaternions (that every proper rotation over ℝ lies in
that image is classical and not proved here) -/
theorem fromQuaternion_toQuaternion (sqrt : K → K) (hs : SqrtSpec sqrt) (q : Quaternion K) (h : q.normSq = 1) :
    fromQuaternion (toQuaternion sqrt (fromQuaternion q)) = fromQuaternion q := by
  rcases (toQuaternion_fromQuaternion sqrt hs q h).1 with e | e <;> rw [e]
  exact fromQuaternion_neg q

/-! ## Angle–axis, unit vectors, axis constructions -/

/-- **angle–axis constructor** (`setRotationFromAngleAboutUnitVector`; `h` is the trig pair of the half angle):
proper, leaves the axis fixed, and has trace `1 + 2 cos θ` (with `cos θ = c² − s²`) -/
theorem fromAngleAboutUnitVector_spec (h : Trig K) (hv : TrigValid h) (v : Vec3 K) (hn : v.dot v = 1) :
    IsProper (fromAngleAboutUnitVector h v) ∧ (fromAngleAboutUnitVector h v).mulVec v = v ∧
    (fromAngleAboutUnitVector h v).trace = 1 + 2 * (h.c * h.c - h.s * h.s) := by
  unfold TrigValid at hv
  simp only [Vec3.dot] at hn
  unfold fromAngleAboutUnitVector Quaternion.fromAngleAxis
  by_cases hc : h.c < 0
  · simp only [hc, if_true]
    refine ⟨fromQuaternion_proper _ ?_, ?_, ?_⟩
    · simp only [Quaternion.normSq]; linear_combination hv + h.s * h.s * hn
    · simp only [fromQuaternion]; spatial_unfold; ext <;> simp only []
      · linear_combination (v.x * h.s * h.s) * hn + v.x * hv
      · linear_combination (v.y * h.s * h.s) * hn + v.y * hv
      · linear_combination (v.z * h.s * h.s) * hn + v.z * hv
    · simp only [fromQuaternion, Mat33.trace]; linear_combination (-h.s * h.s) * hn + hv
  · simp only [hc, if_false]
    refine ⟨fromQuaternion_proper _ ?_, ?_, ?_⟩
    · simp only [Quaternion.normSq]; linear_combination hv + h.s * h.s * hn
    · simp only [fromQuaternion]; spatial_unfold; ext <;> simp only []
      · linear_combination (v.x * h.s * h.s) * hn + v.x * hv
      · linear_combination (v.y * h.s * h.s) * hn + v.y * hv
      · linear_combination (v.z * h.s * h.s) * hn + v.z * hv
    · simp only [fromQuaternion, Mat33.trace]; linear_combination (-h.s * h.s) * hn + hv

/-- `UnitVec(v)`: normalisation produces a unit vector whenever `v ≠ 0` -/
theorem normalize_unit (sqrt : K → K) (hs : SqrtSpec sqrt) (v : Vec3 K) (hv : 0 < v.dot v) :
    (Vec3.normalize sqrt v).dot (Vec3.normalize sqrt v) = 1 := by
  have hsq := hs.sq _ hv.le
  have hne : sqrt (v.dot v) ≠ 0 := by
    intro e; rw [e] at hsq; linarith
  simp only [Vec3.normalize, Vec3.normSq, Vec3.divS]
  generalize sqrt (v.dot v) = s at hsq hne
  simp only [Vec3.dot] at hsq ⊢
  field_simp
  linear_combination -hsq

theorem sqrt_one (sqrt : K → K) (hs : SqrtSpec sqrt) : sqrt 1 = 1 := by
  have h1 := hs.sq 1 zero_le_one
  have h2 := hs.nonneg 1 zero_le_one
  have : (sqrt 1 - 1) * (sqrt 1 + 1) = 0 := by linear_combination h1
  rcases mul_eq_zero.mp this with e | e
  · linarith
  · linarith

omit [IsStrictOrderedRing K] in
/-- **`UnitVec::perp` is orthogonal to its argument** (for every input, whatever `sqrt` does) -/
theorem perp_orthogonal (sqrt : K → K) (v : Vec3 K) : v.dot (Vec3.perp sqrt v) = 0 := by
  unfold Vec3.perp
  generalize Vec3.perpAxis v = a
  cases a <;> simp only [Vec3.normalize, Vec3.divS, Vec3.cross, Vec3.unit, Vec3.dot] <;> ring

theorem absK_eq_abs (x : K) : absK x = |x| := by
  unfold absK
  split_ifs with h
  · exact (abs_of_neg h).symm
  · exact (abs_of_nonneg (not_lt.mp h)).symm

/-- the axis `perp` crosses with has the smallest component -/
theorem perpAxis_min (v : Vec3 K) (b : Axis) : (v.get (Vec3.perpAxis v)) ^ 2 ≤ (v.get b) ^ 2 := by
  unfold Vec3.perpAxis
  simp only [Vec3.abs, absK_eq_abs, not_lt]
  split_ifs with h1 h2 h3 <;> cases b <;> simp only [Vec3.get] <;> rw [sq_le_sq] <;>
    first | exact le_refl _ | assumption | (rw [not_le] at *; linarith)

/-- **`UnitVec::perp` of a unit vector is a unit vector** (the cross product cannot vanish: the smallest
component has square ≤ 1/3) -/
theorem perp_unit (sqrt : K → K) (hs : SqrtSpec sqrt) (v : Vec3 K) (hn : v.dot v = 1) :
    (Vec3.perp sqrt v).dot (Vec3.perp sqrt v) = 1 := by
  unfold Vec3.perp
  apply normalize_unit sqrt hs
  have hx := perpAxis_min v .X
  have hy := perpAxis_min v .Y
  have hz := perpAxis_min v .Z
  simp only [Vec3.dot] at hn
  generalize Vec3.perpAxis v = a at hx hy hz
  cases a <;> simp only [Vec3.get] at hx hy hz <;> simp only [Vec3.cross, Vec3.unit, Vec3.dot] <;> nlinarith

/-- **`setRotationFromOneAxis`** gives a proper rotation whose `axis` column is the given unit vector -/
theorem fromOneAxis_proper (sqrt : K → K) (hs : SqrtSpec sqrt) (u : Vec3 K) (hn : u.dot u = 1) (a : Axis) :
    IsProper (fromOneAxis sqrt u a) ∧ (fromOneAxis sqrt u a).col a = u := by
  have hpo := perp_orthogonal sqrt u
  have hpu := perp_unit sqrt hs u hn
  unfold fromOneAxis
  simp only []
  generalize Vec3.perp sqrt u = w at hpo hpu
  -- u × w is already a unit vector, so the normalisation divides by sqrt 1 = 1
  have hcross : (u.cross w).dot (u.cross w) = 1 := by
    simp only [Vec3.dot, Vec3.cross] at *
    linear_combination (w.x * w.x + w.y * w.y + w.z * w.z) * hn + hpu - (u.x * w.x + u.y * w.y + u.z * w.z) * hpo
  have hnorm : Vec3.normalize sqrt (u.cross w) = u.cross w := by
    simp only [Vec3.normalize, Vec3.normSq, hcross, sqrt_one sqrt hs, Vec3.divS, div_one]
  rw [hnorm]
  refine ⟨triple_proper u w hn hpu hpo a, ?_⟩
  cases a <;> simp [Mat33.ofAxisCols, Mat33.ofFn, Mat33.col, Vec3.get]

omit [LinearOrder K] [IsStrictOrderedRing K] in
theorem normalize_dot (sqrt : K → K) (v w : Vec3 K) :
    (Vec3.normalize sqrt v).dot w = v.dot w / sqrt (v.dot v) := by
  simp only [Vec3.normalize, Vec3.normSq, Vec3.divS, Vec3.dot]; ring

/-- **`setRotationFromTwoAxes`** (every branch: fallback to one axis when the second vector is zero, the axes
coincide or the vectors are nearly parallel; otherwise the cross-product construction with or without the
axis swap) gives a proper rotation whose `axisi` column is the given unit vector -/
theorem fromTwoAxes_proper (sqrt : K → K) (hs : SqrtSpec sqrt) (sqrtEps : K) (he : 0 < sqrtEps) (u : Vec3 K)
    (hn : u.dot u = 1) (axi : Axis) (vj : Vec3 K) (axj : Axis) (vjZero : Bool)
    (hz : vjZero = false → 0 < vj.dot vj) :
    IsProper (fromTwoAxes sqrt sqrtEps u axi vj axj vjZero) ∧ (fromTwoAxes sqrt sqrtEps u axi vj axj vjZero).col axi = u := by
  unfold fromTwoAxes
  simp only []
  split_ifs with c1 c2 c3
  · exact fromOneAxis_proper sqrt hs u hn axi
  · exact fromOneAxis_proper sqrt hs u hn axi
  all_goals
    have hvz : vjZero = false := by
      cases vjZero
      · rfl
      · exact absurd (Or.inl rfl) c1
    have hvj := hz hvz
    have hck : 0 < (u.cross vj).dot (u.cross vj) := by
      have : sqrtEps * vj.normSq ≤ (u.cross vj).normSq := not_lt.mp c2
      have h2 : 0 < sqrtEps * vj.normSq := mul_pos he hvj
      exact lt_of_lt_of_le h2 this
    have huk1 := normalize_unit sqrt hs (u.cross vj) hck
    have huk0 : (Vec3.normalize sqrt (u.cross vj)).dot u = 0 := by
      rw [normalize_dot]
      have : (u.cross vj).dot u = 0 := by simp only [Vec3.cross, Vec3.dot]; ring
      rw [this, zero_div]
    generalize Vec3.normalize sqrt (u.cross vj) = uk at huk1 huk0
    have hcross : (uk.cross u).dot (uk.cross u) = 1 := by
      simp only [Vec3.dot, Vec3.cross] at *
      linear_combination (u.x * u.x + u.y * u.y + u.z * u.z) * huk1 + hn - (uk.x * u.x + uk.y * u.y + uk.z * u.z) * huk0
    have hnorm : Vec3.normalize sqrt (uk.cross u) = uk.cross u := by
      simp only [Vec3.normalize, Vec3.normSq, hcross, sqrt_one sqrt hs, Vec3.divS, div_one]
    simp only [hnorm]
    have huj0 : u.dot (uk.cross u) = 0 := by simp only [Vec3.cross, Vec3.dot]; ring
  · -- axes swapped: columns (axisi, next, next.next) = (u, -uk, uk × u)
    have e : Mat33.ofAxisCols axi u axi.next.next (uk.cross u) uk.neg
        = Mat33.ofAxisCols axi u axi.next uk.neg (u.cross uk.neg) := by
      cases axi <;> simp [Mat33.ofAxisCols, Mat33.ofFn, Vec3.get, Axis.next, Vec3.cross, Vec3.neg, -Mat33.mk.injEq] <;>
        (ext <;> simp only [] <;> ring1)
    rw [e]
    refine ⟨triple_proper u uk.neg hn ?_ ?_ axi, ?_⟩
    · simp only [Vec3.dot, Vec3.neg] at *; linear_combination huk1
    · simp only [Vec3.dot, Vec3.neg] at *; linear_combination -huk0
    · cases axi <;> simp [Mat33.ofAxisCols, Mat33.ofFn, Mat33.col, Vec3.get, Axis.next]
  · -- natural order: columns (u, uk × u, uk) and uk = u × (uk × u)
    have e : uk = u.cross (uk.cross u) := by
      simp only [Vec3.dot, Vec3.cross] at *
      ext <;> simp only []
      · linear_combination -uk.x * hn + u.x * huk0
      · linear_combination -uk.y * hn + u.y * huk0
      · linear_combination -uk.z * hn + u.z * huk0
    have e2 : Mat33.ofAxisCols axi u axi.next (uk.cross u) uk
        = Mat33.ofAxisCols axi u axi.next (uk.cross u) (u.cross (uk.cross u)) := by rw [← e]
    rw [e2]
    refine ⟨triple_proper u (uk.cross u) hn hcross huj0 axi, ?_⟩
    cases axi <;> simp [Mat33.ofAxisCols, Mat33.ofFn, Mat33.col, Vec3.get, Axis.next]
end Ordered

/-! ## Rotation → angles: what `atan2` is handed -/
section Field
variable {K : Type} [Field K]

/-- helper: the pair `oneAngleArgs` computes from an elementary rotation is exactly `(sin θ, cos θ)` (used by `toOneAngle_aboutAxis`) -/
theorem oneAngleArgs_aboutAxis (t : Trig K) (a : Axis) (h2 : (2 : K) ≠ 0) :
    oneAngleArgs (aboutAxis t a) a = (t.s, t.c) := by
  cases a <;> simp [oneAngleArgs, aboutAxis, Mat33.get, Axis.next] <;> constructor <;> field_simp <;> ring

/-- helper (identities about *constructor entries*, used by `toThreeAnglesThreeAxesBody_fromThreeAngles`): for three
distinct axes `i j k` (all six orders) the entries the extraction reads are `cos θ₂·(sin θ₁, cos θ₁)`, `sin θ₂`,
`cos θ₂·(sin θ₃, cos θ₃)` and the four squares sum to `2cos²θ₂` -/
theorem threeAxes_constructor_entries (t1 t2 t3 : Trig K) (h1 : TrigValid t1) (h3 : TrigValid t3) (i j : Axis) (hij : i ≠ j) :
    let k := i.third j
    let R := fromThreeAngles false t1 i t2 j t3 k
    let pm : K := if i.isReverseCyclical j then -1 else 1
    let mp : K := if i.isReverseCyclical j then 1 else -1
    mp * R.get j k = t1.s * t2.c ∧ R.get k k = t1.c * t2.c ∧ pm * R.get i k = t2.s ∧
    mp * R.get i j = t3.s * t2.c ∧ R.get i i = t3.c * t2.c ∧
    Rotation.sq (R.get i i) + Rotation.sq (R.get i j) + Rotation.sq (R.get j k) + Rotation.sq (R.get k k) = 2 * (t2.c * t2.c) := by
  unfold TrigValid at h1 h3
  cases i <;> cases j <;> first | exact absurd rfl hij | skip
  all_goals
    simp [fromThreeAngles, threeAngleThreeAxesBodyFwd, Mat33.place, Mat33.ofFn, Mat33.get, Axis.pos, Axis.third,
      Axis.next, Axis.isReverseCyclical, Axis.prev, Trig.neg, Rotation.sq]
    try ((repeat' constructor) <;> first | ring1 | linear_combination (t2.c * t2.c) * h1 + (t2.c * t2.c) * h3)

/-- helper (identities about *constructor entries*, used by `toThreeAnglesTwoAxesBody_fromThreeAngles`): sequence
`i j i`, all six -/
theorem twoAxes_constructor_entries (t1 t2 t3 : Trig K) (h1 : TrigValid t1) (h3 : TrigValid t3) (i j : Axis) (hij : i ≠ j) :
    let k := i.third j
    let R := fromThreeAngles false t1 i t2 j t3 i
    let pm : K := if i.isReverseCyclical j then -1 else 1
    let mp : K := if i.isReverseCyclical j then 1 else -1
    R.get j i = t1.s * t2.s ∧ mp * R.get k i = t1.c * t2.s ∧
    R.get i j = t3.s * t2.s ∧ pm * R.get i k = t3.c * t2.s ∧ R.get i i = t2.c ∧
    Rotation.sq (R.get i j) + Rotation.sq (R.get i k) + Rotation.sq (R.get j i) + Rotation.sq (R.get k i) = 2 * (t2.s * t2.s) := by
  unfold TrigValid at h1 h3
  cases i <;> cases j <;> first | exact absurd rfl hij | skip
  all_goals
    simp [fromThreeAngles, threeAngleTwoAxesBodyFwd, Mat33.place, Mat33.ofFn, Mat33.get, Axis.pos, Axis.third,
      Axis.next, Axis.isReverseCyclical, Axis.prev, Trig.neg, Rotation.sq]
    try ((repeat' constructor) <;> first | ring1 | linear_combination (t2.s * t2.s) * h1 + (t2.s * t2.s) * h3)
end Field

/-! ## The extraction functions themselves (what the driver executes), every branch -/
section ExtractField
variable {K : Type} [Field K]
/-- entries used by the *singular* (gimbal-lock) branches of the three-distinct-axes extraction: the pairs handed to
`atan2` are `(1 ± sin θ₂)·(sin, cos)(θ₁ ± θ₃)` (`θ₃` enters negated for reverse-cyclical sequences) -/
theorem threeAxes_singular_args (t1 t2 t3 : Trig K) (i j : Axis) (hij : i ≠ j) :
    let k := i.third j
    let R := fromThreeAngles false t1 i t2 j t3 k
    let pm : K := if i.isReverseCyclical j then -1 else 1
    let mp : K := if i.isReverseCyclical j then 1 else -1
    let u3 : Trig K := if i.isReverseCyclical j then t3.neg else t3
    R.get j i + pm * R.get k j = (1 + t2.s) * (Trig.add t1 u3).s ∧
    R.get j j + mp * R.get k i = (1 + t2.s) * (Trig.add t1 u3).c ∧
    pm * (R.get k j + mp * R.get j i) = (1 - t2.s) * (Trig.add t1 u3.neg).s ∧
    R.get j j + pm * R.get k i = (1 - t2.s) * (Trig.add t1 u3.neg).c := by
  cases i <;> cases j <;> first | exact absurd rfl hij | skip
  all_goals
    simp [fromThreeAngles, threeAngleThreeAxesBodyFwd, Mat33.place, Mat33.ofFn, Mat33.get, Axis.pos, Axis.third,
      Axis.next, Axis.isReverseCyclical, Axis.prev, Trig.neg, Trig.add]
    try ((repeat' constructor) <;> ring1)

theorem twoAxes_singular_args (t1 t2 t3 : Trig K) (i j : Axis) (hij : i ≠ j) :
    let k := i.third j
    let R := fromThreeAngles false t1 i t2 j t3 i
    let pm : K := if i.isReverseCyclical j then -1 else 1
    let mp : K := if i.isReverseCyclical j then 1 else -1
    pm * R.get k j + mp * R.get j k = (1 + t2.c) * (Trig.add t1 t3).s ∧
    R.get j j + R.get k k = (1 + t2.c) * (Trig.add t1 t3).c ∧
    pm * R.get k j + pm * R.get j k = (1 - t2.c) * (Trig.add t1 t3.neg).s ∧
    R.get j j - R.get k k = (1 - t2.c) * (Trig.add t1 t3.neg).c := by
  cases i <;> cases j <;> first | exact absurd rfl hij | skip
  all_goals
    simp [fromThreeAngles, threeAngleTwoAxesBodyFwd, Mat33.place, Mat33.ofFn, Mat33.get, Axis.pos, Axis.third,
      Axis.next, Axis.isReverseCyclical, Axis.prev, Trig.neg, Trig.add]
    try ((repeat' constructor) <;> ring1)

/-- entries of a two-angle body-fixed rotation in terms of the (possibly negated) trig pairs the private setter saw -/
theorem twoAngle_entries (t1 t2 : Trig K) (i j : Axis) (hij : i ≠ j) :
    let k := i.third j
    let R := fromTwoAngles false t1 i t2 j
    let u1 : Trig K := if i.isReverseCyclical j then t1.neg else t1
    let u2 : Trig K := if i.isReverseCyclical j then t2.neg else t2
    R.get k j = u1.s ∧ R.get j i = u2.s * u1.s ∧ R.get j k = -u1.s * u2.c ∧ R.get j j = u1.c ∧
    R.get k i = -u2.s * u1.c ∧ R.get k k = u1.c * u2.c ∧ R.get i k = u2.s ∧ R.get i i = u2.c := by
  cases i <;> cases j <;> first | exact absurd rfl hij | skip
  all_goals
    simp [fromTwoAngles, twoAngleBodyFwd, Mat33.place, Mat33.ofFn, Mat33.get, Axis.pos, Axis.third,
      Axis.next, Axis.isReverseCyclical, Axis.prev, Trig.neg]

/-- **handedness of the angle–axis constructor**: about a coordinate axis it is the elementary rotation by the
double angle (`cos θ = c²−s²`, `sin θ = 2sc` of the half-angle pair), not its inverse -/
theorem fromAngleAboutUnitVector_axis [LinearOrder K] (h : Trig K) (hv : TrigValid h) (a : Axis) :
    fromAngleAboutUnitVector h (Vec3.unit a) = aboutAxis ⟨h.c * h.c - h.s * h.s, 2 * h.s * h.c⟩ a := by
  unfold TrigValid at hv
  unfold fromAngleAboutUnitVector Quaternion.fromAngleAxis
  by_cases hc : h.c < 0 <;> cases a <;>
    simp only [hc, if_true, if_false, fromQuaternion, Vec3.unit, aboutAxis] <;> ext <;> simp only [] <;>
    first | ring1 | linear_combination hv | linear_combination -hv
end ExtractField

section ExtractOrdered
variable {K : Type} [Field K] [LinearOrder K] [IsStrictOrderedRing K]

/-- **`convertThreeAxesBodyFixedRotationToThreeAngles` on the rotation built from `(θ₁,θ₂,θ₃)`**, all six orders of three
distinct axes, all three branches of the executed extraction function:
* regular branch (`4·Eps < |cos θ₂|`): `atan2` is handed `cos θ₂·(sin θ₁, cos θ₁)`, `(sin θ₂, |cos θ₂|)`, `cos θ₂·(sin θ₃, cos θ₃)`;
* gimbal lock with `sin θ₂ > 0`: `θ₁ ↦ atan2 of (1+sin θ₂)·(sin, cos)(θ₁ ± θ₃)`, `θ₃ ↦ 0`;
* gimbal lock with `sin θ₂ ≤ 0`: `θ₁ ↦ atan2 of (1−sin θ₂)·(sin, cos)(θ₁ ∓ θ₃)`, `θ₃ ↦ 0`
(upper sign for forward-cyclical, lower for reverse-cyclical sequences). -/
theorem toThreeAnglesThreeAxesBody_fromThreeAngles (sqrt : K → K) (atan2 : K → K → K) (eps4 : K)
    (t1 t2 t3 : Trig K) (h1 : TrigValid t1) (h3 : TrigValid t3) (i j : Axis) (hij : i ≠ j) :
    toThreeAnglesThreeAxesBody sqrt atan2 eps4 (fromThreeAngles false t1 i t2 j t3 (i.third j)) i j (i.third j) =
      (let u3 : Trig K := if i.isReverseCyclical j then t3.neg else t3
       let th2 := atan2 t2.s (sqrt (t2.c * t2.c))
       if eps4 < sqrt (t2.c * t2.c) then
         (atan2 (t1.s * t2.c) (t1.c * t2.c), th2, atan2 (t3.s * t2.c) (t3.c * t2.c))
       else if 0 < t2.s then
         (atan2 ((1 + t2.s) * (Trig.add t1 u3).s) ((1 + t2.s) * (Trig.add t1 u3).c), th2, 0)
       else
         (atan2 ((1 - t2.s) * (Trig.add t1 u3.neg).s) ((1 - t2.s) * (Trig.add t1 u3.neg).c), th2, 0)) := by
  have a := threeAxes_constructor_entries t1 t2 t3 h1 h3 i j hij
  have b := threeAxes_singular_args t1 t2 t3 i j hij
  simp only [] at a b
  obtain ⟨a1, a2, a3, a4, a5, a6⟩ := a
  obtain ⟨b1, b2, b3, b4⟩ := b
  have hr : (Rotation.sq ((fromThreeAngles false t1 i t2 j t3 (i.third j)).get i i)
      + Rotation.sq ((fromThreeAngles false t1 i t2 j t3 (i.third j)).get i j)
      + Rotation.sq ((fromThreeAngles false t1 i t2 j t3 (i.third j)).get j (i.third j))
      + Rotation.sq ((fromThreeAngles false t1 i t2 j t3 (i.third j)).get (i.third j) (i.third j))) / 2 = t2.c * t2.c := by
    rw [a6]; field_simp
  unfold toThreeAnglesThreeAxesBody
  simp only [hr]
  simp only [a1, a2, a3, a4, a5, b1, b2, b3, b4]

/-- **`convertTwoAxesBodyFixedRotationToThreeAngles` on the rotation built from `(θ₁,θ₂,θ₃)`** (sequence `i j i`, all six),
all three branches of the executed function -/
theorem toThreeAnglesTwoAxesBody_fromThreeAngles (sqrt : K → K) (atan2 : K → K → K) (eps4 : K)
    (t1 t2 t3 : Trig K) (h1 : TrigValid t1) (h3 : TrigValid t3) (i j : Axis) (hij : i ≠ j) :
    toThreeAnglesTwoAxesBody sqrt atan2 eps4 (fromThreeAngles false t1 i t2 j t3 i) i j =
      (let th2 := atan2 (sqrt (t2.s * t2.s)) t2.c
       if eps4 < sqrt (t2.s * t2.s) then
         (atan2 (t1.s * t2.s) (t1.c * t2.s), th2, atan2 (t3.s * t2.s) (t3.c * t2.s))
       else if 0 < t2.c then
         (atan2 ((1 + t2.c) * (Trig.add t1 t3).s) ((1 + t2.c) * (Trig.add t1 t3).c), th2, 0)
       else
         (atan2 ((1 - t2.c) * (Trig.add t1 t3.neg).s) ((1 - t2.c) * (Trig.add t1 t3.neg).c), th2, 0)) := by
  have a := twoAxes_constructor_entries t1 t2 t3 h1 h3 i j hij
  have b := twoAxes_singular_args t1 t2 t3 i j hij
  simp only [] at a b
  obtain ⟨a1, a2, a3, a4, a5, a6⟩ := a
  obtain ⟨b1, b2, b3, b4⟩ := b
  have hr : (Rotation.sq ((fromThreeAngles false t1 i t2 j t3 i).get i j)
      + Rotation.sq ((fromThreeAngles false t1 i t2 j t3 i).get i (i.third j))
      + Rotation.sq ((fromThreeAngles false t1 i t2 j t3 i).get j i)
      + Rotation.sq ((fromThreeAngles false t1 i t2 j t3 i).get (i.third j) i)) / 2 = t2.s * t2.s := by
    rw [a6]; field_simp
  unfold toThreeAnglesTwoAxesBody
  simp only [hr]
  simp only [a1, a2, a3, a4, a5, b1, b2, b3, b4]

/-- `sign(x)·√(x²) = x` -/
theorem signOf_mul_sqrt (sqrt : K → K) (hs : SqrtSpec sqrt) (x : K) : signOf x * sqrt (x * x) = x := by
  have hnn := mul_self_nonneg x
  have h1 := hs.sq _ hnn
  have h2 := hs.nonneg _ hnn
  have hcase : sqrt (x * x) = x ∨ sqrt (x * x) = -x := by
    have : (sqrt (x * x) - x) * (sqrt (x * x) + x) = 0 := by linear_combination h1
    rcases mul_eq_zero.mp this with e | e
    · left; linarith
    · right; linarith
  unfold signOf
  split_ifs with hp
  · rcases hcase with e | e
    · rw [e]; ring
    · rw [e] at h2; linarith
  · rw [not_lt] at hp
    rcases hcase with e | e
    · rw [e] at h2; have : x = 0 := le_antisymm hp h2; rw [e, this]; ring
    · rw [e]; ring

/-- **`convertTwoAxesBodyFixedRotationToTwoAngles`** (with its sign-and-square-root averaging) hands `atan2` exactly the
trig pairs the rotation was built from, and therefore returns `atan2 (sin θ) (cos θ)` of each angle; for
reverse-cyclical axis pairs both the construction and the result are negated -/
theorem toTwoAnglesBody_fromTwoAngles (sqrt : K → K) (hs : SqrtSpec sqrt) (atan2 : K → K → K)
    (t1 t2 : Trig K) (h1 : TrigValid t1) (h2 : TrigValid t2) (i j : Axis) (hij : i ≠ j) :
    toTwoAnglesBody sqrt atan2 (fromTwoAngles false t1 i t2 j) i j =
      if i.isReverseCyclical j then (-atan2 (-t1.s) t1.c, -atan2 (-t2.s) t2.c)
      else (atan2 t1.s t1.c, atan2 t2.s t2.c) := by
  have e := twoAngle_entries t1 t2 i j hij
  simp only [] at e
  obtain ⟨e1, e2, e3, e4, e5, e6, e7, e8⟩ := e
  have key : ∀ u1 u2 : Trig K, TrigValid u1 → TrigValid u2 →
      (u1.s + signOf u1.s * sqrt (Rotation.sq (u2.s * u1.s) + Rotation.sq (-u1.s * u2.c))) / 2 = u1.s ∧
      (u1.c + signOf u1.c * sqrt (Rotation.sq (-u2.s * u1.c) + Rotation.sq (u1.c * u2.c))) / 2 = u1.c ∧
      (u2.s + signOf u2.s * sqrt (Rotation.sq (u2.s * u1.s) + Rotation.sq (-u2.s * u1.c))) / 2 = u2.s ∧
      (u2.c + signOf u2.c * sqrt (Rotation.sq (-u1.s * u2.c) + Rotation.sq (u1.c * u2.c))) / 2 = u2.c := by
    intro u1 u2 v1 v2
    unfold TrigValid at v1 v2
    have q1 : Rotation.sq (u2.s * u1.s) + Rotation.sq (-u1.s * u2.c) = u1.s * u1.s := by
      unfold Rotation.sq; linear_combination (u1.s * u1.s) * v2
    have q2 : Rotation.sq (-u2.s * u1.c) + Rotation.sq (u1.c * u2.c) = u1.c * u1.c := by
      unfold Rotation.sq; linear_combination (u1.c * u1.c) * v2
    have q3 : Rotation.sq (u2.s * u1.s) + Rotation.sq (-u2.s * u1.c) = u2.s * u2.s := by
      unfold Rotation.sq; linear_combination (u2.s * u2.s) * v1
    have q4 : Rotation.sq (-u1.s * u2.c) + Rotation.sq (u1.c * u2.c) = u2.c * u2.c := by
      unfold Rotation.sq; linear_combination (u2.c * u2.c) * v1
    rw [q1, q2, q3, q4, signOf_mul_sqrt sqrt hs, signOf_mul_sqrt sqrt hs, signOf_mul_sqrt sqrt hs,
      signOf_mul_sqrt sqrt hs]
    refine ⟨?_, ?_, ?_, ?_⟩ <;> ring
  unfold toTwoAnglesBody twoAnglesBodyArgs
  simp only [e1, e2, e3, e4, e5, e6, e7, e8]
  cases hrev : i.isReverseCyclical j
  · obtain ⟨k1, k2, k3, k4⟩ := key t1 t2 h1 h2
    simp only [Bool.false_eq_true, if_false, k1, k2, k3, k4]
  · obtain ⟨k1, k2, k3, k4⟩ := key t1.neg t2.neg (trig_neg_valid t1 h1) (trig_neg_valid t2 h2)
    simp only [if_true, k1, k2, k3, k4]
    simp only [Trig.neg]

/-- **`convertQuaternionToAngleAxis`** on the quaternion `(c, s·v)` of a unit vector `v`: the executed function returns
the (range-adjusted) angle `2·atan2(|s|, c)` and the axis `(s/|s|)·v`, or the documented `[0 1 0 0]` when `|s| < Eps²` -/
theorem quat_toAngleAxis (sqrt : K → K) (atan2 : K → K → K) (pi epsSq : K) (c s : K) (v : Vec3 K) (hv : v.dot v = 1) :
    Quaternion.toAngleAxis sqrt atan2 pi epsSq ⟨c, s * v.x, s * v.y, s * v.z⟩ =
      if sqrt (s * s) < epsSq then ⟨0, 1, 0, 0⟩ else
      ⟨(if pi < 2 * atan2 (sqrt (s * s)) c then 2 * atan2 (sqrt (s * s)) c - 2 * pi else 2 * atan2 (sqrt (s * s)) c),
       s * v.x / sqrt (s * s), s * v.y / sqrt (s * s), s * v.z / sqrt (s * s)⟩ := by
  simp only [Vec3.dot] at hv
  have e : s * v.x * (s * v.x) + s * v.y * (s * v.y) + s * v.z * (s * v.z) = s * s := by
    linear_combination (s * s) * hv
  unfold Quaternion.toAngleAxis
  simp only [e]

/-- `convertRotationToAngleAxis` of a rotation built from a unit quaternion `q` is `convertQuaternionToAngleAxis` of `q`
or of `-q` (whichever is canonical) -/
theorem toAngleAxis_fromQuaternion (sqrt : K → K) (hs : SqrtSpec sqrt) (atan2 : K → K → K) (pi epsSq : K)
    (q : Quaternion K) (h : q.normSq = 1) :
    Rotation.toAngleAxis sqrt atan2 pi epsSq (fromQuaternion q) = Quaternion.toAngleAxis sqrt atan2 pi epsSq q ∨
    Rotation.toAngleAxis sqrt atan2 pi epsSq (fromQuaternion q) = Quaternion.toAngleAxis sqrt atan2 pi epsSq q.neg := by
  unfold Rotation.toAngleAxis
  rcases (toQuaternion_fromQuaternion sqrt hs q h).1 with e | e
  · left; rw [e]
  · right; rw [e]
/-! ### Public dispatchers and the headline round trips -/

omit [IsStrictOrderedRing K] in
/-- the public dispatcher `convertThreeAxesRotationToThreeAngles` for a sequence whose middle axis differs from both
neighbours: space-fixed sequences are extracted as the reversed body-fixed sequence and the angles swapped back -/
theorem toThreeAngles_dispatch (sqrt : K → K) (atan2 : K → K → K) (eps4 three : K) (space : Bool) (R : Mat33 K)
    (a1 a2 a3 : Axis) (h12 : a2 ≠ a1) (h23 : a2 ≠ a3) :
    toThreeAngles sqrt atan2 eps4 three space R a1 a2 a3 =
      (let x1 := if space then a3 else a1
       let x3 := if space then a1 else a3
       let ans := if x1 = x3 then toThreeAnglesTwoAxesBody sqrt atan2 eps4 R x1 a2
                  else toThreeAnglesThreeAxesBody sqrt atan2 eps4 R x1 a2 x3
       if space then (ans.2.2, ans.2.1, ans.1) else ans) := by
  unfold toThreeAngles
  have n1 : ¬ (a1 = a2 ∧ a1 = a3) := fun h => h12 h.1.symm
  rw [if_neg n1, if_neg h12, if_neg h23]

omit [LinearOrder K] [IsStrictOrderedRing K] in
/-- a space-fixed sequence is the reversed body-fixed sequence (middle axis different from both neighbours) -/
theorem fromThreeAngles_space (t1 t2 t3 : Trig K) (a1 a2 a3 : Axis) (h12 : a2 ≠ a1) (h23 : a2 ≠ a3) :
    fromThreeAngles true t1 a1 t2 a2 t3 a3 = fromThreeAngles false t3 a3 t2 a2 t1 a1 := by
  unfold fromThreeAngles
  simp [h12, h23]

/-- **Euler round trip, public API, body-fixed, three distinct axes, regular branch**:
`convertThreeAxesRotationToThreeAngles(Body, i,j,k)` of `Rotation(Body, θ₁,i, θ₂,j, θ₃,k)` hands `atan2` positive multiples
(`cos θ₂ > 0`) of the trig pairs of `θ₁`, `θ₃` and `(sin θ₂, |cos θ₂|)` -/
theorem euler_roundtrip_body (sqrt : K → K) (atan2 : K → K → K) (eps4 three : K)
    (t1 t2 t3 : Trig K) (h1 : TrigValid t1) (h3 : TrigValid t3) (i j : Axis) (hij : i ≠ j)
    (hreg : eps4 < sqrt (t2.c * t2.c)) :
    toThreeAngles sqrt atan2 eps4 three false (fromThreeAngles false t1 i t2 j t3 (i.third j)) i j (i.third j) =
      (atan2 (t1.s * t2.c) (t1.c * t2.c), atan2 t2.s (sqrt (t2.c * t2.c)), atan2 (t3.s * t2.c) (t3.c * t2.c)) := by
  have hk : j ≠ i.third j := by cases i <;> cases j <;> simp [Axis.third, Axis.next] at hij ⊢
  have hik : i ≠ i.third j := by cases i <;> cases j <;> simp [Axis.third, Axis.next] at hij ⊢
  rw [toThreeAngles_dispatch _ _ _ _ _ _ _ _ _ (Ne.symm hij) hk]
  simp only [Bool.false_eq_true, if_false, if_neg hik]
  rw [toThreeAnglesThreeAxesBody_fromThreeAngles sqrt atan2 eps4 t1 t2 t3 h1 h3 i j hij]
  simp only [if_pos hreg]

/-- **Euler round trip, public API, space-fixed**: `convertThreeAxesRotationToThreeAngles(Space, k,j,i)` of
`Rotation(Space, θ₃,k, θ₂,j, θ₁,i)` returns the angles in the order they were given -/
theorem euler_roundtrip_space (sqrt : K → K) (atan2 : K → K → K) (eps4 three : K)
    (t1 t2 t3 : Trig K) (h1 : TrigValid t1) (h3 : TrigValid t3) (i j : Axis) (hij : i ≠ j)
    (hreg : eps4 < sqrt (t2.c * t2.c)) :
    toThreeAngles sqrt atan2 eps4 three true (fromThreeAngles true t3 (i.third j) t2 j t1 i) (i.third j) j i =
      (atan2 (t3.s * t2.c) (t3.c * t2.c), atan2 t2.s (sqrt (t2.c * t2.c)), atan2 (t1.s * t2.c) (t1.c * t2.c)) := by
  have hk : j ≠ i.third j := by cases i <;> cases j <;> simp [Axis.third, Axis.next] at hij ⊢
  have hik : i ≠ i.third j := by cases i <;> cases j <;> simp [Axis.third, Axis.next] at hij ⊢
  rw [fromThreeAngles_space _ _ _ _ _ _ hk (Ne.symm hij),
    toThreeAngles_dispatch _ _ _ _ _ _ _ _ _ hk (Ne.symm hij)]
  simp only [if_true, if_neg hik]
  rw [toThreeAnglesThreeAxesBody_fromThreeAngles sqrt atan2 eps4 t1 t2 t3 h1 h3 i j hij]
  simp only [if_pos hreg]

/-- `convertTwoAxesRotationToTwoAngles(Body, i, j)` of `Rotation(Body, θ₁,i, θ₂,j)` (public dispatcher) -/
theorem toTwoAngles_fromTwoAngles_body (sqrt : K → K) (hs : SqrtSpec sqrt) (atan2 : K → K → K)
    (t1 t2 : Trig K) (h1 : TrigValid t1) (h2 : TrigValid t2) (i j : Axis) (hij : i ≠ j) :
    toTwoAngles sqrt atan2 false (fromTwoAngles false t1 i t2 j) i j =
      if i.isReverseCyclical j then (-atan2 (-t1.s) t1.c, -atan2 (-t2.s) t2.c)
      else (atan2 t1.s t1.c, atan2 t2.s t2.c) := by
  unfold toTwoAngles
  rw [if_neg hij]
  simp only [Bool.false_eq_true, if_false]
  exact toTwoAnglesBody_fromTwoAngles sqrt hs atan2 t1 t2 h1 h2 i j hij

/-- `convertOneAxisRotationToOneAngle` of an elementary rotation hands `atan2` exactly `(sin θ, cos θ)` -/
theorem toOneAngle_aboutAxis (atan2 : K → K → K) (t : Trig K) (a : Axis) :
    toOneAngle atan2 (aboutAxis t a) a = atan2 t.s t.c := by
  unfold toOneAngle
  rw [oneAngleArgs_aboutAxis t a two_ne_zero]
end ExtractOrdered

/-! ## Non-vacuity of the hypotheses used above -/

/-- a valid trig pair, a unit quaternion and a unit vector exist (3-4-5 triangle).  `SqrtSpec` has no instance over ℚ;
its witness over ℝ (`Real.sqrt`) is `SimbodyProofs/C27_sqrt.lean`, built with every run. -/
example : TrigValid (⟨3 / 5, 4 / 5⟩ : Trig Rat) := by norm_num [TrigValid]
example : (⟨1 / 2, 1 / 2, 1 / 2, 1 / 2⟩ : Quaternion Rat).normSq = 1 := by norm_num [Quaternion.normSq]
example : (⟨3 / 5, 0, 4 / 5⟩ : Vec3 Rat).dot ⟨3 / 5, 0, 4 / 5⟩ = 1 := by norm_num [Vec3.dot]
example : IsProper (aboutAxis (⟨3 / 5, 4 / 5⟩ : Trig Rat) .Z) := aboutAxis_proper _ (by norm_num [TrigValid]) _
/-- the four branches of the extraction are all reachable -/
example : quatBranch (fromQuaternion (⟨1, 0, 0, 0⟩ : Quaternion Rat)) = 0 := by
  simp [quatBranch, fromQuaternion, Mat33.trace]
example : quatBranch (fromQuaternion (⟨0, 1, 0, 0⟩ : Quaternion Rat)) = 1 := by
  simp [quatBranch, fromQuaternion, Mat33.trace]
example : quatBranch (fromQuaternion (⟨0, 0, 1, 0⟩ : Quaternion Rat)) = 2 := by
  simp [quatBranch, fromQuaternion, Mat33.trace]
example : quatBranch (fromQuaternion (⟨0, 0, 0, 1⟩ : Quaternion Rat)) = 3 := by
  simp [quatBranch, fromQuaternion, Mat33.trace]

end C27
