import SimbodyModel.ForceLaws
import Mathlib.Tactic.Ring
import Mathlib.Tactic.FieldSimp
import Mathlib.Tactic.Linarith
import Mathlib.Tactic.LinearCombination
import Mathlib.Tactic.Positivity
import Mathlib.Tactic.NormNum
import Mathlib.Algebra.Order.Field.Basic

/-!
# Helper lemmas shared by the force-law properties C12, C13, C37, C38

Componentwise simp lemmas for `V3`, `SpF`, `Jet`; the algebraic specification assumed of `sqrt`;
the jet of a moving station; power / moment bookkeeping.
-/
namespace ForceLaws
open V3

theorem V3.ext' {K : Type} {a b : V3 K} (hx : a.x = b.x) (hy : a.y = b.y) (hz : a.z = b.z) : a = b := by
  cases a; cases b; simp_all
theorem SpF.ext' {K : Type} {a b : SpF K} (hm : a.m = b.m) (hf : a.f = b.f) : a = b := by
  cases a; cases b; simp_all
theorem Jet.ext' {K : Type} {a b : Jet K} (h1 : a.re = b.re) (h2 : a.eps = b.eps) : a = b := by
  cases a; cases b; simp_all
theorem Vec6.ext' {K : Type} {a b : Vec6 K} (hr : a.r = b.r) (ht : a.t = b.t) : a = b := by
  cases a; cases b; simp_all

section simpLemmas
variable {K : Type}
@[simp] theorem V3.add_x [Add K] (a b : V3 K) : (a + b).x = a.x + b.x := rfl
@[simp] theorem V3.add_y [Add K] (a b : V3 K) : (a + b).y = a.y + b.y := rfl
@[simp] theorem V3.add_z [Add K] (a b : V3 K) : (a + b).z = a.z + b.z := rfl
@[simp] theorem V3.sub_x [Sub K] (a b : V3 K) : (a - b).x = a.x - b.x := rfl
@[simp] theorem V3.sub_y [Sub K] (a b : V3 K) : (a - b).y = a.y - b.y := rfl
@[simp] theorem V3.sub_z [Sub K] (a b : V3 K) : (a - b).z = a.z - b.z := rfl
@[simp] theorem V3.neg_x [Neg K] (a : V3 K) : (-a).x = -a.x := rfl
@[simp] theorem V3.neg_y [Neg K] (a : V3 K) : (-a).y = -a.y := rfl
@[simp] theorem V3.neg_z [Neg K] (a : V3 K) : (-a).z = -a.z := rfl
@[simp] theorem V3.zero_x [OfNat K 0] : (V3.zero : V3 K).x = 0 := rfl
@[simp] theorem V3.zero_y [OfNat K 0] : (V3.zero : V3 K).y = 0 := rfl
@[simp] theorem V3.zero_z [OfNat K 0] : (V3.zero : V3 K).z = 0 := rfl
@[simp] theorem SpF.zero_m [OfNat K 0] : (SpF.zero : SpF K).m = V3.zero := rfl
@[simp] theorem SpF.zero_f [OfNat K 0] : (SpF.zero : SpF K).f = V3.zero := rfl

@[simp] theorem Jet.add_re [Add K] (a b : Jet K) : (a + b).re = a.re + b.re := rfl
@[simp] theorem Jet.add_eps [Add K] (a b : Jet K) : (a + b).eps = a.eps + b.eps := rfl
@[simp] theorem Jet.sub_re [Sub K] (a b : Jet K) : (a - b).re = a.re - b.re := rfl
@[simp] theorem Jet.sub_eps [Sub K] (a b : Jet K) : (a - b).eps = a.eps - b.eps := rfl
@[simp] theorem Jet.neg_re [Neg K] (a : Jet K) : (-a).re = -a.re := rfl
@[simp] theorem Jet.neg_eps [Neg K] (a : Jet K) : (-a).eps = -a.eps := rfl
@[simp] theorem Jet.mul_re [Add K] [Mul K] (a b : Jet K) : (a * b).re = a.re * b.re := rfl
@[simp] theorem Jet.mul_eps [Add K] [Mul K] (a b : Jet K) : (a * b).eps = a.re * b.eps + a.eps * b.re := rfl
@[simp] theorem Jet.div_re [Sub K] [Mul K] [Div K] (a b : Jet K) : (a / b).re = a.re / b.re := rfl
@[simp] theorem Jet.div_eps [Sub K] [Mul K] [Div K] (a b : Jet K) :
    (a / b).eps = (a.eps * b.re - a.re * b.eps) / (b.re * b.re) := rfl
@[simp] theorem Jet.re_0 [OfNat K 0] [OfNat K 0] : (0 : Jet K).re = 0 := rfl
@[simp] theorem Jet.eps_0 [OfNat K 0] [OfNat K 0] : (0 : Jet K).eps = 0 := rfl
@[simp] theorem Jet.re_1 [OfNat K 0] [OfNat K 1] : (1 : Jet K).re = 1 := rfl
@[simp] theorem Jet.eps_1 [OfNat K 0] [OfNat K 1] : (1 : Jet K).eps = 0 := rfl
@[simp] theorem Jet.re_2 [OfNat K 0] [OfNat K 2] : (2 : Jet K).re = 2 := rfl
@[simp] theorem Jet.eps_2 [OfNat K 0] [OfNat K 2] : (2 : Jet K).eps = 0 := rfl
@[simp] theorem Jet.re_3 [OfNat K 0] [OfNat K 3] : (3 : Jet K).re = 3 := rfl
@[simp] theorem Jet.eps_3 [OfNat K 0] [OfNat K 3] : (3 : Jet K).eps = 0 := rfl
@[simp] theorem Jet.re_4 [OfNat K 0] [OfNat K 4] : (4 : Jet K).re = 4 := rfl
@[simp] theorem Jet.eps_4 [OfNat K 0] [OfNat K 4] : (4 : Jet K).eps = 0 := rfl
@[simp] theorem Jet.re_5 [OfNat K 0] [OfNat K 5] : (5 : Jet K).re = 5 := rfl
@[simp] theorem Jet.eps_5 [OfNat K 0] [OfNat K 5] : (5 : Jet K).eps = 0 := rfl
@[simp] theorem Jet.const_re [OfNat K 0] (a : K) : (Jet.const a).re = a := rfl
@[simp] theorem Jet.const_eps [OfNat K 0] (a : K) : (Jet.const a).eps = 0 := rfl
@[simp] theorem Jet.sqrt_re [Mul K] [Div K] [OfNat K 2] (sqrt : K → K) (a : Jet K) : (Jet.sqrt sqrt a).re = sqrt a.re := rfl
@[simp] theorem Jet.sqrt_eps [Mul K] [Div K] [OfNat K 2] (sqrt : K → K) (a : Jet K) :
    (Jet.sqrt sqrt a).eps = a.eps / (2 * sqrt a.re) := rfl
@[simp] theorem Jet.exp_re [Mul K] (exp : K → K) (a : Jet K) : (Jet.exp exp a).re = exp a.re := rfl
@[simp] theorem Jet.exp_eps [Mul K] (exp : K → K) (a : Jet K) : (Jet.exp exp a).eps = a.eps * exp a.re := rfl
theorem Jet.lt_iff [LT K] (a b : Jet K) : a < b ↔ a.re < b.re := Iff.rfl
end simpLemmas

variable {K : Type} [Field K]

/-- rotation matrices: rows orthonormal (`R Rᵀ = 1`) -/
structure M33.IsOrtho (R : M33 K) : Prop where
  r00 : dot R.r0 R.r0 = 1
  r11 : dot R.r1 R.r1 = 1
  r22 : dot R.r2 R.r2 = 1
  r01 : dot R.r0 R.r1 = 0
  r02 : dot R.r0 R.r2 = 0
  r12 : dot R.r1 R.r2 = 0

/-- `R (Rᵀ v) = v` for a matrix with orthonormal rows -/
theorem M33.mulVec_tmulVec (R : M33 K) (h : R.IsOrtho) (v : V3 K) : R.mulVec (R.tmulVec v) = v := by
  obtain ⟨h00, h11, h22, h01, h02, h12⟩ := h
  simp only [dot] at h00 h11 h22 h01 h02 h12
  apply V3.ext' <;> simp only [M33.mulVec, M33.tmulVec, dot, smul, V3.add_x, V3.add_y, V3.add_z]
  · linear_combination v.x * h00 + v.y * h01 + v.z * h02
  · linear_combination v.x * h01 + v.y * h11 + v.z * h12
  · linear_combination v.x * h02 + v.y * h12 + v.z * h22

/-- the station found by `findStationAtGroundPoint`, re-expressed in Ground, is the offset from the body origin -/
theorem Pose.mulVec_invApply (X : Pose K) (h : X.R.IsOrtho) (g : V3 K) : X.R.mulVec (X.invApply g) = g - X.p := by
  simp only [Pose.invApply]; exact M33.mulVec_tmulVec X.R h _

/-- jet of a station of a moving body: value = location, `ε`-part = `findStationVelocityInGround` -/
theorem liftPose_apply (X : Pose K) (V : Vel K) (s : V3 K) :
    (liftPose X V).apply (constV3 s) = liftV3 (X.apply s) (stationVel X V s) := by
  apply V3.ext' <;> apply Jet.ext' <;>
    simp [liftPose, Pose.apply, constV3, liftV3, stationVel, M33.mulVec, M33.col0, M33.col1, M33.col2, dot, cross] <;> ring

/-- power of a force applied at a point = force · velocity of that point -/
theorem applyAt_power (sG F : V3 K) (V : Vel K) : (applyAt sG F).power V = dot F (V.v + cross V.w sG) := by
  simp only [applyAt, SpF.power, dot, cross, V3.add_x, V3.add_y, V3.add_z]; ring

theorem spf_power (sG F : V3 K) (V : Vel K) : (SpF.mk (cross sG F) F).power V = dot F (V.v + cross V.w sG) :=
  applyAt_power sG F V

/-- moment about the Ground origin of a force applied at a point = location × force -/
theorem applyAt_aboutGround (X : Pose K) (sG F : V3 K) :
    (applyAt sG F).aboutGround X = ⟨cross (X.p + sG) F, F⟩ := by
  apply SpF.ext' <;> simp only [applyAt, SpF.aboutGround]
  apply V3.ext' <;> simp [cross] <;> ring

/-! `SpF.add` is a commutative monoid operation -/
theorem SpF.add_zero' (a : SpF K) : SpF.add a SpF.zero = a := by
  apply SpF.ext' <;> apply V3.ext' <;> simp [SpF.add]
theorem SpF.zero_add' (a : SpF K) : SpF.add SpF.zero a = a := by
  apply SpF.ext' <;> apply V3.ext' <;> simp [SpF.add]
theorem SpF.add_assoc' (a b c : SpF K) : SpF.add (SpF.add a b) c = SpF.add a (SpF.add b c) := by
  apply SpF.ext' <;> apply V3.ext' <;> simp [SpF.add] <;> ring
theorem SpF.add_comm' (a b : SpF K) : SpF.add a b = SpF.add b a := by
  apply SpF.ext' <;> apply V3.ext' <;> simp [SpF.add] <;> ring

/-! small matrix algebra -/
theorem dot_mulVec (R : M33 K) (a b : V3 K) : dot (R.mulVec a) b = dot a (R.tmulVec b) := by
  simp only [M33.mulVec, M33.tmulVec, dot, smul, V3.add_x, V3.add_y, V3.add_z]; ring
theorem dot_tmulVec (R : M33 K) (a b : V3 K) : dot a (R.tmulVec b) = dot (R.mulVec a) b := (dot_mulVec R a b).symm
theorem dot_comm' (a b : V3 K) : dot a b = dot b a := by simp only [dot]; ring
theorem dot_cross_swap (p f w : V3 K) : dot (cross p f) w = dot f (cross w p) := by
  simp only [dot, cross]; ring
theorem tmulVec_mul (A B : M33 K) (v : V3 K) : (A.mul B).tmulVec v = B.tmulVec (A.tmulVec v) := by
  apply V3.ext' <;>
    simp only [M33.mul, M33.tmulVec, M33.col0, M33.col1, M33.col2, dot, smul, V3.add_x, V3.add_y, V3.add_z] <;> ring
theorem transpose_tmulVec (A : M33 K) (v : V3 K) : A.transpose.tmulVec v = A.mulVec v := by
  apply V3.ext' <;>
    simp only [M33.transpose, M33.tmulVec, M33.mulVec, M33.col0, M33.col1, M33.col2, dot, smul, V3.add_x, V3.add_y, V3.add_z] <;> ring
theorem mul_mulVec (A B : M33 K) (v : V3 K) : (A.mul B).mulVec v = A.mulVec (B.mulVec v) := by
  apply V3.ext' <;>
    simp only [M33.mul, M33.mulVec, M33.col0, M33.col1, M33.col2, dot] <;> ring

section ordered
variable [LinearOrder K] [IsStrictOrderedRing K]

/-- the algebraic specification assumed of the square-root routine (libm `sqrt`) -/
structure SqrtSpec (sqrt : K → K) : Prop where
  sq : ∀ x, 0 ≤ x → sqrt x * sqrt x = x
  nonneg : ∀ x, 0 ≤ sqrt x

theorem normSq_nonneg (a : V3 K) : 0 ≤ normSq a := by
  simp only [normSq, dot]; nlinarith [mul_self_nonneg a.x, mul_self_nonneg a.y, mul_self_nonneg a.z]

theorem SqrtSpec.mul {sqrt : K → K} (hs : SqrtSpec sqrt) {a b : K} (ha : 0 ≤ a) (hb : 0 ≤ b) :
    sqrt (a * b) = sqrt a * sqrt b := by
  have h1 := hs.sq (a * b) (mul_nonneg ha hb)
  have h2 := hs.sq a ha
  have h3 := hs.sq b hb
  have n1 := hs.nonneg (a * b)
  have n2 := mul_nonneg (hs.nonneg a) (hs.nonneg b)
  have : sqrt (a * b) * sqrt (a * b) = (sqrt a * sqrt b) * (sqrt a * sqrt b) := by
    rw [h1]; calc a * b = (sqrt a * sqrt a) * (sqrt b * sqrt b) := by rw [h2, h3]
      _ = _ := by ring
  nlinarith [sq_nonneg (sqrt (a * b) - sqrt a * sqrt b), sq_nonneg (sqrt (a * b) + sqrt a * sqrt b)]
end ordered

/-- foldl with pointwise-equal step functions -/
theorem foldl_congr' {α β : Type} (f g : β → α → β) (h : ∀ b a, f b a = g b a) (l : List α) (b : β) :
    l.foldl f b = l.foldl g b := by
  induction l generalizing b with
  | nil => rfl
  | cons a t ih => simp only [List.foldl_cons, h, ih]

end ForceLaws
