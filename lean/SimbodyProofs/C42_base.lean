import SimbodyProofs.C42_term

/-! # C42 — must-be-base bodies are honoured when no input body is massless -/
namespace C42

/-- no input body is massless (then `growTree` never leaves its breadth-first order) -/
def NoMassless (g : Input) : Prop := ∀ b, 0 < b → b < g.bodies.length → massOf g b ≠ 0

/-- levels once assigned never change -/
def LvlMono (s s' : St) : Prop := ∀ b l, s.level b = some l → s'.level b = some l

theorem LvlMono.trans {a b c : St} (h1 : LvlMono a b) (h2 : LvlMono b c) : LvlMono a c :=
  fun x l h => h2 x l (h1 x l h)

/-- without massless bodies `growJoint` at level `level` only adds a mobilizer of that level -/
theorem growJoint_levels {g : Input} {level : Nat} {s0 : St} {st st' : GS} {j : Nat} (hN : NoMassless g)
    (hG : GInv g level s0 st) (hj : j < st.s.joints.length) (h : growJoint g level st j = .ok st')
    (hall : ∀ m ∈ st.s.mobs, m.level = level) : ∀ m ∈ st'.s.mobs, m.level = level := by
  unfold growJoint at h
  cases hjm : st.s.jmob j with
  | some mi =>
    simp only [hjm] at h
    split_ifs at h <;> (simp only [Except.ok.injEq] at h; subst h; exact hall)
  | none =>
    simp only [hjm] at h
    by_cases hnl : (jointAt st.s j).mustLoop = true
    · simp only [hnl, if_true, Except.ok.injEq] at h; subst h; exact hall
    simp only [hnl, Bool.false_eq_true, if_false] at h
    by_cases hxor : (inTree st.s (jointAt st.s j).parent == inTree st.s (jointAt st.s j).child) = true
    · simp only [hxor, if_true, Except.ok.injEq] at h; subst h; exact hall
    simp only [hxor, Bool.false_eq_true, if_false] at h
    by_cases hlev : (inbLevel st.s (jointAt st.s j) + 1 != level) = true
    · simp only [hlev, if_true, Except.ok.injEq] at h; subst h; exact hall
    simp only [hlev, Bool.false_eq_true, if_false] at h
    have hpre : Pre st.s j := ⟨hj, hjm, by simpa using hnl, by simpa using hxor⟩
    obtain ⟨m, l, hinb, houtb, hmlev, hmj, hends, heq⟩ := addMob_eq hpre
    have hm_level : m.level = level := by
      simp only [bne_iff_ne, ne_eq, Decidable.not_not] at hlev
      unfold inbLevel at hlev
      rcases hends with ⟨_, hi, ho⟩ | ⟨_, hi, ho⟩
      · rw [hi] at hinb; simp only [hinb] at hlev; omega
      · rw [hi] at hinb; rw [ho] at houtb; simp only [houtb, hinb, Option.getD_some] at hlev; omega
    have hjw := hG.inv.joints_wf j hj
    have hout_lt : m.outb < g.bodies.length := by
      rcases hends with ⟨_, _, ho⟩ | ⟨_, _, ho⟩ <;> rw [ho] <;> [exact hjw.2; exact hjw.1]
    have hout_ne0 : m.outb ≠ 0 := by
      intro h0; rw [h0, hG.inv.lvl0] at houtb; cases houtb
    have hmass : 0 < massOf g m.outb := Nat.pos_of_ne_zero (hN m.outb (Nat.pos_of_ne_zero hout_ne0) hout_lt)
    have hlo : lastOutb (addMob st.s j) = m.outb := by rw [heq]; exact lastOutb_addMobWith _ _ _
    have hstop : ((typeOf g (jointAt st.s j).type).nmob == 0 || decide (0 < massOf g (lastOutb (addMob st.s j)))) = true := by
      rw [hlo]; simp [hmass]
    simp only [hstop, if_true, Except.ok.injEq] at h
    subst h
    intro m' hm'
    replace hm' : m' ∈ st.s.mobs ∨ m' = m := by
      simp only [heq] at hm'; simpa [addMobWith] using hm'
    rcases hm' with hm' | rfl
    · exact hall m' hm'
    · exact hm_level

/-- level-1 pass from an empty tree without massless bodies: every body with a usable Ground joint ends at level 1 -/
theorem level1_from_empty {g : Input} {s : St} {st : GS} (hN : NoMassless g) (hI : Inv g s) (hM : M7 g s)
    (hB : PhaseB g s) (hempty : s.mobs = [])
    (h : (List.range s.joints.length).foldlM (growJoint g 1) ⟨s, [], false⟩ = .ok st) :
    GInv g 1 s st ∧ ∀ j, GroundJoint s j → (jointAt s j).child ≠ 0 → st.s.level (jointAt s j).child = some 1 := by
  obtain ⟨hG, hdone⟩ := level1_pass hI hM hB s.joints.length (Nat.le_refl _) st h
  refine ⟨hG, ?_⟩
  have hall : ∀ m ∈ st.s.mobs, m.level = 1 := by
    have := foldlM_inv (fun (t : GS) => GInv g 1 s t ∧ ∀ m ∈ t.s.mobs, m.level = 1) (growJoint g 1) _
      (by
        intro a x a' hx ⟨hGa, ha⟩ hstep
        have hxl : x < a.s.joints.length := by rw [hGa.ext.joints]; exact List.mem_range.mp hx
        exact ⟨growJoint_spec hGa hxl hstep, growJoint_levels hN hGa hxl hstep ha⟩)
      ⟨s, [], false⟩ st ⟨⟨hI, hM, Ext.refl s, by simp⟩, by simp [hempty]⟩ h
    exact this.2
  intro j hgj hc0
  have hin := hdone j hgj.1 hgj
  rcases (hG.inv.tree _).mp hin with h0 | hmem
  · exact absurd h0 hc0
  · obtain ⟨m, hm, ho⟩ := mem_outbs.mp hmem
    have := (hG.inv.levels m hm).1
    rw [ho, hall m hm] at this
    exact this

/-! ### the first loop adds a usable Ground joint for every must-be-base body without input Ground joint -/

theorem jointAt_mem {s : St} {j : Nat} (hj : j < s.joints.length) : jointAt s j ∈ s.joints := by
  have : jointAt s j = s.joints[j] := by simp [jointAt, List.getD, List.getElem?_eq_getElem hj]
  rw [this]; exact List.getElem_mem hj

theorem connected_true {s : St} {b1 b2 : Nat} (h : bodiesAreConnected s b1 b2 = true) :
    ∃ e ∈ s.joints, (e.parent = b1 ∧ e.child = b2) ∨ (e.child = b1 ∧ e.parent = b2) := by
  unfold bodiesAreConnected at h
  simp only [Bool.or_eq_true, List.any_eq_true, beq_iff_eq] at h
  rcases h with ⟨j, hj, hc⟩ | ⟨j, hj, hc⟩
  · obtain ⟨hjl, hjp⟩ := mem_jointsAsParent.mp hj
    exact ⟨jointAt s j, jointAt_mem hjl, Or.inl ⟨hjp, hc⟩⟩
  · obtain ⟨hjl, hjp⟩ := mem_jointsAsChild.mp hj
    exact ⟨jointAt s j, jointAt_mem hjl, Or.inr ⟨hjp, hc⟩⟩

theorem checkBody_cases {g : Input} {a a' : St} {x : Nat} (h : checkBody g a x = .ok a') :
    (a' = connectToGround a x) ∨
    (a' = a ∧ ¬ (mustBaseOf g x = true ∧ bodiesAreConnected a x 0 = false)) := by
  unfold checkBody at h
  dsimp only at h
  split_ifs at h with h1 h2 h3
  · left; simp only [Except.ok.injEq] at h; exact h.symm
  · right; simp only [Except.ok.injEq] at h
    exact ⟨h.symm, fun hc => h3 (Or.inr hc)⟩

/-- state of the first loop after the bodies `1..k` -/
structure S1 (g : Input) (b k : Nat) (a : St) : Prop where
  jx : ∃ extras, a.joints = g.joints ++ extras ∧
        ∀ e ∈ extras, e.parent = 0 ∧ e.mustLoop = false ∧ 0 < e.child ∧ e.child ≤ k
  empty : a.mobs = []
  goal : b ≤ k → ∃ j, GroundJoint a j ∧ (jointAt a j).child = b

theorem step1_base {g : Input} {b : Nat} (hb0 : 0 < b) (hbase : mustBaseOf g b = true)
    (hnogj : ∀ jt ∈ g.joints, ¬ (jt.parent = b ∧ jt.child = 0) ∧ ¬ (jt.parent = 0 ∧ jt.child = b)) :
    ∀ k a, (List.range' 1 k).foldlM (checkBody g) (init g) = .ok a → S1 g b k a := by
  intro k
  induction k with
  | zero =>
    intro a h
    simp [pure, Except.pure] at h
    subst h
    exact ⟨⟨[], by simp [init], by simp⟩, rfl, by intro hb; omega⟩
  | succ k ih =>
    intro a' h
    rw [List.range'_concat, List.foldlM_append] at h
    simp only [bind, Except.bind] at h
    cases hpre : (List.range' 1 k).foldlM (checkBody g) (init g) with
    | error e => simp [hpre] at h
    | ok a =>
      simp only [hpre, List.foldlM_cons, List.foldlM_nil, bind, Except.bind, pure, Except.pure, Nat.one_mul] at h
      have hS := ih a hpre
      cases hcb : checkBody g a (1 + k) with
      | error e => simp [hcb] at h
      | ok a1 =>
        simp only [hcb, Except.ok.injEq] at h
        subst h
        have hx : 1 + k = k + 1 := by omega
        rw [hx] at hcb
        obtain ⟨extras, hje, hpe⟩ := hS.jx
        rcases checkBody_cases hcb with hc | ⟨hc, hncond⟩
        · -- a Ground joint for body k+1 was added
          subst hc
          refine ⟨⟨extras ++ [⟨1, 0, k + 1, false, true⟩], by simp [connectToGround, hje], ?_⟩, hS.empty, ?_⟩
          · intro e he
            rcases List.mem_append.mp he with he | he
            · obtain ⟨h1, h2, h3, h4⟩ := hpe e he
              exact ⟨h1, h2, h3, Nat.le_succ_of_le h4⟩
            · simp at he; subst he; exact ⟨rfl, rfl, Nat.succ_pos _, Nat.le_refl _⟩
          · intro hbk
            by_cases hbk' : b ≤ k
            · obtain ⟨j, ⟨hjl, hjp, hjn⟩, hjc⟩ := hS.goal hbk'
              refine ⟨j, ⟨by simp [connectToGround]; omega, ?_, ?_⟩, ?_⟩
              · rw [jointAt_connect_lt hjl]; exact hjp
              · rw [jointAt_connect_lt hjl]; exact hjn
              · rw [jointAt_connect_lt hjl]; exact hjc
            · have hbe : b = k + 1 := by omega
              refine ⟨a.joints.length, ⟨by simp [connectToGround], ?_, ?_⟩, ?_⟩
              · rw [jointAt_connect_len]
              · rw [jointAt_connect_len]
              · rw [jointAt_connect_len]; exact hbe.symm
        · subst hc
          refine ⟨⟨extras, hje, fun e he => ?_⟩, hS.empty, ?_⟩
          · obtain ⟨h1, h2, h3, h4⟩ := hpe e he
            exact ⟨h1, h2, h3, Nat.le_succ_of_le h4⟩
          · intro hbk
            by_cases hbk' : b ≤ k
            · exact hS.goal hbk'
            · exfalso
              have hbe : b = k + 1 := by omega
              apply hncond
              rw [← hbe]
              refine ⟨hbase, ?_⟩
              by_contra hcon
              have hcon' : bodiesAreConnected a1 b 0 = true := by simpa using hcon
              obtain ⟨e, he, hcase⟩ := connected_true hcon'
              rw [hje] at he
              rcases List.mem_append.mp he with he | he
              · obtain ⟨n1, n2⟩ := hnogj e he
                rcases hcase with hc1 | hc1
                · exact n1 hc1
                · exact n2 ⟨hc1.2, hc1.1⟩
              · obtain ⟨h1, _, h3, h4⟩ := hpe e he
                rcases hcase with hc1 | hc1
                · omega
                · omega

/-! ### levels are never reassigned -/

theorem outer_lvl {g : Input} : ∀ (fuel : Nat) (s s' : St),
    Inv g s → M7 g s → PhaseB g s → outer g fuel s = .ok s' → LvlMono s s' := by
  intro fuel
  induction fuel with
  | zero => intro s s' _ _ _ h; simp [outer] at h
  | succ f ih =>
    intro s s' hI hM hB h
    unfold outer at h
    cases hg : growTree g s with
    | error e => simp [hg] at h
    | ok s1 =>
      simp only [hg] at h
      obtain ⟨hI1, hM1, hE1⟩ := growTree_spec hI hM hg
      have hB1 := hB.ext hE1
      cases hc : chooseNewBaseBody s1 with
      | none =>
        simp only [hc, Except.ok.injEq] at h
        subst h; exact hE1.lvl
      | some b =>
        simp only [hc] at h
        obtain ⟨_, _, hbn⟩ := choose_some hc
        rw [hB1.nb] at hbn
        have := ih _ s' (connect_inv hI1 hbn) (connect_M7 hI1 hM1) (hB1.connect b) h
        exact LvlMono.trans hE1.lvl this

theorem breakStep_lvl {g : Input} {J : List Joint} {n : Nat} {s : St} (hC : InvC g J n s) :
    LvlMono s (breakStep g s n) := by
  have hI := hC.inv
  intro b l hb
  by_cases hjm : (s.jmob n).isSome = true
  · rw [breakStep_done hjm]; exact hb
  · have hfree : s.jmob n = none := by simpa using hjm
    by_cases hgood : (typeOf g (jointAt s n).type).good = true
    · rw [breakStep_loop hfree hgood]; exact hb
    · have hgood' : (typeOf g (jointAt s n).type).good = false := by simpa using hgood
      unfold breakStep
      simp only [hjm, hgood', Bool.false_eq_true, if_false]
      show upd s.level s.nb _ b = some l
      have hne : b ≠ s.nb := by
        intro he
        have hin : (s.level b).isSome = true := by simp [hb]
        rcases (hI.tree b).mp hin with h0 | hmem
        · have := hI.nb_ge; have := hI.nb_pos; omega
        · obtain ⟨m', hm', ho⟩ := mem_outbs.mp hmem
          have := hI.outb_lt m' hm'; omega
      rw [upd_ne _ _ hne]; exact hb

theorem bl_lvl {g : Input} {s : St} (hC : InvC g s.joints 0 s) :
    ∀ n, n ≤ s.joints.length → LvlMono s (bl g s n) := by
  intro n
  induction n with
  | zero => intro _ b l h; simpa [bl] using h
  | succ k ih =>
    intro hk
    rw [bl_succ]
    exact LvlMono.trans (ih (Nat.le_of_succ_le hk)) (breakStep_lvl (bl_spec hC k (Nat.le_of_succ_le hk)))

/-- Without massless input bodies, a must-be-base body without input joint to Ground ends at level 1. -/
theorem base_level_one {g : Input} {s : St} (hW : WF g) (hN : NoMassless g) (h : generate g = .ok s)
    {b : Nat} (hb0 : 0 < b) (hbn : b < g.bodies.length) (hbase : mustBaseOf g b = true)
    (hnogj : ∀ jt ∈ g.joints, ¬ (jt.parent = b ∧ jt.child = 0) ∧ ¬ (jt.parent = 0 ∧ jt.child = b)) :
    s.level b = some 1 := by
  unfold generate at h
  cases h1 : step1 g with
  | error e => simp [h1] at h
  | ok s1 =>
    simp only [h1] at h
    cases h2 : outer g (g.bodies.length + 1) s1 with
    | error e => simp [h2] at h
    | ok s2 =>
      simp only [h2, Except.ok.injEq] at h
      obtain ⟨hI1, hM1, hB1, hJ1⟩ := step1_spec hW h1
      have hS1 := step1_base hb0 hbase hnogj (g.bodies.length - 1) s1 h1
      obtain ⟨j, hgj, hjc⟩ := hS1.goal (by omega)
      -- first iteration of the outer loop, first level of growTree
      have h2' := h2
      unfold outer at h2'
      cases hg : growTree g s1 with
      | error e => simp [hg] at h2'
      | ok sA =>
        simp only [hg] at h2'
        have hgA := hg
        unfold growTree growLevels at hgA
        cases hfold : (List.range s1.joints.length).foldlM (growJoint g 1) ⟨s1, [], false⟩ with
        | error e => simp [hfold] at hgA
        | ok st =>
          simp only [hfold] at hgA
          obtain ⟨hG, hlev1⟩ := level1_from_empty hN hI1 hM1 hB1 hS1.empty hfold
          have hb_st : st.s.level b = some 1 := by
            have := hlev1 j hgj (by rw [hjc]; omega)
            rw [hjc] at this; exact this
          have hb_A : sA.level b = some 1 := by
            by_cases hany : st.any = true
            · simp only [hany, if_true] at hgA
              exact (growLevels_spec _ _ _ _ _ hG.inv hG.m7 hgA).2.2.lvl b 1 hb_st
            · simp only [hany, Bool.false_eq_true, if_false, Except.ok.injEq] at hgA
              subst hgA; exact hb_st
          obtain ⟨hIA, hMA, hEA⟩ := growTree_spec hI1 hM1 hg
          have hBA := hB1.ext hEA
          have hb_2 : s2.level b = some 1 := by
            cases hc : chooseNewBaseBody sA with
            | none =>
              simp only [hc, Except.ok.injEq] at h2'
              subst h2'; exact hb_A
            | some b' =>
              simp only [hc] at h2'
              obtain ⟨_, _, hbn'⟩ := choose_some hc
              rw [hBA.nb] at hbn'
              exact outer_lvl _ _ _ (connect_inv hIA hbn') (connect_M7 hIA hMA) (hBA.connect b') h2' b 1 hb_A
          obtain ⟨hI2, hM2, hB2, hJ2, hA2⟩ := outer_spec _ _ _ hI1 hM1 hB1 hJ1 h2
          have hC0 : InvC g s2.joints 0 s2 :=
            { inv := hI2, m7 := hM2, joints := rfl,
              allin := by
                intro b hb
                by_cases hb0 : b = 0
                · left; exact hb0
                · exact (hI2.tree b).mp (hA2 b (Nat.pos_of_ne_zero hb0) (by rw [hB2.nb]; exact hb)),
              cons_nodup := by simp [cjoints, hB2.cons],
              cons_lt := by simp [hB2.cons],
              done := by intro j hj; omega,
              jloop_idx := by intro j i hji; simp [hB2.jloop] at hji,
              cons_kind := by simp [hB2.cons],
              slaves_welded := by intro b hb1 hb2; rw [hB2.nb] at hb2; omega }
          have hbl : breakLoops g s2 = bl g s2 s2.joints.length := rfl
          rw [hbl] at h
          subst h
          exact bl_lvl hC0 _ (Nat.le_refl _) b 1 hb_2

end C42
