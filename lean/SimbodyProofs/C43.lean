import SimbodyModel.C43
import Mathlib.Tactic.Ring
import Mathlib.Tactic.FieldSimp
import Mathlib.Tactic.Linarith
import Mathlib.Tactic.LinearCombination
import Mathlib.Tactic.Positivity
import Mathlib.Tactic.NormNum
import Mathlib.Algebra.Order.Field.Basic

/-!
# C43 — property theorems (assembly and fitting results satisfy what they report)

The optimizers are vendored and not modelled (partial).  Proved over an arbitrary linear ordered field `K`:

* decision logic of `Assembler::assemble()` / `track()`: complete case analysis of a success (`assemble_ok_cases`); the error
  value the code HOLDS is within tolerance (`assemble_ok_held_error_within_tol`) — a fact about the variable `tolAchieved`:
  it is the measured error of the state left behind only when the revert rule did not fire (`assemble_ok_measured`); in the
  revert branch it is the error measured before `prescribeQ` (finding `assemble.revert.prescribed.qerr`); the returned value
  is the goal of the initial or of the optimizer's state (`assemble_ok_value`); from a feasible start `assemble()` never
  returns a worse goal (`assemble_ok_not_worse`); `track_ok_feasible`; `track()` has no revert rule (`track_may_worsen`);
* goal-function algebra: `weightedGoal_nonneg`, `weightedGoal_eq_zero_iff`, `distSq_eq_zero_iff`,
  `markersGoal_eq_zero_iff` (zero ⇔ every weighted marker sits on its observation), `osensorsGoal_eq_zero_iff`;
* free-q bookkeeping: `mem_freeQs`, `freeQs_sorted`;
* `wrms_sq` — the value `ObservedPointFitter` returns squares to the weighted mean squared distance;
* `contract_sound` — acceptance of the exact contract implies the property's statements for the returned state.
-/
namespace C43

variable {K : Type} [Field K] [LinearOrder K] [IsStrictOrderedRing K]

/-! ## assemble() / track() -/

/-- the body of `assemble()` after the short-circuit and optimizer-exception tests, with the revert rule spelled out -/
theorem assembleDecide_main (optThrew : Bool) (tol initErr initGoal : K) (post : Seen K)
    (h1 : ¬(initErr ≤ tol ∧ initGoal ≤ tol * tol)) (h2 : ¬(optThrew = true ∧ tol < post.err)) :
    assembleDecide optThrew tol initErr initGoal post =
      if initErr ≤ tol ∧ initGoal < post.goal then
        (if tol < initErr then Outcome.failed else Outcome.ok initGoal initErr true)
      else (if tol < post.err then Outcome.failed else Outcome.ok post.goal post.err false) := by
  unfold assembleDecide
  rw [if_neg h1, if_neg h2]
  by_cases ha : initErr ≤ tol <;> by_cases hb : initGoal < post.goal <;> simp [ha, hb]

/-- complete case analysis of a successful `assemble()`: (a) short circuit — nothing was touched, value and error are those
of the incoming state; (b) normal — value and error are those measured on the optimizer's state, which is the state left
behind; (c) revert — value and error are the INITIAL ones (`initErr ≤ tol`, optimizer's goal worse).  In (c) the error was
measured before `prescribeQ`; the code does not re-measure the state it leaves (initial free q's + newly prescribed q's). -/
theorem assemble_ok_cases (optThrew : Bool) (tol initErr initGoal : K) (post : Seen K) (g e : K) (r : Bool)
    (h : assembleDecide optThrew tol initErr initGoal post = .ok g e r) :
    (r = false ∧ g = initGoal ∧ e = initErr ∧ initErr ≤ tol ∧ initGoal ≤ tol * tol) ∨
    (r = false ∧ g = post.goal ∧ e = post.err ∧ post.err ≤ tol) ∨
    (r = true ∧ g = initGoal ∧ e = initErr ∧ initErr ≤ tol ∧ initGoal < post.goal) := by
  by_cases h1 : initErr ≤ tol ∧ initGoal ≤ tol * tol
  · unfold assembleDecide at h
    rw [if_pos h1] at h; injection h with hg he hr
    exact Or.inl ⟨hr.symm, hg.symm, he.symm, h1.1, h1.2⟩
  · by_cases h2 : optThrew = true ∧ tol < post.err
    · unfold assembleDecide at h; rw [if_neg h1, if_pos h2] at h; cases h
    · rw [assembleDecide_main optThrew tol initErr initGoal post h1 h2] at h
      by_cases hr : initErr ≤ tol ∧ initGoal < post.goal
      · rw [if_pos hr] at h
        by_cases ht : tol < initErr
        · rw [if_pos ht] at h; cases h
        · rw [if_neg ht] at h; injection h with hg he hrr
          exact Or.inr (Or.inr ⟨hrr.symm, hg.symm, he.symm, hr.1, hr.2⟩)
      · rw [if_neg hr] at h
        by_cases ht : tol < post.err
        · rw [if_pos ht] at h; cases h
        · rw [if_neg ht] at h; injection h with hg he hrr
          exact Or.inr (Or.inl ⟨hrr.symm, hg.symm, he.symm, not_lt.mp ht⟩)

/-- success ⇒ the error value the code HOLDS (`tolAchieved`) is within tolerance.  This is a fact about that variable; it
is the measured error of the state left behind only when the revert rule did not fire (`assemble_ok_measured`). -/
theorem assemble_ok_held_error_within_tol (optThrew : Bool) (tol initErr initGoal : K) (post : Seen K) (g e : K) (r : Bool)
    (h : assembleDecide optThrew tol initErr initGoal post = .ok g e r) : e ≤ tol := by
  rcases assemble_ok_cases optThrew tol initErr initGoal post g e r h with ⟨_, _, he, h1, _⟩ | ⟨_, _, he, h1⟩ | ⟨_, _, he, h1, _⟩ <;>
    rw [he] <;> exact h1

/-- without a revert, value and error are those measured on the state `assemble()` leaves behind (the untouched incoming
state on a short circuit, the optimizer's state otherwise) -/
theorem assemble_ok_measured (optThrew : Bool) (tol initErr initGoal : K) (post : Seen K) (g e : K)
    (h : assembleDecide optThrew tol initErr initGoal post = .ok g e false) :
    (g = initGoal ∧ e = initErr ∧ initGoal ≤ tol * tol) ∨ (g = post.goal ∧ e = post.err) := by
  rcases assemble_ok_cases optThrew tol initErr initGoal post g e false h with ⟨_, hg, he, _, h2⟩ | ⟨_, hg, he, _⟩ | ⟨hr, _⟩
  · exact Or.inl ⟨hg, he, h2⟩
  · exact Or.inr ⟨hg, he⟩
  · cases hr

/-- success ⇒ the returned value is the goal of the initial state or of the optimizer's state -/
theorem assemble_ok_value (optThrew : Bool) (tol initErr initGoal : K) (post : Seen K) (g e : K) (r : Bool)
    (h : assembleDecide optThrew tol initErr initGoal post = .ok g e r) :
    (g = initGoal ∧ e = initErr) ∨ (g = post.goal ∧ e = post.err) := by
  rcases assemble_ok_cases optThrew tol initErr initGoal post g e r h with ⟨_, hg, he, _⟩ | ⟨_, hg, he, _⟩ | ⟨_, hg, he, _⟩
  · exact Or.inl ⟨hg, he⟩
  · exact Or.inr ⟨hg, he⟩
  · exact Or.inl ⟨hg, he⟩

/-- **From a feasible start `assemble()` never returns a worse goal**, whatever the optimizer produced -/
theorem assemble_ok_not_worse (optThrew : Bool) (tol initErr initGoal : K) (post : Seen K) (g e : K) (r : Bool)
    (hfeas : initErr ≤ tol) (h : assembleDecide optThrew tol initErr initGoal post = .ok g e r) : g ≤ initGoal := by
  have hcases := assemble_ok_cases optThrew tol initErr initGoal post g e r h
  rcases hcases with ⟨_, hg, _⟩ | ⟨hr, hg, he, hle⟩ | ⟨_, hg, _⟩
  · rw [hg]
  · -- normal branch: the revert rule did not fire although the start was feasible, so the goal did not get worse
    rw [hg]
    by_contra hw
    have hlt : initGoal < post.goal := not_le.mp hw
    by_cases h1 : initErr ≤ tol ∧ initGoal ≤ tol * tol
    · unfold assembleDecide at h; rw [if_pos h1] at h; injection h with hg' _ _
      rw [hg] at hg'; rw [hg'] at hlt; exact lt_irrefl _ hlt
    · by_cases h2 : optThrew = true ∧ tol < post.err
      · exact absurd hle (not_le.mpr h2.2)
      · rw [assembleDecide_main optThrew tol initErr initGoal post h1 h2, if_pos ⟨hfeas, hlt⟩] at h
        by_cases ht : tol < initErr
        · rw [if_pos ht] at h; cases h
        · rw [if_neg ht] at h; injection h with _ _ hrr; rw [hr] at hrr; cases hrr
  · rw [hg]

/-- a short circuit happens exactly when the start is within tolerance and its goal is below `tol²`; nothing moves -/
theorem assemble_short_circuit (optThrew : Bool) (tol initErr initGoal : K) (post : Seen K)
    (h1 : initErr ≤ tol) (h2 : initGoal ≤ tol * tol) :
    assembleDecide optThrew tol initErr initGoal post = .ok initGoal initErr false := by
  unfold assembleDecide; rw [if_pos ⟨h1, h2⟩]

theorem track_ok_feasible (optThrew : Bool) (tol initErr initGoal : K) (post : Seen K) (g e : K) (r : Bool)
    (h : trackDecide optThrew tol initErr initGoal post = .ok g e r) : e ≤ tol := by
  unfold trackDecide at h
  by_cases h1 : initErr ≤ tol ∧ initGoal ≤ tol * tol
  · rw [if_pos h1] at h; injection h with hg he _; rw [← he]; exact h1.1
  · rw [if_neg h1] at h
    by_cases h2 : optThrew = true ∧ tol < post.err
    · rw [if_pos h2] at h; cases h
    · rw [if_neg h2] at h
      by_cases h3 : tol < post.err
      · rw [if_pos h3] at h; cases h
      · rw [if_neg h3] at h; injection h with hg he _; rw [← he]; exact not_lt.mp h3

/-- whether the optimizer threw cannot change what `track()` does -/
theorem track_optThrew_irrelevant (tol initErr initGoal : K) (post : Seen K) :
    trackDecide true tol initErr initGoal post = trackDecide false tol initErr initGoal post := by
  unfold trackDecide
  by_cases h1 : initErr ≤ tol ∧ initGoal ≤ tol * tol
  · simp [h1]
  · by_cases h3 : tol < post.err <;> simp [h1, h3]

/-- `track()` has no revert rule: from a feasible start it can report success with a worse goal (the decision
logic gives no guarantee; the tie measures that the optimizer does not do this) -/
theorem track_may_worsen :
    ∃ (tol initErr initGoal : ℚ) (post : Seen ℚ) (g e : ℚ),
      initErr ≤ tol ∧ trackDecide false tol initErr initGoal post = .ok g e false ∧ initGoal < g := by
  refine ⟨1, 0, 2, ⟨0, 3⟩, 3, 0, by norm_num, ?_, by norm_num⟩
  norm_num [trackDecide]

/-! ## goal algebra -/

theorem sum_wd_nonneg (items : List (K × K)) (h : ∀ i ∈ items, 0 ≤ i.1 ∧ 0 ≤ i.2) :
    0 ≤ items.foldr (fun wd acc => wd.1 * wd.2 + acc) 0 := by
  induction items with
  | nil => simp
  | cons a t ih =>
    simp only [List.foldr_cons]
    have ha := h a (List.mem_cons_self ..)
    have := ih (fun i hi => h i (List.mem_cons_of_mem _ hi))
    have := mul_nonneg ha.1 ha.2
    linarith

theorem sum_w_nonneg (items : List (K × K)) (h : ∀ i ∈ items, 0 ≤ i.1) :
    0 ≤ items.foldr (fun wd acc => wd.1 + acc) 0 := by
  induction items with
  | nil => simp
  | cons a t ih =>
    simp only [List.foldr_cons]
    have ha := h a (List.mem_cons_self ..)
    have := ih (fun i hi => h i (List.mem_cons_of_mem _ hi))
    linarith

theorem sum_w_pos (items : List (K × K)) (hne : items ≠ []) (h : ∀ i ∈ items, 0 < i.1) :
    0 < items.foldr (fun wd acc => wd.1 + acc) 0 := by
  cases items with
  | nil => exact absurd rfl hne
  | cons a t =>
    simp only [List.foldr_cons]
    have ha := h a (List.mem_cons_self ..)
    have := sum_w_nonneg t (fun i hi => le_of_lt (h i (List.mem_cons_of_mem _ hi)))
    linarith

/-- goals are non-negative (weights and squared deviations are) -/
theorem weightedGoal_nonneg (items : List (K × K)) (h : ∀ i ∈ items, 0 ≤ i.1 ∧ 0 ≤ i.2) :
    0 ≤ weightedGoal items := by
  unfold weightedGoal
  apply div_nonneg (sum_wd_nonneg items h)
  have := sum_w_nonneg items (fun i hi => (h i hi).1)
  linarith

theorem sum_wd_eq_zero_iff (items : List (K × K)) (h : ∀ i ∈ items, 0 < i.1 ∧ 0 ≤ i.2) :
    items.foldr (fun wd acc => wd.1 * wd.2 + acc) 0 = 0 ↔ ∀ i ∈ items, i.2 = 0 := by
  induction items with
  | nil => simp
  | cons a t ih =>
    simp only [List.foldr_cons, List.mem_cons, forall_eq_or_imp]
    have ha := h a (List.mem_cons_self ..)
    have ht := fun i hi => h i (List.mem_cons_of_mem a hi)
    have hs := sum_wd_nonneg t (fun i hi => ⟨le_of_lt (ht i hi).1, (ht i hi).2⟩)
    have hm := mul_nonneg (le_of_lt ha.1) ha.2
    constructor
    · intro h0
      have h1 : a.1 * a.2 = 0 := by linarith
      have h2 : t.foldr (fun wd acc => wd.1 * wd.2 + acc) 0 = 0 := by linarith
      refine ⟨?_, (ih ht).mp h2⟩
      rcases mul_eq_zero.mp h1 with hz | hz
      · exact absurd hz (ne_of_gt ha.1)
      · exact hz
    · rintro ⟨h1, h2⟩
      rw [h1, (ih ht).mpr h2]; ring

/-- **A goal is zero exactly when every (positively weighted) deviation is zero.**  Needs at least one active term:
with none the C++ divides 0 by 0 (`wtot = 0`) — the hypothesis the proof forces is a real precondition of `calcGoal`. -/
theorem weightedGoal_eq_zero_iff (items : List (K × K)) (hne : items ≠ []) (h : ∀ i ∈ items, 0 < i.1 ∧ 0 ≤ i.2) :
    weightedGoal items = 0 ↔ ∀ i ∈ items, i.2 = 0 := by
  unfold weightedGoal
  have hw := sum_w_pos items hne (fun i hi => (h i hi).1)
  have hden : (2 : K) * items.foldr (fun wd acc => wd.1 + acc) 0 ≠ 0 := by positivity
  rw [div_eq_zero_iff]
  constructor
  · rintro (h0 | h0)
    · exact (sum_wd_eq_zero_iff items h).mp h0
    · exact absurd h0 hden
  · intro h0; exact Or.inl ((sum_wd_eq_zero_iff items h).mpr h0)

theorem distSq_nonneg (p o : P3 K) : 0 ≤ distSq p o := by
  unfold distSq
  have := mul_self_nonneg (p.x - o.x); have := mul_self_nonneg (p.y - o.y); have := mul_self_nonneg (p.z - o.z)
  linarith

theorem distSq_eq_zero_iff (p o : P3 K) : distSq p o = 0 ↔ p.x = o.x ∧ p.y = o.y ∧ p.z = o.z := by
  unfold distSq
  have hx := mul_self_nonneg (p.x - o.x); have hy := mul_self_nonneg (p.y - o.y); have hz := mul_self_nonneg (p.z - o.z)
  constructor
  · intro h
    have h1 : (p.x - o.x) * (p.x - o.x) = 0 := by linarith
    have h2 : (p.y - o.y) * (p.y - o.y) = 0 := by linarith
    have h3 : (p.z - o.z) * (p.z - o.z) = 0 := by linarith
    exact ⟨sub_eq_zero.mp (mul_self_eq_zero.mp h1), sub_eq_zero.mp (mul_self_eq_zero.mp h2), sub_eq_zero.mp (mul_self_eq_zero.mp h3)⟩
  · rintro ⟨h1, h2, h3⟩; rw [h1, h2, h3]; ring

theorem markersGoal_all_present (ms : List (K × P3 K × P3 K)) :
    markersGoal (ms.map (fun m => (m.1, m.2.1, some m.2.2))) = weightedGoal (ms.map (fun m => (m.1, distSq m.2.1 m.2.2))) := by
  unfold markersGoal
  congr 1
  induction ms with
  | nil => rfl
  | cons a t ih => simp only [List.map_cons, List.filterMap_cons, ih]

/-- **Markers**: with all observations present and all weights positive, the goal is zero iff every marker sits
exactly on its observation -/
theorem markersGoal_eq_zero_iff (ms : List (K × P3 K × P3 K)) (hne : ms ≠ []) (hw : ∀ m ∈ ms, 0 < m.1) :
    markersGoal (ms.map (fun m => (m.1, m.2.1, some m.2.2))) = 0 ↔
      ∀ m ∈ ms, m.2.1.x = m.2.2.x ∧ m.2.1.y = m.2.2.y ∧ m.2.1.z = m.2.2.z := by
  rw [markersGoal_all_present]
  have hne' : ms.map (fun m => (m.1, distSq m.2.1 m.2.2)) ≠ [] := by simpa using hne
  rw [weightedGoal_eq_zero_iff _ hne']
  · constructor
    · intro h m hm
      have := h (m.1, distSq m.2.1 m.2.2) (List.mem_map.mpr ⟨m, hm, rfl⟩)
      exact (distSq_eq_zero_iff _ _).mp this
    · intro h i hi
      obtain ⟨m, hm, rfl⟩ := List.mem_map.mp hi
      exact (distSq_eq_zero_iff _ _).mpr (h m hm)
  · intro i hi
    obtain ⟨m, hm, rfl⟩ := List.mem_map.mp hi
    exact ⟨hw m hm, distSq_nonneg _ _⟩

/-- **Orientation sensors**: goal zero iff every rotation-error angle is zero -/
theorem osensorsGoal_eq_zero_iff (ss : List (K × K)) (hne : ss ≠ []) (hw : ∀ s ∈ ss, 0 < s.1) :
    osensorsGoal ss = 0 ↔ ∀ s ∈ ss, s.2 = 0 := by
  unfold osensorsGoal
  have hne' : ss.map (fun s => (s.1, s.2 * s.2)) ≠ [] := by simpa using hne
  rw [weightedGoal_eq_zero_iff _ hne']
  · constructor
    · intro h s hs
      have := h (s.1, s.2 * s.2) (List.mem_map.mpr ⟨s, hs, rfl⟩)
      exact mul_self_eq_zero.mp this
    · intro h i hi
      obtain ⟨s, hs, rfl⟩ := List.mem_map.mp hi
      show s.2 * s.2 = 0
      rw [h s hs]; ring
  · intro i hi
    obtain ⟨s, hs, rfl⟩ := List.mem_map.mp hi
    exact ⟨hw s hs, mul_self_nonneg _⟩

/-- the Assembler's objective is non-negative when every condition weight and goal is -/
theorem totalGoal_nonneg (gs : List (K × K)) (h : ∀ g ∈ gs, 0 ≤ g.1 ∧ 0 ≤ g.2) : 0 ≤ totalGoal gs :=
  sum_wd_nonneg gs h

/-! ## free q's -/

omit [Field K] [LinearOrder K] [IsStrictOrderedRing K] in
/-- a q is a free parameter iff it exists and is not locked -/
theorem mem_freeQs (nq : Nat) (locked : List Nat) (q : Nat) : q ∈ freeQs nq locked ↔ q < nq ∧ q ∉ locked := by
  unfold freeQs
  simp [List.mem_filter]

omit [Field K] [LinearOrder K] [IsStrictOrderedRing K] in
/-- free q's are listed in ascending order without repetition (`freeQ2Q` is increasing) -/
theorem freeQs_sorted (nq : Nat) (locked : List Nat) : (freeQs nq locked).Pairwise (· < ·) := by
  unfold freeQs
  exact List.Pairwise.filter _ (List.pairwise_lt_range)

/-! ## ObservedPointFitter return value -/

/-- with `√` meeting its specification the returned value squares to the weighted mean squared distance -/
theorem wrms_sq (sqrt : K → K) (hs : ∀ x, 0 ≤ x → sqrt x * sqrt x = x ∧ 0 ≤ sqrt x) (items : List (K × K))
    (h : ∀ i ∈ items, 0 ≤ i.1 ∧ 0 ≤ i.2) :
    wrms sqrt items * wrms sqrt items
      = (items.foldr (fun wd acc => wd.1 * wd.2 + acc) 0) / (items.foldr (fun wd acc => wd.1 + acc) 0)
    ∧ 0 ≤ wrms sqrt items := by
  unfold wrms
  have hq : 0 ≤ (items.foldr (fun wd acc => wd.1 * wd.2 + acc) 0) / (items.foldr (fun wd acc => wd.1 + acc) 0) :=
    div_nonneg (sum_wd_nonneg items h) (sum_w_nonneg items (fun i hi => (h i hi).1))
  exact hs _ hq

/-! ## contract -/

theorem qOK_sound (relax : K) (i : QInfo K) (h : qOK relax i = true) :
    (i.kind = 1 → i.qEnd = i.qStart) ∧
    (i.kind = 2 → (∀ a, i.lo = some a → a - relax ≤ i.qEnd) ∧ (∀ a, i.hi = some a → i.qEnd ≤ a + relax)) := by
  unfold qOK at h
  constructor
  · intro hk; simpa [hk] using h
  · intro hk
    have h1 : ¬ i.kind = 1 := by omega
    rw [if_neg h1, if_pos hk, Bool.and_eq_true] at h
    constructor
    · intro a ha; rw [ha] at h; simpa using h.1
    · intro a ha; rw [ha] at h; simpa using h.2

/-- **Contract soundness**: if the exact acceptance predicate says yes for the returned state then the error norm
is within tolerance, the returned goal is the (non-negative) goal of that state, locked and prescribed q's kept their
values exactly, restricted q's are inside their ranges (up to the optimizer's documented relaxation), and — from a
start that was within tolerance — the goal is no worse than at the start (up to `slack`). -/
theorem contract_sound (tol relax slack initErr initGoal ret finalErr finalGoal : K) (qs : List (QInfo K))
    (h : acceptAsm tol relax slack initErr initGoal ret finalErr finalGoal qs = true) :
    finalErr ≤ tol ∧ ret = finalGoal ∧ 0 ≤ ret ∧
    (∀ i ∈ qs, (i.kind = 1 → i.qEnd = i.qStart) ∧
       (i.kind = 2 → (∀ a, i.lo = some a → a - relax ≤ i.qEnd) ∧ (∀ a, i.hi = some a → i.qEnd ≤ a + relax))) ∧
    (initErr ≤ tol → ret ≤ initGoal + slack) := by
  unfold acceptAsm at h
  simp only [Bool.and_eq_true, decide_eq_true_eq, List.all_eq_true] at h
  obtain ⟨⟨⟨⟨h1, h2⟩, h3⟩, h4⟩, h5⟩ := h
  refine ⟨h1, h2, h3, fun i hi => qOK_sound relax i (h4 i hi), fun hf => ?_⟩
  simpa [hf] using h5

/-! ## non-vacuity -/

example : assembleDecide (K := ℚ) false 1 0 5 ⟨0, 7⟩ = .ok 5 0 true := by norm_num [assembleDecide]       -- revert
example : assembleDecide (K := ℚ) false 1 3 5 ⟨0, 7⟩ = .ok 7 0 false := by norm_num [assembleDecide]       -- infeasible start: goal may rise
example : assembleDecide (K := ℚ) true 1 0 5 ⟨2, 7⟩ = .failed := by norm_num [assembleDecide]         -- optimizer threw
example : weightedGoal (K := ℚ) [(2, 3), (1, 0)] = 1 := by norm_num [weightedGoal]

end C43
